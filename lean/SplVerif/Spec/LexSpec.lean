/-
  Independent specification of SPL's lexical grammar (maximal munch), written without
  reference to the implementation's control flow: at every token start all lexeme classes
  propose a match length; the longest wins; a word is a keyword only if the *whole* word
  is one.  Texts on which some position has no proposal, or that contain one of the
  malformed literals the implementation repairs with an error token (`0x` without digits,
  an unterminated character literal, a numeral ≥ 2^32), are outside the conformance part
  of C06 (`lex` returns `none`).
-/
import SplVerif.Model.Basic

namespace Spl.LexSpec

def ws (c : Char) : Bool := c == ' ' || c == '\t' || c == '\n' || c == '\r'
def letter (c : Char) : Bool := ('a' ≤ c && c ≤ 'z') || ('A' ≤ c && c ≤ 'Z') || c == '_'
def digit (c : Char) : Bool := '0' ≤ c && c ≤ '9'
def hexdigit (c : Char) : Bool := digit c || ('a' ≤ c && c ≤ 'f') || ('A' ≤ c && c ≤ 'F')
def wordChar (c : Char) : Bool := letter c || digit c

def keywords : List (List Char × TokenType) :=
  [("if".toList, .If), ("else".toList, .Else), ("while".toList, .While),
   ("array".toList, .Array), ("of".toList, .Of), ("proc".toList, .Proc),
   ("ref".toList, .Ref), ("type".toList, .Type), ("var".toList, .Var)]

def symbols : List (List Char × TokenType) :=
  [("(".toList, .LParen), (")".toList, .RParen), ("[".toList, .LBracket), ("]".toList, .RBracket),
   ("{".toList, .LCurly), ("}".toList, .RCurly), ("=".toList, .Eq), ("#".toList, .Neq),
   ("<".toList, .Lt), ("<=".toList, .Le), (">".toList, .Gt), (">=".toList, .Ge),
   (":=".toList, .Assign), (":".toList, .Colon), (",".toList, .Comma), (";".toList, .Semic),
   ("+".toList, .Plus), ("-".toList, .Minus), ("*".toList, .Times), ("/".toList, .Divide)]

def valOf (c : Char) : Nat :=
  if digit c then c.toNat - '0'.toNat
  else if 'a' ≤ c && c ≤ 'f' then c.toNat - 'a'.toNat + 10
  else c.toNat - 'A'.toNat + 10

def value (base : Nat) : List Char → Nat → Nat
  | [], acc => acc
  | c :: cs, acc => value base cs (acc * base + valOf c)

/-- A proposal: number of characters and the token type. -/
abbrev Proposal := Nat × TokenType

def word (s : List Char) : List Proposal :=
  match s with
  | c :: _ =>
    if letter c then
      let w := s.takeWhile wordChar
      match keywords.find? (fun kw => kw.1 == w) with
      | some (_, ty) => [(w.length, ty)]
      | none => [(w.length, .Ident w)]
    else []
  | [] => []

def decimal (s : List Char) : List Proposal :=
  let ds := s.takeWhile digit
  if ds.isEmpty then [] else [(ds.length, .Int (.Int (value 10 ds 0)))]

def hexadecimal (s : List Char) : List Proposal :=
  match s with
  | '0' :: 'x' :: r =>
    let ds := r.takeWhile hexdigit
    if ds.isEmpty then [] else [(2 + ds.length, .Hex (.Int (value 16 ds 0)))]
  | _ => []

def charLit (s : List Char) : List Proposal :=
  match s with
  | '\'' :: '\\' :: 'n' :: '\'' :: _ => [(4, .Char '\n')]
  | '\'' :: c :: '\'' :: _ => [(3, .Char c)]
  | _ => []

def comment (s : List Char) : List Proposal :=
  match s with
  | '/' :: '/' :: r =>
    let body := r.takeWhile (· != '\n')
    if body.length < r.length then [(2 + body.length + 1, .Comment body)]
    else [(2 + body.length, .Comment body)]
  | _ => []

def isPrefix : List Char → List Char → Bool
  | [], _ => true
  | _ :: _, [] => false
  | a :: as, b :: bs => a == b && isPrefix as bs

def symbol (s : List Char) : List Proposal :=
  symbols.filterMap (fun (sp, ty) => if isPrefix sp s then some (sp.length, ty) else none)

def proposals (s : List Char) : List Proposal :=
  comment s ++ symbol s ++ word s ++ hexadecimal s ++ decimal s ++ charLit s

def longest : List Proposal → Option Proposal
  | [] => none
  | p :: ps =>
    match longest ps with
    | none => some p
    | some q => if q.1 > p.1 then some q else some p

/-- Malformed literals that are *not* lexemes: they make the text lexically invalid. -/
def malformedAt (s : List Char) : Bool :=
  match s with
  | '0' :: 'x' :: r => (r.takeWhile hexdigit).isEmpty || value 16 (r.takeWhile hexdigit) 0 ≥ 4294967296
  | '\'' :: _ => (charLit s).isEmpty
  | c :: _ => digit c && value 10 (s.takeWhile digit) 0 ≥ 4294967296
  | [] => false

def bytes (s : List Char) : Nat := (s.map Char.utf8Size).sum

/-- Maximal-munch tokenisation with fuel (= text length + 1). -/
def go : Nat → List Char → Nat → Option (List Token)
  | 0, _, _ => none
  | fuel + 1, s, off =>
    match s with
    | [] => some [{ ty := .Eof, range := ⟨off, off⟩ }]
    | c :: cs =>
      if ws c then go fuel cs (off + c.utf8Size)
      else if malformedAt s then none
      else
        match longest (proposals s) with
        | none => none
        | some (n, ty) =>
          if n = 0 then none else
          let len := bytes (s.take n)
          match go fuel (s.drop n) (off + len) with
          | none => none
          | some ts => some ({ ty := ty, range := ⟨off, off + len⟩ } :: ts)

/-- `some tokens` for lexically valid text, `none` otherwise. -/
def lex (s : List Char) : Option (List Token) := go (s.length + 1) s 0

end Spl.LexSpec
