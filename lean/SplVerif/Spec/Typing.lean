/-
  Independent specification of SPL's static semantics (C03): a declarative checker over the
  derivation tree (ranges are ignored).  `wellTyped p = true` means: p violates none of the
  declaration, main-procedure, type, call, operator, variable and indexing rules.

  Types are compared by name equivalence as SPL prescribes: every `array` type expression
  creates a new type, identified by the declaration that contains it.
-/
import SplVerif.Model.Ast

namespace Spl.Typing

inductive Ty where
  | int
  | bool
  | arr (size : Nat) (elem : Ty) (creator : List Char)
  deriving DecidableEq, Repr

structure VarInfo where
  name : List Char
  ty : Ty
  isRef : Bool
  deriving Repr

structure ProcSig where
  name : List Char
  params : List VarInfo
  locals : List VarInfo
  deriving Repr

inductive GEntry where
  | type (name : List Char) (ty : Ty)
  | proc (sig : ProcSig)
  deriving Repr

def GEntry.name : GEntry → List Char
  | .type n _ => n
  | .proc s => s.name

abbrev GEnv := List GEntry

def intParam (n : String) (r : Bool) : VarInfo := ⟨n.toList, .int, r⟩

/-- The predefined entities of SPL. -/
def predefined : GEnv :=
  [.type "int".toList .int,
   .proc ⟨"printi".toList, [intParam "i" false], []⟩,
   .proc ⟨"printc".toList, [intParam "i" false], []⟩,
   .proc ⟨"readi".toList, [intParam "i" true], []⟩,
   .proc ⟨"readc".toList, [intParam "i" true], []⟩,
   .proc ⟨"exit".toList, [], []⟩,
   .proc ⟨"time".toList, [intParam "i" true], []⟩,
   .proc ⟨"clearAll".toList, [intParam "color" false], []⟩,
   .proc ⟨"setPixel".toList, [intParam "x" false, intParam "y" false, intParam "z" false], []⟩,
   .proc ⟨"drawLine".toList, [intParam "x1" false, intParam "y1" false, intParam "x2" false, intParam "y2" false, intParam "color" false], []⟩,
   .proc ⟨"drawCircle".toList, [intParam "x0" false, intParam "y0" false, intParam "radius" false, intParam "color" false], []⟩]

def GEnv.find (g : GEnv) (n : List Char) : Option GEntry := List.find? (fun e => e.name == n) g

/-- An array type written in a parameter or variable declaration is a new type, different from every
    declared type and from the types written in other declarations: its identity is the declaring
    procedure together with the declared name (no identifier contains a dot). -/
def anonId (procName varName : List Char) : List Char := procName ++ '.' :: varName

/-- Resolve a type expression; `locals` shadow global names (a variable is not a type). -/
def resolveType (g : GEnv) (locals : List VarInfo) (creator : List Char) : TypeExpr → Option Ty
  | .named id =>
    -- `int` always denotes the primitive type (it cannot be hidden by a variable called `int`)
    if id.value == "int".toList then some .int else
    if locals.any (fun v => v.name == id.value) then none else
    match g.find id.value with
    | some (.type _ t) => some t
    | _ => none
  | .array (some sz) (.some base _) _ =>
    match sz.value, resolveType g locals creator base with
    | some n, some t => some (.arr n t creator)
    | _, _ => none
  | _ => none

def Ty.isArr : Ty → Bool
  | .arr .. => true
  | _ => false

/-- one more parameter declaration of procedure `procName`, after the parameters `acc` -/
def paramStep (g : GEnv) (procName : List Char) (acc : Option (List VarInfo)) (p : Ref ParamDecl) :
    Option (List VarInfo) :=
  match acc, p.val with
  | some vs, .valid _ isRef (some pn) (some te) _ =>
    match resolveType g [] (anonId procName pn.value) te.val with
    | some t =>
      if vs.any (fun v => v.name == pn.value) || (t.isArr && !isRef) then none
      else some (vs ++ [⟨pn.value, t, isRef⟩])
    | none => none
  | _, _ => none

/-- one more local variable declaration, after the parameters `ps` and the variables `acc` -/
def localStep (g : GEnv) (procName : List Char) (ps : List VarInfo) (acc : Option (List VarInfo))
    (v : Ref VarDecl) : Option (List VarInfo) :=
  match acc, v.val with
  | some vs, .valid _ (some vn) (some te) _ =>
    match resolveType g (ps ++ vs) (anonId procName vn.value) te.val with
    | some t => if (ps ++ vs).any (fun x => x.name == vn.value) then none else some (vs ++ [⟨vn.value, t, false⟩])
    | none => none
  | _, _ => none

/-- Declarations, in order: every name is declared once, types are declared before use. -/
def declare (g : GEnv) : List (Ref GlobalDecl) → Option GEnv
  | [] => some g
  | d :: ds =>
    match d.val with
    | .error _ => none
    | .type td =>
      match td.name, td.typeExpr with
      | some n, some te =>
        if n.value == "main".toList || (g.find n.value).isSome then none else
        match resolveType g [] n.value te.val with
        | some t => declare (g ++ [.type n.value t]) ds
        | none => none
      | _, _ => none
    | .proc pd =>
      match pd.name with
      | none => none
      | some n =>
        if (g.find n.value).isSome then none else
        match pd.params.foldl (paramStep g n.value) (some []) with
        | none => none
        | some ps =>
          match pd.vars.foldl (localStep g n.value ps) (some []) with
          | none => none
          | some ls => declare (g ++ [.proc ⟨n.value, ps, ls⟩]) ds

structure Scope where
  g : GEnv
  vars : List VarInfo   -- parameters and locals of the enclosing procedure

def Scope.var (sc : Scope) (n : List Char) : Option VarInfo := sc.vars.find? (fun v => v.name == n)

mutual
  def varType (sc : Scope) : Var → Option Ty
    | .named id => (sc.var id.value).map (·.ty)
    | .access arr (.some idx _) _ =>
      match varType sc arr, exprType sc idx with
      | some (.arr _ elem _), some .int => some elem
      | _, _ => none
    | .access _ .none _ => none

  def exprType (sc : Scope) : Expr → Option Ty
    | .intLit l => if l.value.isSome then some .int else none
    | .var v => varType sc v
    | .bracketed e _ => exprType sc e
    | .unary _ e _ =>
      match exprType sc e with
      | some .int => some .int
      | _ => none
    | .binary op l r _ =>
      match exprType sc l, exprType sc r with
      | some .int, some .int => some (if op.isArithmetic then .int else .bool)
      | _, _ => none
    | .error _ => none
end

def argsOk (sc : Scope) : List (Ref Expr) → List VarInfo → Bool
  | [], [] => true
  | a :: as, p :: ps =>
    (match exprType sc a.val with
     | some t => t == p.ty
     | none => false) &&
    (!p.isRef || (match a.val with
      | .var _ => true
      | _ => false)) &&
    argsOk sc as ps
  | _, _ => false

mutual
  def stmtOk (sc : Scope) : Stmt → Bool
    | .empty _ => true
    | .error _ => false
    | .assign a =>
      (match a.expr with
       | some e => varType sc a.target == some .int && exprType sc e.val == some .int
       | none => false)
    | .call c =>
      -- a local variable of the same name hides the procedure
      (sc.var c.name.value).isNone &&
      (match sc.g.find c.name.value with
       | some (.proc sig) => argsOk sc c.args sig.params
       | _ => false)
    | .ifS (some c) (.some t _) e _ =>
      exprType sc c.val == some .bool && stmtOk sc t && optStmtOk sc e
    | .ifS .. => false
    | .whileS (some c) (.some b _) _ => exprType sc c.val == some .bool && stmtOk sc b
    | .whileS .. => false
    | .block ss _ => stmtsOk sc ss
  def optStmtOk (sc : Scope) : OptStmt → Bool
    | .none => true
    | .some s _ => stmtOk sc s
  def stmtsOk (sc : Scope) : StmtList → Bool
    | .nil => true
    | .cons s _ r => stmtOk sc s && stmtsOk sc r
end

/-- The whole program is valid SPL (statically). -/
def wellTyped (p : Program) : Bool :=
  match declare predefined p.decls with
  | none => false
  | some g =>
    (match g.find "main".toList with
     | some (.proc sig) => sig.params.isEmpty
     | _ => false) &&
    p.decls.all (fun d => match d.val with
      | .proc pd =>
        (match pd.name.bind (fun n => g.find n.value) with
         | some (.proc sig) => pd.stmts.all (fun s => stmtOk ⟨g, sig.params ++ sig.locals⟩ s.val)
         | _ => false)
      | _ => true)

end Spl.Typing
