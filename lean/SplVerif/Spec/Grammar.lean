/-
  Independent specification of SPL's context-free grammar (C04): a plain recursive-descent
  recogniser for *valid* programs, written over the comment-free token sequence, that builds
  the derivation the grammar mandates with absolute token spans

      Program  := (TypeDec | ProcDec)*
      TypeDec  := type Id = Type ;          Type := Id | array [ IntLit ] of Type
      ProcDec  := proc Id ( (Par (, Par)*)? ) { VarDec* Stmt* }
      Par      := ref? Id : Type            VarDec := var Id : Type ;
      Stmt     := ; | if ( Expr ) Stmt (else Stmt)? | while ( Expr ) Stmt | { Stmt* }
                | Id ( (Expr (, Expr)*)? ) ; | Var := Expr ;
      Expr     := Add (relop Add)?          Add := Mul ((+|-) Mul)*     Mul := Fac ((*|/) Fac)*
      Fac      := - Fac | IntLit | Var | ( Expr )        Var := Id ([ Expr ])*

  and then places the ranges by the rule of the property: a node covers exactly its own
  tokens plus the comment run in front of its first token.  No error recovery, no
  incrementality; `none` = not a syntactically valid program.
-/
import SplVerif.Model.Ast

namespace Spl.Grammar

/-- A non-comment token with its index in the full token sequence. -/
structure ITok where
  idx : Nat
  ty : TokenType

abbrev Toks := List ITok

/-- Context: the full token array (to find leading comment runs). -/
structure GCtx where
  all : Array Token

/-- Start of the comment run that immediately precedes token `i`. -/
def leadStart (g : GCtx) : Nat → Nat → Nat
  | 0, i => i
  | fuel + 1, i =>
    if i == 0 then 0 else
    match g.all[i - 1]? with
    | some t => if t.kind == .Comment then leadStart g fuel (i - 1) else i
    | none => i

def lead (g : GCtx) (i : Nat) : Nat := leadStart g (i + 1) i

/-- Texts of the comment run in front of token `i`. -/
def docOf (g : GCtx) (i : Nat) : List (List Char) :=
  ((g.all.extract (lead g i) i).toList).filterMap (fun t => match t.ty with
    | .Comment c => some c
    | _ => none)

def mkInfo (g : GCtx) (first last : Nat) : AstInfo := { range := ⟨lead g first, last + 1⟩ }

def expectK (k : Kind) : Toks → Option (Nat × Toks)
  | t :: r => if t.ty.kind == k then some (t.idx, r) else none
  | [] => none

def identTok : Toks → Option (Nat × List Char × Toks)
  | ⟨i, .Ident s⟩ :: r => some (i, s, r)
  | _ => none

def mkIdent (g : GCtx) (i : Nat) (s : List Char) : Identifier := { value := s, info := mkInfo g i i }

def intLitTok (g : GCtx) : Toks → Option (IntLiteral × Nat × Toks)
  | ⟨i, .Int (.Int v)⟩ :: r => some ({ value := some v, info := mkInfo g i i }, i, r)
  | ⟨i, .Hex (.Int v)⟩ :: r => some ({ value := some v, info := mkInfo g i i }, i, r)
  | ⟨i, .Char c⟩ :: r => if c.toNat < 256 then some ({ value := some c.toNat, info := mkInfo g i i }, i, r) else none
  | _ => none

def relop : Kind → Option Operator
  | .Eq => some .Equ | .Neq => some .Neq | .Lt => some .Lst | .Le => some .Lse
  | .Gt => some .Grt | .Ge => some .Gre
  | _ => none

def addop : Kind → Option Operator
  | .Plus => some .Add | .Minus => some .Sub
  | _ => none

def mulop : Kind → Option Operator
  | .Times => some .Mul | .Divide => some .Div
  | _ => none

/-- first / last own token of an expression (absolute) -/
structure Span where
  first : Nat
  last : Nat

mutual
  /-- Expr := Add (relop Add)? -/
  def expr (g : GCtx) : Nat → Toks → Option (Expr × Span × Toks)
    | 0, _ => none
    | fuel + 1, ts =>
      match add g fuel ts with
      | none => none
      | some (l, sl, r) =>
        match r with
        | t :: r1 =>
          match relop t.ty.kind with
          | some op =>
            match add g fuel r1 with
            | some (rh, sr, r2) => some (.binary op l rh (mkInfo g sl.first sr.last), ⟨sl.first, sr.last⟩, r2)
            | none => none
          | none => some (l, sl, r)
        | [] => some (l, sl, r)

  /-- Add := Mul ((+|-) Mul)* — left associative, as a loop over the accumulated left operand -/
  def add (g : GCtx) : Nat → Toks → Option (Expr × Span × Toks)
    | 0, _ => none
    | fuel + 1, ts =>
      match mul g fuel ts with
      | none => none
      | some (l, sl, r) => addRest g fuel l sl r

  def addRest (g : GCtx) : Nat → Expr → Span → Toks → Option (Expr × Span × Toks)
    | 0, _, _, _ => none
    | fuel + 1, l, sl, ts =>
      match ts with
      | t :: r1 =>
        match addop t.ty.kind with
        | some op =>
          match mul g fuel r1 with
          | some (rh, sr, r2) =>
            addRest g fuel (.binary op l rh (mkInfo g sl.first sr.last)) ⟨sl.first, sr.last⟩ r2
          | none => none
        | none => some (l, sl, ts)
      | [] => some (l, sl, ts)

  def mul (g : GCtx) : Nat → Toks → Option (Expr × Span × Toks)
    | 0, _ => none
    | fuel + 1, ts =>
      match factor g fuel ts with
      | none => none
      | some (l, sl, r) => mulRest g fuel l sl r

  def mulRest (g : GCtx) : Nat → Expr → Span → Toks → Option (Expr × Span × Toks)
    | 0, _, _, _ => none
    | fuel + 1, l, sl, ts =>
      match ts with
      | t :: r1 =>
        match mulop t.ty.kind with
        | some op =>
          match factor g fuel r1 with
          | some (rh, sr, r2) =>
            mulRest g fuel (.binary op l rh (mkInfo g sl.first sr.last)) ⟨sl.first, sr.last⟩ r2
          | none => none
        | none => some (l, sl, ts)
      | [] => some (l, sl, ts)

  /-- Fac := - Fac | IntLit | Var | ( Expr ) -/
  def factor (g : GCtx) : Nat → Toks → Option (Expr × Span × Toks)
    | 0, _ => none
    | fuel + 1, ts =>
      match ts with
      | ⟨i, .Minus⟩ :: r =>
        match factor g fuel r with
        | some (e, se, r1) => some (.unary .Sub e (mkInfo g i se.last), ⟨i, se.last⟩, r1)
        | none => none
      | ⟨i, .LParen⟩ :: r =>
        match expr g fuel r with
        | some (e, _, r1) =>
          match expectK .RParen r1 with
          | some (j, r2) => some (.bracketed e (mkInfo g i j), ⟨i, j⟩, r2)
          | none => none
        | none => none
      | ⟨_, .Ident _⟩ :: _ =>
        match varAccess g fuel ts with
        | some (v, sv, r) => some (.var v, sv, r)
        | none => none
      | _ =>
        match intLitTok g ts with
        | some (l, i, r) => some (.intLit l, ⟨i, i⟩, r)
        | none => none

  /-- Var := Id ([ Expr ])* -/
  def varAccess (g : GCtx) : Nat → Toks → Option (Var × Span × Toks)
    | 0, _ => none
    | fuel + 1, ts =>
      match identTok ts with
      | some (i, s, r) => accesses g fuel (.named (mkIdent g i s)) ⟨i, i⟩ r
      | none => none

  def accesses (g : GCtx) : Nat → Var → Span → Toks → Option (Var × Span × Toks)
    | 0, _, _, _ => none
    | fuel + 1, v, sv, ts =>
      match ts with
      | ⟨_, .LBracket⟩ :: r =>
        match expr g fuel r with
        | some (e, _, r1) =>
          match expectK .RBracket r1 with
          | some (j, r2) =>
            -- the index is a `Reference`: absolute range kept here, relativised later
            accesses g fuel (.access v (.some e 0) (mkInfo g sv.first j)) ⟨sv.first, j⟩ r2
          | none => none
        | none => none
      | _ => some (v, sv, ts)
end

def refAbs {α} (a : α) : Ref α := ⟨a, 0⟩

/-- Type := Id | array [ IntLit ] of Type -/
def typeExpr (g : GCtx) : Nat → Toks → Option (TypeExpr × Span × Toks)
  | 0, _ => none
  | fuel + 1, ts =>
    match ts with
    | ⟨i, .Array⟩ :: r =>
      match expectK .LBracket r with
      | none => none
      | some (_, r1) =>
        match intLitTok g r1 with
        | none => none
        | some (sz, _, r2) =>
          match expectK .RBracket r2 with
          | none => none
          | some (_, r3) =>
            match expectK .Of r3 with
            | none => none
            | some (_, r4) =>
              match typeExpr g fuel r4 with
              | none => none
              | some (b, sb, r5) => some (.array (some sz) (.some b 0) (mkInfo g i sb.last), ⟨i, sb.last⟩, r5)
    | _ =>
      match identTok ts with
      | some (i, s, r) => some (.named (mkIdent g i s), ⟨i, i⟩, r)
      | none => none

def exprList (g : GCtx) : Nat → Toks → Option (List (Ref Expr) × Toks)
  | 0, _ => none
  | fuel + 1, ts =>
    match expr g (8 * ts.length + 16) ts with
    | none => none
    | some (e, _, r) =>
      match r with
      | ⟨_, .Comma⟩ :: r1 =>
        match exprList g fuel r1 with
        | some (es, r2) => some (refAbs e :: es, r2)
        | none => none
      | _ => some ([refAbs e], r)

mutual
  def stmt (g : GCtx) : Nat → Toks → Option (Stmt × Span × Toks)
    | 0, _ => none
    | fuel + 1, ts =>
      match ts with
      | ⟨i, .Semic⟩ :: r => some (.empty (mkInfo g i i), ⟨i, i⟩, r)
      | ⟨i, .If⟩ :: r =>
        match expectK .LParen r with
        | none => none
        | some (_, r1) =>
          match expr g (8 * r1.length + 16) r1 with
          | none => none
          | some (c, _, r2) =>
            match expectK .RParen r2 with
            | none => none
            | some (_, r3) =>
              match stmt g fuel r3 with
              | none => none
              | some (t, st, r4) =>
                match r4 with
                | ⟨_, .Else⟩ :: r5 =>
                  -- else binds to the nearest if: the inner statement has already taken its own else
                  match stmt g fuel r5 with
                  | some (e, se, r6) =>
                    some (.ifS (some (refAbs c)) (.some t 0) (.some e 0) (mkInfo g i se.last), ⟨i, se.last⟩, r6)
                  | none => none
                | _ => some (.ifS (some (refAbs c)) (.some t 0) .none (mkInfo g i st.last), ⟨i, st.last⟩, r4)
      | ⟨i, .While⟩ :: r =>
        match expectK .LParen r with
        | none => none
        | some (_, r1) =>
          match expr g (8 * r1.length + 16) r1 with
          | none => none
          | some (c, _, r2) =>
            match expectK .RParen r2 with
            | none => none
            | some (_, r3) =>
              match stmt g fuel r3 with
              | none => none
              | some (b, sb, r4) => some (.whileS (some (refAbs c)) (.some b 0) (mkInfo g i sb.last), ⟨i, sb.last⟩, r4)
      | ⟨i, .LCurly⟩ :: r =>
        match stmts g fuel r with
        | none => none
        | some (ss, r1) =>
          match expectK .RCurly r1 with
          | some (j, r2) => some (.block ss (mkInfo g i j), ⟨i, j⟩, r2)
          | none => none
      | ⟨i, .Ident s⟩ :: ⟨_, .LParen⟩ :: r =>
        -- call statement
        let args : Option (List (Ref Expr) × Toks) := match r with
          | ⟨_, .RParen⟩ :: _ => some ([], r)
          | _ => exprList g (r.length + 1) r
        match args with
        | none => none
        | some (as, r1) =>
          match expectK .RParen r1 with
          | none => none
          | some (_, r2) =>
            match expectK .Semic r2 with
            | some (j, r3) =>
              some (.call { name := mkIdent g i s, args := as, info := mkInfo g i j }, ⟨i, j⟩, r3)
            | none => none
      | ⟨i, .Ident _⟩ :: _ =>
        match varAccess g (8 * ts.length + 16) ts with
        | none => none
        | some (v, _, r) =>
          match expectK .Assign r with
          | none => none
          | some (_, r1) =>
            match expr g (8 * r1.length + 16) r1 with
            | none => none
            | some (e, _, r2) =>
              match expectK .Semic r2 with
              | some (j, r3) => some (.assign { target := v, expr := some (refAbs e), info := mkInfo g i j }, ⟨i, j⟩, r3)
              | none => none
      | _ => none

  /-- Stmt* up to (not including) a closing `}` -/
  def stmts (g : GCtx) : Nat → Toks → Option (StmtList × Toks)
    | 0, _ => none
    | fuel + 1, ts =>
      match ts with
      | ⟨_, .RCurly⟩ :: _ => some (.nil, ts)
      | _ =>
        match stmt g fuel ts with
        | none => none
        | some (s, _, r) =>
          match stmts g fuel r with
          | some (ss, r1) => some (.cons s 0 ss, r1)
          | none => none
end

def param (g : GCtx) (ts : Toks) : Option (ParamDecl × Toks) :=
  let (isRef, first, ts1) : Bool × Option Nat × Toks := match ts with
    | ⟨i, .Ref⟩ :: r => (true, some i, r)
    | _ => (false, none, ts)
  match identTok ts1 with
  | none => none
  | some (i, s, r) =>
    match expectK .Colon r with
    | none => none
    | some (_, r1) =>
      match typeExpr g (2 * r1.length + 4) r1 with
      | none => none
      | some (t, st, r2) =>
        let f := first.getD i
        -- without `ref` the name is the declaration's first token: the comment run in front of it is
        -- the declaration's documentation, not part of the identifier node
        let name : Identifier := if isRef then mkIdent g i s else { value := s, info := { range := ⟨i, i + 1⟩ } }
        some (.valid (docOf g f) isRef (some name) (some (refAbs t)) (mkInfo g f st.last), r2)

def params (g : GCtx) : Nat → Toks → Option (List (Ref ParamDecl) × Toks)
  | 0, _ => none
  | fuel + 1, ts =>
    match param g ts with
    | none => none
    | some (p, r) =>
      match r with
      | ⟨_, .Comma⟩ :: r1 =>
        match params g fuel r1 with
        | some (ps, r2) => some (refAbs p :: ps, r2)
        | none => none
      | _ => some ([refAbs p], r)

def varDecls (g : GCtx) : Nat → Toks → Option (List (Ref VarDecl) × Toks)
  | 0, _ => none
  | fuel + 1, ts =>
    match ts with
    | ⟨i, .Var⟩ :: r =>
      match identTok r with
      | none => none
      | some (j, s, r1) =>
        match expectK .Colon r1 with
        | none => none
        | some (_, r2) =>
          match typeExpr g (2 * r2.length + 4) r2 with
          | none => none
          | some (t, _, r3) =>
            match expectK .Semic r3 with
            | none => none
            | some (k, r4) =>
              match varDecls g fuel r4 with
              | none => none
              | some (vs, r5) =>
                some (refAbs (.valid (docOf g i) (some (mkIdent g j s)) (some (refAbs t)) (mkInfo g i k)) :: vs, r5)
    | _ => some ([], ts)

def decls (g : GCtx) : Nat → Toks → Option (List (Ref GlobalDecl) × Option Nat)
  | 0, _ => none
  | fuel + 1, ts =>
    match ts with
    | [⟨_, .Eof⟩] => some ([], none)
    | ⟨i, .Type⟩ :: r =>
      match identTok r with
      | none => none
      | some (j, s, r1) =>
        match expectK .Eq r1 with
        | none => none
        | some (_, r2) =>
          match typeExpr g (2 * r2.length + 4) r2 with
          | none => none
          | some (t, _, r3) =>
            match expectK .Semic r3 with
            | none => none
            | some (k, r4) =>
              match decls g fuel r4 with
              | none => none
              | some (ds, last) =>
                let td : TypeDecl := { doc := docOf g i, name := some (mkIdent g j s), typeExpr := some (refAbs t), info := mkInfo g i k }
                some (refAbs (.type td) :: ds, some (last.getD k))
    | ⟨i, .Proc⟩ :: r =>
      match identTok r with
      | none => none
      | some (j, s, r1) =>
        match expectK .LParen r1 with
        | none => none
        | some (_, r2) =>
          let ps : Option (List (Ref ParamDecl) × Toks) := match r2 with
            | ⟨_, .RParen⟩ :: _ => some ([], r2)
            | _ => params g (r2.length + 1) r2
          match ps with
          | none => none
          | some (ps, r3) =>
            match expectK .RParen r3 with
            | none => none
            | some (_, r4) =>
              match expectK .LCurly r4 with
              | none => none
              | some (_, r5) =>
                match varDecls g (r5.length + 1) r5 with
                | none => none
                | some (vs, r6) =>
                  match stmts g (2 * r6.length + 4) r6 with
                  | none => none
                  | some (ss, r7) =>
                    match expectK .RCurly r7 with
                    | none => none
                    | some (k, r8) =>
                      match decls g fuel r8 with
                      | none => none
                      | some (ds, last) =>
                        let pd : ProcDecl :=
                          { doc := docOf g i, name := some (mkIdent g j s), params := ps, vars := vs,
                            stmts := ss.toList, info := mkInfo g i k }
                        some (refAbs (.proc pd) :: ds, some (last.getD k))
    | _ => none

/-- Parse a full token sequence (with comments, ending in `Eof`) into the derivation with
    absolute ranges and all `Reference` offsets 0. -/
def parseAbs (toks : List Token) : Option Program :=
  let g : GCtx := ⟨toks.toArray⟩
  let its : Toks := (toks.zipIdx.filter (fun (t, _) => t.kind != .Comment)).map (fun (t, i) => ⟨i, t.ty⟩)
  if toks.any (fun t => !t.errors.isEmpty || t.kind == .Unknown) then none else
  match decls g (its.length + 1) its with
  | none => none
  | some (ds, last) =>
    let hi := match last with
      | some l => l + 1
      | none => 0
    some { decls := ds, info := { range := ⟨0, hi⟩ } }

end Spl.Grammar

namespace Spl.Grammar

/-! ### from absolute ranges to the implementation's convention

  Every range is relative to the start of the nearest enclosing `Reference`; a `Reference`'s
  offset is its start relative to the enclosing `Reference`'s start. -/

def relInfo (base : Nat) (i : AstInfo) : AstInfo := { i with range := ⟨i.range.lo - base, i.range.hi - base⟩ }

def relIdent (base : Nat) (i : Identifier) : Identifier := { i with info := relInfo base i.info }
def relIntLit (base : Nat) (i : IntLiteral) : IntLiteral := { i with info := relInfo base i.info }

mutual
  def relVar (base : Nat) : Var → Var
    | .named id => .named (relIdent base id)
    | .access a idx i => .access (relVar base a) (relOptExpr base idx) (relInfo base i)
  def relExpr (base : Nat) : Expr → Expr
    | .binary op l r i => .binary op (relExpr base l) (relExpr base r) (relInfo base i)
    | .bracketed e i => .bracketed (relExpr base e) (relInfo base i)
    | .intLit l => .intLit (relIntLit base l)
    | .unary op e i => .unary op (relExpr base e) (relInfo base i)
    | .var v => .var (relVar base v)
    | .error i => .error (relInfo base i)
  /-- a referenced expression: new base = its own absolute start -/
  def relOptExpr (base : Nat) : OptExpr → OptExpr
    | .none => .none
    | .some e _ => .some (relExpr e.info.range.lo e) (e.info.range.lo - base)
end

def relRefExpr (base : Nat) (r : Ref Expr) : Ref Expr :=
  ⟨relExpr r.val.info.range.lo r.val, r.val.info.range.lo - base⟩

mutual
  def relType (base : Nat) : TypeExpr → TypeExpr
    | .named id => .named (relIdent base id)
    | .array sz b i => .array (sz.map (relIntLit base)) (relOptType base b) (relInfo base i)
  def relOptType (base : Nat) : OptType → OptType
    | .none => .none
    | .some t _ => .some (relType t.info.range.lo t) (t.info.range.lo - base)
end

def relRefType (base : Nat) (r : Ref TypeExpr) : Ref TypeExpr :=
  ⟨relType r.val.info.range.lo r.val, r.val.info.range.lo - base⟩

mutual
  def relStmt (base : Nat) : Stmt → Stmt
    | .empty i => .empty (relInfo base i)
    | .error i => .error (relInfo base i)
    | .assign a => .assign { target := relVar base a.target, expr := a.expr.map (relRefExpr base), info := relInfo base a.info }
    | .call c => .call { name := relIdent base c.name, args := c.args.map (relRefExpr base), info := relInfo base c.info }
    | .ifS c t e i => .ifS (c.map (relRefExpr base)) (relOptStmt base t) (relOptStmt base e) (relInfo base i)
    | .whileS c b i => .whileS (c.map (relRefExpr base)) (relOptStmt base b) (relInfo base i)
    | .block ss i => .block (relStmtList base ss) (relInfo base i)
  def relOptStmt (base : Nat) : OptStmt → OptStmt
    | .none => .none
    | .some s _ => .some (relStmt s.info.range.lo s) (s.info.range.lo - base)
  def relStmtList (base : Nat) : StmtList → StmtList
    | .nil => .nil
    | .cons s _ r => .cons (relStmt s.info.range.lo s) (s.info.range.lo - base) (relStmtList base r)
end

def relRefStmt (base : Nat) (r : Ref Stmt) : Ref Stmt := ⟨relStmt r.val.info.range.lo r.val, r.val.info.range.lo - base⟩

def relParam (base : Nat) (r : Ref ParamDecl) : Ref ParamDecl :=
  let b := r.val.info.range.lo
  match r.val with
  | .valid d rf n t i => ⟨.valid d rf (n.map (relIdent b)) (t.map (relRefType b)) (relInfo b i), b - base⟩
  | .error i => ⟨.error (relInfo b i), b - base⟩

def relVarDecl (base : Nat) (r : Ref VarDecl) : Ref VarDecl :=
  let b := r.val.info.range.lo
  match r.val with
  | .valid d n t i => ⟨.valid d (n.map (relIdent b)) (t.map (relRefType b)) (relInfo b i), b - base⟩
  | .error i => ⟨.error (relInfo b i), b - base⟩

def relDecl (r : Ref GlobalDecl) : Ref GlobalDecl :=
  let b := r.val.info.range.lo
  match r.val with
  | .type t =>
    ⟨.type { t with name := t.name.map (relIdent b), typeExpr := t.typeExpr.map (relRefType b), info := relInfo b t.info }, b⟩
  | .proc p =>
    ⟨.proc { p with name := p.name.map (relIdent b), params := p.params.map (relParam b),
                    vars := p.vars.map (relVarDecl b), stmts := p.stmts.map (relRefStmt b), info := relInfo b p.info }, b⟩
  | .error i => ⟨.error (relInfo b i), b⟩

def relativize (p : Program) : Program := { decls := p.decls.map relDecl, info := p.info }

/-- The derivation the grammar mandates, in the implementation's range convention. -/
def parse (toks : List Token) : Option Program := (parseAbs toks).map relativize

end Spl.Grammar
