/-
  C18 as a specification, written from the property's sentences (not from the code):
  * every request gets exactly one response with its id, in request order;
  * before `initialize` (and until the `initialized` notification) requests are rejected with
    ServerNotInitialized (-32002); the first `initialize` succeeds;
  * a second `initialize` (any time after the first) is rejected with InvalidRequest (-32600);
  * after `shutdown` every request is rejected with InvalidRequest;
  * once initialised, unknown methods get MethodNotFound (-32601), supported ones a result;
  * `exit` ends the process: status 0 after `shutdown`, 1 otherwise; nothing is answered after it;
  * end of input ends the process (status 0 unless `exit` decided otherwise).
-/
import SplVerif.Model.Rpc

namespace Spl.RpcSpec
open Spl.Rpc

def supported : List String :=
  ["textDocument/declaration", "textDocument/definition", "textDocument/implementation",
   "textDocument/typeDefinition", "textDocument/references", "textDocument/hover",
   "textDocument/rename", "textDocument/prepareRename", "textDocument/completion",
   "textDocument/foldingRange", "textDocument/semanticTokens/full", "textDocument/signatureHelp",
   "textDocument/formatting"]

structure St where
  initializeSeen : Bool := false
  initializedSeen : Bool := false
  shutdownSeen : Bool := false
  exited : Option Nat := none
  deriving DecidableEq, Repr

def respond (s : St) (id : Int) (m : String) : St × Out :=
  if s.shutdownSeen then (s, .err id (-32600))
  else if m == "initialize" then
    if s.initializeSeen then (s, .err id (-32600)) else ({ s with initializeSeen := true }, .ok id)
  else if !(s.initializeSeen && s.initializedSeen) then (s, .err id (-32002))
  else if m == "shutdown" then ({ s with shutdownSeen := true }, .ok id)
  else if supported.contains m then (s, .ok id)
  else (s, .err id (-32601))

def onNote (s : St) (m : String) : St :=
  if m == "exit" then { s with exited := some (if s.shutdownSeen then 0 else 1) }
  else if m == "initialized" && s.initializeSeen then { s with initializedSeen := true }
  else s

def go : St → List CMsg → List Out × Nat
  | s, [] => ([], s.exited.getD 0)
  | s, m :: ms =>
    match s.exited with
    | some c => ([], c)
    | none =>
      match m with
      | .req id meth =>
        let (s', o) := respond s id meth
        let (os, c) := go s' ms
        (o :: os, c)
      | .note meth =>
        let s' := onNote s meth
        match s'.exited with
        | some c => ([], c)
        | none => go s' ms

def run (ms : List CMsg) : List Out × Nat := go {} ms

end Spl.RpcSpec
