/-
  The tiling part of C06 as a decidable checker over (text, token list):
  ordered, non-overlapping, on character boundaries, non-empty tokens, gaps only whitespace,
  exactly one final `Eof` at the end of the text.  The same function is used in the theorem
  `lex_tiling` (about the model) and as the judge of the implementation's output.
-/
import SplVerif.Model.Basic

namespace Spl

def wsChar (c : Char) : Bool := c == ' ' || c == '\t' || c == '\r' || c == '\n'

/-- Consume whitespace from offset `o` up to exactly `target`. -/
def skipWsTo : List Char → Nat → Nat → Option (List Char)
  | r, o, target =>
    if o = target then some r else
    match r with
    | [] => none
    | c :: cs => if wsChar c && o < target then skipWsTo cs (o + c.utf8Size) target else none
termination_by r => r.length

/-- Consume arbitrary characters from offset `o` up to exactly `target` (a character boundary). -/
def takeTo : List Char → Nat → Nat → Option (List Char)
  | r, o, target =>
    if o = target then some r else
    match r with
    | [] => none
    | c :: cs => if o < target then takeTo cs (o + c.utf8Size) target else none
termination_by r => r.length

def tilingGo : List Token → List Char → Nat → Bool
  | [], _, _ => false
  | [t], r, o =>
    t.ty == .Eof && t.range.lo == t.range.hi &&
      (match skipWsTo r o t.range.lo with
       | some [] => true
       | _ => false)
  | t :: t' :: rest, r, o =>
    t.ty != .Eof && t.range.lo < t.range.hi &&
      (match skipWsTo r o t.range.lo with
       | some r1 =>
         match takeTo r1 t.range.lo t.range.hi with
         | some r2 => tilingGo (t' :: rest) r2 t.range.hi
         | none => false
       | none => false)

def tilingB (s : List Char) (ts : List Token) : Bool := tilingGo ts s 0

end Spl
