/-
  Independent specification of SPL scoping (C12–C16): for every identifier occurrence of a
  valid program, the declaration it is bound to — locals and parameters of the enclosing
  procedure before globals; type positions resolve to types; predefined entities have no
  declaration.  Works on the grammar derivation with ABSOLUTE token ranges (`Grammar.parseAbs`).
-/
import SplVerif.Spec.Grammar
import SplVerif.Spec.Typing

namespace Spl.Scope

inductive Kind where
  | type | proc | param | var
  deriving DecidableEq, Repr

/-- One identifier occurrence. `tok` = index of the identifier token in the full token list;
    `decl` = index of the declaring identifier token (`none` for predefined entities). -/
structure Occ where
  tok : Nat
  name : List Char
  kind : Kind
  decl : Option Nat
  isDecl : Bool
  /-- index of the enclosing global declaration -/
  ctx : Nat
  deriving Repr

/-- token index of an identifier node (absolute range: its last token) -/
def idTok (i : Identifier) : Nat := i.info.range.hi - 1

structure Global where
  name : List Char
  kind : Kind
  decl : Option Nat

structure Local where
  name : List Char
  kind : Kind
  decl : Nat

def predefinedGlobals : List Global :=
  ⟨"int".toList, .type, none⟩ ::
  ["printi", "printc", "readi", "readc", "exit", "time", "clearAll", "setPixel", "drawLine", "drawCircle"].map
    (fun n => ⟨n.toList, .proc, none⟩)

def globalsOf (p : Program) : List Global :=
  predefinedGlobals ++ p.decls.filterMap (fun d => match d.val with
    | .type td => td.name.map (fun n => ⟨n.value, .type, some (idTok n)⟩)
    | .proc pd => pd.name.map (fun n => ⟨n.value, .proc, some (idTok n)⟩)
    | .error _ => none)

def findGlobal (gs : List Global) (n : List Char) : Option Global := gs.find? (fun g => g.name == n)

def localsOf (pd : ProcDecl) : List Local :=
  pd.params.filterMap (fun p => match p.val with
    | .valid _ _ (some n) _ _ => some ⟨n.value, .param, idTok n⟩
    | _ => none) ++
  pd.vars.filterMap (fun v => match v.val with
    | .valid _ (some n) _ _ => some ⟨n.value, .var, idTok n⟩
    | _ => none)

/-- a name used as a variable or callee inside a procedure: locals first -/
def resolve (gs : List Global) (ls : List Local) (n : List Char) : Option (Kind × Option Nat) :=
  match ls.find? (fun l => l.name == n) with
  | some l => some (l.kind, some l.decl)
  | none => (findGlobal gs n).map (fun g => (g.kind, g.decl))

def useOcc (gs : List Global) (ls : List Local) (ctx : Nat) (i : Identifier) : List Occ :=
  match resolve gs ls i.value with
  | some (k, d) => [⟨idTok i, i.value, k, d, false, ctx⟩]
  | none => []

mutual
  def typeOccs (gs : List Global) (ls : List Local) (ctx : Nat) : TypeExpr → List Occ
    | .named id => useOcc gs ls ctx id
    | .array _ b _ => optTypeOccs gs ls ctx b
  def optTypeOccs (gs : List Global) (ls : List Local) (ctx : Nat) : OptType → List Occ
    | .none => []
    | .some t _ => typeOccs gs ls ctx t
end

mutual
  def varOccs (gs : List Global) (ls : List Local) (ctx : Nat) : Var → List Occ
    | .named id => useOcc gs ls ctx id
    | .access a idx _ => varOccs gs ls ctx a ++ optExprOccs gs ls ctx idx
  def exprOccs (gs : List Global) (ls : List Local) (ctx : Nat) : Expr → List Occ
    | .binary _ l r _ => exprOccs gs ls ctx l ++ exprOccs gs ls ctx r
    | .bracketed e _ => exprOccs gs ls ctx e
    | .unary _ e _ => exprOccs gs ls ctx e
    | .var v => varOccs gs ls ctx v
    | _ => []
  def optExprOccs (gs : List Global) (ls : List Local) (ctx : Nat) : OptExpr → List Occ
    | .none => []
    | .some e _ => exprOccs gs ls ctx e
end

def optRefExprOccs (gs : List Global) (ls : List Local) (ctx : Nat) (r : Option (Ref Expr)) : List Occ :=
  match r with
  | some r => exprOccs gs ls ctx r.val
  | none => []

mutual
  def stmtOccs (gs : List Global) (ls : List Local) (ctx : Nat) : Stmt → List Occ
    | .assign a => varOccs gs ls ctx a.target ++ optRefExprOccs gs ls ctx a.expr
    | .call c => useOcc gs ls ctx c.name ++ c.args.flatMap (fun r => exprOccs gs ls ctx r.val)
    | .ifS c t e _ => optRefExprOccs gs ls ctx c ++ optStmtOccs gs ls ctx t ++ optStmtOccs gs ls ctx e
    | .whileS c b _ => optRefExprOccs gs ls ctx c ++ optStmtOccs gs ls ctx b
    | .block ss _ => stmtListOccs gs ls ctx ss
    | _ => []
  def optStmtOccs (gs : List Global) (ls : List Local) (ctx : Nat) : OptStmt → List Occ
    | .none => []
    | .some s _ => stmtOccs gs ls ctx s
  def stmtListOccs (gs : List Global) (ls : List Local) (ctx : Nat) : StmtList → List Occ
    | .nil => []
    | .cons s _ r => stmtOccs gs ls ctx s ++ stmtListOccs gs ls ctx r
end

/-- All identifier occurrences of a (valid) program, in source order. -/
def occurrences (p : Program) : List Occ :=
  let gs := globalsOf p
  let occs := p.decls.zipIdx.flatMap (fun (d, ctx) => match d.val with
    | .type td =>
      (match td.name with
       | some n => [⟨idTok n, n.value, Kind.type, some (idTok n), true, ctx⟩]
       | none => []) ++
      (match td.typeExpr with
       | some te => typeOccs gs [] ctx te.val
       | none => [])
    | .proc pd =>
      let ls := localsOf pd
      (match pd.name with
       | some n => [⟨idTok n, n.value, Kind.proc, some (idTok n), true, ctx⟩]
       | none => []) ++
      pd.params.flatMap (fun prm => match prm.val with
        | .valid _ _ n te _ =>
          (match n with
           | some n => [⟨idTok n, n.value, Kind.param, some (idTok n), true, ctx⟩]
           | none => []) ++
          (match te with
           | some te => typeOccs gs [] ctx te.val    -- parameter types: global scope only
           | none => [])
        | .error _ => []) ++
      pd.vars.flatMap (fun v => match v.val with
        | .valid _ n te _ =>
          (match n with
           | some n => [⟨idTok n, n.value, Kind.var, some (idTok n), true, ctx⟩]
           | none => []) ++
          (match te with
           | some te => typeOccs gs [] ctx te.val    -- valid programs: no local shadows a used type
           | none => [])
        | .error _ => []) ++
      pd.stmts.flatMap (fun s => stmtOccs gs ls ctx s.val)
    | .error _ => [])
  (occs.toArray.qsort (fun a b => a.tok < b.tok)).toList

end Spl.Scope
