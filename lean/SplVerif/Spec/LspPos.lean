/-
  Independent specification of LSP position semantics (the client's view of a document):
  a document is a sequence of lines terminated by `\n`, `\r\n` or `\r`; a position is
  (line, UTF-16 column); a column past the end of a line means the end of that line (before
  its terminator); a line past the last line means the end of the document.  A column that
  falls inside a surrogate pair is rounded up to the end of that character (LSP leaves this
  case undefined).  Written as a line table, structurally different from the single
  `char_indices` walk of the implementation.
-/
import SplVerif.Model.Doc

namespace Spl.LspPos

def units (c : Char) : Nat := if c.toNat ≥ 65536 then 2 else 1

/-- Split off the first line: (content, terminator, rest-after-terminator if there is one). -/
def firstLine : List Char → List Char × List Char × Option (List Char)
  | [] => ([], [], none)
  | c :: r =>
    if c = '\n' then ([], ['\n'], some r)
    else if c = '\r' then
      match r with
      | d :: r2 => if d = '\n' then ([], ['\r', '\n'], some r2) else ([], ['\r'], some r)
      | [] => ([], ['\r'], some [])
    else
      let (a, e, rest) := firstLine r
      (c :: a, e, rest)

/-- Bytes of the shortest prefix of a line's content that has at least `col` UTF-16 units
    (the whole content if it is shorter). -/
def colOffset : List Char → Nat → Nat
  | [], _ => 0
  | _ :: _, 0 => 0
  | c :: r, col + 1 => c.utf8Size + colOffset r (col + 1 - units c)

/-- Byte offset denoted by position (line, col) in text `t`. -/
def offset : Nat → List Char → Nat → Nat
  | 0, t, col => colOffset (firstLine t).1 col
  | l + 1, t, col =>
    match firstLine t with
    | (content, eol, some r) => utf8Len content + utf8Len eol + offset l r col
    | (content, _, none) => utf8Len content

def offsetOf (t : List Char) (p : Pos) : Nat := offset p.line t p.col

/-- The client applies one content change to its text. -/
def applyChange (t : List Char) (ch : ContentChange) : Option (List Char) :=
  match ch.range with
  | none => some ch.text
  | some (s, e) => replaceRange t (offsetOf t s) (offsetOf t e) ch.text

def applyAll : List ContentChange → List Char → Option (List Char)
  | [], t => some t
  | c :: cs, t => (applyChange t c).bind (applyAll cs)

def applyNotifications : List (List ContentChange) → List Char → Option (List Char)
  | [], t => some t
  | n :: ns, t => (applyAll n t).bind (applyNotifications ns)

end Spl.LspPos

namespace Spl.LspPos

def unitsOf (s : List Char) : Nat := (s.map units).sum

/-- Position of byte offset `idx`: line = number of terminators that end before `idx`,
    column = UTF-16 units between the line start and `idx`. -/
def positionOf : Nat → List Char → Nat → Nat → Pos
  | 0, _, _, line => ⟨line, 0⟩
  | fuel + 1, t, idx, line =>
    match firstLine t with
    | (content, eol, some r) =>
      let lineLen := utf8Len content + utf8Len eol
      if idx < lineLen then
        -- inside this line (or inside its terminator: clamp to the content)
        let pre := takeBytes content idx
        ⟨line, unitsOf pre⟩
      else positionOf fuel r (idx - lineLen) (line + 1)
    | (content, _, none) => ⟨line, unitsOf (takeBytes content idx)⟩
where
  takeBytes : List Char → Nat → List Char
    | [], _ => []
    | c :: r, n => if n = 0 then [] else if c.utf8Size ≤ n then c :: takeBytes r (n - c.utf8Size) else []

def position (t : List Char) (idx : Nat) : Pos := positionOf (t.length + 2) t idx 0

end Spl.LspPos
