/-
  C04 — The syntax tree is the derivation the SPL grammar mandates.  Property theorems only.
-/
import SplVerif.Lemmas.ParserTables
import SplVerif.Spec.Grammar
import SplVerif.Lemmas.ParseConform
import SplVerif.Lemmas.ParseConformStmt
import SplVerif.Lemmas.ParseConformDecl

namespace Spl.C04

/-- Table obligation over the regenerated `tag_parser!` instances. -/
theorem tag_parsers_ok : TagParsersOK = true := by decide

/-- Relativising never changes a program's own range, only re-bases what lies under a `Reference`. -/
theorem relativize_info (p : Program) : (Grammar.relativize p).info = p.info := rfl

/-- The number and order of global declarations is preserved by the range convention change. -/
theorem relativize_decls_length (p : Program) : (Grammar.relativize p).decls.length = p.decls.length := by
  simp [Grammar.relativize]

/-- **Expressions are parsed into the derivation the grammar mandates** (operator precedence,
    left associativity, non-associative comparison, unary minus, parentheses, indexed variables at any
    nesting depth, any comments in between).  For every token array, every position directly behind a
    token and every state of the parser: whenever the grammar specification derives an expression
    `e` from the non-comment tokens at that position, `Expression::parse` of the model succeeds,
    consumes exactly those tokens, reports nothing, and returns `e` in the implementation's range
    convention (ranges relative to the enclosing `Reference`, each node covering its own tokens plus
    the comment run in front of its first token). -/
theorem expression_conforms (ctx : Parse.Ctx) {fs : Nat} {ts rest : Grammar.Toks} {e : Expr} {sp : Grammar.Span}
    {s : Parse.St} (hs : Grammar.expr ⟨ctx.toks⟩ fs ts = some (e, sp, rest)) (hat : ParseConform.At ctx s ts) :
    Parse.parseExpression ctx (Parse.exprFuel ctx) none s =
      .ok { s with pos := sp.last + 1 } (Grammar.relExpr s.refPos e) ∧
    e.info.range = ⟨s.pos, sp.last + 1⟩ ∧ ParseConform.At ctx { s with pos := sp.last + 1 } rest :=
  let ⟨a, _, _, b, c⟩ := ParseConform.expression_conforms ctx hs hat
  ⟨a, b, c⟩

/-- **Type expressions are parsed into the derivation the grammar mandates** (named types and nested
    `array [n] of …` at any depth, comments anywhere; all token arrays, positions and parser states). -/
theorem type_expression_conforms (ctx : Parse.Ctx) {fs : Nat} {ts rest : Grammar.Toks} {t : TypeExpr} {sp : Grammar.Span}
    {s : Parse.St} {fm : Nat} (hs : Grammar.typeExpr ⟨ctx.toks⟩ fs ts = some (t, sp, rest)) (hat : ParseConform.At ctx s ts)
    (hfm : ts.length + 1 ≤ fm) :
    Parse.parseTypeExpr ctx fm none s = .ok { s with pos := sp.last + 1 } (Grammar.relType s.refPos t) ∧
    t.info.range = ⟨s.pos, sp.last + 1⟩ ∧ ParseConform.At ctx { s with pos := sp.last + 1 } rest :=
  let ⟨a, _, _, b, c⟩ := ParseConform.typeExpr_conf ctx fs ts t sp rest hs fm s hat hfm
  ⟨a, b, c⟩

/-- **Statements are parsed into the derivation the grammar mandates**: the empty statement, `if` with
    and without `else` (the `else` belongs to the nearest `if`), `while`, blocks, calls with any
    number of arguments and assignments to indexed variables, nested to any depth, with comments
    anywhere.  Whenever the grammar specification derives a statement `t` at a position, `Statement::parse`
    of the model succeeds there with enough fuel (`2 · remaining tokens + 2`; the model uses
    `2 · all tokens + 16`), consumes exactly the statement's tokens, reports nothing and returns `t` in
    the implementation's range convention. -/
theorem statement_conforms (ctx : Parse.Ctx) {fs : Nat} {ts rest : Grammar.Toks} {t : Stmt} {sp : Grammar.Span}
    {s : Parse.St} {fm : Nat} (hs : Grammar.stmt ⟨ctx.toks⟩ fs ts = some (t, sp, rest)) (hat : ParseConform.At ctx s ts)
    (hfm : 2 * ts.length + 2 ≤ fm) :
    Parse.parseStmt ctx fm none s = .ok { s with pos := sp.last + 1 } (Grammar.relStmt s.refPos t) ∧
    t.info.range = ⟨s.pos, sp.last + 1⟩ ∧ ParseConform.At ctx { s with pos := sp.last + 1 } rest :=
  let ⟨a, _, _, b, c⟩ := (ParseConform.sconf_all ctx fs).stmt ts t sp rest hs fm s hat hfm
  ⟨a, b, c⟩

/-- **The syntax tree is the derivation the grammar mandates.**  For every token sequence whose
    last token is not a comment (every output of the lexer ends with `Eof`): whenever the grammar
    specification (`Spec/Grammar.lean`: a plain recursive-descent recogniser over the comment-free
    tokens, ranges = own tokens plus the comment run in front of the first one) derives the program
    `p`, `parser::parse` of the model returns exactly `p` — every declaration, statement and
    expression node, every range and `Reference` offset, the doc comments — and attaches no
    diagnostic anywhere.  No bound on the size of the program or on the nesting depth. -/
theorem parse_conforms (toks : List Token) (p : Program) (h : Grammar.parse toks = some p)
    (hend : ParseConform.EndsWithToken toks.toArray) : Parse.parse toks = .ok p :=
  ParseConform.parse_conforms toks p h hend

/-- the entry conditions hold at the start of every token array -/
theorem at_start (ctx : Parse.Ctx) : ParseConform.At ctx { pos := 0 } (ParseConform.tsFrom ctx.toks 0) :=
  ⟨Or.inl rfl, Nat.le_refl _, rfl⟩

/-- Non-vacuity: the specification derives `1 + // c ⏎ 2 * x` from its seven tokens (comment included). -/
def exampleToks : List Token :=
  [⟨.Int (.Int 1), ⟨0, 1⟩, []⟩, ⟨.Plus, ⟨1, 2⟩, []⟩, ⟨.Comment "c".toList, ⟨2, 5⟩, []⟩, ⟨.Int (.Int 2), ⟨5, 6⟩, []⟩,
   ⟨.Times, ⟨6, 7⟩, []⟩, ⟨.Ident "x".toList, ⟨7, 8⟩, []⟩, ⟨.Eof, ⟨8, 8⟩, []⟩]

example : (Grammar.expr ⟨exampleToks.toArray⟩ 20 (ParseConform.tsFrom exampleToks.toArray 0)).isSome = true := by
  decide +kernel

/-- Non-vacuity of `parse_conforms`: the specification derives `// doc ⏎ proc main() {var i:int;i:=1;}`
    (17 tokens, doc comment included), and its last token is `Eof`. -/
def exampleProgram : List Token :=
  [⟨.Comment "doc".toList, ⟨0, 6⟩, []⟩, ⟨.Proc, ⟨6, 10⟩, []⟩, ⟨.Ident "main".toList, ⟨11, 15⟩, []⟩, ⟨.LParen, ⟨15, 16⟩, []⟩,
   ⟨.RParen, ⟨16, 17⟩, []⟩, ⟨.LCurly, ⟨18, 19⟩, []⟩, ⟨.Var, ⟨19, 22⟩, []⟩, ⟨.Ident "i".toList, ⟨23, 24⟩, []⟩, ⟨.Colon, ⟨24, 25⟩, []⟩,
   ⟨.Ident "int".toList, ⟨25, 28⟩, []⟩, ⟨.Semic, ⟨28, 29⟩, []⟩, ⟨.Ident "i".toList, ⟨29, 30⟩, []⟩, ⟨.Assign, ⟨30, 32⟩, []⟩,
   ⟨.Int (.Int 1), ⟨32, 33⟩, []⟩, ⟨.Semic, ⟨33, 34⟩, []⟩, ⟨.RCurly, ⟨34, 35⟩, []⟩, ⟨.Eof, ⟨35, 35⟩, []⟩]

example : (Grammar.parse exampleProgram).isSome = true := by decide +kernel
example : ParseConform.EndsWithToken exampleProgram.toArray := ⟨_, rfl, by decide⟩

end Spl.C04
