/-
  C04 — The syntax tree is the derivation the SPL grammar mandates.  Property theorems only.
-/
import SplVerif.Lemmas.ParserTables
import SplVerif.Spec.Grammar

namespace Spl.C04

/-- Table obligation over the regenerated `tag_parser!` instances. -/
theorem tag_parsers_ok : TagParsersOK = true := by decide

/-- Relativising never changes a program's own range, only re-bases what lies under a `Reference`. -/
theorem relativize_info (p : Program) : (Grammar.relativize p).info = p.info := rfl

/-- The number and order of global declarations is preserved by the range convention change. -/
theorem relativize_decls_length (p : Program) : (Grammar.relativize p).decls.length = p.decls.length := by
  simp [Grammar.relativize]

end Spl.C04
