/-
  C02 — The server never crashes or goes silent.  Property theorems only.
-/
import SplVerif.Props.C06
import SplVerif.Props.C18
import SplVerif.Model.Table

namespace Spl.C02

/-- Lexing never panics, whatever the text (from C06). -/
theorem lex_never_panics (s : List Char) : ∃ ts, lex s = .ok ts := C06.lex_total s

/-- Every request that reaches a live server is answered exactly once (from C18's machine). -/
theorem one_response (p : Rpc.Phase) (id : Int) (m : String) :
    (∀ c, p ≠ .exited c) → (Rpc.step p (.req id m)).2.length = 1 := by
  intro h
  have := C18.one_response_per_request p (.req id m)
  cases p <;> simp_all

/-- Token-range to text-range conversion never panics for ranges inside the token vector. -/
theorem tokenRange_ok (toks : Array Token) (r : Range) (_h1 : r.lo ≤ r.hi) (h2 : r.hi < toks.size) :
    ∃ t, tokenRangeToText toks r = .ok t := by
  unfold tokenRangeToText
  by_cases he : r.hi ≤ r.lo
  · simp only [he, if_true]
    have : toks[r.hi]? = some toks[r.hi] := by simp [h2]
    rw [this]; exact ⟨_, rfl⟩
  · have hgt : ¬ r.hi > toks.size := by omega
    simp only [he, if_false, hgt]
    have a : toks[r.lo]? = some toks[r.lo] := by
      have : r.lo < toks.size := by omega
      simp [this]
    have b : toks[r.hi - 1]? = some toks[r.hi - 1] := by
      have : r.hi - 1 < toks.size := by omega
      simp [this]
    rw [a, b]; exact ⟨_, rfl⟩

end Spl.C02
