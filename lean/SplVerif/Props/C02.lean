/-
  C02 — The server never crashes or goes silent.  Property theorems only.
-/
import SplVerif.Props.C06
import SplVerif.Props.C18
import SplVerif.Model.Table
import SplVerif.Props.C07
import SplVerif.Lemmas.Total
import SplVerif.Lemmas.IdOK

namespace Spl.C02

/-- Lexing never panics, whatever the text (from C06). -/
theorem lex_never_panics (s : List Char) : ∃ ts, lex s = .ok ts := C06.lex_total s

/-- Incremental lexing never panics either: for every old text, every change on character
    boundaries and every replacement (in particular `shift_token` never underflows and the slice at
    the re-lex start is always on a character boundary), from C07. -/
theorem lex_update_never_panics (pre mid ins post : List Char) (old : List Token)
    (hold : lex (pre ++ mid ++ post) = .ok old) :
    ∃ new ch, lexUpdate (pre ++ ins ++ post) old (utf8Len pre) (utf8Len pre + utf8Len mid) (utf8Len ins) =
      .ok (new, ch) := by
  obtain ⟨new, ch, h, _⟩ := C07.update_eq_lex pre mid ins post old hold
  exact ⟨new, ch, h⟩

/-- Every request that reaches a live server is answered exactly once (from C18's machine). -/
theorem one_response (p : Rpc.Phase) (id : Int) (m : String) :
    (∀ c, p ≠ .exited c) → (Rpc.step p (.req id m)).2.length = 1 := by
  intro h
  have := C18.one_response_per_request p (.req id m)
  cases p <;> simp_all

/-- Token-range to text-range conversion never panics for ranges inside the token vector. -/
theorem tokenRange_ok (toks : Array Token) (r : Range) (_h1 : r.lo ≤ r.hi) (h2 : r.hi < toks.size) :
    ∃ t, tokenRangeToText toks r = .ok t := by
  unfold tokenRangeToText
  by_cases he : r.hi ≤ r.lo
  · simp only [he, if_true]
    have : toks[r.hi]? = some toks[r.hi] := by simp [h2]
    rw [this]; exact ⟨_, rfl⟩
  · have hgt : ¬ r.hi > toks.size := by omega
    simp only [he, if_false, hgt]
    have a : toks[r.lo]? = some toks[r.lo] := by
      have : r.lo < toks.size := by omega
      simp [this]
    have b : toks[r.hi - 1]? = some toks[r.hi - 1] := by
      have : r.hi - 1 < toks.size := by omega
      simp [this]
    rw [a, b]; exact ⟨_, rfl⟩

/-- **The parser never panics, for any token sequence whatsoever**: no parser of the model runs out
    of fuel (the recursive-descent budgets — 8 levels per token for expressions, 2 for statements and
    type expressions — and the loop budgets suffice for every input), no slice leaves the token array,
    no range subtraction underflows, no operator conversion fails: `parser::parse` either returns a
    program or stops with the one `expect("Parser cannot fail")` of `parser::parse`. -/
theorem parse_never_panics (toks : List Token) :
    (∃ p, Parse.parse toks = .ok p) ∨ Parse.parse toks = .error ⟨"expect:Parser cannot fail"⟩ := by
  have h := Total.program_np { toks := toks.toArray, change := ⟨0, 0, toks.length⟩ }
  have hparse : Parse.parse toks =
      match Parse.parseProgram { toks := toks.toArray, change := ⟨0, 0, toks.length⟩ } none { pos := 0 } with
      | .ok _ p => .ok p
      | .err _ _ => .error ⟨"expect:Parser cannot fail"⟩
      | .panic e => .error e := rfl
  rw [hparse]
  cases hr : Parse.parseProgram { toks := toks.toArray, change := ⟨0, 0, toks.length⟩ } none { pos := 0 } with
  | ok s p => exact Or.inl ⟨p, rfl⟩
  | err k s => exact Or.inr rfl
  | panic e => exact absurd hr (h e)

theorem kind_eof (ty : TokenType) (h : ty.kind = Kind.Eof) : ty = .Eof := by
  cases ty <;> simp [TokenType.kind] at h ⊢

/-- no token the lexer produces in front of the final one is an `Eof` -/
theorem lexL_not_eof : ∀ (s : List Char) (off : Nat), ∀ t ∈ lexL s off, t.kind ≠ Kind.Eof := by
  intro s
  induction s using lexL_induct with
  | hnil => intro off t ht; simp at ht
  | hsp c cs hc ih =>
    intro off t ht
    rw [lexL_space hc] at ht
    exact ih _ t ht
  | htok c cs o hc ho ih =>
    intro off t ht
    rw [lexL_token hc ho] at ht
    simp only [List.mem_cons] at ht
    rcases ht with rfl | ht
    · intro hk
      have := (lexOne_ok ho).notEof
      exact this (kind_eof _ (by simpa [Token.kind, mkToken] using hk))
    · exact ih _ t ht

/-- **Parsing never fails**: for every token sequence that ends with its only `Eof` token,
    `parser::parse` of the model returns a program — no panic, and not the
    `expect("Parser cannot fail")` of `parser::parse` either: every loop element consumes a token,
    every recovery stops in front of the final `Eof` (all synchronisation sets accept it), a
    declaration whose keyword is there cannot fail, so the declaration loop ends exactly in front of
    the `Eof`, which is then the last token. -/
theorem parse_total (front : List Token) (e : Token) (he : e.kind = Kind.Eof)
    (hf : ∀ t ∈ front, t.kind ≠ Kind.Eof) : ∃ p, Parse.parse (front ++ [e]) = .ok p := by
  let ctx : Parse.Ctx := { toks := (front ++ [e]).toArray, change := ⟨0, 0, (front ++ [e]).length⟩ }
  have hE : Total.EofLast ctx := by
    refine ⟨⟨e, ?_, he⟩, ?_⟩
    · show (front ++ [e]).toArray[(front ++ [e]).toArray.size - 1]? = some e
      simp
    · intro i t ht hk
      show i + 1 = (front ++ [e]).toArray.size
      have ht0 : (front ++ [e]).toArray[i]? = some t := ht
      have ht' : (front ++ [e])[i]? = some t := by simpa using ht0
      simp only [List.size_toArray, List.length_append, List.length_singleton]
      by_cases hi : i < front.length
      · rw [List.getElem?_append_left hi] at ht'
        exact absurd hk (hf t (List.mem_of_getElem? ht'))
      · have hlt : i < (front ++ [e]).length := (List.getElem?_eq_some_iff.mp ht').1
        simp at hlt
        omega
  obtain ⟨s', p, h⟩ := Total.program_total ctx hE
  have hparse : Parse.parse (front ++ [e]) = match Parse.parseProgram ctx none { pos := 0 } with
      | .ok _ p => .ok p
      | .err _ _ => .error ⟨"expect:Parser cannot fail"⟩
      | .panic e => .error e := rfl
  rw [hparse, h]
  exact ⟨p, rfl⟩

/-- **Lexing and parsing any text succeeds**: the front half of `AnalyzedSource::new` (tokens, tree
    with its syntax diagnostics) is total — for every text whatsoever. -/
theorem lex_parse_total (text : List Char) : ∃ toks p, lex text = .ok toks ∧ Parse.parse toks = .ok p := by
  have hl : lex text = .ok (lexL text 0 ++ [eofToken (utf8Len text)]) := by
    simp only [lex, lexGo_eq_lexL]
  obtain ⟨p, hp⟩ := parse_total (lexL text 0) (eofToken (utf8Len text)) (by simp [eofToken, Token.kind, TokenType.kind])
    (lexL_not_eof text 0)
  exact ⟨_, p, hl, hp⟩

/-- **`AnalyzedSource::new` never panics**: for every text whatsoever, lexing, parsing, building the
    symbol table and the semantic pass all return — the document (tokens, tree, table, with every
    diagnostic attached) always exists.  The table and semantic passes index the token range of an
    identifier (`range.hi - 1` would underflow on an empty range); `IdOK.parse_idProg` shows that every
    identifier the parser produces covers a token, `AnalyzeTotal.build_analyze_total` that this is
    all those passes need (including: no type can be named `main`, so the `'main' must be a
    procedure` panic is unreachable). -/
theorem new_total (text : List Char) : ∃ d, AnalyzedSource.new text = .ok d := by
  obtain ⟨toks, p, hl, hp⟩ := lex_parse_total text
  obtain ⟨p1, t, p2, hb, ha⟩ := AnalyzeTotal.build_analyze_total p (IdOK.parse_idProg toks p hp)
  exact ⟨{ text := text, tokens := toks, ast := p2, table := t }, by simp only [AnalyzedSource.new, hl, hp, hb, ha]⟩

/-- non-vacuity / sanity: a text with two procedures, a type named like a builtin and a use of an
    undeclared name goes through every pass -/
example : (AnalyzedSource.new "type int = array [3] of bool; proc main() { var i: int; i[0] := x; q(i); } proc q(ref a: int) {}".toList).toOption.isSome = true := by
  decide +kernel

end Spl.C02
