/-
  C01 — Incremental re-analysis equals analysis from scratch.  Property theorems only.
-/
import SplVerif.Model.Table

namespace Spl.C01

/-- **Table and semantic layers are pure functions of the tree.**  If, after the incremental
    text/token/tree steps of a batch of changes, the token sequence is the batch lexing of the
    new text and the tree is the batch parse of those tokens, then `update` returns exactly what
    `AnalyzedSource::new` returns for the final text (tokens, tree with every diagnostic, table). -/
theorem update_eq_new_of_tree_eq (d d1 : AnalyzedSource) (cs : List TextChange)
    (hgo : AnalyzedSource.update.go d cs = .ok d1)
    (hlex : lex d1.text = .ok d1.tokens)
    (hparse : Parse.parse d1.tokens = .ok d1.ast) :
    d.update cs = AnalyzedSource.new d1.text := by
  unfold AnalyzedSource.update AnalyzedSource.new
  simp only [hgo, hlex, hparse]

/-- The text layer of `update` is the fold of `replace_range` (C08 lifts it to LSP changes). -/
theorem applyChange_text (d d' : AnalyzedSource) (c : TextChange) (h : d.applyChange c = .ok d') :
    replaceRange d.text c.lo c.hi c.text = some d'.text := by
  unfold AnalyzedSource.applyChange at h
  cases hr : replaceRange d.text c.lo c.hi c.text with
  | none => simp [hr] at h
  | some t =>
    simp only [hr] at h
    cases hl : lexUpdate t d.tokens c.lo c.hi (utf8Len c.text) with
    | error e => simp [hl] at h
    | ok r =>
      obtain ⟨toks, tc⟩ := r
      simp only [hl] at h
      cases hp : Parse.update d.ast toks tc with
      | error e => simp [hp] at h
      | ok ast => simp [hp] at h; subst h; rfl

end Spl.C01

namespace Spl.C01

/-- Model-level observation of one incremental step followed by the comparison with the fresh
    analysis of the resulting text: numbers of diagnostics attached to the two trees. -/
def errorCounts (text : List Char) (c : TextChange) : Option (Nat × Nat) :=
  match AnalyzedSource.new text with
  | .ok d =>
    match d.update [c] with
    | .ok u =>
      match AnalyzedSource.new u.text with
      | .ok f => some (u.ast.errors.length, f.ast.errors.length)
      | _ => none
    | _ => none
  | _ => none

/-- **Known finding KF-C01-parser (witness).**  The tree layer of C01 is false for the code as
    modelled: in the valid program `proc main(){var a:int;var b:int;}` replacing the `n` of the
    first `int` by a space makes `parser::update` reuse the old node of `var b:int;` where a
    fresh parse rejects it — the incremental tree carries 3 diagnostics, the fresh one 4. -/
theorem kf_c01_parser_witness :
    errorCounts "proc main(){var a:int;var b:int;}".toList ⟨19, 20, [' ']⟩ = some (3, 4) := by
  decide +kernel

end Spl.C01
