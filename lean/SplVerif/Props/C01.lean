/-
  C01 — Incremental re-analysis equals analysis from scratch.  Property theorems only.
-/
import SplVerif.Model.Table
import SplVerif.Props.C07

namespace Spl.C01

/-- **Table and semantic layers are pure functions of the tree.**  If, after the incremental
    text/token/tree steps of a batch of changes, the token sequence is the batch lexing of the
    new text and the tree is the batch parse of those tokens, then `update` returns exactly what
    `AnalyzedSource::new` returns for the final text (tokens, tree with every diagnostic, table). -/
theorem update_eq_new_of_tree_eq (d d1 : AnalyzedSource) (cs : List TextChange)
    (hgo : AnalyzedSource.update.go d cs = .ok d1)
    (hlex : lex d1.text = .ok d1.tokens)
    (hparse : Parse.parse d1.tokens = .ok d1.ast) :
    d.update cs = AnalyzedSource.new d1.text := by
  unfold AnalyzedSource.update AnalyzedSource.new
  simp only [hgo, hlex, hparse]

/-- The text layer of `update` is the fold of `replace_range` (C08 lifts it to LSP changes). -/
theorem applyChange_text (d d' : AnalyzedSource) (c : TextChange) (h : d.applyChange c = .ok d') :
    replaceRange d.text c.lo c.hi c.text = some d'.text := by
  unfold AnalyzedSource.applyChange at h
  cases hr : replaceRange d.text c.lo c.hi c.text with
  | none => simp [hr] at h
  | some t =>
    simp only [hr] at h
    cases hl : lexUpdate t d.tokens c.lo c.hi (utf8Len c.text) with
    | error e => simp [hl] at h
    | ok r =>
      obtain ⟨toks, tc⟩ := r
      simp only [hl] at h
      cases hp : Parse.update d.ast toks tc with
      | error e => simp [hp] at h
      | ok ast => simp [hp] at h; subst h; rfl

theorem splitAtByte_spec : ∀ (t : List Char) (n : Nat) (a b : List Char),
    splitAtByte t n = some (a, b) → t = a ++ b ∧ utf8Len a = n
  | r, 0, a, b, h => by
    simp [splitAtByte] at h
    obtain ⟨h1, h2⟩ := h
    subst h1 h2
    simp
  | [], n + 1, a, b, h => by simp [splitAtByte] at h
  | c :: cs, n + 1, a, b, h => by
    rw [splitAtByte] at h
    split at h
    · rename_i hle
      cases hs : splitAtByte cs (n + 1 - c.utf8Size) with
      | none => simp [hs] at h
      | some r =>
        obtain ⟨a', b'⟩ := r
        simp only [hs, Option.map, Option.some.injEq, Prod.mk.injEq] at h
        obtain ⟨h1, h2⟩ := h
        subst h1 h2
        obtain ⟨e1, e2⟩ := splitAtByte_spec cs _ a' b' hs
        exact ⟨by rw [e1]; rfl, by simp only [utf8Len_cons]; omega⟩
    · simp at h

/-- `replace_range(lo..hi, ins)` succeeds exactly on a decomposition of the text. -/
theorem replaceRange_spec (t : List Char) (lo hi : Nat) (ins t' : List Char)
    (h : replaceRange t lo hi ins = some t') :
    ∃ pre mid post, t = pre ++ mid ++ post ∧ t' = pre ++ ins ++ post ∧
      lo = utf8Len pre ∧ hi = utf8Len pre + utf8Len mid := by
  unfold replaceRange at h
  split at h
  · simp at h
  · rename_i hle
    cases h1 : splitAtByte t lo with
    | none => simp [h1] at h
    | some r1 =>
      obtain ⟨pre, rest⟩ := r1
      simp only [h1] at h
      cases h2 : splitAtByte rest (hi - lo) with
      | none => simp [h2] at h
      | some r2 =>
        obtain ⟨mid, post⟩ := r2
        simp only [h2, Option.some.injEq] at h
        obtain ⟨e1, e2⟩ := splitAtByte_spec t lo pre rest h1
        obtain ⟨e3, e4⟩ := splitAtByte_spec rest (hi - lo) mid post h2
        refine ⟨pre, mid, post, by rw [e1, e3, List.append_assoc], h.symm, e2.symm, by omega⟩

/-- **C01, token layer (unconditional).**  One incremental step keeps "the tokens are the fresh
    tokenisation of the text": whatever the change, if the step does not panic, the new token
    sequence is `lex` of the new text (C07.update_eq_lex). -/
theorem applyChange_tokens (d d' : AnalyzedSource) (c : TextChange)
    (hinv : lex d.text = .ok d.tokens) (h : d.applyChange c = .ok d') :
    lex d'.text = .ok d'.tokens := by
  unfold AnalyzedSource.applyChange at h
  cases hr : replaceRange d.text c.lo c.hi c.text with
  | none => simp [hr] at h
  | some t =>
    simp only [hr] at h
    obtain ⟨pre, mid, post, e1, e2, e3, e4⟩ := replaceRange_spec _ _ _ _ _ hr
    rw [e1] at hinv
    obtain ⟨new, ch, hu, hl⟩ := C07.update_eq_lex pre mid c.text post d.tokens hinv
    rw [e2, e3, e4] at h
    rw [hu] at h
    simp only at h
    cases hp : Parse.update d.ast new ch with
    | error e => simp [hp] at h
    | ok ast =>
      simp only [hp, Except.ok.injEq] at h
      subst h
      exact hl

/-- … and over any batch of changes: after `update`'s incremental fold the tokens are the fresh
    tokenisation of the final text.  The lexer layer of `update` never panics (`C07`); only the
    tree layer can (KF-C02). -/
theorem go_tokens (d d1 : AnalyzedSource) (cs : List TextChange)
    (hinv : lex d.text = .ok d.tokens) (hgo : AnalyzedSource.update.go d cs = .ok d1) :
    lex d1.text = .ok d1.tokens := by
  induction cs generalizing d with
  | nil =>
    simp only [AnalyzedSource.update.go, Except.ok.injEq] at hgo
    subst hgo; exact hinv
  | cons c cs ih =>
    simp only [AnalyzedSource.update.go] at hgo
    cases ha : d.applyChange c with
    | error e => simp [ha] at hgo
    | ok d' =>
      simp only [ha] at hgo
      exact ih d' (applyChange_tokens d d' c hinv ha) hgo

/-- **C01/C08, text layer over a batch**: after the incremental fold the document text is the
    left fold of `replace_range` over the changes — whatever the tokens and the tree do. -/
theorem go_text (d d1 : AnalyzedSource) (cs : List TextChange)
    (hgo : AnalyzedSource.update.go d cs = .ok d1) :
    cs.foldl (fun (acc : Option (List Char)) c => acc.bind (fun t => replaceRange t c.lo c.hi c.text))
      (some d.text) = some d1.text := by
  induction cs generalizing d with
  | nil =>
    simp only [AnalyzedSource.update.go, Except.ok.injEq] at hgo
    subst hgo; rfl
  | cons c cs ih =>
    simp only [AnalyzedSource.update.go] at hgo
    cases ha : d.applyChange c with
    | error e => simp [ha] at hgo
    | ok d' =>
      simp only [ha] at hgo
      have ht := applyChange_text d d' c ha
      simp only [List.foldl_cons, Option.bind, ht]
      exact ih d' hgo

/-- … and `update` returns a document with exactly that text. -/
theorem update_text (d u : AnalyzedSource) (cs : List TextChange) (h : d.update cs = .ok u) :
    cs.foldl (fun (acc : Option (List Char)) c => acc.bind (fun t => replaceRange t c.lo c.hi c.text))
      (some d.text) = some u.text := by
  unfold AnalyzedSource.update at h
  cases hgo : AnalyzedSource.update.go d cs with
  | error e => simp [hgo] at h
  | ok d1 =>
    simp only [hgo] at h
    cases hb : build d1.ast with
    | error e => simp [hb] at h
    | ok r =>
      obtain ⟨prog1, table⟩ := r
      simp only [hb] at h
      cases ha : analyze prog1 table with
      | error e => simp [ha] at h
      | ok prog2 =>
        simp only [ha, Except.ok.injEq] at h
        subst h
        exact go_text d d1 cs hgo

/-- With the token layer proved, the whole of C01 reduces to the tree layer: if the incremental
    tree equals the fresh parse, `update` returns exactly `AnalyzedSource::new` of the final text. -/
theorem update_eq_new_of_tree (d d1 : AnalyzedSource) (cs : List TextChange)
    (hinv : lex d.text = .ok d.tokens)
    (hgo : AnalyzedSource.update.go d cs = .ok d1)
    (hparse : Parse.parse d1.tokens = .ok d1.ast) :
    d.update cs = AnalyzedSource.new d1.text :=
  update_eq_new_of_tree_eq d d1 cs hgo (go_tokens d d1 cs hinv hgo) hparse

end Spl.C01

namespace Spl.C01

/-- Model-level observation of one incremental step followed by the comparison with the fresh
    analysis of the resulting text: numbers of diagnostics attached to the two trees. -/
def errorCounts (text : List Char) (c : TextChange) : Option (Nat × Nat) :=
  match AnalyzedSource.new text with
  | .ok d =>
    match d.update [c] with
    | .ok u =>
      match AnalyzedSource.new u.text with
      | .ok f => some (u.ast.errors.length, f.ast.errors.length)
      | _ => none
    | _ => none
  | _ => none

/-- **Known finding KF-C01-parser (witness).**  The tree layer of C01 is false for the code as
    modelled: in the valid program `proc main(){var a:int;var b:int;}` replacing the `n` of the
    first `int` by a space makes `parser::update` reuse the old node of `var b:int;` where a
    fresh parse rejects it — the incremental tree carries 3 diagnostics, the fresh one 4. -/
theorem kf_c01_parser_witness :
    errorCounts "proc main(){var a:int;var b:int;}".toList ⟨19, 20, [' ']⟩ = some (3, 4) := by
  decide +kernel

end Spl.C01
