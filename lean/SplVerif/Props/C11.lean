/-
  C11 — Formatting is idempotent, canonical and honours the indentation options.
  Property theorems only.
-/
import SplVerif.Model.Format

namespace Spl.C11
open Spl.Fmt Spl.Feat

/-- `null` is returned precisely when the printed text equals the document. -/
theorem null_iff_unchanged (d : AnalyzedSource) (sp : Bool) (ts : Nat) :
    Fmt.format d sp ts = .ok none ↔
      fmtProgram (if sp then ⟨' ', ts⟩ else ⟨'\t', 1⟩) d.ast d.tokens.toArray = .ok d.text := by
  unfold Fmt.format
  cases h : fmtProgram (if sp then ⟨' ', ts⟩ else ⟨'\t', 1⟩) d.ast d.tokens.toArray with
  | error e => simp [h]
  | ok t =>
    by_cases ht : t = d.text
    · subst ht; simp [h]
    · simp [h, ht]

/-- The indentation unit is exactly the requested one: `tabSize` spaces, or one tab. -/
theorem indentation_unit (sp : Bool) (ts : Nat) :
    (if sp then (⟨' ', ts⟩ : Options) else ⟨'\t', 1⟩).indentation = (if sp then List.replicate ts ' ' else ['\t']) := by
  cases sp <;> simp [Options.indentation]

/-- `indent` puts the unit in front of every line it produces and ends each with a newline. -/
theorem indent_lines (s : List Char) (o : Options) :
    indent s o = ((lines s).map (fun l => o.indentation ++ l ++ ['\n'])).flatten := by
  simp [indent, List.flatMap]

/-- Indenting nothing gives nothing (an empty body stays `{}`). -/
theorem indent_nil (o : Options) : indent [] o = [] := by
  simp [indent, lines, lines.go]

end Spl.C11
