/-
  C11 — Formatting is idempotent, canonical and honours the indentation options.
  Property theorems only.
-/
import SplVerif.Model.Format
import SplVerif.Lemmas.FmtCanon
import SplVerif.Props.C09
import SplVerif.Props.C04
import SplVerif.Props.C03

namespace Spl.C11
open Spl.Fmt Spl.Feat

/-- `null` is returned precisely when the printed text equals the document. -/
theorem null_iff_unchanged (d : AnalyzedSource) (sp : Bool) (ts : Nat) :
    Fmt.format d sp ts = .ok none ↔
      fmtProgram (if sp then ⟨' ', ts⟩ else ⟨'\t', 1⟩) d.ast d.tokens.toArray = .ok d.text := by
  unfold Fmt.format
  cases h : fmtProgram (if sp then ⟨' ', ts⟩ else ⟨'\t', 1⟩) d.ast d.tokens.toArray with
  | error e => simp [h]
  | ok t =>
    by_cases ht : t = d.text
    · subst ht; simp [h]
    · simp [h, ht]

/-- The indentation unit is exactly the requested one: `tabSize` spaces, or one tab. -/
theorem indentation_unit (sp : Bool) (ts : Nat) :
    (if sp then (⟨' ', ts⟩ : Options) else ⟨'\t', 1⟩).indentation = (if sp then List.replicate ts ' ' else ['\t']) := by
  cases sp <;> simp [Options.indentation]

/-- `indent` puts the unit in front of every line it produces and ends each with a newline. -/
theorem indent_lines (s : List Char) (o : Options) :
    indent s o = ((lines s).map (fun l => o.indentation ++ l ++ ['\n'])).flatten := by
  simp [indent, List.flatMap]

/-- Indenting nothing gives nothing (an empty body stays `{}`). -/
theorem indent_nil (o : Options) : indent [] o = [] := by
  simp [indent, lines, lines.go]


/-! ### canonical form -/

/-- **Layout independence (`layout_independent`).**  Two lexically valid texts whose token sequences have the same
    types in the same order (types carry identifier spellings, literal values and comment texts) — i.e. two layouts
    of the same tokens, whatever blanks, tabs, `\n` / `\r\n` / `\r` line ends, literal spellings (`007` vs `7`,
    `0x0a` vs `0x0A`) they use — get the same derivation from the grammar specification and the same output from the
    formatter model: the printed text is a function of the token types alone.  No restriction to comment-free
    texts, no bound on the size. -/
theorem layout_independent (o : Options) (t1 t2 : List Char) (toks1 toks2 : List Token)
    (h1 : LexSpec.lex t1 = some toks1) (h2 : LexSpec.lex t2 = some toks2)
    (hty : toks1.map (·.ty) = toks2.map (·.ty)) :
    Grammar.parse toks1 = Grammar.parse toks2 ∧
      ∀ p, fmtProgram o p toks1.toArray = fmtProgram o p toks2.toArray := by
  have herr : ∀ (t : List Char) (toks : List Token), LexSpec.lex t = some toks → ∀ x ∈ toks, x.errors = [] := by
    intro t toks h x hx
    obtain ⟨front, e, rfl, _, hee, hf⟩ := FmtProgram.go_shape _ _ _ _ h
    rcases List.mem_append.mp hx with hm | hm
    · exact (hf x hm).2
    · simp only [List.mem_singleton] at hm; subst hm; exact hee
  exact ⟨FmtCanon.parse_congr toks1 toks2 hty (herr t1 toks1 h1) (herr t2 toks2 h2),
    fun p => FmtCanon.fmtProgram_same o p (FmtCanon.sameTy_of_lists hty)⟩

/-- **Idempotence for programs without comments (`format_idempotent_partial`).**  For every lexically and
    syntactically valid text without comments, every `insertSpaces` and `tabSize`: the text `out` the formatter model
    prints is itself lexically valid, the grammar specification derives the SAME program from its tokens, the model
    of `parser::parse` returns that program for it (`C04.parse_conforms`), and formatting it again prints `out`
    again — so a second `textDocument/formatting` request answers `null` (`second_format_is_null`).
    PARTIAL with respect to the property only in that texts with comments are not covered by the theorem (they are
    evaluated on every run: PROPFMTIDEM). -/
theorem format_idempotent_partial (insertSpaces : Bool) (tabSize : Nat) (text : List Char) (toks : List Token)
    (p : Program) (h1 : LexSpec.lex text = some toks) (h2 : ∀ t ∈ toks, t.kind ≠ Kind.Comment)
    (h3 : Grammar.parse toks = some p) :
    ∃ out ts', fmtProgram (C09.optionsOf insertSpaces tabSize) p toks.toArray = .ok out ∧
      lex out = .ok ts' ∧ Parse.parse ts' = .ok p ∧
      fmtProgram (C09.optionsOf insertSpaces tabSize) p ts'.toArray = .ok out := by
  obtain ⟨out, ts', e1, e2, e3, e4⟩ := C09.format_preserves_tokens_partial insertSpaces tabSize text toks p h1 h2 h3
  obtain ⟨hp, hf⟩ := layout_independent (C09.optionsOf insertSpaces tabSize) out text ts' toks e2 h1 e4
  have hparse : Grammar.parse ts' = some p := by rw [hp]; exact h3
  have hend : ParseConform.EndsWithToken ts'.toArray := C03.lex_ends_with_token out ts' e3
  exact ⟨out, ts', e1, e3, C04.parse_conforms ts' p hparse hend, by rw [hf p]; exact e1⟩

/-- … hence the request handler answers `null` on the formatted document. -/
theorem second_format_is_null (insertSpaces : Bool) (tabSize : Nat) (text : List Char) (toks : List Token)
    (p : Program) (h1 : LexSpec.lex text = some toks) (h2 : ∀ t ∈ toks, t.kind ≠ Kind.Comment)
    (h3 : Grammar.parse toks = some p) :
    ∃ out ts', fmtProgram (C09.optionsOf insertSpaces tabSize) p toks.toArray = .ok out ∧ lex out = .ok ts' ∧
      ∀ d : AnalyzedSource, d.text = out → d.tokens = ts' → d.ast = p → Fmt.format d insertSpaces tabSize = .ok none := by
  obtain ⟨out, ts', e1, e2, _, e4⟩ := format_idempotent_partial insertSpaces tabSize text toks p h1 h2 h3
  refine ⟨out, ts', e1, e2, ?_⟩
  intro d hd ht ha
  rw [null_iff_unchanged, hd, ht, ha]
  exact e4

end Spl.C11
