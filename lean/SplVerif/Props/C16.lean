/-
  C16 — Completion proposals respect scope and syntactic position.  Property theorems only.
-/
import SplVerif.Model.Features
import SplVerif.Lemmas.ScopeExact

namespace Spl.C16
open Spl.Feat

/-- **Statement positions.**  The proposals for a new statement are the four statement starters,
    exactly the entries of the given local table as variables, and exactly the procedures of the
    global table as functions. -/
theorem new_stmt_shape (lt : Option LocalTable) (g : GlobalTable) :
    newStmt lt g = [snIf, snWhile, kwItem "if", kwItem "while"] ++
      (match lt with | some l => searchVariables l | none => []) ++ searchProcedures g := rfl

/-- One variable proposal per entry of the local table, labelled with its name. -/
theorem search_variables_labels (l : LocalTable) : (searchVariables l).map (·.label) = l.map (·.1) := by
  induction l with
  | nil => rfl
  | cons e rest ih =>
    obtain ⟨k, v⟩ := e
    cases v <;> simp [searchVariables, entryItem] at ih ⊢ <;> exact ih

theorem search_variables_kind (l : LocalTable) : ∀ i ∈ searchVariables l, i.kind = "Variable" := by
  intro i hi
  simp only [searchVariables, List.mem_map] at hi
  obtain ⟨⟨k, e⟩, _, rfl⟩ := hi
  cases e <;> rfl

/-- Type positions: exactly the type entries of the global table (declared types and `int`). -/
theorem search_types_only_types (g : GlobalTable) : ∀ i ∈ searchTypes g, i.kind = "Struct" := by
  intro i hi
  simp only [searchTypes, List.mem_filterMap] at hi
  obtain ⟨⟨k, e⟩, _, h⟩ := hi
  cases e with
  | type t => simp [entryItem] at h; subst h; rfl
  | procedure p => simp at h

/-- Outside any declaration only declaration starters are offered (plus the `main` snippet while
    no procedure `main` exists). -/
theorem top_level_only_starters (g : GlobalTable) :
    ∀ i ∈ newGlobalDeclaration g, i.label ∈ ["proc".toList, "type".toList, "main".toList] := by
  intro i hi
  unfold newGlobalDeclaration at hi
  generalize tblLookup g "main".toList = lk at hi
  have hbase : ∀ j ∈ [snProc, snType, kwItem "proc", kwItem "type"],
      j.label ∈ ["proc".toList, "type".toList, "main".toList] := by decide
  have hmain : snMain.label ∈ ["proc".toList, "type".toList, "main".toList] := by decide
  rcases List.mem_append.mp hi with h | h
  · exact hbase i h
  · cases lk with
    | none => simp at h; subst h; exact hmain
    | some e =>
      cases e with
      | procedure p => simp at h
      | type t => simp at h; subst h; exact hmain

open Spl.ScopeExact in
/- non-vacuity of the hypothesis `wellTyped p = true`: the kernel-evaluated examples of Props/C03.lean (`specVerdict … = some true`
   for a program with a type declaration, a procedure with reference and value parameters and `main`). -/
/-- **Statement and type positions of a well-typed program are scope-exact.**  For every program the typing
    specification accepts, with the table `build` returns for it: at a statement position of procedure `pd` (the
    handler passes the local table of the entry found under the procedure's name) the proposals are the four
    statement starters, then exactly the parameters and the local variables `pd` declares, in order, then exactly
    the predefined and the declared procedures — no name that is local to another procedure, none missing; at a
    type position exactly `int` and the declared types. -/
theorem statement_scope_exact (p : Program) (h : Typing.wellTyped p = true) :
    ∃ table, build p = .ok (p, table) ∧
      (searchTypes table).map (·.label) = "int".toList :: p.decls.filterMap declTypeName ∧
      ∀ d ∈ p.decls, ∀ pd n, d.val = .proc pd → pd.name = some n →
        ∃ pe, tblLookup table n.value = some (.procedure pe) ∧
          (newStmt (some pe.localTable) table).map (·.label) =
            ["while".toList, "if".toList, "if".toList, "while".toList] ++
            (pd.params.filterMap paramName ++ pd.vars.filterMap varName) ++
            (["printi", "printc", "readi", "readc", "exit", "time", "clearAll", "setPixel", "drawLine",
              "drawCircle"].map String.toList ++ p.decls.filterMap declProcName) := by
  obtain ⟨table, hb, hp, ht, hl⟩ := tables_exact p h
  refine ⟨table, hb, ?_, ?_⟩
  · rw [ht]; rfl
  · intro d hd pd n hv hn
    obtain ⟨pe, hlk, hnames⟩ := hl d hd pd n hv hn
    refine ⟨pe, hlk, ?_⟩
    rw [new_stmt_shape]
    simp only [List.map_append, search_variables_labels, hnames, hp]
    rfl

open Spl.ScopeExact in
/-- **Names local to another procedure are never proposed.**  In a well-typed program, whatever is proposed at a
    statement position of procedure `pd` is a statement starter, one of `pd`'s own parameters or local variables, or a
    (predefined or declared) procedure — a name that is only a parameter or variable of some other procedure is not
    in the list. -/
theorem only_own_locals_proposed (p : Program) (h : Typing.wellTyped p = true) :
    ∃ table, build p = .ok (p, table) ∧
      ∀ d ∈ p.decls, ∀ pd n, d.val = .proc pd → pd.name = some n →
        ∃ pe, tblLookup table n.value = some (.procedure pe) ∧
          ∀ x ∈ (newStmt (some pe.localTable) table).map (·.label),
            x ∈ ["while".toList, "if".toList] ∨
            x ∈ pd.params.filterMap paramName ++ pd.vars.filterMap varName ∨
            x ∈ (["printi", "printc", "readi", "readc", "exit", "time", "clearAll", "setPixel", "drawLine",
              "drawCircle"].map String.toList ++ p.decls.filterMap declProcName) := by
  obtain ⟨table, hb, _, hl⟩ := statement_scope_exact p h
  refine ⟨table, hb, ?_⟩
  intro d hd pd n hv hn
  obtain ⟨pe, hlk, heq⟩ := hl d hd pd n hv hn
  refine ⟨pe, hlk, ?_⟩
  intro x hx
  rw [heq] at hx
  rcases List.mem_append.mp hx with hx | hx
  · rcases List.mem_append.mp hx with hx | hx
    · left
      simp only [List.mem_cons, List.mem_nil_iff, or_false] at hx ⊢
      rcases hx with rfl | rfl | rfl | rfl <;> simp
    · exact Or.inr (Or.inl hx)
  · exact Or.inr (Or.inr hx)

end Spl.C16
