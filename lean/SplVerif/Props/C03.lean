/-
  C03 — Diagnostics are exactly what SPL prescribes, and point at the culprit.
  Property theorems only.
-/
import SplVerif.Lemmas.Cursor
import SplVerif.Model.Table
import SplVerif.Spec.Typing
import SplVerif.Spec.Grammar
import SplVerif.Lemmas.TypingSound
import SplVerif.Lemmas.ParseClean
import SplVerif.Lemmas.IncLex

namespace Spl.C03

/-- One published diagnostic per diagnostic attached to the tree, in tree order, with the same
    message: publishing neither drops, duplicates nor re-labels a diagnostic. -/
theorem published_one_to_one (toks : Array Token) (l es : List SplError)
    (h : convErrs toks l = .ok es) : es.map (·.msg) = l.map (·.msg) := by
  induction l generalizing es with
  | nil => simp [convErrs] at h; subst h; rfl
  | cons e l ih =>
    simp only [convErrs] at h
    cases h1 : tokenRangeToText toks e.range with
    | error p => simp [h1] at h
    | ok r =>
      simp only [h1] at h
      cases h2 : convErrs toks l with
      | error p => simp [h2] at h
      | ok rest =>
        simp only [h2] at h
        cases h
        simp [ih rest h2]

/-- A converted range lies inside the text whenever the token vector tiles it: the start is a
    token start and the end a token end. -/
theorem tokenRange_bounds (toks : Array Token) (r out : Range)
    (h : tokenRangeToText toks r = .ok out) :
    (∃ t ∈ toks.toList, out.hi = t.range.hi) := by
  unfold tokenRangeToText at h
  split at h
  · split at h
    · rename_i t ht
      cases h
      exact ⟨t, by simpa using Array.mem_of_getElem? ht, rfl⟩
    · simp at h
  · split at h
    · simp at h
    · split at h
      · rename_i a b ha hb
        cases h
        exact ⟨b, by simpa using Array.mem_of_getElem? hb, rfl⟩
      · simp at h

/-- **The static analysis attaches nothing to a valid program.**  For every tree the independent
    typing specification accepts — any number and order of declarations, any nesting of array types,
    statements and expressions — building the symbol table and the semantic analysis of the model
    return the tree as it is: no build or semantic diagnostic anywhere (proof: `Lemmas/TypingSound`,
    a simulation between the specification's environment and the implementation's tables). -/
theorem welltyped_analysis_identity (p : Program) (h : Typing.wellTyped p = true) :
    ∃ table, build p = .ok (p, table) ∧ analyze p table = .ok p :=
  TypingSound.welltyped_identity p h

/-- Hence the diagnostics of a document whose tree is well-typed are exactly the diagnostics the
    parser attached to that tree; in particular there are none if the parser attached none. -/
theorem welltyped_diagnostics (text : List Char) (toks : List Token) (prog : Program)
    (hl : lex text = .ok toks) (hp : Parse.parse toks = .ok prog) (hw : Typing.wellTyped prog = true) :
    ∃ d, AnalyzedSource.new text = .ok d ∧ d.ast = prog ∧ d.tokens = toks ∧
      d.errors = convErrs toks.toArray prog.errors ∧
      (prog.errors = [] → d.errors = .ok []) := by
  obtain ⟨table, hb, ha⟩ := welltyped_analysis_identity prog hw
  refine ⟨{ text := text, tokens := toks, ast := prog, table := table }, ?_, rfl, rfl, rfl, ?_⟩
  · simp [AnalyzedSource.new, hl, hp, hb, ha]
  · intro he
    simp [AnalyzedSource.errors, he, convErrs]

/-- the tokens of a lexed text end with `Eof` -/
theorem lex_ends_with_token (text : List Char) (toks : List Token) (hl : lex text = .ok toks) :
    ParseConform.EndsWithToken toks.toArray := by
  have hl' : toks = lexL text 0 ++ [eofToken (utf8Len text)] := by
    simp only [lex, lexGo_eq_lexL] at hl
    cases hl; rfl
  subst hl'
  refine ⟨eofToken (utf8Len text), ?_, by simp [eofToken, Token.kind, TokenType.kind]⟩
  simp

/-- **A valid SPL text gets no diagnostics at all** (the first sentence of the property, for the
    model, end to end): if the text lexes, the independent grammar specification derives a program
    from its tokens and the independent typing specification accepts that program, then
    `AnalyzedSource::new` succeeds, its tree is that program, and it publishes nothing.
    (`parse_conforms` + `parse_errors_nil` + `welltyped_analysis_identity`; the lexical side is
    C06's `lex_conforms`.) -/
theorem valid_text_no_diagnostics (text : List Char) (toks : List Token) (p : Program)
    (hl : lex text = .ok toks) (hg : Grammar.parse toks = some p) (hw : Typing.wellTyped p = true) :
    ∃ d, AnalyzedSource.new text = .ok d ∧ d.ast = p ∧ d.errors = .ok [] := by
  have hp := ParseConform.parse_conforms toks p hg (lex_ends_with_token text toks hl)
  obtain ⟨d, h1, h2, _, _, h5⟩ := welltyped_diagnostics text toks p hl hp hw
  exact ⟨d, h1, h2, h5 (ParseConform.parse_errors_nil toks p hg)⟩

/-- The specification's verdict on a text: `some true` = syntactically valid and well-typed. -/
def specVerdict (text : String) : Option Bool :=
  match lex text.toList with
  | .error _ => none
  | .ok ts => (Grammar.parseAbs ts).map (fun p => Typing.wellTyped (Grammar.relativize p))

/-- Number of diagnostics the model of `AnalyzedSource::new` attaches to a text. -/
def modelDiagnostics (text : String) : Option Nat :=
  match AnalyzedSource.new text.toList with
  | .ok d => some d.ast.errors.length
  | .error _ => none

/-! Non-vacuity of the specification and of the model, evaluated by the kernel: a program with
    nested arrays, a reference parameter, a call and a comparison is well-typed and gets no
    diagnostic; with an integer as the condition it is ill-typed and gets exactly one. -/
example : specVerdict "type m = array [2] of array [3] of int; proc f(ref a: m, i: int) { a[1][i] := i + 1; } proc main() { var x: m; if (1 < 2) f(x, 0); }" = some true := by
  decide +kernel
example : modelDiagnostics "type m = array [2] of array [3] of int; proc f(ref a: m, i: int) { a[1][i] := i + 1; } proc main() { var x: m; if (1 < 2) f(x, 0); }" = some 0 := by
  decide +kernel
example : specVerdict "type m = array [2] of array [3] of int; proc f(ref a: m, i: int) { a[1][i] := i + 1; } proc main() { var x: m; if (1 + 2) f(x, 0); }" = some false := by
  decide +kernel
example : modelDiagnostics "type m = array [2] of array [3] of int; proc f(ref a: m, i: int) { a[1][i] := i + 1; } proc main() { var x: m; if (1 + 2) f(x, 0); }" = some 1 := by
  decide +kernel


/-- **Every published range lies inside the document.**  Whatever byte range a diagnostic carries (also one that ends
    inside a multi-byte character or beyond the text), both positions of the published LSP range are positions of
    character boundaries of the document's text: `as_position` never invents a line or a column that the text does
    not have. -/
theorem published_range_inside (r : Range) (text : List Char) :
    ∃ a b a' b', text = a ++ b ∧ text = a' ++ b' ∧
      Feat.asPosRange r text = (asPosition (utf8Len a) text, asPosition (utf8Len a') text) := by
  obtain ⟨a, b, e1, h1⟩ := CursorLemmas.asPosition_boundary r.lo text
  obtain ⟨a', b', e2, h2⟩ := CursorLemmas.asPosition_boundary r.hi text
  exact ⟨a, b, a', b', e1, e2, by simp [Feat.asPosRange, h1, h2]⟩

end Spl.C03
