/-
  C08 — The server's copy of a document always equals the client's, positions included.
  Property theorems only.
-/
import SplVerif.Lemmas.Doc

namespace Spl.C08
open LspPos

/-- **Position semantics.** For every text and every position (valid or overshooting), the
    byte index computed by `get_insertion_index` is the offset the LSP specification assigns:
    lines end at `\n`, `\r\n` or `\r`, columns are UTF-16 units, a column past the end of a
    line is the end of that line, a line past the end is the end of the text. -/
theorem index_eq_spec (t : List Char) (p : Pos) : insertionIndex p t = offsetOf t p := by
  have := insertionIndexGo_eq t 0 p 0 0 (Nat.zero_le _)
  simpa [insertionIndex, offsetOf, remCol] using this

theorem splitAtByte_all (t : List Char) : splitAtByte t (utf8Len t) = some (t, []) := by
  induction t with
  | nil => simp [splitAtByte]
  | cons c cs ih =>
    have hc := utf8Size_pos c
    obtain ⟨n, hn⟩ : ∃ n, c.utf8Size + utf8Len cs = n + 1 := ⟨c.utf8Size + utf8Len cs - 1, by omega⟩
    rw [utf8Len_cons, hn]
    unfold splitAtByte
    have h1 : c.utf8Size ≤ n + 1 := by omega
    have h2 : n + 1 - c.utf8Size = utf8Len cs := by omega
    simp [h1, h2, ih]

/-- A range-less change replaces the whole text on the server, as on the client. -/
theorem replaceRange_full (t ins : List Char) : replaceRange t 0 (utf8Len t) ins = some ins := by
  unfold replaceRange
  have h0 : splitAtByte t 0 = some ([], t) := by cases t <;> simp [splitAtByte]
  simp [h0, splitAtByte_all]

/-- One notification: the server's running text after converting and applying the batch of
    content changes (each relative to its predecessor) is the client's text; the server
    panics exactly when the client-side edit is undefined (reversed range). -/
theorem batch_sync (cs : List ContentChange) (t : List Char) :
    (match toTextChanges cs t with
     | .ok (_, t') => some t'
     | .error _ => none) = applyAll cs t := by
  induction cs generalizing t with
  | nil => simp [toTextChanges, applyAll]
  | cons ch rest ih =>
    simp only [toTextChanges, applyAll, applyChange]
    cases hr : ch.range with
    | none =>
      simp only [replaceRange_full, Option.bind_some]
      rw [← ih ch.text]
      cases toTextChanges rest ch.text with
      | error e => simp
      | ok r => simp
    | some se =>
      obtain ⟨s, e⟩ := se
      simp only [index_eq_spec]
      cases hrr : replaceRange t (offsetOf t s) (offsetOf t e) ch.text with
      | none => simp
      | some t' =>
        simp only [Option.bind_some]
        rw [← ih t']
        cases toTextChanges rest t' with
        | error e => simp
        | ok r => simp

/-- **Synchronisation.** After any sequence of `didChange` notifications (ranged edits,
    batches, full-text replacements; valid or overshooting positions) the text the server
    holds equals the text the client holds under the LSP position rules. -/
theorem sync (ns : List (List ContentChange)) (t : List Char) :
    (match Spl.applyNotifications ns t with
     | .ok t' => some t'
     | .error _ => none) = LspPos.applyNotifications ns t := by
  induction ns generalizing t with
  | nil => simp [Spl.applyNotifications, LspPos.applyNotifications]
  | cons n rest ih =>
    simp only [Spl.applyNotifications, LspPos.applyNotifications]
    rw [← batch_sync n t]
    cases toTextChanges n t with
    | error e => simp
    | ok r => obtain ⟨cs, t'⟩ := r; simp [ih t']

/-- Non-vacuity: an astral character, CRLF, an overshooting column and a full-text change. -/
example : insertionIndex ⟨1, 99⟩ "a😀\r\nbé\r\nc".toList = 10 := by decide
example : insertionIndex ⟨0, 2⟩ "a😀b".toList = 5 := by decide

end Spl.C08
