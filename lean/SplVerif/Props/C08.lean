/-
  C08 — The server's copy of a document always equals the client's, positions included.
  Property theorems only.
-/
import SplVerif.Lemmas.Doc

namespace Spl.C08
open LspPos

/-- **Position semantics.** For every text and every position (valid or overshooting), the
    byte index computed by `get_insertion_index` is the offset the LSP specification assigns:
    lines end at `\n`, `\r\n` or `\r`, columns are UTF-16 units, a column past the end of a
    line is the end of that line, a line past the end is the end of the text. -/
theorem index_eq_spec (t : List Char) (p : Pos) : insertionIndex p t = offsetOf t p := by
  have := insertionIndexGo_eq t 0 p 0 0 (Nat.zero_le _)
  simpa [insertionIndex, offsetOf, remCol] using this

theorem splitAtByte_all (t : List Char) : splitAtByte t (utf8Len t) = some (t, []) := by
  induction t with
  | nil => simp [splitAtByte]
  | cons c cs ih =>
    have hc := utf8Size_pos c
    obtain ⟨n, hn⟩ : ∃ n, c.utf8Size + utf8Len cs = n + 1 := ⟨c.utf8Size + utf8Len cs - 1, by omega⟩
    rw [utf8Len_cons, hn]
    unfold splitAtByte
    have h1 : c.utf8Size ≤ n + 1 := by omega
    have h2 : n + 1 - c.utf8Size = utf8Len cs := by omega
    simp [h1, h2, ih]

/-- A range-less change replaces the whole text on the server, as on the client. -/
theorem replaceRange_full (t ins : List Char) : replaceRange t 0 (utf8Len t) ins = some ins := by
  unfold replaceRange
  have h0 : splitAtByte t 0 = some ([], t) := by cases t <;> simp [splitAtByte]
  simp [h0, splitAtByte_all]

/-- One notification: the server's running text after converting and applying the batch of
    content changes (each relative to its predecessor) is the client's text; the server
    panics exactly when the client-side edit is undefined (reversed range). -/
theorem batch_sync (cs : List ContentChange) (t : List Char) :
    (match toTextChanges cs t with
     | .ok (_, t') => some t'
     | .error _ => none) = applyAll cs t := by
  induction cs generalizing t with
  | nil => simp [toTextChanges, applyAll]
  | cons ch rest ih =>
    simp only [toTextChanges, applyAll, applyChange]
    cases hr : ch.range with
    | none =>
      simp only [replaceRange_full, Option.bind_some]
      rw [← ih ch.text]
      cases toTextChanges rest ch.text with
      | error e => simp
      | ok r => simp
    | some se =>
      obtain ⟨s, e⟩ := se
      simp only [index_eq_spec]
      cases hrr : replaceRange t (offsetOf t s) (offsetOf t e) ch.text with
      | none => simp
      | some t' =>
        simp only [Option.bind_some]
        rw [← ih t']
        cases toTextChanges rest t' with
        | error e => simp
        | ok r => simp

/-- **Synchronisation.** After any sequence of `didChange` notifications (ranged edits,
    batches, full-text replacements; valid or overshooting positions) the text the server
    holds equals the text the client holds under the LSP position rules. -/
theorem sync (ns : List (List ContentChange)) (t : List Char) :
    (match Spl.applyNotifications ns t with
     | .ok t' => some t'
     | .error _ => none) = LspPos.applyNotifications ns t := by
  induction ns generalizing t with
  | nil => simp [Spl.applyNotifications, LspPos.applyNotifications]
  | cons n rest ih =>
    simp only [Spl.applyNotifications, LspPos.applyNotifications]
    rw [← batch_sync n t]
    cases toTextChanges n t with
    | error e => simp
    | ok r => obtain ⟨cs, t'⟩ := r; simp [ih t']

/-! ### reported positions address the same byte -/

theorem utf16Len_pos (c : Char) : 1 ≤ utf16Len c := by unfold utf16Len; split <;> omega

/-- the walk of `as_position` never goes back: the line does not decrease, and on the same line
    the column does not decrease -/
theorem asPositionGo_mono : ∀ (t : List Char) (i idx l c : Nat),
    l < (asPositionGo t i idx l c).line ∨
      ((asPositionGo t i idx l c).line = l ∧ c ≤ (asPositionGo t i idx l c).col)
  | [], i, idx, l, c => by simp [asPositionGo]
  | ch :: rest, i, idx, l, c => by
    simp only [asPositionGo]
    split
    · simp
    · split
      · have := asPositionGo_mono rest (i + ch.utf8Size) idx (l + 1) 0
        omega
      · split
        · have := asPositionGo_mono rest (i + ch.utf8Size) idx l (c + utf16Len ch)
          omega
        · exact asPositionGo_mono rest (i + ch.utf8Size) idx l c

theorem isCrlf_true_iff (ch : Char) (rest : List Char) :
    isCrlf ch rest = true ↔ ch = '\r' ∧ rest.head? = some '\n' := by
  unfold isCrlf
  cases rest with
  | nil => simp
  | cons d r => simp

/-- **Round trip.**  For every text `a ++ b` and the byte index at the boundary between `a` and
    `b` — unless that boundary lies between the `\r` and the `\n` of a CRLF pair —
    `get_insertion_index(as_position(index))` is `index` again: a position the server reports
    (token ranges, diagnostics, edits) addresses, when sent back, the byte it was computed from. -/
theorem roundtrip_go : ∀ (a b : List Char) (i l c : Nat),
    ¬ (a.getLast? = some '\r' ∧ b.head? = some '\n') →
    insertionIndexGo (a ++ b) i (asPositionGo (a ++ b) i (i + utf8Len a) l c) l c = i + utf8Len a
  | [], b, i, l, c, _ => by
    cases b with
    | nil => simp [asPositionGo, insertionIndexGo]
    | cons ch r => simp [asPositionGo, insertionIndexGo]
  | ch :: a', b, i, l, c, hb => by
    have hsz := utf8Size_pos ch
    have hne : (i == i + utf8Len (ch :: a')) = false := by
      simp only [utf8Len_cons, beq_eq_false_iff_ne, ne_eq]; omega
    have hb' : ¬ (a'.getLast? = some '\r' ∧ b.head? = some '\n') := by
      intro hh
      apply hb
      cases a' with
      | nil => simp at hh
      | cons x xs => exact ⟨by rw [List.getLast?_cons_cons]; exact hh.1, hh.2⟩
    have eidx : i + utf8Len (ch :: a') = (i + ch.utf8Size) + utf8Len a' := by
      simp only [utf8Len_cons]; omega
    rw [List.cons_append]
    by_cases hterm : (ch == '\n' || (ch == '\r' && !isCrlf ch (a' ++ b))) = true
    · -- a line terminator: the reported line is beyond the current one
      have hpos : asPositionGo (ch :: (a' ++ b)) i (i + utf8Len (ch :: a')) l c =
          asPositionGo (a' ++ b) (i + ch.utf8Size) (i + ch.utf8Size + utf8Len a') (l + 1) 0 := by
        rw [asPositionGo]; simp only [hne, hterm, Bool.false_eq_true, if_false, if_true]; rw [eidx]
      rw [hpos, eidx]
      have ih := roundtrip_go a' b (i + ch.utf8Size) (l + 1) 0 hb'
      have hm := asPositionGo_mono (a' ++ b) (i + ch.utf8Size) (i + ch.utf8Size + utf8Len a') (l + 1) 0
      generalize asPositionGo (a' ++ b) (i + ch.utf8Size) (i + ch.utf8Size + utf8Len a') (l + 1) 0 = P at ih hm ⊢
      rw [insertionIndexGo]
      have hl : (l == P.line) = false := by
        simp only [beq_eq_false_iff_ne, ne_eq]; omega
      simp only [hl, Bool.false_and, Bool.false_eq_true, if_false, hterm, if_true]
      exact ih
    · have hterm' : (ch == '\n' || (ch == '\r' && !isCrlf ch (a' ++ b))) = false := by simpa using hterm
      by_cases hcr : isCrlf ch (a' ++ b) = true
      · -- the `\r` of a CRLF pair: the `\n` follows inside `a'` (the boundary is not in between)
        have hpos : asPositionGo (ch :: (a' ++ b)) i (i + utf8Len (ch :: a')) l c =
            asPositionGo (a' ++ b) (i + ch.utf8Size) (i + ch.utf8Size + utf8Len a') l c := by
          rw [asPositionGo]
          simp only [hne, hterm', Bool.false_eq_true, if_false]
          simp only [hcr, Bool.not_true, Bool.false_eq_true, if_false]; rw [eidx]
        rw [hpos, eidx]
        have ih := roundtrip_go a' b (i + ch.utf8Size) l c hb'
        obtain ⟨hch, hhead⟩ := (isCrlf_true_iff ch (a' ++ b)).mp hcr
        -- a' is not empty, and starts with the newline: the reported line is beyond the current one
        have hline : l < (asPositionGo (a' ++ b) (i + ch.utf8Size) (i + ch.utf8Size + utf8Len a') l c).line := by
          cases a' with
          | nil =>
            exfalso
            apply hb
            exact ⟨by simp [hch], by simpa using hhead⟩
          | cons d a'' =>
            have hd : d = '\n' := by simpa using hhead
            subst hd
            have hne2 : (i + ch.utf8Size == i + ch.utf8Size + utf8Len ('\n' :: a'')) = false := by
              have := utf8Size_pos '\n'
              simp only [utf8Len_cons, beq_eq_false_iff_ne, ne_eq]; omega
            rw [List.cons_append, asPositionGo]
            simp only [hne2, Bool.false_eq_true, if_false, beq_self_eq_true, Bool.true_or, if_true]
            have := asPositionGo_mono (a'' ++ b) (i + ch.utf8Size + '\n'.utf8Size)
              (i + ch.utf8Size + utf8Len ('\n' :: a'')) (l + 1) 0
            omega
        generalize asPositionGo (a' ++ b) (i + ch.utf8Size) (i + ch.utf8Size + utf8Len a') l c = P at ih hline ⊢
        rw [insertionIndexGo]
        have hl : (l == P.line) = false := by
          simp only [beq_eq_false_iff_ne, ne_eq]; omega
        simp only [hl, Bool.false_and, Bool.false_eq_true, if_false, hterm']
        simp only [hcr, Bool.not_true, Bool.false_eq_true, if_false]
        exact ih
      · -- an ordinary character: the reported column is beyond the current one
        have hcr' : isCrlf ch (a' ++ b) = false := by simpa using hcr
        have hpos : asPositionGo (ch :: (a' ++ b)) i (i + utf8Len (ch :: a')) l c =
            asPositionGo (a' ++ b) (i + ch.utf8Size) (i + ch.utf8Size + utf8Len a') l (c + utf16Len ch) := by
          rw [asPositionGo]
          simp only [hne, hterm', Bool.false_eq_true, if_false]
          simp only [hcr', Bool.not_false, if_true]; rw [eidx]
        rw [hpos, eidx]
        have ih := roundtrip_go a' b (i + ch.utf8Size) l (c + utf16Len ch) hb'
        have hm := asPositionGo_mono (a' ++ b) (i + ch.utf8Size) (i + ch.utf8Size + utf8Len a') l (c + utf16Len ch)
        have hu := utf16Len_pos ch
        have hnl : (ch == '\n') = false := by
          cases h1 : ch == '\n' <;> simp [h1] at hterm' ⊢
        have hnr : (ch == '\r') = false := by
          cases h1 : ch == '\r'
          · rfl
          · simp [h1, hcr'] at hterm'
        generalize asPositionGo (a' ++ b) (i + ch.utf8Size) (i + ch.utf8Size + utf8Len a') l (c + utf16Len ch) = P at ih hm ⊢
        rw [insertionIndexGo]
        have hstop : (l == P.line && (decide (c ≥ P.col) || ch == '\n' || ch == '\r')) = false := by
          simp only [hnl, hnr, Bool.or_false, Bool.and_eq_false_iff, beq_eq_false_iff_ne, ne_eq,
            decide_eq_false_iff_not, ge_iff_le, Nat.not_le]
          rcases hm with h1 | ⟨h1, h2⟩
          · left; omega
          · right; omega
        simp only [hstop, Bool.false_eq_true, if_false, hterm']
        simp only [hcr', Bool.not_false, if_true]
        exact ih

/-- **C08, second sentence.**  For every text and every byte index on a character boundary that
    is not between the `\r` and `\n` of a CRLF pair (every token start is such an index, and every
    token end except that of an unterminated character literal `'\r` directly before `\n`), the
    position the server reports for the index addresses, when sent back, that same index. -/
theorem position_roundtrip (a b : List Char)
    (h : ¬ (a.getLast? = some '\r' ∧ b.head? = some '\n')) :
    insertionIndex (asPosition (utf8Len a) (a ++ b)) (a ++ b) = utf8Len a := by
  have := roundtrip_go a b 0 0 0 h
  simpa [insertionIndex, asPosition] using this

/-- Non-vacuity: an astral character, CRLF, an overshooting column and a full-text change. -/
example : insertionIndex ⟨1, 99⟩ "a😀\r\nbé\r\nc".toList = 10 := by decide
example : insertionIndex ⟨0, 2⟩ "a😀b".toList = 5 := by decide

end Spl.C08
