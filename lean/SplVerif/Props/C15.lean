/-
  C15 — Semantic tokens are well-formed and agree with lexical class and binding kind.
  Property theorems only.
-/
import SplVerif.Model.Features

namespace Spl.C15
open Spl.Feat

/-- A produced semantic token is positioned by non-negative deltas from the previous one: the
    handler fails (instead of wrapping around) if a token would precede its predecessor. -/
theorem createSemTok_delta (t : Token) (prev : Pos) (text : List Char) (ty m : Nat) (st : SemTok)
    (h : createSemTok t prev text ty m = .ok st) :
    prev.line + st.deltaLine = (asPosition t.range.lo text).line ∧
    (st.deltaLine = 0 → prev.col + st.deltaStart = (asPosition t.range.lo text).col) ∧
    (st.deltaLine ≠ 0 → st.deltaStart = (asPosition t.range.lo text).col) ∧
    st.tokenType = ty ∧ st.modifiers = m := by
  unfold createSemTok at h
  generalize (asPosition t.range.lo text) = P at *
  obtain ⟨L, C⟩ := P
  cases hs : sliceText text t.range with
  | none => simp [hs] at h
  | some s =>
    simp only [hs] at h
    by_cases h1 : L < prev.line
    · simp [h1] at h
    · by_cases h2 : (L == prev.line && decide (C < prev.col)) = true
      · simp [h1, h2] at h
      · simp only [h1, h2, if_false, Bool.false_eq_true] at h
        cases h
        by_cases he : L = prev.line
        · subst he
          have hc : ¬ C < prev.col := by intro hlt; apply h2; simp [hlt]
          refine ⟨by simp, ?_, ?_, rfl, rfl⟩
          · intro _; simp; omega
          · intro hz; simp at hz
        · have hb : (L == prev.line) = false := by simp [he]
          refine ⟨by simp; omega, ?_, ?_, rfl, rfl⟩
          · intro hz; simp at hz; omega
          · intro _; simp [hb]

/-- what an LSP client does with the relative encoding: absolute start positions, in order -/
def decode (prev : Pos) : List SemTok → List Pos
  | [] => []
  | st :: r =>
    let p : Pos := if st.deltaLine = 0 then ⟨prev.line, prev.col + st.deltaStart⟩
                   else ⟨prev.line + st.deltaLine, st.deltaStart⟩
    p :: decode p r

/-- the tokens a classifier selects (index-aware, as in `collectToks`) -/
def classified (classify : Nat → Token → Option (Nat × Nat)) : List Token → Nat → List Token
  | [], _ => []
  | t :: rest, i =>
    match classify i t with
    | none => classified classify rest (i + 1)
    | some _ => t :: classified classify rest (i + 1)

theorem getLastD_cons {α} (a : α) (l : List α) (x y : α) :
    (a :: l).getLast?.getD x = (a :: l).getLast?.getD y := by
  rw [List.getLast?_eq_some_getLast (List.cons_ne_nil a l)]; rfl

def lastPos (prev : Pos) (ps : List Pos) : Pos := ps.getLast?.getD prev

theorem decode_one (t : Token) (prev : Pos) (text : List Char) (ty m : Nat) (st : SemTok)
    (h : createSemTok t prev text ty m = .ok st) :
    (if st.deltaLine = 0 then (⟨prev.line, prev.col + st.deltaStart⟩ : Pos)
     else ⟨prev.line + st.deltaLine, st.deltaStart⟩) = asPosition t.range.lo text := by
  obtain ⟨h1, h2, h3, _, _⟩ := createSemTok_delta t prev text ty m st h
  generalize asPosition t.range.lo text = P at *
  obtain ⟨L, C⟩ := P
  by_cases hz : st.deltaLine = 0
  · simp only [hz, if_true]
    have := h2 hz
    simp only [hz, Nat.add_zero] at h1
    simp_all
  · simp only [hz, if_false]
    have := h3 hz
    simp_all

theorem collectToks_decode (text : List Char) (classify : Nat → Token → Option (Nat × Nat)) :
    ∀ (toks : List Token) (i : Nat) (prev : Pos) (sts : List SemTok) (p : Pos),
      collectToks text classify toks i prev = .ok (sts, p) →
      decode prev sts = (classified classify toks i).map (fun t => asPosition t.range.lo text) ∧
      p = lastPos prev (decode prev sts)
  | [], i, prev, sts, p, h => by
    simp only [collectToks] at h
    cases h
    simp [decode, classified, lastPos]
  | t :: rest, i, prev, sts, p, h => by
    simp only [collectToks] at h
    cases hc : classify i t with
    | none =>
      simp only [hc] at h
      have ih := collectToks_decode text classify rest (i + 1) prev sts p h
      simp only [classified, hc]
      exact ih
    | some tm =>
      obtain ⟨ty, m⟩ := tm
      simp only [hc] at h
      cases hs : createSemTok t prev text ty m with
      | error e => simp [hs] at h
      | ok st =>
        simp only [hs] at h
        cases hr : collectToks text classify rest (i + 1) (asPosition t.range.lo text) with
        | error e => simp [hr] at h
        | ok r =>
          obtain ⟨sts', p'⟩ := r
          simp only [hr] at h
          cases h
          have ih := collectToks_decode text classify rest (i + 1) _ sts' p hr
          have h1 := decode_one t prev text ty m st hs
          simp only [decode, classified, hc, List.map_cons, h1]
          refine ⟨by rw [ih.1], ?_⟩
          rw [ih.2]
          simp only [lastPos]
          cases hd : decode (asPosition t.range.lo text) sts' with
          | nil => simp
          | cons a l => simp only [List.getLast?_cons_cons]; exact getLastD_cons ..

theorem decode_append (prev : Pos) (a b : List SemTok) :
    decode prev (a ++ b) = decode prev a ++ decode (lastPos prev (decode prev a)) b := by
  induction a generalizing prev with
  | nil => simp [decode, lastPos]
  | cons st r ih =>
    simp only [List.cons_append, decode]
    rw [ih]
    simp only [lastPos]
    congr 2
    cases hd : decode _ r with
    | nil => simp
    | cons x l => rw [getLastD_cons x l _ prev, List.getLast?_cons_cons]


/-- the classified tokens of all declarations from `ds` on, in document order -/
def classifiedAll (d : AnalyzedSource) : List (Ref GlobalDecl) → List Token
  | [] => []
  | gd :: rest =>
    match declTokens d gd with
    | none => []
    | some sl => classified (semClassify d gd.val sl) sl 0 ++ classifiedAll d rest

theorem lastPos_append (prev : Pos) (a b : List Pos) : lastPos prev (a ++ b) = lastPos (lastPos prev a) b := by
  cases b with
  | nil => simp [lastPos]
  | cons x l =>
    simp only [lastPos, List.getLast?_append]
    rw [List.getLast?_eq_some_getLast (List.cons_ne_nil x l)]
    rfl

theorem from_decode (d : AnalyzedSource) : ∀ (ds : List (Ref GlobalDecl)) (prev : Pos) (sts : List SemTok) (p : Pos),
    semanticTokensFrom d ds prev = .ok (sts, p) →
    decode prev sts = (classifiedAll d ds).map (fun t => asPosition t.range.lo d.text) ∧
    p = lastPos prev (decode prev sts)
  | [], prev, sts, p, h => by
    simp only [semanticTokensFrom, Except.ok.injEq, Prod.mk.injEq] at h
    obtain ⟨rfl, rfl⟩ := h
    simp [decode, classifiedAll, lastPos]
  | gd :: rest, prev, sts, p, h => by
    simp only [semanticTokensFrom] at h
    cases hd : declTokens d gd with
    | none => simp [hd] at h
    | some sl =>
      simp only [hd] at h
      cases hc : collectToks d.text (semClassify d gd.val sl) sl 0 prev with
      | error e => simp [hc] at h
      | ok r =>
        obtain ⟨s1, p1⟩ := r
        simp only [hc] at h
        cases hr : semanticTokensFrom d rest p1 with
        | error e => simp [hr] at h
        | ok r2 =>
          obtain ⟨more, p2⟩ := r2
          simp only [hr, Except.ok.injEq, Prod.mk.injEq] at h
          obtain ⟨rfl, rfl⟩ := h
          obtain ⟨e1, e2⟩ := collectToks_decode d.text _ sl 0 prev s1 p1 hc
          obtain ⟨ih1, ih2⟩ := from_decode d rest p1 more p2 hr
          refine ⟨?_, ?_⟩
          · rw [decode_append, ← e2, ih1, e1]
            simp [classifiedAll, hd]
          · rw [decode_append, ← e2, ih2, lastPos_append, ← e2]

/-- the classifier of the tokens behind the last declaration: lexical classes only -/
def restClassify : Nat → Token → Option (Nat × Nat) := fun _ t => (mapTokenClass t).map (fun c => (c, 0))

/-- all classified tokens of a document: those of its declarations, then those behind the last one -/
def classifiedDoc (d : AnalyzedSource) : List Token :=
  classifiedAll d d.ast.decls ++ classified restClassify (d.tokens.drop (restStart d)) 0

/-- **Decoding the relative encoding gives back the tokens' positions.**  Whenever the handler
    answers, a client that decodes the `(deltaLine, deltaStart)` stream from `(0, 0)` — the LSP
    rule — obtains exactly the start positions (`as_position` of the token start) of the
    classified tokens, declaration by declaration in document order and then the comments behind
    the last declaration: nothing is shifted, dropped or duplicated, for every document. -/
theorem semantic_tokens_decode (d : AnalyzedSource) (sts : List SemTok) (h : semanticTokens d = .ok sts) :
    decode ⟨0, 0⟩ sts = (classifiedDoc d).map (fun t => asPosition t.range.lo d.text) := by
  simp only [semanticTokens] at h
  cases hf : semanticTokensFrom d d.ast.decls ⟨0, 0⟩ with
  | error e => simp [hf] at h
  | ok r =>
    obtain ⟨s1, p1⟩ := r
    simp only [hf] at h
    cases hc : collectToks d.text restClassify (d.tokens.drop (restStart d)) 0 p1 with
    | error e =>
      have : collectToks d.text (fun _ t => (mapTokenClass t).map (fun c => (c, 0))) (d.tokens.drop (restStart d)) 0 p1 = .error e := hc
      simp [this] at h
    | ok r2 =>
      obtain ⟨s2, p2⟩ := r2
      have hc' : collectToks d.text (fun _ t => (mapTokenClass t).map (fun c => (c, 0))) (d.tokens.drop (restStart d)) 0 p1 = .ok (s2, p2) := hc
      simp only [hc', Except.ok.injEq] at h
      subst h
      obtain ⟨e1, e2⟩ := from_decode d d.ast.decls ⟨0, 0⟩ s1 p1 hf
      obtain ⟨e3, _⟩ := collectToks_decode d.text restClassify _ 0 p1 s2 p2 hc
      rw [decode_append, ← e2, e1, e3]
      simp [classifiedDoc]

/-- one produced semantic token per classified token -/
theorem semantic_tokens_count (d : AnalyzedSource) (sts : List SemTok) (h : semanticTokens d = .ok sts) :
    sts.length = (classifiedDoc d).length := by
  have := congrArg List.length (semantic_tokens_decode d sts h)
  have hl : ∀ (p : Pos) (l : List SemTok), (decode p l).length = l.length := by
    intro p l
    induction l generalizing p with
    | nil => rfl
    | cons a l ih => simp [decode, ih]
  simpa [hl] using this

/-- Non-vacuity: two identifiers on two lines are encoded as `(0,0)` and `(+1 line, column 0)`, and
    decoding gives the two positions back. -/
example :
    (match collectToks "ab\ncd".toList (fun _ _ => some (tyVariable, 0))
        [⟨.Ident "ab".toList, ⟨0, 2⟩, []⟩, ⟨.Ident "cd".toList, ⟨3, 5⟩, []⟩] 0 ⟨0, 0⟩ with
     | .ok (sts, p) => decide (sts = [⟨0, 0, 2, tyVariable, 0⟩, ⟨1, 0, 2, tyVariable, 0⟩] ∧ p = ⟨1, 0⟩ ∧
         decode ⟨0, 0⟩ sts = [⟨0, 0⟩, ⟨1, 0⟩])
     | .error _ => false) = true := by
  decide +kernel

/-- Lexical classes: comments, numbers (decimal, hexadecimal, character literals), keywords;
    symbols and other tokens are not classified. -/
theorem lexical_classes :
    mapTokenClass ⟨.Comment [], ⟨0, 1⟩, []⟩ = some tyComment ∧
    mapTokenClass ⟨.Int (.Int 1), ⟨0, 1⟩, []⟩ = some tyNumber ∧
    mapTokenClass ⟨.Hex (.Int 1), ⟨0, 1⟩, []⟩ = some tyNumber ∧
    mapTokenClass ⟨.Char 'a', ⟨0, 1⟩, []⟩ = some tyNumber ∧
    mapTokenClass ⟨.While, ⟨0, 1⟩, []⟩ = some tyKeyword ∧
    mapTokenClass ⟨.Plus, ⟨0, 1⟩, []⟩ = none := by decide

/-- The legend indices used by the handler (order of `TOKEN_TYPES`). -/
theorem legend_indices :
    [tyComment, tyKeyword, tyNumber, tyType, tyFunction, tyParameter, tyVariable] = [0, 1, 2, 3, 4, 5, 6] := rfl

end Spl.C15
