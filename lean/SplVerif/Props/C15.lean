/-
  C15 — Semantic tokens are well-formed and agree with lexical class and binding kind.
  Property theorems only.
-/
import SplVerif.Model.Features

namespace Spl.C15
open Spl.Feat

/-- A produced semantic token is positioned by non-negative deltas from the previous one: the
    handler fails (instead of wrapping around) if a token would precede its predecessor. -/
theorem createSemTok_delta (t : Token) (prev : Pos) (text : List Char) (ty m : Nat) (st : SemTok)
    (h : createSemTok t prev text ty m = .ok st) :
    prev.line + st.deltaLine = (asPosition t.range.lo text).line ∧
    (st.deltaLine = 0 → prev.col + st.deltaStart = (asPosition t.range.lo text).col) ∧
    (st.deltaLine ≠ 0 → st.deltaStart = (asPosition t.range.lo text).col) ∧
    st.tokenType = ty ∧ st.modifiers = m := by
  unfold createSemTok at h
  generalize (asPosition t.range.lo text) = P at *
  obtain ⟨L, C⟩ := P
  cases hs : sliceText text t.range with
  | none => simp [hs] at h
  | some s =>
    simp only [hs] at h
    by_cases h1 : L < prev.line
    · simp [h1] at h
    · by_cases h2 : (L == prev.line && decide (C < prev.col)) = true
      · simp [h1, h2] at h
      · simp only [h1, h2, if_false, Bool.false_eq_true] at h
        cases h
        by_cases he : L = prev.line
        · subst he
          have hc : ¬ C < prev.col := by intro hlt; apply h2; simp [hlt]
          refine ⟨by simp, ?_, ?_, rfl, rfl⟩
          · intro _; simp; omega
          · intro hz; simp at hz
        · have hb : (L == prev.line) = false := by simp [he]
          refine ⟨by simp; omega, ?_, ?_, rfl, rfl⟩
          · intro hz; simp at hz; omega
          · intro _; simp [hb]

/-- Lexical classes: comments, numbers (decimal, hexadecimal, character literals), keywords;
    symbols and other tokens are not classified. -/
theorem lexical_classes :
    mapTokenClass ⟨.Comment [], ⟨0, 1⟩, []⟩ = some tyComment ∧
    mapTokenClass ⟨.Int (.Int 1), ⟨0, 1⟩, []⟩ = some tyNumber ∧
    mapTokenClass ⟨.Hex (.Int 1), ⟨0, 1⟩, []⟩ = some tyNumber ∧
    mapTokenClass ⟨.Char 'a', ⟨0, 1⟩, []⟩ = some tyNumber ∧
    mapTokenClass ⟨.While, ⟨0, 1⟩, []⟩ = some tyKeyword ∧
    mapTokenClass ⟨.Plus, ⟨0, 1⟩, []⟩ = none := by decide

/-- The legend indices used by the handler (order of `TOKEN_TYPES`). -/
theorem legend_indices :
    [tyComment, tyKeyword, tyNumber, tyType, tyFunction, tyParameter, tyVariable] = [0, 1, 2, 3, 4, 5, 6] := rfl

end Spl.C15
