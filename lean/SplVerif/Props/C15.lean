/-
  C15 — Semantic tokens are well-formed and agree with lexical class and binding kind.
  Property theorems only.
-/
import SplVerif.Model.Features
import SplVerif.Lemmas.Extents
import SplVerif.Lemmas.SemOrder

namespace Spl.C15
open Spl.Feat

/-- A produced semantic token is positioned by non-negative deltas from the previous one: the
    handler fails (instead of wrapping around) if a token would precede its predecessor. -/
theorem createSemTok_delta (t : Token) (prev : Pos) (text : List Char) (ty m : Nat) (st : SemTok)
    (h : createSemTok t prev text ty m = .ok st) :
    prev.line + st.deltaLine = (asPosition t.range.lo text).line ∧
    (st.deltaLine = 0 → prev.col + st.deltaStart = (asPosition t.range.lo text).col) ∧
    (st.deltaLine ≠ 0 → st.deltaStart = (asPosition t.range.lo text).col) ∧
    st.tokenType = ty ∧ st.modifiers = m := by
  unfold createSemTok at h
  generalize (asPosition t.range.lo text) = P at *
  obtain ⟨L, C⟩ := P
  cases hs : sliceText text t.range with
  | none => simp [hs] at h
  | some s =>
    simp only [hs] at h
    by_cases h1 : L < prev.line
    · simp [h1] at h
    · by_cases h2 : (L == prev.line && decide (C < prev.col)) = true
      · simp [h1, h2] at h
      · simp only [h1, h2, if_false, Bool.false_eq_true] at h
        cases h
        by_cases he : L = prev.line
        · subst he
          have hc : ¬ C < prev.col := by intro hlt; apply h2; simp [hlt]
          refine ⟨by simp, ?_, ?_, rfl, rfl⟩
          · intro _; simp; omega
          · intro hz; simp at hz
        · have hb : (L == prev.line) = false := by simp [he]
          refine ⟨by simp; omega, ?_, ?_, rfl, rfl⟩
          · intro hz; simp at hz; omega
          · intro _; simp [hb]

/-- what an LSP client does with the relative encoding: absolute start positions, in order -/
def decode (prev : Pos) : List SemTok → List Pos
  | [] => []
  | st :: r =>
    let p : Pos := if st.deltaLine = 0 then ⟨prev.line, prev.col + st.deltaStart⟩
                   else ⟨prev.line + st.deltaLine, st.deltaStart⟩
    p :: decode p r

/-- the tokens a classifier selects (index-aware, as in `collectToks`) -/
def classified (classify : Nat → Token → Option (Nat × Nat)) : List Token → Nat → List Token
  | [], _ => []
  | t :: rest, i =>
    match classify i t with
    | none => classified classify rest (i + 1)
    | some _ => t :: classified classify rest (i + 1)

theorem getLastD_cons {α} (a : α) (l : List α) (x y : α) :
    (a :: l).getLast?.getD x = (a :: l).getLast?.getD y := by
  rw [List.getLast?_eq_some_getLast (List.cons_ne_nil a l)]; rfl

def lastPos (prev : Pos) (ps : List Pos) : Pos := ps.getLast?.getD prev

theorem decode_one (t : Token) (prev : Pos) (text : List Char) (ty m : Nat) (st : SemTok)
    (h : createSemTok t prev text ty m = .ok st) :
    (if st.deltaLine = 0 then (⟨prev.line, prev.col + st.deltaStart⟩ : Pos)
     else ⟨prev.line + st.deltaLine, st.deltaStart⟩) = asPosition t.range.lo text := by
  obtain ⟨h1, h2, h3, _, _⟩ := createSemTok_delta t prev text ty m st h
  generalize asPosition t.range.lo text = P at *
  obtain ⟨L, C⟩ := P
  by_cases hz : st.deltaLine = 0
  · simp only [hz, if_true]
    have := h2 hz
    simp only [hz, Nat.add_zero] at h1
    simp_all
  · simp only [hz, if_false]
    have := h3 hz
    simp_all

theorem collectToks_decode (text : List Char) (classify : Nat → Token → Option (Nat × Nat)) :
    ∀ (toks : List Token) (i : Nat) (prev : Pos) (sts : List SemTok) (p : Pos),
      collectToks text classify toks i prev = .ok (sts, p) →
      decode prev sts = (classified classify toks i).map (fun t => asPosition t.range.lo text) ∧
      p = lastPos prev (decode prev sts)
  | [], i, prev, sts, p, h => by
    simp only [collectToks] at h
    cases h
    simp [decode, classified, lastPos]
  | t :: rest, i, prev, sts, p, h => by
    simp only [collectToks] at h
    cases hc : classify i t with
    | none =>
      simp only [hc] at h
      have ih := collectToks_decode text classify rest (i + 1) prev sts p h
      simp only [classified, hc]
      exact ih
    | some tm =>
      obtain ⟨ty, m⟩ := tm
      simp only [hc] at h
      cases hs : createSemTok t prev text ty m with
      | error e => simp [hs] at h
      | ok st =>
        simp only [hs] at h
        cases hr : collectToks text classify rest (i + 1) (asPosition t.range.lo text) with
        | error e => simp [hr] at h
        | ok r =>
          obtain ⟨sts', p'⟩ := r
          simp only [hr] at h
          cases h
          have ih := collectToks_decode text classify rest (i + 1) _ sts' p hr
          have h1 := decode_one t prev text ty m st hs
          simp only [decode, classified, hc, List.map_cons, h1]
          refine ⟨by rw [ih.1], ?_⟩
          rw [ih.2]
          simp only [lastPos]
          cases hd : decode (asPosition t.range.lo text) sts' with
          | nil => simp
          | cons a l => simp only [List.getLast?_cons_cons]; exact getLastD_cons ..

theorem decode_append (prev : Pos) (a b : List SemTok) :
    decode prev (a ++ b) = decode prev a ++ decode (lastPos prev (decode prev a)) b := by
  induction a generalizing prev with
  | nil => simp [decode, lastPos]
  | cons st r ih =>
    simp only [List.cons_append, decode]
    rw [ih]
    simp only [lastPos]
    congr 2
    cases hd : decode _ r with
    | nil => simp
    | cons x l => rw [getLastD_cons x l _ prev, List.getLast?_cons_cons]


/-- the classified tokens of all declarations from `ds` on, in document order -/
def classifiedAll (d : AnalyzedSource) : List (Ref GlobalDecl) → List Token
  | [] => []
  | gd :: rest =>
    match declTokens d gd with
    | none => []
    | some sl => classified (semClassify d gd.val sl) sl 0 ++ classifiedAll d rest

theorem lastPos_append (prev : Pos) (a b : List Pos) : lastPos prev (a ++ b) = lastPos (lastPos prev a) b := by
  cases b with
  | nil => simp [lastPos]
  | cons x l =>
    simp only [lastPos, List.getLast?_append]
    rw [List.getLast?_eq_some_getLast (List.cons_ne_nil x l)]
    rfl

theorem from_decode (d : AnalyzedSource) : ∀ (ds : List (Ref GlobalDecl)) (prev : Pos) (sts : List SemTok) (p : Pos),
    semanticTokensFrom d ds prev = .ok (sts, p) →
    decode prev sts = (classifiedAll d ds).map (fun t => asPosition t.range.lo d.text) ∧
    p = lastPos prev (decode prev sts)
  | [], prev, sts, p, h => by
    simp only [semanticTokensFrom, Except.ok.injEq, Prod.mk.injEq] at h
    obtain ⟨rfl, rfl⟩ := h
    simp [decode, classifiedAll, lastPos]
  | gd :: rest, prev, sts, p, h => by
    simp only [semanticTokensFrom] at h
    cases hd : declTokens d gd with
    | none => simp [hd] at h
    | some sl =>
      simp only [hd] at h
      cases hc : collectToks d.text (semClassify d gd.val sl) sl 0 prev with
      | error e => simp [hc] at h
      | ok r =>
        obtain ⟨s1, p1⟩ := r
        simp only [hc] at h
        cases hr : semanticTokensFrom d rest p1 with
        | error e => simp [hr] at h
        | ok r2 =>
          obtain ⟨more, p2⟩ := r2
          simp only [hr, Except.ok.injEq, Prod.mk.injEq] at h
          obtain ⟨rfl, rfl⟩ := h
          obtain ⟨e1, e2⟩ := collectToks_decode d.text _ sl 0 prev s1 p1 hc
          obtain ⟨ih1, ih2⟩ := from_decode d rest p1 more p2 hr
          refine ⟨?_, ?_⟩
          · rw [decode_append, ← e2, ih1, e1]
            simp [classifiedAll, hd]
          · rw [decode_append, ← e2, ih2, lastPos_append, ← e2]

/-- the classifier of the tokens behind the last declaration: lexical classes only -/
def restClassify : Nat → Token → Option (Nat × Nat) := fun _ t => (mapTokenClass t).map (fun c => (c, 0))

/-- all classified tokens of a document: those of its declarations, then those behind the last one -/
def classifiedDoc (d : AnalyzedSource) : List Token :=
  classifiedAll d d.ast.decls ++ classified restClassify (d.tokens.drop (restStart d)) 0

/-- **Decoding the relative encoding gives back the tokens' positions.**  Whenever the handler
    answers, a client that decodes the `(deltaLine, deltaStart)` stream from `(0, 0)` — the LSP
    rule — obtains exactly the start positions (`as_position` of the token start) of the
    classified tokens, declaration by declaration in document order and then the comments behind
    the last declaration: nothing is shifted, dropped or duplicated, for every document. -/
theorem semantic_tokens_decode (d : AnalyzedSource) (sts : List SemTok) (h : semanticTokens d = .ok sts) :
    decode ⟨0, 0⟩ sts = (classifiedDoc d).map (fun t => asPosition t.range.lo d.text) := by
  simp only [semanticTokens] at h
  cases hf : semanticTokensFrom d d.ast.decls ⟨0, 0⟩ with
  | error e => simp [hf] at h
  | ok r =>
    obtain ⟨s1, p1⟩ := r
    simp only [hf] at h
    cases hc : collectToks d.text restClassify (d.tokens.drop (restStart d)) 0 p1 with
    | error e =>
      have : collectToks d.text (fun _ t => (mapTokenClass t).map (fun c => (c, 0))) (d.tokens.drop (restStart d)) 0 p1 = .error e := hc
      simp [this] at h
    | ok r2 =>
      obtain ⟨s2, p2⟩ := r2
      have hc' : collectToks d.text (fun _ t => (mapTokenClass t).map (fun c => (c, 0))) (d.tokens.drop (restStart d)) 0 p1 = .ok (s2, p2) := hc
      simp only [hc', Except.ok.injEq] at h
      subst h
      obtain ⟨e1, e2⟩ := from_decode d d.ast.decls ⟨0, 0⟩ s1 p1 hf
      obtain ⟨e3, _⟩ := collectToks_decode d.text restClassify _ 0 p1 s2 p2 hc
      rw [decode_append, ← e2, e1, e3]
      simp [classifiedDoc]

/-- one produced semantic token per classified token -/
theorem semantic_tokens_count (d : AnalyzedSource) (sts : List SemTok) (h : semanticTokens d = .ok sts) :
    sts.length = (classifiedDoc d).length := by
  have := congrArg List.length (semantic_tokens_decode d sts h)
  have hl : ∀ (p : Pos) (l : List SemTok), (decode p l).length = l.length := by
    intro p l
    induction l generalizing p with
    | nil => rfl
    | cons a l ih => simp [decode, ih]
  simpa [hl] using this

/-! ### valid programs: the classified tokens come in document order -/

theorem classified_sublist (cl : Nat → Token → Option (Nat × Nat)) : ∀ (toks : List Token) (i : Nat),
    (classified cl toks i).Sublist toks
  | [], _ => by simp [classified]
  | t :: rest, i => by
    simp only [classified]
    cases cl i t with
    | none => exact (classified_sublist cl rest (i + 1)).cons t
    | some _ => exact (classified_sublist cl rest (i + 1)).cons_cons t

/-- where the declarations end (absolute token index); `p` without declarations -/
def endOf (p : Nat) (ds : List (Ref GlobalDecl)) : Nat :=
  match ds.getLast? with
  | some gd => gd.offset + gd.val.info.range.hi
  | none => p

/-- the token slice of a declaration that lies at `p … k` -/
theorem declTokens_tiled (d : AnalyzedSource) (p k : Nat) (gd : Ref GlobalDecl) (hoff : gd.offset = p)
    (hr : gd.val.info.range = ⟨0, k + 1 - p⟩) (hp : p ≤ k + 1) (hk : k < d.tokens.length) :
    declTokens d gd = some ((d.tokens.take (k + 1)).drop p) := by
  have h1 : 0 + p ≤ d.tokens.toArray.size := by simp; omega
  have h2 : (0 : Nat) ≤ k + 1 - p ∧ 0 + p + (k + 1 - p) ≤ d.tokens.toArray.size := by simp; omega
  simp only [declTokens, allTokens, Slice.full, Slice.from, hoff, h1, if_true, Slice.sub, hr, h2, and_self,
    Option.map_some, Slice.toList, Array.toList_extract, List.extract_eq_take_drop, Option.some.injEq]
  rw [List.drop_take]
  congr 2 <;> omega

open Spl.ParseConform in
/-- on declarations that tile the token sequence, the classified tokens of the declarations followed
    by any selection of the tokens behind the last declaration are a sub-sequence of the tokens -/
theorem tiling_sublist (d : AnalyzedSource) (X : List Token → List Token) (hX : ∀ l, (X l).Sublist l) :
    ∀ (p : Nat) (ds : List (Ref GlobalDecl)) (es : List (Nat × Nat)), Tiling d.tokens.toArray p ds es →
    (classifiedAll d ds ++ X (d.tokens.drop (endOf p ds))).Sublist (d.tokens.drop p) := by
  intro p ds es h
  induction h with
  | nil p => simpa [classifiedAll, endOf] using hX _
  | type p i k td rest es hN _ hik hk hr _ ih =>
    obtain ⟨tk, htk, _⟩ := hk
    have hksz : k < d.tokens.length := by
      have := (Array.getElem?_eq_some_iff.mp htk).1
      simpa using this
    have hpk : p ≤ k + 1 := by have := hN.le; omega
    have hd := declTokens_tiled d p k ⟨.type td, p⟩ rfl (by simpa [GlobalDecl.info] using hr) hpk hksz
    have hend : endOf p (⟨.type td, p⟩ :: rest) = endOf (k + 1) rest := by
      cases rest with
      | nil => simp [endOf, GlobalDecl.info, hr]; omega
      | cons r rs =>
        simp only [endOf, List.getLast?_cons_cons]
        rw [List.getLast?_eq_some_getLast (List.cons_ne_nil r rs)]
    rw [hend]
    simp only [classifiedAll, hd, List.append_assoc]
    have hsplit : d.tokens.drop p = (d.tokens.take (k + 1)).drop p ++ d.tokens.drop (k + 1) := by
      conv => lhs; rw [← List.take_append_drop (k + 1) d.tokens]
      rw [List.drop_append_of_le_length (by simp; omega)]
    rw [hsplit]
    exact List.Sublist.append (classified_sublist _ _ _) ih
  | proc p i k pd rest es hN _ hik hk hr _ ih =>
    obtain ⟨tk, htk, _⟩ := hk
    have hksz : k < d.tokens.length := by
      have := (Array.getElem?_eq_some_iff.mp htk).1
      simpa using this
    have hpk : p ≤ k + 1 := by have := hN.le; omega
    have hd := declTokens_tiled d p k ⟨.proc pd, p⟩ rfl (by simpa [GlobalDecl.info] using hr) hpk hksz
    have hend : endOf p (⟨.proc pd, p⟩ :: rest) = endOf (k + 1) rest := by
      cases rest with
      | nil => simp [endOf, GlobalDecl.info, hr]; omega
      | cons r rs =>
        simp only [endOf, List.getLast?_cons_cons]
        rw [List.getLast?_eq_some_getLast (List.cons_ne_nil r rs)]
    rw [hend]
    simp only [classifiedAll, hd, List.append_assoc]
    have hsplit : d.tokens.drop p = (d.tokens.take (k + 1)).drop p ++ d.tokens.drop (k + 1) := by
      conv => lhs; rw [← List.take_append_drop (k + 1) d.tokens]
      rw [List.drop_append_of_le_length (by simp; omega)]
    rw [hsplit]
    exact List.Sublist.append (classified_sublist _ _ _) ih

/-- **In a valid program every classified token is a lexical token of the text, and they come in
    document order**: the list the handler encodes is a sub-sequence of the document's tokens —
    nothing is visited twice or out of order, whatever the layout and wherever comments stand. -/
theorem classified_in_order (d : AnalyzedSource) (hp : Grammar.parse d.tokens = some d.ast) :
    (classifiedDoc d).Sublist d.tokens := by
  obtain ⟨es, ht⟩ := ParseConform.parse_tiling d.tokens d.ast hp
  have := tiling_sublist d (fun l => classified restClassify l 0) (fun l => classified_sublist _ l 0) 0 _ es ht
  have e : restStart d = endOf 0 d.ast.decls := by
    unfold restStart endOf
    cases d.ast.decls.getLast? <;> rfl
  simp only [classifiedDoc, e]
  simpa using this

/-- **The decoded token stream of a valid program is strictly increasing in document order**
    (`SemOrder.lexLt`: an earlier line, or the same line and a smaller column): consecutive — and
    hence any two — decoded tokens start at different places, the later one behind the earlier
    one; by `classified_in_order` each of them is the start of a lexical token of its own. -/
theorem semantic_tokens_increasing (d : AnalyzedSource) (hinv : lex d.text = .ok d.tokens)
    (hp : Grammar.parse d.tokens = some d.ast) (sts : List SemTok) (h : semanticTokens d = .ok sts) :
    (decode ⟨0, 0⟩ sts).Pairwise SemOrder.lexLt := by
  rw [semantic_tokens_decode d sts h, List.pairwise_map]
  have hsub := classified_in_order d hp
  have hst := (SemOrder.tokens_strict d.text d.tokens hinv).sublist hsub
  refine List.Pairwise.imp_of_mem ?_ hst
  intro x y hx hy hlt
  exact SemOrder.starts_strict d.text d.tokens hinv x y (hsub.subset hx) (hsub.subset hy) hlt

/-! ### valid programs: the handler answers -/

open SemOrder in
/-- `prev` lies at or before the reported start of every token of `l` -/
def Before (text : List Char) (prev : Pos) (l : List Token) : Prop :=
  ∀ t ∈ l, lexLe prev (asPosition t.range.lo text)

open SemOrder in
theorem createSemTok_ok (t : Token) (prev : Pos) (text : List Char) (ty m : Nat)
    (hs : ∃ s, sliceText text t.range = some s) (hle : lexLe prev (asPosition t.range.lo text)) :
    ∃ st, createSemTok t prev text ty m = .ok st := by
  obtain ⟨s, hs⟩ := hs
  unfold createSemTok
  simp only [hs]
  have h1 : ¬ (asPosition t.range.lo text).line < prev.line := by
    rcases hle with (h | ⟨h, _⟩) | h
    · omega
    · omega
    · rw [h]; omega
  have h2 : ((asPosition t.range.lo text).line == prev.line && decide ((asPosition t.range.lo text).col < prev.col)) = false := by
    rcases hle with (h | ⟨h, h'⟩) | h
    · have : ((asPosition t.range.lo text).line == prev.line) = false := by simp; omega
      simp [this]
    · have : decide ((asPosition t.range.lo text).col < prev.col) = false := by simp; omega
      simp [this]
    · rw [← h]; simp
  simp only [h1, if_false, h2, Bool.false_eq_true]
  exact ⟨_, rfl⟩

open SemOrder in
/-- the fold over one run of tokens answers when the previous position lies before all of them,
    and the position it hands on lies before whatever comes behind the run -/
theorem collectToks_total (text : List Char) (toks : List Token) (hinv : lex text = .ok toks)
    (cl : Nat → Token → Option (Nat × Nat)) :
    ∀ (l : List Token) (i : Nat) (prev : Pos), (∀ t ∈ l, t ∈ toks) →
      l.Pairwise (fun x y => x.range.lo < y.range.lo) → Before text prev l →
      ∃ sts p, collectToks text cl l i prev = .ok (sts, p) ∧
        ∀ L', (∀ t ∈ L', t ∈ toks) → (∀ x ∈ l, ∀ y ∈ L', x.range.lo < y.range.lo) → Before text prev L' →
          Before text p L'
  | [], i, prev, _, _, _ => ⟨[], prev, rfl, fun _ _ _ h => h⟩
  | t :: rest, i, prev, hmem, hpw, hbef => by
    rw [List.pairwise_cons] at hpw
    have hmem' : ∀ x ∈ rest, x ∈ toks := fun x hx => hmem x (List.mem_cons_of_mem _ hx)
    simp only [collectToks]
    cases hc : cl i t with
    | none =>
      obtain ⟨sts, p, h1, h2⟩ := collectToks_total text toks hinv cl rest (i + 1) prev hmem' hpw.2
        (fun x hx => hbef x (List.mem_cons_of_mem _ hx))
      refine ⟨sts, p, h1, ?_⟩
      intro L' hL hord hb
      exact h2 L' hL (fun x hx y hy => hord x (List.mem_cons_of_mem _ hx) y hy) hb
    | some tm =>
      obtain ⟨ty, m⟩ := tm
      have ht : t ∈ toks := hmem t (by simp)
      obtain ⟨st, hst⟩ := createSemTok_ok t prev text ty m (sliceText_token text toks hinv t ht) (hbef t (by simp))
      have hb' : Before text (asPosition t.range.lo text) rest := by
        intro y hy
        exact Or.inl (starts_strict text toks hinv t y ht (hmem' y hy) (hpw.1 y hy))
      obtain ⟨sts, p, h1, h2⟩ := collectToks_total text toks hinv cl rest (i + 1) _ hmem' hpw.2 hb'
      refine ⟨st :: sts, p, by simp only [hst, h1], ?_⟩
      intro L' hL hord _
      refine h2 L' hL (fun x hx y hy => hord x (List.mem_cons_of_mem _ hx) y hy) ?_
      intro y hy
      exact Or.inl (starts_strict text toks hinv t y ht (hL y hy) (hord t (by simp) y hy))

open Spl.ParseConform SemOrder in
/-- the handler's loop over declarations that tile the token sequence answers -/
theorem from_total (d : AnalyzedSource) (hinv : lex d.text = .ok d.tokens) :
    ∀ (p : Nat) (ds : List (Ref GlobalDecl)) (es : List (Nat × Nat)), Tiling d.tokens.toArray p ds es →
    ∀ prev, Before d.text prev (d.tokens.drop p) →
    ∃ sts p', semanticTokensFrom d ds prev = .ok (sts, p') ∧ Before d.text p' (d.tokens.drop (endOf p ds)) := by
  intro p ds es h
  have hstrict := tokens_strict d.text d.tokens hinv
  -- one declaration at `p … k`
  have step : ∀ (p k : Nat) (gd : Ref GlobalDecl) (rest : List (Ref GlobalDecl)) (prev : Pos),
      declTokens d gd = some ((d.tokens.take (k + 1)).drop p) → p ≤ k + 1 → k < d.tokens.length →
      Before d.text prev (d.tokens.drop p) →
      (∀ prev', Before d.text prev' (d.tokens.drop (k + 1)) →
        ∃ sts p', semanticTokensFrom d rest prev' = .ok (sts, p') ∧ Before d.text p' (d.tokens.drop (endOf (k + 1) rest))) →
      ∃ sts p', semanticTokensFrom d (gd :: rest) prev = .ok (sts, p') ∧
        Before d.text p' (d.tokens.drop (endOf (k + 1) rest)) := by
    intro p k gd rest prev hd hpk hksz hbef ih
    have hsplit : d.tokens.drop p = (d.tokens.take (k + 1)).drop p ++ d.tokens.drop (k + 1) := by
      conv => lhs; rw [← List.take_append_drop (k + 1) d.tokens]
      rw [List.drop_append_of_le_length (by simp; omega)]
    have hpw : (d.tokens.drop p).Pairwise (fun x y => x.range.lo < y.range.lo) :=
      hstrict.sublist (List.drop_sublist _ _)
    rw [hsplit, List.pairwise_append] at hpw
    have hm1 : ∀ t ∈ (d.tokens.take (k + 1)).drop p, t ∈ d.tokens :=
      fun t ht => List.mem_of_mem_take (List.mem_of_mem_drop ht)
    have hm2 : ∀ t ∈ d.tokens.drop (k + 1), t ∈ d.tokens := fun t ht => List.mem_of_mem_drop ht
    obtain ⟨s1, p1, c1, c2⟩ := collectToks_total d.text d.tokens hinv (semClassify d gd.val ((d.tokens.take (k + 1)).drop p))
      ((d.tokens.take (k + 1)).drop p) 0 prev hm1 hpw.1
      (fun t ht => hbef t (by rw [hsplit]; exact List.mem_append_left _ ht))
    have hb1 := c2 (d.tokens.drop (k + 1)) hm2 hpw.2.2
      (fun t ht => hbef t (by rw [hsplit]; exact List.mem_append_right _ ht))
    obtain ⟨s2, p2, e1, e2⟩ := ih p1 hb1
    exact ⟨s1 ++ s2, p2, by simp only [semanticTokensFrom, hd, c1, e1], e2⟩
  induction h with
  | nil p => intro prev hb; exact ⟨[], prev, rfl, by simpa [endOf] using hb⟩
  | type p i k td rest es hN _ hik hk hr _ ih =>
    intro prev hb
    obtain ⟨tk, htk, _⟩ := hk
    have hksz : k < d.tokens.length := by
      have := (Array.getElem?_eq_some_iff.mp htk).1
      simpa using this
    have hpk : p ≤ k + 1 := by have := hN.le; omega
    have hd := declTokens_tiled d p k ⟨.type td, p⟩ rfl (by simpa [GlobalDecl.info] using hr) hpk hksz
    have hend : endOf p (⟨.type td, p⟩ :: rest) = endOf (k + 1) rest := by
      cases rest with
      | nil => simp [endOf, GlobalDecl.info, hr]; omega
      | cons r rs =>
        simp only [endOf, List.getLast?_cons_cons]
        rw [List.getLast?_eq_some_getLast (List.cons_ne_nil r rs)]
    rw [hend]
    exact step p k _ rest prev hd hpk hksz hb ih
  | proc p i k pd rest es hN _ hik hk hr _ ih =>
    intro prev hb
    obtain ⟨tk, htk, _⟩ := hk
    have hksz : k < d.tokens.length := by
      have := (Array.getElem?_eq_some_iff.mp htk).1
      simpa using this
    have hpk : p ≤ k + 1 := by have := hN.le; omega
    have hd := declTokens_tiled d p k ⟨.proc pd, p⟩ rfl (by simpa [GlobalDecl.info] using hr) hpk hksz
    have hend : endOf p (⟨.proc pd, p⟩ :: rest) = endOf (k + 1) rest := by
      cases rest with
      | nil => simp [endOf, GlobalDecl.info, hr]; omega
      | cons r rs =>
        simp only [endOf, List.getLast?_cons_cons]
        rw [List.getLast?_eq_some_getLast (List.cons_ne_nil r rs)]
    rw [hend]
    exact step p k _ rest prev hd hpk hksz hb ih

open SemOrder in
/-- **On a valid program the handler answers**: no slice is out of range and no delta would be
    negative (the implementation's debug build panics on a negative delta, its release build wraps
    around) — for every text the lexer tokenises and the grammar specification derives the tree of. -/
theorem semantic_tokens_total (d : AnalyzedSource) (hinv : lex d.text = .ok d.tokens)
    (hp : Grammar.parse d.tokens = some d.ast) : ∃ sts, semanticTokens d = .ok sts := by
  obtain ⟨es, ht⟩ := ParseConform.parse_tiling d.tokens d.ast hp
  obtain ⟨s1, p1, h1, h2⟩ := from_total d hinv 0 _ es ht ⟨0, 0⟩ (fun t _ => lexLe_zero _)
  have e : restStart d = endOf 0 d.ast.decls := by
    unfold restStart endOf
    cases d.ast.decls.getLast? <;> rfl
  have hstrict := (tokens_strict d.text d.tokens hinv).sublist (List.drop_sublist (restStart d) d.tokens)
  obtain ⟨s2, p2, c1, _⟩ := collectToks_total d.text d.tokens hinv (fun _ t => (mapTokenClass t).map (fun c => (c, 0)))
    (d.tokens.drop (restStart d)) 0 p1 (fun t ht => List.mem_of_mem_drop ht) hstrict (by rw [e]; exact h2)
  exact ⟨s1 ++ s2, by simp only [semanticTokens, h1, c1]⟩

/-- Non-vacuity: a document with a comment in front of a procedure, a type declaration and a trailing
    comment is derived by the grammar specification (so that, by C04.parse_conforms, its tree is that
    derivation and the three theorems above apply); the handler answers with eleven tokens. -/
example :
    (match AnalyzedSource.new "// doc\nproc a(x: int) {\n  x := 1;\n}\ntype t = int; // end".toList with
     | .ok d => (Grammar.parse d.tokens).isSome &&
         (match semanticTokens d with
          | .ok sts => sts.length == 11
          | .error _ => false)
     | .error _ => false) = true := by
  decide +kernel

/-- Non-vacuity: two identifiers on two lines are encoded as `(0,0)` and `(+1 line, column 0)`, and
    decoding gives the two positions back. -/
example :
    (match collectToks "ab\ncd".toList (fun _ _ => some (tyVariable, 0))
        [⟨.Ident "ab".toList, ⟨0, 2⟩, []⟩, ⟨.Ident "cd".toList, ⟨3, 5⟩, []⟩] 0 ⟨0, 0⟩ with
     | .ok (sts, p) => decide (sts = [⟨0, 0, 2, tyVariable, 0⟩, ⟨1, 0, 2, tyVariable, 0⟩] ∧ p = ⟨1, 0⟩ ∧
         decode ⟨0, 0⟩ sts = [⟨0, 0⟩, ⟨1, 0⟩])
     | .error _ => false) = true := by
  decide +kernel

/-- Lexical classes: comments, numbers (decimal, hexadecimal, character literals), keywords;
    symbols and other tokens are not classified. -/
theorem lexical_classes :
    mapTokenClass ⟨.Comment [], ⟨0, 1⟩, []⟩ = some tyComment ∧
    mapTokenClass ⟨.Int (.Int 1), ⟨0, 1⟩, []⟩ = some tyNumber ∧
    mapTokenClass ⟨.Hex (.Int 1), ⟨0, 1⟩, []⟩ = some tyNumber ∧
    mapTokenClass ⟨.Char 'a', ⟨0, 1⟩, []⟩ = some tyNumber ∧
    mapTokenClass ⟨.While, ⟨0, 1⟩, []⟩ = some tyKeyword ∧
    mapTokenClass ⟨.Plus, ⟨0, 1⟩, []⟩ = none := by decide

/-- The legend indices used by the handler (order of `TOKEN_TYPES`). -/
theorem legend_indices :
    [tyComment, tyKeyword, tyNumber, tyType, tyFunction, tyParameter, tyVariable] = [0, 1, 2, 3, 4, 5, 6] := rfl

end Spl.C15
