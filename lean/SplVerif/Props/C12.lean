/-
  C12 — Go-to declaration/definition/type definition/implementation hit the right name.
  Property theorems only.
-/
import SplVerif.Model.Features

namespace Spl.C12
open Spl.Feat

/-- **Non-identifiers yield no location, never an error.**  If the token under the cursor is
    not an identifier (or there is no token), every go-to handler answers `none`. -/
theorem goto_none_on_non_identifier (d : AnalyzedSource) (p : Pos) (c : Cursor)
    (hc : docCursor d p = .ok c) (hi : c.ident = none) :
    gotoDeclaration d p = .ok none ∧ gotoTypeDefinition d p = .ok none ∧
    gotoImplementation d p = .ok none := by
  simp [gotoDeclaration, gotoTypeDefinition, gotoImplementation, hc, hi]

/-- Outside every global declaration (no context) there is nothing to go to. -/
theorem goto_none_without_context (d : AnalyzedSource) (p : Pos) (c : Cursor)
    (hc : docCursor d p = .ok c) (hx : c.context = none) :
    gotoDeclaration d p = .ok none ∧ gotoTypeDefinition d p = .ok none ∧
    gotoImplementation d p = .ok none := by
  simp only [gotoDeclaration, gotoTypeDefinition, gotoImplementation, hc, hx]
  cases c.ident <;> simp

/-- Inside a type declaration, `int` has no declaration and no type definition. -/
theorem goto_int_in_type_context (d : AnalyzedSource) (p : Pos) (c : Cursor) (t : TypeEntry) (r : Range)
    (hc : docCursor d p = .ok c) (hx : c.context = some (.type t))
    (hi : c.ident = some ⟨"int".toList, r⟩) :
    gotoDeclaration d p = .ok none ∧ gotoTypeDefinition d p = .ok none := by
  simp [gotoDeclaration, gotoTypeDefinition, hc, hx, hi]

/-- A located name is reported as the range of its identifier token (last token of the node's
    range), converted with `as_position`: the comments in front of it are not part of it. -/
theorem name_range_is_token_range (s : Slice) (r : Range) (t : Token)
    (hne : r.lo < r.hi) (ht : s.get? (r.hi - 1) = some t) : nameTextRange s r = .ok t.range := by
  unfold nameTextRange
  have : ¬ r.hi ≤ r.lo := by omega
  simp [this, ht]

end Spl.C12
