/-
  C12 — Go-to declaration/definition/type definition/implementation hit the right name.
  Property theorems only.
-/
import SplVerif.Model.Features
import SplVerif.Lemmas.Cursor

namespace Spl.C12
open Spl.Feat

/-- **Non-identifiers yield no location, never an error.**  If the token under the cursor is
    not an identifier (or there is no token), every go-to handler answers `none`. -/
theorem goto_none_on_non_identifier (d : AnalyzedSource) (p : Pos) (c : Cursor)
    (hc : docCursor d p = .ok c) (hi : c.ident = none) :
    gotoDeclaration d p = .ok none ∧ gotoTypeDefinition d p = .ok none ∧
    gotoImplementation d p = .ok none := by
  simp [gotoDeclaration, gotoTypeDefinition, gotoImplementation, hc, hi]

/-- Outside every global declaration (no context) there is nothing to go to. -/
theorem goto_none_without_context (d : AnalyzedSource) (p : Pos) (c : Cursor)
    (hc : docCursor d p = .ok c) (hx : c.context = none) :
    gotoDeclaration d p = .ok none ∧ gotoTypeDefinition d p = .ok none ∧
    gotoImplementation d p = .ok none := by
  simp only [gotoDeclaration, gotoTypeDefinition, gotoImplementation, hc, hx]
  cases c.ident <;> simp

/-- Inside a type declaration, `int` has no declaration and no type definition. -/
theorem goto_int_in_type_context (d : AnalyzedSource) (p : Pos) (c : Cursor) (t : TypeEntry) (r : Range)
    (hc : docCursor d p = .ok c) (hx : c.context = some (.type t))
    (hi : c.ident = some ⟨"int".toList, r⟩) :
    gotoDeclaration d p = .ok none ∧ gotoTypeDefinition d p = .ok none := by
  simp [gotoDeclaration, gotoTypeDefinition, hc, hx, hi]

/-- A located name is reported as the range of its identifier token (last token of the node's
    range), converted with `as_position`: the comments in front of it are not part of it. -/
theorem name_range_is_token_range (s : Slice) (r : Range) (t : Token)
    (hne : r.lo < r.hi) (ht : s.get? (r.hi - 1) = some t) : nameTextRange s r = .ok t.range := by
  unfold nameTextRange
  have : ¬ r.hi ≤ r.lo := by omega
  simp [this, ht]

/-! ### scoping: locals and parameters before globals -/

/-- **A name declared locally (parameter or variable) is resolved to that local declaration**,
    whatever the global table contains under the same name (a procedure, a type, a predefined
    entity). -/
theorem local_shadows_global (l : LocalTable) (g : GlobalTable) (k : List Char) (e : LocalEntry)
    (h : tblLookup l k = some e) :
    lookupBoth (some l) g k = some (match e with
      | .variable v => .variable v
      | .parameter v => .parameter v) := by
  simp only [lookupBoth, Option.bind, h]
  cases e <;> rfl

/-- A name with no local declaration is resolved in the global table, and only there. -/
theorem global_fallback (l : LocalTable) (g : GlobalTable) (k : List Char)
    (h : tblLookup l k = none) :
    lookupBoth (some l) g k = (tblLookup g k).map Entry.ofGlobal := by
  simp only [lookupBoth, Option.bind, h]
  cases tblLookup g k with
  | none => rfl
  | some e => cases e <;> rfl

/-- Outside a procedure (type declarations) only global names are visible. -/
theorem no_locals_outside_procedures (g : GlobalTable) (k : List Char) :
    lookupBoth none g k = (tblLookup g k).map Entry.ofGlobal := by
  simp only [lookupBoth, Option.bind]
  cases tblLookup g k with
  | none => rfl
  | some e => cases e <;> rfl

/-- The token the type-position rule looks at: the last non-comment token that ends at or before
    the identifier. -/
def prevToken (d : AnalyzedSource) (ident : Ident) : Option Token :=
  ((d.tokens.takeWhile (fun t => t.range.hi ≤ ident.range.lo)).filter (fun t => t.kind != .Comment)).getLast?

/-- **Type positions are global**: for an identifier directly after `:` or `of` (comments in
    between do not matter) that is not the procedure's own name, `lookup_ident` answers from the
    global table alone — a parameter or variable of the same name does not capture it. -/
theorem type_position_is_global (d : AnalyzedSource) (pe : ProcedureEntry) (ident : Ident) (t : Token)
    (hprev : prevToken d ident = some t) (hk : (t.kind == .Colon || t.kind == .Of) = true) :
    lookupIdent d pe ident = .ok ((tblLookup d.table ident.value).map Entry.ofGlobal) := by
  unfold prevToken at hprev
  simp only [lookupIdent, hprev, hk, if_true]
  -- the own-name test never fails; both of its outcomes answer from the global table here
  have hown : ∀ (own : Except Panic Bool), (∃ b, own = .ok b) →
      (match own with
        | .error e => (Except.error e : Except Panic (Option Entry))
        | .ok true => .ok ((tblLookup d.table ident.value).map Entry.ofGlobal)
        | .ok false => .ok ((tblLookup d.table ident.value).map Entry.ofGlobal)) =
      .ok ((tblLookup d.table ident.value).map Entry.ofGlobal) := by
    intro own ⟨b, hb⟩
    subst hb
    cases b <;> rfl
  apply hown
  cases (allTokens d).sub pe.range with
  | none => exact ⟨false, rfl⟩
  | some s =>
    simp only
    split
    · exact ⟨false, rfl⟩
    · cases s.get? (pe.name.info.range.hi - 1) with
      | none => exact ⟨false, rfl⟩
      | some tk => exact ⟨_, rfl⟩

/-- The first declaration of a name in a table wins (a table never holds two entries for one
    name: `enter` refuses duplicates). -/
theorem enter_refuses_duplicate {α} (t : List (List Char × α)) (k : List Char) (v w : α)
    (h : tblLookup t k = some v) : tblEnter t k w = none := by
  unfold tblLookup at h
  unfold tblEnter
  cases hf : t.find? (fun e => e.1 == k) with
  | none => simp [hf] at h
  | some e =>
    have hm := List.mem_of_find?_eq_some hf
    have hp := List.find?_some hf
    have : t.any (fun e => e.1 == k) = true := List.any_eq_true.mpr ⟨e, hm, hp⟩
    simp [this]


/-! ### the identifier under the cursor -/

/-- **A reported identifier range, sent back, addresses that identifier** (C08's last sentence, and the entry point
    of go-to, references, rename, hover and signature help).  For every document whose token vector is the
    tokenisation of its text (`AnalyzedSource::new`, and by C07 every update, guarantee this) and every identifier
    token `t` of it: a request at the position the server reports for the start of `t` resolves to exactly that
    identifier with exactly its range — multi-byte and astral characters, CRLF and lone CR in front of it included. -/
theorem reported_start_addresses_identifier (d : AnalyzedSource) (hinv : lex d.text = .ok d.tokens) (t : Token)
    (ht : t ∈ lexL d.text 0) (name : List Char) (hty : t.ty = .Ident name) (c : Cursor)
    (hc : docCursor d (asPosition t.range.lo d.text) = .ok c) : c.ident = some ⟨name, t.range⟩ := by
  obtain ⟨_, hfind⟩ := CursorLemmas.start_addresses_token d.text d.tokens hinv t ht
  simp only [docCursor] at hc
  cases hf : findDecl d (insertionIndex (asPosition t.range.lo d.text) d.text) d.ast.decls with
  | error e => simp [hf] at hc
  | ok gd =>
    simp only [hf, Except.ok.injEq] at hc
    subst hc
    simp only [Cursor.ident, hfind, hty]

/-- … and so does every position inside the identifier: any byte index of its range finds it. -/
theorem index_inside_addresses_identifier (d : AnalyzedSource) (hinv : lex d.text = .ok d.tokens) (t : Token)
    (ht : t ∈ lexL d.text 0) (name : List Char) (hty : t.ty = .Ident name) (c : Cursor)
    (hdoc : c.doc = d) (h1 : t.range.lo ≤ c.index) (h2 : c.index < t.range.hi) : c.ident = some ⟨name, t.range⟩ := by
  have := CursorLemmas.index_finds_token d.text d.tokens hinv t ht c.index h1 h2
  simp only [Cursor.ident, hdoc, this, hty]

end Spl.C12
