/-
  C05 — A syntax error stays contained in the declaration it occurs in.  Property theorems only.
-/
import SplVerif.Lemmas.ParserTables
import SplVerif.Lemmas.Resync
import SplVerif.Lemmas.Contain
import SplVerif.Lemmas.Prefix
import SplVerif.Lemmas.Total
import SplVerif.Lemmas.Shift
import SplVerif.Lemmas.FreshEnd
import SplVerif.Lemmas.ParseClean
import SplVerif.Lemmas.Resync

namespace Spl.C05

/-- Table obligation over the regenerated `look_ahead_parser!` sets: every synchronisation set
    (global_dec, stmt, var_dec, param_dec, arg) accepts `proc`, `type` and `Eof`; hence every
    `ignore_until` recovery stops at the next declaration keyword at the latest. -/
theorem sync_sets_ok : SyncSetsOK = true := by decide

/-- The synchronisation sets are nested the way the grammar nests. -/
theorem sync_sets_nested : SyncSetsNested = true := by decide

/-- **Error recovery resynchronises at the next procedure or type declaration.**  Whenever the
    recovery of a damaged global declaration (`ignore_until(look_ahead::global_dec)`) finishes, it
    stands exactly where the next non-comment token is `proc`, `type` or the end of the file, and it
    has skipped no position from which such a token was the next one — whatever the tokens are and
    wherever the damage is: the keyword and the doc comments of the following declaration are never
    swallowed by this recovery. -/
theorem global_resync (ctx : Parse.Ctx) (fuel : Nat) (s s' : Parse.St) (start : Nat) (skipped : List Token)
    (h : Parse.ignoreUntil0 ctx (Parse.peek (Parse.la ctx .global_dec)) fuel start s = .ok s' skipped) :
    s.pos ≤ s'.pos ∧
    (∃ i t, ParseConform.Next ctx.toks s'.pos i ∧ ctx.toks[i]? = some t ∧ ParseConform.isSync t.ty.kind = true) ∧
    (∀ q, s.pos ≤ q → q < s'.pos → ∀ i t, ParseConform.Next ctx.toks q i → ctx.toks[i]? = some t →
      ParseConform.isSync t.ty.kind = false) :=
  ParseConform.global_resync ctx fuel s s' start skipped h

open Spl.ParseConform in
/-- **Declarations in front of the damage keep their sub-trees verbatim.**  If the non-comment tokens
    of a token sequence start with declarations `ds` that the grammar specification derives
    (`DeclsPrefix`: type and procedure declarations one behind the other) and go on with `rest` —
    a damaged declaration, garbage, further declarations, anything — then every program the parser
    returns for the sequence starts with exactly these declarations: the sub-trees with the ranges,
    `Reference` offsets and doc comments the grammar mandates and no diagnostic in them.  What
    follows cannot reach back into them. -/
theorem prefix_verbatim (toks : List Token) (ds : List (Ref GlobalDecl)) (rest : Grammar.Toks)
    (h : DeclsPrefix ⟨toks.toArray⟩ (tsFrom toks.toArray 0) ds rest) (prog : Program)
    (hp : Parse.parse toks = .ok prog) : ∃ more, prog.decls = ds.map Grammar.relDecl ++ more :=
  parse_prefix toks ds rest h prog hp

open Spl.ParseConform in
/-- **Behind the damage the loop continues as the grammar mandates.**  Wherever the declaration loop
    stands directly behind a token (after `global_resync`: in front of the doc comments of the next
    declaration): if the remaining tokens are declarations the grammar derives, followed by anything,
    the loop returns exactly these declarations — each with the sub-tree of the undamaged program
    relative to its own start — and goes on behind them like a loop started there. -/
theorem loop_resumes (ctx : Parse.Ctx) (ts rest : Grammar.Toks) (ds : List (Ref GlobalDecl))
    (h : DeclsPrefix ⟨ctx.toks⟩ ts ds rest) (s : Parse.St) (f : Nat) (hat : At ctx s ts) (href : s.refPos = 0) :
    ∃ e, s.pos ≤ e ∧ At ctx { s with pos := e } rest ∧ ds.length + rest.length ≤ ts.length ∧
      Parse.many0 (Parse.refParse (Parse.parseGlobalDecl ctx) none) (f + ds.length) s =
        prependRes (ds.map Grammar.relDecl)
          (Parse.many0 (Parse.refParse (Parse.parseGlobalDecl ctx) none) f { s with pos := e }) :=
  prefix_conf ctx h s f hat href

open Spl.ParseConform in
/-- the declarations of every derivation of the grammar are such a prefix (followed by the end of file) -/
theorem derivation_is_prefix (g : Grammar.GCtx) (fd : Nat) (ts : Grammar.Toks) (ds : List (Ref GlobalDecl))
    (last : Option Nat) (h : Grammar.decls g fd ts = some (ds, last)) :
    ∃ ieof, DeclsPrefix g ts ds [⟨ieof, .Eof⟩] :=
  decls_is_prefix g fd ts ds last h

/-- the tokens of `proc a() {} *` -/
def exampleToks : List Token :=
  [⟨.Proc, ⟨0, 4⟩, []⟩, ⟨.Ident ['a'], ⟨5, 6⟩, []⟩, ⟨.LParen, ⟨6, 7⟩, []⟩, ⟨.RParen, ⟨7, 8⟩, []⟩,
   ⟨.LCurly, ⟨9, 10⟩, []⟩, ⟨.RCurly, ⟨10, 11⟩, []⟩, ⟨.Times, ⟨12, 13⟩, []⟩, ⟨.Eof, ⟨13, 13⟩, []⟩]

example : (match lex "proc a() {} *".toList with | .ok ts => ts == exampleToks | .error _ => false) = true := by
  decide +kernel

open Spl.ParseConform in
/-- Non-vacuity of `prefix_verbatim`: a procedure declaration followed by garbage. -/
example : ∃ ds, ds.length = 1 ∧
    DeclsPrefix ⟨exampleToks.toArray⟩ (tsFrom exampleToks.toArray 0) ds [⟨6, .Times⟩, ⟨7, .Eof⟩] := by
  have e : tsFrom exampleToks.toArray 0 = [⟨0, .Proc⟩, ⟨1, .Ident ['a']⟩, ⟨2, .LParen⟩, ⟨3, .RParen⟩, ⟨4, .LCurly⟩,
      ⟨5, .RCurly⟩, ⟨6, .Times⟩, ⟨7, .Eof⟩] := rfl
  rw [e]
  exact ⟨_, rfl, DeclsPrefix.proc 0 1 ['a'] 2 .LParen _ [] 3 .RParen 4 .LCurly _ [] _ .nil 5 .RCurly _ _ [] rfl
    (Or.inl ⟨3, _, rfl, rfl, rfl⟩) rfl rfl rfl rfl rfl (DeclsPrefix.nil _)⟩

/-- **Damage never swallows a declaration keyword.**  For EVERY token sequence — however broken — and every
    program `parser::parse` returns for it: each `proc` and each `type` keyword token of the sequence is the first
    token (behind documentation comments only) of one of the global declarations of that program, at that
    declaration's `Reference` offset.  Whatever is wrong in front of a keyword — unbalanced brackets, a missing
    `}`, half a statement, garbage — the declaration in which the damage lies ends in front of the documentation
    comments of the next `proc` / `type`, and a new declaration node starts there: no parser other than the two
    declaration parsers ever consumes one of these keywords, and every recovery stops at them
    (`Lemmas/Total`: `Clean`, `peekla_atKw`, `globalDecl_contained`, `loop_keywords`). -/
theorem keywords_start_declarations (toks : List Token) (prog : Program) (hp : Parse.parse toks = .ok prog)
    (q : Nat) (t : Token) (ht : toks[q]? = some t) (hk : t.kind = Kind.Proc ∨ t.kind = Kind.Type) :
    ∃ d ∈ prog.decls, d.offset ≤ q ∧
      ∀ i t', d.offset ≤ i → i < q → toks[i]? = some t' → t'.kind = Kind.Comment := by
  let ctx : Parse.Ctx := { toks := toks.toArray, change := ⟨0, 0, toks.length⟩ }
  have hparse : Parse.parse toks = match Parse.parseProgram ctx none { pos := 0 } with
      | .ok _ p => .ok p
      | .err _ _ => .error ⟨"expect:Parser cannot fail"⟩
      | .panic e => .error e := rfl
  rw [hparse] at hp
  cases hr : Parse.parseProgram ctx none { pos := 0 } with
  | ok s' p =>
    rw [hr] at hp
    simp only [Except.ok.injEq] at hp
    subst hp
    have ht' : ctx.toks[q]? = some t := by
      show toks.toArray[q]? = some t
      simpa using ht
    obtain ⟨d, hd, h1, h2⟩ := Total.program_keywords ctx s' p hr q t ht' hk
    refine ⟨d, hd, h1, ?_⟩
    intro i t' hi1 hi2 hti
    exact h2 i t' hi1 hi2 (by show toks.toArray[i]? = some t'; simpa using hti)
  | err k x => rw [hr] at hp; cases hp
  | panic e => rw [hr] at hp; cases hp

/-- Non-vacuity: a broken first procedure (no closing brace, half an assignment) in front of a documented type
    declaration and a second procedure: the parse succeeds and has three declarations, at offsets 0, 11 and 17
    — the token indices of `proc`, of the comment in front of `type`, and of the second `proc`. -/
example :
    (match lex "proc a() { x := (1 + ;\n// doc\ntype t = int;\nproc main() {}".toList with
     | .ok toks =>
       (match Parse.parse toks with
        | .ok p => p.decls.map (·.offset) == [0, 11, 17]
        | .error _ => false)
     | .error _ => false) = true := by
  decide +kernel

open Spl.ParseConform in
/-- **Declarations behind the damage are parsed exactly as before.**  `A` is the undamaged token sequence, for
    which the grammar specification derives `progA` (absolute ranges; `Grammar.relDecl` turns a declaration into the
    implementation's convention, and by `C04.parse_conforms` that is what `parser::parse` returns for `A`).  Split
    its declarations anywhere: `pre ++ post`.  Then `post` starts at a position `e` directly behind a token (the
    start of the doc comments of its first declaration), and in EVERY token sequence that goes on, from some position
    directly behind a token, with the same tokens as `A` from `e` on — whatever stands in front: the damaged
    declaration, garbage, fewer or more tokens — the declaration loop of the parser, when it stands there, returns
    exactly the declarations `post` of the undamaged program: identical sub-trees (every node, range, inner
    `Reference` offset, doc comment, no diagnostic), each at its `Reference` offset moved by the difference of the
    two positions; and it goes on at the end of the file.  (`Lemmas/Shift`: the grammar specification does not
    depend on where in the sequence a run of declarations stands.  That the loop does come to stand exactly there
    is `keywords_start_declarations` + `global_resync` up to the comment run in front of the keyword; the remaining
    step is evaluated on every run by PROPCONTAIN.) -/
theorem following_declarations_as_before (A : List Token) (progA : Program) (hA : Grammar.parseAbs A = some progA)
    (pre post : List (Ref GlobalDecl)) (hsp : progA.decls = pre ++ post) :
    ∃ e, Fresh A.toArray e ∧ (∀ d rest, post = d :: rest → d.val.info.range.lo = e) ∧
      ∀ (ctx : Parse.Ctx) (s : Parse.St) (f : Nat), ctx.toks.toList.drop s.pos = A.drop e →
        Fresh ctx.toks s.pos → s.refPos = 0 →
        ∃ endB ieof, s.pos ≤ endB ∧ At ctx { s with pos := endB } [⟨ieof, .Eof⟩] ∧
          Parse.many0 (Parse.refParse (Parse.parseGlobalDecl ctx) none) (f + post.length) s =
            prependRes ((post.map Grammar.relDecl).map (fun r => ⟨r.val, r.offset - e + s.pos⟩))
              (Parse.many0 (Parse.refParse (Parse.parseGlobalDecl ctx) none) f { s with pos := endB }) := by
  simp only [Grammar.parseAbs] at hA
  split at hA
  · cases hA
  · rw [← tsFrom_zero] at hA
    cases hd : Grammar.decls ⟨A.toArray⟩ ((tsFrom A.toArray 0).length + 1) (tsFrom A.toArray 0) with
    | none => simp [hd] at hA
    | some res =>
      obtain ⟨ds, last⟩ := res
      simp only [hd, Option.some.injEq] at hA
      subst hA
      simp only at hsp
      subst hsp
      let ctxA : Parse.Ctx := { toks := A.toArray, change := ⟨0, 0, A.length⟩ }
      have hat : At ctxA ({ pos := 0 } : Parse.St) (tsFrom ctxA.toks 0) := ⟨Or.inl rfl, Nat.le_refl _, rfl⟩
      obtain ⟨fd', e, last', _, hatE, hd'⟩ := Shift.decls_split ctxA pre _ _ post last hd _ hat
      refine ⟨e, hatE.fresh, ?_, ?_⟩
      · intro d rest hpost
        subst hpost
        exact Shift.decls_head_start ctxA fd' _ d rest last' hd' _ hatE
      · intro ctx s f hsuf hfs href
        exact Shift.tail_as_before A.toArray e fd' post last' hd' hatE.fresh ctx s (by simpa using hsuf) hfs href f

/- Non-vacuity of `following_declarations_as_before`: its hypothesis `Grammar.parseAbs A = some progA` is what
   SPECPARSE / PROPCONTAIN establish by evaluation for every generated valid program on every run (the kernel
   evaluation of `parseAbs` on a literal text is too slow to keep as an `example` here); the hypotheses about the
   damaged sequence are instantiated by the three damage operations of PROPCONTAIN. -/

section
open Spl Spl.Parse Spl.ParseConform Spl.FreshEnd Spl.Contain


/-- **A syntax error stays in its declaration: what follows is parsed exactly as before.**  `A` is the undamaged
    token sequence with the derivation `progA` of the grammar specification (what `parser::parse` returns for it, by
    `C04.parse_conforms`); `d0 :: post` are its declarations from some declaration `d0` on.  `B` is ANY token sequence
    that, from a position `eB` directly behind a token, goes on exactly like `A` from the start of `d0` (the doc
    comments in front of its keyword) — in front of `eB` stands whatever the damage made of the earlier declarations.
    Then every program `parser::parse` returns for `B` ENDS with exactly the declarations `d0 :: post` of the
    undamaged program (nothing behind them: the loop stops at the end-of-file token, `loop_at_eof`): identical sub-trees — every node, range, inner `Reference` offset and doc
    comment, no diagnostic in them — each at its `Reference` offset moved by the difference of the two positions.
    (`keywords_start_declarations` finds the declaration that starts at the keyword of `d0`; `Lemmas/FreshEnd` shows
    that the loop's iterations start directly behind a token, so that declaration starts at `eB` and not inside the
    comment run; `Lemmas/Shift` shows that the loop returns the undamaged sub-trees from there.) -/
theorem declarations_behind_damage_as_before (A B : List Token) (progA progB : Program)
    (hA : Grammar.parseAbs A = some progA) (hB : Parse.parse B = .ok progB)
    (pre post : List (Ref GlobalDecl)) (d0 : Ref GlobalDecl) (hsp : progA.decls = pre ++ d0 :: post)
    (eB : Nat) (hsuf : B.drop eB = A.drop d0.val.info.range.lo) (hfB : Fresh B.toArray eB) :
    ∃ preB, progB.decls = preB ++
      ((d0 :: post).map Grammar.relDecl).map (fun r => ⟨r.val, r.offset - d0.val.info.range.lo + eB⟩) := by
  -- the undamaged derivation, cut in front of `d0`
  simp only [Grammar.parseAbs] at hA
  split at hA
  · cases hA
  · rw [← tsFrom_zero] at hA
    cases hd : Grammar.decls ⟨A.toArray⟩ ((tsFrom A.toArray 0).length + 1) (tsFrom A.toArray 0) with
    | none => simp [hd] at hA
    | some res =>
      obtain ⟨ds, last⟩ := res
      simp only [hd, Option.some.injEq] at hA
      subst hA
      simp only at hsp
      subst hsp
      let ctxA : Ctx := { toks := A.toArray, change := ⟨0, 0, A.length⟩ }
      have hat : At ctxA ({ pos := 0 } : St) (tsFrom ctxA.toks 0) := ⟨Or.inl rfl, Nat.le_refl _, rfl⟩
      obtain ⟨fd', e, last', _, hatE, hd'⟩ := Shift.decls_split ctxA pre _ _ (d0 :: post) last hd _ hat
      have he : d0.val.info.range.lo = e := Shift.decls_head_start ctxA fd' _ d0 post last' hd' _ hatE
      rw [he] at hsuf ⊢
      obtain ⟨qA, tq, hNA0, htq0, hkq⟩ := decls_head_keyword ctxA fd' _ d0 post last' hd' _ hatE
      have hNA : Next A.toArray e qA := hNA0
      have htq : A.toArray[qA]? = some tq := htq0
      -- the same tokens in `B`
      have getB : ∀ k, B[eB + k]? = A[e + k]? := by
        intro k
        have := congrArg (fun l => l[k]?) hsuf
        simpa [List.getElem?_drop] using this
      have hle : e ≤ qA := hNA.le
      let qB := eB + (qA - e)
      have hqB : B[qB]? = some tq := by
        show B[eB + (qA - e)]? = some tq
        rw [getB]
        have : e + (qA - e) = qA := by omega
        rw [this]
        simpa using htq
      have hcm : ∀ q, eB ≤ q → q < qB → ∃ t, B[q]? = some t ∧ t.kind = Kind.Comment := by
        intro q h1 h2
        have := hNA.cmts (e + (q - eB)) (by omega) (by show e + (q - eB) < qA; omega)
        obtain ⟨t, ht, hk⟩ := this
        refine ⟨t, ?_, hk⟩
        have hq : q = eB + (q - eB) := by omega
        rw [hq, getB]
        simpa using ht
      -- the declaration of `progB` that starts at this keyword
      obtain ⟨d, hdm, hoff, hcd⟩ := keywords_start_declarations B progB hB qB tq hqB hkq
      -- the loop
      let ctxB : Ctx := { toks := B.toArray, change := ⟨0, 0, B.length⟩ }
      have hparse : Parse.parse B = match parseProgram ctxB none { pos := 0 } with
          | .ok _ p => .ok p
          | .err _ _ => .error ⟨"expect:Parser cannot fail"⟩
          | .panic e => .error e := rfl
      rw [hparse] at hB
      cases hr : parseProgram ctxB none { pos := 0 } with
      | err k x => rw [hr] at hB; cases hB
      | panic e => rw [hr] at hB; cases hB
      | ok s' p =>
        rw [hr] at hB
        simp only [Except.ok.injEq] at hB
        subst hB
        obtain ⟨sE, hloop⟩ := program_loop s' p hr
        obtain ⟨i, hi, hdi⟩ := List.getElem_of_mem hdm
        obtain ⟨fi, si, hsi, hg, hrp, hoffi⟩ :=
          loop_split p.decls _ _ _ hloop (Or.inl (Or.inl rfl)) rfl i hi
        rw [hdi] at hoffi
        -- the iteration starts at `eB`, not inside the comment run
        have hqsz : qB < B.length := by
          have := (List.getElem?_eq_some_iff.mp hqB).1
          exact this
        have hfr : Fresh ctxB.toks si.pos := by
          rcases hg with h | h
          · exact h
          · exfalso
            have h' : B.toArray.size ≤ si.pos := h
            have : B.length ≤ si.pos := by simpa using h'
            omega
        have hpos : si.pos = eB := by
          rw [← hoffi]
          rcases Nat.lt_trichotomy d.offset eB with hlt | heq | hgt
          · exfalso
            rcases hfB with h0 | ⟨t, ht, hk⟩
            · omega
            · have := hcd (eB - 1) t (by omega) (by omega) (by simpa using ht)
              exact hk this
          · exact heq
          · exfalso
            rw [← hoffi] at hfr
            rcases hfr with h0 | ⟨t, ht, hk⟩
            · omega
            · obtain ⟨t', ht', hk'⟩ := hcm (d.offset - 1) (by omega) (by omega)
              have : B.toArray[d.offset - 1]? = some t' := by simpa using ht'
              rw [this] at ht
              cases ht
              exact hk hk'
        -- from there the loop returns the undamaged sub-trees
        have hsuf' : ctxB.toks.toList.drop si.pos = A.toArray.toList.drop e := by
          rw [hpos]; simpa using hsuf
        obtain ⟨endB, ieof, _, hatEnd, hres⟩ :=
          Shift.tail_as_before A.toArray e fd' (d0 :: post) last' hd' hatE.fresh ctxB si hsuf' hfr hrp fi
        have hbig := many0_mono' _ fi si sE (p.decls.drop i) hsi (d0 :: post).length
        rw [hres] at hbig
        cases hrest : many0 (refParse (parseGlobalDecl ctxB) none) fi { si with pos := endB } with
        | ok sX rest =>
          -- behind them stands the end-of-file token: the loop stops
          have hnil : rest = [] := by
            cases fi with
            | zero => simp [many0] at hrest
            | succ f =>
              rw [loop_at_eof ctxB _ ieof hatEnd f] at hrest
              simp only [Res.ok.injEq] at hrest
              exact hrest.2.symm
          subst hnil
          rw [hrest] at hbig
          simp only [prependRes, Res.ok.injEq, List.append_nil] at hbig
          refine ⟨p.decls.take i, ?_⟩
          rw [hpos] at hbig
          rw [hbig.2]
          exact (List.take_append_drop i p.decls).symm
        | err k x => rw [hrest] at hbig; simp [prependRes] at hbig
        | panic e => rw [hrest] at hbig; simp [prependRes] at hbig


/-- **The syntax diagnostics of the damaged program lie outside the declarations behind the damage.**  In the setting of
    `declarations_behind_damage_as_before`: the copies of the undamaged declarations carry no diagnostic, so every
    diagnostic of the parse is attached to the program node or to a declaration node in front of them (the damaged
    declaration and what the recovery made of it). -/
theorem diagnostics_outside_undamaged_declarations (A B : List Token) (progA progB : Program)
    (hA : Grammar.parseAbs A = some progA) (hB : Parse.parse B = .ok progB)
    (pre post : List (Ref GlobalDecl)) (d0 : Ref GlobalDecl) (hsp : progA.decls = pre ++ d0 :: post)
    (eB : Nat) (hsuf : B.drop eB = A.drop d0.val.info.range.lo) (hfB : Fresh B.toArray eB) :
    ∃ preB, progB.decls = preB ++
      ((d0 :: post).map Grammar.relDecl).map (fun r => ⟨r.val, r.offset - d0.val.info.range.lo + eB⟩) ∧
      progB.errors = progB.info.errors ++ preB.flatMap (refErrors GlobalDecl.errors) := by
  obtain ⟨preB, hd⟩ := declarations_behind_damage_as_before A B progA progB hA hB pre post d0 hsp eB hsuf hfB
  refine ⟨preB, hd, ?_⟩
  -- the undamaged derivation carries no diagnostic
  have hclean : ∀ x ∈ d0 :: post, refErrors GlobalDecl.errors (Grammar.relDecl x) = [] := by
    simp only [Grammar.parseAbs] at hA
    split at hA
    · cases hA
    · split at hA
      · cases hA
      · rename_i ds last hds
        simp only [Option.some.injEq] at hA
        subst hA
        simp only at hsp
        have := decls_errs _ _ _ _ _ hds
        intro x hx
        exact relDecl_errs x (this x (by rw [hsp]; exact List.mem_append_right _ hx))
  simp only [Program.errors, hd, List.flatMap_append, List.append_assoc]
  have hmid : (((d0 :: post).map Grammar.relDecl).map (fun r => (⟨r.val, r.offset - d0.val.info.range.lo + eB⟩ : Ref GlobalDecl))).flatMap
      (refErrors GlobalDecl.errors) = [] := by
    rw [flatMap_nil_iff]
    intro r hr
    simp only [List.mem_map] at hr
    obtain ⟨r1, ⟨x, hx, rfl⟩, rfl⟩ := hr
    have := refErrors_nil _ _ (hclean x hx)
    simp [refErrors, this]
  rw [hmid]
  simp


/-- **A syntax error stays contained in the declaration it occurs in** — both sides at once.  `B` is any token
    sequence that starts with declarations `front` the grammar derives (`DeclsPrefix`), each starting in front of
    position `eB`, and that from `eB` on (directly behind a token) goes on exactly like the undamaged sequence `A` from
    the start of its declaration `d0`.  Then every program `parser::parse` returns for `B` is
    `front` (verbatim) `++ mid ++` (the declarations `d0 :: post` of the undamaged program, offsets moved): whatever
    the damaged stretch in between is parsed into, the declarations on both sides are parsed exactly as without it. -/
theorem damage_is_contained (A B : List Token) (progA progB : Program)
    (hA : Grammar.parseAbs A = some progA) (hB : Parse.parse B = .ok progB)
    (pre post : List (Ref GlobalDecl)) (d0 : Ref GlobalDecl) (hsp : progA.decls = pre ++ d0 :: post)
    (eB : Nat) (hsuf : B.drop eB = A.drop d0.val.info.range.lo) (hfB : Fresh B.toArray eB)
    (front : List (Ref GlobalDecl)) (rest : Grammar.Toks)
    (hfront : DeclsPrefix ⟨B.toArray⟩ (tsFrom B.toArray 0) front rest)
    (hbefore : ∀ d ∈ front, d.val.info.range.lo < eB) :
    ∃ mid, progB.decls = front.map Grammar.relDecl ++ mid ++
      ((d0 :: post).map Grammar.relDecl).map (fun r => ⟨r.val, r.offset - d0.val.info.range.lo + eB⟩) := by
  obtain ⟨preB, h1⟩ := declarations_behind_damage_as_before A B progA progB hA hB pre post d0 hsp eB hsuf hfB
  obtain ⟨more, h2⟩ := prefix_verbatim B front rest hfront progB hB
  -- the leading declarations end in front of the copies
  have hlen : front.length ≤ preB.length := by
    rcases Nat.lt_or_ge preB.length front.length with hgt | hge
    case inr => exact hge
    exfalso
    -- the element at index `preB.length`, read from both descriptions
    have e1 : progB.decls[preB.length]? = some (Grammar.relDecl (front[preB.length])) := by
      rw [h2, List.getElem?_append_left (by simpa using hgt)]
      simp [hgt]
    have e2 : progB.decls[preB.length]? =
        some ⟨(Grammar.relDecl d0).val, (Grammar.relDecl d0).offset - d0.val.info.range.lo + eB⟩ := by
      rw [h1, List.getElem?_append_right (Nat.le_refl _)]
      simp
    rw [e1] at e2
    simp only [Option.some.injEq] at e2
    have hoff := congrArg Ref.offset e2
    simp only [relDecl_offset] at hoff
    have := hbefore (front[preB.length]) (List.getElem_mem _)
    omega
  -- hence they are an initial part of what stands in front of the copies
  have h3 : front.map Grammar.relDecl ++ more = preB ++
      ((d0 :: post).map Grammar.relDecl).map (fun r => (⟨r.val, r.offset - d0.val.info.range.lo + eB⟩ : Ref GlobalDecl)) := by
    rw [← h2, h1]
  obtain ⟨mid, hmid⟩ : ∃ mid, preB = front.map Grammar.relDecl ++ mid := by
    refine ⟨preB.drop front.length, ?_⟩
    have ht : preB.take front.length = front.map Grammar.relDecl := by
      have := congrArg (List.take front.length) h3
      simp only [List.take_append_of_le_length (by simp : front.length ≤ (front.map Grammar.relDecl).length),
        List.take_append_of_le_length hlen] at this
      rw [this.symm.trans (List.take_of_length_le (by simp))]
    rw [← ht, List.take_append_drop]
  exact ⟨mid, by rw [h1, hmid]⟩


/-- **The property's own quantifier: a stretch of tokens of one declaration is deleted, inserted or replaced.**
    `A = X ++ M0 ++ Y` is the undamaged sequence, `B = X ++ M ++ Y` the damaged one (`M0 = [t]`, `M = []`: a token
    deleted; `M0 = []`, `M = [t]`: inserted; `M0 = [t]`, `M = [t']`: replaced; any other stretch as well), and the
    damage ends in front of the last token in front of `d0` (at least one undamaged token stands between the damage
    and the documentation comments of `d0`).  Then every parse of `B` ends with exactly the declarations of the
    undamaged program from `d0` on, their offsets moved by the difference of the lengths. -/
theorem stretch_damage_contained (X M0 M Y : List Token) (progA progB : Program)
    (hA : Grammar.parseAbs (X ++ M0 ++ Y) = some progA) (hB : Parse.parse (X ++ M ++ Y) = .ok progB)
    (pre post : List (Ref GlobalDecl)) (d0 : Ref GlobalDecl) (hsp : progA.decls = pre ++ d0 :: post)
    (hlt : X.length + M0.length < d0.val.info.range.lo) :
    ∃ preB, progB.decls = preB ++ ((d0 :: post).map Grammar.relDecl).map
      (fun r => ⟨r.val, r.offset - d0.val.info.range.lo + (d0.val.info.range.lo - M0.length + M.length)⟩) := by
  obtain ⟨e, hfe, he0, _⟩ := following_declarations_as_before (X ++ M0 ++ Y) progA hA pre (d0 :: post) hsp
  have he : d0.val.info.range.lo = e := he0 d0 post rfl
  subst he
  -- write the start of `d0` as  |X| + |M0| + n + 1
  obtain ⟨n, hn⟩ : ∃ n, d0.val.info.range.lo = X.length + M0.length + (n + 1) := ⟨d0.val.info.range.lo - X.length - M0.length - 1, by omega⟩
  have hB' : d0.val.info.range.lo - M0.length + M.length = X.length + M.length + (n + 1) := by omega
  have hsuf : (X ++ M ++ Y).drop (d0.val.info.range.lo - M0.length + M.length) = (X ++ M0 ++ Y).drop d0.val.info.range.lo := by
    rw [hB', hn, drop_stretch, drop_stretch]
  have hfB : Fresh (X ++ M ++ Y).toArray (d0.val.info.range.lo - M0.length + M.length) := by
    rcases hfe with h0 | ⟨t, ht, hk⟩
    · omega
    · refine Or.inr ⟨t, ?_, hk⟩
      have ht' : (X ++ M0 ++ Y)[d0.val.info.range.lo - 1]? = some t := by simpa using ht
      have i1 : d0.val.info.range.lo - 1 = X.length + M0.length + n := by omega
      have i2 : d0.val.info.range.lo - M0.length + M.length - 1 = X.length + M.length + n := by omega
      rw [i1, get_stretch] at ht'
      show (X ++ M ++ Y).toArray[d0.val.info.range.lo - M0.length + M.length - 1]? = some t
      rw [List.getElem?_toArray, i2, get_stretch]
      exact ht'
  exact declarations_behind_damage_as_before (X ++ M0 ++ Y) (X ++ M ++ Y) progA progB hA hB pre post d0 hsp _ hsuf hfB

end

end Spl.C05
