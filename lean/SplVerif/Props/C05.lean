/-
  C05 — A syntax error stays contained in the declaration it occurs in.  Property theorems only.
-/
import SplVerif.Lemmas.ParserTables

namespace Spl.C05

/-- Table obligation over the regenerated `look_ahead_parser!` sets: every synchronisation set
    (global_dec, stmt, var_dec, param_dec, arg) accepts `proc`, `type` and `Eof`; hence every
    `ignore_until` recovery stops at the next declaration keyword at the latest. -/
theorem sync_sets_ok : SyncSetsOK = true := by decide

/-- The synchronisation sets are nested the way the grammar nests. -/
theorem sync_sets_nested : SyncSetsNested = true := by decide

end Spl.C05
