/-
  C05 — A syntax error stays contained in the declaration it occurs in.  Property theorems only.
-/
import SplVerif.Lemmas.ParserTables
import SplVerif.Lemmas.Resync

namespace Spl.C05

/-- Table obligation over the regenerated `look_ahead_parser!` sets: every synchronisation set
    (global_dec, stmt, var_dec, param_dec, arg) accepts `proc`, `type` and `Eof`; hence every
    `ignore_until` recovery stops at the next declaration keyword at the latest. -/
theorem sync_sets_ok : SyncSetsOK = true := by decide

/-- The synchronisation sets are nested the way the grammar nests. -/
theorem sync_sets_nested : SyncSetsNested = true := by decide

/-- **Error recovery resynchronises at the next procedure or type declaration.**  Whenever the
    recovery of a damaged global declaration (`ignore_until(look_ahead::global_dec)`) finishes, it
    stands exactly where the next non-comment token is `proc`, `type` or the end of the file, and it
    has skipped no position from which such a token was the next one — whatever the tokens are and
    wherever the damage is: the keyword and the doc comments of the following declaration are never
    swallowed by this recovery. -/
theorem global_resync (ctx : Parse.Ctx) (fuel : Nat) (s s' : Parse.St) (start : Nat) (skipped : List Token)
    (h : Parse.ignoreUntil0 ctx (Parse.peek (Parse.la ctx .global_dec)) fuel start s = .ok s' skipped) :
    s.pos ≤ s'.pos ∧
    (∃ i t, ParseConform.Next ctx.toks s'.pos i ∧ ctx.toks[i]? = some t ∧ ParseConform.isSync t.ty.kind = true) ∧
    (∀ q, s.pos ≤ q → q < s'.pos → ∀ i t, ParseConform.Next ctx.toks q i → ctx.toks[i]? = some t →
      ParseConform.isSync t.ty.kind = false) :=
  ParseConform.global_resync ctx fuel s s' start skipped h

end Spl.C05
