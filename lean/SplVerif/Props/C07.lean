/-
  C07 — Incremental lexing yields the batch token stream and an exact change window.
  Property theorems only.
-/
import SplVerif.Lemmas.Lex

namespace Spl.C07

/-- Table obligation over the regenerated `TokenType::look_ahead`: every kind is granted at
    least the look-ahead it needs (1 for keywords, identifiers, numerals, character literals,
    comments, unknown characters; `|q| - |p|` for a symbol `p` that a longer spelling `q`
    extends — `<`/`<=`, `>`/`>=`, `:`/`:=`, `/`/`//`) and at most 1. -/
theorem look_ahead_ok : LookAheadOK = true := by decide

end Spl.C07
