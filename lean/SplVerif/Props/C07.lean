/-
  C07 — Incremental lexing yields the batch token stream and an exact change window.
  Property theorems only (lemmas: Lemmas/Lex, Lemmas/IncLex, Lemmas/LexLocal).

  A change is given as a decomposition of the old text `pre ++ mid ++ post` (the byte range
  `utf8Len pre .. utf8Len pre + utf8Len mid`, on character boundaries by construction) and the
  replacement `ins`; the new text is `pre ++ ins ++ post`.  These are exactly the arguments
  `lexer::update` receives from `AnalyzedSource::update` (C08 proves that the document layer
  produces ranges on character boundaries).
-/
import SplVerif.Lemmas.LexLocal

namespace Spl.C07

/-- Table obligation over the regenerated `TokenType::look_ahead`: every kind is granted at
    least the look-ahead it needs (1 for keywords, identifiers, numerals, character literals,
    comments, unknown characters; `|q| - |p|` for a symbol `p` that a longer spelling `q`
    extends — `<`/`<=`, `>`/`>=`, `:`/`:=`, `/`/`//`) and at most 1. -/
theorem look_ahead_ok : LookAheadOK = true := by decide

/-- **Look-ahead locality** of the one-token lexer, for the regenerated alternative order,
    spellings and look-ahead table: the token recognised at the start of a text depends only on
    its own characters and — for kinds with look-ahead 1 — on the next character (or the end of
    the text).  This is what `is_affected_by` relies on. -/
theorem lex_local : LexLocal := lexLocal

theorem lex_eq (s : List Char) : lex s = .ok (lexL s 0 ++ [eofToken (utf8Len s)]) := by
  simp [lex, lexGo_eq_lexL]

/-- **C07, first half — `update` = `lex`.**  For every old text, every change (every byte range
    on character boundaries, every replacement string — no bound on any length): updating the
    token sequence of the old text returns precisely the tokens a fresh tokenisation of the new
    text returns (types with their values, byte ranges, attached lexical errors), and never
    panics. -/
theorem update_eq_lex (pre mid ins post : List Char) (old : List Token)
    (hold : lex (pre ++ mid ++ post) = .ok old) :
    ∃ new ch,
      lexUpdate (pre ++ ins ++ post) old (utf8Len pre) (utf8Len pre + utf8Len mid) (utf8Len ins) = .ok (new, ch) ∧
      lex (pre ++ ins ++ post) = .ok new := by
  rw [lex_eq] at hold
  cases hold
  obtain ⟨ch, h⟩ := lexUpdate_eq_lex lexLocal pre mid ins post
  exact ⟨_, ch, h, lex_eq _⟩

/-- **C07, second half — the change window is truthful.**  With `(new, ch)` the result of the
    update: the window is well-formed; the first `ch.delLo` tokens are the old ones untouched;
    and the old tokens from `ch.delHi` on (including `Eof`), shifted by the length difference of
    the edit (ranges and attached errors, the shift never underflows), are exactly the new tokens
    after the `ch.insLen` inserted ones. -/
theorem window_truthful (pre mid ins post : List Char) (old : List Token)
    (hold : lex (pre ++ mid ++ post) = .ok old) :
    ∃ new ch,
      lexUpdate (pre ++ ins ++ post) old (utf8Len pre) (utf8Len pre + utf8Len mid) (utf8Len ins) = .ok (new, ch) ∧
      lex (pre ++ ins ++ post) = .ok new ∧
      ch.delLo ≤ ch.delHi ∧ ch.delHi + 1 ≤ old.length ∧
      new.take ch.delLo = old.take ch.delLo ∧
      (old.drop ch.delHi).mapM (fun t => shiftToken? t (editDelta pre mid ins)) =
        some (new.drop (ch.delLo + ch.insLen)) := by
  rw [lex_eq] at hold
  cases hold
  obtain ⟨ch, h, h1, h2, h3, h4⟩ := lexUpdate_window lexLocal pre mid ins post
  refine ⟨_, ch, h, lex_eq _, h1, ?_, h3, h4⟩
  simp only [List.length_append, List.length_cons, List.length_nil]
  omega

/-- Edit histories: token sequences reached from a fresh tokenisation by any number of updates. -/
inductive Reaches : List Char → List Token → Prop
  | init (t : List Char) (toks : List Token) : lex t = .ok toks → Reaches t toks
  | step (pre mid ins post : List Char) (old new : List Token) (ch : TokenChange) :
      Reaches (pre ++ mid ++ post) old →
      lexUpdate (pre ++ ins ++ post) old (utf8Len pre) (utf8Len pre + utf8Len mid) (utf8Len ins) = .ok (new, ch) →
      Reaches (pre ++ ins ++ post) new

/-- **C07 over histories**: after any sequence of changes the maintained token sequence is the
    fresh tokenisation of the current text. -/
theorem history_eq_lex {t : List Char} {toks : List Token} (h : Reaches t toks) : lex t = .ok toks := by
  induction h with
  | init t toks h => exact h
  | step pre mid ins post old new ch _ hu ih =>
    obtain ⟨new', ch', h1, h2⟩ := update_eq_lex pre mid ins post old ih
    rw [hu] at h1
    cases h1
    exact h2

/-- … and no update along a history panics. -/
theorem history_no_panic {pre mid post : List Char} {old : List Token} (h : Reaches (pre ++ mid ++ post) old)
    (ins : List Char) :
    ∃ new ch, lexUpdate (pre ++ ins ++ post) old (utf8Len pre) (utf8Len pre + utf8Len mid) (utf8Len ins) = .ok (new, ch) := by
  obtain ⟨new, ch, h1, _⟩ := update_eq_lex pre mid ins post old (history_eq_lex h)
  exact ⟨new, ch, h1⟩

/-! Non-vacuity: the hypothesis `lex … = .ok old` holds for every text (`C06.lex_total`); one
    concrete instance of the adjacency the look-ahead table is about — a lone tick at the end of
    the text, then a character typed after it — evaluated by the kernel. -/
example : ∃ old, lex ("x := '".toList ++ [] ++ []) = .ok old := ⟨_, lex_eq _⟩

example : (lexUpdate "x := 'a".toList ((lexL "x := '".toList 0) ++ [eofToken 6]) 6 6 1).toOption.map (·.1) =
    (lex "x := 'a".toList).toOption := by decide +kernel

end Spl.C07
