/-
  C19 — Message framing is independent of how the byte stream is chunked.
  Property theorems only.
-/
import SplVerif.Lemmas.Codec
import SplVerif.Lemmas.CodecEnv

namespace Spl.C19
open Spl.Codec

/-- **Chunking independence.**  For every header parser and body parser whose verdicts are
    stable under extension of the buffer (`EnvOK`: a complete header block stays the same
    complete block, an error stays an error), the `FramedRead` loop around `LSCodec::decode`
    yields the same message sequence and the same terminal status however the byte stream is
    cut into reads. -/
theorem feed_chunk_independent {Msg} (env : Env Msg) (hok : EnvOK env) (chunks : List Bytes) :
    feed env chunks [] = feed env [chunks.flatten] [] := by
  rw [feed_eq_finish env hok, feed_eq_finish env hok]
  simp

/-- Decoding is monotone in the buffer: once `decode` has produced a frame or an error, more
    bytes do not change its verdict. -/
theorem decode_stable {Msg} (env : Env Msg) (hok : EnvOK env) (b x : Bytes)
    (h : ∀ (_ : Unit), decode env b ≠ .needMore) : decode env (b ++ x) = decode env b :=
  decode_append env hok b x (h ())

/-- `EnvOK` is not an assumption for the header-parser model that the correspondence run ties to
    `httparse::parse_headers` (`DEC` op: same verdicts on every generated header variant): once
    its verdict is `complete` or `error`, later bytes never change it. -/
theorem env_ok {Msg} (parseBody : Bytes → Option Msg) :
    EnvOK ({ parseHeaders := parseHeadersModel, parseBody := parseBody } : Env Msg) :=
  envOK_model parseBody

/-- **C19 for the modelled codec, without hypotheses**: for every body parser, every byte
    stream and every way of cutting it into reads (any number of chunks of any sizes, including
    empty ones and cuts inside a header, inside a multi-byte character or inside the body), the
    decoded message sequence and the terminal status are those of a single read of the whole
    stream. -/
theorem chunk_independent {Msg} (parseBody : Bytes → Option Msg) (chunks : List Bytes) :
    feed ({ parseHeaders := parseHeadersModel, parseBody := parseBody } : Env Msg) chunks [] =
      feed ({ parseHeaders := parseHeadersModel, parseBody := parseBody } : Env Msg) [chunks.flatten] [] :=
  feed_chunk_independent _ (envOK_model parseBody) chunks

/-- Every emitted frame announces the byte length of its body. -/
theorem encode_length (body : Bytes) :
    encode body = "Content-Length: ".toUTF8.toList ++ (toString body.length).toUTF8.toList
      ++ [13, 10, 13, 10] ++ body := rfl

end Spl.C19
