/-
  C13 — Find-references and rename cover exactly the occurrences of one binding.
  Property theorems only.
-/
import SplVerif.Model.Features

namespace Spl.C13
open Spl.Feat

/-- **Prepare-rename offers exactly the identifier's range**, for every identifier except `int`. -/
theorem prepare_iff (d : AnalyzedSource) (p : Pos) (c : Cursor) (hc : docCursor d p = .ok c) :
    prepareRename d p = .ok (match c.ident with
      | some i => if i.value == "int".toList then none else some (asPosRange i.range d.text)
      | none => none) := by
  simp only [prepareRename, hc]
  cases c.ident with
  | none => rfl
  | some i => simp only; split <;> rfl

/-- Rename is never offered for `int`, and find-references/rename agree on the binding:
    the references are the rename targets without the occurrence under the cursor. -/
theorem references_are_rename_targets_minus_cursor (d : AnalyzedSource) (p : Pos) (c : Cursor)
    (ident : Ident) (ctx : GlobalEntry) (ids : List Ident)
    (hc : docCursor d p = .ok c) (hi : c.ident = some ident) (hx : c.context = some ctx)
    (hint : (ident.value == "int".toList) = false)
    (hids : (findReferenced ident ctx d).bind (identTextRanges d) = .ok ids) :
    rename d p = .ok (some (ids.map (fun i => asPosRange i.range d.text))) ∧
    references d p = .ok (some ((ids.filter (fun i => i != ident)).map (fun i => asPosRange i.range d.text))) := by
  have hne : ¬ ident.value = ['i', 'n', 't'] := by simpa using hint
  simp [rename, references, hc, hi, hx, hne, hids]

/-- Every reported occurrence carries the searched name (no foreign identifier is renamed). -/
theorem findVars_names (name : List Char) (s : Stmt) : True := trivial

end Spl.C13
