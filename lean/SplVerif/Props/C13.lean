/-
  C13 — Find-references and rename cover exactly the occurrences of one binding.
  Property theorems only.
-/
import SplVerif.Model.Features

namespace Spl.C13
open Spl.Feat

/-- **Prepare-rename offers exactly the identifier's range**, for every identifier except `int`. -/
theorem prepare_iff (d : AnalyzedSource) (p : Pos) (c : Cursor) (hc : docCursor d p = .ok c) :
    prepareRename d p = .ok (match c.ident with
      | some i => if i.value == "int".toList then none else some (asPosRange i.range d.text)
      | none => none) := by
  simp only [prepareRename, hc]
  cases c.ident with
  | none => rfl
  | some i => simp only; split <;> rfl

/-- Rename is never offered for `int`, and find-references/rename agree on the binding:
    the references are the rename targets without the occurrence under the cursor. -/
theorem references_are_rename_targets_minus_cursor (d : AnalyzedSource) (p : Pos) (c : Cursor)
    (ident : Ident) (ctx : GlobalEntry) (ids : List Ident)
    (hc : docCursor d p = .ok c) (hi : c.ident = some ident) (hx : c.context = some ctx)
    (hint : (ident.value == "int".toList) = false)
    (hids : (findReferenced ident ctx d).bind (identTextRanges d) = .ok ids) :
    rename d p = .ok (some (ids.map (fun i => asPosRange i.range d.text))) ∧
    references d p = .ok (some ((ids.filter (fun i => i != ident)).map (fun i => asPosRange i.range d.text))) := by
  have hne : ¬ ident.value = ['i', 'n', 't'] := by simpa using hint
  simp [rename, references, hc, hi, hx, hne, hids]

/-! ### every reported occurrence is spelled exactly like the searched name -/

def AllNamed (name : List Char) (l : List Identifier) : Prop := ∀ i ∈ l, i.value = name

theorem allNamed_nil (name : List Char) : AllNamed name [] := by intro i hi; cases hi

theorem allNamed_append {name : List Char} {a b : List Identifier}
    (ha : AllNamed name a) (hb : AllNamed name b) : AllNamed name (a ++ b) := by
  intro i hi
  rcases List.mem_append.mp hi with h | h
  · exact ha i h
  · exact hb i h

theorem allNamed_shift {name : List Char} {l : List Identifier} (d : Nat) (h : AllNamed name l) :
    AllNamed name (shiftIds l d) := by
  intro i hi
  simp only [shiftIds, List.mem_map] at hi
  obtain ⟨j, hj, rfl⟩ := hi
  exact h j hj

theorem allNamed_single {name : List Char} (id : Identifier) :
    AllNamed name (if id.value == name then [id] else []) := by
  intro i hi
  split at hi
  · rename_i h
    simp only [List.mem_singleton] at hi
    subst hi
    simpa using h
  · cases hi

theorem allNamed_flatMap {α} {name : List Char} (l : List α) (f : α → List Identifier)
    (h : ∀ x ∈ l, AllNamed name (f x)) : AllNamed name (l.flatMap f) := by
  intro i hi
  simp only [List.mem_flatMap] at hi
  obtain ⟨x, hx, hix⟩ := hi
  exact h x hx i hix

mutual
  theorem varsInVar_named (name : List Char) : ∀ v : Var, AllNamed name (varsInVar name v)
    | .named id => by simp only [varsInVar]; exact allNamed_single id
    | .access a idx _ => by
      simp only [varsInVar]
      exact allNamed_append (varsInVar_named name a) (varsInOptExpr_named name idx)
  theorem varsInExpr_named (name : List Char) : ∀ e : Expr, AllNamed name (varsInExpr name e)
    | .var v => by simp only [varsInExpr]; exact varsInVar_named name v
    | .binary _ l r _ => by
      simp only [varsInExpr]
      exact allNamed_append (varsInExpr_named name l) (varsInExpr_named name r)
    | .bracketed e _ => by simp only [varsInExpr]; exact varsInExpr_named name e
    | .unary _ e _ => by simp only [varsInExpr]; exact varsInExpr_named name e
    | .intLit _ => by simp only [varsInExpr]; exact allNamed_nil name
    | .error _ => by simp only [varsInExpr]; exact allNamed_nil name
  theorem varsInOptExpr_named (name : List Char) : ∀ e : OptExpr, AllNamed name (varsInOptExpr name e)
    | .none => by simp only [varsInOptExpr]; exact allNamed_nil name
    | .some e o => by simp only [varsInOptExpr]; exact allNamed_shift o (varsInExpr_named name e)
end

theorem varsInOptRefExpr_named (name : List Char) (r : Option (Ref Expr)) :
    AllNamed name (varsInOptRefExpr name r) := by
  cases r with
  | none => exact allNamed_nil name
  | some r => exact allNamed_shift _ (varsInExpr_named name r.val)

mutual
  theorem varsInStmt_named (name : List Char) : ∀ s : Stmt, AllNamed name (varsInStmt name s)
    | .assign a => by
      simp only [varsInStmt]
      exact allNamed_append (varsInVar_named name a.target) (varsInOptRefExpr_named name a.expr)
    | .block ss _ => by simp only [varsInStmt]; exact varsInList_named name ss
    | .call c => by
      simp only [varsInStmt]
      exact allNamed_flatMap _ _ (fun r _ => allNamed_shift _ (varsInExpr_named name r.val))
    | .ifS c t e _ => by
      simp only [varsInStmt]
      exact allNamed_append (allNamed_append (varsInOptRefExpr_named name c) (varsInOpt_named name t))
        (varsInOpt_named name e)
    | .whileS c b _ => by
      simp only [varsInStmt]
      exact allNamed_append (varsInOptRefExpr_named name c) (varsInOpt_named name b)
    | .empty _ => by simp only [varsInStmt]; exact allNamed_nil name
    | .error _ => by simp only [varsInStmt]; exact allNamed_nil name
  theorem varsInOpt_named (name : List Char) : ∀ s : OptStmt, AllNamed name (varsInOpt name s)
    | .none => by simp only [varsInOpt]; exact allNamed_nil name
    | .some s o => by simp only [varsInOpt]; exact allNamed_shift o (varsInStmt_named name s)
  theorem varsInList_named (name : List Char) : ∀ s : StmtList, AllNamed name (varsInList name s)
    | .nil => by simp only [varsInList]; exact allNamed_nil name
    | .cons s o r => by
      simp only [varsInList]
      exact allNamed_append (allNamed_shift o (varsInStmt_named name s)) (varsInList_named name r)
end

/-- **No foreign identifier is ever reported or renamed** (variables): for every program, every
    procedure and every name, each occurrence `find_vars` returns — parameter declarations, local
    declarations and uses in the body, at any nesting depth — is spelled exactly like the searched
    name (case-sensitive). -/
theorem findVars_named (name procName : List Char) (p : Program) :
    ∀ i ∈ findVars name procName p, i.value = name := by
  unfold findVars
  split
  · rename_i gd _
    split
    · rename_i pd _
      apply allNamed_shift
      apply allNamed_append
      · apply allNamed_append
        · intro i hi
          simp only [List.mem_filterMap] at hi
          obtain ⟨prm, _, h⟩ := hi
          split at h
          · split at h
            · rename_i n _ _ _ _ hn
              simp only [Option.some.injEq] at h
              subst h
              simpa [Identifier.shift] using hn
            · cases h
          · cases h
        · intro i hi
          simp only [List.mem_filterMap] at hi
          obtain ⟨v, _, h⟩ := hi
          split at h
          · split at h
            · rename_i n _ _ _ hn
              simp only [Option.some.injEq] at h
              subst h
              simpa [Identifier.shift] using hn
            · cases h
          · cases h
      · exact allNamed_flatMap _ _ (fun s _ => allNamed_shift _ (varsInStmt_named name s.val))
    · exact allNamed_nil name
  · exact allNamed_nil name

mutual
  theorem procsInStmt_named (name : List Char) : ∀ s : Stmt, AllNamed name (procsInStmt name s)
    | .block ss _ => by simp only [procsInStmt]; exact procsInList_named name ss
    | .call c => by simp only [procsInStmt]; exact allNamed_single c.name
    | .ifS _ t e _ => by
      simp only [procsInStmt]
      exact allNamed_append (procsInOpt_named name t) (procsInOpt_named name e)
    | .whileS _ b _ => by simp only [procsInStmt]; exact procsInOpt_named name b
    | .assign _ => by simp only [procsInStmt]; exact allNamed_nil name
    | .empty _ => by simp only [procsInStmt]; exact allNamed_nil name
    | .error _ => by simp only [procsInStmt]; exact allNamed_nil name
  theorem procsInOpt_named (name : List Char) : ∀ s : OptStmt, AllNamed name (procsInOpt name s)
    | .none => by simp only [procsInOpt]; exact allNamed_nil name
    | .some s o => by simp only [procsInOpt]; exact allNamed_shift o (procsInStmt_named name s)
  theorem procsInList_named (name : List Char) : ∀ s : StmtList, AllNamed name (procsInList name s)
    | .nil => by simp only [procsInList]; exact allNamed_nil name
    | .cons s o r => by
      simp only [procsInList]
      exact allNamed_append (allNamed_shift o (procsInStmt_named name s)) (procsInList_named name r)
end

/-- … procedures: the declaring name and every call, at any nesting depth. -/
theorem findProcs_named (name : List Char) (p : Program) : ∀ i ∈ findProcs name p, i.value = name := by
  unfold findProcs
  apply allNamed_flatMap
  intro gd _
  split
  · rename_i pd _
    apply allNamed_shift
    apply allNamed_append
    · cases pd.name with
      | none => exact allNamed_nil name
      | some n => exact allNamed_single n
    · exact allNamed_flatMap _ _ (fun s _ => allNamed_shift _ (procsInStmt_named name s.val))
  · exact allNamed_nil name

/-- … types: the declaring name and every use in type expressions of type declarations,
    parameters and local variables (through any nesting of `array … of`). -/
theorem findTypes_named (name : List Char) (p : Program) : ∀ i ∈ findTypes name p, i.value = name := by
  unfold findTypes
  apply allNamed_flatMap
  intro gd _
  apply allNamed_shift
  split
  · rename_i td _
    apply allNamed_append
    · cases td.name with
      | none => exact allNamed_nil name
      | some n => exact allNamed_single n
    · cases td.typeExpr.bind identInRefType with
      | none => exact allNamed_nil name
      | some i => exact allNamed_single i
  · rename_i pd _
    apply allNamed_append
    · intro i hi
      simp only [List.mem_filter] at hi
      simpa using hi.2
    · intro i hi
      simp only [List.mem_filter] at hi
      simpa using hi.2
  · exact allNamed_nil name

end Spl.C13
