/-
  C10 — Formatting never loses or duplicates a comment.  Property theorems only.
-/
import SplVerif.Model.Format

namespace Spl.C10
open Spl.Fmt Spl.Feat

/-- The text the formatter model prints for a document (4 spaces). -/
def formatted (s : String) : Option (List Char) :=
  match AnalyzedSource.new s.toList with
  | .ok d =>
    match fmtProgram ⟨' ', 4⟩ d.ast d.tokens.toArray with
    | .ok t => some t
    | .error _ => none
  | .error _ => none

/-- Leading comments of declarations and statements are kept (each exactly once). -/
theorem leading_comment_kept :
    formatted "// a\nproc main() {\n// b\n;}" = some "// a\nproc main() {\n    // b\n    ;\n}\n".toList := by
  decide +kernel

/-- **Known finding KF-C10 (witnesses).**  A comment in front of a closing brace, inside a
    procedure signature, inside a type expression or inside an if-condition belongs to no
    printed node and is dropped by the formatter as modelled. -/
theorem kf_c10_before_rcurly : formatted "proc main() {\n// lost\n}" = some "proc main() {}\n".toList := by
  decide +kernel

theorem kf_c10_in_sig : formatted "proc main( // lost\n) {}" = some "proc main() {}\n".toList := by
  decide +kernel

theorem kf_c10_in_type : formatted "type t = // lost\nint;" = some "type t = int;\n".toList := by
  decide +kernel

theorem kf_c10_in_condition :
    formatted "proc main() {if (1 // lost\n< 2) ;}" = some "proc main() {\n    if (1 < 2)\n        ;\n}\n".toList := by
  decide +kernel

end Spl.C10
