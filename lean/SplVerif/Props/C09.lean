/-
  C09 — Formatting never changes the program.  Property theorems only.
-/
import SplVerif.Model.Format

namespace Spl.C09
open Spl.Fmt Spl.Feat

/-- **The edit replaces exactly the whole document.**  Whenever formatting returns an edit,
    its range starts at (0,0) and ends at the position of the end of the text. -/
theorem whole_document_edit (d : AnalyzedSource) (sp : Bool) (ts : Nat) (r : PosRange) (t : List Char)
    (h : Fmt.format d sp ts = .ok (some (r, t))) :
    r = (⟨0, 0⟩, asPosition (utf8Len d.text) d.text) := by
  unfold Fmt.format at h
  cases hf : fmtProgram (if sp then ⟨' ', ts⟩ else ⟨'\t', 1⟩) d.ast d.tokens.toArray with
  | error e => simp [hf] at h
  | ok nt =>
    simp only [hf] at h
    split at h
    · simp at h
    · simp only [Except.ok.injEq, Option.some.injEq, Prod.mk.injEq] at h
      rw [← h.1]
      simp only [asPosRange, Prod.mk.injEq, and_true]
      cases d.text <;> simp [asPosition, asPositionGo]

/-- Literals are re-printed with their value: decimal as decimal, hexadecimal as `0x` +
    upper-case digits (at least two), the newline character as `'\n'`. -/
theorem display_char_newline : Parse.displayToken (.Char '\n') = ['\'', '\\', 'n', '\''] := by decide
theorem display_hex_10 : Parse.displayToken (.Hex (.Int 10)) = "0x0A".toList := by decide
theorem display_hex_4096 : Parse.displayToken (.Hex (.Int 4096)) = "0x1000".toList := by decide

end Spl.C09
