/-
  C09 — Formatting never changes the program.  Property theorems only.
-/
import SplVerif.Model.Format
import SplVerif.Lemmas.FmtProgram
import SplVerif.Props.C06

namespace Spl.C09
open Spl.Fmt Spl.Feat

/-- **The edit replaces exactly the whole document.**  Whenever formatting returns an edit,
    its range starts at (0,0) and ends at the position of the end of the text. -/
theorem whole_document_edit (d : AnalyzedSource) (sp : Bool) (ts : Nat) (r : PosRange) (t : List Char)
    (h : Fmt.format d sp ts = .ok (some (r, t))) :
    r = (⟨0, 0⟩, asPosition (utf8Len d.text) d.text) := by
  unfold Fmt.format at h
  cases hf : fmtProgram (if sp then ⟨' ', ts⟩ else ⟨'\t', 1⟩) d.ast d.tokens.toArray with
  | error e => simp [hf] at h
  | ok nt =>
    simp only [hf] at h
    split at h
    · simp at h
    · simp only [Except.ok.injEq, Option.some.injEq, Prod.mk.injEq] at h
      rw [← h.1]
      simp only [asPosRange, Prod.mk.injEq, and_true]
      cases d.text <;> simp [asPosition, asPositionGo]

/-- Literals are re-printed with their value: decimal as decimal, hexadecimal as `0x` +
    upper-case digits (at least two), the newline character as `'\n'`. -/
theorem display_char_newline : Parse.displayToken (.Char '\n') = ['\'', '\\', 'n', '\''] := by decide
theorem display_hex_10 : Parse.displayToken (.Hex (.Int 10)) = "0x0A".toList := by decide
theorem display_hex_4096 : Parse.displayToken (.Hex (.Int 4096)) = "0x1000".toList := by decide


/-! ### formatting keeps every token -/

/-- the formatter's options as `features::format` builds them from the request -/
def optionsOf (insertSpaces : Bool) (tabSize : Nat) : Options := if insertSpaces then ⟨' ', tabSize⟩ else ⟨'\t', 1⟩

theorem optionsOf_ok (insertSpaces : Bool) (tabSize : Nat) : FmtStmt.OptOK (optionsOf insertSpaces tabSize) := by
  cases insertSpaces
  · exact Or.inr rfl
  · exact Or.inl rfl

/-- **C09 for programs without comments (`format_preserves_tokens_partial`).**  For every lexically valid text
    without comments (the independent lexer specification tokenises it into `toks`) from whose tokens the grammar
    specification derives a program `p` — i.e. for every syntactically valid comment-free SPL text of any size —,
    for every `insertSpaces` and `tabSize`: the formatter model succeeds on `p`, and tokenising the text it prints
    (with the lexer specification, hence — `C06.lex_conforms` — with the model of `lexer::lex`) yields tokens of
    exactly the types of the original tokens, in order.  Token types carry the spelling of identifiers and the value
    of literals: nothing is lost, added, merged, split, renamed or re-valued, whatever the original layout was.
    PARTIAL with respect to the property only in that texts with comments are not covered by the theorem (they are
    judged on every run: JUDGEFMT09). -/
theorem format_preserves_tokens_partial (insertSpaces : Bool) (tabSize : Nat) (text : List Char) (toks : List Token)
    (p : Program) (h1 : LexSpec.lex text = some toks) (h2 : ∀ t ∈ toks, t.kind ≠ Kind.Comment)
    (h3 : Grammar.parse toks = some p) :
    ∃ out ts', fmtProgram (optionsOf insertSpaces tabSize) p toks.toArray = .ok out ∧
      LexSpec.lex out = some ts' ∧ lex out = .ok ts' ∧ ts'.map (·.ty) = toks.map (·.ty) := by
  obtain ⟨out, ts', e1, e2, e3⟩ :=
    FmtProgram.format_lexes (optionsOf insertSpaces tabSize) (optionsOf_ok insertSpaces tabSize) text toks p h1 h2 h3
  exact ⟨out, ts', e1, e2, C06.lex_conforms out ts' e2, e3⟩

/-- … in terms of the request handler: for a document whose tokens and tree are those of its (valid, comment-free)
    text, `textDocument/formatting` answers `null` or one edit whose new text has the tokens of the old text. -/
theorem format_request_preserves_tokens (d : AnalyzedSource) (insertSpaces : Bool) (tabSize : Nat)
    (h1 : LexSpec.lex d.text = some d.tokens) (h2 : ∀ t ∈ d.tokens, t.kind ≠ Kind.Comment)
    (h3 : Grammar.parse d.tokens = some d.ast) :
    Fmt.format d insertSpaces tabSize = .ok none ∨
    ∃ r out ts', Fmt.format d insertSpaces tabSize = .ok (some (r, out)) ∧ lex out = .ok ts' ∧
      ts'.map (·.ty) = d.tokens.map (·.ty) := by
  obtain ⟨out, ts', e1, _, e3, e4⟩ := format_preserves_tokens_partial insertSpaces tabSize d.text d.tokens d.ast h1 h2 h3
  unfold Fmt.format
  have : (if insertSpaces = true then (⟨' ', tabSize⟩ : Options) else ⟨'\t', 1⟩) = optionsOf insertSpaces tabSize := rfl
  simp only [this, e1]
  by_cases hc : (out == d.text) = true
  · left; simp [hc]
  · right
    exact ⟨asPosRange ⟨0, utf8Len d.text⟩ d.text, out, ts', by simp [hc], e3, e4⟩

/-- Non-vacuity: a comment-free program with a procedure, parameters, an array type, `if`/`else`, `while`, a call
    and literals of all three kinds meets the hypotheses of `format_preserves_tokens_partial`. -/
example :
    (match LexSpec.lex ("type v = array [0x10] of int;\nproc f(ref a: v, i: int) {\n  var k: int;\n  " ++
        "if (i < 10) a[i] := -'x'; else { while (k # 0) k := k - 1; }\n  f(a, (i + 1) * 2);\n}\nproc main() {}").toList with
      | some toks => toks.all (fun t => t.kind != Kind.Comment) && (Grammar.parse toks).isSome
      | none => false) = true := by
  decide +kernel

end Spl.C09
