/-
  C06 — Tokenisation is lossless and follows the SPL lexical grammar.
  Property theorems only (helpers live in Lemmas/Lex.lean).
-/
import SplVerif.Lemmas.LexConform
import SplVerif.Lemmas.Lex

namespace Spl.C06

/-- Core of the tiling theorem: the tokens produced from any suffix `r` at byte offset `o`,
    followed by the final `Eof`, tile `r`. -/
theorem lexGo_tiling : ∀ (n : Nat) (r : List Char) (o : Nat) (ts : List Token),
    r.length ≤ n → lexGo r o 0 = some ts →
    tilingGo (ts ++ [eofToken (o + utf8Len r)]) r o = true := by
  intro n
  induction n with
  | zero =>
    intro r o ts hn h
    have : r = [] := List.eq_nil_of_length_eq_zero (by omega)
    subst this
    simp [lexGo] at h; subst h
    simp [tilingGo, eofToken, skipWsTo_self]
  | succ n ih =>
    intro r o ts hn h
    cases r with
    | nil =>
      simp [lexGo] at h; subst h
      simp [tilingGo, eofToken, skipWsTo_self]
    | cons c cs =>
      by_cases hsp : isSpace c = true
      · -- whitespace
        have h' : lexGo cs (o + c.utf8Size) 0 = some ts := by
          simpa [lexGo, hsp] using h
        have hrec := ih cs (o + c.utf8Size) ts (by simp at hn; omega) h'
        have hlen : o + c.utf8Size + utf8Len cs = o + utf8Len (c :: cs) := by simp [Nat.add_assoc]
        rw [hlen] at hrec
        refine tilingGo_cons_ws (by rw [← isSpace_eq_wsChar]; exact hsp) ?_ hrec
        intro t ht
        cases ts with
        | nil =>
          simp at ht; subst ht
          simp [eofToken]
        | cons t0 ts0 =>
          simp at ht; subst ht
          exact lexGo_lo h' _ (by simp)
      · -- a token
        have hsp' : isSpace c = false := by simpa using hsp
        obtain ⟨out, hout⟩ := lexOne_total c cs
        have hok := lexOne_ok hout
        rw [lexGo_token hsp' hout] at h
        cases hrest : lexGo ((c :: cs).drop out.n) (o + utf8Len ((c :: cs).take out.n)) 0 with
        | none => simp [hrest] at h
        | some ts' =>
          simp [hrest] at h
          subst h
          have hdl : ((c :: cs).drop out.n).length ≤ n := by
            have := hok.pos; have := hok.le
            simp at hn ⊢; omega
          have hrec := ih _ _ ts' hdl hrest
          have hlen : o + utf8Len ((c :: cs).take out.n) + utf8Len ((c :: cs).drop out.n)
              = o + utf8Len (c :: cs) := by
            rw [Nat.add_assoc, utf8Len_take_drop]
          rw [hlen] at hrec
          have hpos := utf8Len_take_pos hok.pos hok.le
          cases hsplit : ts' ++ [eofToken (o + utf8Len (c :: cs))] with
          | nil => simp at hsplit
          | cons t' rest =>
            rw [hsplit] at hrec
            simp only [List.cons_append, hsplit, tilingGo, mkToken, skipWsTo_self,
              takeTo_take _ _ _ hok.le, hrec, Bool.and_true, Bool.and_eq_true, bne_iff_ne, ne_eq,
              decide_eq_true_eq]
            exact ⟨hok.notEof, by omega⟩

/-- **C06, tiling part (all Unicode strings).**  `lex` never fails, and its result is ordered,
    non-overlapping, on character boundaries, with whitespace-only gaps and exactly one final
    `Eof` at the end of the text (the decidable checker `tilingB`, which is also the judge of
    the implementation's output in the correspondence run). -/
theorem lex_tiling (s : List Char) : ∃ ts, lex s = .ok ts ∧ tilingB s ts = true := by
  obtain ⟨ts, hts⟩ := lexGo_total s 0 0
  refine ⟨ts ++ [eofToken (utf8Len s)], by simp [lex, hts], ?_⟩
  have := lexGo_tiling s.length s 0 ts (Nat.le_refl _) hts
  simpa [tilingB] using this

/-- `lex` never panics (the Rust `expect("Lexing must not fail")` is unreachable). -/
theorem lex_total (s : List Char) : ∃ ts, lex s = .ok ts := by
  obtain ⟨ts, h, _⟩ := lex_tiling s; exact ⟨ts, h⟩

/-- Non-vacuity / sanity: a text with 1-, 2-, 3- and 4-byte characters and every token class. -/
example : ∃ ts, lex "if x1 := 0x1F + 'é'; // €😀\n'".toList = .ok ts ∧ ts.length = 10 := by
  refine ⟨_, rfl, ?_⟩ <;> decide

end Spl.C06

namespace Spl.C06

/-- Table obligation (regenerated alternatives): longest match among the fixed spellings —
    no earlier alternative's spelling is a proper prefix of a later one's. -/
theorem symbol_order_ok : SymbolOrderOK = true := by decide

/-- Table obligation: symbols never start like a word, a number, a character literal or
    whitespace, so "keywords only as whole words" and the literal classes are not shadowed. -/
theorem spelling_start_ok : spellingStartOK = true := by decide

end Spl.C06

namespace Spl.C06

/-- **C06, conformance part.**  On every text that the independently written maximal-munch
    specification accepts (`Spec/LexSpec.lean`: at every token start all lexeme classes propose a
    match, the longest wins, a word is a keyword only as a whole word; whitespace is skipped;
    texts containing a malformed literal or a character no lexeme starts with are outside it), the
    model of `lexer::lex` returns exactly the specification's token sequence — same types and
    values, same byte ranges, no lexical errors, one final `Eof`.  No bound on the text. -/
theorem lex_conforms (s : List Char) (ts : List Token) (h : LexSpec.lex s = some ts) :
    lex s = .ok ts := by
  have := Conform.go_conforms (s.length + 1) s 0 ts h
  rw [this]
  simp [lex, lexGo_eq_lexL]

/-- Non-vacuity: the specification accepts a text with every token class. -/
example : (LexSpec.lex "if x1 <= 0x1F // c\n'a'".toList).isSome = true := by decide

end Spl.C06
