/-
  C18 — JSON-RPC/LSP lifecycle conformance and clean termination.  Property theorems only.
-/
import SplVerif.Lemmas.Rpc

namespace Spl.C18
open Spl Spl.Rpc

/-- Table obligation over the regenerated dispatch tables and error codes of `server.rs` /
    `error.rs` (phase-specific error codes, the `initialize`/`shutdown` arms, the set of
    feature methods, the `exit` arm). -/
theorem rpc_table_ok : RpcTableOK = true := by decide

/-- Main-phase request dispatch on an arbitrary method string, case by case. -/
theorem dispatch_supported {m : String} (hm : m ∈ RpcSpec.supported) :
    ∃ f, lookup m Gen.mainRequests = some (.feature f) := by
  have hSup := tSup
  rw [List.all_eq_true] at hSup
  have := hSup m hm
  cases hl : lookup m Gen.mainRequests with
  | none => simp [hl, isFeature] at this
  | some a =>
    cases a with
    | error c => simp [hl, isFeature] at this
    | shutdown => simp [hl, isFeature] at this
    | feature f => exact ⟨f, rfl⟩

theorem dispatch_unknown {m : String} (h1 : m ≠ "initialize") (h2 : m ≠ "shutdown")
    (h3 : m ∉ RpcSpec.supported) :
    (lookup m Gen.mainRequests).getD Gen.mainRequestDefault = .error .MethodNotFound := by
  cases hl : lookup m Gen.mainRequests with
  | none => simp [tDef]
  | some a =>
    have hmem := lookup_some_mem hl
    have hAll := tAll
    rw [List.all_eq_true] at hAll
    have := hAll (m, a) hmem
    simp [h1, h2, h3] at this

/-- Abstraction of a (non-exited) phase to the specification's state. -/
def absSt : Phase → RpcSpec.St
  | .preInit => {}
  | .handshake => { initializeSeen := true }
  | .main => { initializeSeen := true, initializedSeen := true }
  | .shutdown => { initializeSeen := true, initializedSeen := true, shutdownSeen := true }
  | .exited c => { exited := some c }

theorem exited_run (c : Nat) (ms : List CMsg) : runFrom (.exited c) ms = (.exited c, []) := by
  induction ms with
  | nil => rfl
  | cons m ms ih => simp [runFrom, step, ih]

theorem spec_exited (s : RpcSpec.St) (c : Nat) (h : s.exited = some c) (ms : List CMsg) :
    RpcSpec.go s ms = ([], c) := by
  cases ms with
  | nil => simp [RpcSpec.go, h]
  | cons m ms => simp [RpcSpec.go, h]

/-- Simulation: from every phase the model and the specification produce the same responses
    and the same exit status for every continuation. -/
theorem sim (p : Phase) (ms : List CMsg) :
    ((runFrom p ms).2, eofStatus (runFrom p ms).1) = RpcSpec.go (absSt p) ms := by
  have eI := tInit; have eJ := tInitd; have eX := tExit
  have e1 := tC1; have e2 := tC2; have e3 := tC3; have e4 := tC4; have e5 := tC5; have e6 := tC6
  have hNX := tNX; have hNall := tNall
  induction ms generalizing p with
  | nil => cases p <;> simp [runFrom, eofStatus, RpcSpec.go, absSt]
  | cons m ms ih =>
    cases p with
    | exited c =>
      rw [exited_run]; simp [eofStatus, absSt, RpcSpec.go]
    | preInit =>
      cases m with
      | req id meth =>
        by_cases h : meth = "initialize"
        · subst h
          have := ih .handshake
          simp only [runFrom, step, eI, BEq.rfl, if_true, List.cons_append, List.nil_append]
          simp only [RpcSpec.go, absSt, RpcSpec.respond] at this ⊢
          simp [← this]
        · have := ih .preInit
          simp only [runFrom, step, eI, e1]
          simp only [RpcSpec.go, absSt, RpcSpec.respond] at this ⊢
          simp [h, ← this]
      | note meth =>
        by_cases h : meth = "exit"
        · subst h
          simp [runFrom, step, eX, exited_run, eofStatus, RpcSpec.go, absSt, RpcSpec.onNote]
        · have := ih .preInit
          simp only [runFrom, step, eX]
          simp only [RpcSpec.go, absSt, RpcSpec.onNote] at this ⊢
          simp [h, ← this]
    | handshake =>
      cases m with
      | req id meth =>
        have := ih .handshake
        by_cases h : meth = "initialize"
        · subst h
          simp only [runFrom, step, eI, e2, BEq.rfl, if_true]
          simp only [RpcSpec.go, absSt, RpcSpec.respond] at this ⊢
          simp [← this]
        · simp only [runFrom, step, eI, e3]
          simp only [RpcSpec.go, absSt, RpcSpec.respond] at this ⊢
          simp [h, ← this]
      | note meth =>
        by_cases h : meth = "initialized"
        · subst h
          have := ih .main
          simp only [runFrom, step, eJ, BEq.rfl, if_true]
          simp only [RpcSpec.go, absSt, RpcSpec.onNote] at this ⊢
          simp [← this]
        · by_cases h2 : meth = "exit"
          · subst h2
            simp [runFrom, step, eX, eJ, exited_run, eofStatus, RpcSpec.go, absSt, RpcSpec.onNote]
          · have := ih .handshake
            simp only [runFrom, step, eJ, eX]
            simp only [RpcSpec.go, absSt, RpcSpec.onNote] at this ⊢
            simp [h, h2, ← this]
    | main =>
      cases m with
      | req id meth =>
        by_cases h : meth = "initialize"
        · subst h
          have := ih .main
          simp only [runFrom, step, tLI, Option.getD_some, e5]
          simp only [RpcSpec.go, absSt, RpcSpec.respond] at this ⊢
          simp [← this]
        · by_cases h2 : meth = "shutdown"
          · subst h2
            have := ih .shutdown
            simp only [runFrom, step, tLS, Option.getD_some]
            simp only [RpcSpec.go, absSt, RpcSpec.respond] at this ⊢
            simp [← this]
          · by_cases h3 : meth ∈ RpcSpec.supported
            · obtain ⟨f, hl⟩ := dispatch_supported h3
              have := ih .main
              simp only [runFrom, step, hl, Option.getD_some]
              simp only [RpcSpec.go, absSt, RpcSpec.respond] at this ⊢
              simp [h, h2, h3, ← this]
            · have := ih .main
              simp only [runFrom, step, dispatch_unknown h h2 h3, e6]
              simp only [RpcSpec.go, absSt, RpcSpec.respond] at this ⊢
              simp [h, h2, h3, ← this]
      | note meth =>
        by_cases h : meth = "exit"
        · subst h
          simp [runFrom, step, hNX, exited_run, eofStatus, RpcSpec.go, absSt, RpcSpec.onNote]
        · have := ih .main
          have hne : (lookup meth Gen.mainNotifications).getD .drop ≠ .exit := by
            cases hl : lookup meth Gen.mainNotifications with
            | none => simp
            | some a =>
              have hmem := lookup_some_mem hl
              rw [List.all_eq_true] at hNall
              have := hNall (meth, a) hmem
              simp [h] at this
              simpa using this
          have hstep : step .main (.note meth) = (.main, []) := by
            simp only [step]
          simp only [runFrom, hstep]
          simp only [RpcSpec.go, absSt, RpcSpec.onNote] at this ⊢
          simp [h, ← this]
    | shutdown =>
      cases m with
      | req id meth =>
        have := ih .shutdown
        simp only [runFrom, step, e4]
        simp only [RpcSpec.go, absSt, RpcSpec.respond] at this ⊢
        simp [← this]
      | note meth =>
        by_cases h : meth = "exit"
        · subst h
          simp [runFrom, step, eX, exited_run, eofStatus, RpcSpec.go, absSt, RpcSpec.onNote]
        · have := ih .shutdown
          simp only [runFrom, step, eX]
          simp only [RpcSpec.go, absSt, RpcSpec.onNote] at this ⊢
          simp [h, ← this]

/-- **C18 (lifecycle).** For every finite sequence of client requests and notifications,
    followed by end of input, the server model produces exactly the responses (one per
    request, its id, request order, prescribed error codes) and the exit status the
    specification prescribes. -/
theorem responses_conform (ms : List CMsg) : Rpc.run ms = RpcSpec.run ms := by
  have := sim .preInit ms
  simpa [Rpc.run, RpcSpec.run, absSt] using this

/-- Exactly one response per request that is processed before the process exits. -/
theorem one_response_per_request (p : Phase) (m : CMsg) :
    (step p m).2.length = (match p, m with
      | .exited _, _ => 0
      | _, .req _ _ => 1
      | _, .note _ => 0) := by
  cases p <;> cases m <;> simp [step] <;> (repeat' split) <;> simp

/-- End of input terminates the process from every phase: no phase waits on anything but
    input, and the status is 0 unless `exit` decided otherwise. -/
theorem eof_terminates (p : Phase) : eofStatus p = (match p with | .exited c => c | _ => 0) := by
  cases p <;> rfl

end Spl.C18
