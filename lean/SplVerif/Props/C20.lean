/-
  C20 — Ordering, read-your-writes and document isolation under load.
  Property theorems only.
-/
import SplVerif.Model.Net

namespace Spl.C20
open Spl.Net

variable {Uri Text : Type} [DecidableEq Uri]

/-- Table obligation: both channels of `server.rs::run` have capacity ≥ 1 (a zero-capacity
    tokio channel panics at construction; the network theorem is stated for capacities ≥ 1). -/
theorem chan_caps_pos : 1 ≤ Gen.docChanCap ∧ 1 ≤ Gen.ioChanCap := by decide

theorem find_filter_ne (d : Docs Uri Text) (a b : Uri) (h : a ≠ b) :
    (d.filter (fun e => e.1 ≠ a)).find? (fun e => e.1 = b) = d.find? (fun e => e.1 = b) := by
  induction d with
  | nil => rfl
  | cons e es ih =>
    by_cases he : e.1 = a
    · have hb : ¬ e.1 = b := by rw [he]; exact h
      have h1 : decide (e.1 ≠ a) = false := by simp [he]
      have h2 : decide (e.1 = b) = false := by simp [hb]
      rw [List.filter_cons, h1, List.find?_cons, h2]
      simpa using ih
    · have h1 : decide (e.1 ≠ a) = true := by simp [he]
      rw [List.filter_cons, h1]
      simp only [if_true, List.find?_cons]
      cases decide (e.1 = b)
      · exact ih
      · rfl

theorem find_filter_same (d : Docs Uri Text) (a : Uri) :
    (d.filter (fun e => e.1 ≠ a)).find? (fun e => e.1 = a) = none := by
  induction d with
  | nil => rfl
  | cons e es ih =>
    by_cases he : e.1 = a
    · have h1 : decide (e.1 ≠ a) = false := by simp [he]
      rw [List.filter_cons, h1]
      exact ih
    · have h1 : decide (e.1 ≠ a) = true := by simp [he]
      have h2 : decide (e.1 = a) = false := by simp [he]
      rw [List.filter_cons, h1]
      simp only [if_true, List.find?_cons, h2]
      exact ih

/-- **Isolation.** Opening/changing document `a` leaves every other document's entry as it was. -/
theorem set_get_other (d : Docs Uri Text) (a b : Uri) (t : Text) (h : a ≠ b) :
    (d.set a t).get b = d.get b := by
  unfold Docs.set Docs.get Docs.remove
  have hab : decide (a = b) = false := by simp [h]
  rw [List.find?_cons]
  simp only [hab]
  rw [find_filter_ne d a b h]

/-- Read-your-writes at the map level: after a set, the document reads back as written. -/
theorem set_get_same (d : Docs Uri Text) (a : Uri) (t : Text) : (d.set a t).get a = some t := by
  simp [Docs.set, Docs.get]

/-- A closed document is forgotten. -/
theorem remove_get_same (d : Docs Uri Text) (a : Uri) : (d.remove a).get a = none := by
  unfold Docs.remove Docs.get
  rw [find_filter_same]; rfl

/-- Closing `a` leaves the other documents alone. -/
theorem remove_get_other (d : Docs Uri Text) (a b : Uri) (h : a ≠ b) :
    (d.remove a).get b = d.get b := by
  unfold Docs.remove Docs.get
  rw [find_filter_ne d a b h]

end Spl.C20
