/-
  C20 — Ordering, read-your-writes and document isolation under load.
  Property theorems only.
-/
import SplVerif.Model.Net
import SplVerif.Lemmas.NetRefine

namespace Spl.C20
open Spl.Net

variable {Uri Text : Type} [DecidableEq Uri]

/-- Table obligation: both channels of `server.rs::run` have capacity ≥ 1 (a zero-capacity
    tokio channel panics at construction; the network theorem is stated for capacities ≥ 1). -/
theorem chan_caps_pos : 1 ≤ Gen.docChanCap ∧ 1 ≤ Gen.ioChanCap := by decide

theorem find_filter_ne (d : Docs Uri Text) (a b : Uri) (h : a ≠ b) :
    (d.filter (fun e => e.1 ≠ a)).find? (fun e => e.1 = b) = d.find? (fun e => e.1 = b) := by
  induction d with
  | nil => rfl
  | cons e es ih =>
    by_cases he : e.1 = a
    · have hb : ¬ e.1 = b := by rw [he]; exact h
      have h1 : decide (e.1 ≠ a) = false := by simp [he]
      have h2 : decide (e.1 = b) = false := by simp [hb]
      rw [List.filter_cons, h1, List.find?_cons, h2]
      simpa using ih
    · have h1 : decide (e.1 ≠ a) = true := by simp [he]
      rw [List.filter_cons, h1]
      simp only [if_true, List.find?_cons]
      cases decide (e.1 = b)
      · exact ih
      · rfl

theorem find_filter_same (d : Docs Uri Text) (a : Uri) :
    (d.filter (fun e => e.1 ≠ a)).find? (fun e => e.1 = a) = none := by
  induction d with
  | nil => rfl
  | cons e es ih =>
    by_cases he : e.1 = a
    · have h1 : decide (e.1 ≠ a) = false := by simp [he]
      rw [List.filter_cons, h1]
      exact ih
    · have h1 : decide (e.1 ≠ a) = true := by simp [he]
      have h2 : decide (e.1 = a) = false := by simp [he]
      rw [List.filter_cons, h1]
      simp only [if_true, List.find?_cons, h2]
      exact ih

/-- **Isolation.** Opening/changing document `a` leaves every other document's entry as it was. -/
theorem set_get_other (d : Docs Uri Text) (a b : Uri) (t : Text) (h : a ≠ b) :
    (d.set a t).get b = d.get b := by
  unfold Docs.set Docs.get Docs.remove
  have hab : decide (a = b) = false := by simp [h]
  rw [List.find?_cons]
  simp only [hab]
  rw [find_filter_ne d a b h]

/-- Read-your-writes at the map level: after a set, the document reads back as written. -/
theorem set_get_same (d : Docs Uri Text) (a : Uri) (t : Text) : (d.set a t).get a = some t := by
  simp [Docs.set, Docs.get]

/-- A closed document is forgotten. -/
theorem remove_get_same (d : Docs Uri Text) (a : Uri) : (d.remove a).get a = none := by
  unfold Docs.remove Docs.get
  rw [find_filter_same]; rfl

/-- Closing `a` leaves the other documents alone. -/
theorem remove_get_other (d : Docs Uri Text) (a b : Uri) (h : a ≠ b) :
    (d.remove a).get b = d.get b := by
  unfold Docs.remove Docs.get
  rw [find_filter_ne d a b h]

/-! ### the process network against the single-threaded reference -/

section
variable {Chg Req Resp Diag : Type}
variable (f : Fns Uri Text Chg Req Resp Diag) (diagOn : Bool) (docCap ioCap : Nat)

/-- **C20, network refinement.** For every client input, every channel capacity and every
    schedule of the three processes (of any length; choices of blocked processes are skipped):
    if the network has come to rest, what it wrote to the client agrees with the single-threaded
    reference `seqRun` — which applies each notification to the per-URI map and answers each
    request from the map as it is at that point — on
    (i) the whole document-related traffic (diagnostics and feature responses), in order, and
    (ii) all responses, in order.
    Hence responses come in request order, a request after a `didChange` of the same document
    observes the change, diagnostics of one document are published in version order, and (with
    `set_get_other`/`remove_get_other`) traffic on one URI never alters another.
    The only reordering the network allows is of a broker-independent response against
    diagnostics, which `Agree` leaves unconstrained — as the property does. -/
theorem net_refines_seq (input : List (CMsg Uri Text Chg Req Resp)) (sched : List Proc)
    (hfin : isFinal (runSchedule f diagOn docCap ioCap (init input) sched) = true) :
    Agree (runSchedule f diagOn docCap ioCap (init input) sched).out (seqRun f diagOn [] input) := by
  have h := runSchedule_agree f diagOn docCap ioCap (init input) sched (inv_init input)
  have h1 := future_final f diagOn _ h.1 hfin
  have h2 := future_init f diagOn input
  rw [h1, h2] at h
  exact h.2

/-- Prefix form: at **every** point of every schedule the output written so far is a prefix of a
    stream that agrees with the reference (`future`); nothing is ever retracted or invented. -/
theorem net_prefix (input : List (CMsg Uri Text Chg Req Resp)) (sched : List Proc) :
    ∃ rest, Agree ((runSchedule f diagOn docCap ioCap (init input) sched).out ++ rest)
      (seqRun f diagOn [] input) := by
  have h := runSchedule_agree f diagOn docCap ioCap (init input) sched (inv_init input)
  rw [future_init] at h
  exact ⟨_, h.2⟩

/-- **No deadlock.** With both channel capacities ≥ 1 (`chan_caps_pos` for the real values), every
    reachable state that is not at rest has an enabled process. -/
theorem net_no_deadlock (input : List (CMsg Uri Text Chg Req Resp)) (sched : List Proc)
    (hdc : 1 ≤ docCap) (hic : 1 ≤ ioCap)
    (hnf : isFinal (runSchedule f diagOn docCap ioCap (init input) sched) = false) :
    ∃ p, (step f diagOn docCap ioCap (runSchedule f diagOn docCap ioCap (init input) sched) p).isSome = true :=
  progress f diagOn docCap ioCap _
    (runSchedule_agree f diagOn docCap ioCap (init input) sched (inv_init input)).1 hdc hic hnf

/-- **Termination.** Every step of every process strictly decreases `measure`, which starts at
    `6 * input.length`: no schedule takes more than that many effective steps, so together with
    `net_no_deadlock` every schedule that keeps choosing an enabled process comes to rest. -/
theorem net_step_decreases (input : List (CMsg Uri Text Chg Req Resp)) (sched : List Proc) (p : Proc)
    (s' : State Uri Text Chg Req Resp Diag)
    (h : step f diagOn docCap ioCap (runSchedule f diagOn docCap ioCap (init input) sched) p = some s') :
    Net.measure s' < Net.measure (runSchedule f diagOn docCap ioCap (init input) sched) :=
  step_decreases f diagOn docCap ioCap _ s' p
    (runSchedule_agree f diagOn docCap ioCap (init input) sched (inv_init input)).1 h

theorem measure_init (input : List (CMsg Uri Text Chg Req Resp)) :
    Net.measure (init input : State Uri Text Chg Req Resp Diag) = 6 * input.length := by
  simp [Net.measure, init, readerW, brokerW]

end

/-! Non-vacuity: a concrete input and schedule reach rest, with a reordering actually happening
    (the broker-independent response overtakes a diagnostic). -/
section
def exFns : Fns Nat Nat Nat Nat Nat Nat := ⟨fun t c => t + c, fun t => t, fun t r => t.getD 0 + r⟩
def exInput : List (CMsg Nat Nat Nat Nat Nat) :=
  [.open 1 10, .otherReq 1 99, .change 1 5, .docReq 2 1 0, .close 1]
def exSched : List Proc :=
  [.reader, .reader, .broker, .reader, .reader, .responder, .broker, .responder,
   .reader, .reader, .broker, .broker, .responder, .reader, .reader, .broker, .reader, .reader,
   .responder, .reader, .reader, .broker]

example : isFinal (runSchedule exFns true 2 2 (init exInput) exSched) = true := by decide
example : (runSchedule exFns true 2 2 (init exInput) exSched).out.length = 4 := by decide
end

end Spl.C20
