/-
  C17 — Folding ranges match procedure extents.  Property theorems only.
-/
import SplVerif.Model.Features
import SplVerif.Lemmas.FoldPos

namespace Spl.C17
open Spl.Feat

def isProc : Ref GlobalDecl → Bool
  | ⟨.proc _, _⟩ => true
  | _ => false

/-- **One range per procedure declaration, in source order** — for every document on which
    the handler does not fail: type declarations and error nodes produce nothing, every
    procedure declaration exactly one range. -/
theorem fold_one_per_procedure (d : AnalyzedSource) (decls : List (Ref GlobalDecl)) (rs : List (Nat × Nat))
    (h : foldDecls d decls = .ok rs) : rs.length = (decls.filter isProc).length := by
  induction decls generalizing rs with
  | nil => simp [foldDecls] at h; subst h; rfl
  | cons gd rest ih =>
    obtain ⟨v, off⟩ := gd
    cases v with
    | proc pd =>
      simp only [foldDecls] at h
      cases h1 : foldOne d pd off with
      | error e => simp [h1] at h
      | ok r =>
        simp only [h1] at h
        cases h2 : foldDecls d rest with
        | error e => simp [h2] at h
        | ok rs' =>
          simp only [h2] at h
          cases h
          have hp : isProc ⟨.proc pd, off⟩ = true := rfl
          simp [hp, ih rs' h2]
    | type td =>
      simp only [foldDecls] at h
      have hp : isProc ⟨.type td, off⟩ = false := rfl
      simp [hp, ih rs h]
    | error i =>
      simp only [foldDecls] at h
      have hp : isProc ⟨.error i, off⟩ = false := rfl
      simp [hp, ih rs h]

/-- The start of a range is taken after the documentation comments of the procedure. -/
theorem skip_leading_comments_head (ts : List Token) :
    ∀ t, (skipLeadingComments ts).head? = some t → t.kind ≠ .Comment := by
  induction ts with
  | nil => intro t h; simp [skipLeadingComments] at h
  | cons a rest ih =>
    intro t h
    simp only [skipLeadingComments] at h
    split at h
    · exact ih t h
    · rename_i hk
      simp at h; subst h
      simpa using hk

/-! ### well-formed ranges -/

theorem skipLeadingComments_suffix (ts : List Token) : skipLeadingComments ts <:+ ts := by
  induction ts with
  | nil => simp [skipLeadingComments]
  | cons a rest ih =>
    simp only [skipLeadingComments]
    split
    · exact List.IsSuffix.trans ih (List.suffix_cons a rest)
    · exact List.suffix_refl _

theorem slice_toList_sublist (s : Slice) : s.toList.Sublist s.toks.toList := by
  simp only [Slice.toList, Array.toList_extract, List.extract_eq_take_drop]
  exact List.Sublist.trans (List.take_sublist _ _) (List.drop_sublist _ _)

/-- **Every folding range is well-formed: it starts on or before the line it ends on** — for
    every document whose token vector is the tokenisation of its text (which `AnalyzedSource::new`
    and, by C07, every `update` guarantee), whatever the tree looks like. -/
theorem fold_start_le_end (d : AnalyzedSource) (hinv : lex d.text = .ok d.tokens)
    (pd : ProcDecl) (offset : Nat) (r : Nat × Nat) (h : foldOne d pd offset = .ok r) : r.1 ≤ r.2 := by
  unfold foldOne at h
  cases hs : (allTokens d).sub (pd.info.range.shift offset) with
  | none => simp [hs] at h
  | some s =>
    simp only [hs, Except.ok.injEq] at h
    subst h
    have hsub : (skipLeadingComments s.toList).Sublist d.tokens := by
      have h1 : (skipLeadingComments s.toList).Sublist s.toList := (skipLeadingComments_suffix _).sublist
      have h2 := slice_toList_sublist s
      have h3 : s.toks = d.tokens.toArray := by
        simp only [allTokens, Slice.full, Slice.sub] at hs
        by_cases hc : (pd.info.range.shift offset).lo ≤ (pd.info.range.shift offset).hi ∧
            0 + (pd.info.range.shift offset).hi ≤ d.tokens.toArray.size
        · simp only [hc, and_self, if_true, Option.some.injEq] at hs
          rw [← hs]
        · simp only [hc, if_false] at hs
          cases hs
      rw [h3] at h2
      exact h1.trans (by simpa using h2)
    obtain ⟨hpw, hle⟩ := FoldPos.tokens_ordered d.text d.tokens hinv
    have hpw' := List.Pairwise.sublist hsub hpw
    cases hts : skipLeadingComments s.toList with
    | nil => simp [asPosRange]
    | cons f xs =>
      rw [hts] at hsub hpw'
      cases hl : (f :: xs).getLast? with
      | none => simp at hl
      | some l =>
        simp only [List.head?_cons, hl, asPosRange]
        -- f starts no later than l ends
        have hfl : f.range.lo ≤ l.range.hi := by
          cases xs with
          | nil =>
            simp only [List.getLast?_singleton, Option.some.injEq] at hl
            subst hl
            exact hle f (hsub.subset (by simp))
          | cons y ys =>
            rw [List.pairwise_cons] at hpw'
            have hmem : l ∈ y :: ys := by
              rw [List.getLast?_cons_cons] at hl
              exact List.mem_of_getLast? hl
            exact hpw'.1 l hmem
        have hf : f ∈ d.tokens := hsub.subset (by simp)
        have hlm : l ∈ d.tokens := hsub.subset (List.mem_of_getLast? hl)
        obtain ⟨⟨a1, b1, e1, p1⟩, _⟩ := FoldPos.token_bounds_are_cuts d.text d.tokens hinv f hf
        obtain ⟨_, ⟨a2, b2, e2, p2⟩⟩ := FoldPos.token_bounds_are_cuts d.text d.tokens hinv l hlm
        obtain ⟨m, hm1, hm2⟩ := split_prefix (e1.symm.trans e2) (by omega)
        have := FoldPos.asPosition_line_mono a1 m b2
        rw [← p1, ← p2, hm1]
        have et : d.text = a1 ++ (m ++ b2) := by rw [e2, hm1, List.append_assoc]
        rw [et]
        exact this

/-- … hence every range the folding handler returns is well-formed. -/
theorem fold_wellformed (d : AnalyzedSource) (hinv : lex d.text = .ok d.tokens)
    (decls : List (Ref GlobalDecl)) (rs : List (Nat × Nat)) (h : foldDecls d decls = .ok rs) :
    ∀ r ∈ rs, r.1 ≤ r.2 := by
  induction decls generalizing rs with
  | nil => simp [foldDecls] at h; subst h; intro r hr; cases hr
  | cons gd rest ih =>
    obtain ⟨v, off⟩ := gd
    cases v with
    | proc pd =>
      simp only [foldDecls] at h
      cases h1 : foldOne d pd off with
      | error e => simp [h1] at h
      | ok r0 =>
        simp only [h1] at h
        cases h2 : foldDecls d rest with
        | error e => simp [h2] at h
        | ok rs' =>
          simp only [h2] at h
          cases h
          intro r hr
          simp only [List.mem_cons] at hr
          rcases hr with rfl | hr
          · exact fold_start_le_end d hinv pd off r h1
          · exact ih rs' h2 r hr
    | type td => simp only [foldDecls] at h; exact ih rs h
    | error i => simp only [foldDecls] at h; exact ih rs h

end Spl.C17
