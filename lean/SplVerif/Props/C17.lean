/-
  C17 — Folding ranges match procedure extents.  Property theorems only.
-/
import SplVerif.Model.Features
import SplVerif.Lemmas.FoldPos
import SplVerif.Lemmas.Extents

namespace Spl.C17
open Spl.Feat

def isProc : Ref GlobalDecl → Bool
  | ⟨.proc _, _⟩ => true
  | _ => false

/-- **One range per procedure declaration, in source order** — for every document on which
    the handler does not fail: type declarations and error nodes produce nothing, every
    procedure declaration exactly one range. -/
theorem fold_one_per_procedure (d : AnalyzedSource) (decls : List (Ref GlobalDecl)) (rs : List (Nat × Nat))
    (h : foldDecls d decls = .ok rs) : rs.length = (decls.filter isProc).length := by
  induction decls generalizing rs with
  | nil => simp [foldDecls] at h; subst h; rfl
  | cons gd rest ih =>
    obtain ⟨v, off⟩ := gd
    cases v with
    | proc pd =>
      simp only [foldDecls] at h
      cases h1 : foldOne d pd off with
      | error e => simp [h1] at h
      | ok r =>
        simp only [h1] at h
        cases h2 : foldDecls d rest with
        | error e => simp [h2] at h
        | ok rs' =>
          simp only [h2] at h
          cases h
          have hp : isProc ⟨.proc pd, off⟩ = true := rfl
          simp [hp, ih rs' h2]
    | type td =>
      simp only [foldDecls] at h
      have hp : isProc ⟨.type td, off⟩ = false := rfl
      simp [hp, ih rs h]
    | error i =>
      simp only [foldDecls] at h
      have hp : isProc ⟨.error i, off⟩ = false := rfl
      simp [hp, ih rs h]

/-- The start of a range is taken after the documentation comments of the procedure. -/
theorem skip_leading_comments_head (ts : List Token) :
    ∀ t, (skipLeadingComments ts).head? = some t → t.kind ≠ .Comment := by
  induction ts with
  | nil => intro t h; simp [skipLeadingComments] at h
  | cons a rest ih =>
    intro t h
    simp only [skipLeadingComments] at h
    split at h
    · exact ih t h
    · rename_i hk
      simp at h; subst h
      simpa using hk

/-! ### well-formed ranges -/

theorem skipLeadingComments_suffix (ts : List Token) : skipLeadingComments ts <:+ ts := by
  induction ts with
  | nil => simp [skipLeadingComments]
  | cons a rest ih =>
    simp only [skipLeadingComments]
    split
    · exact List.IsSuffix.trans ih (List.suffix_cons a rest)
    · exact List.suffix_refl _

theorem slice_toList_sublist (s : Slice) : s.toList.Sublist s.toks.toList := by
  simp only [Slice.toList, Array.toList_extract, List.extract_eq_take_drop]
  exact List.Sublist.trans (List.take_sublist _ _) (List.drop_sublist _ _)

/-- **Every folding range is well-formed: it starts on or before the line it ends on** — for
    every document whose token vector is the tokenisation of its text (which `AnalyzedSource::new`
    and, by C07, every `update` guarantee), whatever the tree looks like. -/
theorem fold_start_le_end (d : AnalyzedSource) (hinv : lex d.text = .ok d.tokens)
    (pd : ProcDecl) (offset : Nat) (r : Nat × Nat) (h : foldOne d pd offset = .ok r) : r.1 ≤ r.2 := by
  unfold foldOne at h
  cases hs : (allTokens d).sub (pd.info.range.shift offset) with
  | none => simp [hs] at h
  | some s =>
    simp only [hs, Except.ok.injEq] at h
    subst h
    have hsub : (skipLeadingComments s.toList).Sublist d.tokens := by
      have h1 : (skipLeadingComments s.toList).Sublist s.toList := (skipLeadingComments_suffix _).sublist
      have h2 := slice_toList_sublist s
      have h3 : s.toks = d.tokens.toArray := by
        simp only [allTokens, Slice.full, Slice.sub] at hs
        by_cases hc : (pd.info.range.shift offset).lo ≤ (pd.info.range.shift offset).hi ∧
            0 + (pd.info.range.shift offset).hi ≤ d.tokens.toArray.size
        · simp only [hc, and_self, if_true, Option.some.injEq] at hs
          rw [← hs]
        · simp only [hc, if_false] at hs
          cases hs
      rw [h3] at h2
      exact h1.trans (by simpa using h2)
    obtain ⟨hpw, hle⟩ := FoldPos.tokens_ordered d.text d.tokens hinv
    have hpw' := List.Pairwise.sublist hsub hpw
    cases hts : skipLeadingComments s.toList with
    | nil => simp [asPosRange]
    | cons f xs =>
      rw [hts] at hsub hpw'
      cases hl : (f :: xs).getLast? with
      | none => simp at hl
      | some l =>
        simp only [List.head?_cons, hl, asPosRange]
        -- f starts no later than l ends
        have hfl : f.range.lo ≤ l.range.hi := by
          cases xs with
          | nil =>
            simp only [List.getLast?_singleton, Option.some.injEq] at hl
            subst hl
            exact hle f (hsub.subset (by simp))
          | cons y ys =>
            rw [List.pairwise_cons] at hpw'
            have hmem : l ∈ y :: ys := by
              rw [List.getLast?_cons_cons] at hl
              exact List.mem_of_getLast? hl
            exact hpw'.1 l hmem
        have hf : f ∈ d.tokens := hsub.subset (by simp)
        have hlm : l ∈ d.tokens := hsub.subset (List.mem_of_getLast? hl)
        obtain ⟨⟨a1, b1, e1, p1⟩, _⟩ := FoldPos.token_bounds_are_cuts d.text d.tokens hinv f hf
        obtain ⟨_, ⟨a2, b2, e2, p2⟩⟩ := FoldPos.token_bounds_are_cuts d.text d.tokens hinv l hlm
        obtain ⟨m, hm1, hm2⟩ := split_prefix (e1.symm.trans e2) (by omega)
        have := FoldPos.asPosition_line_mono a1 m b2
        rw [← p1, ← p2, hm1]
        have et : d.text = a1 ++ (m ++ b2) := by rw [e2, hm1, List.append_assoc]
        rw [et]
        exact this

/-- … hence every range the folding handler returns is well-formed. -/
theorem fold_wellformed (d : AnalyzedSource) (hinv : lex d.text = .ok d.tokens)
    (decls : List (Ref GlobalDecl)) (rs : List (Nat × Nat)) (h : foldDecls d decls = .ok rs) :
    ∀ r ∈ rs, r.1 ≤ r.2 := by
  induction decls generalizing rs with
  | nil => simp [foldDecls] at h; subst h; intro r hr; cases hr
  | cons gd rest ih =>
    obtain ⟨v, off⟩ := gd
    cases v with
    | proc pd =>
      simp only [foldDecls] at h
      cases h1 : foldOne d pd off with
      | error e => simp [h1] at h
      | ok r0 =>
        simp only [h1] at h
        cases h2 : foldDecls d rest with
        | error e => simp [h2] at h
        | ok rs' =>
          simp only [h2] at h
          cases h
          intro r hr
          simp only [List.mem_cons] at hr
          rcases hr with rfl | hr
          · exact fold_start_le_end d hinv pd off r h1
          · exact ih rs' h2 r hr
    | type td => simp only [foldDecls] at h; exact ih rs h
    | error i => simp only [foldDecls] at h; exact ih rs h


/-- **Every folding range lies inside the document**: it ends no later than the last line of the
    text — for every document whose token vector is the tokenisation of its text. -/
theorem fold_end_inside (d : AnalyzedSource) (hinv : lex d.text = .ok d.tokens)
    (pd : ProcDecl) (offset : Nat) (r : Nat × Nat) (h : foldOne d pd offset = .ok r) :
    r.2 ≤ (asPosition (utf8Len d.text) d.text).line := by
  unfold foldOne at h
  cases hs : (allTokens d).sub (pd.info.range.shift offset) with
  | none => simp [hs] at h
  | some s =>
    simp only [hs, Except.ok.injEq] at h
    subst h
    have hsub : (skipLeadingComments s.toList).Sublist d.tokens := by
      have h1 : (skipLeadingComments s.toList).Sublist s.toList := (skipLeadingComments_suffix _).sublist
      have h2 := slice_toList_sublist s
      have h3 : s.toks = d.tokens.toArray := by
        simp only [allTokens, Slice.full, Slice.sub] at hs
        by_cases hc : (pd.info.range.shift offset).lo ≤ (pd.info.range.shift offset).hi ∧
            0 + (pd.info.range.shift offset).hi ≤ d.tokens.toArray.size
        · simp only [hc, and_self, if_true, Option.some.injEq] at hs
          rw [← hs]
        · simp only [hc, if_false] at hs
          cases hs
      rw [h3] at h2
      exact h1.trans (by simpa using h2)
    cases hts : skipLeadingComments s.toList with
    | nil =>
      have := FoldPos.asPosition_line_mono [] d.text []
      simpa [asPosRange] using this
    | cons f xs =>
      rw [hts] at hsub
      cases hl : (f :: xs).getLast? with
      | none => simp at hl
      | some l =>
        simp only [List.head?_cons, asPosRange]
        have hlm : l ∈ d.tokens := hsub.subset (List.mem_of_getLast? hl)
        obtain ⟨_, ⟨a2, b2, e2, p2⟩⟩ := FoldPos.token_bounds_are_cuts d.text d.tokens hinv l hlm
        have := FoldPos.asPosition_line_mono a2 b2 []
        rw [← p2]
        have et : d.text = a2 ++ (b2 ++ []) := by simpa using e2
        have el : utf8Len d.text = utf8Len (a2 ++ b2) := by rw [e2]
        rw [el, et]
        exact this

/-! ### the exact ranges of valid programs -/

open Spl.ParseConform in
/-- `FoldsAre A text es rs`: `rs` lists, for every extent `(i, k)` of `es` in order, the line on
    which token `i` starts and the line on which token `k` ends -/
inductive FoldsAre (A : Array Token) (text : List Char) : List (Nat × Nat) → List (Nat × Nat) → Prop
  | nil : FoldsAre A text [] []
  | cons (i k : Nat) (tp tb : Token) (es rs : List (Nat × Nat)) :
      A[i]? = some tp → A[k]? = some tb → FoldsAre A text es rs →
      FoldsAre A text ((i, k) :: es)
        (((asPosition tp.range.lo text).line, (asPosition tb.range.hi text).line) :: rs)

theorem drop_take_cons (l : List Token) (p hi : Nat) (t : Token) (h : l[p]? = some t) (hp : p < hi) :
    (l.take hi).drop p = t :: (l.take hi).drop (p + 1) := by
  have hlt : p < l.length := (List.getElem?_eq_some_iff.mp h).1
  have hl : p < (l.take hi).length := by simp; omega
  rw [List.drop_eq_getElem_cons hl]
  congr 1
  rw [List.getElem_take]
  exact (List.getElem?_eq_some_iff.mp h).2

/-- skipping the comment run in front of the first own token -/
theorem skip_run (l : List Token) (hi : Nat) : ∀ (n p i : Nat), i - p = n → p ≤ i → i < hi →
    (∀ q, p ≤ q → q < i → ∃ t, l[q]? = some t ∧ t.kind = .Comment) →
    (∃ t, l[i]? = some t ∧ t.kind ≠ .Comment) →
    skipLeadingComments ((l.take hi).drop p) = (l.take hi).drop i
  | 0, p, i, hn, hle, hhi, _, ⟨t, ht, hk⟩ => by
    have : i = p := by omega
    subst this
    rw [drop_take_cons l i hi t ht hhi]
    have : (t.kind == Kind.Comment) = false := by simpa using hk
    simp [skipLeadingComments, this]
  | n + 1, p, i, hn, hle, hhi, hc, htok => by
    obtain ⟨t, ht, hk⟩ := hc p (Nat.le_refl _) (by omega)
    rw [drop_take_cons l p hi t ht (by omega)]
    have : (t.kind == Kind.Comment) = true := by simpa using hk
    simp only [skipLeadingComments, this, if_true]
    exact skip_run l hi n (p + 1) i (by omega) (by omega) hhi (fun q a b => hc q (by omega) b) htok

open Spl.ParseConform in
/-- one procedure: the handler's range starts on the line of the `proc` keyword and ends on the
    line of the closing brace -/
theorem foldOne_exact (d : AnalyzedSource) (p i k : Nat) (pd : ProcDecl) (tp tb : Token)
    (hN : Next d.tokens.toArray p i) (hi : d.tokens.toArray[i]? = some tp) (hik : i < k)
    (hk : d.tokens.toArray[k]? = some tb) (hr : pd.info.range = ⟨0, k + 1 - p⟩) :
    foldOne d pd p = .ok ((asPosition tp.range.lo d.text).line, (asPosition tb.range.hi d.text).line) := by
  have hpi := hN.le
  have hksz : k < d.tokens.length := by
    have := (Array.getElem?_eq_some_iff.mp hk).1
    simpa using this
  have hsub : (allTokens d).sub (pd.info.range.shift p) = some ⟨d.tokens.toArray, p, k + 1⟩ := by
    simp only [allTokens, Slice.full, Slice.sub, hr, Range.shift]
    have h1 : 0 + p ≤ k + 1 - p + p ∧ 0 + (k + 1 - p + p) ≤ d.tokens.toArray.size := by
      simp; omega
    simp only [h1, and_self, if_true, Option.some.injEq, Slice.mk.injEq, true_and]
    omega
  have hl : ∀ q : Nat, d.tokens.toArray[q]? = d.tokens[q]? := by intro q; simp
  have hskip : skipLeadingComments (Slice.toList ⟨d.tokens.toArray, p, k + 1⟩) = (d.tokens.take (k + 1)).drop i := by
    simp only [Slice.toList, Array.toList_extract, List.extract_eq_take_drop]
    have e : (List.take (k + 1 - p) (List.drop p d.tokens)) = (d.tokens.take (k + 1)).drop p := by
      rw [List.drop_take]
    rw [e]
    refine skip_run d.tokens (k + 1) (i - p) p i rfl hpi (by omega) ?_ ?_
    · intro q a b
      obtain ⟨t, ht, hk⟩ := hN.cmts q a b
      exact ⟨t, by rw [← hl]; exact ht, hk⟩
    · obtain ⟨t, ht, hk⟩ := hN.tok
      exact ⟨t, by rw [← hl]; exact ht, hk⟩
  have hhead : ((d.tokens.take (k + 1)).drop i).head? = some tp := by
    rw [drop_take_cons d.tokens i (k + 1) tp (by rw [← hl]; exact hi) (by omega)]
    rfl
  have hlast : ((d.tokens.take (k + 1)).drop i).getLast? = some tb := by
    rw [List.getLast?_eq_getElem?]
    have hlen : ((d.tokens.take (k + 1)).drop i).length = k + 1 - i := by simp; omega
    rw [hlen, List.getElem?_drop, List.getElem?_take]
    have : i + (k + 1 - i - 1) = k := by omega
    rw [this]
    simp only [Nat.lt_add_one, if_true]
    rw [← hl]; exact hk
  simp only [foldOne, hsub, hskip, hhead, hlast, asPosRange]

open Spl.ParseConform in
/-- the handler on declarations that tile the token sequence -/
theorem foldDecls_exact (d : AnalyzedSource) : ∀ (p : Nat) (ds : List (Ref GlobalDecl)) (es : List (Nat × Nat)),
    Tiling d.tokens.toArray p ds es →
    ∃ rs, foldDecls d ds = .ok rs ∧ FoldsAre d.tokens.toArray d.text es rs := by
  intro p ds es h
  induction h with
  | nil p => exact ⟨[], rfl, FoldsAre.nil⟩
  | type p i k td rest es _ _ _ _ _ _ ih =>
    obtain ⟨rs, h1, h2⟩ := ih
    exact ⟨rs, by simp only [foldDecls, h1], h2⟩
  | proc p i k pd rest es hN hi hik hk hr _ ih =>
    obtain ⟨rs, h1, h2⟩ := ih
    obtain ⟨tp, htp, _⟩ := hi
    obtain ⟨tb, htb, _⟩ := hk
    refine ⟨_ :: rs, ?_, FoldsAre.cons i k tp tb es rs htp htb h2⟩
    simp only [foldDecls, foldOne_exact d p i k pd tp tb hN htp hik htb hr, h1]

open Spl.ParseConform in
/-- **Exact folding ranges of valid programs, in any layout.**  If the grammar specification
    derives the document's program from its tokens (comments anywhere, any white space), the
    handler returns exactly one range per procedure declaration, in source order (`Tiling`:
    the declarations lie one behind the other, `es` are the indices of each procedure's `proc`
    keyword — the first token behind its documentation comments — and of its closing brace);
    each range starts on the line on which that `proc` keyword starts and ends on the line on
    which that closing brace ends. -/
theorem fold_exact (d : AnalyzedSource) (hp : Grammar.parse d.tokens = some d.ast) :
    ∃ es rs, Tiling d.tokens.toArray 0 d.ast.decls es ∧ fold d = .ok rs ∧
      FoldsAre d.tokens.toArray d.text es rs := by
  obtain ⟨es, ht⟩ := parse_tiling d.tokens d.ast hp
  obtain ⟨rs, h1, h2⟩ := foldDecls_exact d 0 d.ast.decls es ht
  exact ⟨es, rs, ht, h1, h2⟩

/-- every range of `FoldsAre` belongs to an extent -/
theorem foldsAre_mem (A : Array Token) (text : List Char) (es rs : List (Nat × Nat)) (h : FoldsAre A text es rs) :
    ∀ r ∈ rs, ∃ e ∈ es, ∃ tp tb, A[e.1]? = some tp ∧ A[e.2]? = some tb ∧
      r = ((asPosition tp.range.lo text).line, (asPosition tb.range.hi text).line) := by
  induction h with
  | nil => intro r hr; cases hr
  | cons i k tp tb es rs h1 h2 _ ih =>
    intro r hr
    rcases List.mem_cons.mp hr with rfl | hr
    · exact ⟨(i, k), by simp, tp, tb, h1, h2, rfl⟩
    · obtain ⟨e, he, x⟩ := ih r hr
      exact ⟨e, List.mem_cons_of_mem _ he, x⟩

/-- the line of a token that lies behind another one is not smaller -/
theorem line_mono_tokens (d : AnalyzedSource) (hinv : lex d.text = .ok d.tokens) (a b : Nat) (ta tb : Token)
    (ha : d.tokens[a]? = some ta) (hb : d.tokens[b]? = some tb) (hab : a < b) :
    (asPosition ta.range.hi d.text).line ≤ (asPosition tb.range.lo d.text).line := by
  have hs := FoldPos.tokens_sorted d.text d.tokens hinv
  obtain ⟨ha1, ha2⟩ := List.getElem?_eq_some_iff.mp ha
  obtain ⟨hb1, hb2⟩ := List.getElem?_eq_some_iff.mp hb
  have hle : ta.range.hi ≤ tb.range.lo := by
    have := List.pairwise_iff_getElem.mp hs a b ha1 hb1 hab
    rw [ha2, hb2] at this
    exact this
  have hma : ta ∈ d.tokens := by rw [← ha2]; exact List.getElem_mem _
  have hmb : tb ∈ d.tokens := by rw [← hb2]; exact List.getElem_mem _
  obtain ⟨_, ⟨a1, b1, e1, p1⟩⟩ := FoldPos.token_bounds_are_cuts d.text d.tokens hinv ta hma
  obtain ⟨⟨a2, b2, e2, p2⟩, _⟩ := FoldPos.token_bounds_are_cuts d.text d.tokens hinv tb hmb
  obtain ⟨m, hm1, hm2⟩ := split_prefix (e1.symm.trans e2) (by omega)
  have := FoldPos.asPosition_line_mono a1 m b2
  rw [← p1, ← p2, hm1]
  have et : d.text = a1 ++ (m ++ b2) := by rw [e2, hm1, List.append_assoc]
  rw [et]
  exact this

open Spl.ParseConform in
/-- **The ranges of a valid program come in source order and do not overlap**: every range ends
    no later than the line on which the next one starts (two procedures on one line share that
    line; no range reaches beyond the start line of a later one). -/
theorem fold_ordered (d : AnalyzedSource) (hinv : lex d.text = .ok d.tokens)
    (hp : Grammar.parse d.tokens = some d.ast) (rs : List (Nat × Nat)) (h : fold d = .ok rs) :
    rs.Pairwise (fun a b => a.2 ≤ b.1) := by
  obtain ⟨es, rs', ht, h1, h2⟩ := fold_exact d hp
  rw [h] at h1
  cases h1
  have hso := (tiling_sorted _ _ _ _ ht).2
  clear ht h
  induction h2 with
  | nil => exact List.Pairwise.nil
  | cons i k tp tb es rs h1 h2 hfa ih =>
    rw [List.pairwise_cons] at hso ⊢
    refine ⟨?_, ih hso.2⟩
    intro r hr
    obtain ⟨e, he, tp', tb', g1, g2, rfl⟩ := foldsAre_mem _ _ _ _ hfa r hr
    have hlt : k < e.1 := hso.1 e he
    exact line_mono_tokens d hinv k e.1 tb tp' (by simpa using h2) (by simpa using g1) hlt

/-- Non-vacuity: a document with a documentation comment, two procedures and a type declaration
    is derived by the grammar specification (so that, by C04.parse_conforms, its tree is that
    derivation and `fold_exact` applies), and its ranges are the ones the theorem describes. -/
example :
    (match AnalyzedSource.new "// doc\nproc a() {\n}\ntype t = int;\nproc b() {\n  // c\n}".toList with
     | .ok d => (Grammar.parse d.tokens).isSome &&
         (match fold d with
          | .ok rs => rs == [(1, 2), (4, 6)]
          | .error _ => false)
     | .error _ => false) = true := by
  decide +kernel

end Spl.C17
