/-
  C17 — Folding ranges match procedure extents.  Property theorems only.
-/
import SplVerif.Model.Features

namespace Spl.C17
open Spl.Feat

def isProc : Ref GlobalDecl → Bool
  | ⟨.proc _, _⟩ => true
  | _ => false

/-- **One range per procedure declaration, in source order** — for every document on which
    the handler does not fail: type declarations and error nodes produce nothing, every
    procedure declaration exactly one range. -/
theorem fold_one_per_procedure (d : AnalyzedSource) (decls : List (Ref GlobalDecl)) (rs : List (Nat × Nat))
    (h : foldDecls d decls = .ok rs) : rs.length = (decls.filter isProc).length := by
  induction decls generalizing rs with
  | nil => simp [foldDecls] at h; subst h; rfl
  | cons gd rest ih =>
    obtain ⟨v, off⟩ := gd
    cases v with
    | proc pd =>
      simp only [foldDecls] at h
      cases h1 : foldOne d pd off with
      | error e => simp [h1] at h
      | ok r =>
        simp only [h1] at h
        cases h2 : foldDecls d rest with
        | error e => simp [h2] at h
        | ok rs' =>
          simp only [h2] at h
          cases h
          have hp : isProc ⟨.proc pd, off⟩ = true := rfl
          simp [hp, ih rs' h2]
    | type td =>
      simp only [foldDecls] at h
      have hp : isProc ⟨.type td, off⟩ = false := rfl
      simp [hp, ih rs h]
    | error i =>
      simp only [foldDecls] at h
      have hp : isProc ⟨.error i, off⟩ = false := rfl
      simp [hp, ih rs h]

/-- The start of a range is taken after the documentation comments of the procedure. -/
theorem skip_leading_comments_head (ts : List Token) :
    ∀ t, (skipLeadingComments ts).head? = some t → t.kind ≠ .Comment := by
  induction ts with
  | nil => intro t h; simp [skipLeadingComments] at h
  | cons a rest ih =>
    intro t h
    simp only [skipLeadingComments] at h
    split at h
    · exact ih t h
    · rename_i hk
      simp at h; subst h
      simpa using hk

end Spl.C17
