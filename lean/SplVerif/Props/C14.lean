/-
  C14 — Hover and signature help tell the truth about declarations.  Property theorems only.
-/
import SplVerif.Model.Features

namespace Spl.C14
open Spl.Feat

/-- **The hover range is exactly the identifier's range** and the content is the rendered
    entry the identifier is looked up to (procedure context: own name → procedure, else locals
    before globals). -/
theorem hover_range_is_identifier (d : AnalyzedSource) (p : Pos) (c : Cursor) (ident : Ident)
    (pe : ProcedureEntry) (e : Entry)
    (hc : docCursor d p = .ok c) (hi : c.ident = some ident) (hx : c.context = some (.procedure pe))
    (hl : lookupIdent d pe ident = .ok (some e)) :
    hover d p = .ok (some (asPosRange ident.range d.text, createHover e)) := by
  simp [hover, hc, hi, hx, hl]

/-- The active parameter is the number of commas among the call's tokens that start before the
    cursor — `none` when the callee has no parameters. -/
theorem active_param_counts_commas (n : Nat) (toks : List Token) (idx : Nat) (hn : n ≠ 0) :
    activeParam n toks idx = some (activeParam.go idx toks 0) := by
  unfold activeParam
  have : (n == 0) = false := by simpa using hn
  simp [this]

theorem active_param_none (toks : List Token) (idx : Nat) : activeParam 0 toks idx = none := by
  simp [activeParam]

/-- Commas at or after the cursor are not counted. -/
theorem active_go_stops (idx : Nat) (t : Token) (rest : List Token) (k : Nat) (h : t.range.lo ≥ idx) :
    activeParam.go idx (t :: rest) k = k := by
  simp [activeParam.go, h]

/-- Signatures: reference marker, name, fully resolved type; procedures list their parameters. -/
example : varEntryStr ⟨⟨"a".toList, ⟨⟨0, 1⟩, []⟩⟩, true, some (.array (some 3) .int "t".toList), ⟨0, 0⟩, none⟩
    = "ref a: array [3] of int".toList := by decide

end Spl.C14
