/-
  C14 — Hover and signature help tell the truth about declarations.  Property theorems only.
-/
import SplVerif.Model.Features
import SplVerif.Lemmas.ScopeExact

namespace Spl.C14
open Spl.Feat

/-- **The hover range is exactly the identifier's range** and the content is the rendered
    entry the identifier is looked up to (procedure context: own name → procedure, else locals
    before globals). -/
theorem hover_range_is_identifier (d : AnalyzedSource) (p : Pos) (c : Cursor) (ident : Ident)
    (pe : ProcedureEntry) (e : Entry)
    (hc : docCursor d p = .ok c) (hi : c.ident = some ident) (hx : c.context = some (.procedure pe))
    (hl : lookupIdent d pe ident = .ok (some e)) :
    hover d p = .ok (some (asPosRange ident.range d.text, createHover e)) := by
  simp [hover, hc, hi, hx, hl]

/-- The active parameter is the number of commas among the call's tokens that start before the
    cursor — `none` when the callee has no parameters. -/
theorem active_param_counts_commas (n : Nat) (toks : List Token) (idx : Nat) (hn : n ≠ 0) :
    activeParam n toks idx = some (activeParam.go idx toks 0) := by
  unfold activeParam
  have : (n == 0) = false := by simpa using hn
  simp [this]

theorem active_param_none (toks : List Token) (idx : Nat) : activeParam 0 toks idx = none := by
  simp [activeParam]

/-- Commas at or after the cursor are not counted. -/
theorem active_go_stops (idx : Nat) (t : Token) (rest : List Token) (k : Nat) (h : t.range.lo ≥ idx) :
    activeParam.go idx (t :: rest) k = k := by
  simp [activeParam.go, h]

/-- Signatures: reference marker, name, fully resolved type; procedures list their parameters. -/
example : varEntryStr ⟨⟨"a".toList, ⟨⟨0, 1⟩, []⟩⟩, true, some (.array (some 3) .int "t".toList), ⟨0, 0⟩, none⟩
    = "ref a: array [3] of int".toList := by decide

section
open Spl Spl.Feat Spl.Typing Spl.TypingSound Spl.ScopeExact

/-- how a resolved type of the typing specification is rendered: the structural embedding of the specification's
    types into the implementation's (`conv`: `int`, `boolean`, `array [n] of <element>` with its creator), printed by
    the model of `Display for DataType` -/
def tyStr (t : Ty) : List Char := dataTypeStr (conv t)

/- non-vacuity of the hypothesis `wellTyped p = true`: the kernel-evaluated examples of Props/C03.lean (`specVerdict … = some true`
   for a program with a type declaration, a procedure with reference and value parameters and `main`). -/
/-- **Hover tells the truth about types and about the types of variables and parameters.**  For every program the typing
    specification accepts, with the table `build` returns: the entry found under a declared type name renders as that
    type FULLY RESOLVED by the specification (aliases followed to `int` / `array [n] of …`), and every entry of a
    procedure's local table — found under the name of one of its parameters or variables, in declaration order —
    carries the resolved type of that parameter or variable. -/
theorem hover_types_truthful (p : Program) (h : wellTyped p = true) :
    ∃ table g, build p = .ok (p, table) ∧ declare predefined p.decls = some g ∧
      (∀ n t, g.find n = some (.type n t) →
        ∃ te, tblLookup table n = some (.type te) ∧ entryStr (.type te) = tyStr t) ∧
      (∀ n sig, g.find n = some (.proc sig) → (predefined.find n).isSome = false →
        ∃ pe, tblLookup table n = some (.procedure pe) ∧
          pe.localTable.map (fun kv => (kv.1, optTypeStr kv.2.entry.dataType)) =
            (sig.params ++ sig.locals).map (fun v => (v.name, tyStr v.ty))) := by
  obtain ⟨g, tf, hd, hc, hb⟩ := build_corr p h
  refine ⟨tf, g, hb, hd, ?_, ?_⟩
  · intro n t hf
    rcases corr_find hc n with ⟨a, _, _⟩ | ⟨e, v, a, b, c⟩
    · rw [a] at hf; cases hf
    · rw [a] at hf
      cases hf
      cases v with
      | procedure pe => simp [EntRel] at c
      | type te =>
        refine ⟨te, b, ?_⟩
        have : te.dataType = some (conv t) := c.2
        simp only [entryStr, optTypeStr, this, tyStr]
  · intro n sig hf hnp
    rcases corr_find hc n with ⟨a, _, _⟩ | ⟨e, v, a, b, c⟩
    · rw [a] at hf; cases hf
    · rw [a] at hf
      cases hf
      cases v with
      | type te => simp [EntRel] at c
      | procedure pe =>
        obtain ⟨_, _, hl⟩ := c
        rcases hl with hl | hl
        · rw [hnp] at hl; cases hl
        · refine ⟨pe, b, ?_⟩
          have key : ∀ (vs : List VarInfo) (l : LocalTable), LocalRel vs l →
              l.map (fun kv => (kv.1, optTypeStr kv.2.entry.dataType)) = vs.map (fun v => (v.name, tyStr v.ty)) := by
            intro vs
            induction vs with
            | nil => intro l hl; cases l with
              | nil => rfl
              | cons x xs => simp [LocalRel] at hl
            | cons v vs ih =>
              intro l hl
              cases l with
              | nil => simp [LocalRel] at hl
              | cons x xs =>
                obtain ⟨k, e⟩ := x
                obtain ⟨h1, h2, h3⟩ := hl
                have h4 : optTypeStr (some (conv v.ty)) = tyStr v.ty := by simp only [optTypeStr, tyStr]
                rw [List.map_cons, List.map_cons, ih xs h3]
                simp only [h1, h2, h4]
          exact key _ _ hl

end

end Spl.C14
