/-
  Wire format helpers for the line protocol (hex text fields, canonical printing).
  Not part of the model; used only by the driver (tested edge).
-/
import SplVerif.Model.Lexer

namespace Spl.Wire

def hexDigit (n : Nat) : Char :=
  if n < 10 then Char.ofNat (48 + n) else Char.ofNat (87 + n)

def hexOfBytes (bs : List UInt8) : String :=
  if bs.isEmpty then "-" else
  String.ofList (bs.flatMap (fun b => [hexDigit (b.toNat / 16), hexDigit (b.toNat % 16)]))

def hexOfText (s : List Char) : String :=
  hexOfBytes (String.ofList s).toUTF8.toList

def hexVal (c : Char) : Option Nat :=
  if '0' ≤ c && c ≤ '9' then some (c.toNat - 48)
  else if 'a' ≤ c && c ≤ 'f' then some (c.toNat - 87)
  else if 'A' ≤ c && c ≤ 'F' then some (c.toNat - 55)
  else none

def bytesOfHexAux : List Char → List UInt8 → Option (List UInt8)
  | [], acc => some acc.reverse
  | [_], _ => none
  | a :: b :: r, acc =>
    match hexVal a, hexVal b with
    | some x, some y => bytesOfHexAux r (UInt8.ofNat (x * 16 + y) :: acc)
    | _, _ => none

def bytesOfHex (s : String) : Option (List UInt8) :=
  if s == "-" then some [] else bytesOfHexAux s.toList []

def textOfHex (s : String) : Option (List Char) :=
  match bytesOfHex s with
  | none => none
  | some bs => (String.fromUTF8? ⟨bs.toArray⟩).map String.toList

def msgStr : Msg → String
  | .MissingClosingTick => "MissingClosingTick"
  | .ExpectedHexNumber => "ExpectedHexNumber"
  | .InvalidIntLit s => s!"InvalidIntLit:{hexOfText s}"
  | .MissingOpening c => s!"MissingOpening:{hexOfText [c]}"
  | .MissingClosing c => s!"MissingClosing:{hexOfText [c]}"
  | .MissingTrailingSemic => "MissingTrailingSemic"
  | .UnexpectedCharacters s => s!"UnexpectedCharacters:{hexOfText s}"
  | .ExpectedToken s => s!"ExpectedToken:{hexOfText s}"
  | .ConfusedToken a b => s!"ConfusedToken:{hexOfText a}:{hexOfText b}"
  | .UndefinedType s => s!"UndefinedType:{hexOfText s}"
  | .NotAType s => s!"NotAType:{hexOfText s}"
  | .RedeclarationAsType s => s!"RedeclarationAsType:{hexOfText s}"
  | .MustBeAReferenceParameter s => s!"MustBeAReferenceParameter:{hexOfText s}"
  | .RedeclarationAsProcedure s => s!"RedeclarationAsProcedure:{hexOfText s}"
  | .RedeclarationAsParameter s => s!"RedeclarationAsParameter:{hexOfText s}"
  | .RedeclarationAsVariable s => s!"RedeclarationAsVariable:{hexOfText s}"
  | .MainIsMissing => "MainIsMissing"
  | .MainIsNotAProcedure => "MainIsNotAProcedure"
  | .MainMustNotHaveParameters => "MainMustNotHaveParameters"
  | .AssignmentHasDifferentTypes => "AssignmentHasDifferentTypes"
  | .AssignmentRequiresIntegers => "AssignmentRequiresIntegers"
  | .IfConditionMustBeBoolean => "IfConditionMustBeBoolean"
  | .WhileConditionMustBeBoolean => "WhileConditionMustBeBoolean"
  | .UndefinedProcedure s => s!"UndefinedProcedure:{hexOfText s}"
  | .CallOfNoneProcedure s => s!"CallOfNoneProcedure:{hexOfText s}"
  | .ArgumentsTypeMismatch s i => s!"ArgumentsTypeMismatch:{hexOfText s}:{i}"
  | .ArgumentMustBeAVariable s i => s!"ArgumentMustBeAVariable:{hexOfText s}:{i}"
  | .TooFewArguments s => s!"TooFewArguments:{hexOfText s}"
  | .TooManyArguments s => s!"TooManyArguments:{hexOfText s}"
  | .OperatorDifferentTypes => "OperatorDifferentTypes"
  | .ComparisonNonInteger => "ComparisonNonInteger"
  | .ArithmeticOperatorNonInteger => "ArithmeticOperatorNonInteger"
  | .UndefinedVariable s => s!"UndefinedVariable:{hexOfText s}"
  | .NotAVariable s => s!"NotAVariable:{hexOfText s}"
  | .IndexingNonArray => "IndexingNonArray"
  | .IndexingWithNonInteger => "IndexingWithNonInteger"

def errStr (e : SplError) : String := s!"!{msgStr e.msg}@{e.range.lo}-{e.range.hi}"

def intResStr : IntResult → String
  | .Int n => s!"i{n}"
  | .Err s => s!"e{hexOfText s}"

def kindStr (k : Kind) : String := (reprStr k).replace "Spl.Kind." ""

def tyStr : TokenType → String
  | .Ident s => s!"Ident:{hexOfText s}"
  | .Char c => s!"Char:{hexOfText [c]}"
  | .Int r => s!"Int:{intResStr r}"
  | .Hex r => s!"Hex:{intResStr r}"
  | .Comment s => s!"Comment:{hexOfText s}"
  | .Unknown s => s!"Unknown:{hexOfText s}"
  | t => kindStr t.kind

def tokStr (t : Token) : String :=
  s!"{tyStr t.ty}@{t.range.lo}-{t.range.hi}" ++ String.join (t.errors.map errStr)

def toksStr (ts : List Token) : String := " ".intercalate (ts.map tokStr)

def panicStr (p : Panic) : String := s!"PANIC {p.site}"

end Spl.Wire
