/-
  Judges of the formatter properties (C09, C10, C11) on the implementation's answer, using the
  independent specifications: LspPos (edit application), LexSpec (re-lexing).
-/
import SplVerif.Driver.OpsSpec
import SplVerif.Spec.LexSpec

namespace Spl.Ops
open Spl Spl.Wire

/-- `null` or `l:c-l:c=>hex` -/
def parseFmtAnswer (s : String) : Option (Option (String × List Char)) :=
  if s == "null" then some none else
  match s.splitOn "=>" with
  | [r, h] => (textOfHex h).map (fun t => some (r, t))
  | _ => none

def nonComment (ts : List Token) : List TokenType := (ts.filter (fun t => t.kind != .Comment)).map (·.ty)

def commentTexts (ts : List Token) : List (List Char) :=
  ts.filterMap (fun t => match t.ty with
    | .Comment c => some (Parse.trimStr c)
    | _ => none)

/-- leading whitespace of a line is `unit^k` -/
def indentOk (unit : List Char) (line : List Char) : Bool :=
  let lead := line.takeWhile (fun c => c == ' ' || c == '\t')
  if unit.isEmpty then lead.isEmpty
  else lead.length % unit.length == 0 && lead == (List.replicate (lead.length / unit.length) unit).flatten

def diagKinds (text : List Char) : Option (List String) :=
  match AnalyzedSource.new text with
  | .error _ => none
  | .ok d => some ((d.ast.errors.map (fun e => msgStr e.msg)).toArray.qsort (· < ·)).toList

/-- which: "09" | "10" | "11" -/
def judgeFmt (which : String) (text : List Char) (sp : Bool) (ts : Nat) (impl : String) : String :=
  match parseFmtAnswer impl with
  | none => "bad:unparsable-answer"
  | some ans =>
    let newText := match ans with
      | none => text
      | some (_, t) => t
    -- the independent lexical specification; for texts it declines (malformed literals) the lexer MODEL,
    -- which the LEX correspondence ties to the implementation, still compares the two token sequences of C09
    let lexAny : List Char → Option (List Token) := fun t =>
      match LexSpec.lex t with
      | some ts => some ts
      | none => if which == "09" then (match lex t with | .ok ts => some ts | .error _ => none) else none
    match lexAny text with
    | none => "n/a"
    | some t0 =>
      match which with
      | "09" =>
        (match ans with
         | some (r, _) =>
           let e := LspPos.position text (utf8Len text)
           if r != s!"0:0-{e.line}:{e.col}" then s!"bad:C09:edit-range-{r}-is-not-the-whole-document-0:0-{e.line}:{e.col}" else ""
         | none => "") |> fun pre =>
        if pre != "" then pre else
        match lexAny newText with
        | none => "bad:C09:formatted-text-is-not-lexically-valid"
        | some t1 =>
          if nonComment t0 != nonComment t1 then
            let i := ((nonComment t0).zip (nonComment t1)).findIdx? (fun (a, b) => a != b) |>.getD (min (nonComment t0).length (nonComment t1).length)
            s!"bad:C09:token-sequence-changed-at-{i}"
          else if diagKinds text != diagKinds newText then "bad:C09:diagnostics-changed"
          else "ok"
      | "10" =>
        (match ans with
         | some (r, _) =>
           let e := LspPos.position text (utf8Len text)
           if r != s!"0:0-{e.line}:{e.col}" then s!"bad:C10:edit-range-{r}-is-not-the-whole-document-0:0-{e.line}:{e.col}:old-lines-(and-their-comments)-stay-behind-the-new-text" else ""
         | none => "") |> fun pre =>
        if pre != "" then pre else
        match LexSpec.lex newText with
        | none => "bad:C10:formatted-text-is-not-lexically-valid"
        | some t1 =>
          let c0 := commentTexts t0
          let c1 := commentTexts t1
          if c0 == c1 then "ok"
          else
            let lost := c0.filter (fun c => !c1.contains c)
            let dup := c1.filter (fun c => (c1.filter (· == c)).length > (c0.filter (· == c)).length)
            if !dup.isEmpty then s!"bad:C10:duplicated={",".intercalate (dup.map (fun c => hexOfText c))}"
            else if !lost.isEmpty then s!"bad:C10:lost={",".intercalate (lost.map (fun c => hexOfText c))}"
            else "bad:C10:order-changed"
      | _ =>
        let unit : List Char := if sp then List.replicate ts ' ' else ['\t']
        match ans with
        | some (r, t) => if t == text then "bad:C11:edit-returned-although-nothing-changes" else
          -- the client's text after the edit is the canonical text only if the edit replaces the whole document
          let e := LspPos.position text (utf8Len text)
          if r != s!"0:0-{e.line}:{e.col}" then s!"bad:C11:edit-range-{r}-leaves-old-text-behind-the-canonical-text-0:0-{e.line}:{e.col}" else
          (match (Fmt.lines t).find? (fun l => !indentOk unit l) with
           | some l => s!"bad:C11:line-not-indented-with-the-unit:{hexOfText l}"
           | none => "ok")
        | none =>
          (match (Fmt.lines text).find? (fun l => !indentOk unit l) with
           | some l => s!"bad:C11:null-but-line-not-indented-with-the-unit:{hexOfText l}"
           | none => "ok")

def fmtText (d : AnalyzedSource) (sp : Bool) (ts : Nat) : Except Panic (List Char) :=
  (Fmt.format d sp ts).map (fun r => match r with
    | some (_, t) => t
    | none => d.text)

/-- whitespace-only variants of a text: CRLF terminators, no final newline, extra final newlines,
    a blank before every newline -/
def wsVariants (text : List Char) : List (String × List Char) :=
  [("crlf", text.flatMap (fun c => if c == '\n' then ['\r', '\n'] else [c])),
   ("nofinalnl", (text.reverse.dropWhile (· == '\n')).reverse),
   ("extranl", text ++ ['\n', '\n']),
   ("trailsp", text.flatMap (fun c => if c == '\n' then [' ', '\n'] else [c]))]

def fmtOf (text : List Char) (sp : Bool) (n : Nat) : Option (List Char) :=
  match AnalyzedSource.new text with
  | .error _ => none
  | .ok d =>
    match Fmt.format d sp n with
    | .error _ => none
    | .ok none => some text
    | .ok (some (_, t)) => some t

def fmtSpecOps (op : String) (args : List String) (impl : String) : Option String :=
  match op, args with
  | "JUDGEFMT09", [t, sp, ts] | "JUDGEFMT10", [t, sp, ts] | "JUDGEFMT11", [t, sp, ts] =>
    match textOfHex t, ts.toNat? with
    | some text, some n => some (judgeFmt (op.drop 8).toString text (sp == "1") n impl)
    | _, _ => none
  | "JUDGEFMT10", t :: sp :: ts :: _ =>
    match textOfHex t, ts.toNat? with
    | some text, some n => some (judgeFmt "10" text (sp == "1") n impl)
    | _, _ => none
  | "PROPFMTIDEM", [t, sp, ts] =>
    match textOfHex t, ts.toNat? with
    | some text, some n =>
      some (match AnalyzedSource.new text with
        | .error e => s!"bad:{panicStr e}"
        | .ok d =>
          match fmtText d (sp == "1") n with
          | .error e => s!"bad:{panicStr e}"
          | .ok t1 =>
            match AnalyzedSource.new t1 with
            | .error e => s!"bad:{panicStr e}"
            | .ok d1 =>
              match Fmt.format d1 (sp == "1") n with
              | .error e => s!"bad:{panicStr e}"
              | .ok none => "ok"
              | .ok (some _) => "bad:second-format-returns-an-edit")
    | _, _ => none
  | "PROPFMTWS", [t, sp, ts] =>
    match textOfHex t, ts.toNat? with
    | some text, some n =>
      some (match fmtOf text (sp == "1") n with
        | none => "bad:PANIC"
        | some base =>
          match (wsVariants text).find? (fun (_, v) => fmtOf v (sp == "1") n != some base) with
          | none => "ok"
          | some (name, v) =>
            if (fmtOf v (sp == "1") n).isNone then "bad:PANIC" else s!"bad:variant-{name}-formats-differently")
    | _, _ => none
  | "PROPFMTCANON", [t1, t2, sp, ts] =>
    match textOfHex t1, textOfHex t2, ts.toNat? with
    | some a, some b, some n =>
      some (match AnalyzedSource.new a, AnalyzedSource.new b with
        | .ok da, .ok db =>
          match fmtText da (sp == "1") n, fmtText db (sp == "1") n with
          | .ok x, .ok y => if x == y then "ok" else "bad:two-layouts-format-differently"
          | _, _ => "bad:PANIC"
        | _, _ => "bad:PANIC")
    | _, _, _ => none
  | _, _ => none

end Spl.Ops
