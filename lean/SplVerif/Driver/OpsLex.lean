import SplVerif.Driver.Wire
import SplVerif.Spec.LexSpec
import SplVerif.Spec.Tiling

namespace Spl.Ops
open Spl Spl.Wire

/-- Parse just kind and range of a printed token (payload and errors are skipped). -/
def parseTokenLoose (s : String) : Option Token :=
  -- `Kind[:payload]@lo-hi[!...]*`
  let head := (s.splitOn "!").headD ""
  match head.splitOn "@" with
  | [ty, rng] =>
    let kindName := (ty.splitOn ":").headD ""
    match rng.splitOn "-" with
    | [a, b] =>
      match a.toNat?, b.toNat? with
      | some lo, some hi =>
        let tyv : TokenType := match kindName with
          | "Eof" => .Eof
          | "Comment" => .Comment []
          | _ => .Unknown []
        some { ty := tyv, range := ⟨lo, hi⟩ }
      | _, _ => none
    | _ => none
  | _ => none

def parseTokensLoose (s : String) : Option (List Token) :=
  (s.splitOn " ").filter (· != "") |>.mapM parseTokenLoose

def changeStr (c : TokenChange) : String := s!"{c.delLo}..{c.delHi}+{c.insLen}"

/-- Replace bytes `lo..hi` of a text (must be on char boundaries). -/
def replaceBytes (s : List Char) (lo hi : Nat) (ins : List Char) : Option (List Char) :=
  let rec split (r : List Char) (o : Nat) (target : Nat) (acc : List Char) : Option (List Char × List Char) :=
    if o = target then some (acc.reverse, r) else
    match r with
    | [] => none
    | c :: cs => if o < target then split cs (o + c.utf8Size) target (c :: acc) else none
  match split s 0 lo [] with
  | none => none
  | some (pre, rest) =>
    match split rest lo hi [] with
    | none => none
    | some (_, post) => some (pre ++ ins ++ post)

def shiftOk (delta : Int) (n o : Nat) : Bool := (n : Int) == (o : Int) + delta

/-- C07 evaluated on the model: result equals batch lex and the window is truthful. -/
def judgeUpdate (oldToks : List Token) (newText : List Char) (toks : List Token) (tc : TokenChange)
    (delta : Int) : String :=
  match lex newText with
  | .error p => s!"bad:{panicStr p}"
  | .ok fresh =>
    if toks != fresh then "bad:tokens-differ" else
    let a := tc.delLo
    let b := tc.delHi
    if a > b || b > oldToks.length then "bad:window-out-of-range" else
    if toks.length + (b - a) != oldToks.length + tc.insLen then "bad:window-length" else
    if toks.take a != oldToks.take a then "bad:head-not-old" else
    let tailNew := toks.drop (a + tc.insLen)
    let tailOld := oldToks.drop b
    let same := (tailNew.zip tailOld).all (fun (n, o) =>
      n.ty == o.ty && shiftOk delta n.range.lo o.range.lo && shiftOk delta n.range.hi o.range.hi
      && n.errors.length == o.errors.length
      && (n.errors.zip o.errors).all (fun (x, y) => x.msg == y.msg
            && shiftOk delta x.range.lo y.range.lo && shiftOk delta x.range.hi y.range.hi))
    if same then "ok" else "bad:tail-not-shifted-old"

def histGo : List String → List Char → List Token → Nat → String
  | lo :: hi :: ins :: rest, text, toks, step =>
    match lo.toNat?, hi.toNat?, textOfHex ins with
    | some lo, some hi, some ins =>
      match replaceBytes text lo hi ins with
      | none => "bad-op"
      | some text' =>
        match lexUpdate text' toks lo hi (utf8Len ins) with
        | .error p => s!"bad:step{step}:{panicStr p}"
        | .ok (t2, tc) =>
          let r := judgeUpdate toks text' t2 tc ((utf8Len ins : Int) - ((hi - lo : Nat) : Int))
          if r == "ok" then histGo rest text' t2 (step + 1) else s!"bad:step{step}:{r.drop 4}"
    | _, _, _ => "bad-op"
  | [], _, _, _ => "ok"
  | _, _, _, _ => "bad-op"

def allStrings (alpha : List Char) : Nat → List (List Char)
  | 0 => [[]]
  | n + 1 =>
    let shorter := allStrings alpha n
    let longest := shorter.filter (·.length == n)
    shorter ++ longest.flatMap (fun s => alpha.map (fun c => s ++ [c]))

def boundaries (s : List Char) : List Nat :=
  let rec go : List Char → Nat → List Nat
    | [], o => [o]
    | c :: cs, o => o :: go cs (o + c.utf8Size)
  go s 0

/-- First failing edit of the exhaustive space (model side), or `ok`. -/
def exhaustiveUpd (l m : Nat) (alpha : List Char) : String := Id.run do
  let texts := allStrings alpha l
  let inserts := allStrings alpha m
  for text in texts do
    match lex text with
    | .error p => return s!"bad:case=LEX {hexOfText text};{panicStr p}"
    | .ok oldToks =>
      let bs := boundaries text
      for lo in bs do
        for hi in bs do
          if lo ≤ hi then
            for ins in inserts do
              match replaceBytes text lo hi ins with
              | none => return "bad-op"
              | some newText =>
                let r := match lexUpdate newText oldToks lo hi (utf8Len ins) with
                  | .ok (ts, tc) => judgeUpdate oldToks newText ts tc ((utf8Len ins : Int) - ((hi - lo : Nat) : Int))
                  | .error p => s!"bad:{panicStr p}"
                if r != "ok" then
                  return s!"bad:case=PROPUPD {hexOfText text} {lo} {hi} {hexOfText ins};{r.drop 4}"
  return "ok"

def lexOps (op : String) (args : List String) (impl : String) : Option String :=
  match op, args with
  | "LEX", [t] =>
    (textOfHex t).map fun s =>
      match lex s with
      | .ok ts => toksStr ts
      | .error p => panicStr p
  | "SPECLEX", [t] =>
    (textOfHex t).map fun s =>
      match LexSpec.lex s with
      | some ts => toksStr ts
      | none => "n/a"
  | "JUDGETILING", [t] =>
    (textOfHex t).map fun s =>
      match parseTokensLoose impl with
      | none => "bad:unparsable-impl-answer"
      | some ts => if tilingB s ts then "ok" else "bad:tiling"
  | "UPD", [t, lo, hi, ins] =>
    match textOfHex t, lo.toNat?, hi.toNat?, textOfHex ins with
    | some old, some lo, some hi, some ins =>
      match lex old, replaceBytes old lo hi ins with
      | .ok oldToks, some newText =>
        match lexUpdate newText oldToks lo hi (utf8Len ins) with
        | .ok (ts, tc) => some s!"{changeStr tc} ; {toksStr ts}"
        | .error p => some (panicStr p)
      | .error p, _ => some (panicStr p)
      | _, none => some "bad-op"
    | _, _, _, _ => none
  | "PROPUPD", [t, lo, hi, ins] =>
    match textOfHex t, lo.toNat?, hi.toNat?, textOfHex ins with
    | some old, some lo, some hi, some ins =>
      match lex old, replaceBytes old lo hi ins with
      | .ok oldToks, some newText =>
        match lexUpdate newText oldToks lo hi (utf8Len ins) with
        | .ok (ts, tc) =>
          some (judgeUpdate oldToks newText ts tc ((utf8Len ins : Int) - ((hi - lo : Nat) : Int)))
        | .error p => some s!"bad:{panicStr p}"
      | .error p, _ => some s!"bad:{panicStr p}"
      | _, none => some "bad-op"
    | _, _, _, _ => none
  | "PROPUPDX", [l, m, alpha] =>
    match l.toNat?, m.toNat?, textOfHex alpha with
    | some l, some m, some alpha => some (exhaustiveUpd l m alpha)
    | _, _, _ => none
  | "PROPHIST", t :: rest =>
    match textOfHex t with
    | some text =>
      match lex text with
      | .ok toks => some (histGo rest text toks 0)
      | .error p => some s!"bad:{panicStr p}"
    | none => none
  | _, _ => none

end Spl.Ops
