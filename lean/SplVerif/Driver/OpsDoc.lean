import SplVerif.Driver.Wire
import SplVerif.Model.Doc
import SplVerif.Spec.LspPos

namespace Spl.Ops
open Spl Spl.Wire

def parseChange (s : String) : Option ContentChange :=
  match s.splitOn ":" with
  | ["F", t] => (textOfHex t).map (fun t => ⟨none, t⟩)
  | ["R", l1, c1, l2, c2, t] =>
    match l1.toNat?, c1.toNat?, l2.toNat?, c2.toNat?, textOfHex t with
    | some l1, some c1, some l2, some c2, some t => some ⟨some (⟨l1, c1⟩, ⟨l2, c2⟩), t⟩
    | _, _, _, _, _ => none
  -- with the deprecated `rangeLength` member: the specification ignores it (the range decides)
  | ["R", l1, c1, l2, c2, t, _len] =>
    match l1.toNat?, c1.toNat?, l2.toNat?, c2.toNat?, textOfHex t with
    | some l1, some c1, some l2, some c2, some t => some ⟨some (⟨l1, c1⟩, ⟨l2, c2⟩), t⟩
    | _, _, _, _, _ => none
  | _ => none

def splitNotifs (xs : List String) : List (List String) :=
  let rec go : List String → List String → List (List String) → List (List String)
    | [], cur, acc => (cur.reverse :: acc).reverse
    | x :: r, cur, acc => if x == "|" then go r [] (cur.reverse :: acc) else go r (x :: cur) acc
  go xs [] []

def parseNotifs (xs : List String) : Option (List (List ContentChange)) :=
  (splitNotifs xs).mapM (fun n => n.mapM parseChange)

def charBoundaries (s : List Char) : List Nat :=
  let rec go : List Char → Nat → List Nat
    | [], o => [o]
    | c :: cs, o => o :: go cs (o + c.utf8Size)
  go s 0

/-- Byte offsets strictly between a `\r` and its `\n`. -/
def crlfMiddles (s : List Char) : List Nat :=
  let rec go : List Char → Nat → List Nat
    | '\r' :: '\n' :: r, o => (o + 1) :: go ('\n' :: r) (o + 1)
    | c :: r, o => go r (o + c.utf8Size)
    | [], _ => []
  go s 0

def propRoundTrip (text : List Char) : String :=
  let mids := crlfMiddles text
  match (charBoundaries text).find? (fun i => !mids.contains i && insertionIndex (asPosition i text) text != i) with
  | none => "ok"
  | some i =>
    let p := asPosition i text
    s!"bad:index{i}->{p.line}:{p.col}->{insertionIndex p text}"

def propTokens (text : List Char) : String :=
  match lex text with
  | .error p => s!"bad:{panicStr p}"
  | .ok toks =>
    let mids := crlfMiddles text
    match toks.find? (fun t =>
        insertionIndex (asPosition t.range.lo text) text != t.range.lo ||
        (insertionIndex (asPosition t.range.hi text) text != t.range.hi &&
          !(mids.contains t.range.hi && insertionIndex (asPosition t.range.hi text) text + 1 == t.range.hi))) with
    | none => "ok"
    | some t => s!"bad:token{t.range.lo}-{t.range.hi}"

def docOps (op : String) (args : List String) (_impl : String) : Option String :=
  match op, args with
  | "IDX", [t, l, c] =>
    match textOfHex t, l.toNat?, c.toNat? with
    | some text, some l, some c => some (toString (insertionIndex ⟨l, c⟩ text))
    | _, _, _ => none
  | "SPECIDX", [t, l, c] =>
    match textOfHex t, l.toNat?, c.toNat? with
    | some text, some l, some c => some (toString (LspPos.offsetOf text ⟨l, c⟩))
    | _, _, _ => none
  | "POS", [t, i] =>
    match textOfHex t, i.toNat? with
    | some text, some i => let p := asPosition i text; some s!"{p.line}:{p.col}"
    | _, _ => none
  | "PROPRT", [t] => (textOfHex t).map propRoundTrip
  | "PROPTOK", [t] => (textOfHex t).map propTokens
  | "CHG", t :: rest =>
    match textOfHex t, parseNotifs rest with
    | some text, some ns =>
      match applyNotifications ns text with
      | .ok r => some (hexOfText r)
      | .error p => some (panicStr p)
    | _, _ => none
  | "SPECCHG", t :: rest =>
    match textOfHex t, parseNotifs rest with
    | some text, some ns =>
      match LspPos.applyNotifications ns text with
      | some r => some (hexOfText r)
      | none => some "n/a"
    | _, _ => none
  | _, _ => none

end Spl.Ops
