import SplVerif.Driver.Wire
import SplVerif.Model.Codec

namespace Spl.Ops
open Spl Spl.Wire Spl.Codec

/-- Structural stand-in for `serde_json`: exactly one balanced JSON object, nothing after it
    but whitespace (the harness only generates canonical JSON messages, cut or extended
    by a wrong Content-Length, or non-JSON garbage). -/
def balancedObject : Bytes → Nat → Bool → Bool → Bool → Bool
  | [], depth, _, _, closed => closed && depth == 0
  | b :: r, depth, inStr, esc, closed =>
    if closed then (b == 32 || b == 10 || b == 13 || b == 9) && balancedObject r depth false false true
    else if inStr then
      if esc then balancedObject r depth true false false
      else if b == 92 then balancedObject r depth true true false
      else if b == 34 then balancedObject r depth false false false
      else balancedObject r depth true false false
    else if b == 34 then balancedObject r depth true false false
    else if b == 123 then balancedObject r (depth + 1) false false false
    else if b == 125 then
      if depth == 0 then false
      else if depth == 1 then balancedObject r 0 false false true
      else balancedObject r (depth - 1) false false false
    else depth > 0 && balancedObject r depth false false false

def driverEnv : Env Bytes :=
  { parseHeaders := parseHeadersModel
    parseBody := fun b => match b with
      | 123 :: _ => if balancedObject b 0 false false false then some b else none
      | _ => none }

def terminalStr : Terminal → String
  | .eof => "eof"
  | .errHeaders => "E:headers"
  | .errContent => "E:content"
  | .bytesRemaining => "E:io"
  | .stuck => "stuck"

def feedStr (chunks : List Bytes) : String :=
  let r := feed driverEnv chunks []
  " ".intercalate (r.1.map (fun b => "F:" ++ hexOfBytes b) ++ ["; " ++ terminalStr r.2])

def splitsOk (data : Bytes) : String := Id.run do
  let whole := feedStr [data]
  for i in [0:data.length + 1] do
    if feedStr [data.take i, data.drop i] != whole then
      return s!"bad:case=DEC {hexOfBytes (data.take i)} {hexOfBytes (data.drop i)};split-at-{i}-differs"
  if feedStr (data.map (fun b => [b])) != whole then return "bad:bytewise-differs"
  return "ok"

def codecOps (op : String) (args : List String) (_impl : String) : Option String :=
  match op with
  | "DEC" => (args.mapM bytesOfHex).map feedStr
  | "PROPSPLIT" =>
    match args with
    | [d] => (bytesOfHex d).map splitsOk
    | _ => none
  | "ENC" =>
    match args with
    | [b] => (bytesOfHex b).map (fun body => hexOfBytes (encode body))
    | _ => none
  | _ => none

end Spl.Ops
