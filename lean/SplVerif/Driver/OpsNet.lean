import SplVerif.Driver.OpsDoc
import SplVerif.Model.Net
import SplVerif.Model.Table

namespace Spl.Ops
open Spl Spl.Wire Spl.Net

abbrev NText := List Char
abbrev NChg := List ContentChange
abbrev NMsg := CMsg Nat NText NChg Unit (Option NText)
abbrev NOut := Out Nat (Option NText) Nat

def netFns : Fns Nat NText NChg Unit (Option NText) Nat :=
  { applyChange := fun t cs => match toTextChanges cs t with
      | .ok (_, t') => t'
      | .error _ => t
    analyze := fun t => t.length    -- stand-in: any pure function of the text
    answer := fun t _ => t }

/-- history tokens: `O<u>=<hex>` `C<u>=<chg>,<chg>` `X<u>` `P<u>` (probe) `F<u>` / `M<u>` / `H<u>` (folding, formatting, hover: treated as probes) `U` (other request) -/
def parseNetTok (k : Nat) (s : String) : Option NMsg :=
  let kind := s.take 1 |>.toString
  let rest := (s.drop 1).toString
  let (u, arg) := match rest.splitOn "=" with
    | [u, a] => (u, a)
    | _ => (rest, "")
  match kind, u.toNat? with
  | "O", some u => (textOfHex arg).map (fun t => .open u t)
  | "C", some u => ((arg.splitOn ",").mapM parseChange).map (fun cs => .change u cs)
  | "X", some u => some (.close u)
  | "P", some u => some (.docReq k u ())
  | "F", some u => some (.docReq k u ())
  | "M", some u => some (.docReq k u ())
  | "H", some u => some (.docReq k u ())
  | "U", _ => some (.otherReq k none)
  | _, _ => none

def parseNet (xs : List String) : Option (List NMsg) :=
  let rec go : List String → Nat → Option (List NMsg)
    | [], _ => some []
    | x :: r, k => do
      let m ← parseNetTok k x
      let ms ← go r (k + 1)
      pure (m :: ms)
  go xs 0

def outStrN : NOut → String
  | .resp id r v => s!"R{id}{if v then "" else "*"}=" ++ (match r with | some t => hexOfText t | none => "null")
  | .diag u d => s!"D{u}:{d}"

def lcg (x : Nat) : Nat := (x * 6364136223846793005 + 1442695040888963407) % 18446744073709551616

def mkSchedule : Nat → Nat → List Proc
  | 0, _ => []
  | n + 1, x =>
    let x' := lcg x
    (match (x' / 65536) % 3 with
     | 0 => Proc.reader
     | 1 => Proc.broker
     | _ => Proc.responder) :: mkSchedule n x'

/-- Run until final with a pseudo-random schedule followed by a fair round-robin tail. -/
def runNet (diagOn : Bool) (docCap ioCap : Nat) (ms : List NMsg) (seed : Nat) : State Nat NText NChg Unit (Option NText) Nat :=
  let n := 40 * (ms.length + 1)
  let sched := mkSchedule n seed ++ (List.replicate (4 * n) [Proc.responder, Proc.broker, Proc.reader]).flatten
  runSchedule netFns diagOn docCap ioCap (init ms) sched

def judgeSchedules (diagOn : Bool) (ms : List NMsg) (count : Nat) : String := Id.run do
  let want := seqRun netFns diagOn ([] : Docs Nat NText) ms
  let wantR := (want.filter Out.isResp).map outStrN
  let wantD := (want.filter Out.isDocRelated).map outStrN
  for k in [0:count] do
    -- small capacities exercise back-pressure; the generated ones are used for k = 0
    let (dc, ic) := if k == 0 then (Gen.docChanCap, Gen.ioChanCap) else (1 + k % 3, 1 + (k / 3) % 3)
    let s := runNet diagOn dc ic ms (k * 7919 + 13)
    if !isFinal s then return s!"bad:not-final-under-schedule-{k}"
    if (s.out.filter Out.isResp).map outStrN != wantR then return s!"bad:responses-differ-under-schedule-{k}"
    if (s.out.filter Out.isDocRelated).map outStrN != wantD then return s!"bad:doc-order-differs-under-schedule-{k}"
  return "ok"

/-- Does the full document model (`AnalyzedSource::new` / `update`) predict a panic somewhere along the
    history?  (known finding KF-C02-update-panic: the broker task then dies; the text property is judged
    only on histories the tree layer survives) -/
def histPanics : List NMsg → List (Nat × AnalyzedSource) → Bool
  | [], _ => false
  | m :: r, ds =>
    match m with
    | .open u t =>
      (match AnalyzedSource.new t with
       | .error _ => true
       | .ok d => histPanics r ((u, d) :: ds.filter (fun e => e.1 != u)))
    | .change u cs =>
      (match ds.find? (fun e => e.1 == u) with
       | none => histPanics r ds
       | some (_, d) =>
         match toTextChanges cs d.text with
         | .error _ => true
         | .ok (tcs, _) =>
           match d.update tcs with
           | .error _ => true
           | .ok d' => histPanics r ((u, d') :: ds.filter (fun e => e.1 != u)))
    | .close u => histPanics r (ds.filter (fun e => e.1 != u))
    | _ => histPanics r ds

def specNetText (d : String) (toks : List String) : Option String :=
  (parseNet toks).map fun ms =>
    let outs := seqRun netFns (d == "1") ([] : Docs Nat NText) ms
    let probeIds := (toks.zipIdx.filter (fun (t, _) => t.startsWith "P")).map (·.2)
    " ".intercalate ((outs.filter (fun o => match o with
      | .resp id _ true => probeIds.contains id
      | _ => false)).map outStrN)

def netOps (op : String) (args : List String) (_impl : String) : Option String :=
  match op, args with
  | "SPECDOCTEXT", d :: toks =>
    -- the same judgement for short in-process histories through the real broker (C08); histories on which
    -- the document model predicts a panic of the tree layer are not judged here
    (parseNet toks).bind fun ms => if histPanics ms [] then some "n/a" else specNetText d toks
  | "SPECNETTEXT", d :: toks =>
    (parseNet toks).map fun ms =>
      let outs := seqRun netFns (d == "1") ([] : Docs Nat NText) ms
      let probeIds := (toks.zipIdx.filter (fun (t, _) => t.startsWith "P")).map (·.2)
      " ".intercalate ((outs.filter (fun o => match o with
        | .resp id _ true => probeIds.contains id
        | _ => false)).map outStrN)
  | "JUDGENETSCHED", d :: n :: toks =>
    match parseNet toks, n.toNat? with
    | some ms, some n => some (judgeSchedules (d == "1") ms n)
    | _, _ => none
  | _, _ => none

end Spl.Ops
