import SplVerif.Driver.Dump
import SplVerif.Driver.OpsLex
import SplVerif.Model.Parser
import SplVerif.Spec.Grammar
import SplVerif.Spec.Typing
import SplVerif.Spec.LspPos

namespace Spl.Ops
open Spl Spl.Wire

def parseText (s : List Char) : Except Panic Program :=
  match lex s with
  | .error p => .error p
  | .ok ts => Parse.parse ts

def parseChanges : List String → Option (List TextChange)
  | [] => some []
  | lo :: hi :: ins :: rest =>
    match lo.toNat?, hi.toNat?, textOfHex ins, parseChanges rest with
    | some lo, some hi, some ins, some cs => some (⟨lo, hi, ins⟩ :: cs)
    | _, _, _, _ => none
  | _ => none

def sourceStr (d : AnalyzedSource) : String :=
  match d.errors with
  | .error e => panicStr e
  | .ok errs => Dump.program d.ast ++ " ;; " ++ Dump.table d.table ++ " ;; " ++ String.join (errs.map errStr)

/-- C01 on the model: update = new(final text), layer by layer. -/
def incProp (text : List Char) (cs : List TextChange) : String :=
  match AnalyzedSource.new text with
  | .error e => s!"bad:{panicStr e}"
  | .ok d =>
    match d.update cs with
    | .error e => s!"bad:update:{panicStr e}"
    | .ok u =>
      match AnalyzedSource.new u.text with
      | .error e => s!"bad:{panicStr e}"
      | .ok f =>
        -- the text the client holds: the changes applied to the plain text
        let expected := cs.foldl (fun (acc : Option (List Char)) c => acc.bind (fun t => replaceRange t c.lo c.hi c.text)) (some text)
        if expected != some u.text then "bad:text"
        else if toksStr u.tokens != toksStr f.tokens then "bad:tokens"
        else if Dump.program u.ast != Dump.program f.ast then "bad:tree"
        else if Dump.table u.table != Dump.table f.table then "bad:table"
        else if sourceStr u != sourceStr f then "bad:diagnostics"
        else "ok"

def declDumps (p : Program) : List (Nat × String) :=
  p.decls.map (fun r => (r.offset, Dump.global (r.val.mapInfo removeMessages)))

/-- C05 evaluated on the model (same check as the harness runs on the implementation). -/
def containProp (t0 t1 : List Char) (k n : Nat) : String :=
  match AnalyzedSource.new t0, AnalyzedSource.new t1 with
  | .ok a, .ok b =>
    let da := declDumps a.ast
    let db := declDumps b.ast
    if da.length != n then s!"bad:original-has-{da.length}-declarations" else
    let suffix := n - k - 1
    if db.length < k + suffix then s!"bad:damaged-program-has-only-{db.length}-declarations" else
    match (List.range k).find? (fun i => da[i]? != db[i]?) with
    | some i => s!"bad:declaration-{i}-before-the-damage-changed"
    | none =>
      match (List.range suffix).find? (fun i =>
          (da[n - 1 - i]?).map (·.2) != (db[db.length - 1 - i]?).map (·.2)) with
      | some i => s!"bad:declaration-{n - 1 - i}-after-the-damage-changed"
      | none =>
        let toks := b.tokens.toArray
        let segLo : Nat := if k == 0 then 0 else
          match b.ast.decls[k - 1]? with
          | some g => (toks[g.offset + g.val.info.range.hi - 1]?).map (·.range.hi) |>.getD 0
          | none => 0
        let segHi : Nat := if suffix == 0 then utf8Len t1 else
          match b.ast.decls[db.length - suffix]? with
          | some g =>
            let rec skip (fuel i : Nat) : Nat := match fuel with
              | 0 => i
              | f + 1 => match toks[i]? with
                | some t => if t.kind == .Comment then skip f (i + 1) else i
                | none => i
            (toks[skip toks.size g.offset]?).map (·.range.lo) |>.getD 0
          | none => 0
        match b.errors with
        | .error e => s!"bad:{panicStr e}"
        | .ok errs =>
          match errs.find? (fun e => (e.msg.cls == .lex || e.msg.cls == .parse) &&
              (e.range.lo < segLo || e.range.hi > segHi)) with
          | some e => s!"bad:syntax-diagnostic-{e.range.lo}-{e.range.hi}-outside-damaged-declaration-{segLo}-{segHi}"
          | none => "ok"
  | .error e, _ => s!"bad:{panicStr e}"
  | _, .error e => s!"bad:{panicStr e}"

def parseOps (op : String) (args : List String) (_impl : String) : Option String :=
  match op, args with
  | "PARSE", [t] =>
    (textOfHex t).map fun s =>
      match parseText s with
      | .ok p => Dump.program p
      | .error e => panicStr e
  | "PROPCONTAIN", [t0, t1, k, n] =>
    match textOfHex t0, textOfHex t1, k.toNat?, n.toNat? with
    | some t0, some t1, some k, some n => some (containProp t0 t1 k n)
    | _, _, _, _ => none
  | "INC", t :: rest =>
    match textOfHex t, parseChanges rest with
    | some text, some cs =>
      match AnalyzedSource.new text with
      | .error e => some (panicStr e)
      | .ok d =>
        match d.update cs with
        | .error e => some (panicStr e)
        | .ok u => some (sourceStr u)
    | _, _ => none
  | "PROPINC", t :: rest =>
    match textOfHex t, parseChanges rest with
    | some text, some cs => some (incProp text cs)
    | _, _ => none
  | "PROPINCTEXT", t :: rest =>
    match textOfHex t, parseChanges rest with
    | some text, some cs =>
      some (match cs.foldl (fun (acc : Option (List Char)) c => acc.bind (fun t => replaceRange t c.lo c.hi c.text)) (some text) with
        | none => "ok"
        | some expected =>
          match AnalyzedSource.new text with
          | .error _ => "ok"
          | .ok d =>
            match d.update cs with
            | .error _ => "ok"
            | .ok u => if u.text == expected then "ok" else "bad:text")
    | _, _ => none
  | "SPECDIAG", [t] =>
    (textOfHex t).map fun s =>
      match lex s with
      | .error _ => "n/a"
      | .ok ts =>
        match Grammar.parse ts with
        | some p => if Typing.wellTyped p then "" else "n/a"
        | none => "n/a"
  | "JUDGEFAULT", [t, kind, lo, hi] =>
    -- the independent typing specification must reject the faulty program too (generator and
    -- specification are checked against each other; syntax faults do not parse and are skipped here)
    let specAccepts : Bool := match textOfHex t with
      | none => false
      | some s =>
        match lex s with
        | .error _ => false
        | .ok ts =>
          match Grammar.parse ts with
          | some p => Typing.wellTyped p
          | none => false
    if specAccepts then some s!"bad:specification-accepts-the-faulty-program-{kind}" else
    match lo.toNat?, hi.toNat? with
    | some lo, some hi =>
      -- impl = `!Kind[:args]@a-b!Kind…`
      let ds := (_impl.splitOn "!").filter (· != "")
      let parsed := ds.filterMap (fun d =>
        match d.splitOn "@" with
        | [m, r] =>
          match r.splitOn "-" with
          | [a, b] => match a.toNat?, b.toNat? with
            | some a, some b => some ((m.splitOn ":").headD "", a, b)
            | _, _ => none
          | _ => none
        | _ => none)
      if parsed.length != ds.length then some "bad:unparsable-diagnostics"
      else if parsed.isEmpty then some s!"bad:no-diagnostic-for-{kind}"
      else if parsed.any (fun (k, _, _) => k != kind) then
        some s!"bad:diagnostic-of-another-rule:{(parsed.find? (fun (k, _, _) => k != kind)).map (·.1) |>.getD ""}"
      else if parsed.any (fun (_, a, b) => (a < hi && lo < b) || (a == b && lo ≤ a && a ≤ hi)) then some "ok"
      else some s!"bad:{kind}-not-on-the-culprit-{lo}-{hi}"
    | _, _ => none
  | "JUDGEPUB", [t, _prev, _mode, lo, hi] =>
    -- the diagnostics PUBLISHED for the faulty program (after the history named by `_prev` / `_mode`): every range
    -- lies inside the document and one of them overlaps the culprit (positions by the independent LSP position rules)
    match textOfHex t, lo.toNat?, hi.toNat? with
    | some text, some lo, some hi =>
      let rs := (_impl.splitOn ";").filter (· != "")
      let num := fun (x : String) => x.toNat?
      let parsed := rs.filterMap (fun r =>
        match r.splitOn "-" with
        | [a, b] =>
          match a.splitOn ":", b.splitOn ":" with
          | [l1, c1], [l2, c2] =>
            match num l1, num c1, num l2, num c2 with
            | some l1, some c1, some l2, some c2 => some ((l1, c1), (l2, c2))
            | _, _, _, _ => none
          | _, _ => none
        | _ => none)
      let le := fun (p q : Nat × Nat) => p.1 < q.1 || (p.1 == q.1 && p.2 ≤ q.2)
      let pos := fun (b : Nat) => let p := LspPos.position text b; (p.line, p.col)
      let endP := pos (utf8Len text)
      if parsed.length != rs.length then some "bad:unparsable-ranges"
      else if parsed.isEmpty then some "bad:nothing-published-for-the-faulty-program"
      else if parsed.any (fun (a, b) => !(le a b && le b endP)) then some "bad:published-range-outside-the-document"
      else if parsed.any (fun (a, b) => le a (pos hi) && le (pos lo) b) then some "ok"
      else some s!"bad:no-published-range-on-the-culprit-{lo}-{hi}"
    | _, _, _ => none
  | "SPECPARSE", [t] =>
    (textOfHex t).map fun s =>
      match lex s with
      | .error _ => "n/a"
      | .ok ts =>
        match Grammar.parse ts with
        | some p => Dump.program p
        | none => "n/a"
  | "NEW", [t] =>
    (textOfHex t).map fun s =>
      match AnalyzedSource.new s with
      | .error e => panicStr e
      | .ok d =>
        match d.errors with
        | .error e => panicStr e
        | .ok errs =>
          Dump.program d.ast ++ " ;; " ++ Dump.table d.table ++ " ;; " ++ String.join (errs.map errStr)
  | _, _ => none

end Spl.Ops
