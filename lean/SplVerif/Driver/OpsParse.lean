import SplVerif.Driver.Dump
import SplVerif.Driver.OpsLex
import SplVerif.Model.Parser

namespace Spl.Ops
open Spl Spl.Wire

def parseText (s : List Char) : Except Panic Program :=
  match lex s with
  | .error p => .error p
  | .ok ts => Parse.parse ts

def parseOps (op : String) (args : List String) (_impl : String) : Option String :=
  match op, args with
  | "PARSE", [t] =>
    (textOfHex t).map fun s =>
      match parseText s with
      | .ok p => Dump.program p
      | .error e => panicStr e
  | "NEW", [t] =>
    (textOfHex t).map fun s =>
      match AnalyzedSource.new s with
      | .error e => panicStr e
      | .ok d =>
        match d.errors with
        | .error e => panicStr e
        | .ok errs =>
          Dump.program d.ast ++ " ;; " ++ Dump.table d.table ++ " ;; " ++ String.join (errs.map errStr)
  | _, _ => none

end Spl.Ops
