/-
  Specification-side oracles for the feature properties (C12–C17): answers computed from the
  independent specifications (LexSpec-valid text, Grammar derivation, Typing, Scope, LspPos),
  never from the handler models.
-/
import SplVerif.Driver.OpsFeat
import SplVerif.Spec.Scope
import SplVerif.Spec.LspPos

namespace Spl.Ops
open Spl Spl.Wire

structure SpecDoc where
  text : List Char
  toks : Array Token
  prog : Program          -- absolute ranges
  occs : List Scope.Occ
  env : Typing.GEnv

/-- Only valid, well-typed programs have a specification-side answer. -/
def specDoc (text : List Char) : Option SpecDoc :=
  match lex text with
  | .error _ => none
  | .ok ts =>
    match Grammar.parseAbs ts with
    | none => none
    | some p =>
      if !Typing.wellTyped (Grammar.relativize p) then none else
      match Typing.declare Typing.predefined p.decls with
      | none => none
      | some env => some ⟨text, ts.toArray, p, Scope.occurrences p, env⟩

def SpecDoc.tokRange (d : SpecDoc) (i : Nat) : Option (Pos × Pos) :=
  (d.toks[i]?).map (fun t => (LspPos.position d.text t.range.lo, LspPos.position d.text t.range.hi))

def specPrStr (r : Pos × Pos) : String := s!"{r.1.line}:{r.1.col}-{r.2.line}:{r.2.col}"

/-- token index under the cursor -/
def SpecDoc.tokenAt (d : SpecDoc) (p : Pos) : Option Nat :=
  let idx := LspPos.offsetOf d.text p
  d.toks.toList.findIdx? (fun t => t.range.lo ≤ idx && idx < t.range.hi)

def SpecDoc.occAt (d : SpecDoc) (p : Pos) : Option Scope.Occ :=
  (d.tokenAt p).bind (fun i => d.occs.find? (fun o => o.tok == i))

def sameBinding (a b : Scope.Occ) : Bool :=
  match a.decl, b.decl with
  | some x, some y => x == y
  | none, none => a.name == b.name && a.kind == b.kind
  | _, _ => false

/-- the type declaration (name token) that created the array type written as type expression `te` -/
def creatorOf (d : SpecDoc) : Nat → TypeExpr → Option Nat
  | 0, _ => none
  | fuel + 1, te =>
    match te with
    | .array .. => none       -- anonymous at this use site: the caller decides
    | .named id =>
      if id.value == "int".toList then none else
      match d.prog.decls.findSome? (fun g => match g.val with
          | .type td => if (td.name.map (·.value)) == some id.value then some td else none
          | _ => none) with
      | none => none
      | some td =>
        match td.typeExpr with
        | some ⟨.array .., _⟩ => td.name.map Scope.idTok
        | some ⟨.named u, _⟩ => creatorOf d fuel (.named u)
        | none => none

/-- declared type expression of the variable/parameter whose declaring token is `decl` -/
def declaredType (d : SpecDoc) (decl : Nat) : Option TypeExpr :=
  d.prog.decls.findSome? (fun g => match g.val with
    | .proc pd =>
      (pd.params.findSome? (fun p => match p.val with
        | .valid _ _ (some n) (some te) _ => if Scope.idTok n == decl then some te.val else none
        | _ => none)).orElse (fun _ =>
      pd.vars.findSome? (fun v => match v.val with
        | .valid _ (some n) (some te) _ => if Scope.idTok n == decl then some te.val else none
        | _ => none))
    | _ => none)

def specGoto (d : SpecDoc) (kind : String) (p : Pos) : String :=
  match d.occAt p with
  | none => "none"
  | some o =>
    let target : Option Nat := match kind with
      | "decl" | "def" => o.decl
      | "impl" => if o.kind == .proc then o.decl else none
      | _ =>
        match o.kind with
        | .type => o.decl
        | .proc => none
        | _ => (o.decl.bind (declaredType d)).bind (creatorOf d 64)
    match target.bind d.tokRange with
    | some r => specPrStr r
    | none => "none"

def sortedRanges (rs : List (Pos × Pos)) : List (Pos × Pos) :=
  (rs.toArray.qsort (fun a b => a.1.line < b.1.line || (a.1.line == b.1.line && a.1.col < b.1.col))).toList

def specRefs (d : SpecDoc) (p : Pos) (includeSelf : Bool) (suffix : String) : String :=
  match d.occAt p with
  | none => "none"
  | some o =>
    if !includeSelf == false && o.name == "int".toList then "none" else
    let os := d.occs.filter (fun x => sameBinding x o && (includeSelf || x.tok != o.tok))
    "[" ++ ",".intercalate ((sortedRanges (os.filterMap (fun x => d.tokRange x.tok))).map (fun r => specPrStr r ++ suffix)) ++ "]"

/-! rendering of signatures (independent re-statement of the Display rules) -/

def tyStr : Typing.Ty → String
  | .int => "int"
  | .bool => "boolean"
  | .arr n e _ => s!"array [{n}] of {tyStr e}"

def varStr (v : Typing.VarInfo) : String := (if v.isRef then "ref " else "") ++ String.ofList v.name ++ ": " ++ tyStr v.ty

def sigStr (s : Typing.ProcSig) : String := "proc " ++ String.ofList s.name ++ "(" ++ ", ".intercalate (s.params.map varStr) ++ ")"

def builtinDoc (n : List Char) : Option String :=
  (Gen.builtinProcs.find? (fun (k, _, _) => k.toList == n)).map (fun (_, d, _) => d)

def trimStartS (s : List Char) : List Char := s.dropWhile Parse.isRustWhitespace

/-- doc comments of the declaration whose declaring token is `decl` -/
def docOfDecl (d : SpecDoc) (decl : Nat) : List (List Char) :=
  (d.prog.decls.findSome? (fun g => match g.val with
    | .type td => if td.name.map Scope.idTok == some decl then some td.doc else none
    | .proc pd =>
      if pd.name.map Scope.idTok == some decl then some pd.doc else
      (pd.params.findSome? (fun p => match p.val with
        | .valid doc _ (some n) _ _ => if Scope.idTok n == decl then some doc else none
        | _ => none)).orElse (fun _ =>
      pd.vars.findSome? (fun v => match v.val with
        | .valid doc (some n) _ _ => if Scope.idTok n == decl then some doc else none
        | _ => none))
    | _ => none)).getD []

def docSuffix (doc : List Char) : String :=
  if doc.isEmpty then "" else "\n---\n" ++ String.ofList (trimStartS doc) ++ "\n"

def specHover (d : SpecDoc) (p : Pos) : String :=
  match d.occAt p with
  | none => "none"
  | some o =>
    let body : Option (String × List Char) :=
      match o.kind with
      | .type =>
        match d.env.find o.name with
        | some (.type _ t) => some (tyStr t, (o.decl.map (docOfDecl d)).getD [] |>.flatten)
        | _ => none
      | .proc =>
        match d.env.find o.name with
        | some (.proc s) =>
          let doc : List Char := match o.decl with
            | some dt => (docOfDecl d dt).flatten
            | none => ((builtinDoc o.name).getD "").toList
          some (sigStr s, doc)
        | _ => none
      | _ =>
        -- variable / parameter of the enclosing procedure
        match d.prog.decls[o.ctx]? with
        | some ⟨.proc pd, _⟩ =>
          match pd.name.bind (fun n => d.env.find n.value) with
          | some (.proc s) =>
            ((s.params ++ s.locals).find? (fun v => v.name == o.name)).map (fun v =>
              (varStr v, (o.decl.map (docOfDecl d)).getD [] |>.flatten))
          | _ => none
        | _ => none
    match body, (d.tokenAt p).bind d.tokRange with
    | some (s, doc), some r =>
      let v := "```spl\n" ++ s ++ "\n```" ++ docSuffix doc
      s!"{specPrStr r}|{hexOfText v.toList}"
    | _, _ => "none"

/-- first/last token of the statement-level call containing byte index `idx` -/
def callsOf : Stmt → List CallStmt
  | s => go 64 s
where
  go : Nat → Stmt → List CallStmt
    | 0, _ => []
    | f + 1, .call c => let _ := f; [c]
    | f + 1, .ifS _ t e _ => goOpt f t ++ goOpt f e
    | f + 1, .whileS _ b _ => goOpt f b
    | f + 1, .block ss _ => goList f ss
    | _, _ => []
  goOpt : Nat → OptStmt → List CallStmt
    | 0, _ => []
    | f + 1, .some s _ => go f s
    | _, .none => []
  goList : Nat → StmtList → List CallStmt
    | 0, _ => []
    | f + 1, .cons s _ r => go f s ++ goList f r
    | _, .nil => []

def specSig (d : SpecDoc) (p : Pos) : String :=
  let idx := LspPos.offsetOf d.text p
  let calls := d.prog.decls.flatMap (fun g => match g.val with
    | .proc pd => pd.stmts.flatMap (fun s => callsOf s.val)
    | _ => [])
  -- a call's extent: from its leading comments to the end of its last token
  match calls.find? (fun c =>
      match d.toks[c.info.range.lo]?, d.toks[c.info.range.hi - 1]? with
      | some a, some b => a.range.lo ≤ idx && idx < b.range.hi
      | _, _ => false) with
  | none => "none"
  | some c =>
    match d.env.find c.name.value with
    | some (.proc s) =>
      let toks := (d.toks.extract c.info.range.lo c.info.range.hi).toList
      let commas := (toks.filter (fun t => t.kind == .Comma && t.range.lo < idx)).length
      let act := if s.params.isEmpty then "_" else toString commas
      let doc : List Char := match (Scope.findGlobal (Scope.globalsOf d.prog) c.name.value).bind (·.decl) with
        | some dt => (docOfDecl d dt).flatten
        | none => ((builtinDoc c.name.value).getD "").toList
      let docS := if doc.isEmpty then "_" else hexOfText ("---\n" ++ String.ofList (trimStartS doc) ++ "\n").toList
      s!"{hexOfText (sigStr s).toList}|[{",".intercalate (s.params.map (fun v => hexOfText (varStr v).toList))}]|active={act}|doc={docS}|n=1"
    | _ => "none"

def lineOf (d : SpecDoc) (byte : Nat) : Nat := (LspPos.position d.text byte).line

def specFold (d : SpecDoc) : String :=
  let rs := d.prog.decls.filterMap (fun g => match g.val with
    | .proc pd =>
      -- first own token: the `proc` keyword after the documentation comments
      let first := (List.range (pd.info.range.hi - pd.info.range.lo)).map (· + pd.info.range.lo)
        |>.find? (fun i => (d.toks[i]?).map (·.kind != .Comment) |>.getD false)
      match first.bind (fun i => d.toks[i]?), d.toks[pd.info.range.hi - 1]? with
      | some a, some b => some s!"{lineOf d a.range.lo}-{lineOf d b.range.hi}"
      | _, _ => none
    | _ => none)
  "[" ++ ",".intercalate rs ++ "]"

/-- Expected semantic tokens of a valid program: absolute (line, col, len, type, modifier). -/
def specSemAbs (d : SpecDoc) : List (Nat × Nat × Nat × Nat × Nat) :=
  d.toks.toList.zipIdx.filterMap (fun (t, i) =>
    let cls : Option (Nat × Nat) := match t.kind with
      | .Comment => some (0, 0)
      | .Int | .Hex | .Char => some (2, 0)
      | .Ident =>
        (d.occs.find? (fun o => o.tok == i)).map (fun o =>
          ((match o.kind with | .type => 3 | .proc => 4 | .param => 5 | .var => 6), if o.isDecl then 1 else 0))
      | k => if Feat.isKeywordKind k then some (1, 0) else none
    cls.bind (fun (ty, m) =>
      match Feat.sliceText d.text t.range with
      | some s =>
        let s' := (s.reverse.dropWhile (fun c => c == '\n' || c == '\r')).reverse
        let p := LspPos.position d.text t.range.lo
        some (p.line, p.col, LspPos.unitsOf s', ty, m)
      | none => none))

def encodeSem (abs : List (Nat × Nat × Nat × Nat × Nat)) : String :=
  let rec go : List (Nat × Nat × Nat × Nat × Nat) → Nat → Nat → List String
    | [], _, _ => []
    | (l, c, n, ty, m) :: rest, pl, pc =>
      s!"{l - pl},{if l == pl then c - pc else c},{n},{ty},{m}" :: go rest l c
  " ".intercalate (go abs 0 0)

/-- Well-formedness of an implementation's semantic token stream for ANY document. -/
def judgeSem (text : List Char) (impl : String) : String :=
  match lex text with
  | .error _ => "bad:lex"
  | .ok toks =>
    let items := (impl.splitOn " ").filter (· != "")
    let parsed := items.filterMap (fun s => match (s.splitOn ",").map String.toNat? with
      | [some a, some b, some c, some d, some e] => some (a, b, c, d, e)
      | _ => none)
    if parsed.length != items.length then "bad:unparsable" else
    -- lexical tokens as (line, col, len)
    let lexical := toks.filterMap (fun t =>
      if t.kind == .Eof then none else
      match Feat.sliceText text t.range with
      | some s =>
        let s' := (s.reverse.dropWhile (fun c => c == '\n' || c == '\r')).reverse
        let p := LspPos.position text t.range.lo
        some (p.line, p.col, LspPos.unitsOf s')
      | none => none)
    let rec decode : List (Nat × Nat × Nat × Nat × Nat) → Nat → Nat → Bool → Nat → String
      | [], _, _, _, _ => "ok"
      | (dl, ds, n, ty, m) :: rest, pl, pc, first, pend =>
        let l := pl + dl
        let c := if dl == 0 then pc + ds else ds
        if !first && dl == 0 && c < pend then "bad:overlap-or-not-increasing"
        else if !first && dl == 0 && ds == 0 then "bad:not-strictly-increasing"
        else if !lexical.contains (l, c, n) then s!"bad:not-a-lexical-token@{l}:{c}+{n}"
        else if ty > 6 || m > 1 then "bad:type-or-modifier-out-of-legend"
        else decode rest l c false (c + n)
    decode parsed 0 0 true 0

/-- labels by kind from the canonical completion answer `[hexlabel:Kind:…,…]` -/
def parseItems (impl : String) : Option (List (List Char × String)) :=
  if impl == "none" then some [] else
  let body := (impl.drop 1).dropEnd 1 |>.toString
  if body == "" then some [] else
  (body.splitOn ",").mapM (fun it =>
    match it.splitOn ":" with
    | l :: k :: _ => (textOfHex l).map (fun t => (t, k))
    | _ => none)

def sameSet (a b : List (List Char)) : Bool := a.all (b.contains ·) && b.all (a.contains ·)

/-- index of the global declaration whose token extent (leading comments .. last token) contains `idx` -/
def SpecDoc.declAt (d : SpecDoc) (idx : Nat) : Option (Ref GlobalDecl) :=
  d.prog.decls.find? (fun g =>
    match d.toks[g.val.info.range.lo]?, d.toks[g.val.info.range.hi - 1]? with
    | some a, some b => a.range.lo ≤ idx && idx < b.range.hi
    | _, _ => false)

def localsAt (d : SpecDoc) (g : Ref GlobalDecl) : List (List Char) :=
  match g.val with
  | .proc pd => (Scope.localsOf pd).map (·.name)
  | _ => []

def allProcs (d : SpecDoc) : List (List Char) :=
  (Scope.globalsOf d.prog).filterMap (fun g => if g.kind == .proc then some g.name else none)

def allTypes (d : SpecDoc) : List (List Char) :=
  (Scope.globalsOf d.prog).filterMap (fun g => if g.kind == .type then some g.name else none)

/-- cls: stmt | type | top | scope -/
def judgeComp (d : SpecDoc) (cls : String) (p : Pos) (impl : String) : String :=
  match parseItems impl with
  | none => "bad:unparsable"
  | some items =>
    let idx := LspPos.offsetOf d.text p
    -- "if the cursor is after a token it counts as on it": the enclosing declaration is judged one byte back
    let g := d.declAt (if idx > 0 then idx - 1 else 0)
    let vars := items.filterMap (fun (l, k) => if k == "Variable" then some l else none)
    let funs := items.filterMap (fun (l, k) => if k == "Function" then some l else none)
    let structs := items.filterMap (fun (l, k) => if k == "Struct" then some l else none)
    let locals := match g with | some g => localsAt d g | none => []
    match cls with
    | "stmt" | "stmtbranch" =>
      if impl == "none" then "bad:no-proposals-at-a-statement-position"
      else if !sameSet vars locals then "bad:variables-are-not-exactly-the-locals-of-the-procedure"
      else if !sameSet funs (allProcs d) then "bad:procedures-are-not-exactly-the-declared-and-predefined-ones"
      else "ok"
    | "type" =>
      if !sameSet structs (allTypes d) then "bad:types-are-not-exactly-the-declared-types-plus-int"
      else if !vars.isEmpty || !funs.isEmpty then "bad:non-types-at-a-type-position"
      else "ok"
    | "top" =>
      if items.all (fun (l, _) => ["proc".toList, "type".toList, "main".toList].contains l) && !items.isEmpty then "ok"
      else "bad:not-only-declaration-starters-at-top-level"
    | _ =>
      if !vars.all (locals.contains ·) then "bad:a-name-local-to-another-procedure-is-proposed"
      else if !funs.all ((allProcs d).contains ·) then "bad:unknown-procedure-proposed"
      else if !structs.all ((allTypes d).contains ·) then "bad:unknown-type-proposed"
      else "ok"

def specOps (op : String) (args : List String) (impl : String) : Option String :=
  let pos := fun (l c : String) => match l.toNat?, c.toNat? with
    | some l, some c => some (⟨l, c⟩ : Pos)
    | _, _ => none
  let withSpec := fun (t : String) (k : SpecDoc → String) =>
    (textOfHex t).map (fun text => match specDoc text with
      | some d => k d
      | none => "n/a")
  match op, args with
  | "SPECGOTO", [k, t, l, c] => (pos l c).bind (fun p => withSpec t (fun d => specGoto d k p))
  | "SPECREFS", [t, l, c] => (pos l c).bind (fun p => withSpec t (fun d => specRefs d p false ""))
  | "SPECREN", [t, l, c, n] => (pos l c).bind (fun p => withSpec t (fun d =>
      match d.occAt p with
      | some o => if o.name == "int".toList then "none" else specRefs d p true s!"=>{n}"
      | none => "none"))
  | "SPECPREP", [t, l, c] => (pos l c).bind (fun p => withSpec t (fun d =>
      match d.occAt p with
      | some o => if o.name == "int".toList then "none" else ((d.tokRange o.tok).map specPrStr).getD "none"
      | none => "none"))
  | "SPECHOV", [t, l, c] => (pos l c).bind (fun p => withSpec t (fun d => specHover d p))
  | "SPECSIG", [t, l, c] => (pos l c).bind (fun p => withSpec t (fun d => specSig d p))
  | "SPECFOLD", [t] => withSpec t specFold
  | "SPECSEM", [t] => withSpec t (fun d => encodeSem (specSemAbs d))
  | "JUDGECOMP", [cls, t, l, c] => (pos l c).bind (fun p => withSpec t (fun d => judgeComp d cls p impl))
  | "JUDGESEM", [t] => (textOfHex t).map (fun text => judgeSem text impl)
  | _, _ => none

end Spl.Ops
