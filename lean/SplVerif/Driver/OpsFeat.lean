import SplVerif.Driver.Dump
import SplVerif.Model.Features
import SplVerif.Model.Format

namespace Spl.Ops
open Spl Spl.Wire Spl.Feat

def posStr (p : Pos) : String := s!"{p.line}:{p.col}"
def prStr (r : PosRange) : String := s!"{posStr r.1}-{posStr r.2}"

def withDoc (t : String) (k : AnalyzedSource → String) : Option String :=
  (textOfHex t).map fun text =>
    match AnalyzedSource.new text with
    | .error e => panicStr e
    | .ok d => k d

def locStr (r : Except Panic (Option PosRange)) : String :=
  match r with
  | .error e => panicStr e
  | .ok none => "none"
  | .ok (some pr) => prStr pr

def sortRanges (rs : List PosRange) : List PosRange :=
  (rs.toArray.qsort (fun a b => a.1.line < b.1.line || (a.1.line == b.1.line && a.1.col < b.1.col))).toList

def featOps (op : String) (args : List String) (_impl : String) : Option String :=
  match op, args with
  | "PUB", t :: _ =>
    -- the ranges of the diagnostics the broker publishes for a document with this text (however the server got
    -- to it: freshly opened, re-opened after a close, or replaced by a full-text change; extra arguments name that
    -- history for the implementation side)
    withDoc t fun d =>
      match d.errors with
      | .error e => panicStr e
      | .ok errs => String.join (errs.map (fun e => prStr (asPosRange e.range d.text) ++ ";"))
  | "GOTO", [k, t, l, c] =>
    match l.toNat?, c.toNat? with
    | some l, some c => withDoc t fun d =>
      locStr (match k with
        | "decl" | "def" => gotoDeclaration d ⟨l, c⟩
        | "typedef" => gotoTypeDefinition d ⟨l, c⟩
        | _ => gotoImplementation d ⟨l, c⟩)
    | _, _ => none
  | "PREP", [t, l, c] =>
    match l.toNat?, c.toNat? with
    | some l, some c => withDoc t fun d => locStr (prepareRename d ⟨l, c⟩)
    | _, _ => none
  | "REFS", [t, l, c] =>
    match l.toNat?, c.toNat? with
    | some l, some c => withDoc t fun d =>
      match references d ⟨l, c⟩ with
      | .error e => panicStr e
      | .ok none => "none"
      | .ok (some rs) => "[" ++ ",".intercalate ((sortRanges rs).map prStr) ++ "]"
    | _, _ => none
  | "REN", [t, l, c, n] =>
    match l.toNat?, c.toNat? with
    | some l, some c => withDoc t fun d =>
      match rename d ⟨l, c⟩ with
      | .error e => panicStr e
      | .ok none => "none"
      | .ok (some rs) => "[" ++ ",".intercalate ((sortRanges rs).map (fun r => s!"{prStr r}=>{n}")) ++ "]"
    | _, _ => none
  | "HOV", [t, l, c] =>
    match l.toNat?, c.toNat? with
    | some l, some c => withDoc t fun d =>
      match hover d ⟨l, c⟩ with
      | .error e => panicStr e
      | .ok none => "none"
      | .ok (some (r, v)) => s!"{prStr r}|{hexOfText v}"
    | _, _ => none
  | "SIG", [t, l, c] =>
    match l.toNat?, c.toNat? with
    | some l, some c => withDoc t fun d =>
      match signatureHelp d ⟨l, c⟩ with
      | .error e => panicStr e
      | .ok none => "none"
      | .ok (some h) =>
        let act := match h.active with | some a => toString a | none => "_"
        let doc := match h.doc with | some x => hexOfText x | none => "_"
        s!"{hexOfText h.label}|[{",".intercalate (h.params.map hexOfText)}]|active={act}|doc={doc}|n=1"
    | _, _ => none
  | "SEM", [t] => withDoc t fun d =>
      match semanticTokens d with
      | .error e => panicStr e
      | .ok ts => " ".intercalate (ts.map (fun s => s!"{s.deltaLine},{s.deltaStart},{s.length},{s.tokenType},{s.modifiers}"))
  | "COMP", [t, l, c] =>
    match l.toNat?, c.toNat? with
    | some l, some c => withDoc t fun d =>
      match completion d ⟨l, c⟩ with
      | .error e => panicStr e
      | .ok none => "none"
      | .ok (some items) =>
        let o := fun (x : Option (List Char)) => match x with | some v => hexOfText v | none => "_"
        let strs := items.map (fun i => s!"{hexOfText i.label}:{i.kind}:{o i.detail}:{o i.insertText}:{o i.doc}")
        "[" ++ ",".intercalate (strs.toArray.qsort (· < ·)).toList ++ "]"
    | _, _ => none
  | "FMT", [t, sp, ts] =>
    match ts.toNat? with
    | some ts => withDoc t fun d =>
      match Fmt.format d (sp == "1") ts with
      | .error e => panicStr e
      | .ok none => "null"
      | .ok (some (r, txt)) => s!"{prStr r}=>{hexOfText txt}"
    | none => none
  | "FOLD", [t] => withDoc t fun d =>
      match fold d with
      | .error e => panicStr e
      | .ok fs => "[" ++ ",".intercalate (fs.map (fun (a, b) => s!"{a}-{b}")) ++ "]"
  | _, _ => none

end Spl.Ops
