import SplVerif.Spec.RpcSpec

namespace Spl.Ops
open Spl Spl.Rpc

def parseCMsg (s : String) : Option CMsg :=
  match s.splitOn ":" with
  | ["N", m] => some (.note m)
  | [r, m] =>
    if r.startsWith "R" then
      match (r.drop 1).toString.toInt? with
      | some id => some (.req id m)
      | none => none
    else none
  | _ => none

def outStr : Out → String
  | .ok id => s!"R{id}:ok"
  | .err id c => s!"R{id}:{c}"

def resStr (r : List Out × Nat) : String :=
  " ".intercalate (r.1.map outStr) ++ s!" ; exit={r.2}"

def rpcOps (op : String) (args : List String) (_impl : String) : Option String :=
  match op with
  | "RPC" => (args.mapM parseCMsg).map (fun ms => resStr (Rpc.run ms))
  | "SPECRPC" => (args.mapM parseCMsg).map (fun ms => resStr (RpcSpec.run ms))
  | _ => none

end Spl.Ops
