import SplVerif.Driver.Wire
import SplVerif.Model.Table

namespace Spl.Dump
open Spl Spl.Wire

def info (i : AstInfo) : String := s!"@{i.range.lo}-{i.range.hi}" ++ String.join (i.errors.map errStr)

def opt {α} (o : Option α) (f : α → String) : String :=
  match o with
  | some a => f a
  | none => "_"

def rf {α} (r : Ref α) (f : α → String) : String := s!"+{r.offset}:{f r.val}"

def list {α} (xs : List α) (f : α → String) : String := "[" ++ " ".intercalate (xs.map f) ++ "]"

def doc (d : List (List Char)) : String := "doc[" ++ ",".intercalate (d.map hexOfText) ++ "]"

def ident (i : Identifier) : String := s!"(Id:{hexOfText i.value} {info i.info})"

def intLit (l : IntLiteral) : String :=
  let v := match l.value with
    | some n => toString n
    | none => "none"
  s!"(Int:{v} {info l.info})"

def opStr (o : Operator) : String := String.ofList o.symbol

mutual
  def var : Var → String
    | .named i => s!"(Named {ident i})"
    | .access a idx i => s!"(Access {info i} {var a} {optExpr idx})"
  def expr : Expr → String
    | .binary op l r i => s!"(Bin:{opStr op} {info i} {expr l} {expr r})"
    | .bracketed e i => s!"(Brk {info i} {expr e})"
    | .intLit l => intLit l
    | .unary op e i => s!"(Un:{opStr op} {info i} {expr e})"
    | .var v => s!"(Var {var v})"
    | .error i => s!"(ExprErr {info i})"
  def optExpr : OptExpr → String
    | .none => "_"
    | .some e o => s!"+{o}:{expr e}"
end

mutual
  def typeExpr : TypeExpr → String
    | .named i => s!"(NamedT {ident i})"
    | .array sz b i => s!"(ArrayT {info i} {opt sz intLit} {optType b})"
  def optType : OptType → String
    | .none => "_"
    | .some t o => s!"+{o}:{typeExpr t}"
end

mutual
  def stmt : Stmt → String
    | .empty i => s!"(Empty {info i})"
    | .error i => s!"(StmtErr {info i})"
    | .assign a => s!"(Assign {info a.info} {var a.target} {opt a.expr (fun r => rf r expr)})"
    | .call c => s!"(Call {info c.info} {ident c.name} {list c.args (fun r => rf r expr)})"
    | .ifS c t e i => s!"(If {info i} {opt c (fun r => rf r expr)} {optStmt t} {optStmt e})"
    | .whileS c b i => s!"(While {info i} {opt c (fun r => rf r expr)} {optStmt b})"
    | .block ss i => s!"(Block {info i} [{stmtList ss}])"
  def optStmt : OptStmt → String
    | .none => "_"
    | .some s o => s!"+{o}:{stmt s}"
  def stmtList : StmtList → String
    | .nil => ""
    | .cons s o .nil => s!"+{o}:{stmt s}"
    | .cons s o r => s!"+{o}:{stmt s} {stmtList r}"
end

def varDec : VarDecl → String
  | .error i => s!"(VarErr {info i})"
  | .valid d n t i => s!"(VarDec {info i} {doc d} {opt n ident} {opt t (fun r => rf r typeExpr)})"

def paramDec : ParamDecl → String
  | .error i => s!"(ParErr {info i})"
  | .valid d r n t i => s!"(ParDec {info i} {doc d} ref={r} {opt n ident} {opt t (fun r => rf r typeExpr)})"

def global : GlobalDecl → String
  | .error i => s!"(GlobErr {info i})"
  | .type t => s!"(TypeDec {info t.info} {doc t.doc} {opt t.name ident} {opt t.typeExpr (fun r => rf r typeExpr)})"
  | .proc p =>
    s!"(ProcDec {info p.info} {doc p.doc} {opt p.name ident} {list p.params (fun r => rf r paramDec)} " ++
    s!"{list p.vars (fun r => rf r varDec)} {list p.stmts (fun r => rf r stmt)})"

def program (p : Program) : String := s!"(Program {info p.info} {list p.decls (fun r => rf r global)})"

end Spl.Dump

namespace Spl.Dump
open Spl Spl.Wire

def dataType : DataType → String
  | .int => "int"
  | .bool => "bool"
  | .unknown => "_"
  | .array sz b c =>
    let s := match sz with
      | some n => toString n
      | none => "_"
    s!"(arr {s} {dataType b} {hexOfText c})"

def varEntry (v : VariableEntry) : String :=
  s!"(V {ident v.name} ref={v.isRef} {opt v.dataType dataType} @{v.range.lo}-{v.range.hi} doc={opt v.doc hexOfText})"

def charsLt (a b : List Char) : Bool := (compare (String.ofList a) (String.ofList b)) == .lt

def sortByKey {α} (t : List (List Char × α)) : List (List Char × α) :=
  (t.toArray.qsort (fun a b => charsLt a.1 b.1)).toList

def localTable (t : LocalTable) : String :=
  "{" ++ " ".intercalate ((sortByKey t).map (fun (k, e) =>
    match e with
    | .variable v => s!"{hexOfText k}=var{varEntry v}"
    | .parameter v => s!"{hexOfText k}=par{varEntry v}")) ++ "}"

def table (t : GlobalTable) : String :=
  "{" ++ " ".intercalate ((sortByKey t).filterMap (fun (k, e) =>
    match e with
    | .type te =>
      if (Entry.type te).isDefault then none else
      some s!"{hexOfText k}=(T {ident te.name} {opt te.dataType dataType} @{te.range.lo}-{te.range.hi} doc={opt te.doc hexOfText})"
    | .procedure p =>
      if (Entry.procedure p).isDefault then none else
      some (s!"{hexOfText k}=(P {ident p.name} {list p.parameters varEntry} {localTable p.localTable} " ++
        s!"@{p.range.lo}-{p.range.hi} doc={opt p.doc hexOfText})"))) ++ "}"

end Spl.Dump
