/-
  C09, assembly: tokens of lexically valid text are well formed (so the printed pieces of `FmtLex` apply), and the
  formatter's output for a comment-free valid program tokenises into the types of the program's tokens.
-/
import SplVerif.Lemmas.FmtDecl
import SplVerif.Lemmas.ParseConform

namespace Spl.FmtProgram
open Spl Spl.Grammar Spl.Fmt Spl.FmtLex Spl.Feat Spl.FmtExpr Spl.FmtStmt Spl.FmtDecl

/-! ### tokens of lexically valid text -/

/-- a proper (non-`Eof`) well-formed token type -/
def Q (ty : TokenType) : Prop := tokWF ty = true ∧ ty ≠ .Eof

theorem symbols_q : ∀ e ∈ LexSpec.symbols, Q e.2 := by
  intro e he
  simp only [LexSpec.symbols, List.mem_cons, List.mem_nil_iff, or_false] at he
  rcases he with rfl | rfl | rfl | rfl | rfl | rfl | rfl | rfl | rfl | rfl | rfl | rfl | rfl | rfl | rfl | rfl | rfl | rfl | rfl | rfl <;>
    exact ⟨rfl, by intro h; cases h⟩

theorem keywords_q : ∀ e ∈ LexSpec.keywords, Q e.2 := by
  intro e he
  simp only [LexSpec.keywords, List.mem_cons, List.mem_nil_iff, or_false] at he
  rcases he with rfl | rfl | rfl | rfl | rfl | rfl | rfl | rfl | rfl <;> exact ⟨rfl, by intro h; cases h⟩

theorem proposals_q (s : List Char) (hm : LexSpec.malformedAt s = false) : ∀ p ∈ LexSpec.proposals s, Q p.2 := by
  intro p hp
  simp only [LexSpec.proposals, List.mem_append] at hp
  rcases hp with ((((hp | hp) | hp) | hp) | hp) | hp
  · -- comment
    unfold LexSpec.comment at hp
    split at hp
    · dsimp only at hp
      split at hp <;> (simp only [List.mem_singleton] at hp; subst hp; exact ⟨rfl, by intro h; cases h⟩)
    · cases hp
  · -- symbol
    simp only [LexSpec.symbol, List.mem_filterMap] at hp
    obtain ⟨e, he, h⟩ := hp
    obtain ⟨sp, ty⟩ := e
    split at h
    · simp only [Option.some.injEq] at h; subst h; exact symbols_q _ he
    · cases h
  · -- word
    unfold LexSpec.word at hp
    split at hp
    · rename_i ch rest
      split at hp
      · rename_i hl
        have htw : (ch :: rest).takeWhile LexSpec.wordChar = ch :: rest.takeWhile LexSpec.wordChar := by
          simp [List.takeWhile, LexSpec.wordChar, hl]
        simp only at hp
        split at hp
        · rename_i kw ty hf
          simp only [List.mem_singleton] at hp; subst hp
          exact keywords_q _ (List.mem_of_find?_eq_some hf)
        · rename_i hf
          simp only [List.mem_singleton] at hp; subst hp
          refine ⟨?_, by intro h; cases h⟩
          rw [htw] at hf ⊢
          simp only [tokWF, hl, Bool.true_and, Bool.and_eq_true, List.all_eq_true, Option.isNone_iff_eq_none]
          exact ⟨fun x hx => Conform.mem_takeWhile _ _ x hx, hf⟩
      · cases hp
    · cases hp
  · -- hexadecimal
    unfold LexSpec.hexadecimal at hp
    split at hp
    · rename_i r
      dsimp only at hp
      split at hp
      · cases hp
      · simp only [List.mem_singleton] at hp; subst hp
        refine ⟨?_, by intro h; cases h⟩
        have : ((r.takeWhile LexSpec.hexdigit).isEmpty ||
            decide (LexSpec.value 16 (r.takeWhile LexSpec.hexdigit) 0 ≥ 4294967296)) = false := hm
        simp only [Bool.or_eq_false_iff, decide_eq_false_iff_not, ge_iff_le, Nat.not_le] at this
        simp [tokWF, this.2]
    · cases hp
  · -- decimal
    simp only [LexSpec.decimal] at hp
    split at hp
    · cases hp
    · rename_i hne
      simp only [List.mem_singleton] at hp; subst hp
      refine ⟨?_, by intro h; cases h⟩
      simp only [tokWF, decide_eq_true_eq]
      cases s with
      | nil => simp at hne
      | cons ch rest =>
        by_cases h0x : ∃ r, ch :: rest = '0' :: 'x' :: r
        · obtain ⟨r, e⟩ := h0x
          rw [e]
          simp [List.takeWhile, LexSpec.digit, LexSpec.value, LexSpec.valOf]
        · by_cases htick : ch = '\''
          · subst htick
            simp [List.takeWhile, LexSpec.digit] at hne
          · have hd : LexSpec.digit ch = true := by
              cases hdd : LexSpec.digit ch
              · simp [List.takeWhile, hdd] at hne
              · rfl
            unfold LexSpec.malformedAt at hm
            split at hm
            · rename_i r heq; exact absurd ⟨r, heq⟩ h0x
            · rename_i heq; simp only [List.cons.injEq] at heq; exact absurd heq.1 htick
            · rename_i c' r' heq
              simp only [List.cons.injEq] at heq
              obtain ⟨rfl, rfl⟩ := heq
              simp only [hd, Bool.true_and, decide_eq_false_iff_not, ge_iff_le, Nat.not_le] at hm
              exact hm
            · rename_i heq; cases heq
  · -- character literal
    unfold LexSpec.charLit at hp
    split at hp
    · simp only [List.mem_singleton] at hp; subst hp; exact ⟨rfl, by intro h; cases h⟩
    · simp only [List.mem_singleton] at hp; subst hp; exact ⟨rfl, by intro h; cases h⟩
    · cases hp

theorem longest_mem : ∀ (ps : List LexSpec.Proposal) (p : LexSpec.Proposal), LexSpec.longest ps = some p → p ∈ ps
  | [], p, h => by simp [LexSpec.longest] at h
  | q :: ps, p, h => by
    simp only [LexSpec.longest] at h
    cases hl : LexSpec.longest ps with
    | none => simp only [hl, Option.some.injEq] at h; subst h; simp
    | some r =>
      simp only [hl] at h
      split at h
      · simp only [Option.some.injEq] at h; subst h; exact List.mem_cons_of_mem _ (longest_mem ps _ hl)
      · simp only [Option.some.injEq] at h; subst h; simp

/-- the specification's token sequence: proper well-formed tokens without errors, then the `Eof` token -/
theorem go_shape : ∀ (fuel : Nat) (s : List Char) (off : Nat) (ts : List Token), LexSpec.go fuel s off = some ts →
    ∃ front e, ts = front ++ [e] ∧ e.ty = .Eof ∧ e.errors = [] ∧ ∀ t ∈ front, Q t.ty ∧ t.errors = []
  | 0, s, off, ts, h => by simp [LexSpec.go] at h
  | fuel + 1, [], off, ts, h => by
    simp only [LexSpec.go, Option.some.injEq] at h
    subst h
    exact ⟨[], _, rfl, rfl, rfl, by intro t ht; cases ht⟩
  | fuel + 1, ch :: cs, off, ts, h => by
    rw [LexSpec.go] at h
    by_cases hw : LexSpec.ws ch = true
    · simp only [hw, if_true] at h
      exact go_shape fuel cs _ ts h
    · simp only [hw, Bool.false_eq_true, if_false] at h
      by_cases hm : LexSpec.malformedAt (ch :: cs) = true
      · simp [hm] at h
      · have hm' : LexSpec.malformedAt (ch :: cs) = false := by simpa using hm
        simp only [hm, Bool.false_eq_true, if_false] at h
        cases hl : LexSpec.longest (LexSpec.proposals (ch :: cs)) with
        | none => simp [hl] at h
        | some p =>
          obtain ⟨n, ty⟩ := p
          simp only [hl] at h
          by_cases hn : n = 0
          · simp [hn] at h
          · simp only [hn, if_false] at h
            cases hr : LexSpec.go fuel ((ch :: cs).drop n) (off + LexSpec.bytes ((ch :: cs).take n)) with
            | none => simp [hr] at h
            | some r =>
              simp only [hr, Option.some.injEq] at h
              subst h
              obtain ⟨front, e, rfl, he, hee, hf⟩ := go_shape fuel _ _ r hr
              refine ⟨_ :: front, e, rfl, he, hee, ?_⟩
              intro t ht
              rcases List.mem_cons.mp ht with rfl | ht
              · exact ⟨proposals_q _ hm' _ (longest_mem _ _ hl), rfl⟩
              · exact hf t ht


/-! ### assembly -/

theorem al_tsFrom (c : Ctx) : ∀ (k p : Nat), c.g.all.size - p ≤ k → Al c p (ParseConform.tsFrom c.g.all p)
  | 0, p, h => by
    rw [ParseConform.tsFrom_unfold]
    have : c.g.all[p]? = none := by simp; omega
    simp [this, Al]
  | k + 1, p, h => by
    rw [ParseConform.tsFrom_unfold]
    cases hp : c.g.all[p]? with
    | none => simp [Al]
    | some t =>
      have hk : (t.kind != Kind.Comment) = true := by simpa using c.nc p t hp
      have hsz := (Array.getElem?_eq_some_iff.mp hp).1
      simp only [hk, if_true]
      exact ⟨rfl, ⟨t, hp, rfl⟩, al_tsFrom c k (p + 1) (by omega)⟩

/-- **C09 for comment-free programs (the formatter model).**  Let `text` be lexically valid (the lexer specification
    tokenises it into `toks`), without comments, and let the grammar specification derive the program `p` from
    `toks`.  Then for both indentation styles the formatter succeeds, and the specification tokenises the text it
    prints into tokens of exactly the types of `toks`, in order: no token is lost, added, split, merged or changed
    (identifiers keep their spelling, literals their value). -/
theorem format_lexes (o : Options) (ho : OptOK o) (text : List Char) (toks : List Token) (p : Program)
    (h1 : LexSpec.lex text = some toks) (h2 : ∀ t ∈ toks, t.kind ≠ Kind.Comment) (h3 : Grammar.parse toks = some p) :
    ∃ out ts', fmtProgram o p toks.toArray = .ok out ∧ LexSpec.lex out = some ts' ∧
      ts'.map (·.ty) = toks.map (·.ty) := by
  obtain ⟨front, e, rfl, he, _, hf⟩ := go_shape _ _ _ _ h1
  -- the setting
  have hmem : ∀ (i : Nat) (t : Token), (front ++ [e]).toArray[i]? = some t → t ∈ front ++ [e] := by
    intro i t h
    have := Array.getElem?_eq_some_iff.mp h
    obtain ⟨hi, e'⟩ := this
    simp only [List.getElem_toArray] at e'
    rw [← e']
    exact List.getElem_mem _
  let c : Ctx := ⟨⟨(front ++ [e]).toArray⟩, fun i t h => h2 t (hmem i t h), fun i t h => by
    rcases List.mem_append.mp (hmem i t h) with hm | hm
    · exact (hf t hm).1.1
    · simp only [List.mem_singleton] at hm; subst hm; rw [he]; rfl⟩
  -- the derivation
  simp only [Grammar.parse, Option.map_eq_some_iff] at h3
  obtain ⟨pa, hpa, rfl⟩ := h3
  simp only [Grammar.parseAbs] at hpa
  split at hpa
  · cases hpa
  · have hits : (((front ++ [e]).zipIdx.filter (fun (x : Token × Nat) => x.1.kind != Kind.Comment)).map
        (fun (x : Token × Nat) => (⟨x.2, x.1.ty⟩ : ITok))) = ParseConform.tsFrom c.g.all 0 := by
      simp [ParseConform.tsFrom, c]
    rw [hits] at hpa
    cases hd : decls c.g ((ParseConform.tsFrom c.g.all 0).length + 1) (ParseConform.tsFrom c.g.all 0) with
    | none =>
      have : decls ⟨(front ++ [e]).toArray⟩ ((ParseConform.tsFrom c.g.all 0).length + 1) (ParseConform.tsFrom c.g.all 0) = none := hd
      rw [this] at hpa; cases hpa
    | some res =>
      obtain ⟨ds, last⟩ := res
      have hd' : decls ⟨(front ++ [e]).toArray⟩ ((ParseConform.tsFrom c.g.all 0).length + 1) (ParseConform.tsFrom c.g.all 0) = some (ds, last) := hd
      rw [hd'] at hpa
      simp only [Option.some.injEq] at hpa
      subst hpa
      obtain ⟨n, lss, _, ⟨tkn, htkn, htyn⟩, em, okm, tym⟩ := decls_good c o ho _ _ ds last 0 hd (al_tsFrom c _ 0 (Nat.le_refl _))
      -- the `Eof` token is the last one
      have hn : n = front.length := by
        obtain ⟨hlt, e'⟩ := Array.getElem?_eq_some_iff.mp htkn
        have hlt' : n < (front ++ [e]).length := by simpa [c] using hlt
        by_cases hlt2 : n < front.length
        · have : tkn = front[n] := by
            rw [← e']; simp [c, List.getElem_append_left hlt2]
          have := (hf tkn (by rw [this]; exact List.getElem_mem _)).1.2
          exact absurd htyn this
        · simp at hlt'; omega
      refine ⟨render (joinBlocks lss), ?_⟩
      have hfmt : ∀ inf : AstInfo, fmtProgram o (relativize { decls := ds, info := inf }) (front ++ [e]).toArray =
          .ok (render (joinBlocks lss)) := by
        intro inf
        rw [fmtProgram_eq]
        simp only [relativize]
        have em' : List.mapM (declText o (front ++ [e]).toArray) (ds.map relDecl) = .ok (lss.map render) := em
        rw [em']
        simp only [joinBlocks_render]
      have hlx := render_pany (joinBlocks lss) (joinBlocks_ok lss okm) [] [.Eof] trivial Lx.nil
      rw [List.append_nil] at hlx
      obtain ⟨ts', hl, hty⟩ := lx_lex hlx
      refine ⟨ts', hfmt _, hl, ?_⟩
      rw [hty, joinBlocks_types, tym]
      have hall : (front ++ [e]).map (·.ty) = tysOf c 0 (n + 1) := by
        simp only [tysOf, c]
        congr 1
        rw [hn]
        simp only [List.extract_toArray, List.extract_eq_drop_take, List.drop_zero, Nat.sub_zero]
        rw [List.take_of_length_le (by simp)]
      rw [hall, tysOf_split c 0 n (n + 1) (Nat.zero_le _) (Nat.le_succ _), tysOf_one c n tkn htkn, htyn]

end Spl.FmtProgram
