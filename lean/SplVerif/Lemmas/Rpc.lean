/-
  Helper lemmas for C18: what the generated dispatch tables must satisfy (a decidable record,
  re-checked by `decide` on every run) and its consequences for arbitrary method strings.
-/
import SplVerif.Spec.RpcSpec

namespace Spl.Rpc
open Spl

def isFeature : Option ReqAction → Bool
  | some (.feature _) => true
  | _ => false

/-- Everything the lifecycle theorem needs from the regenerated tables. -/
def RpcTableOK : Bool :=
  Gen.initializeMethod == "initialize" && Gen.initializedMethod == "initialized" &&
  Gen.exitMethod == "exit" &&
  Gen.errorCode Gen.preInitOther == -32002 &&
  Gen.errorCode Gen.handshakeInitialize == -32600 &&
  Gen.errorCode Gen.handshakeOther == -32002 &&
  Gen.errorCode Gen.shutdownRequest == -32600 &&
  lookup "initialize" Gen.mainRequests == some (.error .InvalidRequest) &&
  Gen.errorCode .InvalidRequest == -32600 &&
  lookup "shutdown" Gen.mainRequests == some .shutdown &&
  Gen.mainRequestDefault == .error .MethodNotFound &&
  Gen.errorCode .MethodNotFound == -32601 &&
  Gen.mainRequests.all (fun (k, _) => k == "initialize" || k == "shutdown" || RpcSpec.supported.contains k) &&
  RpcSpec.supported.all (fun k => isFeature (lookup k Gen.mainRequests)) &&
  lookup "exit" Gen.mainNotifications == some .exit &&
  Gen.mainNotifications.all (fun (k, a) => k == "exit" || a != .exit) &&
  !RpcSpec.supported.contains "initialize" && !RpcSpec.supported.contains "shutdown"

theorem lookup_some_mem {α} {m : String} {l : List (String × α)} {a : α}
    (h : lookup m l = some a) : (m, a) ∈ l := by
  induction l with
  | nil => simp [lookup] at h
  | cons kv r ih =>
    obtain ⟨k, v⟩ := kv
    simp only [lookup] at h
    split at h
    · rename_i hk
      have : k = m := by simpa using hk
      cases h; subst this; simp
    · exact List.mem_cons_of_mem _ (ih h)

/-! Individual table facts (each re-checked by `decide` against the regenerated tables). -/
theorem tInit : Gen.initializeMethod = "initialize" := by decide
theorem tInitd : Gen.initializedMethod = "initialized" := by decide
theorem tExit : Gen.exitMethod = "exit" := by decide
theorem tC1 : Gen.errorCode Gen.preInitOther = -32002 := by decide
theorem tC2 : Gen.errorCode Gen.handshakeInitialize = -32600 := by decide
theorem tC3 : Gen.errorCode Gen.handshakeOther = -32002 := by decide
theorem tC4 : Gen.errorCode Gen.shutdownRequest = -32600 := by decide
theorem tC5 : Gen.errorCode .InvalidRequest = -32600 := by decide
theorem tC6 : Gen.errorCode .MethodNotFound = -32601 := by decide
theorem tLI : lookup "initialize" Gen.mainRequests = some (.error .InvalidRequest) := by decide
theorem tLS : lookup "shutdown" Gen.mainRequests = some .shutdown := by decide
theorem tDef : Gen.mainRequestDefault = .error .MethodNotFound := by decide
theorem tAll : Gen.mainRequests.all
    (fun (k, _) => k == "initialize" || k == "shutdown" || RpcSpec.supported.contains k) = true := by decide
theorem tSup : RpcSpec.supported.all (fun k => isFeature (lookup k Gen.mainRequests)) = true := by decide
theorem tNX : lookup "exit" Gen.mainNotifications = some .exit := by decide
theorem tNall : Gen.mainNotifications.all (fun (k, a) => k == "exit" || a != .exit) = true := by decide

end Spl.Rpc
