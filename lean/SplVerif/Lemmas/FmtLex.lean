/-
  Lexing of printed text (C09): a fuel-free description of `LexSpec.lex` (`Lx`), the notion of
  a printed *piece* that lexes to given token types whatever follows it (`P`), and one lemma per
  token class (punctuation, operators, keywords, identifiers, decimal / hexadecimal / character
  literals) saying that its printed form is such a piece.
-/
import SplVerif.Lemmas.LexConform
import SplVerif.Model.Parser

namespace Spl.FmtLex
open Spl Spl.LexSpec

/-! ### `Lx`: maximal-munch tokenisation without fuel and offsets -/

/-- `Lx s tys`: the specification tokenises `s` into tokens of types `tys` (ending in `Eof`). -/
inductive Lx : List Char → List TokenType → Prop
  | nil : Lx [] [.Eof]
  | ws (c : Char) (cs : List Char) (tys : List TokenType) : ws c = true → Lx cs tys → Lx (c :: cs) tys
  | tok (c : Char) (cs : List Char) (n : Nat) (ty : TokenType) (tys : List TokenType) :
      ws c = false → malformedAt (c :: cs) = false → longest (proposals (c :: cs)) = some (n, ty) → n ≠ 0 →
      Lx ((c :: cs).drop n) tys → Lx (c :: cs) (ty :: tys)

theorem go_mono : ∀ (fuel : Nat) (s : List Char) (off : Nat) (ts : List Token),
    LexSpec.go fuel s off = some ts → LexSpec.go (fuel + 1) s off = some ts
  | 0, s, off, ts, h => by simp [LexSpec.go] at h
  | fuel + 1, [], off, ts, h => by simpa [LexSpec.go] using h
  | fuel + 1, c :: cs, off, ts, h => by
    rw [LexSpec.go] at h ⊢
    by_cases hw : ws c = true
    · simp only [hw, if_true] at h ⊢
      exact go_mono fuel cs _ ts h
    · simp only [hw, Bool.false_eq_true, if_false] at h ⊢
      by_cases hm : malformedAt (c :: cs) = true
      · simp [hm] at h
      · simp only [hm, Bool.false_eq_true, if_false] at h ⊢
        cases hl : longest (proposals (c :: cs)) with
        | none => simp [hl] at h
        | some p =>
          obtain ⟨n, ty⟩ := p
          simp only [hl] at h ⊢
          by_cases hn : n = 0
          · simp [hn] at h
          · simp only [hn, if_false] at h ⊢
            cases hr : LexSpec.go fuel ((c :: cs).drop n) (off + bytes ((c :: cs).take n)) with
            | none => simp [hr] at h
            | some r =>
              simp only [hr] at h
              rw [go_mono fuel _ _ r hr]
              exact h

theorem go_mono_le (fuel fuel' : Nat) (h : fuel ≤ fuel') (s : List Char) (off : Nat) (ts : List Token)
    (hg : LexSpec.go fuel s off = some ts) : LexSpec.go fuel' s off = some ts := by
  induction h with
  | refl => exact hg
  | step _ ih => exact go_mono _ _ _ _ ih

/-- A derivation of `Lx` is a run of the specification lexer. -/
theorem lx_go {s : List Char} {tys : List TokenType} (h : Lx s tys) :
    ∀ off, ∃ ts, LexSpec.go (s.length + 1) s off = some ts ∧ ts.map (·.ty) = tys := by
  induction h with
  | nil => intro off; exact ⟨[{ ty := .Eof, range := ⟨off, off⟩ }], by simp [LexSpec.go], rfl⟩
  | ws c cs tys hw _ ih =>
    intro off
    obtain ⟨ts, h1, h2⟩ := ih (off + c.utf8Size)
    refine ⟨ts, ?_, h2⟩
    rw [List.length_cons, LexSpec.go]
    simp only [hw, if_true]
    exact h1
  | tok c cs n ty tys hw hm hl hn _ ih =>
    intro off
    obtain ⟨ts, h1, h2⟩ := ih (off + bytes ((c :: cs).take n))
    refine ⟨{ ty := ty, range := ⟨off, off + bytes ((c :: cs).take n)⟩ } :: ts, ?_, by simp [h2]⟩
    rw [List.length_cons, LexSpec.go]
    simp only [hw, Bool.false_eq_true, if_false, hm, hl, hn]
    have hlen : ((c :: cs).drop n).length + 1 ≤ cs.length + 1 := by
      simp only [List.length_drop, List.length_cons]; omega
    rw [go_mono_le _ _ hlen _ _ _ h1]

theorem lx_lex {s : List Char} {tys : List TokenType} (h : Lx s tys) :
    ∃ ts, LexSpec.lex s = some ts ∧ ts.map (·.ty) = tys := lx_go h 0

/-! ### pieces -/

/-- `P C s tys`: in front of any text `rest` that satisfies `C` and tokenises, `s` contributes exactly the token
    types `tys`. -/
def P (C : List Char → Prop) (s : List Char) (tys : List TokenType) : Prop :=
  ∀ rest rt, C rest → Lx rest rt → Lx (s ++ rest) (tys ++ rt)

/-- characters that end a word or a number and start no two-character symbol with what precedes them -/
def delimChar (c : Char) : Bool :=
  c == ' ' || c == '\n' || c == '(' || c == ')' || c == '[' || c == ']' || c == ';' || c == ',' || c == ':' ||
  c == '{' || c == '}'

def Delim (rest : List Char) : Prop := rest = [] ∨ ∃ c r, rest = c :: r ∧ delimChar c = true

abbrev PAny := P (fun _ => True)
abbrev PDel := P Delim

theorem pany_pdel {s tys} (h : PAny s tys) : PDel s tys := fun rest rt _ hl => h rest rt trivial hl

theorem p_nil (C : List Char → Prop) : P C [] [] := fun _ _ _ h => h

/-- sequencing: the second piece may be anything when the first does not care what follows -/
theorem pany_seq {C s1 t1 s2 t2} (h1 : PAny s1 t1) (h2 : P C s2 t2) : P C (s1 ++ s2) (t1 ++ t2) := by
  intro rest rt hc hl
  rw [List.append_assoc, List.append_assoc]
  exact h1 _ _ trivial (h2 rest rt hc hl)

def StartsDelim (s : List Char) : Prop := ∃ c r, s = c :: r ∧ delimChar c = true

theorem pdel_seq {C s1 t1 s2 t2} (h1 : PDel s1 t1) (hs : StartsDelim s2) (h2 : P C s2 t2) :
    P C (s1 ++ s2) (t1 ++ t2) := by
  intro rest rt hc hl
  rw [List.append_assoc, List.append_assoc]
  obtain ⟨c, r, rfl, hd⟩ := hs
  exact h1 _ _ (Or.inr ⟨c, r ++ rest, rfl, hd⟩) (h2 rest rt hc hl)

/-- white space contributes nothing -/
theorem pany_ws (c : Char) (h : ws c = true) : PAny [c] [] := fun rest rt _ hl => Lx.ws c rest rt h hl

theorem pany_wsrun (w : List Char) (h : ∀ c ∈ w, ws c = true) : PAny w [] := by
  induction w with
  | nil => exact p_nil _
  | cons c w ih =>
    have := pany_seq (C := fun _ => True) (pany_ws c (h c (by simp))) (ih (fun d hd => h d (by simp [hd])))
    simpa using this


/-! ### one token in front of anything that satisfies `C` -/

theorem tok_piece (s : List Char) (c : Char) (cs : List Char) (ty : TokenType) (hs : s = c :: cs)
    (C : List Char → Prop)
    (hws : LexSpec.ws c = false)
    (hprop : ∀ rest, C rest → longest (proposals (s ++ rest)) = some (s.length, ty))
    (hmal : ∀ rest, C rest → malformedAt (s ++ rest) = false) : P C s [ty] := by
  subst hs
  intro rest rt hc hl
  have h1 := hprop rest hc
  have h2 := hmal rest hc
  simp only [List.cons_append] at h1 h2 ⊢
  refine Lx.tok c (cs ++ rest) (c :: cs).length ty rt hws h2 h1 (by simp) ?_
  have : ((c :: (cs ++ rest)).drop (c :: cs).length) = rest := by
    rw [← List.cons_append, List.drop_left]
  rw [this]; exact hl

theorem mal_plain (c : Char) (cs : List Char) (h0 : c ≠ '0') (ht : c ≠ '\'') (hd : LexSpec.digit c = false) :
    malformedAt (c :: cs) = false := by
  unfold malformedAt
  split
  · rename_i heq; simp [h0] at heq
  · rename_i heq; simp [ht] at heq
  · rename_i heq; simp only [List.cons.injEq] at heq; obtain ⟨rfl, _⟩ := heq; simp [hd]
  · rfl

macro "sym_any" lem:ident : tactic =>
  `(tactic| exact tok_piece _ _ [] _ rfl _ (by decide) (by intro rest _; simp [$lem:ident, Conform.longest_single])
      (by intro rest _; exact mal_plain _ _ (by decide) (by decide) (by decide)))

theorem p_lparen : PAny ['('] [.LParen] := by sym_any Conform.spec_lparen
theorem p_rparen : PAny [')'] [.RParen] := by sym_any Conform.spec_rparen
theorem p_lbracket : PAny ['['] [.LBracket] := by sym_any Conform.spec_lbracket
theorem p_rbracket : PAny [']'] [.RBracket] := by sym_any Conform.spec_rbracket
theorem p_lcurly : PAny ['{'] [.LCurly] := by sym_any Conform.spec_lcurly
theorem p_rcurly : PAny ['}'] [.RCurly] := by sym_any Conform.spec_rcurly
theorem p_semic : PAny [';'] [.Semic] := by sym_any Conform.spec_semic
theorem p_comma : PAny [','] [.Comma] := by sym_any Conform.spec_comma
theorem p_minus : PAny ['-'] [.Minus] := by sym_any Conform.spec_minus
theorem p_plus : PAny ['+'] [.Plus] := by sym_any Conform.spec_plus
theorem p_times : PAny ['*'] [.Times] := by sym_any Conform.spec_times
theorem p_eq : PAny ['='] [.Eq] := by sym_any Conform.spec_eq
theorem p_neq : PAny ['#'] [.Neq] := by sym_any Conform.spec_neq

theorem p_space : PAny [' '] [] := pany_ws ' ' (by decide)
theorem p_newline : PAny ['\n'] [] := pany_ws '\n' (by decide)

/-- a symbol that a following `=` or `/` would extend, in front of a blank -/
theorem sym_blank (c : Char) (cs : List Char) (ty : TokenType) (hws : LexSpec.ws c = false)
    (hprop : ∀ rest, longest (proposals ((c :: cs) ++ ' ' :: rest)) = some ((c :: cs).length, ty))
    (hmal : ∀ rest, malformedAt ((c :: cs) ++ ' ' :: rest) = false) : PAny ((c :: cs) ++ [' ']) [ty] := by
  have h1 : P (fun r => ∃ r', r = ' ' :: r') (c :: cs) [ty] :=
    tok_piece _ c cs ty rfl _ hws (by rintro rest ⟨r', rfl⟩; exact hprop r') (by rintro rest ⟨r', rfl⟩; exact hmal r')
  intro rest rt _ hl
  have := h1 (' ' :: rest) rt ⟨rest, rfl⟩ (Lx.ws ' ' rest rt (by decide) hl)
  simpa using this

macro "spec_blank" : tactic =>
  `(tactic| simp [proposals, comment, symbol, symbols, isPrefix, word, letter, hexadecimal, decimal, digit, charLit,
      longest, List.takeWhile])

theorem p_colon : PAny [':', ' '] [.Colon] :=
  sym_blank ':' [] _ (by decide) (by intro r; spec_blank) (by intro r; exact mal_plain _ _ (by decide) (by decide) (by decide))
theorem p_assign : PAny [':', '=', ' '] [.Assign] :=
  sym_blank ':' ['='] _ (by decide) (by intro r; spec_blank) (by intro r; exact mal_plain _ _ (by decide) (by decide) (by decide))
theorem p_lt : PAny ['<', ' '] [.Lt] :=
  sym_blank '<' [] _ (by decide) (by intro r; spec_blank) (by intro r; exact mal_plain _ _ (by decide) (by decide) (by decide))
theorem p_le : PAny ['<', '=', ' '] [.Le] :=
  sym_blank '<' ['='] _ (by decide) (by intro r; spec_blank) (by intro r; exact mal_plain _ _ (by decide) (by decide) (by decide))
theorem p_gt : PAny ['>', ' '] [.Gt] :=
  sym_blank '>' [] _ (by decide) (by intro r; spec_blank) (by intro r; exact mal_plain _ _ (by decide) (by decide) (by decide))
theorem p_ge : PAny ['>', '=', ' '] [.Ge] :=
  sym_blank '>' ['='] _ (by decide) (by intro r; spec_blank) (by intro r; exact mal_plain _ _ (by decide) (by decide) (by decide))
theorem p_divide : PAny ['/', ' '] [.Divide] :=
  sym_blank '/' [] _ (by decide) (by intro r; spec_blank) (by intro r; exact mal_plain _ _ (by decide) (by decide) (by decide))

/-! ### words -/

theorem delim_facts {d : Char} (h : delimChar d = true) :
    wordChar d = false ∧ digit d = false ∧ hexdigit d = false ∧ d ≠ 'x' := by
  simp only [delimChar, Bool.or_eq_true, beq_iff_eq] at h
  rcases h with (((((((((rfl | rfl) | rfl) | rfl) | rfl) | rfl) | rfl) | rfl) | rfl) | rfl) | rfl <;> decide

def wordTy (w : List Char) : TokenType :=
  match keywords.find? (fun kw => kw.1 == w) with
  | some (_, ty) => ty
  | none => .Ident w

theorem delim_stop (f : Char → Bool) (rest : List Char) (hd : Delim rest) (hf : ∀ d, delimChar d = true → f d = false) :
    ∀ d r, rest = d :: r → f d = false := by
  intro d r e
  rcases hd with rfl | ⟨c, r', rfl, hc⟩
  · cases e
  · cases e; exact hf _ hc

theorem p_word (c : Char) (tl : List Char) (hl : letter c = true) (hall : ∀ x ∈ tl, wordChar x = true) :
    PDel (c :: tl) [wordTy (c :: tl)] := by
  have ha : (isAlpha c || c == '_') = true := by rw [← Conform.letter_eq]; exact hl
  obtain ⟨h1, h2, h3, h4, h5⟩ := Conform.alpha_facts ha
  have hdg : digit c = false := by rw [Conform.digit_eq]; exact h4
  have hws : LexSpec.ws c = false := by
    simp only [LexSpec.ws, Bool.or_eq_false_iff, beq_eq_false_iff_ne, ne_eq]
    refine ⟨⟨⟨?_, ?_⟩, ?_⟩, ?_⟩ <;> (rintro rfl; revert hl; decide)
  refine tok_piece _ c tl _ rfl _ hws ?_ (fun rest _ => mal_plain _ _ h2 h3 hdg)
  intro rest hd
  have htw : ((c :: tl) ++ rest).takeWhile wordChar = c :: tl :=
    Conform.takeWhile_append_of wordChar (c :: tl) rest
      (by intro x hx; rcases List.mem_cons.mp hx with rfl | hx
          · simp [wordChar, hl]
          · exact hall x hx)
      (delim_stop _ rest hd (fun d hdd => (delim_facts hdd).1))
  rw [List.cons_append, Conform.proposals_word c (tl ++ rest) ha]
  have hw : LexSpec.word (c :: (tl ++ rest)) = [((c :: tl).length, wordTy (c :: tl))] := by
    rw [← List.cons_append]
    simp only [LexSpec.word, List.cons_append, hl, if_true]
    rw [← List.cons_append, htw]
    simp only [wordTy]
    split <;> rename_i hh <;> simp [hh]
  rw [hw, Conform.longest_single]


/-! ### numbers -/

theorem value_append (b : Nat) : ∀ (l m : List Char) (a : Nat), value b (l ++ m) a = value b m (value b l a)
  | [], m, a => rfl
  | c :: l, m, a => by simp only [List.cons_append, value]; exact value_append b l m _

theorem value10_ofDigitChars : ∀ (l : List Char) (a : Nat), (∀ c ∈ l, digit c = true) →
    value 10 l a = Nat.ofDigitChars 10 l a
  | [], a, _ => by simp [value]
  | c :: l, a, h => by
    rw [value, Nat.ofDigitChars_cons, value10_ofDigitChars l _ (fun d hd => h d (by simp [hd]))]
    have : valOf c = c.toNat - '0'.toNat := by simp [valOf, h c (by simp)]
    rw [this, Nat.mul_comm]

theorem digit_of_isDigit {c : Char} (h : c.isDigit = true) : digit c = true := by
  rw [Conform.digit_eq]
  simp only [Char.isDigit, Bool.and_eq_true, decide_eq_true_eq] at h
  simp only [isDigit, isAsciiDigitN, Bool.and_eq_true, decide_eq_true_eq]
  have h1 := UInt32.le_iff_toNat_le.mp h.1
  have h2 := UInt32.le_iff_toNat_le.mp h.2
  exact ⟨h1, h2⟩

theorem natDigits_facts (n : Nat) : Parse.natDigits n ≠ [] ∧ (∀ c ∈ Parse.natDigits n, digit c = true) ∧
    value 10 (Parse.natDigits n) 0 = n := by
  have e : Parse.natDigits n = Nat.toDigits 10 n := by
    simp [Parse.natDigits, Nat.toString_eq_repr, Nat.toList_repr]
  rw [e]
  have hd : ∀ c ∈ Nat.toDigits 10 n, digit c = true :=
    fun c hc => digit_of_isDigit (Nat.isDigit_of_mem_toDigits (by decide) (by decide) hc)
  exact ⟨Nat.toDigits_ne_nil, hd, by rw [value10_ofDigitChars _ _ hd]; exact Nat.ofDigitChars_ten_toDigits⟩


/-- a decimal numeral in front of a delimiter -/
theorem p_decimal (ds : List Char) (hne : ds ≠ []) (hd : ∀ c ∈ ds, digit c = true)
    (hv : value 10 ds 0 < 4294967296) : PDel ds [.Int (.Int (value 10 ds 0))] := by
  obtain ⟨c, tl, rfl⟩ : ∃ c tl, ds = c :: tl := by
    cases ds with
    | nil => exact absurd rfl hne
    | cons c tl => exact ⟨c, tl, rfl⟩
  have hc : digit c = true := hd c (by simp)
  have hci : isDigit c = true := by rw [← Conform.digit_eq]; exact hc
  obtain ⟨h1, h2, h3, h4, h5⟩ := Conform.digit_facts hci
  have hws : LexSpec.ws c = false := by
    simp only [LexSpec.ws, Bool.or_eq_false_iff, beq_eq_false_iff_ne, ne_eq]
    refine ⟨⟨⟨?_, ?_⟩, ?_⟩, ?_⟩ <;> (rintro rfl; revert hc; decide)
  have htw : ∀ rest, Delim rest → ((c :: tl) ++ rest).takeWhile digit = c :: tl := fun rest hdl =>
    Conform.takeWhile_append_of digit (c :: tl) rest hd (delim_stop _ rest hdl (fun d hdd => (delim_facts hdd).2.1))
  have hnx : ∀ rest, Delim rest → ∀ r, c :: (tl ++ rest) ≠ '0' :: 'x' :: r := by
    intro rest hdl r e
    simp only [List.cons.injEq] at e
    obtain ⟨_, e2⟩ := e
    cases tl with
    | nil =>
      rcases hdl with rfl | ⟨d, r', rfl, hdd⟩
      · cases e2
      · simp only [List.nil_append, List.cons.injEq] at e2
        exact (delim_facts hdd).2.2.2 e2.1
    | cons t tl' =>
      simp only [List.cons_append, List.cons.injEq] at e2
      have := hd t (by simp)
      rw [e2.1] at this
      revert this; decide
  refine tok_piece _ c tl _ rfl _ hws ?_ ?_
  · intro rest hdl
    have hp : proposals (c :: (tl ++ rest)) = [((c :: tl).length, .Int (.Int (value 10 (c :: tl) 0)))] := by
      have hdec : decimal (c :: (tl ++ rest)) = [((c :: tl).length, .Int (.Int (value 10 (c :: tl) 0)))] := by
        have := htw rest hdl
        simp only [List.cons_append] at this
        simp [decimal, this]
      simp [proposals, Conform.spec_comment_nil c _ h1, Conform.spec_symbol_nil c _ h4, Conform.spec_word_nil c _ h3,
        Conform.spec_char_nil c _ h2, Conform.spec_hex_not0x c _ (hnx rest hdl), hdec]
    rw [List.cons_append, hp, Conform.longest_single]
  · intro rest hdl
    rw [List.cons_append]
    unfold malformedAt
    split
    · rename_i r heq; exact absurd heq (hnx rest hdl r)
    · rename_i heq; simp [h2] at heq
    · rename_i c' r' heq
      simp only [List.cons.injEq] at heq
      obtain ⟨rfl, rfl⟩ := heq
      have := htw rest hdl
      simp only [List.cons_append] at this
      rw [this]
      simp only [Bool.and_eq_false_iff, decide_eq_false_iff_not, ge_iff_le, Nat.not_le]
      right; exact hv
    · rfl


def hexChar (d : Nat) : Char := if d < 10 then Char.ofNat (48 + d) else Char.ofNat (55 + d)

theorem hexChar_facts : ∀ d, d < 16 → hexdigit (hexChar d) = true ∧ valOf (hexChar d) = d := by decide

theorem hexGo_spec : ∀ (fuel n : Nat) (acc : List Char), n < 16 ^ (fuel + 1) →
    ∃ ds, Parse.hexUpper.go (fuel + 1) n acc = ds ++ acc ∧ ds ≠ [] ∧ (∀ c ∈ ds, hexdigit c = true) ∧
      ∀ a, value 16 ds a = a * 16 ^ ds.length + n := by
  intro fuel
  induction fuel with
  | zero =>
    intro n acc h
    have hc := hexChar_facts (n % 16) (Nat.mod_lt _ (by decide))
    have hz : n / 16 = 0 := by simp at h; omega
    have hgo : Parse.hexUpper.go 1 n acc = hexChar (n % 16) :: acc := by
      show (if n / 16 == 0 then hexChar (n % 16) :: acc else Parse.hexUpper.go 0 (n / 16) (hexChar (n % 16) :: acc)) = _
      simp [hz]
    refine ⟨[hexChar (n % 16)], by rw [hgo]; rfl, by simp, by simpa using hc.1, ?_⟩
    intro a
    simp only [value, hc.2, List.length_singleton, Nat.pow_one]
    have := Nat.div_add_mod n 16
    omega
  | succ fuel ih =>
    intro n acc h
    have hc := hexChar_facts (n % 16) (Nat.mod_lt _ (by decide))
    have hgo : Parse.hexUpper.go (fuel + 2) n acc =
        if n / 16 == 0 then hexChar (n % 16) :: acc else Parse.hexUpper.go (fuel + 1) (n / 16) (hexChar (n % 16) :: acc) := rfl
    rw [hgo]
    by_cases hz : n / 16 = 0
    · simp only [hz, beq_self_eq_true, if_true]
      refine ⟨[hexChar (n % 16)], rfl, by simp, by simpa using hc.1, ?_⟩
      intro a
      simp only [value, hc.2, List.length_singleton, Nat.pow_one]
      have := Nat.div_add_mod n 16
      omega
    · have hne : (n / 16 == 0) = false := by simpa using hz
      simp only [hne, Bool.false_eq_true, if_false]
      have hlt : n / 16 < 16 ^ (fuel + 1) := by
        rw [Nat.pow_succ] at h
        exact Nat.div_lt_of_lt_mul (by rw [Nat.mul_comm]; exact h)
      obtain ⟨ds, e, hne', hall, hv⟩ := ih (n / 16) (hexChar (n % 16) :: acc) hlt
      refine ⟨ds ++ [hexChar (n % 16)], by rw [e]; simp, by simp, ?_, ?_⟩
      · intro c hcm
        rcases List.mem_append.mp hcm with h1 | h1
        · exact hall c h1
        · simp only [List.mem_singleton] at h1; subst h1; exact hc.1
      · intro a
        rw [value_append, hv a]
        simp only [value, hc.2, List.length_append, List.length_singleton, Nat.pow_succ]
        have := Nat.div_add_mod n 16
        rw [Nat.add_mul, Nat.mul_assoc]
        omega

theorem fmtHex_facts (n : Nat) (hn : n < 4294967296) :
    ∃ hs, Parse.fmtHex04 n = '0' :: 'x' :: hs ∧ hs ≠ [] ∧ (∀ c ∈ hs, hexdigit c = true) ∧ value 16 hs 0 = n := by
  obtain ⟨ds, e, hne, hall, hv⟩ := hexGo_spec 63 n [] (by omega)
  have e' : Parse.hexUpper n = ds := by simpa [Parse.hexUpper] using e
  simp only [Parse.fmtHex04, e']
  by_cases hl : ds.length < 2
  · refine ⟨'0' :: ds, by simp [hl], by simp, ?_, ?_⟩
    · intro c hc
      rcases List.mem_cons.mp hc with rfl | hc
      · decide
      · exact hall c hc
    · have : valOf '0' = 0 := by decide
      simp only [value, this]
      have := hv 0
      simpa using this
  · refine ⟨ds, by simp [hl], hne, hall, ?_⟩
    have := hv 0
    simpa using this


/-- a hexadecimal numeral in front of a delimiter -/
theorem p_hex (hs : List Char) (hne : hs ≠ []) (hd : ∀ c ∈ hs, hexdigit c = true)
    (hv : value 16 hs 0 < 4294967296) : PDel ('0' :: 'x' :: hs) [.Hex (.Int (value 16 hs 0))] := by
  have htw : ∀ rest, Delim rest → (hs ++ rest).takeWhile hexdigit = hs := fun rest hdl =>
    Conform.takeWhile_append_of hexdigit hs rest hd (delim_stop _ rest hdl (fun d hdd => (delim_facts hdd).2.2.1))
  have hnil : hs.isEmpty = false := by cases hs with | nil => exact absurd rfl hne | cons _ _ => rfl
  refine tok_piece _ '0' ('x' :: hs) _ rfl _ (by decide) ?_ ?_
  · intro rest hdl
    have hhex : hexadecimal ('0' :: 'x' :: (hs ++ rest)) = [(2 + hs.length, .Hex (.Int (value 16 hs 0)))] := by
      simp [hexadecimal, htw rest hdl, hnil]
    have hdec : decimal ('0' :: 'x' :: (hs ++ rest)) = [(1, .Int (.Int 0))] := by
      simp [decimal, List.takeWhile, digit, value, valOf]
    have hp : proposals ('0' :: 'x' :: (hs ++ rest)) =
        [(2 + hs.length, .Hex (.Int (value 16 hs 0))), (1, .Int (.Int 0))] := by
      simp [proposals, Conform.spec_comment_nil '0' _ (by decide), Conform.spec_symbol_nil '0' _ (by decide),
        Conform.spec_word_nil '0' _ (by decide), Conform.spec_char_nil '0' _ (by decide), hhex, hdec]
    simp only [List.cons_append, hp]
    rw [Conform.longest_two _ _ (by simp)]
    simp only [List.length_cons, Option.some.injEq, Prod.mk.injEq, and_true]; omega
  · intro rest hdl
    simp only [List.cons_append]
    unfold malformedAt
    simp only [htw rest hdl, hnil, Bool.false_or, decide_eq_false_iff_not, ge_iff_le, Nat.not_le]
    exact hv

theorem p_char (c : Char) : PAny (Parse.displayToken (.Char c)) [.Char c] := by
  by_cases hn : c = '\n'
  · subst hn
    have e : Parse.displayToken (.Char '\n') = ['\'', '\\', 'n', '\''] := by decide
    rw [e]
    refine tok_piece _ '\'' ['\\', 'n', '\''] _ rfl _ (by decide) ?_ ?_
    · intro rest _
      have hp : proposals ('\'' :: '\\' :: 'n' :: '\'' :: rest) = [(4, .Char '\n')] := by
        simp [proposals, Conform.spec_comment_nil '\'' _ (by decide), Conform.spec_symbol_nil '\'' _ (by decide),
          Conform.spec_word_nil '\'' _ (by decide), Conform.spec_hex_nil '\'' _ (by decide),
          Conform.spec_decimal_nil '\'' _ (by decide), charLit]
      simp only [List.cons_append, List.nil_append, hp, Conform.longest_single, List.length_cons, List.length_nil]
    · intro rest _
      simp [malformedAt, charLit]
  · have e : Parse.displayToken (.Char c) = ['\'', c, '\''] := by simp [Parse.displayToken, hn]
    rw [e]
    have hcl : ∀ rest, charLit ('\'' :: c :: '\'' :: rest) = [(3, .Char c)] := by
      intro rest
      unfold charLit
      split
      · rename_i heq; simp at heq
      · rename_i c' r heq; simp only [List.cons.injEq, true_and] at heq; obtain ⟨rfl, _⟩ := heq; rfl
      · rename_i h1 h2; exact absurd rfl (h2 c rest)
    refine tok_piece _ '\'' [c, '\''] _ rfl _ (by decide) ?_ ?_
    · intro rest _
      have hp : proposals ('\'' :: c :: '\'' :: rest) = [(3, .Char c)] := by
        simp [proposals, Conform.spec_comment_nil '\'' _ (by decide), Conform.spec_symbol_nil '\'' _ (by decide),
          Conform.spec_word_nil '\'' _ (by decide), Conform.spec_hex_nil '\'' _ (by decide),
          Conform.spec_decimal_nil '\'' _ (by decide), hcl]
      simp only [List.cons_append, List.nil_append, hp, Conform.longest_single, List.length_cons, List.length_nil]
    · intro rest _
      simp [malformedAt, hcl]


end Spl.FmtLex
