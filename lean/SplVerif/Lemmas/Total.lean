/-
  Lemmas for C02: a fresh parse (`this = none` everywhere) never panics, never runs out of fuel
  and never leaves the token array — for every token array.

  `Safe p s`: running parser `p` in state `s` does not panic; a result state (success or error)
  lies at or behind `s`, inside the array, under the same reference position; errors are of the
  plain kind (`affected = false`, the incremental kind is only produced with `this = some _`).
-/
import SplVerif.Model.Parser

namespace Spl.Total
open Spl Spl.Parse

variable (ctx : Ctx)

def WF (s : St) : Prop := s.refPos ≤ s.pos ∧ s.pos ≤ ctx.toks.size

/-- the token array ends with its only `Eof` token (every output of the lexer does) -/
structure EofLast : Prop where
  last : ∃ t, ctx.toks[ctx.toks.size - 1]? = some t ∧ t.kind = Kind.Eof
  only : ∀ i t, ctx.toks[i]? = some t → t.kind = Kind.Eof → i + 1 = ctx.toks.size

/-- in such an array: a parser that starts in front of the final `Eof` does not get behind it -/
def Tight (s s' : St) : Prop := EofLast ctx → s.pos < ctx.toks.size → s'.pos < ctx.toks.size

/-- a result state lies at or behind `s`, inside the array, under the same reference position -/
def PostW (s s' : St) : Prop := s.pos ≤ s'.pos ∧ s'.pos ≤ ctx.toks.size ∧ s'.refPos = s.refPos

/-- no `proc` / `type` keyword among the tokens consumed between `s` and `s'` -/
def Clean (s s' : St) : Prop :=
  ∀ i t, s.pos ≤ i → i < s'.pos → ctx.toks[i]? = some t → t.kind ≠ Kind.Proc ∧ t.kind ≠ Kind.Type

/-- … and the final `Eof` is not consumed (declaration level: the declaration's own keyword is consumed) -/
def PostK (s s' : St) : Prop := s.pos ≤ s'.pos ∧ s'.pos ≤ ctx.toks.size ∧ s'.refPos = s.refPos ∧ Tight ctx s s'

/-- … and no `proc` / `type` keyword either -/
def Post (s s' : St) : Prop :=
  s.pos ≤ s'.pos ∧ s'.pos ≤ ctx.toks.size ∧ s'.refPos = s.refPos ∧ Tight ctx s s' ∧ Clean ctx s s'

/-- token kinds other than the final `Eof` and the two declaration keywords -/
def Plain (k : Kind) : Prop := k ≠ Kind.Eof ∧ k ≠ Kind.Proc ∧ k ≠ Kind.Type

instance (k : Kind) : Decidable (Plain k) := by unfold Plain; infer_instance

structure Safe {α} (p : P α) (s : St) : Prop where
  np : ∀ e, p s ≠ .panic e
  ok : ∀ s' a, p s = .ok s' a → Post ctx s s'
  er : ∀ k s', p s = .err k s' → k = false ∧ Post ctx s s'

/-- the same for parsers that may consume the final `Eof` when they succeed (`eof`, the look-ahead sets): they
    are only run under `peek` or as the very last parser -/
structure SafeW {α} (p : P α) (s : St) : Prop where
  np : ∀ e, p s ≠ .panic e
  ok : ∀ s' a, p s = .ok s' a → PostW ctx s s'
  er : ∀ k s', p s = .err k s' → k = false ∧ Post ctx s s'

/-- declaration level: a declaration consumes its own keyword -/
structure SafeK {α} (p : P α) (s : St) : Prop where
  np : ∀ e, p s ≠ .panic e
  ok : ∀ s' a, p s = .ok s' a → PostK ctx s s'
  er : ∀ k s', p s = .err k s' → k = false ∧ PostK ctx s s'

theorem Post.w {s s' : St} (h : Post ctx s s') : PostW ctx s s' := ⟨h.1, h.2.1, h.2.2.1⟩

theorem Post.k {s s' : St} (h : Post ctx s s') : PostK ctx s s' := ⟨h.1, h.2.1, h.2.2.1, h.2.2.2.1⟩

theorem Safe.w {α} {p : P α} {s : St} (h : Safe ctx p s) : SafeW ctx p s :=
  ⟨h.np, fun s' a e => (h.ok s' a e).w, h.er⟩

theorem Safe.k {α} {p : P α} {s : St} (h : Safe ctx p s) : SafeK ctx p s :=
  ⟨h.np, fun s' a e => (h.ok s' a e).k, fun k s' e => ⟨(h.er k s' e).1, (h.er k s' e).2.k⟩⟩

theorem PostK.refl {s : St} (hw : WF ctx s) : PostK ctx s s := ⟨Nat.le_refl _, hw.2, rfl, fun _ h => h⟩

theorem PostK.trans {a b c : St} (h1 : PostK ctx a b) (h2 : PostK ctx b c) : PostK ctx a c :=
  ⟨Nat.le_trans h1.1 h2.1, h2.2.1, h2.2.2.1.trans h1.2.2.1, fun he hb => h2.2.2.2 he (h1.2.2.2 he hb)⟩

theorem PostK.wf {s s' : St} (h : PostK ctx s s') (hw : WF ctx s) : WF ctx s' :=
  ⟨by rw [h.2.2.1]; exact Nat.le_trans hw.1 h.1, h.2.1⟩

theorem Clean.refl (s : St) : Clean ctx s s := by intro i t h1 h2; omega

theorem Clean.trans {a b c : St} (h1 : Clean ctx a b) (h2 : Clean ctx b c) : Clean ctx a c := by
  intro i t hi1 hi2 ht
  by_cases hb : i < b.pos
  · exact h1 i t hi1 hb ht
  · exact h2 i t (by omega) hi2 ht

theorem Post.refl {s : St} (hw : WF ctx s) : Post ctx s s := ⟨Nat.le_refl _, hw.2, rfl, fun _ h => h, Clean.refl ctx s⟩

theorem Post.trans {a b c : St} (h1 : Post ctx a b) (h2 : Post ctx b c) : Post ctx a c :=
  ⟨Nat.le_trans h1.1 h2.1, h2.2.1, h2.2.2.1.trans h1.2.2.1, fun he hb => h2.2.2.2.1 he (h1.2.2.2.1 he hb),
    Clean.trans ctx h1.2.2.2.2 h2.2.2.2.2⟩

theorem Post.wf {s s' : St} (h : Post ctx s s') (hw : WF ctx s) : WF ctx s' :=
  ⟨by rw [h.2.2.1]; exact Nat.le_trans hw.1 h.1, h.2.1⟩

theorem Safe.wf_ok {α} {p : P α} {s s' : St} {a : α} (h : Safe ctx p s) (hw : WF ctx s) (e : p s = .ok s' a) : WF ctx s' :=
  (h.ok s' a e).wf ctx hw

theorem Safe.wf_er {α} {p : P α} {s s' : St} {k : Bool} (h : Safe ctx p s) (hw : WF ctx s) (e : p s = .err k s') : WF ctx s' :=
  (h.er k s' e).2.wf ctx hw

theorem safe_of_ok {α} {p : P α} {s s' : St} {a : α} (e : p s = .ok s' a) (h : Post ctx s s') : Safe ctx p s := by
  refine ⟨?_, ?_, ?_⟩
  · intro x hx; rw [e] at hx; cases hx
  · intro s'' b hx; rw [e] at hx; cases hx; exact h
  · intro k s'' hx; rw [e] at hx; cases hx

theorem safe_of_err {α} {p : P α} {s s' : St} (e : p s = .err false s') (h : Post ctx s s') : Safe ctx p s := by
  refine ⟨?_, ?_, ?_⟩
  · intro x hx; rw [e] at hx; cases hx
  · intro s'' b hx; rw [e] at hx; cases hx
  · intro k s'' hx; rw [e] at hx; cases hx; exact ⟨rfl, h⟩

theorem safe_congr {α} {p q : P α} {s : St} (e : p s = q s) (h : Safe ctx q s) : Safe ctx p s := by
  refine ⟨?_, ?_, ?_⟩
  · intro x hx; rw [e] at hx; exact h.np x hx
  · intro s'' b hx; rw [e] at hx; exact h.ok _ _ hx
  · intro k s'' hx; rw [e] at hx; exact h.er _ _ hx

/-- weaken the starting point of a post-condition -/
theorem safe_from {α} {p : P α} {s0 s : St} (h0 : Post ctx s0 s) (h : Safe ctx p s) :
    (∀ e, p s ≠ .panic e) ∧ (∀ s' a, p s = .ok s' a → Post ctx s0 s') ∧ (∀ k s', p s = .err k s' → k = false ∧ Post ctx s0 s') :=
  ⟨h.np, fun s' a e => h0.trans ctx (h.ok s' a e), fun k s' e => ⟨(h.er k s' e).1, h0.trans ctx (h.er k s' e).2⟩⟩

/-! ### combinators -/

theorem pure_safe {α} (a : α) (s : St) (hw : WF ctx s) : Safe ctx (pure' a) s :=
  safe_of_ok ctx (s' := s) (a := a) rfl (Post.refl ctx hw)

theorem bind_safe {α β} {p : P α} {f : α → P β} {s : St} (hp : Safe ctx p s)
    (hf : ∀ s' a, p s = .ok s' a → Safe ctx (f a) s') : Safe ctx (Parse.bind p f) s := by
  cases h : p s with
  | ok s' a =>
    have hs := hf s' a h
    have e : Parse.bind p f s = f a s' := by simp [Parse.bind, h]
    obtain ⟨g1, g2, g3⟩ := safe_from ctx (hp.ok s' a h) hs
    refine ⟨?_, ?_, ?_⟩
    · intro x hx; rw [e] at hx; exact g1 x hx
    · intro s'' b hx; rw [e] at hx; exact g2 _ _ hx
    · intro k s'' hx; rw [e] at hx; exact g3 _ _ hx
  | err k s' =>
    have e : Parse.bind p f s = .err k s' := by simp [Parse.bind, h]
    obtain ⟨rfl, hpost⟩ := hp.er _ _ h
    exact safe_of_err ctx e hpost
  | panic e => exact absurd h (hp.np e)

theorem pmap_safe {α β} {p : P α} (f : α → β) {s : St} (hp : Safe ctx p s) : Safe ctx (pmap f p) s := by
  cases h : p s with
  | ok s' a => exact safe_of_ok ctx (a := f a) (by simp [pmap, h]) (hp.ok _ _ h)
  | err k s' =>
    obtain ⟨rfl, hpost⟩ := hp.er _ _ h
    exact safe_of_err ctx (by simp [pmap, h]) hpost
  | panic e => exact absurd h (hp.np e)

theorem alt2_safe {α} {p q : P α} {s : St} (hp : Safe ctx p s) (hq : Safe ctx q s) : Safe ctx (alt2 p q) s := by
  cases h : p s with
  | ok s' a => exact safe_of_ok ctx (a := a) (by simp [alt2, h]) (hp.ok _ _ h)
  | err k s' => exact safe_congr ctx (q := q) (by simp [alt2, h]) hq
  | panic e => exact absurd h (hp.np e)

theorem altList_safe {α} {s : St} (hw : WF ctx s) : ∀ (ps : List (P α)), (∀ p ∈ ps, Safe ctx p s) → Safe ctx (altList ps) s
  | [], _ => safe_of_err ctx (s' := s) rfl (Post.refl ctx hw)
  | [p], h => by simpa [altList] using h p (by simp)
  | p :: q :: ps, h => by
    simp only [altList]
    exact alt2_safe ctx (h p (by simp)) (altList_safe hw (q :: ps) (fun x hx => h x (List.mem_cons_of_mem _ hx)))

theorem opt_safe {α} {p : P α} {s : St} (hw : WF ctx s) (hp : Safe ctx p s) : Safe ctx (opt p) s := by
  cases h : p s with
  | ok s' a => exact safe_of_ok ctx (a := some a) (by simp [opt, h]) (hp.ok _ _ h)
  | err k s' => exact safe_of_ok ctx (s' := s) (a := none) (by simp [opt, h]) (Post.refl ctx hw)
  | panic e => exact absurd h (hp.np e)

theorem peek_safe {α} {p : P α} {s : St} (hw : WF ctx s) (hp : Safe ctx p s) : Safe ctx (peek p) s := by
  cases h : p s with
  | ok s' a => exact safe_of_ok ctx (s' := s) (a := a) (by simp [peek, h]) (Post.refl ctx hw)
  | err k s' =>
    obtain ⟨rfl, hpost⟩ := hp.er _ _ h
    exact safe_of_err ctx (by simp [peek, h]) hpost
  | panic e => exact absurd h (hp.np e)

theorem void_safe {α} {p : P α} {s : St} (hp : Safe ctx p s) : Safe ctx (void p) s := pmap_safe ctx _ hp

/-- `many0`: enough fuel for one round per remaining token and one more -/
theorem many0_safe {α} (p : P α) (r : Nat) : ∀ (fuel : Nat) (s : St), WF ctx s → ctx.toks.size - s.pos < fuel → s.refPos = r →
    (∀ s', WF ctx s' → s.pos ≤ s'.pos → s'.refPos = r → Safe ctx p s') → Safe ctx (many0 p fuel) s
  | 0, s, _, hf, _, _ => by omega
  | fuel + 1, s, hw, hf, hr, hp => by
    have h0 := hp s hw (Nat.le_refl _) hr
    cases h : p s with
    | err k s' => exact safe_of_ok ctx (s' := s) (a := []) (by simp [many0, h]) (Post.refl ctx hw)
    | panic e => exact absurd h (h0.np e)
    | ok s' a =>
      have hpost := h0.ok s' a h
      by_cases hq : s'.pos = s.pos
      · exact safe_of_err ctx (s' := s) (by simp [many0, h, hq]) (Post.refl ctx hw)
      · have hw' : WF ctx s' := hpost.wf ctx hw
        have hlt : s.pos < s'.pos := by have := hpost.1; omega
        have ih := many0_safe p r fuel s' hw' (by have := hw'.2; omega) (by rw [hpost.2.2.1, hr])
          (fun s2 w2 l2 r2 => hp s2 w2 (Nat.le_trans hpost.1 l2) r2)
        have hb : (s'.pos == s.pos) = false := by simpa using hq
        cases h2 : many0 p fuel s' with
        | ok s'' as => exact safe_of_ok ctx (a := a :: as) (by simp [many0, h, hb, h2]) (hpost.trans ctx (ih.ok _ _ h2))
        | err k s'' =>
          obtain ⟨rfl, hp2⟩ := ih.er _ _ h2
          exact safe_of_err ctx (by simp [many0, h, hb, h2]) (hpost.trans ctx hp2)
        | panic x => exact absurd h2 (ih.np x)

/-! ### token level -/

theorem take1_ok {s s' : St} {t : Token} (h : take1 ctx s = .ok s' t) :
    s' = { s with pos := s.pos + 1 } ∧ ctx.toks[s.pos]? = some t := by
  unfold take1 at h
  cases ht : ctx.toks[s.pos]? with
  | none => simp [ht] at h
  | some t' =>
    simp only [ht, Res.ok.injEq] at h
    obtain ⟨rfl, rfl⟩ := h
    exact ⟨rfl, rfl⟩

theorem take1_err {s s' : St} {k : Bool} (h : take1 ctx s = .err k s') : k = false ∧ s' = s := by
  unfold take1 at h
  cases ht : ctx.toks[s.pos]? with
  | none => simp only [ht, Res.err.injEq] at h; exact ⟨h.1.symm, h.2.symm⟩
  | some t' => simp [ht] at h

theorem take1_np (s : St) (e : Panic) : take1 ctx s ≠ .panic e := by
  unfold take1
  cases ctx.toks[s.pos]? <;> simp

/-- taking a token that is neither the final `Eof` nor a declaration keyword -/
theorem take1_post {s s' : St} {t : Token} (hw : WF ctx s) (h : take1 ctx s = .ok s' t) (hk : Plain t.kind) :
    Post ctx s s' := by
  obtain ⟨rfl, ht⟩ := take1_ok ctx h
  have hlt : s.pos < ctx.toks.size := (Array.getElem?_eq_some_iff.mp ht).1
  refine ⟨Nat.le_succ _, hlt, rfl, ?_, ?_⟩
  · intro he _
    obtain ⟨tl, htl, hkl⟩ := he.last
    show s.pos + 1 < ctx.toks.size
    by_cases hq : s.pos + 1 = ctx.toks.size
    · have : s.pos = ctx.toks.size - 1 := by omega
      rw [← this, ht] at htl
      cases htl
      exact absurd hkl hk.1
    · omega
  · intro i t' hi1 hi2 ht'
    have : i = s.pos := by simp at hi2; omega
    subst this
    rw [ht] at ht'
    cases ht'
    exact hk.2

theorem take1_postW {s s' : St} {t : Token} (h : take1 ctx s = .ok s' t) : PostW ctx s s' := by
  obtain ⟨rfl, ht⟩ := take1_ok ctx h
  have hlt : s.pos < ctx.toks.size := (Array.getElem?_eq_some_iff.mp ht).1
  exact ⟨Nat.le_succ _, hlt, rfl⟩

theorem comment_safe (s : St) (hw : WF ctx s) : Safe ctx (comment ctx) s := by
  cases h : take1 ctx s with
  | ok s' t =>
    cases hty : t.ty with
    | Comment c =>
      exact safe_of_ok ctx (s' := s') (a := c) (by simp [comment, h, hty])
        (take1_post ctx hw h (by simp [Plain, Token.kind, hty, TokenType.kind]))
    | _ => exact safe_of_err ctx (s' := s) (by simp [comment, h, hty]) (Post.refl ctx hw)
  | err k s' =>
    obtain ⟨rfl, rfl⟩ := take1_err ctx h
    exact safe_of_err ctx (s' := s') (by simp [comment, h]) (Post.refl ctx hw)
  | panic e => exact absurd h (take1_np ctx s e)

theorem comments_safe (fuel : Nat) (s : St) (hw : WF ctx s) (hf : ctx.toks.size - s.pos < fuel) :
    Safe ctx (many0 (comment ctx) fuel) s :=
  many0_safe ctx (comment ctx) s.refPos fuel s hw hf rfl (fun s' w _ _ => comment_safe ctx s' w)

/-- a token parser whose predicate does not accept `Eof` -/
theorem tag_safe (fuel : Nat) (pred : TokenType → Bool) (hpred : ∀ ty, pred ty = true → Plain ty.kind)
    (s : St) (hw : WF ctx s) (hf : ctx.toks.size - s.pos < fuel) : Safe ctx (tag ctx fuel pred) s := by
  have hm := comments_safe ctx fuel s hw hf
  cases h : many0 (comment ctx) fuel s with
  | ok s1 cs =>
    have hp1 := hm.ok _ _ h
    have w1 := hp1.wf ctx hw
    cases h2 : take1 ctx s1 with
    | ok s2 t =>
      by_cases hpd : pred t.ty = true
      · exact safe_of_ok ctx (s' := s2) (a := t) (by simp [tag, h, h2, hpd])
          (hp1.trans ctx (take1_post ctx w1 h2 (hpred _ hpd)))
      · exact safe_of_err ctx (s' := s) (by simp [tag, h, h2, hpd]) (Post.refl ctx hw)
    | err k s' =>
      obtain ⟨rfl, rfl⟩ := take1_err ctx h2
      exact safe_of_err ctx (s' := s') (by simp [tag, h, h2]) hp1
    | panic e => exact absurd h2 (take1_np ctx s1 e)
  | err k s' =>
    obtain ⟨rfl, hp⟩ := hm.er _ _ h
    exact safe_of_err ctx (s' := s') (by simp [tag, h]) hp
  | panic e => exact absurd h (hm.np e)

/-- any token parser (it may take the final `Eof`) -/
theorem tag_safeW (fuel : Nat) (pred : TokenType → Bool) (s : St) (hw : WF ctx s) (hf : ctx.toks.size - s.pos < fuel) :
    SafeW ctx (tag ctx fuel pred) s := by
  have hm := comments_safe ctx fuel s hw hf
  cases h : many0 (comment ctx) fuel s with
  | ok s1 cs =>
    have hp1 := hm.ok _ _ h
    cases h2 : take1 ctx s1 with
    | ok s2 t =>
      by_cases hpd : pred t.ty = true
      · have e : tag ctx fuel pred s = .ok s2 t := by simp [tag, h, h2, hpd]
        have hw2 := take1_postW ctx h2
        refine ⟨?_, ?_, ?_⟩
        · intro x hx; rw [e] at hx; cases hx
        · intro s'' b hx; rw [e] at hx; cases hx
          exact ⟨Nat.le_trans hp1.1 hw2.1, hw2.2.1, hw2.2.2.trans hp1.2.2.1⟩
        · intro k s'' hx; rw [e] at hx; cases hx
      · exact (safe_of_err ctx (s' := s) (by simp [tag, h, h2, hpd]) (Post.refl ctx hw)).w
    | err k s' =>
      obtain ⟨rfl, rfl⟩ := take1_err ctx h2
      exact (safe_of_err ctx (s' := s') (by simp [tag, h, h2]) hp1).w
    | panic e => exact absurd h2 (take1_np ctx s1 e)
  | err k s' =>
    obtain ⟨rfl, hp⟩ := hm.er _ _ h
    exact (safe_of_err ctx (s' := s') (by simp [tag, h]) hp).w
  | panic e => exact absurd h (hm.np e)

/-- a token parser that succeeds has consumed its token -/
theorem tag_ok {fuel : Nat} {pred : TokenType → Bool} {s s' : St} {t : Token} (hw : WF ctx s)
    (hf : ctx.toks.size - s.pos < fuel) (h : tag ctx fuel pred s = .ok s' t) :
    s.pos < s'.pos ∧ pred t.ty = true ∧ ctx.toks[s'.pos - 1]? = some t := by
  have hm := comments_safe ctx fuel s hw hf
  unfold tag at h
  cases h1 : many0 (comment ctx) fuel s with
  | ok s1 cs =>
    simp only [h1] at h
    have hp1 := hm.ok _ _ h1
    cases h2 : take1 ctx s1 with
    | ok s2 t2 =>
      simp only [h2] at h
      by_cases hpd : pred t2.ty = true
      · simp only [hpd, if_true, Res.ok.injEq] at h
        obtain ⟨rfl, rfl⟩ := h
        obtain ⟨rfl, ht⟩ := take1_ok ctx h2
        have := hp1.1
        exact ⟨by simp; omega, hpd, by simpa using ht⟩
      · simp [hpd] at h
    | err k x => simp [h2] at h
    | panic e => simp [h2] at h
  | err k x => simp [h1] at h
  | panic e => simp [h1] at h

theorem loopFuel_ok (s : St) (hw : WF ctx s) : ctx.toks.size - s.pos < loopFuel ctx := by
  have := hw.2
  simp only [loopFuel]
  omega

theorem tk_safe (k : Kind) (s : St) (hw : WF ctx s) (hk : Plain k := by decide) : Safe ctx (tk ctx k) s := by
  show Safe ctx (tag ctx (loopFuel ctx) (fun ty => ty.kind == k)) s
  refine tag_safe ctx _ _ ?_ s hw (loopFuel_ok ctx s hw)
  intro ty hty
  have : ty.kind = k := by simpa using hty
  exact this ▸ hk

theorem tk_safeW (k : Kind) (s : St) (hw : WF ctx s) : SafeW ctx (tk ctx k) s := by
  show SafeW ctx (tag ctx (loopFuel ctx) (fun ty => ty.kind == k)) s
  exact tag_safeW ctx _ _ s hw (loopFuel_ok ctx s hw)

theorem tk_ok {k : Kind} {s s' : St} {t : Token} (hw : WF ctx s) (h : tk ctx k s = .ok s' t) :
    s.pos < s'.pos ∧ t.kind = k ∧ ctx.toks[s'.pos - 1]? = some t := by
  have h' : tag ctx (loopFuel ctx) (fun ty => ty.kind == k) s = .ok s' t := h
  obtain ⟨h1, h2, h3⟩ := tag_ok ctx hw (loopFuel_ok ctx s hw) h'
  exact ⟨h1, by simpa [Token.kind] using h2, h3⟩

/-! ### `utility.rs` -/

theorem allConsuming_safe {α} {p : P α} {s : St} (hp : Safe ctx p s) : Safe ctx (allConsuming ctx p) s := by
  cases h : p s with
  | ok s' a =>
    by_cases hq : s'.pos = ctx.toks.size
    · exact safe_of_ok ctx (s' := s') (a := a) (by simp [allConsuming, h, hq]) (hp.ok _ _ h)
    · exact safe_of_err ctx (s' := s') (by simp [allConsuming, h, hq]) (hp.ok _ _ h)
  | err k s' =>
    obtain ⟨rfl, hpost⟩ := hp.er _ _ h
    exact safe_of_err ctx (s' := s') (by simp [allConsuming, h]) hpost
  | panic e => exact absurd h (hp.np e)

/-- the error buffer plays no role for safety -/
theorem wf_errBuf {s : St} (hw : WF ctx s) (b : List SplError) : WF ctx { s with errBuf := b } := hw

theorem info_safe {α} {p : P α} {s : St} (hw : WF ctx s) (hp : Safe ctx p { s with errBuf := [] }) :
    Safe ctx (info p) s := by
  have h0 : ¬ s.pos < s.refPos := by have := hw.1; omega
  cases h : p { s with errBuf := [] } with
  | ok s' a =>
    have hpost := hp.ok _ _ h
    have h1 : ¬ s'.pos < s.refPos := by have := hpost.1; have := hw.1; simp at *; omega
    exact safe_of_ok ctx (s' := { s' with errBuf := s.errBuf })
      (a := (a, { range := ⟨s.pos - s.refPos, s'.pos - s.refPos⟩, errors := s'.errBuf }))
      (by simp [info, h0, h, h1]) hpost
  | err k s' =>
    obtain ⟨rfl, hpost⟩ := hp.er _ _ h
    exact safe_of_err ctx (s' := { s' with errBuf := s.errBuf }) (by simp [info, h0, h]) hpost
  | panic e => exact absurd h (hp.np e)

theorem info_progress {α} {p : P α} {s s' : St} {r : α × AstInfo} (h : info p s = .ok s' r) :
    ∃ s1 a, p { s with errBuf := [] } = .ok s1 a ∧ s'.pos = s1.pos := by
  unfold info at h
  split at h
  · cases h
  · cases hp : p { s with errBuf := [] } with
    | ok s1 a =>
      simp only [hp] at h
      split at h
      · cases h
      · cases h; exact ⟨s1, a, rfl, rfl⟩
    | err k x => simp [hp] at h
    | panic e => simp [hp] at h

/-- `expect(none, parser, msg)` never fails: a failing parser becomes `none` plus a diagnostic -/
theorem expect_safe {α} {parser : Option α → P α} (msg : Msg) {s : St} (hw : WF ctx s) (hp : Safe ctx (parser none) s) :
    Safe ctx (Parse.expect none parser msg) s ∧ ∀ k s', Parse.expect none parser msg s ≠ .err k s' := by
  cases h : parser none s with
  | ok s' a =>
    have e : Parse.expect none parser msg s = .ok s' (some a) := by simp [Parse.expect, h]
    exact ⟨safe_of_ok ctx e (hp.ok _ _ h), by intro k x hx; rw [e] at hx; cases hx⟩
  | err k s1 =>
    obtain ⟨rfl, hpost⟩ := hp.er _ _ h
    have hw1 := hpost.wf ctx hw
    have h1 : ¬ s1.pos < s1.refPos := by have := hw1.1; omega
    have e : Parse.expect none parser msg s =
        .ok { s1 with errBuf := s1.errBuf ++ [⟨⟨(if s1.pos - s1.refPos > 0 then s1.pos - s1.refPos - 1 else 0),
          (if s1.pos - s1.refPos > 0 then s1.pos - s1.refPos - 1 else 0)⟩, msg⟩] } none := by
      simp [Parse.expect, h, expectError, h1]
    exact ⟨safe_of_ok ctx e hpost, by intro k x hx; rw [e] at hx; cases hx⟩
  | panic e => exact absurd h (hp.np e)

theorem confusable_safe {α} {p : P α} (msg : Msg) {s : St} (hw : WF ctx s) (hp : Safe ctx p { s with errBuf := [] }) :
    Safe ctx (confusable p msg) s := by
  have hi := info_safe ctx hw hp
  cases h : info p s with
  | ok s' r =>
    obtain ⟨a, i⟩ := r
    exact safe_of_ok ctx (s' := { s' with errBuf := s'.errBuf ++ [⟨i.range, msg⟩] }) (a := a)
      (by simp [confusable, h]) ⟨(hi.ok _ _ h).1, (hi.ok _ _ h).2.1, (hi.ok _ _ h).2.2.1, (hi.ok _ _ h).2.2.2⟩
  | err k s' =>
    obtain ⟨rfl, hpost⟩ := hi.er _ _ h
    exact safe_of_err ctx (s' := s') (by simp [confusable, h]) hpost
  | panic e => exact absurd h (hi.np e)

/-- a pattern that does not fail in front of the final `Eof` (every synchronisation set accepts `Eof`) -/
def AtEof (pattern : P Unit) : Prop :=
  EofLast ctx → ∀ s', WF ctx s' → s'.pos + 1 = ctx.toks.size → ∀ k x, pattern s' ≠ .err k x

/-- a pattern that does not fail in front of a declaration keyword (every synchronisation set accepts them) -/
def AtKw (pattern : P Unit) : Prop :=
  ∀ s' t, WF ctx s' → ctx.toks[s'.pos]? = some t → (t.kind = Kind.Proc ∨ t.kind = Kind.Type) → ∀ k x, pattern s' ≠ .err k x

/-- `ignore_until0`: the pattern is tried at every position up to the end of the array -/
theorem ignoreUntil0_safe (pattern : P Unit) (hE : AtEof ctx pattern) (hK : AtKw ctx pattern) (r : Nat) : ∀ (fuel start : Nat) (s0 s : St), WF ctx s →
    ctx.toks.size - s.pos < fuel → s.refPos = r → Post ctx s0 s →
    (∀ s', WF ctx s' → s.pos ≤ s'.pos → s'.refPos = r → Safe ctx pattern s') →
    (∀ e, ignoreUntil0 ctx pattern fuel start s ≠ .panic e) ∧
    (∀ s' a, ignoreUntil0 ctx pattern fuel start s = .ok s' a → Post ctx s0 s') ∧
    (∀ k s', ignoreUntil0 ctx pattern fuel start s = .err k s' → k = false ∧ Post ctx s0 s')
  | 0, _, _, s, _, hf, _, _, _ => by omega
  | fuel + 1, start, s0, s, hw, hf, hr, h0, hp => by
    have hs := hp s hw (Nat.le_refl _) hr
    cases h : pattern s with
    | ok s1 u =>
      have e : ignoreUntil0 ctx pattern (fuel + 1) start s = .ok s1 (tokensBetween ctx start s1.pos) := by
        simp [ignoreUntil0, h]
      have hpost := h0.trans ctx (hs.ok _ _ h)
      refine ⟨?_, ?_, ?_⟩
      · intro x hx; rw [e] at hx; cases hx
      · intro s' a hx; rw [e] at hx; cases hx; exact hpost
      · intro k s' hx; rw [e] at hx; cases hx
    | panic e => exact absurd h (hs.np e)
    | err k x =>
      cases h2 : take1 ctx s with
      | ok s1 t =>
        obtain ⟨rfl, ht⟩ := take1_ok ctx h2
        have hw1 := take1_postW ctx h2
        have hp1 : Post ctx s { s with pos := s.pos + 1 } := by
          refine ⟨hw1.1, hw1.2.1, rfl, ?_, ?_⟩
          · intro he _
            show s.pos + 1 < ctx.toks.size
            have hlt : s.pos < ctx.toks.size := (Array.getElem?_eq_some_iff.mp ht).1
            by_cases hq : s.pos + 1 = ctx.toks.size
            · exact absurd h (hE he s hw hq k x)
            · omega
          · intro i t' hi1 hi2 ht'
            have : i = s.pos := by simp at hi2; omega
            subst this
            rw [ht] at ht'
            cases ht'
            constructor
            · intro hk; exact hK s t hw ht (Or.inl hk) k x h
            · intro hk; exact hK s t hw ht (Or.inr hk) k x h
        have e : ignoreUntil0 ctx pattern (fuel + 1) start s =
            ignoreUntil0 ctx pattern fuel start { s with pos := s.pos + 1 } := by
          simp [ignoreUntil0, h, h2]
        rw [e]
        exact ignoreUntil0_safe pattern hE hK r fuel start s0 _ (hp1.wf ctx hw) (by have := hp1.2.1; simp at this ⊢; omega)
          (by simpa using hr) (h0.trans ctx hp1) (fun s' w l rr => hp s' w (by simp at l; omega) rr)
      | err k2 s' =>
        obtain ⟨rfl, hs'⟩ := take1_err ctx h2
        have e : ignoreUntil0 ctx pattern (fuel + 1) start s = .err false s' := by simp [ignoreUntil0, h, h2]
        refine ⟨?_, ?_, ?_⟩
        · intro x hx; rw [e] at hx; cases hx
        · intro s'' a hx; rw [e] at hx; cases hx
        · intro k s'' hx; rw [e] at hx; cases hx; exact ⟨rfl, hs' ▸ h0⟩
      | panic e => exact absurd h2 (take1_np ctx s e)

theorem ignoreUntil0_safe' (pattern : P Unit) (hE : AtEof ctx pattern) (hK : AtKw ctx pattern) (fuel start : Nat) (s : St) (hw : WF ctx s)
    (hf : ctx.toks.size - s.pos < fuel)
    (hp : ∀ s', WF ctx s' → s.pos ≤ s'.pos → s'.refPos = s.refPos → Safe ctx pattern s') :
    Safe ctx (ignoreUntil0 ctx pattern fuel start) s := by
  obtain ⟨a, b, c⟩ := ignoreUntil0_safe ctx pattern hE hK s.refPos fuel start s s hw hf rfl (Post.refl ctx hw) hp
  exact ⟨a, b, c⟩

theorem ignoreUntil1_safe (pattern : P Unit) (hE : AtEof ctx pattern) (hK : AtKw ctx pattern) (fuel : Nat) (s : St) (hw : WF ctx s)
    (hf : ctx.toks.size - s.pos < fuel)
    (hp : ∀ s', WF ctx s' → s.pos ≤ s'.pos → s'.refPos = s.refPos → Safe ctx pattern s') :
    Safe ctx (ignoreUntil1 ctx pattern fuel) s := by
  have hs := hp s hw (Nat.le_refl _) rfl
  cases h : pattern s with
  | ok s1 u => exact safe_of_err ctx (s' := s1) (by simp [ignoreUntil1, h]) (hs.ok _ _ h)
  | panic e => exact absurd h (hs.np e)
  | err k x =>
    exact safe_congr ctx (q := ignoreUntil0 ctx pattern fuel s.pos) (by simp [ignoreUntil1, h])
      (ignoreUntil0_safe' ctx pattern hE hK fuel s.pos s hw hf hp)

/-- `Reference::parse` without an old node -/
theorem refParse_safe {α} {parseT : Option α → P α} {s : St} (hw : WF ctx s)
    (hp : Safe ctx (parseT none) { s with refPos := s.pos }) : Safe ctx (refParse parseT none) s := by
  have h0 : ¬ s.pos < s.refPos := by have := hw.1; omega
  cases h : parseT none { s with refPos := s.pos } with
  | ok s' a =>
    have hpost := hp.ok _ _ h
    exact safe_of_ok ctx (s' := { s' with refPos := s.refPos }) (a := ⟨a, s.pos - s.refPos⟩)
      (by simp [refParse, h0, h]) ⟨hpost.1, hpost.2.1, rfl, hpost.2.2.2⟩
  | err k s' =>
    obtain ⟨rfl, hpost⟩ := hp.er _ _ h
    exact safe_of_err ctx (s' := { s' with refPos := s.refPos, incRefs := s'.incRefs.dropLast })
      (by simp [refParse, h0, h]) ⟨hpost.1, hpost.2.1, rfl, hpost.2.2.2⟩
  | panic e => exact absurd h (hp.np e)

theorem wf_reref {s : St} (hw : WF ctx s) : WF ctx { s with refPos := s.pos } := ⟨Nat.le_refl _, hw.2⟩

theorem many_none {α} (range : α → Range) (parseT : Option α → P α) (fuel : Nat) (s : St) :
    many ctx range parseT fuel none s = many0 (refParse parseT none) fuel s := by
  simp only [many, Option.getD, manyOld, List.nil_append]
  cases many0 (refParse parseT none) fuel s <;> rfl

/-- `many(parser)` without old nodes: the loop over `Reference`s -/
theorem many_safe {α} (range : α → Range) (parseT : Option α → P α) (s : St) (hw : WF ctx s)
    (hp : ∀ s', WF ctx s' → s.pos ≤ s'.pos → Safe ctx (parseT none) { s' with refPos := s'.pos }) :
    Safe ctx (many ctx range parseT (loopFuel ctx) none) s := by
  refine safe_congr ctx (q := many0 (refParse parseT none) (loopFuel ctx)) (many_none ctx range parseT _ s) ?_
  exact many0_safe ctx _ s.refPos _ s hw (loopFuel_ok ctx s hw) rfl
    (fun s' w l _ => refParse_safe ctx w (hp s' w l))

/-! ### progress and absence of errors -/

/-- a successful run consumes at least one token -/
def Strict {α} (p : P α) (s : St) : Prop := ∀ s' a, p s = .ok s' a → s.pos < s'.pos

/-- the parser does not fail (it succeeds or — excluded elsewhere — panics) -/
def NoErr {α} (p : P α) (s : St) : Prop := ∀ k x, p s ≠ .err k x

theorem bind_ok_inv {α β} {p : P α} {f : α → P β} {s s' : St} {b : β} (h : Parse.bind p f s = .ok s' b) :
    ∃ s1 a, p s = .ok s1 a ∧ f a s1 = .ok s' b := by
  unfold Parse.bind at h
  cases hp : p s with
  | ok s1 a => rw [hp] at h; exact ⟨s1, a, rfl, h⟩
  | err k x => rw [hp] at h; cases h
  | panic e => rw [hp] at h; cases h

theorem strict_bind_left {α β} {p : P α} {f : α → P β} {s : St} (hs : Strict p s)
    (hf : ∀ s1 a, p s = .ok s1 a → Safe ctx (f a) s1) : Strict (Parse.bind p f) s := by
  intro s' b h
  obtain ⟨s1, a, h1, h2⟩ := bind_ok_inv h
  have := hs s1 a h1
  have := ((hf s1 a h1).ok _ _ h2).1
  omega

theorem strict_bind_right {α β} {p : P α} {f : α → P β} {s : St} (hp : Safe ctx p s)
    (hf : ∀ s1 a, p s = .ok s1 a → Strict (f a) s1) : Strict (Parse.bind p f) s := by
  intro s' b h
  obtain ⟨s1, a, h1, h2⟩ := bind_ok_inv h
  have := (hp.ok _ _ h1).1
  have := hf s1 a h1 s' b h2
  omega

theorem strict_pmap {α β} {p : P α} (f : α → β) {s : St} (hs : Strict p s) : Strict (pmap f p) s := by
  intro s' b h
  unfold pmap at h
  cases hp : p s with
  | ok s1 a => rw [hp] at h; cases h; exact hs _ _ hp
  | err k x => rw [hp] at h; cases h
  | panic e => rw [hp] at h; cases h

theorem strict_alt2 {α} {p q : P α} {s : St} (hp : Strict p s) (hq : Strict q s) : Strict (alt2 p q) s := by
  intro s' b h
  unfold alt2 at h
  cases h1 : p s with
  | ok s1 a => rw [h1] at h; cases h; exact hp _ _ h1
  | err k x => rw [h1] at h; exact hq _ _ h
  | panic e => rw [h1] at h; cases h

theorem strict_altList {α} {s : St} : ∀ (ps : List (P α)), (∀ p ∈ ps, Strict p s) → Strict (altList ps) s
  | [], _ => by intro s' a h; cases h
  | [p], h => by simpa [altList] using h p (by simp)
  | p :: q :: ps, h => by
    simp only [altList]
    exact strict_alt2 (h p (by simp)) (strict_altList (q :: ps) (fun x hx => h x (List.mem_cons_of_mem _ hx)))

theorem strict_congr {α} {p q : P α} {s : St} (e : p s = q s) (h : Strict q s) : Strict p s := by
  intro s' a hx; rw [e] at hx; exact h _ _ hx

theorem noerr_bind {α β} {p : P α} {f : α → P β} {s : St} (hp : NoErr p s)
    (hf : ∀ s1 a, p s = .ok s1 a → NoErr (f a) s1) : NoErr (Parse.bind p f) s := by
  intro k x h
  unfold Parse.bind at h
  cases h1 : p s with
  | ok s1 a => rw [h1] at h; exact hf s1 a h1 k x h
  | err k' x' => exact hp k' x' h1
  | panic e => rw [h1] at h; cases h

theorem noerr_pmap {α β} {p : P α} (f : α → β) {s : St} (hp : NoErr p s) : NoErr (pmap f p) s := by
  intro k x h
  unfold pmap at h
  cases h1 : p s with
  | ok s1 a => rw [h1] at h; cases h
  | err k' x' => exact hp k' x' h1
  | panic e => rw [h1] at h; cases h

theorem noerr_alt2 {α} {p q : P α} {s : St} (hq : NoErr q s) : NoErr (alt2 p q) s := by
  intro k x h
  unfold alt2 at h
  cases h1 : p s with
  | ok s1 a => rw [h1] at h; cases h
  | err k' x' => rw [h1] at h; exact hq k x h
  | panic e => rw [h1] at h; cases h

theorem noerr_pure {α} (a : α) (s : St) : NoErr (pure' a) s := by intro k x h; cases h

theorem noerr_congr {α} {p q : P α} {s : St} (e : p s = q s) (h : NoErr q s) : NoErr p s := by
  intro k x hx; rw [e] at hx; exact h _ _ hx

/-- a loop whose element always consumes something never stops with the no-progress error -/
theorem many0_noerr {α} (p : P α) (r : Nat) : ∀ (fuel : Nat) (s : St), WF ctx s → s.refPos = r →
    (∀ s', WF ctx s' → s.pos ≤ s'.pos → s'.refPos = r → SafeK ctx p s' ∧ Strict p s') → NoErr (many0 p fuel) s
  | 0, s, _, _, _ => by intro k x h; cases h
  | fuel + 1, s, hw, hr, hp => by
    intro k x h
    simp only [many0] at h
    obtain ⟨h0, hs0⟩ := hp s hw (Nat.le_refl _) hr
    cases h1 : p s with
    | err k' x' => rw [h1] at h; cases h
    | panic e => rw [h1] at h; cases h
    | ok s1 a =>
      rw [h1] at h
      have hlt := hs0 s1 a h1
      have hpost := h0.ok _ _ h1
      have hb : (s1.pos == s.pos) = false := by simp; omega
      simp only [hb, Bool.false_eq_true, if_false] at h
      cases h2 : many0 p fuel s1 with
      | ok s2 as => rw [h2] at h; cases h
      | err k' x' =>
        exact many0_noerr p r fuel s1 (hpost.wf ctx hw) (by rw [hpost.2.2.1, hr])
          (fun s' w l rr => hp s' w (by omega) rr) k' x' h2
      | panic e => rw [h2] at h; cases h

/-! ### leaves -/

theorem affected_none {α} (ops : NodeOps α) (inner : P α) : affected ctx ops none inner = inner := rfl

theorem tks_safe (ks : List Kind) (s : St) (hw : WF ctx s) (hks : ∀ k ∈ ks, Plain k := by decide) :
    Safe ctx (altList (ks.map (tk ctx))) s :=
  altList_safe ctx hw _ (by
    intro p hp
    obtain ⟨k, hk, rfl⟩ := List.mem_map.mp hp
    exact tk_safe ctx k s hw (hks k hk))

/-- a token of an alternative of token parsers has one of the kinds, and is consumed -/
theorem tks_ok : ∀ (ks : List Kind) (s s' : St) (t : Token), WF ctx s → altList (ks.map (tk ctx)) s = .ok s' t →
    s.pos < s'.pos ∧ t.kind ∈ ks
  | [], s, s', t, _, h => by simp [altList] at h
  | [k], s, s', t, hw, h => by
    have := tk_ok ctx hw (show tk ctx k s = .ok s' t from h)
    exact ⟨this.1, by simp [this.2]⟩
  | k :: k2 :: ks, s, s', t, hw, h => by
    simp only [List.map_cons, altList, alt2] at h
    cases h1 : tk ctx k s with
    | ok s1 t1 =>
      simp only [h1] at h
      cases h
      have := tk_ok ctx hw h1
      exact ⟨this.1, by simp [this.2]⟩
    | err kk x =>
      simp only [h1] at h
      have := tks_ok (k2 :: ks) s s' t hw (by simpa [List.map_cons] using h)
      exact ⟨this.1, List.mem_cons_of_mem _ this.2⟩
    | panic e => simp [h1] at h

theorem intLit_safe (s : St) (hw : WF ctx s) : Safe ctx (parseIntLiteral ctx none) s := by
  rw [parseIntLiteral, affected_none]
  refine pmap_safe ctx _ (info_safe ctx hw (altList_safe ctx (wf_errBuf ctx hw []) _ ?_))
  intro p hp
  simp only [List.mem_cons, List.not_mem_nil, or_false] at hp
  rcases hp with rfl | rfl | rfl <;> exact pmap_safe ctx _ (tk_safe ctx _ _ (wf_errBuf ctx hw []))

theorem ident_safe (s : St) (hw : WF ctx s) : Safe ctx (parseIdentifier ctx none) s := by
  rw [parseIdentifier, affected_none]
  exact pmap_safe ctx _ (info_safe ctx hw (tk_safe ctx _ _ (wf_errBuf ctx hw [])))

theorem ident_progress {s s' : St} {i : Identifier} (hw : WF ctx s) (h : parseIdentifier ctx none s = .ok s' i) :
    s.pos < s'.pos := by
  rw [parseIdentifier, affected_none] at h
  simp only [pmap] at h
  cases h1 : info (tk ctx .Ident) s with
  | ok s1 r =>
    simp only [h1, Res.ok.injEq] at h
    obtain ⟨rfl, _⟩ := h
    obtain ⟨s2, a, h2, e⟩ := info_progress h1
    have := (tk_ok ctx (wf_errBuf ctx hw []) h2).1
    rw [e]; exact this
  | err k x => simp [h1] at h
  | panic e => simp [h1] at h

/-! ### look-ahead sets -/

theorem identThen_safe (ks : List Kind) (s : St) (hw : WF ctx s) (hks : ∀ k ∈ ks, Plain k := by decide) :
    Safe ctx (void (Parse.bind (parseIdentifier ctx none) (fun _ => altList (ks.map (tk ctx))))) s :=
  void_safe ctx (bind_safe ctx (ident_safe ctx s hw) (fun s' a h =>
    tks_safe ctx ks s' ((ident_safe ctx s hw).wf_ok ctx hw h) hks))

/-! #### parsers that may take the final `Eof` -/

theorem safeW_of_ok {α} {p : P α} {s s' : St} {a : α} (e : p s = .ok s' a) (h : PostW ctx s s') : SafeW ctx p s := by
  refine ⟨?_, ?_, ?_⟩
  · intro x hx; rw [e] at hx; cases hx
  · intro s'' b hx; rw [e] at hx; cases hx; exact h
  · intro k s'' hx; rw [e] at hx; cases hx

theorem safeW_congr {α} {p q : P α} {s : St} (e : p s = q s) (h : SafeW ctx q s) : SafeW ctx p s := by
  refine ⟨?_, ?_, ?_⟩
  · intro x hx; rw [e] at hx; exact h.np x hx
  · intro s'' b hx; rw [e] at hx; exact h.ok _ _ hx
  · intro k s'' hx; rw [e] at hx; exact h.er _ _ hx

theorem pmap_safeW {α β} {p : P α} (f : α → β) {s : St} (hp : SafeW ctx p s) : SafeW ctx (pmap f p) s := by
  cases h : p s with
  | ok s' a => exact safeW_of_ok ctx (a := f a) (by simp [pmap, h]) (hp.ok _ _ h)
  | err k s' =>
    obtain ⟨rfl, hpost⟩ := hp.er _ _ h
    exact (safe_of_err ctx (by simp [pmap, h]) hpost).w
  | panic e => exact absurd h (hp.np e)

theorem void_safeW {α} {p : P α} {s : St} (hp : SafeW ctx p s) : SafeW ctx (void p) s := pmap_safeW ctx _ hp

theorem alt2_safeW {α} {p q : P α} {s : St} (hp : SafeW ctx p s) (hq : SafeW ctx q s) : SafeW ctx (alt2 p q) s := by
  cases h : p s with
  | ok s' a => exact safeW_of_ok ctx (a := a) (by simp [alt2, h]) (hp.ok _ _ h)
  | err k s' => exact safeW_congr ctx (q := q) (by simp [alt2, h]) hq
  | panic e => exact absurd h (hp.np e)

theorem altList_safeW {α} {s : St} (hw : WF ctx s) : ∀ (ps : List (P α)), (∀ p ∈ ps, SafeW ctx p s) → SafeW ctx (altList ps) s
  | [], _ => (safe_of_err ctx (s' := s) rfl (Post.refl ctx hw)).w
  | [p], h => by simpa [altList] using h p (by simp)
  | p :: q :: ps, h => by
    simp only [altList]
    exact alt2_safeW ctx (h p (by simp)) (altList_safeW hw (q :: ps) (fun x hx => h x (List.mem_cons_of_mem _ hx)))

/-- under `peek` the input is restored: the final `Eof` stays where it is -/
theorem peek_safeW {α} {p : P α} {s : St} (hw : WF ctx s) (hp : SafeW ctx p s) : Safe ctx (peek p) s := by
  cases h : p s with
  | ok s' a => exact safe_of_ok ctx (s' := s) (a := a) (by simp [peek, h]) (Post.refl ctx hw)
  | err k s' =>
    obtain ⟨rfl, hpost⟩ := hp.er _ _ h
    exact safe_of_err ctx (by simp [peek, h]) hpost
  | panic e => exact absurd h (hp.np e)

/-- an alternative succeeds if one of its members does and none panics -/
theorem altList_ok {α} {s : St} : ∀ (ps : List (P α)), (∀ p ∈ ps, ∀ e, p s ≠ .panic e) →
    (∃ p ∈ ps, ∃ s' a, p s = .ok s' a) → ∃ s' a, altList ps s = .ok s' a
  | [], _, h => by obtain ⟨p, hp, _⟩ := h; cases hp
  | [p], _, h => by
    obtain ⟨q, hq, s', a, e⟩ := h
    simp only [List.mem_singleton] at hq
    subst hq
    exact ⟨s', a, by simpa [altList] using e⟩
  | p :: q :: ps, hnp, h => by
    simp only [altList, alt2]
    cases hp : p s with
    | ok s' a => exact ⟨s', a, rfl⟩
    | panic e => exact absurd hp (hnp p (by simp) e)
    | err k x =>
      simp only
      apply altList_ok (q :: ps) (fun r hr => hnp r (List.mem_cons_of_mem _ hr))
      obtain ⟨r, hr, s', a, e⟩ := h
      rcases List.mem_cons.mp hr with rfl | hr
      · rw [hp] at e; cases e
      · exact ⟨r, hr, s', a, e⟩

/-- in front of the final `Eof` the `eof` token parser succeeds -/
theorem tkEof_at_eof (he : EofLast ctx) (s : St) (hw : WF ctx s) (hq : s.pos + 1 = ctx.toks.size) :
    ∃ s' t, tk ctx .Eof s = .ok s' t := by
  obtain ⟨tl, htl, hkl⟩ := he.last
  have hidx : ctx.toks.size - 1 = s.pos := by omega
  rw [hidx] at htl
  have hc : comment ctx s = .err false s := by
    have ht : take1 ctx s = .ok { s with pos := s.pos + 1 } tl := by simp [take1, htl]
    unfold comment
    rw [ht]
    cases hty : tl.ty with
    | Comment c => simp [Token.kind, hty, TokenType.kind] at hkl
    | _ => simp only [hty]
  have hm : many0 (comment ctx) (loopFuel ctx) s = .ok s [] := by
    show many0 (comment ctx) (ctx.toks.size + 1 + 1) s = _
    simp [many0, hc]
  refine ⟨{ s with pos := s.pos + 1 }, tl, ?_⟩
  show tag ctx (loopFuel ctx) (fun ty => ty.kind == Kind.Eof) s = _
  have hk : (tl.ty.kind == Kind.Eof) = true := by simpa [Token.kind] using hkl
  simp [tag, hm, take1, htl, hk]

theorem la_global_safeW (fuel d : Nat) (s : St) (hw : WF ctx s) : SafeW ctx (lookAhead ctx fuel (d + 1) .global_dec) s := by
  simp only [lookAhead, Gen.lookAheadSet, List.map]
  refine altList_safeW ctx hw _ ?_
  intro p hp
  simp only [List.mem_cons, List.not_mem_nil, or_false] at hp
  rcases hp with rfl | rfl | rfl <;> exact void_safeW ctx (tk_safeW ctx _ _ hw)

theorem la_stmt_safeW (fuel d : Nat) (s : St) (hw : WF ctx s) : SafeW ctx (lookAhead ctx fuel (d + 2) .stmt) s := by
  simp only [lookAhead, Gen.lookAheadSet, List.map]
  refine altList_safeW ctx hw _ ?_
  intro p hp
  simp only [List.mem_cons, List.not_mem_nil, or_false] at hp
  rcases hp with rfl | rfl | rfl | rfl | rfl | rfl | rfl
  all_goals first
    | exact void_safeW ctx (tk_safeW ctx _ _ hw)
    | exact (identThen_safe ctx [Kind.Assign, Kind.LParen] s hw).w
    | exact la_global_safeW ctx fuel d s hw

theorem la_var_safeW (fuel d : Nat) (s : St) (hw : WF ctx s) : SafeW ctx (lookAhead ctx fuel (d + 3) .var_dec) s := by
  simp only [lookAhead, Gen.lookAheadSet, List.map]
  refine altList_safeW ctx hw _ ?_
  intro p hp
  simp only [List.mem_cons, List.not_mem_nil, or_false] at hp
  rcases hp with rfl | rfl | rfl
  all_goals first
    | exact void_safeW ctx (tk_safeW ctx _ _ hw)
    | exact (identThen_safe ctx [Kind.LBracket, Kind.Eq, Kind.Colon] s hw).w
    | exact la_stmt_safeW ctx fuel d s hw

theorem la_param_safeW (fuel d : Nat) (s : St) (hw : WF ctx s) : SafeW ctx (lookAhead ctx fuel (d + 4) .param_dec) s := by
  simp only [lookAhead, Gen.lookAheadSet, List.map]
  refine altList_safeW ctx hw _ ?_
  intro p hp
  simp only [List.mem_cons, List.not_mem_nil, or_false] at hp
  rcases hp with rfl | rfl | rfl
  all_goals first
    | exact void_safeW ctx (tk_safeW ctx _ _ hw)
    | exact la_var_safeW ctx fuel d s hw

theorem la_arg_safeW (fuel d : Nat) (s : St) (hw : WF ctx s) : SafeW ctx (lookAhead ctx fuel (d + 5) .arg) s := by
  simp only [lookAhead, Gen.lookAheadSet, List.map]
  refine altList_safeW ctx hw _ ?_
  intro p hp
  simp only [List.mem_cons, List.not_mem_nil, or_false] at hp
  subst hp
  exact la_param_safeW ctx fuel d s hw

/-- every look-ahead set of the regenerated table fits into the depth budget of `la` -/
theorem la_safeW (n : LAName) (s : St) (hw : WF ctx s) : SafeW ctx (la ctx n) s := by
  cases n with
  | global_dec => exact la_global_safeW ctx 0 7 s hw
  | stmt => exact la_stmt_safeW ctx 0 6 s hw
  | var_dec => exact la_var_safeW ctx 0 5 s hw
  | param_dec => exact la_param_safeW ctx 0 4 s hw
  | arg => exact la_arg_safeW ctx 0 3 s hw

theorem peekla_safe (n : LAName) (s : St) (hw : WF ctx s) : Safe ctx (peek (la ctx n)) s :=
  peek_safeW ctx hw (la_safeW ctx n s hw)

/-- a token parser succeeds on its own token (no comment in front of it to skip) -/
theorem tk_here (k : Kind) (s : St) (t : Token) (ht : ctx.toks[s.pos]? = some t) (hk : t.kind = k) (hc : k ≠ Kind.Comment) :
    ∃ s' t', tk ctx k s = .ok s' t' := by
  have hcm : comment ctx s = .err false s := by
    have h1 : take1 ctx s = .ok { s with pos := s.pos + 1 } t := by simp [take1, ht]
    unfold comment
    rw [h1]
    cases hty : t.ty with
    | Comment c => exact absurd (by simp [Token.kind, hty, TokenType.kind] at hk; exact hk.symm) hc
    | _ => simp only [hty]
  have hm : many0 (comment ctx) (loopFuel ctx) s = .ok s [] := by
    show many0 (comment ctx) (ctx.toks.size + 1 + 1) s = _
    simp [many0, hcm]
  refine ⟨{ s with pos := s.pos + 1 }, t, ?_⟩
  show tag ctx (loopFuel ctx) (fun ty => ty.kind == k) s = _
  have hk' : (t.ty.kind == k) = true := by simpa [Token.kind] using hk
  simp [tag, hm, take1, ht, hk']

/-- the innermost synchronisation set succeeds where one of its three tokens is next -/
theorem la_global_of (fuel d : Nat) (s : St) (hw : WF ctx s)
    (h : ∃ k, (k = Kind.Proc ∨ k = Kind.Type ∨ k = Kind.Eof) ∧ ∃ s' t, tk ctx k s = .ok s' t) :
    ∃ s' a, lookAhead ctx fuel (d + 1) .global_dec s = .ok s' a := by
  simp only [lookAhead, Gen.lookAheadSet, List.map]
  refine altList_ok _ ?_ ?_
  · intro p hp
    simp only [List.mem_cons, List.not_mem_nil, or_false] at hp
    rcases hp with rfl | rfl | rfl <;> exact (void_safeW ctx (tk_safeW ctx _ _ hw)).np
  · obtain ⟨k, hk, s', t, e⟩ := h
    rcases hk with rfl | rfl | rfl
    · exact ⟨void (tk ctx .Proc), by simp, s', (), by simp [void, pmap, e]⟩
    · exact ⟨void (tk ctx .Type), by simp, s', (), by simp [void, pmap, e]⟩
    · exact ⟨void (tk ctx .Eof), by simp, s', (), by simp [void, pmap, e]⟩

theorem la_stmt_of (fuel d : Nat) (s : St) (hw : WF ctx s)
    (h : ∃ s' a, lookAhead ctx fuel (d + 1) .global_dec s = .ok s' a) :
    ∃ s' a, lookAhead ctx fuel (d + 2) .stmt s = .ok s' a := by
  obtain ⟨s', a, e⟩ := h
  have hm : ∀ p ∈ (Gen.lookAheadSet .stmt).map (fun item => match item with
      | .tok k => void (tk ctx k)
      | .identThen ks => void (Parse.bind (parseIdentifier ctx none) (fun _ => altList (ks.map (tk ctx))))
      | .sub m => lookAhead ctx fuel (d + 1) m), ∀ x, p s ≠ .panic x := by
    intro p hp
    simp only [Gen.lookAheadSet, List.map, List.mem_cons, List.not_mem_nil, or_false] at hp
    rcases hp with rfl | rfl | rfl | rfl | rfl | rfl | rfl
    all_goals first
      | exact (void_safeW ctx (tk_safeW ctx _ _ hw)).np
      | exact (identThen_safe ctx [Kind.Assign, Kind.LParen] s hw).np
      | exact (la_global_safeW ctx fuel d s hw).np
  rw [lookAhead]
  exact altList_ok _ hm ⟨lookAhead ctx fuel (d + 1) .global_dec, by simp [Gen.lookAheadSet], s', a, e⟩

theorem la_var_of (fuel d : Nat) (s : St) (hw : WF ctx s)
    (h : ∃ s' a, lookAhead ctx fuel (d + 1) .global_dec s = .ok s' a) :
    ∃ s' a, lookAhead ctx fuel (d + 3) .var_dec s = .ok s' a := by
  obtain ⟨s', a, e⟩ := la_stmt_of ctx fuel d s hw h
  have hm : ∀ p ∈ (Gen.lookAheadSet .var_dec).map (fun item => match item with
      | .tok k => void (tk ctx k)
      | .identThen ks => void (Parse.bind (parseIdentifier ctx none) (fun _ => altList (ks.map (tk ctx))))
      | .sub m => lookAhead ctx fuel (d + 2) m), ∀ x, p s ≠ .panic x := by
    intro p hp
    simp only [Gen.lookAheadSet, List.map, List.mem_cons, List.not_mem_nil, or_false] at hp
    rcases hp with rfl | rfl | rfl
    · exact (void_safeW ctx (tk_safeW ctx _ _ hw)).np
    · exact (la_stmt_safeW ctx fuel d s hw).np
    · exact (identThen_safe ctx [Kind.LBracket, Kind.Eq, Kind.Colon] s hw).np
  rw [lookAhead]
  exact altList_ok _ hm ⟨lookAhead ctx fuel (d + 2) .stmt, by simp [Gen.lookAheadSet], s', a, e⟩

theorem la_param_of (fuel d : Nat) (s : St) (hw : WF ctx s)
    (h : ∃ s' a, lookAhead ctx fuel (d + 1) .global_dec s = .ok s' a) :
    ∃ s' a, lookAhead ctx fuel (d + 4) .param_dec s = .ok s' a := by
  obtain ⟨s', a, e⟩ := la_var_of ctx fuel d s hw h
  have hm : ∀ p ∈ (Gen.lookAheadSet .param_dec).map (fun item => match item with
      | .tok k => void (tk ctx k)
      | .identThen ks => void (Parse.bind (parseIdentifier ctx none) (fun _ => altList (ks.map (tk ctx))))
      | .sub m => lookAhead ctx fuel (d + 3) m), ∀ x, p s ≠ .panic x := by
    intro p hp
    simp only [Gen.lookAheadSet, List.map, List.mem_cons, List.not_mem_nil, or_false] at hp
    rcases hp with rfl | rfl | rfl
    · exact (void_safeW ctx (tk_safeW ctx _ _ hw)).np
    · exact (void_safeW ctx (tk_safeW ctx _ _ hw)).np
    · exact (la_var_safeW ctx fuel d s hw).np
  rw [lookAhead]
  exact altList_ok _ hm ⟨lookAhead ctx fuel (d + 3) .var_dec, by simp [Gen.lookAheadSet], s', a, e⟩

theorem la_arg_of (fuel d : Nat) (s : St) (hw : WF ctx s)
    (h : ∃ s' a, lookAhead ctx fuel (d + 1) .global_dec s = .ok s' a) :
    ∃ s' a, lookAhead ctx fuel (d + 5) .arg s = .ok s' a := by
  obtain ⟨s', a, e⟩ := la_param_of ctx fuel d s hw h
  have hm : ∀ p ∈ (Gen.lookAheadSet .arg).map (fun item => match item with
      | .tok k => void (tk ctx k)
      | .identThen ks => void (Parse.bind (parseIdentifier ctx none) (fun _ => altList (ks.map (tk ctx))))
      | .sub m => lookAhead ctx fuel (d + 4) m), ∀ x, p s ≠ .panic x := by
    intro p hp
    simp only [Gen.lookAheadSet, List.map, List.mem_cons, List.not_mem_nil, or_false] at hp
    subst hp
    exact (la_param_safeW ctx fuel d s hw).np
  rw [lookAhead]
  exact altList_ok _ hm ⟨lookAhead ctx fuel (d + 4) .param_dec, by simp [Gen.lookAheadSet], s', a, e⟩

/-- every synchronisation set accepts each of the three tokens of the innermost one -/
theorem la_of (n : LAName) (s : St) (hw : WF ctx s)
    (h : ∃ k, (k = Kind.Proc ∨ k = Kind.Type ∨ k = Kind.Eof) ∧ ∃ s' t, tk ctx k s = .ok s' t) :
    ∃ s' a, la ctx n s = .ok s' a := by
  cases n with
  | global_dec => exact la_global_of ctx 0 7 s hw h
  | stmt => exact la_stmt_of ctx 0 6 s hw (la_global_of ctx 0 6 s hw h)
  | var_dec => exact la_var_of ctx 0 5 s hw (la_global_of ctx 0 5 s hw h)
  | param_dec => exact la_param_of ctx 0 4 s hw (la_global_of ctx 0 4 s hw h)
  | arg => exact la_arg_of ctx 0 3 s hw (la_global_of ctx 0 3 s hw h)

/-- **every synchronisation set accepts the final `Eof`**: no recovery skips it -/
theorem peekla_atEof (n : LAName) : AtEof ctx (peek (la ctx n)) := by
  intro he s hw hq k x hx
  obtain ⟨s', a, e⟩ := la_of ctx n s hw ⟨Kind.Eof, Or.inr (Or.inr rfl), tkEof_at_eof ctx he s hw hq⟩
  simp [peek, e] at hx

/-- **every synchronisation set accepts `proc` and `type`**: no recovery skips a declaration keyword -/
theorem peekla_atKw (n : LAName) : AtKw ctx (peek (la ctx n)) := by
  intro s t hw ht hk k x hx
  have h : ∃ k, (k = Kind.Proc ∨ k = Kind.Type ∨ k = Kind.Eof) ∧ ∃ s' t', tk ctx k s = .ok s' t' := by
    rcases hk with hk | hk
    · exact ⟨Kind.Proc, Or.inl rfl, tk_here ctx _ s t ht hk (by decide)⟩
    · exact ⟨Kind.Type, Or.inr (Or.inl rfl), tk_here ctx _ s t ht hk (by decide)⟩
  obtain ⟨s', a, e⟩ := la_of ctx n s hw h
  simp [peek, e] at hx

/-! ### expressions -/

theorem tkbind_safe {β} (k : Kind) (f : Token → P β) (s : St) (hw : WF ctx s)
    (hf : ∀ s' t, WF ctx s' → s.pos < s'.pos → s'.refPos = s.refPos → Safe ctx (f t) s') (hk : Plain k := by decide) :
    Safe ctx (Parse.bind (tk ctx k) f) s :=
  bind_safe ctx (tk_safe ctx k s hw hk) (fun s' t h =>
    hf s' t ((tk_safe ctx k s hw hk).wf_ok ctx hw h) (tk_ok ctx hw h).1 ((tk_safe ctx k s hw hk).ok _ _ h).2.2.1)

theorem strict_tk (k : Kind) (s : St) (hw : WF ctx s) : Strict (tk ctx k) s := fun _ _ h => (tk_ok ctx hw h).1

theorem strict_info {α} {p : P α} {s : St} (hs : Strict p { s with errBuf := [] }) : Strict (info p) s := by
  intro s' r h
  obtain ⟨s1, a, h1, e⟩ := info_progress h
  rw [e]
  exact hs _ _ h1

theorem strict_refParse {α} {parseT : Option α → P α} {s : St} (hs : Strict (parseT none) { s with refPos := s.pos }) :
    Strict (refParse parseT none) s := by
  intro s' r h
  unfold refParse at h
  simp only [Option.map_none, Option.isSome_none] at h
  split at h
  · cases h
  · cases hp : parseT none { s with refPos := s.pos } with
    | ok s1 a =>
      rw [hp] at h
      simp only [Bool.false_eq_true, if_false, Res.ok.injEq] at h
      obtain ⟨rfl, _⟩ := h
      exact hs s1 a hp
    | err k x => rw [hp] at h; cases h
    | panic e => rw [hp] at h; cases h

theorem strict_ident (s : St) (hw : WF ctx s) : Strict (parseIdentifier ctx none) s :=
  fun _ _ h => ident_progress ctx hw h

/-- a keyword followed by anything safe: safe, and it consumes the keyword -/
theorem tkbind_both {β} (k : Kind) (f : Token → P β) (s : St) (hw : WF ctx s)
    (hf : ∀ s' t, WF ctx s' → s.pos < s'.pos → s'.refPos = s.refPos → Safe ctx (f t) s') (hk : Plain k := by decide) :
    Safe ctx (Parse.bind (tk ctx k) f) s ∧ Strict (Parse.bind (tk ctx k) f) s := by
  have ht := tk_safe ctx k s hw hk
  have hf' : ∀ s' t, tk ctx k s = .ok s' t → Safe ctx (f t) s' := fun s' t h =>
    hf s' t (ht.wf_ok ctx hw h) (tk_ok ctx hw h).1 (ht.ok _ _ h).2.2.1
  exact ⟨bind_safe ctx ht hf', strict_bind_left ctx (strict_tk ctx k s hw) hf'⟩

theorem bind_both_left {α β} {p : P α} {f : α → P β} {s : St} (hp : Safe ctx p s) (hs : Strict p s)
    (hf : ∀ s1 a, p s = .ok s1 a → Safe ctx (f a) s1) :
    Safe ctx (Parse.bind p f) s ∧ Strict (Parse.bind p f) s :=
  ⟨bind_safe ctx hp hf, strict_bind_left ctx hs hf⟩

theorem docComments_safe (s : St) (hw : WF ctx s) : Safe ctx (docComments ctx) s :=
  many0_safe ctx _ s.refPos _ s hw (loopFuel_ok ctx s hw) rfl (fun s' w _ _ => comment_safe ctx s' w)

/-- documentation comments, a keyword, then anything safe -/
theorem doctk_both {β} (k : Kind) (tail : List (List Char) → Token → P β) (s : St) (hw : WF ctx s)
    (hf : ∀ s2 doc t, WF ctx s2 → s.pos < s2.pos → s2.refPos = s.refPos → Safe ctx (tail doc t) s2)
    (hk : Plain k := by decide) :
    Safe ctx (Parse.bind (docComments ctx) (fun doc => Parse.bind (tk ctx k) (tail doc))) s ∧
    Strict (Parse.bind (docComments ctx) (fun doc => Parse.bind (tk ctx k) (tail doc))) s := by
  have hd := docComments_safe ctx s hw
  have hb : ∀ s1 doc, docComments ctx s = .ok s1 doc →
      Safe ctx (Parse.bind (tk ctx k) (tail doc)) s1 ∧ Strict (Parse.bind (tk ctx k) (tail doc)) s1 := by
    intro s1 doc e1
    have w1 := hd.wf_ok ctx hw e1
    have p1 := hd.ok _ _ e1
    exact tkbind_both ctx k (tail doc) s1 w1 (fun s2 t w2 l2 r2 =>
      hf s2 doc t w2 (by have := p1.1; omega) (by rw [r2, p1.2.2.1])) hk
  exact ⟨bind_safe ctx hd (fun s1 doc e1 => (hb s1 doc e1).1),
    strict_bind_right ctx hd (fun s1 doc e1 => (hb s1 doc e1).2)⟩

theorem expectInc_safe {α} (p : P α) (msg : Msg) (s : St) (hw : WF ctx s) (hp : Safe ctx p s) :
    Safe ctx (Parse.expect none (inc p) msg) s :=
  (expect_safe ctx msg hw (parser := inc p) hp).1

theorem parseRhs_safe (parser : P Expr) (lhs : Expr) (op : Operator) (s : St) (hw : WF ctx s) (hp : Safe ctx parser s) :
    Safe ctx (parseRhs parser lhs op) s := by
  have he := expect_safe ctx (.ExpectedToken (chars "expression")) hw (parser := inc parser) hp
  cases h : Parse.expect none (inc parser) (.ExpectedToken (chars "expression")) s with
  | ok s1 r =>
    have hpost := he.1.ok _ _ h
    have hw1 := hpost.wf ctx hw
    have h1 : ¬ s1.pos < s1.refPos := by have := hw1.1; omega
    exact safe_of_ok ctx (s' := s1) (by simp [parseRhs, h, h1]; rfl) hpost
  | err k x => exact absurd h (he.2 k x)
  | panic e => exact absurd h (he.1.np e)

theorem opOfKind_mul (k : Kind) (h : k ∈ [Kind.Times, Kind.Divide]) : ∃ op, opOfKind k = some op := by
  simp only [List.mem_cons, List.not_mem_nil, or_false] at h
  rcases h with rfl | rfl <;> exact ⟨_, rfl⟩

theorem opOfKind_add (k : Kind) (h : k ∈ [Kind.Plus, Kind.Minus]) : ∃ op, opOfKind k = some op := by
  simp only [List.mem_cons, List.not_mem_nil, or_false] at h
  rcases h with rfl | rfl <;> exact ⟨_, rfl⟩

theorem opOfKind_cmp (k : Kind) (h : k ∈ [Kind.Eq, Kind.Neq, Kind.Le, Kind.Lt, Kind.Ge, Kind.Gt]) : ∃ op, opOfKind k = some op := by
  simp only [List.mem_cons, List.not_mem_nil, or_false] at h
  rcases h with rfl | rfl | rfl | rfl | rfl | rfl <;> exact ⟨_, rfl⟩

/-- the operator loops of `parse_mul` / `parse_add` -/
theorem opLoop_safe (ops : List Kind) (hops : ∀ k ∈ ops, ∃ op, opOfKind k = some op) (rhs : Expr → Operator → P Expr) (r : Nat) :
    ∀ (fuel : Nat) (e : Expr) (s0 s : St), WF ctx s → ctx.toks.size - s.pos < fuel → s.refPos = r → Post ctx s0 s →
    (∀ e op s', WF ctx s' → s.pos ≤ s'.pos → s'.refPos = r → Safe ctx (rhs e op) s') →
    (∀ x, opLoop ctx ops rhs fuel e s ≠ .panic x) ∧
    (∀ s' a, opLoop ctx ops rhs fuel e s = .ok s' a → Post ctx s0 s') ∧
    (∀ k s', opLoop ctx ops rhs fuel e s = .err k s' → k = false ∧ Post ctx s0 s')
  | 0, _, _, s, _, hf, _, _, _ => by omega
  | fuel + 1, e, s0, s, hw, hf, hr, h0, hrhs => by
    have hne : ∀ k ∈ ops, Plain k := by
      intro k hk
      obtain ⟨op, h⟩ := hops k hk
      refine ⟨?_, ?_, ?_⟩ <;> intro he <;> subst he <;> simp [opOfKind] at h
    have ht := tks_safe ctx ops s hw hne
    cases h : altList (ops.map (tk ctx)) s with
    | ok s1 t =>
      obtain ⟨hlt, hk⟩ := tks_ok ctx ops s s1 t hw h
      obtain ⟨op, hop⟩ := hops _ hk
      have hp1 := ht.ok _ _ h
      have hw1 := hp1.wf ctx hw
      have hr1 : s1.refPos = r := by rw [hp1.2.2.1, hr]
      have hs := hrhs e op s1 hw1 (Nat.le_of_lt hlt) hr1
      cases h2 : rhs e op s1 with
      | ok s2 e' =>
        have hp2 := hs.ok _ _ h2
        have hw2 := hp2.wf ctx hw1
        have e1 : opLoop ctx ops rhs (fuel + 1) e s = opLoop ctx ops rhs fuel e' s2 := by
          simp [opLoop, h, hop, h2]
        rw [e1]
        exact opLoop_safe ops hops rhs r fuel e' s0 s2 hw2 (by have := hp2.1; have := hw2.2; omega)
          (by rw [hp2.2.2.1, hr1]) (h0.trans ctx (hp1.trans ctx hp2))
          (fun e op s' w l rr => hrhs e op s' w (by have := hp2.1; omega) rr)
      | err k x =>
        obtain ⟨rfl, hp2⟩ := hs.er _ _ h2
        have e1 : opLoop ctx ops rhs (fuel + 1) e s = .err false x := by simp [opLoop, h, hop, h2]
        refine ⟨?_, ?_, ?_⟩
        · intro y hy; rw [e1] at hy; cases hy
        · intro s' a hy; rw [e1] at hy; cases hy
        · intro k s' hy; rw [e1] at hy; cases hy; exact ⟨rfl, h0.trans ctx (hp1.trans ctx hp2)⟩
      | panic x => exact absurd h2 (hs.np x)
    | err k x =>
      have e1 : opLoop ctx ops rhs (fuel + 1) e s = .ok s e := by simp [opLoop, h]
      refine ⟨?_, ?_, ?_⟩
      · intro y hy; rw [e1] at hy; cases hy
      · intro s' a hy; rw [e1] at hy; cases hy; exact h0
      · intro k s' hy; rw [e1] at hy; cases hy
    | panic x => exact absurd h (ht.np x)

theorem opLoop_safe' (ops : List Kind) (hops : ∀ k ∈ ops, ∃ op, opOfKind k = some op) (rhs : Expr → Operator → P Expr)
    (e : Expr) (s : St) (hw : WF ctx s)
    (hrhs : ∀ e op s', WF ctx s' → s.pos ≤ s'.pos → s'.refPos = s.refPos → Safe ctx (rhs e op) s') :
    Safe ctx (opLoop ctx ops rhs (loopFuel ctx) e) s := by
  obtain ⟨a, b, c⟩ := opLoop_safe ctx ops hops rhs s.refPos (loopFuel ctx) e s s hw (loopFuel_ok ctx s hw) rfl
    (Post.refl ctx hw) hrhs
  exact ⟨a, b, c⟩

theorem safe_step {α β} {p : P α} {q : P β} {s s1 : St} (hnp : ∀ e, q s1 = .panic e → p s = .panic e)
    (hok : ∀ s' a, p s = .ok s' a → ∃ b, q s1 = .ok s' b) (her : ∀ k s', p s = .err k s' → q s1 = .err k s')
    (hpan : ∀ e, p s = .panic e → q s1 = .panic e)
    (h01 : Post ctx s s1) (hq : Safe ctx q s1) : Safe ctx p s := by
  refine ⟨?_, ?_, ?_⟩
  · intro e he; exact hq.np e (hpan e he)
  · intro s' a he
    obtain ⟨b, hb⟩ := hok s' a he
    exact h01.trans ctx (hq.ok _ _ hb)
  · intro k s' he
    obtain ⟨hk, hp⟩ := hq.er _ _ (her k s' he)
    exact ⟨hk, h01.trans ctx hp⟩

/-- `info p` when `p` is safe in every state that differs from `s` in the error buffer only -/
theorem info_safe' {α} {p : P α} {s : St} (hw : WF ctx s)
    (hp : ∀ s0, s0.pos = s.pos → s0.refPos = s.refPos → WF ctx s0 → Safe ctx p s0) : Safe ctx (info p) s :=
  info_safe ctx hw (hp _ rfl rfl (wf_errBuf ctx hw []))

theorem accessParser_safe (pe : Option (Ref Expr) → P (Ref Expr)) (s : St) (hw : WF ctx s)
    (hpe : ∀ s', WF ctx s' → s.pos < s'.pos → Safe ctx (pe none) s') : Safe ctx (accessParser ctx pe) s := by
  unfold accessParser
  refine info_safe' ctx hw (fun s0 e0 r0 w0 => ?_)
  refine tkbind_safe ctx _ _ s0 w0 (fun s1 _ w1 l1 _ => ?_)
  have h1 := expect_safe ctx (.ExpectedToken (chars "expression")) w1 (parser := pe) (hpe s1 w1 (by omega))
  refine bind_safe ctx h1.1 (fun s2 idx e2 => ?_)
  have w2 := h1.1.wf_ok ctx w1 e2
  have h2 := expectInc_safe ctx (tk ctx .RBracket) (.MissingClosing ']') s2 w2 (tk_safe ctx _ s2 w2)
  exact bind_safe ctx h2 (fun s3 _ e3 => pure_safe ctx _ s3 (h2.wf_ok ctx w2 e3))

theorem bracketedInner_safe (pc : P Expr) (s : St) (hw : WF ctx s)
    (hpc : ∀ s', WF ctx s' → s.pos < s'.pos → Safe ctx pc s') : Safe ctx (bracketedInner ctx pc) s := by
  unfold bracketedInner
  have h0 := info_safe ctx hw (tk_safe ctx .LParen _ (wf_errBuf ctx hw []))
  refine bind_safe ctx h0 (fun s1 lp e1 => ?_)
  have w1 := h0.wf_ok ctx hw e1
  obtain ⟨sx, a, hx, ex⟩ := info_progress e1
  have hlt : s.pos < s1.pos := by
    have := (tk_ok ctx (wf_errBuf ctx hw []) hx).1
    rw [ex]; exact this
  have h1 := expectInc_safe ctx pc (.ExpectedToken (chars "expression")) s1 w1 (hpc s1 w1 hlt)
  refine bind_safe ctx h1 (fun s2 e e2 => ?_)
  have w2 := h1.wf_ok ctx w1 e2
  have h2 := expectInc_safe ctx (tk ctx .RParen) (.MissingClosing ')') s2 w2 (tk_safe ctx _ s2 w2)
  exact bind_safe ctx h2 (fun s3 _ e3 => pure_safe ctx _ s3 (h2.wf_ok ctx w2 e3))

theorem parseVariable_eq (F : Nat) (s : St) :
    parseVariable ctx (F + 1) none s =
      Parse.bind (info (pmap Var.named (parseIdentifier ctx none))) (fun (r : Var × AstInfo) =>
        pmap (fun (accesses : List (Option (Ref Expr) × AstInfo)) => accesses.foldl (accessStep r.2) r.1)
          (many0 (accessParser ctx (refParse (parseExpression ctx F))) (loopFuel ctx))) s := by
  simp only [parseVariable, affected_none, Parse.bind]
  cases h : info (pmap Var.named (parseIdentifier ctx none)) s with
  | ok s1 r =>
    obtain ⟨v, vinfo⟩ := r
    simp only [pmap]
    cases many0 (accessParser ctx (refParse (parseExpression ctx F))) (loopFuel ctx) s1 <;> rfl
  | err k x => rfl
  | panic e => rfl

theorem parseBracketed_eq (F : Nat) (s : St) :
    parseBracketed ctx (F + 1) s =
      pmap (fun (r : (AstInfo × Option Expr) × AstInfo) =>
          Expr.bracketed (r.1.2.getD (.error { range := ⟨r.1.1.range.hi, r.1.1.range.hi⟩ })) r.2)
        (info (bracketedInner ctx (parseComparison ctx F))) s := by
  simp only [parseBracketed, pmap]
  cases info (bracketedInner ctx (parseComparison ctx F)) s with
  | ok s1 r =>
    obtain ⟨⟨lp, e⟩, i⟩ := r
    rfl
  | err k x => rfl
  | panic e => rfl

/-- the fuel each expression parser needs: eight levels per remaining token -/
structure ESafe (F : Nat) : Prop where
  expr : ∀ s, WF ctx s → 8 * (ctx.toks.size - s.pos) + 8 ≤ F → Safe ctx (parseExpression ctx F none) s
  cmp : ∀ s, WF ctx s → 8 * (ctx.toks.size - s.pos) + 7 ≤ F → Safe ctx (parseComparison ctx F) s
  add : ∀ s, WF ctx s → 8 * (ctx.toks.size - s.pos) + 6 ≤ F → Safe ctx (parseAdd ctx F) s
  mul : ∀ s, WF ctx s → 8 * (ctx.toks.size - s.pos) + 5 ≤ F → Safe ctx (parseMul ctx F) s
  factor : ∀ s, WF ctx s → 8 * (ctx.toks.size - s.pos) + 4 ≤ F → Safe ctx (parseFactor ctx F) s
  primary : ∀ s, WF ctx s → 8 * (ctx.toks.size - s.pos) + 3 ≤ F → Safe ctx (parsePrimary ctx F) s
  unary : ∀ s, WF ctx s → 8 * (ctx.toks.size - s.pos) + 3 ≤ F → Safe ctx (parseUnary ctx F) s
  var : ∀ s, WF ctx s → 8 * (ctx.toks.size - s.pos) + 2 ≤ F → Safe ctx (parseVariable ctx F none) s
  bracketed : ∀ s, WF ctx s → 8 * (ctx.toks.size - s.pos) + 2 ≤ F → Safe ctx (parseBracketed ctx F) s

theorem esafe : ∀ F, ESafe ctx F
  | 0 => ⟨by intro s _ h; omega, by intro s _ h; omega, by intro s _ h; omega, by intro s _ h; omega,
      by intro s _ h; omega, by intro s _ h; omega, by intro s _ h; omega, by intro s _ h; omega, by intro s _ h; omega⟩
  | F + 1 => by
    have ih := esafe F
    refine ⟨?_, ?_, ?_, ?_, ?_, ?_, ?_, ?_, ?_⟩
    · -- Expression
      intro s hw hf
      show Safe ctx (parseComparison ctx F) s
      exact ih.cmp s hw (by omega)
    · -- comparison
      intro s hw hf
      show Safe ctx (Parse.bind (parseAdd ctx F) _) s
      have ha := ih.add s hw (by omega)
      refine bind_safe ctx ha (fun s1 e h1 => ?_)
      have hp1 := ha.ok _ _ h1
      have w1 := hp1.wf ctx hw
      have ht := tks_safe ctx [Kind.Eq, .Neq, .Le, .Lt, .Ge, .Gt] s1 w1
      cases h : altList ([Kind.Eq, .Neq, .Le, .Lt, .Ge, .Gt].map (tk ctx)) s1 with
      | ok s2 t =>
        have h' : altList ([Kind.Eq, .Neq, .Le, .Lt, .Ge, .Gt].map (tk ctx)) s1 = .ok s2 t := h
        obtain ⟨hlt, hk⟩ := tks_ok ctx _ s1 s2 t w1 h'
        obtain ⟨op, hop⟩ := opOfKind_cmp _ hk
        have hp2 := ht.ok _ _ h'
        have w2 := hp2.wf ctx w1
        have hr := parseRhs_safe ctx (parseAdd ctx F) e op s2 w2 (ih.add s2 w2 (by have := hp1.1; omega))
        refine ⟨?_, ?_, ?_⟩
        · intro x hx; simp only [h, hop] at hx; exact hr.np x hx
        · intro s' a hx; simp only [h, hop] at hx; exact hp2.trans ctx (hr.ok _ _ hx)
        · intro k s' hx; simp only [h, hop] at hx
          exact ⟨(hr.er _ _ hx).1, hp2.trans ctx (hr.er _ _ hx).2⟩
      | err k x =>
        refine ⟨?_, ?_, ?_⟩
        · intro y hy; simp only [h] at hy; cases hy
        · intro s' a hy; simp only [h, Res.ok.injEq] at hy; obtain ⟨rfl, _⟩ := hy; exact Post.refl ctx w1
        · intro k' s' hy; simp only [h] at hy; cases hy
      | panic x => exact absurd h (ht.np x)
    · -- add
      intro s hw hf
      show Safe ctx (Parse.bind (parseMul ctx F) _) s
      have ha := ih.mul s hw (by omega)
      refine bind_safe ctx ha (fun s1 e h1 => ?_)
      have hp1 := ha.ok _ _ h1
      have w1 := hp1.wf ctx hw
      exact opLoop_safe' ctx _ opOfKind_add _ e s1 w1 (fun e op s2 w2 l2 _ =>
        parseRhs_safe ctx _ e op s2 w2 (ih.mul s2 w2 (by have := hp1.1; omega)))
    · -- mul
      intro s hw hf
      show Safe ctx (Parse.bind (parseFactor ctx F) _) s
      have ha := ih.factor s hw (by omega)
      refine bind_safe ctx ha (fun s1 e h1 => ?_)
      have hp1 := ha.ok _ _ h1
      have w1 := hp1.wf ctx hw
      exact opLoop_safe' ctx _ opOfKind_mul _ e s1 w1 (fun e op s2 w2 l2 _ =>
        parseRhs_safe ctx _ e op s2 w2 (ih.factor s2 w2 (by have := hp1.1; omega)))
    · -- factor
      intro s hw hf
      show Safe ctx (alt2 (parsePrimary ctx F) (parseUnary ctx F)) s
      exact alt2_safe ctx (ih.primary s hw (by omega)) (ih.unary s hw (by omega))
    · -- primary
      intro s hw hf
      show Safe ctx (altList [pmap Expr.intLit (parseIntLiteral ctx none), pmap Expr.var (parseVariable ctx F none),
        parseBracketed ctx F]) s
      refine altList_safe ctx hw _ ?_
      intro p hp
      simp only [List.mem_cons, List.not_mem_nil, or_false] at hp
      rcases hp with rfl | rfl | rfl
      · exact pmap_safe ctx _ (intLit_safe ctx s hw)
      · exact pmap_safe ctx _ (ih.var s hw (by omega))
      · exact ih.bracketed s hw (by omega)
    · -- unary
      intro s hw hf
      show Safe ctx (pmap _ (info (Parse.bind (tk ctx .Minus) (fun _ => parseFactor ctx F)))) s
      refine pmap_safe ctx _ (info_safe' ctx hw (fun s0 e0 r0 w0 => ?_))
      exact tkbind_safe ctx _ _ s0 w0 (fun s1 _ w1 l1 _ => ih.factor s1 w1 (by have := w1.2; omega))
    · -- variable
      intro s hw hf
      refine safe_congr ctx (parseVariable_eq ctx F s) ?_
      have h0 := info_safe ctx hw (pmap_safe ctx Var.named (ident_safe ctx _ (wf_errBuf ctx hw [])))
      refine bind_safe ctx h0 (fun s1 r e1 => ?_)
      have w1 := h0.wf_ok ctx hw e1
      have hp1 := h0.ok _ _ e1
      refine pmap_safe ctx _ (many0_safe ctx _ s1.refPos _ s1 w1 (loopFuel_ok ctx s1 w1) rfl (fun s2 w2 l2 _ => ?_))
      refine accessParser_safe ctx _ s2 w2 (fun s3 w3 l3 => ?_)
      exact refParse_safe ctx w3 (ih.expr _ (wf_reref ctx w3) (by
        have := hp1.1; have := w3.2
        show 8 * (ctx.toks.size - s3.pos) + 8 ≤ F
        omega))
    · -- bracketed
      intro s hw hf
      refine safe_congr ctx (parseBracketed_eq ctx F s) ?_
      refine pmap_safe ctx _ (info_safe' ctx hw (fun s0 e0 r0 w0 => ?_))
      exact bracketedInner_safe ctx _ s0 w0 (fun s1 w1 l1 => ih.cmp s1 w1 (by have := w1.2; omega))

/-- `Expression::parse` with the fuel the model gives it never panics -/
theorem expression_safe (s : St) (hw : WF ctx s) : Safe ctx (parseExpression ctx (exprFuel ctx) none) s :=
  (esafe ctx _).expr s hw (by have := hw.2; simp only [exprFuel]; omega)

theorem variable_safe (s : St) (hw : WF ctx s) : Safe ctx (parseVariable ctx (exprFuel ctx) none) s :=
  (esafe ctx _).var s hw (by have := hw.2; simp only [exprFuel]; omega)

/-- a variable starts with its identifier -/
theorem variable_strict (s : St) (hw : WF ctx s) : Strict (parseVariable ctx (exprFuel ctx) none) s := by
  have e : exprFuel ctx = (8 * ctx.toks.size + 15) + 1 := rfl
  rw [e]
  have ih := esafe ctx (8 * ctx.toks.size + 15)
  refine strict_congr (parseVariable_eq ctx _ s) ?_
  have h0 := info_safe ctx hw (pmap_safe ctx Var.named (ident_safe ctx _ (wf_errBuf ctx hw [])))
  refine strict_bind_left ctx (strict_info (strict_pmap _ (strict_ident ctx _ (wf_errBuf ctx hw [])))) (fun s1 r e1 => ?_)
  have w1 := h0.wf_ok ctx hw e1
  refine pmap_safe ctx _ (many0_safe ctx _ s1.refPos _ s1 w1 (loopFuel_ok ctx s1 w1) rfl (fun s2 w2 l2 _ => ?_))
  refine accessParser_safe ctx _ s2 w2 (fun s3 w3 l3 => ?_)
  exact refParse_safe ctx w3 (ih.expr _ (wf_reref ctx w3) (by
    have := w3.2
    show 8 * (ctx.toks.size - s3.pos) + 8 ≤ 8 * ctx.toks.size + 15
    omega))

theorem refExpr_safe (s : St) (hw : WF ctx s) : Safe ctx (refExpr ctx none) s :=
  refParse_safe ctx hw (expression_safe ctx _ (wf_reref ctx hw))

/-! ### type expressions -/

theorem arrayTypeInner_safe (pt : Option (Ref TypeExpr) → P (Ref TypeExpr)) (s : St) (hw : WF ctx s)
    (hpt : ∀ s', WF ctx s' → s.pos < s'.pos → Safe ctx (pt none) s') : Safe ctx (arrayTypeInner ctx none none pt) s := by
  unfold arrayTypeInner
  refine tkbind_safe ctx _ _ s hw (fun s1 _ w1 l1 _ => ?_)
  have h1 := expectInc_safe ctx (tk ctx .LBracket) (.ExpectedToken ['[']) s1 w1 (tk_safe ctx _ s1 w1)
  refine bind_safe ctx h1 (fun s2 _ e2 => ?_)
  have w2 := h1.wf_ok ctx w1 e2
  have p2 := h1.ok _ _ e2
  have h2 := (expect_safe ctx (.ExpectedToken (chars "int literal")) w2 (parser := parseIntLiteral ctx) (intLit_safe ctx s2 w2)).1
  refine bind_safe ctx h2 (fun s3 _ e3 => ?_)
  have w3 := h2.wf_ok ctx w2 e3
  have p3 := h2.ok _ _ e3
  have h3 := expectInc_safe ctx (tk ctx .RBracket) (.MissingClosing ']') s3 w3 (tk_safe ctx _ s3 w3)
  refine bind_safe ctx h3 (fun s4 _ e4 => ?_)
  have w4 := h3.wf_ok ctx w3 e4
  have p4 := h3.ok _ _ e4
  have h4 := expectInc_safe ctx (tk ctx .Of) (.ExpectedToken (chars "of")) s4 w4 (tk_safe ctx _ s4 w4)
  refine bind_safe ctx h4 (fun s5 _ e5 => ?_)
  have w5 := h4.wf_ok ctx w4 e5
  have p5 := h4.ok _ _ e5
  have h5 := (expect_safe ctx (.ExpectedToken (chars "type expression")) w5 (parser := pt)
    (hpt s5 w5 (by have := p2.1; have := p3.1; have := p4.1; have := p5.1; omega))).1
  exact bind_safe ctx h5 (fun s6 _ e6 => pure_safe ctx _ s6 (h5.wf_ok ctx w5 e6))

/-- two levels of recursive descent per remaining token -/
structure TSafe (F : Nat) : Prop where
  te : ∀ s, WF ctx s → 2 * (ctx.toks.size - s.pos) + 2 ≤ F → Safe ctx (parseTypeExpr ctx F none) s
  arr : ∀ s, WF ctx s → 2 * (ctx.toks.size - s.pos) + 1 ≤ F → Safe ctx (parseArrayType ctx F none) s

theorem tsafe : ∀ F, TSafe ctx F
  | 0 => ⟨by intro s _ h; omega, by intro s _ h; omega⟩
  | F + 1 => by
    have ih := tsafe F
    refine ⟨?_, ?_⟩
    · intro s hw hf
      show Safe ctx (alt2 (parseArrayType ctx F none) (pmap TypeExpr.named (parseIdentifier ctx none))) s
      exact alt2_safe ctx (ih.arr s hw (by omega)) (pmap_safe ctx _ (ident_safe ctx s hw))
    · intro s hw hf
      show Safe ctx (pmap _ (info (arrayTypeInner ctx none none (refParse (parseTypeExpr ctx F))))) s
      refine pmap_safe ctx _ (info_safe' ctx hw (fun s0 e0 r0 w0 => ?_))
      refine arrayTypeInner_safe ctx _ s0 w0 (fun s1 w1 l1 => ?_)
      exact refParse_safe ctx w1 (ih.te _ (wf_reref ctx w1) (by
        have := w1.2
        show 2 * (ctx.toks.size - s1.pos) + 2 ≤ F
        omega))

theorem refTypeExpr_safe (s : St) (hw : WF ctx s) : Safe ctx (refTypeExpr ctx none) s :=
  refParse_safe ctx hw ((tsafe ctx _).te _ (wf_reref ctx hw) (by
    have := hw.2
    show 2 * (ctx.toks.size - s.pos) + 2 ≤ typeFuel ctx
    simp only [typeFuel]; omega))

/-! ### comma separated lists, arguments, calls, assignments -/

theorem parseList_eq {α} (range : α → Range) (parseT : Option α → P α) (s : St) :
    parseList ctx range parseT (loopFuel ctx) none s =
      Parse.bind (refParse parseT none) (fun head =>
        pmap (fun (tail : List (Ref (Ref α))) => head :: tail.map (fun r => ⟨r.val.val, r.offset + r.val.offset⟩))
          (many ctx (fun (inner : Ref α) => let r := range inner.val; (⟨r.lo, r.hi + 1⟩ : Range))
            (fun this => Parse.bind (tagK ctx (loopFuel ctx) .Comma) (fun _ => refParse parseT this)) (loopFuel ctx) none)) s := by
  simp only [parseList, Parse.bind, pmap]
  cases refParse parseT none s with
  | ok s1 head =>
    simp only [Option.getD, List.any_nil, Bool.false_eq_true, if_false, Option.map_none]
    split <;> rename_i h <;> simp only [h]
  | err k x => rfl
  | panic e => rfl

theorem parseList_safe {α} (range : α → Range) (parseT : Option α → P α) (s : St) (hw : WF ctx s)
    (hp : ∀ s', WF ctx s' → s.pos ≤ s'.pos → Safe ctx (parseT none) { s' with refPos := s'.pos }) :
    Safe ctx (parseList ctx range parseT (loopFuel ctx) none) s := by
  refine safe_congr ctx (parseList_eq ctx range parseT s) ?_
  have h0 := refParse_safe ctx hw (hp s hw (Nat.le_refl _))
  refine bind_safe ctx h0 (fun s1 head e1 => ?_)
  have w1 := h0.wf_ok ctx hw e1
  have p1 := h0.ok _ _ e1
  refine pmap_safe ctx _ (many_safe ctx _ _ s1 w1 (fun s2 w2 l2 => ?_))
  have w2' := wf_reref ctx w2
  refine tkbind_safe ctx .Comma _ _ w2' (fun s3 _ w3 l3 _ => ?_)
  exact refParse_safe ctx w3 (hp s3 w3 (by have := p1.1; have : ({ s2 with refPos := s2.pos } : St).pos = s2.pos := rfl; omega))

theorem argument_safe (s : St) (hw : WF ctx s) : Safe ctx (parseArgument ctx none) s := by
  show Safe ctx (alt2 _ _) s
  refine alt2_safe ctx ?_ ?_
  · have h0 := expression_safe ctx s hw
    refine bind_safe ctx h0 (fun s1 e e1 => ?_)
    have w1 := h0.wf_ok ctx hw e1
    have h1 := peekla_safe ctx .arg s1 w1
    exact bind_safe ctx h1 (fun s2 _ e2 => pure_safe ctx _ s2 (h1.wf_ok ctx w1 e2))
  · refine pmap_safe ctx _ (info_safe' ctx hw (fun s0 e0 r0 w0 => ?_))
    exact safe_congr ctx (q := ignoreUntil0 ctx (peek (la ctx .arg)) (loopFuel ctx) s0.pos) rfl
      (ignoreUntil0_safe' ctx _ (peekla_atEof ctx .arg) (peekla_atKw ctx .arg) _ _ s0 w0 (loopFuel_ok ctx s0 w0) (fun s' w _ _ => peekla_safe ctx .arg s' w))

theorem callInner_safe (s : St) (hw : WF ctx s) :
    Safe ctx (callInner ctx none none) s ∧ Strict (callInner ctx none none) s := by
  unfold callInner
  have hid := ident_safe ctx s hw
  have h0 : Safe ctx (Parse.bind (parseIdentifier ctx none) (fun n => Parse.bind (tk ctx .LParen) (fun _ => pure' n))) s :=
    bind_safe ctx hid (fun s1 n e1 =>
      tkbind_safe ctx _ _ s1 (hid.wf_ok ctx hw e1) (fun s2 _ w2 _ _ => pure_safe ctx _ s2 w2))
  have h0s : Strict (Parse.bind (parseIdentifier ctx none) (fun n => Parse.bind (tk ctx .LParen) (fun _ => pure' n))) s :=
    strict_bind_left ctx (strict_ident ctx s hw) (fun s1 n e1 =>
      tkbind_safe ctx _ _ s1 (hid.wf_ok ctx hw e1) (fun s2 _ w2 _ _ => pure_safe ctx _ s2 w2))
  refine bind_both_left ctx h0 h0s (fun s1 name e1 => ?_)
  have w1 := h0.wf_ok ctx hw e1
  have hargs : Safe ctx (alt2
      (pmap (fun _ => ([] : List (Ref Expr)))
        (peek (altList [void (tk ctx .RParen), void (tk ctx .Semic), void (tk ctx .Eof)])))
      (parseList ctx (fun (e : Expr) => e.info.range) (parseArgument ctx) (loopFuel ctx) none)) s1 := by
    refine alt2_safe ctx (pmap_safe ctx _ (peek_safeW ctx w1 (altList_safeW ctx w1 _ ?_))) ?_
    · intro p hp
      simp only [List.mem_cons, List.not_mem_nil, or_false] at hp
      rcases hp with rfl | rfl | rfl <;> exact void_safeW ctx (tk_safeW ctx _ _ w1)
    · exact parseList_safe ctx _ _ s1 w1 (fun s' w _ => argument_safe ctx _ (wf_reref ctx w))
  refine bind_safe ctx hargs (fun s2 args e2 => ?_)
  have w2 := hargs.wf_ok ctx w1 e2
  have h2 := expectInc_safe ctx (tk ctx .RParen) (.MissingClosing ')') s2 w2 (tk_safe ctx _ s2 w2)
  refine bind_safe ctx h2 (fun s3 _ e3 => ?_)
  have w3 := h2.wf_ok ctx w2 e3
  have h3 := expectInc_safe ctx (tk ctx .Semic) .MissingTrailingSemic s3 w3 (tk_safe ctx _ s3 w3)
  exact bind_safe ctx h3 (fun s4 _ e4 => pure_safe ctx _ s4 (h3.wf_ok ctx w3 e4))

theorem call_safe (s : St) (hw : WF ctx s) : Safe ctx (parseCall ctx none) s := by
  show Safe ctx (pmap _ (info (callInner ctx none none))) s
  exact pmap_safe ctx _ (info_safe' ctx hw (fun s0 _ _ w0 => (callInner_safe ctx s0 w0).1))

theorem assignInner_safe (s : St) (hw : WF ctx s) :
    Safe ctx (assignInner ctx none none) s ∧ Strict (assignInner ctx none none) s := by
  unfold assignInner
  have hv := variable_safe ctx s hw
  have h0 : Safe ctx (Parse.bind (parseVariable ctx (exprFuel ctx) none) (fun v =>
      Parse.bind (alt2 (tk ctx .Assign) (confusable (tk ctx .Eq) (.ConfusedToken assignS eqS))) (fun _ => pure' v))) s := by
    refine bind_safe ctx hv (fun s1 v e1 => ?_)
    have w1 := hv.wf_ok ctx hw e1
    have ha := alt2_safe ctx (tk_safe ctx .Assign s1 w1)
      (confusable_safe ctx (.ConfusedToken assignS eqS) w1 (tk_safe ctx .Eq _ (wf_errBuf ctx w1 [])))
    exact bind_safe ctx ha (fun s2 _ e2 => pure_safe ctx _ s2 (ha.wf_ok ctx w1 e2))
  have h0s : Strict (Parse.bind (parseVariable ctx (exprFuel ctx) none) (fun v =>
      Parse.bind (alt2 (tk ctx .Assign) (confusable (tk ctx .Eq) (.ConfusedToken assignS eqS))) (fun _ => pure' v))) s := by
    refine strict_bind_left ctx (variable_strict ctx s hw) (fun s1 v e1 => ?_)
    have w1 := hv.wf_ok ctx hw e1
    have ha := alt2_safe ctx (tk_safe ctx .Assign s1 w1)
      (confusable_safe ctx (.ConfusedToken assignS eqS) w1 (tk_safe ctx .Eq _ (wf_errBuf ctx w1 [])))
    exact bind_safe ctx ha (fun s2 _ e2 => pure_safe ctx _ s2 (ha.wf_ok ctx w1 e2))
  refine bind_both_left ctx h0 h0s (fun s1 v e1 => ?_)
  have w1 := h0.wf_ok ctx hw e1
  have h1 := (expect_safe ctx (.ExpectedToken (chars "expression")) w1 (parser := refExpr ctx) (refExpr_safe ctx s1 w1)).1
  refine bind_safe ctx h1 (fun s2 e e2 => ?_)
  have w2 := h1.wf_ok ctx w1 e2
  have h2 := expectInc_safe ctx (tk ctx .Semic) .MissingTrailingSemic s2 w2 (tk_safe ctx _ s2 w2)
  exact bind_safe ctx h2 (fun s3 _ e3 => pure_safe ctx _ s3 (h2.wf_ok ctx w2 e3))

theorem assignment_safe (s : St) (hw : WF ctx s) : Safe ctx (parseAssignment ctx none) s := by
  show Safe ctx (pmap _ (info (assignInner ctx none none))) s
  exact pmap_safe ctx _ (info_safe' ctx hw (fun s0 _ _ w0 => (assignInner_safe ctx s0 w0).1))

theorem stmtParseError_safe (s : St) (hw : WF ctx s) : Safe ctx (stmtParseError ctx) s := by
  have h0 : Safe ctx (pmap (fun (p : List Token × AstInfo) =>
      Stmt.error { p.2 with errors := p.2.errors ++
        [⟨p.2.range, .UnexpectedCharacters (p.1.flatMap (fun t => displayToken t.ty))⟩] })
    (info (Parse.bind (docComments ctx) (fun _ => ignoreUntil1 ctx (peek (la ctx .stmt)) (loopFuel ctx))))) s := by
    refine pmap_safe ctx _ (info_safe' ctx hw (fun s0 _ _ w0 => ?_))
    have hd := docComments_safe ctx s0 w0
    refine bind_safe ctx hd (fun s1 _ e1 => ?_)
    have w1 := hd.wf_ok ctx w0 e1
    exact ignoreUntil1_safe ctx _ (peekla_atEof ctx .stmt) (peekla_atKw ctx .stmt) _ s1 w1 (loopFuel_ok ctx s1 w1) (fun s' w _ _ => peekla_safe ctx .stmt s' w)
  unfold stmtParseError
  cases h : (pmap (fun (p : List Token × AstInfo) =>
      Stmt.error { p.2 with errors := p.2.errors ++
        [⟨p.2.range, .UnexpectedCharacters (p.1.flatMap (fun t => displayToken t.ty))⟩] })
    (info (Parse.bind (docComments ctx) (fun _ => ignoreUntil1 ctx (peek (la ctx .stmt)) (loopFuel ctx))))) s with
  | ok s1 a => exact safe_of_ok ctx (s' := s1) (a := a) (by simp only [h]) (h0.ok _ _ h)
  | err k x =>
    obtain ⟨rfl, _⟩ := h0.er _ _ h
    exact safe_of_err ctx (s' := s) (by simp only [h]) (Post.refl ctx hw)
  | panic e => exact absurd h (h0.np e)

/-! ### statements -/

theorem ifInner_safe (ps : Option (Ref Stmt) → P (Ref Stmt)) (s : St) (hw : WF ctx s)
    (hps : ∀ s', WF ctx s' → s.pos < s'.pos → Safe ctx (ps none) s') : Safe ctx (ifInner ctx none none none ps) s ∧ Strict (ifInner ctx none none none ps) s := by
  unfold ifInner
  refine tkbind_both ctx _ _ s hw (fun s1 _ w1 l1 _ => ?_)
  have h1 := expectInc_safe ctx (tk ctx .LParen) (.MissingOpening '(') s1 w1 (tk_safe ctx _ s1 w1)
  refine bind_safe ctx h1 (fun s2 _ e2 => ?_)
  have w2 := h1.wf_ok ctx w1 e2
  have p2 := h1.ok _ _ e2
  have h2 := (expect_safe ctx (.ExpectedToken (chars "expression")) w2 (parser := refExpr ctx) (refExpr_safe ctx s2 w2)).1
  refine bind_safe ctx h2 (fun s3 _ e3 => ?_)
  have w3 := h2.wf_ok ctx w2 e3
  have p3 := h2.ok _ _ e3
  have h3 := expectInc_safe ctx (tk ctx .RParen) (.MissingClosing ')') s3 w3 (tk_safe ctx _ s3 w3)
  refine bind_safe ctx h3 (fun s4 _ e4 => ?_)
  have w4 := h3.wf_ok ctx w3 e4
  have p4 := h3.ok _ _ e4
  have l4 : s.pos < s4.pos := by have := p2.1; have := p3.1; have := p4.1; omega
  have h4 := (expect_safe ctx (.ExpectedToken (chars "expression")) w4 (parser := ps) (hps s4 w4 l4)).1
  refine bind_safe ctx h4 (fun s5 _ e5 => ?_)
  have w5 := h4.wf_ok ctx w4 e5
  have p5 := h4.ok _ _ e5
  have h5 : Safe ctx (opt (Parse.bind (tk ctx .Else) (fun _ => Parse.expect none ps (.ExpectedToken (chars "statement"))))) s5 :=
    opt_safe ctx w5 (tkbind_safe ctx _ _ s5 w5 (fun s6 _ w6 l6 _ =>
      (expect_safe ctx (.ExpectedToken (chars "statement")) w6 (parser := ps)
        (hps s6 w6 (by have := p5.1; omega))).1))
  exact bind_safe ctx h5 (fun s6 _ e6 => pure_safe ctx _ s6 (h5.wf_ok ctx w5 e6))

theorem whileInner_safe (ps : Option (Ref Stmt) → P (Ref Stmt)) (s : St) (hw : WF ctx s)
    (hps : ∀ s', WF ctx s' → s.pos < s'.pos → Safe ctx (ps none) s') : Safe ctx (whileInner ctx none none ps) s ∧ Strict (whileInner ctx none none ps) s := by
  unfold whileInner
  refine tkbind_both ctx _ _ s hw (fun s1 _ w1 l1 _ => ?_)
  have h1 := expectInc_safe ctx (tk ctx .LParen) (.MissingOpening '(') s1 w1 (tk_safe ctx _ s1 w1)
  refine bind_safe ctx h1 (fun s2 _ e2 => ?_)
  have w2 := h1.wf_ok ctx w1 e2
  have p2 := h1.ok _ _ e2
  have h2 := (expect_safe ctx (.ExpectedToken (chars "expression")) w2 (parser := refExpr ctx) (refExpr_safe ctx s2 w2)).1
  refine bind_safe ctx h2 (fun s3 _ e3 => ?_)
  have w3 := h2.wf_ok ctx w2 e3
  have p3 := h2.ok _ _ e3
  have h3 := expectInc_safe ctx (tk ctx .RParen) (.MissingClosing ')') s3 w3 (tk_safe ctx _ s3 w3)
  refine bind_safe ctx h3 (fun s4 _ e4 => ?_)
  have w4 := h3.wf_ok ctx w3 e4
  have p4 := h3.ok _ _ e4
  have l4 : s.pos < s4.pos := by have := p2.1; have := p3.1; have := p4.1; omega
  have h4 := (expect_safe ctx (.ExpectedToken (chars "expression")) w4 (parser := ps) (hps s4 w4 l4)).1
  exact bind_safe ctx h4 (fun s5 _ e5 => pure_safe ctx _ s5 (h4.wf_ok ctx w4 e5))

theorem blockInner_safe (pstmt : Option Stmt → P Stmt) (s : St) (hw : WF ctx s)
    (hp : ∀ s', WF ctx s' → s.pos < s'.pos → Safe ctx (pstmt none) { s' with refPos := s'.pos }) :
    Safe ctx (blockInner ctx none pstmt) s ∧ Strict (blockInner ctx none pstmt) s := by
  unfold blockInner
  refine tkbind_both ctx _ _ s hw (fun s1 _ w1 l1 _ => ?_)
  have h1 := many_safe ctx (fun (s : Stmt) => s.info.range) pstmt s1 w1 (fun s' w l => hp s' w (by omega))
  refine bind_safe ctx h1 (fun s2 _ e2 => ?_)
  have w2 := h1.wf_ok ctx w1 e2
  have h2 := expectInc_safe ctx (tk ctx .RCurly) (.MissingClosing '}') s2 w2 (tk_safe ctx _ s2 w2)
  exact bind_safe ctx h2 (fun s3 _ e3 => pure_safe ctx _ s3 (h2.wf_ok ctx w2 e3))

/-- two levels of recursive descent per remaining token -/
structure SSafe (F : Nat) : Prop where
  stmt : ∀ s, WF ctx s → 2 * (ctx.toks.size - s.pos) + 2 ≤ F → Safe ctx (parseStmt ctx F none) s
  iff : ∀ s, WF ctx s → 2 * (ctx.toks.size - s.pos) + 1 ≤ F → Safe ctx (parseIf ctx F none) s
  whl : ∀ s, WF ctx s → 2 * (ctx.toks.size - s.pos) + 1 ≤ F → Safe ctx (parseWhile ctx F none) s
  blk : ∀ s, WF ctx s → 2 * (ctx.toks.size - s.pos) + 1 ≤ F → Safe ctx (parseBlock ctx F none) s

theorem ssafe : ∀ F, SSafe ctx F
  | 0 => ⟨by intro s _ h; omega, by intro s _ h; omega, by intro s _ h; omega, by intro s _ h; omega⟩
  | F + 1 => by
    have ih := ssafe F
    refine ⟨?_, ?_, ?_, ?_⟩
    · intro s hw hf
      show Safe ctx (altList [
          pmap (fun (p : Token × AstInfo) => Stmt.empty p.2) (info (tk ctx .Semic)),
          parseIf ctx F none, parseWhile ctx F none, parseBlock ctx F none,
          pmap Stmt.call (parseCall ctx none), pmap Stmt.assign (parseAssignment ctx none), stmtParseError ctx]) s
      refine altList_safe ctx hw _ ?_
      intro p hp
      simp only [List.mem_cons, List.not_mem_nil, or_false] at hp
      rcases hp with rfl | rfl | rfl | rfl | rfl | rfl | rfl
      · exact pmap_safe ctx _ (info_safe ctx hw (tk_safe ctx _ _ (wf_errBuf ctx hw [])))
      · exact ih.iff s hw (by omega)
      · exact ih.whl s hw (by omega)
      · exact ih.blk s hw (by omega)
      · exact pmap_safe ctx _ (call_safe ctx s hw)
      · exact pmap_safe ctx _ (assignment_safe ctx s hw)
      · exact stmtParseError_safe ctx s hw
    · intro s hw hf
      show Safe ctx (pmap _ (info (ifInner ctx none none none (refParse (parseStmt ctx F))))) s
      refine pmap_safe ctx _ (info_safe' ctx hw (fun s0 e0 r0 w0 => ?_))
      refine (ifInner_safe ctx _ s0 w0 (fun s1 w1 l1 => ?_)).1
      exact refParse_safe ctx w1 (ih.stmt _ (wf_reref ctx w1) (by
        have := w1.2
        show 2 * (ctx.toks.size - s1.pos) + 2 ≤ F
        omega))
    · intro s hw hf
      show Safe ctx (pmap _ (info (whileInner ctx none none (refParse (parseStmt ctx F))))) s
      refine pmap_safe ctx _ (info_safe' ctx hw (fun s0 e0 r0 w0 => ?_))
      refine (whileInner_safe ctx _ s0 w0 (fun s1 w1 l1 => ?_)).1
      exact refParse_safe ctx w1 (ih.stmt _ (wf_reref ctx w1) (by
        have := w1.2
        show 2 * (ctx.toks.size - s1.pos) + 2 ≤ F
        omega))
    · intro s hw hf
      show Safe ctx (pmap _ (info (blockInner ctx none (parseStmt ctx F)))) s
      refine pmap_safe ctx _ (info_safe' ctx hw (fun s0 e0 r0 w0 => ?_))
      refine (blockInner_safe ctx _ s0 w0 (fun s1 w1 l1 => ?_)).1
      exact ih.stmt _ (wf_reref ctx w1) (by
        have := w1.2
        show 2 * (ctx.toks.size - s1.pos) + 2 ≤ F
        omega)

theorem stmt_safe (s : St) (hw : WF ctx s) : Safe ctx (parseStmt ctx (stmtFuel ctx) none) s :=
  (ssafe ctx _).stmt s hw (by have := hw.2; simp only [stmtFuel]; omega)

/-! ### declaration level: a declaration consumes its own keyword -/

theorem safeK_of_ok {α} {p : P α} {s s' : St} {a : α} (e : p s = .ok s' a) (h : PostK ctx s s') : SafeK ctx p s := by
  refine ⟨?_, ?_, ?_⟩
  · intro x hx; rw [e] at hx; cases hx
  · intro s'' b hx; rw [e] at hx; cases hx; exact h
  · intro k s'' hx; rw [e] at hx; cases hx

theorem safeK_congr {α} {p q : P α} {s : St} (e : p s = q s) (h : SafeK ctx q s) : SafeK ctx p s := by
  refine ⟨?_, ?_, ?_⟩
  · intro x hx; rw [e] at hx; exact h.np x hx
  · intro s'' b hx; rw [e] at hx; exact h.ok _ _ hx
  · intro k s'' hx; rw [e] at hx; exact h.er _ _ hx

theorem take1_postK {s s' : St} {t : Token} (h : take1 ctx s = .ok s' t) (hk : t.kind ≠ Kind.Eof) : PostK ctx s s' := by
  obtain ⟨rfl, ht⟩ := take1_ok ctx h
  have hlt : s.pos < ctx.toks.size := (Array.getElem?_eq_some_iff.mp ht).1
  refine ⟨Nat.le_succ _, hlt, rfl, ?_⟩
  intro he _
  obtain ⟨tl, htl, hkl⟩ := he.last
  show s.pos + 1 < ctx.toks.size
  by_cases hq : s.pos + 1 = ctx.toks.size
  · have : s.pos = ctx.toks.size - 1 := by omega
    rw [← this, ht] at htl
    cases htl
    exact absurd hkl hk
  · omega

/-- a token parser for any kind but `Eof` (also the declaration keywords) -/
theorem tk_safeK (k : Kind) (s : St) (hw : WF ctx s) (hk : k ≠ Kind.Eof := by decide) : SafeK ctx (tk ctx k) s := by
  show SafeK ctx (tag ctx (loopFuel ctx) (fun ty => ty.kind == k)) s
  have hf := loopFuel_ok ctx s hw
  have hm := comments_safe ctx (loopFuel ctx) s hw hf
  cases h : many0 (comment ctx) (loopFuel ctx) s with
  | ok s1 cs =>
    have hp1 := hm.ok _ _ h
    cases h2 : take1 ctx s1 with
    | ok s2 t =>
      by_cases hpd : (t.ty.kind == k) = true
      · have hne : t.kind ≠ Kind.Eof := by
          have : t.ty.kind = k := by simpa using hpd
          intro he; exact hk (this ▸ he)
        exact safeK_of_ok ctx (s' := s2) (a := t) (by simp [tag, h, h2, hpd]) (hp1.k.trans ctx (take1_postK ctx h2 hne))
      · exact (safe_of_err ctx (s' := s) (by simp [tag, h, h2, hpd]) (Post.refl ctx hw)).k
    | err k2 s' =>
      obtain ⟨rfl, rfl⟩ := take1_err ctx h2
      exact (safe_of_err ctx (s' := s') (by simp [tag, h, h2]) hp1).k
    | panic e => exact absurd h2 (take1_np ctx s1 e)
  | err k2 s' =>
    obtain ⟨rfl, hp⟩ := hm.er _ _ h
    exact (safe_of_err ctx (s' := s') (by simp [tag, h]) hp).k
  | panic e => exact absurd h (hm.np e)

theorem bind_safeK {α β} {p : P α} {f : α → P β} {s : St} (hp : SafeK ctx p s)
    (hf : ∀ s' a, p s = .ok s' a → SafeK ctx (f a) s') : SafeK ctx (Parse.bind p f) s := by
  cases h : p s with
  | ok s' a =>
    have hs := hf s' a h
    have e : Parse.bind p f s = f a s' := by simp [Parse.bind, h]
    have h0 := hp.ok s' a h
    refine ⟨?_, ?_, ?_⟩
    · intro x hx; rw [e] at hx; exact hs.np x hx
    · intro s'' b hx; rw [e] at hx; exact h0.trans ctx (hs.ok _ _ hx)
    · intro k s'' hx; rw [e] at hx
      exact ⟨(hs.er _ _ hx).1, h0.trans ctx (hs.er _ _ hx).2⟩
  | err k s' =>
    obtain ⟨rfl, hpost⟩ := hp.er _ _ h
    have e : Parse.bind p f s = .err false s' := by simp [Parse.bind, h]
    refine ⟨?_, ?_, ?_⟩
    · intro x hx; rw [e] at hx; cases hx
    · intro s'' b hx; rw [e] at hx; cases hx
    · intro k s'' hx; rw [e] at hx; cases hx; exact ⟨rfl, hpost⟩
  | panic e => exact absurd h (hp.np e)

theorem pmap_safeK {α β} {p : P α} (f : α → β) {s : St} (hp : SafeK ctx p s) : SafeK ctx (pmap f p) s := by
  cases h : p s with
  | ok s' a => exact safeK_of_ok ctx (a := f a) (by simp [pmap, h]) (hp.ok _ _ h)
  | err k s' =>
    obtain ⟨rfl, hpost⟩ := hp.er _ _ h
    have e : pmap f p s = .err false s' := by simp [pmap, h]
    refine ⟨?_, ?_, ?_⟩
    · intro x hx; rw [e] at hx; cases hx
    · intro s'' b hx; rw [e] at hx; cases hx
    · intro k s'' hx; rw [e] at hx; cases hx; exact ⟨rfl, hpost⟩
  | panic e => exact absurd h (hp.np e)

theorem alt2_safeK {α} {p q : P α} {s : St} (hp : SafeK ctx p s) (hq : SafeK ctx q s) : SafeK ctx (alt2 p q) s := by
  cases h : p s with
  | ok s' a => exact safeK_of_ok ctx (a := a) (by simp [alt2, h]) (hp.ok _ _ h)
  | err k s' => exact safeK_congr ctx (q := q) (by simp [alt2, h]) hq
  | panic e => exact absurd h (hp.np e)

theorem info_safeK {α} {p : P α} {s : St} (hw : WF ctx s) (hp : SafeK ctx p { s with errBuf := [] }) :
    SafeK ctx (info p) s := by
  have h0 : ¬ s.pos < s.refPos := by have := hw.1; omega
  cases h : p { s with errBuf := [] } with
  | ok s' a =>
    have hpost := hp.ok _ _ h
    have h1 : ¬ s'.pos < s.refPos := by have := hpost.1; have := hw.1; simp at *; omega
    exact safeK_of_ok ctx (s' := { s' with errBuf := s.errBuf })
      (a := (a, { range := ⟨s.pos - s.refPos, s'.pos - s.refPos⟩, errors := s'.errBuf }))
      (by simp [info, h0, h, h1]) hpost
  | err k s' =>
    obtain ⟨rfl, hpost⟩ := hp.er _ _ h
    have e : info p s = .err false { s' with errBuf := s.errBuf } := by simp [info, h0, h]
    refine ⟨?_, ?_, ?_⟩
    · intro x hx; rw [e] at hx; cases hx
    · intro s'' b hx; rw [e] at hx; cases hx
    · intro k s'' hx; rw [e] at hx; cases hx; exact ⟨rfl, hpost⟩
  | panic e => exact absurd h (hp.np e)

theorem refParse_safeK {α} {parseT : Option α → P α} {s : St} (hw : WF ctx s)
    (hp : SafeK ctx (parseT none) { s with refPos := s.pos }) : SafeK ctx (refParse parseT none) s := by
  have h0 : ¬ s.pos < s.refPos := by have := hw.1; omega
  cases h : parseT none { s with refPos := s.pos } with
  | ok s' a =>
    have hpost := hp.ok _ _ h
    exact safeK_of_ok ctx (s' := { s' with refPos := s.refPos }) (a := ⟨a, s.pos - s.refPos⟩)
      (by simp [refParse, h0, h]) ⟨hpost.1, hpost.2.1, rfl, hpost.2.2.2⟩
  | err k s' =>
    obtain ⟨rfl, hpost⟩ := hp.er _ _ h
    have e : refParse parseT none s = .err false { s' with refPos := s.refPos, incRefs := s'.incRefs.dropLast } := by
      simp [refParse, h0, h]
    refine ⟨?_, ?_, ?_⟩
    · intro x hx; rw [e] at hx; cases hx
    · intro s'' b hx; rw [e] at hx; cases hx
    · intro k s'' hx; rw [e] at hx; cases hx; exact ⟨rfl, hpost.1, hpost.2.1, rfl, hpost.2.2.2⟩
  | panic e => exact absurd h (hp.np e)

theorem many0_safeK {α} (p : P α) (r : Nat) : ∀ (fuel : Nat) (s : St), WF ctx s → ctx.toks.size - s.pos < fuel → s.refPos = r →
    (∀ s', WF ctx s' → s.pos ≤ s'.pos → s'.refPos = r → SafeK ctx p s') → SafeK ctx (many0 p fuel) s
  | 0, s, _, hf, _, _ => by omega
  | fuel + 1, s, hw, hf, hr, hp => by
    have h0 := hp s hw (Nat.le_refl _) hr
    cases h : p s with
    | err k s' => exact safeK_of_ok ctx (s' := s) (a := []) (by simp [many0, h]) (PostK.refl ctx hw)
    | panic e => exact absurd h (h0.np e)
    | ok s' a =>
      have hpost := h0.ok s' a h
      by_cases hq : s'.pos = s.pos
      · have e : many0 p (fuel + 1) s = .err false s := by simp [many0, h, hq]
        refine ⟨?_, ?_, ?_⟩
        · intro x hx; rw [e] at hx; cases hx
        · intro s'' b hx; rw [e] at hx; cases hx
        · intro k s'' hx; rw [e] at hx; cases hx; exact ⟨rfl, PostK.refl ctx hw⟩
      · have hw' : WF ctx s' := hpost.wf ctx hw
        have hlt : s.pos < s'.pos := by have := hpost.1; omega
        have ih := many0_safeK p r fuel s' hw' (by have := hw'.2; omega) (by rw [hpost.2.2.1, hr])
          (fun s2 w2 l2 r2 => hp s2 w2 (Nat.le_trans hpost.1 l2) r2)
        have hb : (s'.pos == s.pos) = false := by simpa using hq
        cases h2 : many0 p fuel s' with
        | ok s'' as => exact safeK_of_ok ctx (a := a :: as) (by simp [many0, h, hb, h2]) (hpost.trans ctx (ih.ok _ _ h2))
        | err k s'' =>
          obtain ⟨rfl, hp2⟩ := ih.er _ _ h2
          have e : many0 p (fuel + 1) s = .err false s'' := by simp [many0, h, hb, h2]
          refine ⟨?_, ?_, ?_⟩
          · intro x hx; rw [e] at hx; cases hx
          · intro s3 b hx; rw [e] at hx; cases hx
          · intro k s3 hx; rw [e] at hx; cases hx; exact ⟨rfl, hpost.trans ctx hp2⟩
        | panic x => exact absurd h2 (ih.np x)

/-- documentation comments, a declaration keyword, then anything safe -/
theorem doctk_bothK {β} (k : Kind) (tail : List (List Char) → Token → P β) (s : St) (hw : WF ctx s)
    (hf : ∀ s2 doc t, WF ctx s2 → s.pos < s2.pos → s2.refPos = s.refPos → Safe ctx (tail doc t) s2)
    (hk : k ≠ Kind.Eof := by decide) :
    SafeK ctx (Parse.bind (docComments ctx) (fun doc => Parse.bind (tk ctx k) (tail doc))) s ∧
    Strict (Parse.bind (docComments ctx) (fun doc => Parse.bind (tk ctx k) (tail doc))) s := by
  have hd := docComments_safe ctx s hw
  have hb : ∀ s1 doc, docComments ctx s = .ok s1 doc →
      SafeK ctx (Parse.bind (tk ctx k) (tail doc)) s1 ∧ Strict (Parse.bind (tk ctx k) (tail doc)) s1 := by
    intro s1 doc e1
    have w1 := hd.wf_ok ctx hw e1
    have p1 := hd.ok _ _ e1
    have ht := tk_safeK ctx k s1 w1 hk
    have hf' : ∀ s2 t, tk ctx k s1 = .ok s2 t → Safe ctx (tail doc t) s2 := fun s2 t h =>
      hf s2 doc t ((ht.ok _ _ h).wf ctx w1) (by have := p1.1; have := (tk_ok ctx w1 h).1; omega)
        (by rw [(ht.ok _ _ h).2.2.1, p1.2.2.1])
    exact ⟨bind_safeK ctx ht (fun s2 t h => (hf' s2 t h).k), strict_bind_left ctx (strict_tk ctx k s1 w1) hf'⟩
  exact ⟨bind_safeK ctx hd.k (fun s1 doc e1 => (hb s1 doc e1).1),
    strict_bind_right ctx hd (fun s1 doc e1 => (hb s1 doc e1).2)⟩

/-! ### declarations -/

/-- the `=` / `:` alternatives with their confusable spellings -/
theorem confAlt_safe (k k1 k2 : Kind) (m1 m2 : Msg) (s : St) (hw : WF ctx s)
    (hk : Plain k) (hk1 : Plain k1) (hk2 : Plain k2) :
    Safe ctx (altList [tk ctx k, confusable (tk ctx k1) m1, confusable (tk ctx k2) m2]) s := by
  refine altList_safe ctx hw _ ?_
  intro p hp
  simp only [List.mem_cons, List.not_mem_nil, or_false] at hp
  rcases hp with rfl | rfl | rfl
  · exact tk_safe ctx _ s hw hk
  · exact confusable_safe ctx _ hw (tk_safe ctx _ _ (wf_errBuf ctx hw []) hk1)
  · exact confusable_safe ctx _ hw (tk_safe ctx _ _ (wf_errBuf ctx hw []) hk2)

/-- name, `=`/`:`, type, `;` — the common tail of type and variable declarations -/
theorem declTail_safe (k k1 k2 : Kind) (m1 m2 m3 : Msg) (doc : List (List Char)) (s : St) (hw : WF ctx s)
    (hk : Plain k) (hk1 : Plain k1) (hk2 : Plain k2) :
    Safe ctx (Parse.bind (Parse.expect none (parseIdentifier ctx) (.ExpectedToken (chars "identifier"))) (fun name =>
      Parse.bind (Parse.expect none (inc (altList [tk ctx k, confusable (tk ctx k1) m1, confusable (tk ctx k2) m2])) m3) (fun _ =>
      Parse.bind (Parse.expect none (refTypeExpr ctx) (.ExpectedToken (chars "type expression"))) (fun te =>
      Parse.bind (Parse.expect none (inc (tk ctx .Semic)) .MissingTrailingSemic) (fun _ =>
        pure' (doc, name, te)))))) s := by
  have h1 := (expect_safe ctx (.ExpectedToken (chars "identifier")) hw (parser := parseIdentifier ctx) (ident_safe ctx s hw)).1
  refine bind_safe ctx h1 (fun s2 _ e2 => ?_)
  have w2 := h1.wf_ok ctx hw e2
  have h2 := expectInc_safe ctx _ m3 s2 w2 (confAlt_safe ctx k k1 k2 m1 m2 s2 w2 hk hk1 hk2)
  refine bind_safe ctx h2 (fun s3 _ e3 => ?_)
  have w3 := h2.wf_ok ctx w2 e3
  have h3 := (expect_safe ctx (.ExpectedToken (chars "type expression")) w3 (parser := refTypeExpr ctx) (refTypeExpr_safe ctx s3 w3)).1
  refine bind_safe ctx h3 (fun s4 _ e4 => ?_)
  have w4 := h3.wf_ok ctx w3 e4
  have h4 := expectInc_safe ctx (tk ctx .Semic) .MissingTrailingSemic s4 w4 (tk_safe ctx _ s4 w4)
  exact bind_safe ctx h4 (fun s5 _ e5 => pure_safe ctx _ s5 (h4.wf_ok ctx w4 e5))

theorem typeDeclInner_safe (s : St) (hw : WF ctx s) :
    SafeK ctx (typeDeclInner ctx none none) s ∧ Strict (typeDeclInner ctx none none) s := by
  unfold typeDeclInner
  exact doctk_bothK ctx .Type _ s hw (fun s2 doc _ w2 _ _ => declTail_safe ctx _ _ _ _ _ _ doc s2 w2 (by decide) (by decide) (by decide))

theorem typeDecl_safe (s : St) (hw : WF ctx s) : SafeK ctx (parseTypeDecl ctx none) s := by
  show SafeK ctx (pmap _ (info (typeDeclInner ctx none none))) s
  exact pmap_safeK ctx _ (info_safeK ctx hw (typeDeclInner_safe ctx _ (wf_errBuf ctx hw [])).1)

theorem varDeclInner_safe (s : St) (hw : WF ctx s) :
    Safe ctx (varDeclInner ctx none none) s ∧ Strict (varDeclInner ctx none none) s := by
  unfold varDeclInner
  exact doctk_both ctx .Var _ s hw (fun s2 doc _ w2 _ _ => declTail_safe ctx _ _ _ _ _ _ doc s2 w2 (by decide) (by decide) (by decide))

theorem varDecl_safe (s : St) (hw : WF ctx s) : Safe ctx (parseVarDecl ctx none) s := by
  show Safe ctx (alt2 (pmap _ (info (varDeclInner ctx none none))) (pmap _ (info (ignoreUntil1 ctx (peek (la ctx .var_dec)) (loopFuel ctx))))) s
  refine alt2_safe ctx ?_ ?_
  · exact pmap_safe ctx _ (info_safe' ctx hw (fun s0 _ _ w0 => (varDeclInner_safe ctx s0 w0).1))
  · refine pmap_safe ctx _ (info_safe' ctx hw (fun s0 _ _ w0 => ?_))
    exact ignoreUntil1_safe ctx _ (peekla_atEof ctx .var_dec) (peekla_atKw ctx .var_dec) _ s0 w0 (loopFuel_ok ctx s0 w0) (fun s' w _ _ => peekla_safe ctx .var_dec s' w)

theorem paramDeclInner_safe (s : St) (hw : WF ctx s) : Safe ctx (paramDeclInner ctx none none) s := by
  unfold paramDeclInner
  have hd := docComments_safe ctx s hw
  refine bind_safe ctx hd (fun s1 doc e1 => ?_)
  have w1 := hd.wf_ok ctx hw e1
  have hrn : Safe ctx (alt2
      (Parse.bind (tk ctx .Ref) (fun _ =>
        pmap (fun n => (true, n)) (Parse.expect none (parseIdentifier ctx) (.ExpectedToken (chars "identifier")))))
      (pmap (fun n => (false, some n)) (parseIdentifier ctx none))) s1 := by
    refine alt2_safe ctx ?_ (pmap_safe ctx _ (ident_safe ctx s1 w1))
    exact tkbind_safe ctx _ _ s1 w1 (fun s2 _ w2 _ _ =>
      pmap_safe ctx _ (expect_safe ctx _ w2 (parser := parseIdentifier ctx) (ident_safe ctx s2 w2)).1)
  refine bind_safe ctx hrn (fun s2 rn e2 => ?_)
  have w2 := hrn.wf_ok ctx w1 e2
  have h2 := expectInc_safe ctx (tk ctx .Colon) (.ExpectedToken colonS) s2 w2 (tk_safe ctx _ s2 w2)
  refine bind_safe ctx h2 (fun s3 _ e3 => ?_)
  have w3 := h2.wf_ok ctx w2 e3
  have h3 := (expect_safe ctx (.ExpectedToken (chars "type expression")) w3 (parser := refTypeExpr ctx) (refTypeExpr_safe ctx s3 w3)).1
  refine bind_safe ctx h3 (fun s4 _ e4 => ?_)
  have w4 := h3.wf_ok ctx w3 e4
  have h4 := peekla_safe ctx .param_dec s4 w4
  exact bind_safe ctx h4 (fun s5 _ e5 => pure_safe ctx _ s5 (h4.wf_ok ctx w4 e5))

theorem paramDecl_safe (s : St) (hw : WF ctx s) : Safe ctx (parseParamDecl ctx none) s := by
  show Safe ctx (alt2 (pmap _ (info (paramDeclInner ctx none none)))
    (pmap _ (info (fun s => ignoreUntil0 ctx (peek (la ctx .param_dec)) (loopFuel ctx) s.pos s)))) s
  refine alt2_safe ctx ?_ ?_
  · exact pmap_safe ctx _ (info_safe' ctx hw (fun s0 _ _ w0 => paramDeclInner_safe ctx s0 w0))
  · refine pmap_safe ctx _ (info_safe' ctx hw (fun s0 _ _ w0 => ?_))
    exact safe_congr ctx (q := ignoreUntil0 ctx (peek (la ctx .param_dec)) (loopFuel ctx) s0.pos) rfl
      (ignoreUntil0_safe' ctx _ (peekla_atEof ctx .param_dec) (peekla_atKw ctx .param_dec) _ _ s0 w0 (loopFuel_ok ctx s0 w0) (fun s' w _ _ => peekla_safe ctx .param_dec s' w))

/-- what follows the `proc` keyword -/
def procRest (doc : List (List Char)) : P (List (List Char) × Option Identifier × List (Ref ParamDecl) × List (Ref VarDecl) × List (Ref Stmt)) :=
  Parse.bind (Parse.expect none (parseIdentifier ctx) (.ExpectedToken (chars "identifier"))) (fun name =>
    Parse.bind (Parse.expect none (inc (tk ctx .LParen)) (.MissingOpening '(')) (fun _ =>
    Parse.bind (alt2
          (pmap (fun _ => ([] : List (Ref ParamDecl)))
            (peek (altList [void (tk ctx .RParen), void (tk ctx .LCurly), void (tk ctx .Eof)])))
          (parseList ctx (fun (p : ParamDecl) => p.info.range) (parseParamDecl ctx) (loopFuel ctx) none)) (fun params =>
    Parse.bind (Parse.expect none (inc (tk ctx .RParen)) (.MissingClosing ')')) (fun _ =>
    Parse.bind (Parse.expect none (inc (tk ctx .LCurly)) (.MissingOpening '{')) (fun _ =>
    Parse.bind (many ctx (fun (v : VarDecl) => v.info.range) (parseVarDecl ctx) (loopFuel ctx) none) (fun vars =>
    Parse.bind (many ctx (fun (s : Stmt) => s.info.range) (parseStmt ctx (stmtFuel ctx)) (loopFuel ctx) none) (fun stmts =>
    Parse.bind (Parse.expect none (inc (tk ctx .RCurly)) (.MissingClosing '}')) (fun _ =>
      pure' (doc, name, params, vars, stmts)))))))))

theorem procDeclInner_eq : procDeclInner ctx none =
    Parse.bind (docComments ctx) (fun doc => Parse.bind (tk ctx .Proc) (fun _ => procRest ctx doc)) := rfl

theorem procRest_safe (doc : List (List Char)) (s2 : St) (w2 : WF ctx s2) : Safe ctx (procRest ctx doc) s2 := by
  unfold procRest
  have h2 := (expect_safe ctx (.ExpectedToken (chars "identifier")) w2 (parser := parseIdentifier ctx) (ident_safe ctx s2 w2)).1
  refine bind_safe ctx h2 (fun s3 _ e3 => ?_)
  have w3 := h2.wf_ok ctx w2 e3
  have h3 := expectInc_safe ctx (tk ctx .LParen) (.MissingOpening '(') s3 w3 (tk_safe ctx _ s3 w3)
  refine bind_safe ctx h3 (fun s4 _ e4 => ?_)
  have w4 := h3.wf_ok ctx w3 e4
  have hps : Safe ctx (alt2
      (pmap (fun _ => ([] : List (Ref ParamDecl)))
        (peek (altList [void (tk ctx .RParen), void (tk ctx .LCurly), void (tk ctx .Eof)])))
      (parseList ctx (fun (p : ParamDecl) => p.info.range) (parseParamDecl ctx) (loopFuel ctx) none)) s4 := by
    refine alt2_safe ctx (pmap_safe ctx _ (peek_safeW ctx w4 (altList_safeW ctx w4 _ ?_))) ?_
    · intro p hp
      simp only [List.mem_cons, List.not_mem_nil, or_false] at hp
      rcases hp with rfl | rfl | rfl <;> exact void_safeW ctx (tk_safeW ctx _ _ w4)
    · exact parseList_safe ctx _ _ s4 w4 (fun s' w _ => paramDecl_safe ctx _ (wf_reref ctx w))
  refine bind_safe ctx hps (fun s5 _ e5 => ?_)
  have w5 := hps.wf_ok ctx w4 e5
  have h5 := expectInc_safe ctx (tk ctx .RParen) (.MissingClosing ')') s5 w5 (tk_safe ctx _ s5 w5)
  refine bind_safe ctx h5 (fun s6 _ e6 => ?_)
  have w6 := h5.wf_ok ctx w5 e6
  have h6 := expectInc_safe ctx (tk ctx .LCurly) (.MissingOpening '{') s6 w6 (tk_safe ctx _ s6 w6)
  refine bind_safe ctx h6 (fun s7 _ e7 => ?_)
  have w7 := h6.wf_ok ctx w6 e7
  have h7 := many_safe ctx (fun (v : VarDecl) => v.info.range) (parseVarDecl ctx) s7 w7
    (fun s' w _ => varDecl_safe ctx _ (wf_reref ctx w))
  refine bind_safe ctx h7 (fun s8 _ e8 => ?_)
  have w8 := h7.wf_ok ctx w7 e8
  have h8 := many_safe ctx (fun (s : Stmt) => s.info.range) (parseStmt ctx (stmtFuel ctx)) s8 w8
    (fun s' w _ => stmt_safe ctx _ (wf_reref ctx w))
  refine bind_safe ctx h8 (fun s9 _ e9 => ?_)
  have w9 := h8.wf_ok ctx w8 e9
  have h9 := expectInc_safe ctx (tk ctx .RCurly) (.MissingClosing '}') s9 w9 (tk_safe ctx _ s9 w9)
  exact bind_safe ctx h9 (fun s10 _ e10 => pure_safe ctx _ s10 (h9.wf_ok ctx w9 e10))


theorem procDeclInner_safe (s : St) (hw : WF ctx s) :
    SafeK ctx (procDeclInner ctx none) s ∧ Strict (procDeclInner ctx none) s := by
  rw [procDeclInner_eq]
  exact doctk_bothK ctx .Proc (fun doc _ => procRest ctx doc) s hw (fun s2 doc _ w2 _ _ => procRest_safe ctx doc s2 w2)

theorem procDecl_safe (s : St) (hw : WF ctx s) : SafeK ctx (parseProcDecl ctx none) s := by
  show SafeK ctx (pmap _ (info (procDeclInner ctx none))) s
  exact pmap_safeK ctx _ (info_safeK ctx hw (procDeclInner_safe ctx _ (wf_errBuf ctx hw [])).1)

theorem globalDecl_safe (s : St) (hw : WF ctx s) : SafeK ctx (parseGlobalDecl ctx none) s := by
  show SafeK ctx (altList [pmap GlobalDecl.type (parseTypeDecl ctx none), pmap GlobalDecl.proc (parseProcDecl ctx none),
    pmap _ (info (ignoreUntil1 ctx (peek (la ctx .global_dec)) (loopFuel ctx)))]) s
  simp only [altList]
  refine alt2_safeK ctx (pmap_safeK ctx _ (typeDecl_safe ctx s hw)) (alt2_safeK ctx (pmap_safeK ctx _ (procDecl_safe ctx s hw)) ?_)
  refine (pmap_safe ctx _ (info_safe' ctx hw (fun s0 _ _ w0 => ?_))).k
  exact ignoreUntil1_safe ctx _ (peekla_atEof ctx .global_dec) (peekla_atKw ctx .global_dec) _ s0 w0 (loopFuel_ok ctx s0 w0)
    (fun s' w _ _ => peekla_safe ctx .global_dec s' w)

/-- the declaration loop -/
theorem declLoop_safe (s : St) (hw : WF ctx s) :
    SafeK ctx (many0 (refParse (parseGlobalDecl ctx) none) (loopFuel ctx)) s :=
  many0_safeK ctx _ s.refPos _ s hw (loopFuel_ok ctx s hw) rfl
    (fun s' w _ _ => refParse_safeK ctx w (globalDecl_safe ctx _ (wf_reref ctx w)))

/-- **The parser never panics**: `Program::parse` on any token array, from its start -/
theorem program_np : ∀ e, parseProgram ctx none { pos := 0 } ≠ .panic e := by
  intro e he
  have hw : WF ctx ({ pos := 0 } : St) := ⟨Nat.le_refl _, Nat.zero_le _⟩
  have hL := info_safeK ctx hw (p := many ctx (fun (g : GlobalDecl) => g.info.range) (parseGlobalDecl ctx) (loopFuel ctx) none)
    (safeK_congr ctx (many_none ctx _ _ _ _) (declLoop_safe ctx _ hw))
  have he' : pmap (fun (p : List (Ref GlobalDecl) × AstInfo) => ({ decls := p.1, info := p.2 } : Program))
      (Parse.bind (info (many ctx (fun (g : GlobalDecl) => g.info.range) (parseGlobalDecl ctx) (loopFuel ctx) none))
        (fun r => Parse.bind (allConsuming ctx (tk ctx .Eof)) (fun _ => pure' r))) { pos := 0 } = .panic e := he
  unfold pmap Parse.bind at he'
  cases h1 : info (many ctx (fun (g : GlobalDecl) => g.info.range) (parseGlobalDecl ctx) (loopFuel ctx) none) { pos := 0 } with
  | ok s1 r =>
    rw [h1] at he'
    simp only at he'
    have w1 := (hL.ok _ _ h1).wf ctx hw
    have ht := tk_safeW ctx .Eof s1 w1
    unfold allConsuming at he'
    cases h2 : tk ctx .Eof s1 with
    | ok s2 t =>
      rw [h2] at he'
      simp only at he'
      by_cases hq : (s2.pos == ctx.toks.size) = true
      · simp [hq, pure'] at he'
      · simp [hq] at he'
    | err k x => rw [h2] at he'; simp at he'
    | panic e2 => exact absurd h2 (ht.np e2)
  | err k x => rw [h1] at he'; simp at he'
  | panic e1 => exact absurd h1 (hL.np e1)

/-! ### every loop element consumes a token -/

theorem ignoreUntil1_strict (pattern : P Unit) (hE : AtEof ctx pattern) (hK : AtKw ctx pattern) (fuel : Nat) (s : St) (hw : WF ctx s)
    (hf : ctx.toks.size - s.pos < fuel)
    (hp : ∀ s', WF ctx s' → s.pos ≤ s'.pos → s'.refPos = s.refPos → Safe ctx pattern s') :
    Strict (ignoreUntil1 ctx pattern fuel) s := by
  intro s' a h
  unfold ignoreUntil1 at h
  cases hpat : pattern s with
  | ok s1 u => rw [hpat] at h; cases h
  | panic e => rw [hpat] at h; cases h
  | err k x =>
    rw [hpat] at h
    simp only at h
    obtain ⟨f, rfl⟩ : ∃ f, fuel = f + 1 := ⟨fuel - 1, by omega⟩
    simp only [ignoreUntil0, hpat] at h
    cases h2 : take1 ctx s with
    | ok s1 t =>
      rw [h2] at h
      simp only at h
      obtain ⟨rfl, ht⟩ := take1_ok ctx h2
      have hw1 := take1_postW ctx h2
      have w1 : WF ctx ({ s with pos := s.pos + 1 } : St) := ⟨by have := hw.1; simp; omega, hw1.2.1⟩
      have hlt : s.pos < ctx.toks.size := (Array.getElem?_eq_some_iff.mp ht).1
      have hf1 : ctx.toks.size - ({ s with pos := s.pos + 1 } : St).pos < f := by
        show ctx.toks.size - (s.pos + 1) < f
        omega
      obtain ⟨_, g2, _⟩ := ignoreUntil0_safe ctx pattern hE hK s.refPos f s.pos _ _ w1 hf1 rfl (Post.refl ctx w1)
        (fun s2 w2 l2 r2 => hp s2 w2 (by simp at l2; omega) r2)
      have := (g2 _ _ h).1
      simp at this
      omega
    | err k2 x2 => rw [h2] at h; cases h
    | panic e => rw [h2] at h; cases h

theorem stmtParseError_strict (s : St) (hw : WF ctx s) : Strict (stmtParseError ctx) s := by
  have hX : Strict (pmap (fun (p : List Token × AstInfo) =>
      Stmt.error { p.2 with errors := p.2.errors ++
        [⟨p.2.range, .UnexpectedCharacters (p.1.flatMap (fun t => displayToken t.ty))⟩] })
    (info (Parse.bind (docComments ctx) (fun _ => ignoreUntil1 ctx (peek (la ctx .stmt)) (loopFuel ctx))))) s := by
    refine strict_pmap _ (strict_info ?_)
    have w0 := wf_errBuf ctx hw []
    have hd := docComments_safe ctx _ w0
    refine strict_bind_right ctx hd (fun s1 _ e1 => ?_)
    have w1 := hd.wf_ok ctx w0 e1
    exact ignoreUntil1_strict ctx _ (peekla_atEof ctx .stmt) (peekla_atKw ctx .stmt) _ s1 w1 (loopFuel_ok ctx s1 w1) (fun s' w _ _ => peekla_safe ctx .stmt s' w)
  intro s' a h
  unfold stmtParseError at h
  cases hx : (pmap (fun (p : List Token × AstInfo) =>
      Stmt.error { p.2 with errors := p.2.errors ++
        [⟨p.2.range, .UnexpectedCharacters (p.1.flatMap (fun t => displayToken t.ty))⟩] })
    (info (Parse.bind (docComments ctx) (fun _ => ignoreUntil1 ctx (peek (la ctx .stmt)) (loopFuel ctx))))) s with
  | ok s1 a1 => rw [hx] at h; cases h; exact hX _ _ hx
  | err k x => rw [hx] at h; cases h
  | panic e => rw [hx] at h; cases h

/-- a statement that is parsed consumes at least one token -/
theorem stmt_strict : ∀ (F : Nat) (s : St), WF ctx s → 2 * (ctx.toks.size - s.pos) + 2 ≤ F → Strict (parseStmt ctx F none) s
  | 0, s, _, hf => by omega
  | F + 1, s, hw, hf => by
    have ih := ssafe ctx
    show Strict (altList [
        pmap (fun (p : Token × AstInfo) => Stmt.empty p.2) (info (tk ctx .Semic)),
        parseIf ctx F none, parseWhile ctx F none, parseBlock ctx F none,
        pmap Stmt.call (parseCall ctx none), pmap Stmt.assign (parseAssignment ctx none), stmtParseError ctx]) s
    obtain ⟨f, rfl⟩ : ∃ f, F = f + 1 := ⟨F - 1, by omega⟩
    have w0 := wf_errBuf ctx hw []
    have hstmt : ∀ s1, WF ctx s1 → s.pos < s1.pos → Safe ctx (parseStmt ctx f none) { s1 with refPos := s1.pos } := by
      intro s1 w1 l1
      exact (ih f).stmt _ (wf_reref ctx w1) (by
        have := w1.2
        show 2 * (ctx.toks.size - s1.pos) + 2 ≤ f
        omega)
    refine strict_altList _ ?_
    intro p hp
    simp only [List.mem_cons, List.not_mem_nil, or_false] at hp
    rcases hp with rfl | rfl | rfl | rfl | rfl | rfl | rfl
    · exact strict_pmap _ (strict_info (strict_tk ctx _ _ w0))
    · show Strict (pmap _ (info (ifInner ctx none none none (refParse (parseStmt ctx f))))) s
      exact strict_pmap _ (strict_info (ifInner_safe ctx _ _ w0 (fun s1 w1 l1 => refParse_safe ctx w1 (hstmt s1 w1 l1))).2)
    · show Strict (pmap _ (info (whileInner ctx none none (refParse (parseStmt ctx f))))) s
      exact strict_pmap _ (strict_info (whileInner_safe ctx _ _ w0 (fun s1 w1 l1 => refParse_safe ctx w1 (hstmt s1 w1 l1))).2)
    · show Strict (pmap _ (info (blockInner ctx none (parseStmt ctx f)))) s
      exact strict_pmap _ (strict_info (blockInner_safe ctx _ _ w0 (fun s1 w1 l1 => hstmt s1 w1 l1)).2)
    · show Strict (pmap Stmt.call (pmap _ (info (callInner ctx none none)))) s
      exact strict_pmap _ (strict_pmap _ (strict_info (callInner_safe ctx _ w0).2))
    · show Strict (pmap Stmt.assign (pmap _ (info (assignInner ctx none none)))) s
      exact strict_pmap _ (strict_pmap _ (strict_info (assignInner_safe ctx _ w0).2))
    · exact stmtParseError_strict ctx s hw

theorem varDecl_strict (s : St) (hw : WF ctx s) : Strict (parseVarDecl ctx none) s := by
  show Strict (alt2 (pmap _ (info (varDeclInner ctx none none))) (pmap _ (info (ignoreUntil1 ctx (peek (la ctx .var_dec)) (loopFuel ctx))))) s
  have w0 := wf_errBuf ctx hw []
  refine strict_alt2 (strict_pmap _ (strict_info (varDeclInner_safe ctx _ w0).2)) (strict_pmap _ (strict_info ?_))
  exact ignoreUntil1_strict ctx _ (peekla_atEof ctx .var_dec) (peekla_atKw ctx .var_dec) _ _ w0 (loopFuel_ok ctx _ w0) (fun s' w _ _ => peekla_safe ctx .var_dec s' w)

theorem globalDecl_strict (s : St) (hw : WF ctx s) : Strict (parseGlobalDecl ctx none) s := by
  show Strict (altList [pmap GlobalDecl.type (pmap _ (info (typeDeclInner ctx none none))),
    pmap GlobalDecl.proc (pmap _ (info (procDeclInner ctx none))),
    pmap _ (info (ignoreUntil1 ctx (peek (la ctx .global_dec)) (loopFuel ctx)))]) s
  have w0 := wf_errBuf ctx hw []
  refine strict_altList _ ?_
  intro p hp
  simp only [List.mem_cons, List.not_mem_nil, or_false] at hp
  rcases hp with rfl | rfl | rfl
  · exact strict_pmap _ (strict_pmap _ (strict_info (typeDeclInner_safe ctx _ w0).2))
  · exact strict_pmap _ (strict_pmap _ (strict_info (procDeclInner_safe ctx _ w0).2))
  · refine strict_pmap _ (strict_info ?_)
    exact ignoreUntil1_strict ctx _ (peekla_atEof ctx .global_dec) (peekla_atKw ctx .global_dec) _ _ w0 (loopFuel_ok ctx _ w0) (fun s' w _ _ => peekla_safe ctx .global_dec s' w)

/-! ### what cannot fail -/

theorem noerr_info {α} {p : P α} {s : St} (hp : NoErr p { s with errBuf := [] }) : NoErr (info p) s := by
  intro k x h
  unfold info at h
  split at h
  · cases h
  · cases h1 : p { s with errBuf := [] } with
    | ok s1 a =>
      rw [h1] at h
      simp only at h
      split at h <;> cases h
    | err k' x' => exact hp k' x' h1
    | panic e => rw [h1] at h; cases h

theorem noerr_refParse {α} {parseT : Option α → P α} {s : St} (hp : NoErr (parseT none) { s with refPos := s.pos }) :
    NoErr (refParse parseT none) s := by
  intro k x h
  unfold refParse at h
  simp only [Option.map_none, Option.isSome_none] at h
  split at h
  · cases h
  · cases h1 : parseT none { s with refPos := s.pos } with
    | ok s1 a => rw [h1] at h; cases h
    | err k' x' => exact hp k' x' h1
    | panic e => rw [h1] at h; cases h

theorem comment_strict (s : St) : Strict (comment ctx) s := by
  intro s' a h
  unfold comment at h
  cases h1 : take1 ctx s with
  | ok s1 t =>
    rw [h1] at h
    obtain ⟨rfl, _⟩ := take1_ok ctx h1
    cases hty : t.ty with
    | Comment c => simp only [hty, Res.ok.injEq] at h; obtain ⟨rfl, _⟩ := h; simp
    | _ => simp [hty] at h
  | err k x => rw [h1] at h; cases h
  | panic e => rw [h1] at h; cases h

theorem docComments_noerr (s : St) (hw : WF ctx s) : NoErr (docComments ctx) s :=
  many0_noerr ctx _ s.refPos _ s hw rfl (fun s' w _ _ => ⟨(comment_safe ctx s' w).k, comment_strict ctx s'⟩)

/-- in front of the final `Eof` a recovery finds its synchronisation token: it does not run off the end -/
theorem ignoreUntil0_noerr (pattern : P Unit) (hE : AtEof ctx pattern) (he : EofLast ctx) (r : Nat) :
    ∀ (fuel start : Nat) (s : St), WF ctx s → s.refPos = r → s.pos < ctx.toks.size →
    (∀ s', WF ctx s' → s.pos ≤ s'.pos → s'.refPos = r → Safe ctx pattern s') →
    NoErr (ignoreUntil0 ctx pattern fuel start) s
  | 0, _, s, _, _, _, _ => by intro k x h; cases h
  | fuel + 1, start, s, hw, hr, hB, hp => by
    intro k x h
    simp only [ignoreUntil0] at h
    cases hpat : pattern s with
    | ok s1 u => rw [hpat] at h; cases h
    | panic e => rw [hpat] at h; cases h
    | err k1 x1 =>
      rw [hpat] at h
      simp only at h
      have hne : s.pos + 1 ≠ ctx.toks.size := fun hq => hE he s hw hq k1 x1 hpat
      have ht : ctx.toks[s.pos]? = some ctx.toks[s.pos] := by simp [hB]
      have h2 : take1 ctx s = .ok { s with pos := s.pos + 1 } ctx.toks[s.pos] := by simp [take1, ht]
      rw [h2] at h
      simp only at h
      have w1 : WF ctx ({ s with pos := s.pos + 1 } : St) := ⟨by have := hw.1; simp; omega, by simp; omega⟩
      exact ignoreUntil0_noerr pattern hE he r fuel start _ w1 (by simpa using hr) (by simp; omega)
        (fun s' w l rr => hp s' w (by simp at l; omega) rr) k x h

theorem paramDecl_noerr (he : EofLast ctx) (s : St) (hw : WF ctx s) (hB : s.pos < ctx.toks.size) :
    NoErr (parseParamDecl ctx none) s := by
  show NoErr (alt2 (pmap _ (info (paramDeclInner ctx none none)))
    (pmap _ (info (fun s => ignoreUntil0 ctx (peek (la ctx .param_dec)) (loopFuel ctx) s.pos s)))) s
  refine noerr_alt2 (noerr_pmap _ (noerr_info ?_))
  have w0 := wf_errBuf ctx hw []
  exact noerr_congr (q := ignoreUntil0 ctx (peek (la ctx .param_dec)) (loopFuel ctx) s.pos) rfl
    (ignoreUntil0_noerr ctx _ (peekla_atEof ctx .param_dec) he s.refPos _ _ _ w0 rfl hB
      (fun s' w _ _ => peekla_safe ctx .param_dec s' w))

/-- one `, element` of a comma separated list: safe, and it consumes the comma -/
theorem commaElem_both {α} (parseT : Option α → P α) (s : St) (hw : WF ctx s)
    (hp : ∀ s', WF ctx s' → s.pos ≤ s'.pos → Safe ctx (parseT none) { s' with refPos := s'.pos }) :
    Safe ctx (refParse (fun this => Parse.bind (tagK ctx (loopFuel ctx) .Comma) (fun _ => refParse parseT this)) none) s ∧
    Strict (refParse (fun this => Parse.bind (tagK ctx (loopFuel ctx) .Comma) (fun _ => refParse parseT this)) none) s := by
  have w' := wf_reref ctx hw
  have hb := tkbind_both ctx .Comma (fun _ => refParse parseT none) _ w' (fun s3 _ w3 l3 _ =>
    refParse_safe ctx w3 (hp s3 w3 (by have : ({ s with refPos := s.pos } : St).pos = s.pos := rfl; omega)))
  exact ⟨refParse_safe ctx hw hb.1, strict_refParse hb.2⟩

theorem paramList_noerr (he : EofLast ctx) (s : St) (hw : WF ctx s) (hB : s.pos < ctx.toks.size) :
    NoErr (parseList ctx (fun (p : ParamDecl) => p.info.range) (parseParamDecl ctx) (loopFuel ctx) none) s := by
  refine noerr_congr (parseList_eq ctx _ _ s) ?_
  have h0 := refParse_safe ctx hw (paramDecl_safe ctx _ (wf_reref ctx hw))
  refine noerr_bind (noerr_refParse (paramDecl_noerr ctx he _ (wf_reref ctx hw) hB)) (fun s1 head e1 => ?_)
  have w1 := h0.wf_ok ctx hw e1
  refine noerr_pmap _ (noerr_congr (many_none ctx _ _ _ s1) ?_)
  exact many0_noerr ctx _ s1.refPos _ s1 w1 rfl (fun s2 w2 l2 _ =>
    let hb := commaElem_both ctx (parseParamDecl ctx) s2 w2 (fun s' w _ => paramDecl_safe ctx _ (wf_reref ctx w))
    ⟨hb.1.k, hb.2⟩)

/-- documentation comments, a keyword, then something that cannot fail: a failure is a missing keyword -/
theorem doctk_err {β} (k : Kind) (tail : List (List Char) → Token → P β) (s : St) (hw : WF ctx s)
    (hn : ∀ s2 doc t, WF ctx s2 → s.pos < s2.pos → s2.refPos = s.refPos →
      (EofLast ctx → s.pos < ctx.toks.size → s2.pos < ctx.toks.size) → NoErr (tail doc t) s2)
    (hk : k ≠ Kind.Eof := by decide) :
    ∀ k' x, Parse.bind (docComments ctx) (fun doc => Parse.bind (tk ctx k) (tail doc)) s = .err k' x →
      ∃ s1 doc, docComments ctx s = .ok s1 doc ∧ ∃ k'' x', tk ctx k s1 = .err k'' x' := by
  intro k' x h
  have hd := docComments_safe ctx s hw
  unfold Parse.bind at h
  cases h1 : docComments ctx s with
  | ok s1 doc =>
    rw [h1] at h
    simp only at h
    have p1 := hd.ok _ _ h1
    have w1 := p1.wf ctx hw
    have ht := tk_safeK ctx k s1 w1 hk
    cases h2 : tk ctx k s1 with
    | ok s2 t =>
      rw [h2] at h
      simp only at h
      have p2 := ht.ok _ _ h2
      exact absurd h (hn s2 doc t (p2.wf ctx w1) (by have := p1.1; have := (tk_ok ctx w1 h2).1; omega)
        (by rw [p2.2.2.1, p1.2.2.1]) (fun he hb => p2.2.2.2 he (p1.2.2.2.1 he hb)) k' x)
    | err k2 x2 => exact ⟨s1, doc, rfl, k2, x2, h2⟩
    | panic e => rw [h2] at h; cases h
  | err k1 x1 => exact absurd h1 (docComments_noerr ctx s hw k1 x1)
  | panic e => rw [h1] at h; cases h

/-- name, `=`/`:`, type, `;` never fail -/
theorem declTail_noerr (k k1 k2 : Kind) (m1 m2 m3 : Msg) (doc : List (List Char)) (s : St) (hw : WF ctx s)
    (hk : Plain k) (hk1 : Plain k1) (hk2 : Plain k2) :
    NoErr (Parse.bind (Parse.expect none (parseIdentifier ctx) (.ExpectedToken (chars "identifier"))) (fun name =>
      Parse.bind (Parse.expect none (inc (altList [tk ctx k, confusable (tk ctx k1) m1, confusable (tk ctx k2) m2])) m3) (fun _ =>
      Parse.bind (Parse.expect none (refTypeExpr ctx) (.ExpectedToken (chars "type expression"))) (fun te =>
      Parse.bind (Parse.expect none (inc (tk ctx .Semic)) .MissingTrailingSemic) (fun _ =>
        pure' (doc, name, te)))))) s := by
  have h1 := expect_safe ctx (.ExpectedToken (chars "identifier")) hw (parser := parseIdentifier ctx) (ident_safe ctx s hw)
  refine noerr_bind h1.2 (fun s2 _ e2 => ?_)
  have w2 := h1.1.wf_ok ctx hw e2
  have h2 := expect_safe ctx m3 w2 (parser := inc (altList [tk ctx k, confusable (tk ctx k1) m1, confusable (tk ctx k2) m2]))
    (confAlt_safe ctx k k1 k2 m1 m2 s2 w2 hk hk1 hk2)
  refine noerr_bind h2.2 (fun s3 _ e3 => ?_)
  have w3 := h2.1.wf_ok ctx w2 e3
  have h3 := expect_safe ctx (.ExpectedToken (chars "type expression")) w3 (parser := refTypeExpr ctx) (refTypeExpr_safe ctx s3 w3)
  refine noerr_bind h3.2 (fun s4 _ e4 => ?_)
  have w4 := h3.1.wf_ok ctx w3 e4
  have h4 := expect_safe ctx .MissingTrailingSemic w4 (parser := inc (tk ctx .Semic)) (tk_safe ctx _ s4 w4)
  exact noerr_bind h4.2 (fun s5 _ _ => noerr_pure _ s5)

/-- a type declaration fails only if its keyword is missing -/
theorem typeDeclInner_err (s : St) (hw : WF ctx s) : ∀ k x, typeDeclInner ctx none none s = .err k x →
    ∃ s1 doc, docComments ctx s = .ok s1 doc ∧ ∃ k' x', tk ctx .Type s1 = .err k' x' := by
  unfold typeDeclInner
  exact doctk_err ctx .Type _ s hw (fun s2 doc _ w2 _ _ _ =>
    declTail_noerr ctx _ _ _ _ _ _ doc s2 w2 (by decide) (by decide) (by decide))

/-- a procedure declaration fails only if its keyword is missing -/
theorem procDeclInner_err (he : EofLast ctx) (s : St) (hw : WF ctx s) (hB : s.pos < ctx.toks.size) :
    ∀ k x, procDeclInner ctx none s = .err k x →
    ∃ s1 doc, docComments ctx s = .ok s1 doc ∧ ∃ k' x', tk ctx .Proc s1 = .err k' x' := by
  unfold procDeclInner
  refine doctk_err ctx .Proc _ s hw (fun s2 doc _ w2 _ _ tg => ?_)
  have b2 : s2.pos < ctx.toks.size := tg he hB
  have h2 := expect_safe ctx (.ExpectedToken (chars "identifier")) w2 (parser := parseIdentifier ctx) (ident_safe ctx s2 w2)
  refine noerr_bind h2.2 (fun s3 _ e3 => ?_)
  have w3 := h2.1.wf_ok ctx w2 e3
  have b3 : s3.pos < ctx.toks.size := (h2.1.ok _ _ e3).2.2.2.1 he b2
  have h3 := expect_safe ctx (.MissingOpening '(') w3 (parser := inc (tk ctx .LParen)) (tk_safe ctx _ s3 w3)
  refine noerr_bind h3.2 (fun s4 _ e4 => ?_)
  have w4 := h3.1.wf_ok ctx w3 e4
  have b4 : s4.pos < ctx.toks.size := (h3.1.ok _ _ e4).2.2.2.1 he b3
  have hps : Safe ctx (alt2
      (pmap (fun _ => ([] : List (Ref ParamDecl)))
        (peek (altList [void (tk ctx .RParen), void (tk ctx .LCurly), void (tk ctx .Eof)])))
      (parseList ctx (fun (p : ParamDecl) => p.info.range) (parseParamDecl ctx) (loopFuel ctx) none)) s4 := by
    refine alt2_safe ctx (pmap_safe ctx _ (peek_safeW ctx w4 (altList_safeW ctx w4 _ ?_))) ?_
    · intro p hp
      simp only [List.mem_cons, List.not_mem_nil, or_false] at hp
      rcases hp with rfl | rfl | rfl <;> exact void_safeW ctx (tk_safeW ctx _ _ w4)
    · exact parseList_safe ctx _ _ s4 w4 (fun s' w _ => paramDecl_safe ctx _ (wf_reref ctx w))
  refine noerr_bind (noerr_alt2 (paramList_noerr ctx he s4 w4 b4)) (fun s5 _ e5 => ?_)
  have w5 := hps.wf_ok ctx w4 e5
  have h5 := expect_safe ctx (.MissingClosing ')') w5 (parser := inc (tk ctx .RParen)) (tk_safe ctx _ s5 w5)
  refine noerr_bind h5.2 (fun s6 _ e6 => ?_)
  have w6 := h5.1.wf_ok ctx w5 e6
  have h6 := expect_safe ctx (.MissingOpening '{') w6 (parser := inc (tk ctx .LCurly)) (tk_safe ctx _ s6 w6)
  refine noerr_bind h6.2 (fun s7 _ e7 => ?_)
  have w7 := h6.1.wf_ok ctx w6 e7
  have h7 := many_safe ctx (fun (v : VarDecl) => v.info.range) (parseVarDecl ctx) s7 w7
    (fun s' w _ => varDecl_safe ctx _ (wf_reref ctx w))
  have n7 : NoErr (many ctx (fun (v : VarDecl) => v.info.range) (parseVarDecl ctx) (loopFuel ctx) none) s7 :=
    noerr_congr (many_none ctx _ _ _ s7) (many0_noerr ctx _ s7.refPos _ s7 w7 rfl (fun s' w _ _ =>
      ⟨(refParse_safe ctx w (varDecl_safe ctx _ (wf_reref ctx w))).k, strict_refParse (varDecl_strict ctx _ (wf_reref ctx w))⟩))
  refine noerr_bind n7 (fun s8 _ e8 => ?_)
  have w8 := h7.wf_ok ctx w7 e8
  have hfuel : ∀ s', WF ctx s' → 2 * (ctx.toks.size - ({ s' with refPos := s'.pos } : St).pos) + 2 ≤ stmtFuel ctx := by
    intro s' w
    have := w.2
    show 2 * (ctx.toks.size - s'.pos) + 2 ≤ stmtFuel ctx
    simp only [stmtFuel]; omega
  have h8 := many_safe ctx (fun (s : Stmt) => s.info.range) (parseStmt ctx (stmtFuel ctx)) s8 w8
    (fun s' w _ => stmt_safe ctx _ (wf_reref ctx w))
  have n8 : NoErr (many ctx (fun (s : Stmt) => s.info.range) (parseStmt ctx (stmtFuel ctx)) (loopFuel ctx) none) s8 :=
    noerr_congr (many_none ctx _ _ _ s8) (many0_noerr ctx _ s8.refPos _ s8 w8 rfl (fun s' w _ _ =>
      ⟨(refParse_safe ctx w (stmt_safe ctx _ (wf_reref ctx w))).k,
       strict_refParse (stmt_strict ctx _ _ (wf_reref ctx w) (hfuel s' w))⟩))
  refine noerr_bind n8 (fun s9 _ e9 => ?_)
  have w9 := h8.wf_ok ctx w8 e9
  have h9 := expect_safe ctx (.MissingClosing '}') w9 (parser := inc (tk ctx .RCurly)) (tk_safe ctx _ s9 w9)
  exact noerr_bind h9.2 (fun s10 _ _ => noerr_pure _ s10)

/-! ### token parsers look at the position only -/

/-- `s` with the position of `x` -/
def at' (s x : St) : St := { s with pos := x.pos }

def mapSt {α} (f : St → St) : Res α → Res α
  | .ok s a => .ok (f s) a
  | .err k s => .err k (f s)
  | .panic e => .panic e

theorem st_pos_eta (s2 : St) (p : Nat) (h : s2.pos = p) : s2 = { s2 with pos := p } := by
  cases s2; simp at h; subst h; rfl

theorem take1_indep (s s2 : St) (h : s2.pos = s.pos) : take1 ctx s2 = mapSt (at' s2) (take1 ctx s) := by
  unfold take1
  rw [h]
  cases ctx.toks[s.pos]? with
  | none => simp [mapSt, at'] <;> exact st_pos_eta _ _ h
  | some t => simp [mapSt, at', h]

theorem comment_indep (s s2 : St) (h : s2.pos = s.pos) : comment ctx s2 = mapSt (at' s2) (comment ctx s) := by
  unfold comment
  rw [take1_indep ctx s s2 h]
  cases h1 : take1 ctx s with
  | ok s1 t =>
    simp only [mapSt]
    cases t.ty <;> simp [mapSt, at'] <;> exact st_pos_eta _ _ h
  | err k x => simp [mapSt]
  | panic e => simp [mapSt]

theorem at'_at' (s2 a b : St) : at' (at' s2 a) b = at' s2 b := rfl

theorem comments_indep : ∀ (fuel : Nat) (s s2 : St), s2.pos = s.pos →
    many0 (comment ctx) fuel s2 = mapSt (at' s2) (many0 (comment ctx) fuel s)
  | 0, _, _, _ => rfl
  | fuel + 1, s, s2, h => by
    simp only [many0]
    rw [comment_indep ctx s s2 h]
    cases h1 : comment ctx s with
    | err k x => simp [mapSt, at'] <;> exact st_pos_eta _ _ h
    | panic e => simp [mapSt]
    | ok s1 c =>
      simp only [mapSt]
      have hp : (at' s2 s1).pos = s1.pos := rfl
      rw [hp, h]
      by_cases hq : s1.pos = s.pos
      · simp [hq, mapSt, at'] <;> exact st_pos_eta _ _ h
      · have hb : (s1.pos == s.pos) = false := by simpa using hq
        simp only [hb, Bool.false_eq_true, if_false]
        rw [comments_indep fuel s1 (at' s2 s1) rfl]
        cases many0 (comment ctx) fuel s1 <;> simp [mapSt, at']

theorem tag_indep (fuel : Nat) (pred : TokenType → Bool) (s s2 : St) (h : s2.pos = s.pos) :
    tag ctx fuel pred s2 = mapSt (at' s2) (tag ctx fuel pred s) := by
  unfold tag
  rw [comments_indep ctx fuel s s2 h]
  cases h1 : many0 (comment ctx) fuel s with
  | ok s1 cs =>
    simp only [mapSt]
    rw [take1_indep ctx s1 (at' s2 s1) rfl]
    cases h2 : take1 ctx s1 with
    | ok s3 t =>
      simp only [mapSt]
      by_cases hp : pred t.ty = true
      · simp [hp, mapSt, at']
      · simp [hp, mapSt, at'] <;> exact st_pos_eta _ _ h
    | err k x => simp [mapSt, at']
    | panic e => simp [mapSt]
  | err k x => simp [mapSt]
  | panic e => simp [mapSt]

/-! ### the declaration loop ends in front of the final `Eof` -/

theorem many0_stop {α} (p : P α) : ∀ (fuel : Nat) (s s' : St) (l : List α), many0 p fuel s = .ok s' l →
    ∃ k x, p s' = .err k x
  | 0, _, _, _, h => by cases h
  | fuel + 1, s, s', l, h => by
    simp only [many0] at h
    cases h1 : p s with
    | err k x => rw [h1] at h; cases h; exact ⟨k, x, h1⟩
    | panic e => rw [h1] at h; cases h
    | ok s1 a =>
      rw [h1] at h
      simp only at h
      split at h
      · cases h
      · cases h2 : many0 p fuel s1 with
        | ok s2 as => rw [h2] at h; cases h; exact many0_stop p fuel s1 _ _ h2
        | err k x => rw [h2] at h; cases h
        | panic e => rw [h2] at h; cases h

theorem pmap_err_inv {α β} {p : P α} {f : α → β} {s x : St} {k : Bool} (h : pmap f p s = .err k x) : p s = .err k x := by
  unfold pmap at h
  cases h1 : p s with
  | ok s1 a => rw [h1] at h; cases h
  | err k' x' =>
    rw [h1] at h
    simp only [Res.err.injEq] at h
    obtain ⟨rfl, rfl⟩ := h
    rfl
  | panic e => rw [h1] at h; cases h

theorem info_err_inv {α} {p : P α} {s x : St} {k : Bool} (h : info p s = .err k x) :
    ∃ x', p { s with errBuf := [] } = .err k x' := by
  unfold info at h
  split at h
  · cases h
  · cases h1 : p { s with errBuf := [] } with
    | ok s1 a => rw [h1] at h; simp only at h; split at h <;> cases h
    | err k' x' => rw [h1] at h; cases h; exact ⟨x', rfl⟩
    | panic e => rw [h1] at h; cases h

theorem info_ok_inv {α} {p : P α} {s s' : St} {r : α × AstInfo} (h : info p s = .ok s' r) :
    ∃ s1, p { s with errBuf := [] } = .ok s1 r.1 ∧ s' = { s1 with errBuf := s.errBuf } := by
  unfold info at h
  split at h
  · cases h
  · cases h1 : p { s with errBuf := [] } with
    | ok s1 a =>
      rw [h1] at h
      simp only at h
      split at h
      · cases h
      · cases h; exact ⟨s1, rfl, rfl⟩
    | err k' x' => rw [h1] at h; cases h
    | panic e => rw [h1] at h; cases h

theorem refParse_err_inv {α} {parseT : Option α → P α} {s x : St} {k : Bool} (h : refParse parseT none s = .err k x) :
    ∃ x', parseT none { s with refPos := s.pos } = .err k x' := by
  unfold refParse at h
  simp only [Option.map_none, Option.isSome_none] at h
  split at h
  · cases h
  · cases h1 : parseT none { s with refPos := s.pos } with
    | ok s1 a => rw [h1] at h; cases h
    | err k' x' => rw [h1] at h; cases h; exact ⟨x', rfl⟩
    | panic e => rw [h1] at h; cases h

theorem alt2_err_inv {α} {p q : P α} {s x : St} {k : Bool} (h : alt2 p q s = .err k x) :
    (∃ k' x', p s = .err k' x') ∧ q s = .err k x := by
  unfold alt2 at h
  cases h1 : p s with
  | ok s1 a => rw [h1] at h; cases h
  | err k' x' => rw [h1] at h; exact ⟨⟨k', x', rfl⟩, h⟩
  | panic e => rw [h1] at h; cases h

theorem alt2_ok_inv {α} {p q : P α} {s s' : St} {a : α} (h : alt2 p q s = .ok s' a) :
    p s = .ok s' a ∨ q s = .ok s' a := by
  unfold alt2 at h
  cases h1 : p s with
  | ok s1 a1 => rw [h1] at h; exact Or.inl h
  | err k' x' => rw [h1] at h; exact Or.inr h
  | panic e => rw [h1] at h; cases h

theorem void_ok_inv {α} {p : P α} {s s' : St} {u : Unit} (h : void p s = .ok s' u) : ∃ a, p s = .ok s' a := by
  unfold void pmap at h
  cases h1 : p s with
  | ok s1 a => rw [h1] at h; cases h; exact ⟨a, rfl⟩
  | err k' x' => rw [h1] at h; cases h
  | panic e => rw [h1] at h; cases h

/-- a token parser that succeeds behind the documentation comments' start succeeds behind them too -/
theorem tk_behind_docs (k : Kind) (s s1 : St) (doc : List (List Char)) (hd : docComments ctx s = .ok s1 doc)
    (s2 : St) (t : Token) (h : tk ctx k s = .ok s2 t) : ∃ s2' t', tk ctx k s1 = .ok s2' t' := by
  have hd' : many0 (comment ctx) (loopFuel ctx) s = .ok s1 doc := hd
  obtain ⟨kc, xc, hc⟩ := many0_stop (comment ctx) _ _ _ _ hd'
  have h' : tag ctx (loopFuel ctx) (fun ty => ty.kind == k) s = .ok s2 t := h
  unfold tag at h'
  rw [hd'] at h'
  simp only at h'
  have hm1 : many0 (comment ctx) (loopFuel ctx) s1 = .ok s1 [] := by
    show many0 (comment ctx) (ctx.toks.size + 1 + 1) s1 = _
    simp [many0, hc]
  cases h2 : take1 ctx s1 with
  | ok s3 t3 =>
    rw [h2] at h'
    simp only at h'
    by_cases hp : (t3.ty.kind == k) = true
    · refine ⟨s3, t3, ?_⟩
      show tag ctx (loopFuel ctx) (fun ty => ty.kind == k) s1 = _
      simp [tag, hm1, h2, hp]
    · simp [hp] at h'
  | err k2 x2 => rw [h2] at h'; cases h'
  | panic e => rw [h2] at h'; cases h'

/-- **`Program::parse` succeeds** on every token array that ends with its only `Eof` -/
theorem program_total (he : EofLast ctx) : ∃ s' p, parseProgram ctx none { pos := 0 } = .ok s' p := by
  have hw : WF ctx ({ pos := 0 } : St) := ⟨Nat.le_refl _, Nat.zero_le _⟩
  have hB0 : (0 : Nat) < ctx.toks.size := by
    obtain ⟨t, ht, _⟩ := he.last
    have := (Array.getElem?_eq_some_iff.mp ht).1
    omega
  -- the loop over the declarations
  have w0 : WF ctx ({ ({ pos := 0 } : St) with errBuf := [] }) := hw
  have hM := declLoop_safe ctx { pos := 0 } hw
  have nM := many0_noerr ctx (refParse (parseGlobalDecl ctx) none) 0 (loopFuel ctx) { pos := 0 } hw rfl
    (fun s' w _ _ => ⟨refParse_safeK ctx w (globalDecl_safe ctx _ (wf_reref ctx w)),
      strict_refParse (globalDecl_strict ctx _ (wf_reref ctx w))⟩)
  cases hL : many0 (refParse (parseGlobalDecl ctx) none) (loopFuel ctx) { pos := 0 } with
  | err k x => exact absurd hL (nM k x)
  | panic e => exact absurd hL (hM.np e)
  | ok sE ds =>
    have pE := hM.ok _ _ hL
    have wE := pE.wf ctx hw
    have bE : sE.pos < ctx.toks.size := pE.2.2.2 he hB0
    -- where it stops no declaration can be parsed
    obtain ⟨k, x, hstop⟩ := many0_stop _ _ _ _ _ hL
    obtain ⟨x1, hg⟩ := refParse_err_inv hstop
    have hg' : altList [pmap GlobalDecl.type (pmap (fun (p : (List (List Char) × Option Identifier × Option (Ref TypeExpr)) × AstInfo) =>
          ({ doc := p.1.1, name := p.1.2.1, typeExpr := p.1.2.2, info := p.2 } : TypeDecl)) (info (typeDeclInner ctx none none))),
        pmap GlobalDecl.proc (pmap (fun (p : (List (List Char) × Option Identifier × List (Ref ParamDecl) × List (Ref VarDecl) × List (Ref Stmt)) × AstInfo) =>
          ({ doc := p.1.1, name := p.1.2.1, params := p.1.2.2.1, vars := p.1.2.2.2.1, stmts := p.1.2.2.2.2, info := p.2 } : ProcDecl))
          (info (procDeclInner ctx none))),
        pmap (fun (p : List Token × AstInfo) =>
          GlobalDecl.error { p.2 with errors := p.2.errors ++
            [⟨p.2.range, .UnexpectedCharacters (p.1.flatMap (fun t => displayToken t.ty))⟩] })
          (info (ignoreUntil1 ctx (peek (la ctx .global_dec)) (loopFuel ctx)))] { sE with refPos := sE.pos } = .err k x1 := hg
    simp only [altList] at hg'
    obtain ⟨⟨ka, xa, ha⟩, hbc⟩ := alt2_err_inv hg'
    obtain ⟨⟨kb, xb, hb⟩, hc⟩ := alt2_err_inv hbc
    have wR := wf_reref ctx wE
    have wR0 : WF ctx ({ ({ sE with refPos := sE.pos } : St) with errBuf := [] }) := wR
    -- (a) `type` is not next, (b) `proc` is not next
    obtain ⟨xa', ha'⟩ := info_err_inv (pmap_err_inv (pmap_err_inv ha))
    obtain ⟨d1, doc, hd, kt, xt, htype⟩ := typeDeclInner_err ctx _ wR0 _ _ ha'
    obtain ⟨xb', hb'⟩ := info_err_inv (pmap_err_inv (pmap_err_inv hb))
    obtain ⟨d1', doc', hd', kp, xp, hproc⟩ := procDeclInner_err ctx he _ wR0 bE _ _ hb'
    rw [hd] at hd'
    cases hd'
    -- (c) a synchronisation token is next
    obtain ⟨xc', hc'⟩ := info_err_inv (pmap_err_inv hc)
    have hpat : ∃ s1 u, peek (la ctx .global_dec) { ({ sE with refPos := sE.pos } : St) with errBuf := [] } = .ok s1 u := by
      unfold ignoreUntil1 at hc'
      cases hp : peek (la ctx .global_dec) { ({ sE with refPos := sE.pos } : St) with errBuf := [] } with
      | ok s1 u => exact ⟨s1, u, rfl⟩
      | panic e => rw [hp] at hc'; cases hc'
      | err kq xq =>
        rw [hp] at hc'
        simp only at hc'
        exact absurd hc' (ignoreUntil0_noerr ctx _ (peekla_atEof ctx .global_dec) he sE.pos _ _ _ wR0 rfl bE
          (fun s' w _ _ => peekla_safe ctx .global_dec s' w) _ _)
    obtain ⟨s1, u, hpk⟩ := hpat
    have hla : ∃ s2 u2, altList [void (tk ctx .Proc), void (tk ctx .Type), void (tk ctx .Eof)]
        { ({ sE with refPos := sE.pos } : St) with errBuf := [] } = .ok s2 u2 := by
      unfold peek at hpk
      cases hl : la ctx .global_dec { ({ sE with refPos := sE.pos } : St) with errBuf := [] } with
      | ok s2 u2 =>
        refine ⟨s2, u2, ?_⟩
        have : la ctx .global_dec = altList [void (tk ctx .Proc), void (tk ctx .Type), void (tk ctx .Eof)] := by
          simp only [la, lookAhead, Gen.lookAheadSet, List.map]
        rw [← this]; exact hl
      | err kq xq => rw [hl] at hpk; cases hpk
      | panic e => rw [hl] at hpk; cases hpk
    obtain ⟨s2, u2, hla⟩ := hla
    simp only [altList] at hla
    have heof : ∃ s3 t, tk ctx .Eof { ({ sE with refPos := sE.pos } : St) with errBuf := [] } = .ok s3 t := by
      rcases alt2_ok_inv hla with h1 | h23
      · obtain ⟨t, ht⟩ := void_ok_inv h1
        obtain ⟨_, _, hcontra⟩ := tk_behind_docs ctx .Proc _ _ _ hd _ _ ht
        rw [hproc] at hcontra; cases hcontra
      · rcases alt2_ok_inv h23 with h2 | h3
        · obtain ⟨t, ht⟩ := void_ok_inv h2
          obtain ⟨_, _, hcontra⟩ := tk_behind_docs ctx .Type _ _ _ hd _ _ ht
          rw [htype] at hcontra; cases hcontra
        · obtain ⟨t, ht⟩ := void_ok_inv h3
          exact ⟨s2, t, ht⟩
    obtain ⟨s3, t, heof⟩ := heof
    obtain ⟨hlt3, hk3, htok3⟩ := tk_ok ctx wR0 heof
    have hsz : s3.pos = ctx.toks.size := by
      have := he.only _ _ htok3 hk3
      omega
    -- the same token parser in the state the loop hands on
    have hfin : tk ctx .Eof { sE with errBuf := ({ pos := 0 } : St).errBuf } =
        .ok (at' { sE with errBuf := ({ pos := 0 } : St).errBuf } s3) t := by
      have := tag_indep ctx (loopFuel ctx) (fun ty => ty.kind == Kind.Eof)
        { ({ sE with refPos := sE.pos } : St) with errBuf := [] } { sE with errBuf := ({ pos := 0 } : St).errBuf } rfl
      have heof' : tag ctx (loopFuel ctx) (fun ty => ty.kind == Kind.Eof)
          { ({ sE with refPos := sE.pos } : St) with errBuf := [] } = .ok s3 t := heof
      rw [heof'] at this
      exact this
    -- assemble: no panic (`program_safe`), no failure
    have hnp := program_np ctx
    have hne : NoErr (parseProgram ctx none) { pos := 0 } := by
      show NoErr (pmap (fun (p : List (Ref GlobalDecl) × AstInfo) => ({ decls := p.1, info := p.2 } : Program))
        (Parse.bind (info (many ctx (fun (g : GlobalDecl) => g.info.range) (parseGlobalDecl ctx) (loopFuel ctx) none))
          (fun r => Parse.bind (allConsuming ctx (tk ctx .Eof)) (fun _ => pure' r)))) { pos := 0 }
      refine noerr_pmap _ (noerr_bind (noerr_info (noerr_congr (many_none ctx _ _ _ _) nM)) (fun s1 r e1 => ?_))
      obtain ⟨sX, hX, rfl⟩ := info_ok_inv e1
      have hX' : many0 (refParse (parseGlobalDecl ctx) none) (loopFuel ctx) { pos := 0 } = .ok sX r.1 :=
        (many_none ctx (fun (g : GlobalDecl) => g.info.range) (parseGlobalDecl ctx) (loopFuel ctx) _).symm.trans hX
      rw [hL] at hX'
      simp only [Res.ok.injEq] at hX'
      obtain ⟨rfl, _⟩ := hX'
      intro k2 x2 hx
      simp only [Parse.bind, allConsuming, hfin, at', hsz, beq_self_eq_true, if_true, pure'] at hx
      cases hx
    cases hr : parseProgram ctx none { pos := 0 } with
    | ok s' p => exact ⟨s', p, rfl⟩
    | err k2 x2 => exact absurd hr (hne k2 x2)
    | panic e => exact absurd hr (hnp e)

/-! ### containment: every `proc` / `type` keyword starts its own declaration -/

/-- the tokens `a … b-1` are comments -/
def Comments (a b : Nat) : Prop := ∀ i t, a ≤ i → i < b → ctx.toks[i]? = some t → t.kind = Kind.Comment

theorem Comments.trans {a b c : Nat} (h1 : Comments ctx a b) (h2 : Comments ctx b c) : Comments ctx a c := by
  intro i t hi1 hi2 ht
  by_cases hb : i < b
  · exact h1 i t hi1 hb ht
  · exact h2 i t (by omega) hi2 ht

theorem comment_ok_inv {s s' : St} {c : List Char} (h : comment ctx s = .ok s' c) :
    s'.pos = s.pos + 1 ∧ ∃ t, ctx.toks[s.pos]? = some t ∧ t.kind = Kind.Comment := by
  unfold comment at h
  cases h1 : take1 ctx s with
  | ok s1 t =>
    rw [h1] at h
    obtain ⟨rfl, ht⟩ := take1_ok ctx h1
    cases hty : t.ty with
    | Comment c' =>
      simp only [hty, Res.ok.injEq] at h
      obtain ⟨rfl, _⟩ := h
      exact ⟨rfl, t, ht, by simp [Token.kind, hty, TokenType.kind]⟩
    | _ => simp [hty] at h
  | err k x => rw [h1] at h; cases h
  | panic e => rw [h1] at h; cases h

theorem comments_run : ∀ (fuel : Nat) (s s' : St) (cs : List (List Char)), many0 (comment ctx) fuel s = .ok s' cs →
    Comments ctx s.pos s'.pos
  | 0, _, _, _, h => by cases h
  | fuel + 1, s, s', cs, h => by
    simp only [many0] at h
    cases h1 : comment ctx s with
    | err k x => rw [h1] at h; cases h; intro i t a b; omega
    | panic e => rw [h1] at h; cases h
    | ok s1 c =>
      rw [h1] at h
      simp only at h
      obtain ⟨hp, t, ht, hk⟩ := comment_ok_inv ctx h1
      split at h
      · cases h
      · cases h2 : many0 (comment ctx) fuel s1 with
        | ok s2 as =>
          rw [h2] at h
          cases h
          have ih := comments_run fuel s1 _ _ h2
          refine Comments.trans ctx (b := s1.pos) ?_ ih
          intro i t' hi1 hi2 ht'
          have : i = s.pos := by omega
          subst this
          rw [ht] at ht'; cases ht'; exact hk
        | err k x => rw [h2] at h; cases h
        | panic e => rw [h2] at h; cases h

/-- a token parser skips comments only -/
theorem tk_skips {k : Kind} {s s' : St} {t : Token} (h : tk ctx k s = .ok s' t) : Comments ctx s.pos (s'.pos - 1) := by
  have h' : tag ctx (loopFuel ctx) (fun ty => ty.kind == k) s = .ok s' t := h
  unfold tag at h'
  cases h1 : many0 (comment ctx) (loopFuel ctx) s with
  | ok s1 cs =>
    rw [h1] at h'
    simp only at h'
    cases h2 : take1 ctx s1 with
    | ok s2 t2 =>
      rw [h2] at h'
      simp only at h'
      obtain ⟨rfl, _⟩ := take1_ok ctx h2
      split at h'
      · cases h'
        have := comments_run ctx _ _ _ _ h1
        simpa using this
      · cases h'
    | err k2 x => rw [h2] at h'; cases h'
    | panic e => rw [h2] at h'; cases h'
  | err k2 x => rw [h1] at h'; cases h'
  | panic e => rw [h1] at h'; cases h'

/-- what a global declaration consumes: comments, one token, then no `proc` / `type` keyword -/
def Contained (s s' : St) : Prop :=
  ∃ j, s.pos ≤ j ∧ j < s'.pos ∧ Comments ctx s.pos j ∧
    ∀ i t, j < i → i < s'.pos → ctx.toks[i]? = some t → t.kind ≠ Kind.Proc ∧ t.kind ≠ Kind.Type

theorem pmap_ok_inv {α β} {p : P α} {f : α → β} {s s' : St} {b : β} (h : pmap f p s = .ok s' b) :
    ∃ a, p s = .ok s' a := by
  unfold pmap at h
  cases h1 : p s with
  | ok s1 a => rw [h1] at h; cases h; exact ⟨a, rfl⟩
  | err k x => rw [h1] at h; cases h
  | panic e => rw [h1] at h; cases h

/-- documentation comments, a keyword, a clean continuation: contained -/
theorem doctk_contained {β} (k : Kind) (tail : List (List Char) → Token → P β) (s : St) (hw : WF ctx s)
    (hf : ∀ s2 doc t, WF ctx s2 → s.pos < s2.pos → s2.refPos = s.refPos → Safe ctx (tail doc t) s2)
    (hk : k ≠ Kind.Eof := by decide) (s' : St) (b : β)
    (h : Parse.bind (docComments ctx) (fun doc => Parse.bind (tk ctx k) (tail doc)) s = .ok s' b) :
    Contained ctx s s' := by
  have hd := docComments_safe ctx s hw
  obtain ⟨s1, doc, h1, h2⟩ := bind_ok_inv h
  obtain ⟨s2, t, h3, h4⟩ := bind_ok_inv h2
  have p1 := hd.ok _ _ h1
  have w1 := p1.wf ctx hw
  have ht := tk_safeK ctx k s1 w1 hk
  have p2 := ht.ok _ _ h3
  have w2 := p2.wf ctx w1
  obtain ⟨hlt, _, _⟩ := tk_ok ctx w1 h3
  have hs := hf s2 doc t w2 (by have := p1.1; omega) (by rw [p2.2.2.1, p1.2.2.1])
  have p3 := hs.ok _ _ h4
  have c1 : Comments ctx s.pos s1.pos := comments_run ctx _ _ _ _ h1
  have c2 := tk_skips ctx h3
  refine ⟨s2.pos - 1, by have := p1.1; omega, by have := p3.1; omega, Comments.trans ctx c1 c2, ?_⟩
  intro i t' hi1 hi2 ht'
  exact p3.2.2.2.2 i t' (by omega) hi2 ht'

/-- **one declaration keyword per declaration node**: whatever the tokens are, a global declaration that the loop
    parses consumes documentation comments, then one token, and behind it no `proc` / `type` keyword -/
theorem globalDecl_contained (s : St) (hw : WF ctx s) (s' : St) (d : GlobalDecl)
    (h : parseGlobalDecl ctx none s = .ok s' d) : Contained ctx s s' := by
  have h' : altList [pmap GlobalDecl.type (pmap (fun (p : (List (List Char) × Option Identifier × Option (Ref TypeExpr)) × AstInfo) =>
        ({ doc := p.1.1, name := p.1.2.1, typeExpr := p.1.2.2, info := p.2 } : TypeDecl)) (info (typeDeclInner ctx none none))),
      pmap GlobalDecl.proc (pmap (fun (p : (List (List Char) × Option Identifier × List (Ref ParamDecl) × List (Ref VarDecl) × List (Ref Stmt)) × AstInfo) =>
        ({ doc := p.1.1, name := p.1.2.1, params := p.1.2.2.1, vars := p.1.2.2.2.1, stmts := p.1.2.2.2.2, info := p.2 } : ProcDecl))
        (info (procDeclInner ctx none))),
      pmap (fun (p : List Token × AstInfo) =>
        GlobalDecl.error { p.2 with errors := p.2.errors ++
          [⟨p.2.range, .UnexpectedCharacters (p.1.flatMap (fun t => displayToken t.ty))⟩] })
        (info (ignoreUntil1 ctx (peek (la ctx .global_dec)) (loopFuel ctx)))] s = .ok s' d := h
  simp only [altList] at h'
  have w0 := wf_errBuf ctx hw []
  rcases alt2_ok_inv h' with h1 | h23
  · obtain ⟨a1, e1⟩ := pmap_ok_inv h1
    obtain ⟨a2, e2⟩ := pmap_ok_inv e1
    obtain ⟨sx, hx, rfl⟩ := info_ok_inv e2
    unfold typeDeclInner at hx
    have hc := doctk_contained ctx .Type _ _ w0 (fun s2 doc _ w2 _ _ =>
      declTail_safe ctx .Eq .Assign .Colon (.ConfusedToken eqS assignS) (.ConfusedToken eqS colonS) (.ExpectedToken eqS) doc s2 w2
        (by decide) (by decide) (by decide)) (by decide) _ _ hx
    exact hc
  · rcases alt2_ok_inv h23 with h2 | h3
    · obtain ⟨a1, e1⟩ := pmap_ok_inv h2
      obtain ⟨a2, e2⟩ := pmap_ok_inv e1
      obtain ⟨sx, hx, rfl⟩ := info_ok_inv e2
      rw [procDeclInner_eq] at hx
      have hc := doctk_contained ctx .Proc (fun doc _ => procRest ctx doc) _ w0
        (fun s2 doc _ w2 _ _ => procRest_safe ctx doc s2 w2) (by decide) _ _ hx
      exact hc
    · obtain ⟨a1, e1⟩ := pmap_ok_inv h3
      obtain ⟨sx, hx, rfl⟩ := info_ok_inv e1
      have hs := ignoreUntil1_safe ctx _ (peekla_atEof ctx .global_dec) (peekla_atKw ctx .global_dec) _ _ w0 (loopFuel_ok ctx _ w0)
        (fun s' w _ _ => peekla_safe ctx .global_dec s' w)
      have hst := ignoreUntil1_strict ctx _ (peekla_atEof ctx .global_dec) (peekla_atKw ctx .global_dec) _ _ w0 (loopFuel_ok ctx _ w0)
        (fun s' w _ _ => peekla_safe ctx .global_dec s' w)
      have px := hs.ok _ _ hx
      have hlt : s.pos < sx.pos := hst _ _ hx
      refine ⟨s.pos, Nat.le_refl _, hlt, by intro i t a b; omega, ?_⟩
      intro i t hi1 hi2 ht
      exact px.2.2.2.2 i t (Nat.le_of_lt hi1) hi2 ht

theorem refParse_ok_inv {α} {parseT : Option α → P α} {s s' : St} {r : Ref α} (h : refParse parseT none s = .ok s' r) :
    ∃ s1 a, parseT none { s with refPos := s.pos } = .ok s1 a ∧ s' = { s1 with refPos := s.refPos } ∧
      r = ⟨a, s.pos - s.refPos⟩ := by
  unfold refParse at h
  simp only [Option.map_none, Option.isSome_none] at h
  split at h
  · cases h
  · cases h1 : parseT none { s with refPos := s.pos } with
    | ok s1 a =>
      rw [h1] at h
      simp only [Bool.false_eq_true, if_false, Res.ok.injEq] at h
      obtain ⟨rfl, rfl⟩ := h
      exact ⟨s1, a, rfl, rfl, rfl⟩
    | err k x => rw [h1] at h; cases h
    | panic e => rw [h1] at h; cases h

/-- **every `proc` / `type` keyword the declaration loop passes is the first token, behind documentation comments,
    of one of the declarations it returns** -/
theorem loop_keywords : ∀ (fuel : Nat) (s sE : St) (ds : List (Ref GlobalDecl)), WF ctx s → s.refPos = 0 →
    many0 (refParse (parseGlobalDecl ctx) none) fuel s = .ok sE ds →
    ∀ q t, ctx.toks[q]? = some t → (t.kind = Kind.Proc ∨ t.kind = Kind.Type) → s.pos ≤ q → q < sE.pos →
      ∃ d ∈ ds, d.offset ≤ q ∧ Comments ctx d.offset q
  | 0, _, _, _, _, _, h => by cases h
  | fuel + 1, s, sE, ds, hw, hr, h => by
    intro q t ht hk hq1 hq2
    simp only [many0] at h
    cases h1 : refParse (parseGlobalDecl ctx) none s with
    | err k x => rw [h1] at h; cases h; omega
    | panic e => rw [h1] at h; cases h
    | ok s1 d =>
      rw [h1] at h
      simp only at h
      split at h
      · cases h
      · cases h2 : many0 (refParse (parseGlobalDecl ctx) none) fuel s1 with
        | err k x => rw [h2] at h; cases h
        | panic e => rw [h2] at h; cases h
        | ok s2 as =>
          rw [h2] at h
          cases h
          obtain ⟨sx, a, hx, rfl, rfl⟩ := refParse_ok_inv h1
          have hc := globalDecl_contained ctx _ (wf_reref ctx hw) _ _ hx
          obtain ⟨j, hj1, hj2, hj3, hj4⟩ := hc
          have hsafe := refParse_safeK ctx hw (globalDecl_safe ctx _ (wf_reref ctx hw))
          have p1 := hsafe.ok _ _ h1
          by_cases hlt : q < sx.pos
          · -- inside the first declaration: it can only be its first token
            refine ⟨⟨a, s.pos - s.refPos⟩, List.mem_cons_self, ?_, ?_⟩
            · show s.pos - s.refPos ≤ q
              omega
            · have hqj : q = j := by
                rcases Nat.lt_trichotomy q j with hl | he | hg
                · have := hj3 q t hq1 hl ht
                  rcases hk with hk | hk <;> rw [hk] at this <;> cases this
                · exact he
                · have := hj4 q t hg hlt ht
                  rcases hk with hk | hk
                  · exact absurd hk this.1
                  · exact absurd hk this.2
              subst hqj
              show Comments ctx (s.pos - s.refPos) q
              rw [hr]
              exact hj3
          · -- behind it: one of the following declarations
            have w1 := p1.wf ctx hw
            obtain ⟨d, hd, hd1, hd2⟩ := loop_keywords fuel _ _ as w1 (by rw [p1.2.2.1, hr]) h2 q t ht hk
              (by show sx.pos ≤ q; omega) hq2
            exact ⟨d, List.mem_cons_of_mem _ hd, hd1, hd2⟩

/-- the same for a whole parse: every `proc` / `type` keyword of the token array -/
theorem program_keywords (s' : St) (prog : Program) (h : parseProgram ctx none { pos := 0 } = .ok s' prog) :
    ∀ q t, ctx.toks[q]? = some t → (t.kind = Kind.Proc ∨ t.kind = Kind.Type) →
      ∃ d ∈ prog.decls, d.offset ≤ q ∧ Comments ctx d.offset q := by
  intro q t ht hk
  have hw : WF ctx ({ pos := 0 } : St) := ⟨Nat.le_refl _, Nat.zero_le _⟩
  have h' : pmap (fun (p : List (Ref GlobalDecl) × AstInfo) => ({ decls := p.1, info := p.2 } : Program))
      (Parse.bind (info (many ctx (fun (g : GlobalDecl) => g.info.range) (parseGlobalDecl ctx) (loopFuel ctx) none))
        (fun r => Parse.bind (allConsuming ctx (tk ctx .Eof)) (fun _ => pure' r))) { pos := 0 } = .ok s' prog := h
  obtain ⟨r, hb⟩ := pmap_ok_inv h'
  have hprog : prog = { decls := r.1, info := r.2 } := by
    unfold pmap at h'
    rw [hb] at h'
    simp only [Res.ok.injEq] at h'
    exact h'.2.symm
  obtain ⟨s1, r1, hi, ht1⟩ := bind_ok_inv hb
  obtain ⟨s2, u, ha, hp⟩ := bind_ok_inv ht1
  have hr : r = r1 := by simp only [pure', Res.ok.injEq] at hp; exact hp.2.symm
  subst hr
  obtain ⟨sE, hM, rfl⟩ := info_ok_inv hi
  have hM' : many0 (refParse (parseGlobalDecl ctx) none) (loopFuel ctx) { pos := 0 } = .ok sE r.1 :=
    (many_none ctx (fun (g : GlobalDecl) => g.info.range) (parseGlobalDecl ctx) (loopFuel ctx) _).symm.trans hM
  -- the end: `eof` consumed the last token, behind comments only
  unfold allConsuming at ha
  cases hk2 : tk ctx .Eof { sE with errBuf := ({ pos := 0 } : St).errBuf } with
  | ok s3 t3 =>
    rw [hk2] at ha
    simp only at ha
    by_cases hq : (s3.pos == ctx.toks.size) = true
    · have hsz : s3.pos = ctx.toks.size := by simpa using hq
      have wE : WF ctx ({ sE with errBuf := ({ pos := 0 } : St).errBuf } : St) :=
        ((declLoop_safe ctx _ hw).ok _ _ hM').wf ctx hw
      obtain ⟨hlt, hk3, htok3⟩ := tk_ok ctx wE hk2
      have hskip := tk_skips ctx hk2
      have hqlt : q < ctx.toks.size := (Array.getElem?_eq_some_iff.mp ht).1
      have hqE : q < sE.pos := by
        by_cases hlt2 : q < sE.pos
        · exact hlt2
        · exfalso
          by_cases hlast : q = s3.pos - 1
          · rw [hlast, htok3] at ht
            cases ht
            rcases hk with hk | hk <;> rw [hk3] at hk <;> cases hk
          · have := hskip q t (by show sE.pos ≤ q; omega) (by omega) ht
            rcases hk with hk | hk <;> rw [hk] at this <;> cases this
      rw [hprog]
      exact loop_keywords ctx _ _ _ _ hw rfl hM' q t ht hk (Nat.zero_le _) hqE
    · simp [hq] at ha
  | err k x => rw [hk2] at ha; cases ha
  | panic e => rw [hk2] at ha; cases ha

end Spl.Total
