/-
  Lemmas for C02: the symbol-table and semantic passes never panic on a tree whose identifiers cover at least one
  token (which every identifier the parser produces does).

  The passes can panic in three places: `Identifier::to_error` asserts that the identifier's range is not empty
  (`IdI`), `table::build` insists that an entry named `main` is a procedure (type declarations named `main` are
  never entered), and `analyze` expects an entry for every named procedure declaration (`build` has entered one,
  or found one already there).
-/
import SplVerif.Model.Table

namespace Spl.AnalyzeTotal
open Spl

/-- the identifier covers at least one token -/
def IdI (i : Identifier) : Prop := 0 < i.info.range.hi

mutual
  def IdV : Var → Prop
    | .named n => IdI n
    | .access a idx _ => IdV a ∧ IdOE idx
  def IdE : Expr → Prop
    | .binary _ l r _ => IdE l ∧ IdE r
    | .bracketed e _ => IdE e
    | .intLit _ => True
    | .unary _ e _ => IdE e
    | .var v => IdV v
    | .error _ => True
  def IdOE : OptExpr → Prop
    | .none => True
    | .some e _ => IdE e
end

mutual
  def IdT : TypeExpr → Prop
    | .named n => IdI n
    | .array _ base _ => IdOT base
  def IdOT : OptType → Prop
    | .none => True
    | .some t _ => IdT t
end

def IdCall (c : CallStmt) : Prop := ∀ a ∈ c.args, IdE a.val
def IdAssign (a : Assignment) : Prop := IdV a.target ∧ ∀ r, a.expr = some r → IdE r.val

mutual
  def IdS : Stmt → Prop
    | .empty _ => True
    | .assign a => IdAssign a
    | .call c => IdCall c
    | .ifS c t e _ => (∀ r, c = some r → IdE r.val) ∧ IdOS t ∧ IdOS e
    | .whileS c b _ => (∀ r, c = some r → IdE r.val) ∧ IdOS b
    | .block ss _ => IdSL ss
    | .error _ => True
  def IdOS : OptStmt → Prop
    | .none => True
    | .some s _ => IdS s
  def IdSL : StmtList → Prop
    | .nil => True
    | .cons s _ r => IdS s ∧ IdSL r
end

theorem flag_ok (i : Identifier) (msg : List Char → Msg) (h : IdI i) : ∃ i', i.flag msg = .ok i' ∧ i'.value = i.value := by
  unfold Identifier.flag Identifier.toError
  have : i.info.range.hi > 0 := h
  simp only [this, if_true]
  exact ⟨_, rfl, rfl⟩

theorem idE_addError (e : Expr) (err : SplError) : IdE (e.addError err) ↔ IdE e := by
  cases e with
  | var v =>
    cases v with
    | named n => simp [Expr.addError, IdE, IdV, IdI, Identifier.addError]
    | access a idx i => simp [Expr.addError, IdE, IdV]
  | _ => simp [Expr.addError, IdE]

theorem idE_ite (c : Prop) [Decidable c] (e : Expr) (err : SplError) (h : IdE e) :
    IdE (if c then e.addError err else e) := by
  split
  · exact (idE_addError _ _).mpr h
  · exact h

/-! ### semantic analysis -/

mutual
  theorem analyzeVar_total (sc : Scope) : ∀ (v : Var), IdV v → ∃ r, analyzeVar sc v = .ok r
    | .named n, h => by
      simp only [analyzeVar]
      have hn : IdI n := h
      cases hl : sc.lookup n.value with
      | none =>
        obtain ⟨n', e, _⟩ := flag_ok n .UndefinedVariable hn
        simp only [e, Except.map]
        exact ⟨_, rfl⟩
      | some en =>
        cases en with
        | «variable» v => exact ⟨_, rfl⟩
        | parameter v => exact ⟨_, rfl⟩
        | type t =>
          obtain ⟨n', e, _⟩ := flag_ok n .NotAVariable hn
          simp only [e, Except.map]
          exact ⟨_, rfl⟩
        | procedure p =>
          obtain ⟨n', e, _⟩ := flag_ok n .NotAVariable hn
          simp only [e, Except.map]
          exact ⟨_, rfl⟩
    | .access a idx info, h => by
      have h' : IdV a ∧ IdOE idx := h
      obtain ⟨i', hi⟩ := analyzeIndex_total sc idx h'.2
      obtain ⟨r, hr⟩ := analyzeVar_total sc a h'.1
      obtain ⟨a', at'⟩ := r
      simp only [analyzeVar, hi, hr]
      cases at' with
      | none => exact ⟨_, rfl⟩
      | some dt => cases dt <;> exact ⟨_, rfl⟩
  theorem analyzeIndex_total (sc : Scope) : ∀ (o : OptExpr), IdOE o → ∃ r, analyzeIndex sc o = .ok r
    | .none, _ => ⟨_, rfl⟩
    | .some e off, h => by
      have h' : IdE e := h
      obtain ⟨r, hr⟩ := analyzeExpr_total sc e h'
      obtain ⟨e', t⟩ := r
      simp only [analyzeIndex, hr]
      cases t with
      | none => exact ⟨_, rfl⟩
      | some dt => cases dt <;> exact ⟨_, rfl⟩
  theorem analyzeExpr_total (sc : Scope) : ∀ (e : Expr), IdE e → ∃ r, analyzeExpr sc e = .ok r
    | .intLit l, _ => ⟨_, rfl⟩
    | .var v, h => by
      obtain ⟨r, hr⟩ := analyzeVar_total sc v h
      simp only [analyzeExpr, hr, Except.map]
      exact ⟨_, rfl⟩
    | .unary op e i, h => by
      have h' : IdE e := h
      obtain ⟨r, hr⟩ := analyzeExpr_total sc e h'
      simp only [analyzeExpr, hr]
      exact ⟨_, rfl⟩
    | .bracketed e i, h => by
      have h' : IdE e := h
      obtain ⟨r, hr⟩ := analyzeExpr_total sc e h'
      simp only [analyzeExpr, hr, Except.map]
      exact ⟨_, rfl⟩
    | .error i, _ => ⟨_, rfl⟩
    | .binary op l r i, h => by
      have h' : IdE l ∧ IdE r := h
      obtain ⟨rl, hl⟩ := analyzeExpr_total sc l h'.1
      obtain ⟨rr, hrr⟩ := analyzeExpr_total sc r h'.2
      simp only [analyzeExpr, hl, hrr]
      exact ⟨_, rfl⟩
end

theorem analyzeCondition_total (sc : Scope) (c : Option (Ref Expr)) (msg : Msg) (h : ∀ r, c = some r → IdE r.val) :
    ∃ r, analyzeCondition sc c msg = .ok r := by
  cases c with
  | none => exact ⟨_, rfl⟩
  | some r =>
    obtain ⟨x, hx⟩ := analyzeExpr_total sc r.val (h r rfl)
    obtain ⟨e, t⟩ := x
    simp only [analyzeCondition, hx]
    cases t with
    | none => exact ⟨_, rfl⟩
    | some dt => cases dt <;> exact ⟨_, rfl⟩

theorem analyzeArgs_total (sc : Scope) (name : List Char) : ∀ (args : List (Ref Expr)) (ps : List VariableEntry) (i : Nat),
    (∀ a ∈ args, IdE a.val) → ∃ r, analyzeArgs sc name args ps i = .ok r
  | [], _, _, _ => by simp only [analyzeArgs]; exact ⟨_, rfl⟩
  | a :: as, [], _, _ => by simp only [analyzeArgs]; exact ⟨_, rfl⟩
  | a :: as, p :: ps, i, h => by
    simp only [analyzeArgs]
    have ha : IdE a.val := h a (by simp)
    have ha1 : IdE (refArgExpr a p name i) := by
      unfold refArgExpr
      exact idE_ite _ _ _ ha
    obtain ⟨x, hx⟩ := analyzeExpr_total sc _ ha1
    obtain ⟨a2, argT⟩ := x
    obtain ⟨rest, hrest⟩ := analyzeArgs_total sc name as ps (i + 1) (fun b hb => h b (List.mem_cons_of_mem _ hb))
    simp only [hx, hrest]
    exact ⟨_, rfl⟩

theorem analyzeCall_total (sc : Scope) (c : CallStmt) (h : IdCall c) : ∃ r, analyzeCall sc c = .ok r := by
  unfold analyzeCall
  cases hl : sc.lookup c.name.value with
  | none => exact ⟨_, rfl⟩
  | some en =>
    cases en with
    | procedure pe =>
      obtain ⟨args, ha⟩ := analyzeArgs_total sc c.name.value c.args pe.parameters 0 h
      simp only [ha, Except.map]
      exact ⟨_, rfl⟩
    | type t => exact ⟨_, rfl⟩
    | «variable» v => exact ⟨_, rfl⟩
    | parameter v => exact ⟨_, rfl⟩

theorem analyzeAssignment_total (sc : Scope) (a : Assignment) (h : IdAssign a) : ∃ r, analyzeAssignment sc a = .ok r := by
  unfold analyzeAssignment
  cases he : a.expr with
  | none => exact ⟨_, rfl⟩
  | some r =>
    obtain ⟨x, hx⟩ := analyzeVar_total sc a.target h.1
    obtain ⟨v', lt⟩ := x
    obtain ⟨y, hy⟩ := analyzeExpr_total sc r.val (h.2 r he)
    simp only [hx, analyzeRefExpr, hy, Except.map]
    exact ⟨_, rfl⟩

mutual
  theorem analyzeStmt_total (sc : Scope) : ∀ (s : Stmt), IdS s → ∃ r, analyzeStmt sc s = .ok r
    | .assign a, h => by
      obtain ⟨r, hr⟩ := analyzeAssignment_total sc a h
      simp only [analyzeStmt, hr, Except.map]; exact ⟨_, rfl⟩
    | .call c, h => by
      obtain ⟨r, hr⟩ := analyzeCall_total sc c h
      simp only [analyzeStmt, hr, Except.map]; exact ⟨_, rfl⟩
    | .block ss i, h => by
      obtain ⟨r, hr⟩ := analyzeStmtList_total sc ss h
      simp only [analyzeStmt, hr, Except.map]; exact ⟨_, rfl⟩
    | .ifS c t e i, h => by
      have h' : (∀ r, c = some r → IdE r.val) ∧ IdOS t ∧ IdOS e := h
      obtain ⟨c', hc⟩ := analyzeCondition_total sc c .IfConditionMustBeBoolean h'.1
      obtain ⟨t', ht⟩ := analyzeOptStmt_total sc t h'.2.1
      obtain ⟨e', he⟩ := analyzeOptStmt_total sc e h'.2.2
      simp only [analyzeStmt, hc, ht, he]; exact ⟨_, rfl⟩
    | .whileS c b i, h => by
      have h' : (∀ r, c = some r → IdE r.val) ∧ IdOS b := h
      obtain ⟨c', hc⟩ := analyzeCondition_total sc c .WhileConditionMustBeBoolean h'.1
      obtain ⟨b', hb⟩ := analyzeOptStmt_total sc b h'.2
      simp only [analyzeStmt, hc, hb]; exact ⟨_, rfl⟩
    | .empty i, _ => ⟨_, rfl⟩
    | .error i, _ => ⟨_, rfl⟩
  theorem analyzeOptStmt_total (sc : Scope) : ∀ (o : OptStmt), IdOS o → ∃ r, analyzeOptStmt sc o = .ok r
    | .none, _ => ⟨_, rfl⟩
    | .some s o, h => by
      have h' : IdS s := h
      obtain ⟨r, hr⟩ := analyzeStmt_total sc s h'
      simp only [analyzeOptStmt, hr, Except.map]; exact ⟨_, rfl⟩
  theorem analyzeStmtList_total (sc : Scope) : ∀ (l : StmtList), IdSL l → ∃ r, analyzeStmtList sc l = .ok r
    | .nil, _ => ⟨_, rfl⟩
    | .cons s o r, h => by
      have h' : IdS s ∧ IdSL r := h
      obtain ⟨s', hs⟩ := analyzeStmt_total sc s h'.1
      obtain ⟨r', hr⟩ := analyzeStmtList_total sc r h'.2
      simp only [analyzeStmtList, hs, hr, Except.map]; exact ⟨_, rfl⟩
end

theorem analyzeRefStmts_total (sc : Scope) : ∀ (l : List (Ref Stmt)), (∀ s ∈ l, IdS s.val) → ∃ r, analyzeRefStmts sc l = .ok r
  | [], _ => ⟨_, rfl⟩
  | r :: rs, h => by
    obtain ⟨s', hs⟩ := analyzeStmt_total sc r.val (h r (by simp))
    obtain ⟨rs', hr⟩ := analyzeRefStmts_total sc rs (fun x hx => h x (List.mem_cons_of_mem _ hx))
    simp only [analyzeRefStmts, hs, hr, Except.map]; exact ⟨_, rfl⟩

/-! ### the symbol table -/

theorem flag_ok' (i : Identifier) (msg : List Char → Msg) (h : IdI i) :
    ∃ i', i.flag msg = .ok i' ∧ i'.value = i.value ∧ IdI i' := by
  unfold Identifier.flag Identifier.toError
  have : i.info.range.hi > 0 := h
  simp only [this, if_true]
  exact ⟨_, rfl, rfl, h⟩

theorem enter_some {α} (t t' : List (List Char × α)) (k : List Char) (v : α) (h : tblEnter t k v = some t') :
    t' = t ++ [(k, v)] ∧ tblLookup t k = none := by
  unfold tblEnter at h
  split at h
  · cases h
  · rename_i hany
    cases h
    refine ⟨rfl, ?_⟩
    unfold tblLookup
    have : t.find? (fun e => e.1 == k) = none := by
      rw [List.find?_eq_none]
      intro x hx hk
      exact hany (List.any_eq_true.mpr ⟨x, hx, hk⟩)
    simp [this]

theorem enter_none {α} (t : List (List Char × α)) (k : List Char) (v : α) (h : tblEnter t k v = none) :
    (tblLookup t k).isSome := by
  unfold tblEnter at h
  split at h
  · rename_i hany
    obtain ⟨x, hx, hk⟩ := List.any_eq_true.mp hany
    unfold tblLookup
    cases hf : t.find? (fun e => e.1 == k) with
    | none =>
      rw [List.find?_eq_none] at hf
      exact absurd hk (hf x hx)
    | some e => simp
  · cases h

theorem lookup_append {α} (t : List (List Char × α)) (k k' : List Char) (v : α) :
    tblLookup (t ++ [(k, v)]) k' = match tblLookup t k' with
      | some x => some x
      | none => if k == k' then some v else none := by
  unfold tblLookup
  rw [List.find?_append]
  cases hf : t.find? (fun e => e.1 == k') with
  | some e => simp
  | none =>
    simp only [Option.none_or, Option.map_none, List.find?_cons, List.find?_nil]
    by_cases hk : (k == k') = true
    · simp [hk]
    · simp [hk]

/-- entries persist -/
def Ext {α} (t t' : List (List Char × α)) : Prop := ∀ k, (tblLookup t k).isSome → (tblLookup t' k).isSome

theorem Ext.refl {α} (t : List (List Char × α)) : Ext t t := fun _ h => h
theorem Ext.trans {α} {a b c : List (List Char × α)} (h1 : Ext a b) (h2 : Ext b c) : Ext a c := fun k h => h2 k (h1 k h)

theorem ext_enter {α} (t t' : List (List Char × α)) (k : List Char) (v : α) (h : tblEnter t k v = some t') :
    Ext t t' ∧ (tblLookup t' k).isSome := by
  obtain ⟨rfl, hn⟩ := enter_some t t' k v h
  constructor
  · intro k' hk'
    rw [lookup_append]
    cases hl : tblLookup t k' with
    | none => rw [hl] at hk'; cases hk'
    | some x => simp
  · rw [lookup_append, hn]; simp

/-- the table holds no type named `main` -/
def NTM (t : GlobalTable) : Prop := ∀ e, tblLookup t "main".toList ≠ some (.type e)

mutual
  theorem getDataType_total (l : Option LocalTable) (g : GlobalTable) (c : Option (List Char)) :
      ∀ (t : TypeExpr), IdT t → ∃ r, getDataType l g c t = .ok r
    | .named n, h => by
      have hn : IdI n := h
      simp only [getDataType]
      split
      · exact ⟨_, rfl⟩
      · cases hl : lookupBoth l g n.value with
        | none =>
          obtain ⟨n', e, _⟩ := flag_ok n .UndefinedType hn
          simp only [e, Except.map]; exact ⟨_, rfl⟩
        | some en =>
          cases en with
          | type t => exact ⟨_, rfl⟩
          | procedure p =>
            obtain ⟨n', e, _⟩ := flag_ok n .NotAType hn
            simp only [e, Except.map]; exact ⟨_, rfl⟩
          | «variable» v =>
            obtain ⟨n', e, _⟩ := flag_ok n .NotAType hn
            simp only [e, Except.map]; exact ⟨_, rfl⟩
          | parameter v =>
            obtain ⟨n', e, _⟩ := flag_ok n .NotAType hn
            simp only [e, Except.map]; exact ⟨_, rfl⟩
    | .array size base info, h => by
      have hb : IdOT base := h
      obtain ⟨r, hr⟩ := getDataTypeOpt_total l g c base hb size info
      exact ⟨r, hr⟩
  theorem getDataTypeOpt_total (l : Option LocalTable) (g : GlobalTable) (c : Option (List Char)) :
      ∀ (base : OptType), IdOT base → ∀ size info, ∃ r, getDataType l g c (.array size base info) = .ok r
    | .none, _, size, info => by simp only [getDataType]; exact ⟨_, rfl⟩
    | .some t off, h, size, info => by
      have ht : IdT t := h
      obtain ⟨r, hr⟩ := getDataType_total l g c t ht
      obtain ⟨t', bt⟩ := r
      simp only [getDataType, hr]; exact ⟨_, rfl⟩
end

theorem getDataTypeRef_total (l : Option LocalTable) (g : GlobalTable) (c : Option (List Char))
    (te : Option (Ref TypeExpr)) (h : ∀ r, te = some r → IdT r.val) : ∃ r, getDataTypeRef l g c te = .ok r := by
  cases te with
  | none => exact ⟨_, rfl⟩
  | some r =>
    obtain ⟨x, hx⟩ := getDataType_total l g c r.val (h r rfl)
    obtain ⟨t', dt⟩ := x
    simp only [getDataTypeRef, hx]; exact ⟨_, rfl⟩

def IdTD (td : TypeDecl) : Prop := (∀ n, td.name = some n → IdI n) ∧ (∀ r, td.typeExpr = some r → IdT r.val)

def IdParam : ParamDecl → Prop
  | .valid _ _ n t _ => (∀ x, n = some x → IdI x) ∧ (∀ r, t = some r → IdT r.val)
  | .error _ => True

def IdVarD : VarDecl → Prop
  | .valid _ n t _ => (∀ x, n = some x → IdI x) ∧ (∀ r, t = some r → IdT r.val)
  | .error _ => True

def IdPD (pd : ProcDecl) : Prop :=
  (∀ n, pd.name = some n → IdI n) ∧ (∀ p ∈ pd.params, IdParam p.val) ∧ (∀ v ∈ pd.vars, IdVarD v.val) ∧
  (∀ s ∈ pd.stmts, IdS s.val)

def IdGD : GlobalDecl → Prop
  | .type td => IdTD td
  | .proc pd => IdPD pd
  | .error _ => True

/-- every identifier of the program covers at least one token -/
def IdProg (p : Program) : Prop := ∀ d ∈ p.decls, IdGD d.val

theorem buildTypeDecl_total (td : TypeDecl) (t : GlobalTable) (off : Nat) (h : IdTD td) (hm : NTM t) :
    ∃ td' t', buildTypeDecl td t off = .ok (td', t') ∧ Ext t t' ∧ NTM t' := by
  unfold buildTypeDecl
  cases hn : td.name with
  | none => exact ⟨_, _, rfl, Ext.refl t, hm⟩
  | some name =>
    simp only
    by_cases hmain : (name.value == "main".toList) = true
    · simp only [hmain, if_true]; exact ⟨_, _, rfl, Ext.refl t, hm⟩
    · simp only [hmain, Bool.false_eq_true, if_false]
      obtain ⟨r, hr⟩ := getDataTypeRef_total none t (some name.value) td.typeExpr h.2
      obtain ⟨te', dt⟩ := r
      simp only [hr]
      cases he : tblEnter t name.value (GlobalEntry.type { name := name, dataType := dt, range := td.info.range.shift off, doc := getDocumentation td.doc }) with
      | some t' =>
        obtain ⟨hext, _⟩ := ext_enter _ _ _ _ he
        refine ⟨_, _, rfl, hext, ?_⟩
        obtain ⟨rfl, _⟩ := enter_some _ _ _ _ he
        intro e hl
        rw [lookup_append] at hl
        cases hlm : tblLookup t "main".toList with
        | some x => rw [hlm] at hl; simp only [Option.some.injEq] at hl; exact hm e (hl ▸ hlm)
        | none =>
          rw [hlm] at hl
          simp only at hl
          split at hl
          · rename_i hk; exact hmain hk
          · cases hl
      | none =>
        obtain ⟨n', e, _⟩ := flag_ok name .RedeclarationAsType (h.1 name hn)
        simp only [e]; exact ⟨_, _, rfl, Ext.refl t, hm⟩

theorem buildParameter_total (p : Ref ParamDecl) (procedure : List Char) (g : GlobalTable) (l : LocalTable)
    (h : IdParam p.val) : ∃ r, buildParameter p procedure g l = .ok r := by
  unfold buildParameter
  cases hp : p.val with
  | error i => exact ⟨_, rfl⟩
  | valid doc isRef n te info =>
    rw [hp] at h
    cases n with
    | none => exact ⟨_, rfl⟩
    | some name =>
      have hn : IdI name := h.1 name rfl
      obtain ⟨r, hr⟩ := getDataTypeRef_total none g (some (anonymousCreator procedure name)) te h.2
      obtain ⟨te', dt⟩ := r
      simp only [hr]
      have tail : ∀ (n1 : Identifier), IdI n1 → ∀ (E : Option LocalTable) (K1 : LocalTable → Ref ParamDecl × LocalTable × Option VariableEntry)
          (K2 : Identifier → Ref ParamDecl × LocalTable × Option VariableEntry),
          ∃ r : Ref ParamDecl × LocalTable × Option VariableEntry, (match E with
            | some l' => (Except.ok (K1 l') : Except Panic (Ref ParamDecl × LocalTable × Option VariableEntry))
            | none =>
              match n1.flag .RedeclarationAsParameter with
              | .error e => Except.error e
              | .ok n2 => Except.ok (K2 n2)) = .ok r := by
        intro n1 hi1 E K1 K2
        cases E with
        | some l' => exact ⟨_, rfl⟩
        | none =>
          obtain ⟨n2, e2, _⟩ := flag_ok n1 .RedeclarationAsParameter hi1
          simp only [e2]; exact ⟨_, rfl⟩
      cases dt with
      | none =>
        simp only
        exact tail name hn _ _ _
      | some d =>
        simp only
        by_cases hc : (!d.isPrimitive && !isRef) = true
        · obtain ⟨n', e, _, hi⟩ := flag_ok' name .MustBeAReferenceParameter hn
          simp only [hc, if_true, e]
          exact tail n' hi _ _ _
        · simp only [hc, Bool.false_eq_true, if_false]
          exact tail name hn _ _ _

theorem buildVariable_total (v : Ref VarDecl) (procedure : List Char) (g : GlobalTable) (l : LocalTable)
    (h : IdVarD v.val) : ∃ r, buildVariable v procedure g l = .ok r := by
  unfold buildVariable
  cases hv : v.val with
  | error i => exact ⟨_, rfl⟩
  | valid doc n te info =>
    rw [hv] at h
    cases n with
    | none => exact ⟨_, rfl⟩
    | some name =>
      have hn : IdI name := h.1 name rfl
      obtain ⟨r, hr⟩ := getDataTypeRef_total (some l) g (some (anonymousCreator procedure name)) te h.2
      obtain ⟨te', dt⟩ := r
      simp only [hr]
      split
      · exact ⟨_, rfl⟩
      · obtain ⟨n', e, _⟩ := flag_ok name .RedeclarationAsVariable hn
        simp only [e]; exact ⟨_, rfl⟩

theorem buildParams_total (procedure : List Char) (g : GlobalTable) : ∀ (ps : List (Ref ParamDecl)) (l : LocalTable),
    (∀ p ∈ ps, IdParam p.val) → ∃ r, buildParams procedure g ps l = .ok r
  | [], _, _ => ⟨_, rfl⟩
  | p :: ps, l, h => by
    obtain ⟨r, hr⟩ := buildParameter_total p procedure g l (h p (by simp))
    obtain ⟨p', l1, ent⟩ := r
    obtain ⟨r2, hr2⟩ := buildParams_total procedure g ps l1 (fun x hx => h x (List.mem_cons_of_mem _ hx))
    obtain ⟨ps', l2, ents⟩ := r2
    simp only [buildParams, hr, hr2]; exact ⟨_, rfl⟩

theorem buildVars_total (procedure : List Char) (g : GlobalTable) : ∀ (vs : List (Ref VarDecl)) (l : LocalTable),
    (∀ v ∈ vs, IdVarD v.val) → ∃ r, buildVars procedure g vs l = .ok r
  | [], _, _ => ⟨_, rfl⟩
  | v :: vs, l, h => by
    obtain ⟨r, hr⟩ := buildVariable_total v procedure g l (h v (by simp))
    obtain ⟨v', l1⟩ := r
    obtain ⟨r2, hr2⟩ := buildVars_total procedure g vs l1 (fun x hx => h x (List.mem_cons_of_mem _ hx))
    obtain ⟨vs', l2⟩ := r2
    simp only [buildVars, hr, hr2]; exact ⟨_, rfl⟩

/-- what `analyze` needs of a built procedure declaration -/
def ProcOK (t : GlobalTable) (pd : ProcDecl) : Prop :=
  (∀ n, pd.name = some n → (tblLookup t n.value).isSome) ∧ (∀ s ∈ pd.stmts, IdS s.val)

theorem ntm_enter_proc (t t' : GlobalTable) (k : List Char) (e : ProcedureEntry) (hm : NTM t)
    (he : tblEnter t k (.procedure e) = some t') : NTM t' := by
  obtain ⟨rfl, _⟩ := enter_some _ _ _ _ he
  intro x hl
  rw [lookup_append] at hl
  cases hlm : tblLookup t "main".toList with
  | some y => rw [hlm] at hl; simp only [Option.some.injEq] at hl; exact hm x (hl ▸ hlm)
  | none =>
    rw [hlm] at hl
    simp only at hl
    split at hl <;> cases hl

theorem buildProcDecl_total (pd : ProcDecl) (t : GlobalTable) (off : Nat) (h : IdPD pd) (hm : NTM t) :
    ∃ pd' t', buildProcDecl pd t off = .ok (pd', t') ∧ Ext t t' ∧ NTM t' ∧ ProcOK t' pd' := by
  unfold buildProcDecl
  cases hn : pd.name with
  | none => exact ⟨_, _, rfl, Ext.refl t, hm, And.intro (by intro n hx; rw [hn] at hx; cases hx) h.2.2.2⟩
  | some name =>
    simp only
    obtain ⟨r, hr⟩ := buildParams_total name.value t pd.params [] h.2.1
    obtain ⟨params', l1, ents⟩ := r
    obtain ⟨r2, hr2⟩ := buildVars_total name.value t pd.vars l1 h.2.2.1
    obtain ⟨vars', l2⟩ := r2
    simp only [hr, hr2]
    cases he : tblEnter t name.value (GlobalEntry.procedure { name := name, localTable := l2, parameters := ents, range := pd.info.range.shift off, doc := getDocumentation pd.doc }) with
    | some t' =>
      obtain ⟨hext, hin⟩ := ext_enter _ _ _ _ he
      refine ⟨_, _, rfl, hext, ntm_enter_proc _ _ _ _ hm he, And.intro ?_ h.2.2.2⟩
      intro n hx
      simp only [Option.some.injEq] at hx
      subst hx
      exact hin
    | none =>
      obtain ⟨n', e, hv⟩ := flag_ok name .RedeclarationAsProcedure (h.1 name hn)
      simp only [e]
      refine ⟨_, _, rfl, Ext.refl t, hm, And.intro ?_ h.2.2.2⟩
      intro n hx
      simp only [Option.some.injEq] at hx
      subst hx
      rw [hv]
      exact enter_none _ _ _ he

/-- what `analyze` needs of the built declarations -/
def DeclsOK (t : GlobalTable) (ds : List (Ref GlobalDecl)) : Prop :=
  ∀ d ∈ ds, ∀ pd, d.val = .proc pd → ProcOK t pd

theorem procOK_ext {t t' : GlobalTable} (he : Ext t t') {pd : ProcDecl} (h : ProcOK t pd) : ProcOK t' pd :=
  ⟨fun n hn => he _ (h.1 n hn), h.2⟩

theorem buildDecls_total : ∀ (ds : List (Ref GlobalDecl)) (t : GlobalTable) (off : Nat), (∀ d ∈ ds, IdGD d.val) → NTM t →
    ∃ ds' t', buildDecls ds t off = .ok (ds', t') ∧ Ext t t' ∧ NTM t' ∧ DeclsOK t' ds'
  | [], t, _, _, hm => ⟨[], t, rfl, Ext.refl t, hm, by intro d hd; cases hd⟩
  | d :: ds, t, off, h, hm => by
    have hd : IdGD d.val := h d (by simp)
    have hrest := fun t1 (m1 : NTM t1) => buildDecls_total ds t1 off (fun x hx => h x (List.mem_cons_of_mem _ hx)) m1
    cases hv : d.val with
    | type td =>
      rw [hv] at hd
      obtain ⟨td', t1, e, x1, m1⟩ := buildTypeDecl_total td t (off + d.offset) hd hm
      obtain ⟨ds', t2, e2, x2, m2, p2⟩ := hrest t1 m1
      refine ⟨⟨.type td', d.offset⟩ :: ds', t2, by simp only [buildDecls, hv, e, Except.map, e2], x1.trans x2, m2, ?_⟩
      intro x hx pd hpd
      rcases List.mem_cons.mp hx with rfl | hx
      · cases hpd
      · exact p2 x hx pd hpd
    | proc pd0 =>
      rw [hv] at hd
      obtain ⟨pd', t1, e, x1, m1, p1⟩ := buildProcDecl_total pd0 t (off + d.offset) hd hm
      obtain ⟨ds', t2, e2, x2, m2, p2⟩ := hrest t1 m1
      refine ⟨⟨.proc pd', d.offset⟩ :: ds', t2, by simp only [buildDecls, hv, e, Except.map, e2], x1.trans x2, m2, ?_⟩
      intro x hx pd hpd
      rcases List.mem_cons.mp hx with rfl | hx
      · cases hpd
        exact procOK_ext x2 p1
      · exact p2 x hx pd hpd
    | error i =>
      obtain ⟨ds', t2, e2, x2, m2, p2⟩ := hrest t hm
      refine ⟨⟨.error i, d.offset⟩ :: ds', t2, by simp only [buildDecls, hv, e2], x2, m2, ?_⟩
      intro x hx pd hpd
      rcases List.mem_cons.mp hx with rfl | hx
      · cases hpd
      · exact p2 x hx pd hpd

theorem ntm_initial : NTM initialTable := by
  intro e h
  have : tblLookup initialTable "main".toList = none := by decide
  rw [this] at h; cases h

theorem build_total (p : Program) (h : IdProg p) : ∃ p' t, build p = .ok (p', t) ∧ DeclsOK t p'.decls := by
  obtain ⟨ds', t, e, _, hm, hok⟩ := buildDecls_total p.decls initialTable 0 h ntm_initial
  unfold build
  simp only [e]
  cases hl : tblLookup t "main".toList with
  | none => exact ⟨_, t, rfl, hok⟩
  | some en =>
    cases en with
    | procedure m =>
      simp only
      split
      · exact ⟨_, t, rfl, hok⟩
      · exact ⟨_, t, rfl, hok⟩
    | type te => exact absurd hl (hm te)

theorem analyzeDecls_total (t : GlobalTable) : ∀ (ds : List (Ref GlobalDecl)), DeclsOK t ds → ∃ r, analyzeDecls t ds = .ok r
  | [], _ => ⟨_, rfl⟩
  | d :: ds, h => by
    obtain ⟨rs, hrs⟩ := analyzeDecls_total t ds (fun x hx => h x (List.mem_cons_of_mem _ hx))
    cases hv : d.val with
    | type td => simp only [analyzeDecls, hv, hrs, Except.map]; exact ⟨_, rfl⟩
    | error i => simp only [analyzeDecls, hv, hrs, Except.map]; exact ⟨_, rfl⟩
    | proc pd =>
      have hp := h d (by simp) pd hv
      cases hn : pd.name with
      | none => simp only [analyzeDecls, hv, hn, hrs, Except.map]; exact ⟨_, rfl⟩
      | some name =>
        have hsome := hp.1 name hn
        cases hl : tblLookup t name.value with
        | none => rw [hl] at hsome; cases hsome
        | some en =>
          cases en with
          | type te => simp only [analyzeDecls, hv, hn, hl, hrs, Except.map]; exact ⟨_, rfl⟩
          | procedure pe =>
            obtain ⟨ss, hss⟩ := analyzeRefStmts_total ⟨some pe.localTable, t⟩ pd.stmts hp.2
            simp only [analyzeDecls, hv, hn, hl, hss, hrs, Except.map]; exact ⟨_, rfl⟩

/-- **the symbol-table and semantic passes never panic** on a program whose identifiers cover a token each -/
theorem build_analyze_total (p : Program) (h : IdProg p) :
    ∃ p1 t p2, build p = .ok (p1, t) ∧ analyze p1 t = .ok p2 := by
  obtain ⟨p1, t, e, hok⟩ := build_total p h
  obtain ⟨ds, hds⟩ := analyzeDecls_total t p1.decls hok
  refine ⟨p1, t, { p1 with decls := ds }, e, ?_⟩
  simp only [analyze, hds, Except.map]

end Spl.AnalyzeTotal
