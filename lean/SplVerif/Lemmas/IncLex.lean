/-
  Infrastructure for C07 (`lexer::update` = `lexer::lex` of the new text):
  a total view `lexL` of the token loop, its induction principle, cuts (token boundaries),
  re-offsetting, and stability of the unaffected head under a change of the text behind it.
-/
import SplVerif.Lemmas.Lex

namespace Spl

/-! ### the token loop as a total function -/

def lexL (s : List Char) (off : Nat) : List Token := (lexGo s off 0).getD []

theorem lexGo_eq_lexL (s : List Char) (off : Nat) : lexGo s off 0 = some (lexL s off) := by
  obtain ⟨ts, h⟩ := lexGo_total s off 0
  simp [lexL, h]

@[simp] theorem lexL_nil (off : Nat) : lexL [] off = [] := by simp [lexL, lexGo]

theorem lexL_space {c : Char} {cs : List Char} {off : Nat} (h : isSpace c = true) :
    lexL (c :: cs) off = lexL cs (off + c.utf8Size) := by
  simp [lexL, lexGo, h]

theorem lexL_token {c : Char} {cs : List Char} {off : Nat} {o : LexOut}
    (hsp : isSpace c = false) (ho : lexOne (c :: cs) = some o) :
    lexL (c :: cs) off =
      mkToken o (c :: cs) off :: lexL ((c :: cs).drop o.n) (off + utf8Len ((c :: cs).take o.n)) := by
  have h := lexGo_token (off := off) hsp ho
  rw [lexGo_eq_lexL, lexGo_eq_lexL] at h
  simpa using h

/-- Induction along the token loop. -/
theorem lexL_induct {P : List Char → Prop} (hnil : P [])
    (hsp : ∀ c cs, isSpace c = true → P cs → P (c :: cs))
    (htok : ∀ c cs o, isSpace c = false → lexOne (c :: cs) = some o →
      P ((c :: cs).drop o.n) → P (c :: cs)) : ∀ s, P s
  | [] => hnil
  | c :: cs =>
    if h : isSpace c = true then hsp c cs h (lexL_induct hnil hsp htok cs)
    else
      match ho : lexOne (c :: cs) with
      | some o =>
        htok c cs o (by simpa using h) ho (lexL_induct hnil hsp htok ((c :: cs).drop o.n))
      | none => by
        obtain ⟨o, h2⟩ := lexOne_total c cs
        rw [ho] at h2; cases h2
termination_by s => s.length
decreasing_by
  · simp
  · have := (lexOne_ok ho).pos
    simp only [List.length_drop, List.length_cons]
    omega

/-! ### splits of a text are determined by their byte position -/

theorem split_prefix {a b a' b' : List Char} (h : a ++ b = a' ++ b') (hl : utf8Len a ≤ utf8Len a') :
    ∃ m, a' = a ++ m ∧ b = m ++ b' := by
  induction a generalizing a' with
  | nil => exact ⟨a', by simp, by simpa using h⟩
  | cons c cs ih =>
    cases a' with
    | nil =>
      have := utf8Size_pos c
      simp at hl; omega
    | cons c' cs' =>
      simp only [List.cons_append, List.cons.injEq] at h
      obtain ⟨hc, ht⟩ := h
      subst hc
      simp only [utf8Len_cons] at hl
      obtain ⟨m, h1, h2⟩ := ih ht (by omega)
      exact ⟨m, by simp [h1], h2⟩

theorem utf8Len_eq_zero {m : List Char} (h : utf8Len m = 0) : m = [] := by
  cases m with
  | nil => rfl
  | cons c cs => have := utf8Size_pos c; simp at h; omega

theorem split_unique {a b a' b' : List Char} (h : a ++ b = a' ++ b') (hl : utf8Len a = utf8Len a') :
    a = a' ∧ b = b' := by
  obtain ⟨m, h1, h2⟩ := split_prefix h (by omega)
  have : utf8Len m = 0 := by rw [h1, utf8Len_append] at hl; omega
  have := utf8Len_eq_zero this
  subst this
  simp at h1 h2
  exact ⟨h1.symm, h2⟩

/-! ### shape of the produced tokens -/

theorem mkToken_lo (o : LexOut) (s : List Char) (off : Nat) : (mkToken o s off).range.lo = off := rfl
theorem mkToken_hi (o : LexOut) (s : List Char) (off : Nat) :
    (mkToken o s off).range.hi = off + utf8Len (s.take o.n) := rfl

theorem lexL_lo (s : List Char) (off : Nat) : ∀ t ∈ lexL s off, off ≤ t.range.lo :=
  lexGo_lo (lexGo_eq_lexL s off)

/-- every token is non-empty and lies inside the text -/
theorem lexL_bounds : ∀ (s : List Char) (off : Nat), ∀ t ∈ lexL s off,
    t.range.lo < t.range.hi ∧ t.range.hi ≤ off + utf8Len s := by
  intro s
  induction s using lexL_induct with
  | hnil => intro off t ht; simp at ht
  | hsp c cs hc ih =>
    intro off t ht
    rw [lexL_space hc] at ht
    have := ih _ t ht
    simp only [utf8Len_cons]; omega
  | htok c cs o hc ho ih =>
    intro off t ht
    rw [lexL_token hc ho] at ht
    have hok := lexOne_ok ho
    have hpos := utf8Len_take_pos hok.pos hok.le
    have hsum := utf8Len_take_drop (c :: cs) o.n
    simp only [List.mem_cons] at ht
    rcases ht with rfl | ht
    · simp only [mkToken_lo, mkToken_hi]; omega
    · have := ih _ t ht
      omega

/-- tokens are ordered and do not overlap -/
theorem lexL_sorted : ∀ (s : List Char) (off : Nat),
    (lexL s off).Pairwise (fun a b => a.range.hi ≤ b.range.lo) := by
  intro s
  induction s using lexL_induct with
  | hnil => intro off; simp
  | hsp c cs hc ih => intro off; rw [lexL_space hc]; exact ih _
  | htok c cs o hc ho ih =>
    intro off
    rw [lexL_token hc ho]
    refine List.Pairwise.cons ?_ (ih _)
    intro t ht
    have := lexL_lo _ _ t ht
    simpa [mkToken_hi] using this

/-! ### cuts: lexing restarts identically at every token start and every token end -/

theorem cut_at_start : ∀ (s : List Char) (off : Nat) (T1 : List Token) (t : Token) (T2 : List Token),
    lexL s off = T1 ++ t :: T2 →
    ∃ a b, s = a ++ b ∧ off + utf8Len a = t.range.lo ∧ lexL b t.range.lo = t :: T2 := by
  intro s
  induction s using lexL_induct with
  | hnil => intro off T1 t T2 h; simp at h
  | hsp c cs hc ih =>
    intro off T1 t T2 h
    rw [lexL_space hc] at h
    obtain ⟨a, b, h1, h2, h3⟩ := ih _ T1 t T2 h
    exact ⟨c :: a, b, by simp [h1], by simp only [utf8Len_cons]; omega, h3⟩
  | htok c cs o hc ho ih =>
    intro off T1 t T2 h
    have hl := lexL_token (off := off) hc ho
    cases T1 with
    | nil =>
      refine ⟨[], c :: cs, rfl, ?_, ?_⟩
      · rw [hl] at h
        simp only [List.nil_append, List.cons.injEq] at h
        rw [← h.1]; simp [mkToken_lo]
      · rw [hl] at h
        simp only [List.nil_append, List.cons.injEq] at h
        have : t.range.lo = off := by rw [← h.1]; rfl
        rw [this, hl]
        simp [h.1, h.2]
    | cons x T1' =>
      rw [hl] at h
      simp only [List.cons_append, List.cons.injEq] at h
      obtain ⟨a, b, h1, h2, h3⟩ := ih _ T1' t T2 h.2
      refine ⟨(c :: cs).take o.n ++ a, b, ?_, ?_, h3⟩
      · rw [List.append_assoc, ← h1, List.take_append_drop]
      · rw [utf8Len_append]; omega

theorem cut_at_end : ∀ (s : List Char) (off : Nat) (T1 : List Token) (t : Token) (T2 : List Token),
    lexL s off = T1 ++ t :: T2 →
    ∃ a b, s = a ++ b ∧ off + utf8Len a = t.range.hi ∧ lexL b t.range.hi = T2 := by
  intro s
  induction s using lexL_induct with
  | hnil => intro off T1 t T2 h; simp at h
  | hsp c cs hc ih =>
    intro off T1 t T2 h
    rw [lexL_space hc] at h
    obtain ⟨a, b, h1, h2, h3⟩ := ih _ T1 t T2 h
    exact ⟨c :: a, b, by simp [h1], by simp only [utf8Len_cons]; omega, h3⟩
  | htok c cs o hc ho ih =>
    intro off T1 t T2 h
    have hl := lexL_token (off := off) hc ho
    cases T1 with
    | nil =>
      rw [hl] at h
      simp only [List.nil_append, List.cons.injEq] at h
      refine ⟨(c :: cs).take o.n, (c :: cs).drop o.n, (List.take_append_drop _ _).symm, ?_, ?_⟩
      · rw [← h.1]; rfl
      · have : t.range.hi = off + utf8Len ((c :: cs).take o.n) := by rw [← h.1]; rfl
        rw [this]; exact h.2
    | cons x T1' =>
      rw [hl] at h
      simp only [List.cons_append, List.cons.injEq] at h
      obtain ⟨a, b, h1, h2, h3⟩ := ih _ T1' t T2 h.2
      refine ⟨(c :: cs).take o.n ++ a, b, ?_, ?_, h3⟩
      · rw [List.append_assoc, ← h1, List.take_append_drop]
      · rw [utf8Len_append]; omega

/-- Lexing from any position of the whitespace run in front of the first token gives the same
    tokens. -/
theorem pre_first : ∀ (u v : List Char) (off : Nat) (h : Token) (T : List Token),
    lexL (u ++ v) off = h :: T → off + utf8Len u ≤ h.range.lo →
    lexL v (off + utf8Len u) = h :: T := by
  intro u
  induction u with
  | nil => intro v off h T hl _; simpa using hl
  | cons c u' ih =>
    intro v off h T hl hle
    by_cases hc : isSpace c = true
    · rw [List.cons_append, lexL_space hc] at hl
      have := ih v _ h T hl (by simp only [utf8Len_cons] at hle; omega)
      simp only [utf8Len_cons]
      rw [← Nat.add_assoc]; exact this
    · have hc' : isSpace c = false := by simpa using hc
      obtain ⟨o, ho⟩ := lexOne_total c (u' ++ v)
      rw [List.cons_append, lexL_token hc' ho] at hl
      simp only [List.cons.injEq] at hl
      have : h.range.lo = off := by rw [← hl.1]; rfl
      have := utf8Size_pos c
      simp only [utf8Len_cons] at hle
      omega

theorem pre_empty : ∀ (u v : List Char) (off : Nat),
    lexL (u ++ v) off = [] → lexL v (off + utf8Len u) = [] := by
  intro u
  induction u with
  | nil => intro v off hl; simpa using hl
  | cons c u' ih =>
    intro v off hl
    by_cases hc : isSpace c = true
    · rw [List.cons_append, lexL_space hc] at hl
      have := ih v _ hl
      simp only [utf8Len_cons]
      rw [← Nat.add_assoc]; exact this
    · have hc' : isSpace c = false := by simpa using hc
      obtain ⟨o, ho⟩ := lexOne_total c (u' ++ v)
      rw [List.cons_append, lexL_token hc' ho] at hl
      cases hl

/-! ### re-offsetting: `shift_token` of a lexing is the lexing at the shifted offset -/

theorem shiftInt_ok {p q k : Nat} {d : Int} (h : (q : Int) = p + d) : shiftInt (p + k) d = some (q + k) := by
  simp only [shiftInt]
  have h1 : ¬ (((p + k : Nat) : Int) + d < 0) := by omega
  simp only [h1, if_false, Option.some.injEq]
  omega

theorem mapM_option_eq_map {α β} (f : α → Option β) (g : α → β) :
    ∀ (l : List α), (∀ x ∈ l, f x = some (g x)) → l.mapM f = some (l.map g)
  | [], _ => rfl
  | x :: xs, h => by
    have hx := h x (by simp)
    have ih := mapM_option_eq_map f g xs (fun y hy => h y (by simp [hy]))
    simp [List.mapM_cons, hx, ih]

theorem shiftToken_mkToken (o : LexOut) (s : List Char) {p q : Nat} {d : Int} (h : (q : Int) = p + d) :
    shiftToken? (mkToken o s p) d = some (mkToken o s q) := by
  simp only [shiftToken?, shiftRange?, mkToken]
  have h0 : shiftInt p d = some q := by simpa using shiftInt_ok (k := 0) h
  have h1 := shiftInt_ok (k := utf8Len (s.take o.n)) h
  have he : shiftErrs? (o.errs.map (·.shift p)) d = some (o.errs.map (·.shift q)) := by
    unfold shiftErrs?
    rw [List.mapM_map] 
    rw [mapM_option_eq_map _ (fun e => e.shift q)]
    intro e _
    simp only [Function.comp, SplError.shift, Range.shift, shiftRange?]
    have e1 : shiftInt (e.range.lo + p) d = some (e.range.lo + q) := by
      rw [Nat.add_comm e.range.lo p, Nat.add_comm e.range.lo q]; exact shiftInt_ok h
    have e2 : shiftInt (e.range.hi + p) d = some (e.range.hi + q) := by
      rw [Nat.add_comm e.range.hi p, Nat.add_comm e.range.hi q]; exact shiftInt_ok h
    simp [e1, e2]
  simp [h0, h1, he]

theorem lexL_shift : ∀ (b : List Char) (p q : Nat) (d : Int), (q : Int) = p + d →
    (lexL b p).mapM (fun t => shiftToken? t d) = some (lexL b q) := by
  intro b
  induction b using lexL_induct with
  | hnil => intro p q d _; simp
  | hsp c cs hc ih =>
    intro p q d h
    rw [lexL_space hc, lexL_space hc]
    exact ih _ _ d (by omega)
  | htok c cs o hc ho ih =>
    intro p q d h
    rw [lexL_token hc ho, lexL_token hc ho]
    have h2 := ih (p + utf8Len ((c :: cs).take o.n)) (q + utf8Len ((c :: cs).take o.n)) d (by omega)
    simp [List.mapM_cons, shiftToken_mkToken o (c :: cs) h, h2]

/-! ### look-ahead locality and the stability of the unaffected head -/

/-- **Look-ahead locality of `Token::lex`**: the token recognised at the start of a text depends
    only on the token's own characters and — for kinds with look-ahead 1 — the one character
    after it (or the fact that the text ends there). -/
def LexLocal : Prop := ∀ (pre rest rest' : List Char) (o : LexOut),
  lexOne (pre ++ rest) = some o → o.n = pre.length →
  (Gen.lookAhead o.ty.kind = 0 ∨ rest.head? = rest'.head?) →
  lexOne (pre ++ rest') = some o

theorem lookAhead_le_one (k : Kind) : Gen.lookAhead k ≤ 1 := by cases k <;> decide

theorem mkToken_kind (o : LexOut) (s : List Char) (off : Nat) : (mkToken o s off).kind = o.ty.kind := rfl

theorem isAffectedBy_true {t : Token} {cs : Nat} :
    t.isAffectedBy cs = true ↔ cs < t.range.hi + Gen.lookAhead t.kind := by
  simp [Token.isAffectedBy]

theorem isAffectedBy_false {t : Token} {cs : Nat} :
    t.isAffectedBy cs = false ↔ t.range.hi + Gen.lookAhead t.kind ≤ cs := by
  simp [Token.isAffectedBy]

/-- all tokens of a lexing that starts at or after an affected token's end are affected -/
theorem affected_after {s : List Char} {p cs : Nat} (h : cs < p + 1) :
    ∀ t ∈ lexL s p, t.isAffectedBy cs = true := by
  intro t ht
  have h1 := lexL_lo s p t ht
  have h2 := (lexL_bounds s p t ht).1
  rw [isAffectedBy_true]
  omega

theorem head_stable (hloc : LexLocal) : ∀ (s : List Char) (off : Nat) (a b b' : List Char), s = a ++ b →
    ∃ (H : List Token) (a1 g : List Char), a = a1 ++ g ∧
      lexL (a ++ b) off = H ++ lexL (g ++ b) (off + utf8Len a1) ∧
      lexL (a ++ b') off = H ++ lexL (g ++ b') (off + utf8Len a1) ∧
      (∀ t ∈ H, t.isAffectedBy (off + utf8Len a) = false) ∧
      (∀ t ∈ lexL (g ++ b) (off + utf8Len a1), t.isAffectedBy (off + utf8Len a) = true) ∧
      (H = [] → a1 = []) ∧ (∀ t, H.getLast? = some t → t.range.hi = off + utf8Len a1) := by
  intro s
  induction s using lexL_induct with
  | hnil =>
    intro off a b b' h
    obtain ⟨ha, hb⟩ := List.append_eq_nil_iff.mp h.symm
    subst ha hb
    exact ⟨[], [], [], rfl, by simp, by simp, by simp, by simp, by simp, by simp⟩
  | hsp c cs hc ih =>
    intro off a b b' h
    cases a with
    | nil =>
      refine ⟨[], [], [], rfl, by simp, by simp, by simp, ?_, by simp, by simp⟩
      simp only [List.nil_append, utf8Len_nil, Nat.add_zero]
      exact affected_after (by omega)
    | cons c' a' =>
      simp only [List.cons_append, List.cons.injEq] at h
      obtain ⟨hcc, hcs⟩ := h
      subst hcc
      obtain ⟨H, a1', g, h1, h2, h3, h4, h5, h6, h7⟩ := ih (off + c.utf8Size) a' b b' hcs
      have e1 : lexL (c :: a' ++ b) off = lexL (a' ++ b) (off + c.utf8Size) := by
        rw [List.cons_append, lexL_space hc]
      have e2 : lexL (c :: a' ++ b') off = lexL (a' ++ b') (off + c.utf8Size) := by
        rw [List.cons_append, lexL_space hc]
      have eoff : off + c.utf8Size + utf8Len a' = off + utf8Len (c :: a') := by
        simp only [utf8Len_cons]; omega
      cases H with
      | nil =>
        refine ⟨[], [], c :: a', rfl, by simp, by simp, by simp, ?_, by simp, by simp⟩
        simp only [utf8Len_nil, Nat.add_zero]
        intro t ht
        rw [e1, h2] at ht
        rw [← eoff]
        exact h5 t (by simpa using ht)
      | cons x xs =>
        refine ⟨x :: xs, c :: a1', g, by simp [h1], ?_, ?_, ?_, ?_, by simp, ?_⟩
        · rw [e1, h2]; simp only [utf8Len_cons]; rw [Nat.add_assoc]
        · rw [e2, h3]; simp only [utf8Len_cons]; rw [Nat.add_assoc]
        · rw [← eoff]; exact h4
        · rw [← eoff]; simp only [utf8Len_cons]; rw [← Nat.add_assoc]; exact h5
        · intro t ht; rw [h7 t ht]; simp only [utf8Len_cons]; omega
  | htok c cs o hc ho ih =>
    intro off a b b' h
    have hok := lexOne_ok ho
    have hl := lexL_token (off := off) hc ho
    have hsplit : (c :: cs) = (c :: cs).take o.n ++ (c :: cs).drop o.n := (List.take_append_drop _ _).symm
    by_cases haff : (mkToken o (c :: cs) off).isAffectedBy (off + utf8Len a) = true
    · -- the first token is affected: nothing is kept
      refine ⟨[], [], a, rfl, by simp, by simp, by simp, ?_, by simp, by simp⟩
      simp only [utf8Len_nil, Nat.add_zero, List.nil_append]
      intro t ht
      rw [← h, hl] at ht
      simp only [List.mem_cons] at ht
      rcases ht with rfl | ht
      · exact haff
      · have hla := lookAhead_le_one (mkToken o (c :: cs) off).kind
        rw [isAffectedBy_true, mkToken_hi] at haff
        exact affected_after (by omega) t ht
    · -- the first token is unaffected: it lies inside `a`, with its look-ahead
      have haff' : (mkToken o (c :: cs) off).isAffectedBy (off + utf8Len a) = false := by simpa using haff
      rw [isAffectedBy_false, mkToken_hi, mkToken_kind] at haff'
      have hle : utf8Len ((c :: cs).take o.n) ≤ utf8Len a := by omega
      obtain ⟨m, hm1, hm2⟩ := split_prefix (hsplit.symm.trans h) hle
      have hlen : ((c :: cs).take o.n).length = o.n := by
        rw [List.length_take]; exact Nat.min_eq_left hok.le
      have hone : lexOne ((c :: cs).take o.n ++ (m ++ b)) = some o := by
        rw [← hm2, ← hsplit]; exact ho
      have hone' : lexOne ((c :: cs).take o.n ++ (m ++ b')) = some o := by
        refine hloc _ (m ++ b) (m ++ b') o hone hlen.symm ?_
        by_cases hz : Gen.lookAhead o.ty.kind = 0
        · exact Or.inl hz
        · right
          have hm : m ≠ [] := by
            intro hm; subst hm
            rw [hm1, List.append_nil] at haff'
            omega
          cases m with
          | nil => exact absurd rfl hm
          | cons x m' => simp
      -- the first character of the taken prefix is `c`
      obtain ⟨n', hn'⟩ : ∃ n', o.n = n' + 1 := ⟨o.n - 1, by have := hok.pos; omega⟩
      have htake : (c :: cs).take o.n = c :: cs.take n' := by rw [hn']; rfl
      have hn'le : n' ≤ cs.length := by
        have := hok.le; simp only [List.length_cons] at this; omega
      have hl' : lexL (a ++ b') off =
          mkToken o (c :: cs) off :: lexL (m ++ b') (off + utf8Len ((c :: cs).take o.n)) := by
        have e : a ++ b' = c :: (cs.take n' ++ (m ++ b')) := by
          rw [hm1, htake]; simp
        rw [e]
        have ho2 : lexOne (c :: (cs.take n' ++ (m ++ b'))) = some o := by
          have := hone'; rw [htake] at this; simpa using this
        rw [lexL_token hc ho2]
        have t1 : (c :: (cs.take n' ++ (m ++ b'))).take o.n = (c :: cs).take o.n := by
          rw [htake, hn']
          simp only [List.take_succ_cons, List.cons.injEq, true_and]
          rw [List.take_append_of_le_length (by rw [List.length_take]; omega)]
          rw [List.take_take]; simp
        have t2 : (c :: (cs.take n' ++ (m ++ b'))).drop o.n = m ++ b' := by
          rw [hn']
          simp only [List.drop_succ_cons]
          have hlt : (cs.take n').length = n' := by
            rw [List.length_take]
            have := hok.le; simp only [List.length_cons] at this; omega
          rw [List.drop_append_of_le_length (by omega)]
          rw [List.drop_of_length_le (by omega)]; simp
        simp only [mkToken, t1, t2]
      obtain ⟨H, a1', g, h1, h2, h3, h4, h5, h6, h7⟩ :=
        ih (off + utf8Len ((c :: cs).take o.n)) m b b' hm2
      have eoff : off + utf8Len ((c :: cs).take o.n) + utf8Len m = off + utf8Len a := by
        rw [hm1, utf8Len_append]; omega
      refine ⟨mkToken o (c :: cs) off :: H, (c :: cs).take o.n ++ a1', g, ?_, ?_, ?_, ?_, ?_, by simp, ?_⟩
      · rw [hm1, h1]; simp
      · rw [← h, hl, hm2, h2, utf8Len_append, Nat.add_assoc]; simp
      · rw [hl', h3, utf8Len_append, Nat.add_assoc]; simp
      · intro t ht
        simp only [List.mem_cons] at ht
        rcases ht with rfl | ht
        · rw [isAffectedBy_false, mkToken_hi, mkToken_kind]
          exact haff'
        · rw [← eoff]; exact h4 t ht
      · rw [utf8Len_append, ← Nat.add_assoc, ← eoff]; exact h5
      · intro t ht
        cases H with
        | nil =>
          simp only [List.getLast?_singleton, Option.some.injEq] at ht
          subst ht
          rw [h6 rfl]; simp [mkToken_hi]
        | cons x xs =>
          rw [List.getLast?_cons_cons] at ht
          rw [h7 t ht, utf8Len_append]; omega

/-! ### list facts used by the update algorithm -/

theorem takeWhile_cases {α} (q : α → Bool) : ∀ (l : List α),
    (l.takeWhile q = l ∧ ∀ x ∈ l, q x = true) ∨
    (∃ l1 x l2, l = l1 ++ x :: l2 ∧ (∀ y ∈ l1, q y = true) ∧ q x = false ∧ l.takeWhile q = l1)
  | [] => Or.inl ⟨rfl, by simp⟩
  | a :: as => by
    cases hq : q a with
    | false => exact Or.inr ⟨[], a, as, rfl, by simp, hq, by simp [List.takeWhile, hq]⟩
    | true =>
      rcases takeWhile_cases q as with ⟨h1, h2⟩ | ⟨l1, x, l2, h1, h2, h3, h4⟩
      · left
        exact ⟨by simp [List.takeWhile, hq, h1], by intro y hy; simp at hy; rcases hy with rfl | hy; exact hq; exact h2 y hy⟩
      · right
        refine ⟨a :: l1, x, l2, by simp [h1], ?_, h3, by simp [List.takeWhile, hq, h4]⟩
        intro y hy; simp at hy; rcases hy with rfl | hy
        · exact hq
        · exact h2 y hy

theorem dropWhile_append_of {α} (p : α → Bool) (l1 : List α) (x : α) (l2 : List α)
    (h1 : ∀ y ∈ l1, p y = true) (hx : p x = false) :
    (l1 ++ x :: l2).dropWhile p = x :: l2 := by
  induction l1 with
  | nil => simp [List.dropWhile, hx]
  | cons a as ih =>
    have ha := h1 a (by simp)
    simp only [List.cons_append, List.dropWhile, ha]
    exact ih (fun y hy => h1 y (by simp [hy]))

theorem dropWhile_all {α} (p : α → Bool) (l : List α) (h : ∀ y ∈ l, p y = true) :
    l.dropWhile p = [] := by
  induction l with
  | nil => rfl
  | cons a as ih =>
    have ha := h a (by simp)
    simp only [List.dropWhile, ha]
    exact ih (fun y hy => h y (by simp [hy]))

theorem filter_append_of {α} (p : α → Bool) (l1 l2 : List α)
    (h1 : ∀ y ∈ l1, p y = true) (h2 : ∀ y ∈ l2, p y = false) : (l1 ++ l2).filter p = l1 := by
  rw [List.filter_append]
  have e1 : l1.filter p = l1 := List.filter_eq_self.mpr h1
  have e2 : l2.filter p = [] := List.filter_eq_nil_iff.mpr (fun y hy => by simp [h2 y hy])
  rw [e1, e2, List.append_nil]

theorem filter_append_of' {α} (p : α → Bool) (l1 l2 : List α)
    (h1 : ∀ y ∈ l1, p y = false) (h2 : ∀ y ∈ l2, p y = true) : (l1 ++ l2).filter p = l2 := by
  rw [List.filter_append]
  have e1 : l2.filter p = l2 := List.filter_eq_self.mpr h2
  have e2 : l1.filter p = [] := List.filter_eq_nil_iff.mpr (fun y hy => by simp [h1 y hy])
  rw [e1, e2, List.nil_append]

/-- a list sorted by a strict order splits at a monotone predicate -/
theorem sorted_split {α} (R : α → α → Prop) (p : α → Bool)
    (hmono : ∀ a b, R a b → p a = false → p b = false) :
    ∀ (l : List α), l.Pairwise R →
      ∃ l1 l2, l = l1 ++ l2 ∧ (∀ y ∈ l1, p y = true) ∧ (∀ y ∈ l2, p y = false)
  | [], _ => ⟨[], [], rfl, by simp, by simp⟩
  | a :: as, h => by
    rw [List.pairwise_cons] at h
    cases hp : p a with
    | false =>
      refine ⟨[], a :: as, rfl, by simp, ?_⟩
      intro y hy; simp at hy; rcases hy with rfl | hy
      · exact hp
      · exact hmono a y (h.1 y hy) hp
    | true =>
      obtain ⟨l1, l2, e, h1, h2⟩ := sorted_split R p hmono as h.2
      refine ⟨a :: l1, l2, by simp [e], ?_, h2⟩
      intro y hy; simp at hy; rcases hy with rfl | hy
      · exact hp
      · exact h1 y hy

theorem lexL_lo_sorted (s : List Char) (off : Nat) :
    (lexL s off).Pairwise (fun a b => a.range.lo < b.range.lo) := by
  have h1 := lexL_sorted s off
  have h2 := lexL_bounds s off
  refine List.Pairwise.imp_of_mem ?_ h1
  intro a b ha _ hab
  have := (h2 a ha).1
  omega

/-! ### stitching the re-lexed middle to the reusable tail -/

def newToksOf (L R : List Token) : List Token := L.takeWhile (fun t => !R.contains t)

def tailOf (L R : List Token) : List Token :=
  match (newToksOf L R).getLast? with
  | some l => R.dropWhile (fun t => t.range.lo < l.range.hi)
  | none => R

/-- `R` is the lexing of a suffix `b` of `w` at its true position: the tokens of `L` up to the
    first one that also occurs in `R`, followed by `R` from there on, are exactly `L`. -/
theorem stitch (w1 b : List Char) (r : Nat) :
    newToksOf (lexL (w1 ++ b) r) (lexL b (r + utf8Len w1)) ++
      tailOf (lexL (w1 ++ b) r) (lexL b (r + utf8Len w1)) = lexL (w1 ++ b) r := by
  generalize hL : lexL (w1 ++ b) r = L
  generalize hR : lexL b (r + utf8Len w1) = R
  have hRsorted : R.Pairwise (fun a b => a.range.lo < b.range.lo) := by rw [← hR]; exact lexL_lo_sorted _ _
  have hLsorted : L.Pairwise (fun a b => a.range.hi ≤ b.range.lo) := by rw [← hL]; exact lexL_sorted _ _
  rcases takeWhile_cases (fun t => !R.contains t) L with ⟨h1, h2⟩ | ⟨L1, x, L2, e, h1, hx, h4⟩
  · -- no token of L occurs in R
    have hnew : newToksOf L R = L := h1
    suffices htail : tailOf L R = [] by rw [hnew, htail, List.append_nil]
    unfold tailOf
    rw [hnew]
    cases hlast : L.getLast? with
    | none =>
      have : L = [] := List.getLast?_eq_none_iff.mp hlast
      subst this
      have := pre_empty w1 b r hL
      rw [hR] at this
      exact this
    | some last =>
      apply dropWhile_all
      intro y hy
      simp only [decide_eq_true_eq]
      apply Classical.byContradiction
      intro hge
      have hge : last.range.hi ≤ y.range.lo := by omega
      obtain ⟨L', eL⟩ : ∃ L', L = L' ++ [last] := by
        obtain ⟨ys, hys⟩ := List.getLast?_eq_some_iff.mp hlast
        exact ⟨ys, hys⟩
      obtain ⟨Ra, Rb, eR⟩ := List.append_of_mem hy
      obtain ⟨u3, v3, s3, p3, l3⟩ := cut_at_start b (r + utf8Len w1) Ra y Rb (by rw [hR, eR])
      obtain ⟨u4, v4, s4, p4, l4⟩ := cut_at_end (w1 ++ b) r L' last [] (by rw [hL, eL])
      have hsp : u4 ++ v4 = (w1 ++ u3) ++ v3 := by rw [← s4, s3, List.append_assoc]
      obtain ⟨m, hm1, hm2⟩ := split_prefix hsp (by rw [utf8Len_append]; omega)
      have := pre_empty m v3 last.range.hi (by rw [← hm2]; exact l4)
      have hpos : last.range.hi + utf8Len m = y.range.lo := by
        have : utf8Len (w1 ++ u3) = utf8Len (u4 ++ m) := by rw [hm1]
        rw [utf8Len_append, utf8Len_append] at this
        omega
      rw [hpos, l3] at this
      cases this
  · -- x is the first token of L that occurs in R
    have hnew : newToksOf L R = L1 := h4
    have hxR : x ∈ R := by
      have : R.contains x = true := by simpa using hx
      exact List.contains_iff_mem.mp this
    obtain ⟨R1, R2, eR⟩ := List.append_of_mem hxR
    -- the lexings continue identically from x on
    obtain ⟨u1, v1, s1, p1, l1⟩ := cut_at_start (w1 ++ b) r L1 x L2 (by rw [hL, e])
    obtain ⟨u2, v2, s2, p2, l2⟩ := cut_at_start b (r + utf8Len w1) R1 x R2 (by rw [hR, eR])
    have hv : v1 = v2 := by
      have hsp : u1 ++ v1 = (w1 ++ u2) ++ v2 := by rw [← s1, s2, List.append_assoc]
      exact (split_unique hsp (by rw [utf8Len_append]; omega)).2
    have hL2 : L2 = R2 := by
      rw [hv, l2] at l1
      simpa using l1.symm
    suffices htail : tailOf L R = x :: L2 by rw [hnew, htail, e]
    unfold tailOf
    rw [hnew]
    -- every token of R before x starts before x
    have hR1lt : ∀ y ∈ R1, y.range.lo < x.range.lo := by
      rw [eR, List.pairwise_append] at hRsorted
      intro y hy
      exact hRsorted.2.2 y hy x (by simp)
    cases hlast : L1.getLast? with
    | none =>
      have : L1 = [] := List.getLast?_eq_none_iff.mp hlast
      subst this
      -- R must start with x
      cases R1 with
      | nil => simp [eR, hL2]
      | cons y R1' =>
        exfalso
        have hy := hR1lt y (by simp)
        have hylo : r + utf8Len w1 ≤ y.range.lo := lexL_lo b _ y (by rw [hR, eR]; simp)
        have := pre_first w1 b r x L2 (by rw [hL, e]; simp) (by omega)
        rw [hR, eR] at this
        simp only [List.cons_append, List.cons.injEq] at this
        rw [this.1] at hy
        omega
    | some last =>
      obtain ⟨L1', eL1⟩ : ∃ L1', L1 = L1' ++ [last] := List.getLast?_eq_some_iff.mp hlast
      have hlastx : last.range.hi ≤ x.range.lo := by
        rw [e, eL1, List.pairwise_append] at hLsorted
        exact hLsorted.2.2 last (by simp) x (by simp)
      rw [eR, ← hL2]
      apply dropWhile_append_of
      · intro y hy
        simp only [decide_eq_true_eq]
        apply Classical.byContradiction
        intro hge
        have hge : last.range.hi ≤ y.range.lo := by omega
        have hylt := hR1lt y hy
        obtain ⟨Ra, Rb, eR1⟩ := List.append_of_mem hy
        obtain ⟨u3, v3, s3, p3, l3⟩ :=
          cut_at_start b (r + utf8Len w1) Ra y (Rb ++ x :: R2) (by rw [hR, eR, eR1]; simp)
        obtain ⟨u4, v4, s4, p4, l4⟩ :=
          cut_at_end (w1 ++ b) r L1' last (x :: L2) (by rw [hL, e, eL1]; simp)
        have hsp : u4 ++ v4 = (w1 ++ u3) ++ v3 := by rw [← s4, s3, List.append_assoc]
        obtain ⟨m, hm1, hm2⟩ := split_prefix hsp (by rw [utf8Len_append]; omega)
        have hpos : last.range.hi + utf8Len m = y.range.lo := by
          have : utf8Len (w1 ++ u3) = utf8Len (u4 ++ m) := by rw [hm1]
          rw [utf8Len_append, utf8Len_append] at this
          omega
        have := pre_first m v3 last.range.hi x L2 (by rw [← hm2]; exact l4) (by omega)
        rw [hpos, l3] at this
        simp only [List.cons.injEq] at this
        rw [this.1] at hylt
        omega
      · simp only [decide_eq_false_iff_not, Nat.not_lt]
        exact hlastx

/-! ### `lexer::update` -/

theorem splitLast_snoc {α} : ∀ (l : List α) (x : α), splitLast (l ++ [x]) = some (l, x)
  | [], x => rfl
  | [a], x => rfl
  | a :: b :: bs, x => by
    have ih := splitLast_snoc (b :: bs) x
    simp only [List.cons_append] at ih ⊢
    simp only [splitLast, ih, Option.map]

theorem dropBytes_append : ∀ (a b : List Char), dropBytes (utf8Len a) (a ++ b) = some b
  | [], b => by simp [dropBytes]
  | c :: cs, b => by
    have hpos := utf8Size_pos c
    obtain ⟨n, hn⟩ : ∃ n, utf8Len (c :: cs) = n + 1 := ⟨utf8Len (c :: cs) - 1, by simp only [utf8Len_cons]; omega⟩
    rw [hn]
    simp only [List.cons_append, dropBytes]
    have hle : c.utf8Size ≤ n + 1 := by simp only [utf8Len_cons] at hn; omega
    simp only [hle, if_true]
    have : n + 1 - c.utf8Size = utf8Len cs := by simp only [utf8Len_cons] at hn; omega
    rw [this]
    exact dropBytes_append cs b

theorem shiftToken_eof {p q : Nat} {d : Int} (h : (q : Int) = p + d) :
    shiftToken? (eofToken p) d = some (eofToken q) := by
  have h0 : shiftInt p d = some q := by simpa using shiftInt_ok (k := 0) h
  simp [shiftToken?, shiftRange?, eofToken, h0, shiftErrs?]

/-- **`lexer::update` equals `lexer::lex` of the new text** (given look-ahead locality):
    for every old text `pre ++ mid ++ post`, every replacement `ins` of `mid`, updating the
    tokens of the old text yields exactly the tokens of `pre ++ ins ++ post`. -/
theorem tailOf_suffix (L R : List Token) : tailOf L R <:+ R := by
  unfold tailOf
  split
  · exact List.dropWhile_suffix _
  · exact List.suffix_refl R

/-- The edit's length difference, as `lexer::update` computes it. -/
def editDelta (pre mid ins : List Char) : Int :=
  (utf8Len ins : Int) - ((utf8Len pre + utf8Len mid - utf8Len pre : Nat) : Int)

theorem lexUpdate_spec (hloc : LexLocal) (pre mid ins post : List Char) :
    ∃ (H X1 X2 R newToks tail : List Token),
      lexL (pre ++ mid ++ post) 0 = H ++ X1 ++ X2 ∧
      lexL (pre ++ ins ++ post) 0 = H ++ newToks ++ tail ∧
      tail <:+ R ∧
      X2.mapM (fun t => shiftToken? t (editDelta pre mid ins)) = some R ∧
      lexUpdate (pre ++ ins ++ post)
        (lexL (pre ++ mid ++ post) 0 ++ [eofToken (utf8Len (pre ++ mid ++ post))])
        (utf8Len pre) (utf8Len pre + utf8Len mid) (utf8Len ins) =
      .ok (lexL (pre ++ ins ++ post) 0 ++ [eofToken (utf8Len (pre ++ ins ++ post))],
           ⟨H.length, (lexL (pre ++ mid ++ post) 0).length - tail.length, newToks.length⟩) := by
  obtain ⟨H, a1, g, ha, hO, hN, hHun, hXaff, hH0, hHlast⟩ :=
    head_stable hloc (pre ++ (mid ++ post)) 0 pre (mid ++ post) (ins ++ post) rfl
  simp only [Nat.zero_add] at hO hN hHun hXaff hHlast
  generalize hX : lexL (g ++ (mid ++ post)) (utf8Len a1) = X at hO hXaff
  generalize hL : lexL (g ++ (ins ++ post)) (utf8Len a1) = L at hN
  -- the affected old tokens: those starting before the end of the change, then the reusable ones
  have hXs : X.Pairwise (fun a b => a.range.lo < b.range.lo) := by rw [← hX]; exact lexL_lo_sorted _ _
  obtain ⟨X1, X2, eX, hX1, hX2⟩ :=
    sorted_split (fun a b : Token => a.range.lo < b.range.lo)
      (fun t => decide (t.range.lo < utf8Len pre + utf8Len mid))
      (by intro a b hab ha; simp only [decide_eq_false_iff_not, Nat.not_lt] at ha ⊢; omega) X hXs
  -- the shifted reusable tokens are the lexing of a suffix of `post` at its new position
  let d : Int := (utf8Len ins : Int) - ((utf8Len pre + utf8Len mid - utf8Len pre : Nat) : Int)
  have hR : ∃ m' bb, post = m' ++ bb ∧
      X2.mapM (fun t => shiftToken? t d) = some (lexL bb (utf8Len (pre ++ ins ++ m'))) := by
    cases X2 with
    | nil => exact ⟨post, [], by simp, by simp⟩
    | cons x X2' =>
      have hxlo : utf8Len pre + utf8Len mid ≤ x.range.lo := by
        have := hX2 x (by simp)
        simpa using this
      obtain ⟨a, b, s1, p1, l1⟩ := cut_at_start (pre ++ (mid ++ post)) 0 (H ++ X1) x X2'
        (by rw [hO, eX]; simp)
      have hsp : (pre ++ mid) ++ post = a ++ b := by rw [← s1]; simp
      obtain ⟨m', hm1, hm2⟩ := split_prefix hsp (by rw [utf8Len_append]; omega)
      refine ⟨m', b, hm2, ?_⟩
      rw [← l1]
      apply lexL_shift
      have : x.range.lo = utf8Len pre + utf8Len mid + utf8Len m' := by
        rw [← p1, hm1, utf8Len_append, utf8Len_append]; omega
      simp only [utf8Len_append, d]
      omega
  obtain ⟨m', bb, hpost, hRe⟩ := hR
  generalize hRdef : lexL bb (utf8Len (pre ++ ins ++ m')) = R at hRe
  -- the pieces of the algorithm
  have e1 := splitLast_snoc (lexL (pre ++ mid ++ post) 0) (eofToken (utf8Len (pre ++ mid ++ post)))
  have e3 : shiftToken? (eofToken (utf8Len (pre ++ mid ++ post))) d =
      some (eofToken (utf8Len (pre ++ ins ++ post))) := by
    apply shiftToken_eof
    simp only [utf8Len_append, d]
    omega
  have hOO : lexL (pre ++ mid ++ post) 0 = H ++ X := by rw [List.append_assoc]; exact hO
  have e4 : (lexL (pre ++ mid ++ post) 0).filter (fun t => !t.isAffectedBy (utf8Len pre)) = H := by
    rw [hOO]
    exact filter_append_of _ H X (fun y hy => by simp [hHun y hy]) (fun y hy => by simp [hXaff y hy])
  have e5 : (lexL (pre ++ mid ++ post) 0).filter (fun t => t.isAffectedBy (utf8Len pre)) = X := by
    rw [hOO]
    exact filter_append_of' _ H X (fun y hy => hHun y hy) (fun y hy => hXaff y hy)
  have e6 : X.filter (fun t => !decide (t.range.lo < utf8Len pre + utf8Len mid)) = X2 := by
    rw [eX]
    exact filter_append_of' _ X1 X2 (fun y hy => by simp [hX1 y hy]) (fun y hy => by simp [hX2 y hy])
  have e9 : dropBytes (utf8Len a1) (pre ++ ins ++ post) = some (g ++ (ins ++ post)) := by
    have : pre ++ ins ++ post = a1 ++ (g ++ (ins ++ post)) := by rw [ha]; simp
    rw [this]; exact dropBytes_append _ _
  have e10 : lexGo (g ++ (ins ++ post)) (utf8Len a1) 0 = some L := by rw [lexGo_eq_lexL, hL]
  -- stitching
  have hst : newToksOf L R ++ tailOf L R = L := by
    have hw : g ++ (ins ++ post) = (g ++ ins ++ m') ++ bb := by rw [hpost]; simp
    have hq : utf8Len (pre ++ ins ++ m') = utf8Len a1 + utf8Len (g ++ ins ++ m') := by
      rw [ha]; simp only [utf8Len_append]; omega
    have := stitch (g ++ ins ++ m') bb (utf8Len a1)
    rw [← hw, hL, ← hq, hRdef] at this
    exact this
  have hNN : lexL (pre ++ ins ++ post) 0 = H ++ L := by rw [List.append_assoc]; exact hN
  refine ⟨H, X1, X2, R, newToksOf L R, tailOf L R, by rw [hOO, eX, List.append_assoc],
    by rw [hNN, List.append_assoc, hst], tailOf_suffix L R, hRe, ?_⟩
  unfold lexUpdate
  simp only [e1]
  have e2 : ((eofToken (utf8Len (pre ++ mid ++ post))).ty != TokenType.Eof) = false := by
    simp [eofToken]
  simp only [e2, Bool.false_eq_true, if_false]
  show (match shiftToken? (eofToken (utf8Len (pre ++ mid ++ post))) d with
    | none => _
    | some eof' => _) = _
  rw [e3]
  simp only [e4, e5, e6]
  show (match X2.mapM (fun t => shiftToken? t d) with
    | none => _
    | some reusable => _) = _
  rw [hRe]
  have fin : ∀ rs, rs = utf8Len a1 →
      (match dropBytes rs (pre ++ ins ++ post) with
        | none => (Except.error { site := "slice" } : Except Panic (List Token × TokenChange))
        | some suffix =>
          match lexGo suffix rs 0 with
          | none => Except.error { site := "expect:Lexing must not fail" }
          | some lexed =>
            Except.ok
              ((H ++ List.takeWhile (fun t : Token => !R.contains t) lexed ++
                    match (List.takeWhile (fun t : Token => !R.contains t) lexed).getLast? with
                    | some l => List.dropWhile (fun t : Token => decide (t.range.lo < l.range.hi)) R
                    | none => R) ++
                  [eofToken (utf8Len (pre ++ ins ++ post))],
                { delLo := H.length,
                  delHi :=
                    (lexL (pre ++ mid ++ post) 0).length -
                      (match (List.takeWhile (fun t : Token => !R.contains t) lexed).getLast? with
                        | some l => List.dropWhile (fun t : Token => decide (t.range.lo < l.range.hi)) R
                        | none => R).length,
                  insLen := (List.takeWhile (fun t : Token => !R.contains t) lexed).length })) =
      Except.ok
        (H ++ L ++ [eofToken (utf8Len (pre ++ ins ++ post))],
          { delLo := H.length, delHi := (lexL (pre ++ mid ++ post) 0).length - (tailOf L R).length,
            insLen := (newToksOf L R).length }) := by
    intro rs hrs
    subst hrs
    simp only [e9, e10]
    show Except.ok (H ++ newToksOf L R ++ tailOf L R ++ [eofToken (utf8Len (pre ++ ins ++ post))], _) = _
    rw [List.append_assoc H, hst]
    rfl
  rw [hNN]
  cases hl : H.getLast? with
  | none =>
    have : H = [] := List.getLast?_eq_none_iff.mp hl
    exact fin 0 (by rw [hH0 this]; rfl)
  | some t => exact fin t.range.hi (hHlast t hl)

/-- **`lexer::update` equals `lexer::lex` of the new text** (given look-ahead locality). -/
theorem lexUpdate_eq_lex (hloc : LexLocal) (pre mid ins post : List Char) :
    ∃ ch, lexUpdate (pre ++ ins ++ post)
        (lexL (pre ++ mid ++ post) 0 ++ [eofToken (utf8Len (pre ++ mid ++ post))])
        (utf8Len pre) (utf8Len pre + utf8Len mid) (utf8Len ins) =
      .ok (lexL (pre ++ ins ++ post) 0 ++ [eofToken (utf8Len (pre ++ ins ++ post))], ch) := by
  obtain ⟨H, X1, X2, R, nt, tl, _, _, _, _, h⟩ := lexUpdate_spec hloc pre mid ins post
  exact ⟨_, h⟩

theorem mapM_option_drop {α β} (f : α → Option β) : ∀ (l : List α) (r : List β) (k : Nat),
    l.mapM f = some r → (l.drop k).mapM f = some (r.drop k)
  | l, r, 0, h => by simpa using h
  | [], r, k + 1, h => by
    simp at h; subst h; simp
  | x :: xs, r, k + 1, h => by
    rw [List.mapM_cons] at h
    cases hx : f x with
    | none => simp [hx] at h
    | some y =>
      cases hxs : xs.mapM f with
      | none => simp [hx, hxs] at h
      | some ys =>
        simp [hx, hxs] at h
        subst h
        simpa using mapM_option_drop f xs ys k hxs

theorem mapM_option_length {α β} (f : α → Option β) : ∀ (l : List α) (r : List β),
    l.mapM f = some r → r.length = l.length
  | [], r, h => by simp at h; subst h; rfl
  | x :: xs, r, h => by
    rw [List.mapM_cons] at h
    cases hx : f x with
    | none => simp [hx] at h
    | some y =>
      cases hxs : xs.mapM f with
      | none => simp [hx, hxs] at h
      | some ys =>
        simp [hx, hxs] at h
        subst h
        simp [mapM_option_length f xs ys hxs]

/-- **The change window is truthful**: the tokens before `delLo` are the old ones untouched; the
    old tokens from `delHi` on, shifted by the length difference of the edit, are exactly the new
    tokens after the `insLen` inserted ones; and the window is well-formed. -/
theorem lexUpdate_window (hloc : LexLocal) (pre mid ins post : List Char) :
    ∃ ch, lexUpdate (pre ++ ins ++ post)
        (lexL (pre ++ mid ++ post) 0 ++ [eofToken (utf8Len (pre ++ mid ++ post))])
        (utf8Len pre) (utf8Len pre + utf8Len mid) (utf8Len ins) =
      .ok (lexL (pre ++ ins ++ post) 0 ++ [eofToken (utf8Len (pre ++ ins ++ post))], ch) ∧
      ch.delLo ≤ ch.delHi ∧ ch.delHi ≤ (lexL (pre ++ mid ++ post) 0).length ∧
      (lexL (pre ++ ins ++ post) 0 ++ [eofToken (utf8Len (pre ++ ins ++ post))]).take ch.delLo =
        (lexL (pre ++ mid ++ post) 0 ++ [eofToken (utf8Len (pre ++ mid ++ post))]).take ch.delLo ∧
      ((lexL (pre ++ mid ++ post) 0 ++ [eofToken (utf8Len (pre ++ mid ++ post))]).drop ch.delHi).mapM
          (fun t => shiftToken? t (editDelta pre mid ins)) =
        some ((lexL (pre ++ ins ++ post) 0 ++ [eofToken (utf8Len (pre ++ ins ++ post))]).drop
          (ch.delLo + ch.insLen)) := by
  obtain ⟨H, X1, X2, R, nt, tl, hO, hN, hsuf, hR, h⟩ := lexUpdate_spec hloc pre mid ins post
  refine ⟨_, h, ?_, ?_, ?_, ?_⟩
  · -- delLo ≤ delHi
    have hlenR := mapM_option_length _ _ _ hR
    have hl := hsuf.length_le
    simp only [hO, List.length_append]
    omega
  · simp only; omega
  · rw [hO, hN]
    simp only [List.append_assoc]
    rw [List.take_left' rfl, List.take_left' rfl]
  · have hlenR := mapM_option_length _ _ _ hR
    have hl := hsuf.length_le
    have htl : tl = R.drop (R.length - tl.length) := List.suffix_iff_eq_drop.mp hsuf
    -- the old tokens from delHi on are the last |tl| reusable ones, then Eof
    have e1 : (lexL (pre ++ mid ++ post) 0 ++ [eofToken (utf8Len (pre ++ mid ++ post))]).drop
        ((lexL (pre ++ mid ++ post) 0).length - tl.length) =
        X2.drop (X2.length - tl.length) ++ [eofToken (utf8Len (pre ++ mid ++ post))] := by
      rw [List.drop_append_of_le_length (by omega)]
      congr 1
      rw [hO]
      have : (H ++ X1 ++ X2).length - tl.length = (H ++ X1).length + (X2.length - tl.length) := by
        simp only [List.length_append]; omega
      rw [this, List.drop_length_add_append]
    have e2 : (lexL (pre ++ ins ++ post) 0 ++ [eofToken (utf8Len (pre ++ ins ++ post))]).drop
        (H.length + nt.length) = tl ++ [eofToken (utf8Len (pre ++ ins ++ post))] := by
      rw [hN]
      have : H ++ nt ++ tl ++ [eofToken (utf8Len (pre ++ ins ++ post))] =
          (H ++ nt) ++ (tl ++ [eofToken (utf8Len (pre ++ ins ++ post))]) := by simp
      rw [this, List.drop_left' (by simp)]
    show List.mapM _ (List.drop ((lexL (pre ++ mid ++ post) 0).length - tl.length) _) =
      some (List.drop (H.length + nt.length) _)
    rw [e1, e2, List.mapM_append]
    have h1 := mapM_option_drop _ X2 R (X2.length - tl.length) hR
    rw [h1]
    have h2 : shiftToken? (eofToken (utf8Len (pre ++ mid ++ post))) (editDelta pre mid ins) =
        some (eofToken (utf8Len (pre ++ ins ++ post))) := by
      apply shiftToken_eof
      simp only [utf8Len_append, editDelta]
      omega
    simp only [List.mapM_cons, List.mapM_nil, h2]
    rw [← hlenR, ← htl]
    rfl

end Spl
