/-
  Infrastructure for C07 (`lexer::update` = `lexer::lex` of the new text):
  a total view `lexL` of the token loop, its induction principle, cuts (token boundaries),
  re-offsetting, and stability of the unaffected head under a change of the text behind it.
-/
import SplVerif.Lemmas.Lex

namespace Spl

/-! ### the token loop as a total function -/

def lexL (s : List Char) (off : Nat) : List Token := (lexGo s off 0).getD []

theorem lexGo_eq_lexL (s : List Char) (off : Nat) : lexGo s off 0 = some (lexL s off) := by
  obtain ⟨ts, h⟩ := lexGo_total s off 0
  simp [lexL, h]

@[simp] theorem lexL_nil (off : Nat) : lexL [] off = [] := by simp [lexL, lexGo]

theorem lexL_space {c : Char} {cs : List Char} {off : Nat} (h : isSpace c = true) :
    lexL (c :: cs) off = lexL cs (off + c.utf8Size) := by
  simp [lexL, lexGo, h]

theorem lexL_token {c : Char} {cs : List Char} {off : Nat} {o : LexOut}
    (hsp : isSpace c = false) (ho : lexOne (c :: cs) = some o) :
    lexL (c :: cs) off =
      mkToken o (c :: cs) off :: lexL ((c :: cs).drop o.n) (off + utf8Len ((c :: cs).take o.n)) := by
  have h := lexGo_token (off := off) hsp ho
  rw [lexGo_eq_lexL, lexGo_eq_lexL] at h
  simpa using h

/-- Induction along the token loop. -/
theorem lexL_induct {P : List Char → Prop} (hnil : P [])
    (hsp : ∀ c cs, isSpace c = true → P cs → P (c :: cs))
    (htok : ∀ c cs o, isSpace c = false → lexOne (c :: cs) = some o →
      P ((c :: cs).drop o.n) → P (c :: cs)) : ∀ s, P s
  | [] => hnil
  | c :: cs =>
    if h : isSpace c = true then hsp c cs h (lexL_induct hnil hsp htok cs)
    else
      match ho : lexOne (c :: cs) with
      | some o =>
        htok c cs o (by simpa using h) ho (lexL_induct hnil hsp htok ((c :: cs).drop o.n))
      | none => by
        obtain ⟨o, h2⟩ := lexOne_total c cs
        rw [ho] at h2; cases h2
termination_by s => s.length
decreasing_by
  · simp
  · have := (lexOne_ok ho).pos
    simp only [List.length_drop, List.length_cons]
    omega

/-! ### splits of a text are determined by their byte position -/

theorem split_prefix {a b a' b' : List Char} (h : a ++ b = a' ++ b') (hl : utf8Len a ≤ utf8Len a') :
    ∃ m, a' = a ++ m ∧ b = m ++ b' := by
  induction a generalizing a' with
  | nil => exact ⟨a', by simp, by simpa using h⟩
  | cons c cs ih =>
    cases a' with
    | nil =>
      have := utf8Size_pos c
      simp at hl; omega
    | cons c' cs' =>
      simp only [List.cons_append, List.cons.injEq] at h
      obtain ⟨hc, ht⟩ := h
      subst hc
      simp only [utf8Len_cons] at hl
      obtain ⟨m, h1, h2⟩ := ih ht (by omega)
      exact ⟨m, by simp [h1], h2⟩

theorem utf8Len_eq_zero {m : List Char} (h : utf8Len m = 0) : m = [] := by
  cases m with
  | nil => rfl
  | cons c cs => have := utf8Size_pos c; simp at h; omega

theorem split_unique {a b a' b' : List Char} (h : a ++ b = a' ++ b') (hl : utf8Len a = utf8Len a') :
    a = a' ∧ b = b' := by
  obtain ⟨m, h1, h2⟩ := split_prefix h (by omega)
  have : utf8Len m = 0 := by rw [h1, utf8Len_append] at hl; omega
  have := utf8Len_eq_zero this
  subst this
  simp at h1 h2
  exact ⟨h1.symm, h2⟩

/-! ### shape of the produced tokens -/

theorem mkToken_lo (o : LexOut) (s : List Char) (off : Nat) : (mkToken o s off).range.lo = off := rfl
theorem mkToken_hi (o : LexOut) (s : List Char) (off : Nat) :
    (mkToken o s off).range.hi = off + utf8Len (s.take o.n) := rfl

theorem lexL_lo (s : List Char) (off : Nat) : ∀ t ∈ lexL s off, off ≤ t.range.lo :=
  lexGo_lo (lexGo_eq_lexL s off)

/-- every token is non-empty and lies inside the text -/
theorem lexL_bounds : ∀ (s : List Char) (off : Nat), ∀ t ∈ lexL s off,
    t.range.lo < t.range.hi ∧ t.range.hi ≤ off + utf8Len s := by
  intro s
  induction s using lexL_induct with
  | hnil => intro off t ht; simp at ht
  | hsp c cs hc ih =>
    intro off t ht
    rw [lexL_space hc] at ht
    have := ih _ t ht
    simp only [utf8Len_cons]; omega
  | htok c cs o hc ho ih =>
    intro off t ht
    rw [lexL_token hc ho] at ht
    have hok := lexOne_ok ho
    have hpos := utf8Len_take_pos hok.pos hok.le
    have hsum := utf8Len_take_drop (c :: cs) o.n
    simp only [List.mem_cons] at ht
    rcases ht with rfl | ht
    · simp only [mkToken_lo, mkToken_hi]; omega
    · have := ih _ t ht
      omega

/-- tokens are ordered and do not overlap -/
theorem lexL_sorted : ∀ (s : List Char) (off : Nat),
    (lexL s off).Pairwise (fun a b => a.range.hi ≤ b.range.lo) := by
  intro s
  induction s using lexL_induct with
  | hnil => intro off; simp
  | hsp c cs hc ih => intro off; rw [lexL_space hc]; exact ih _
  | htok c cs o hc ho ih =>
    intro off
    rw [lexL_token hc ho]
    refine List.Pairwise.cons ?_ (ih _)
    intro t ht
    have := lexL_lo _ _ t ht
    simpa [mkToken_hi] using this

/-! ### cuts: lexing restarts identically at every token start and every token end -/

theorem cut_at_start : ∀ (s : List Char) (off : Nat) (T1 : List Token) (t : Token) (T2 : List Token),
    lexL s off = T1 ++ t :: T2 →
    ∃ a b, s = a ++ b ∧ off + utf8Len a = t.range.lo ∧ lexL b t.range.lo = t :: T2 := by
  intro s
  induction s using lexL_induct with
  | hnil => intro off T1 t T2 h; simp at h
  | hsp c cs hc ih =>
    intro off T1 t T2 h
    rw [lexL_space hc] at h
    obtain ⟨a, b, h1, h2, h3⟩ := ih _ T1 t T2 h
    exact ⟨c :: a, b, by simp [h1], by simp only [utf8Len_cons]; omega, h3⟩
  | htok c cs o hc ho ih =>
    intro off T1 t T2 h
    have hl := lexL_token (off := off) hc ho
    cases T1 with
    | nil =>
      refine ⟨[], c :: cs, rfl, ?_, ?_⟩
      · rw [hl] at h
        simp only [List.nil_append, List.cons.injEq] at h
        rw [← h.1]; simp [mkToken_lo]
      · rw [hl] at h
        simp only [List.nil_append, List.cons.injEq] at h
        have : t.range.lo = off := by rw [← h.1]; rfl
        rw [this, hl]
        simp [h.1, h.2]
    | cons x T1' =>
      rw [hl] at h
      simp only [List.cons_append, List.cons.injEq] at h
      obtain ⟨a, b, h1, h2, h3⟩ := ih _ T1' t T2 h.2
      refine ⟨(c :: cs).take o.n ++ a, b, ?_, ?_, h3⟩
      · rw [List.append_assoc, ← h1, List.take_append_drop]
      · rw [utf8Len_append]; omega

theorem cut_at_end : ∀ (s : List Char) (off : Nat) (T1 : List Token) (t : Token) (T2 : List Token),
    lexL s off = T1 ++ t :: T2 →
    ∃ a b, s = a ++ b ∧ off + utf8Len a = t.range.hi ∧ lexL b t.range.hi = T2 := by
  intro s
  induction s using lexL_induct with
  | hnil => intro off T1 t T2 h; simp at h
  | hsp c cs hc ih =>
    intro off T1 t T2 h
    rw [lexL_space hc] at h
    obtain ⟨a, b, h1, h2, h3⟩ := ih _ T1 t T2 h
    exact ⟨c :: a, b, by simp [h1], by simp only [utf8Len_cons]; omega, h3⟩
  | htok c cs o hc ho ih =>
    intro off T1 t T2 h
    have hl := lexL_token (off := off) hc ho
    cases T1 with
    | nil =>
      rw [hl] at h
      simp only [List.nil_append, List.cons.injEq] at h
      refine ⟨(c :: cs).take o.n, (c :: cs).drop o.n, (List.take_append_drop _ _).symm, ?_, ?_⟩
      · rw [← h.1]; rfl
      · have : t.range.hi = off + utf8Len ((c :: cs).take o.n) := by rw [← h.1]; rfl
        rw [this]; exact h.2
    | cons x T1' =>
      rw [hl] at h
      simp only [List.cons_append, List.cons.injEq] at h
      obtain ⟨a, b, h1, h2, h3⟩ := ih _ T1' t T2 h.2
      refine ⟨(c :: cs).take o.n ++ a, b, ?_, ?_, h3⟩
      · rw [List.append_assoc, ← h1, List.take_append_drop]
      · rw [utf8Len_append]; omega

/-- Lexing from any position of the whitespace run in front of the first token gives the same
    tokens. -/
theorem pre_first : ∀ (u v : List Char) (off : Nat) (h : Token) (T : List Token),
    lexL (u ++ v) off = h :: T → off + utf8Len u ≤ h.range.lo →
    lexL v (off + utf8Len u) = h :: T := by
  intro u
  induction u with
  | nil => intro v off h T hl _; simpa using hl
  | cons c u' ih =>
    intro v off h T hl hle
    by_cases hc : isSpace c = true
    · rw [List.cons_append, lexL_space hc] at hl
      have := ih v _ h T hl (by simp only [utf8Len_cons] at hle; omega)
      simp only [utf8Len_cons]
      rw [← Nat.add_assoc]; exact this
    · have hc' : isSpace c = false := by simpa using hc
      obtain ⟨o, ho⟩ := lexOne_total c (u' ++ v)
      rw [List.cons_append, lexL_token hc' ho] at hl
      simp only [List.cons.injEq] at hl
      have : h.range.lo = off := by rw [← hl.1]; rfl
      have := utf8Size_pos c
      simp only [utf8Len_cons] at hle
      omega

theorem pre_empty : ∀ (u v : List Char) (off : Nat),
    lexL (u ++ v) off = [] → lexL v (off + utf8Len u) = [] := by
  intro u
  induction u with
  | nil => intro v off hl; simpa using hl
  | cons c u' ih =>
    intro v off hl
    by_cases hc : isSpace c = true
    · rw [List.cons_append, lexL_space hc] at hl
      have := ih v _ hl
      simp only [utf8Len_cons]
      rw [← Nat.add_assoc]; exact this
    · have hc' : isSpace c = false := by simpa using hc
      obtain ⟨o, ho⟩ := lexOne_total c (u' ++ v)
      rw [List.cons_append, lexL_token hc' ho] at hl
      cases hl

/-! ### re-offsetting: `shift_token` of a lexing is the lexing at the shifted offset -/

theorem shiftInt_ok {p q k : Nat} {d : Int} (h : (q : Int) = p + d) : shiftInt (p + k) d = some (q + k) := by
  simp only [shiftInt]
  have h1 : ¬ (((p + k : Nat) : Int) + d < 0) := by omega
  simp only [h1, if_false, Option.some.injEq]
  omega

theorem mapM_option_eq_map {α β} (f : α → Option β) (g : α → β) :
    ∀ (l : List α), (∀ x ∈ l, f x = some (g x)) → l.mapM f = some (l.map g)
  | [], _ => rfl
  | x :: xs, h => by
    have hx := h x (by simp)
    have ih := mapM_option_eq_map f g xs (fun y hy => h y (by simp [hy]))
    simp [List.mapM_cons, hx, ih]

theorem shiftToken_mkToken (o : LexOut) (s : List Char) {p q : Nat} {d : Int} (h : (q : Int) = p + d) :
    shiftToken? (mkToken o s p) d = some (mkToken o s q) := by
  simp only [shiftToken?, shiftRange?, mkToken]
  have h0 : shiftInt p d = some q := by simpa using shiftInt_ok (k := 0) h
  have h1 := shiftInt_ok (k := utf8Len (s.take o.n)) h
  have he : shiftErrs? (o.errs.map (·.shift p)) d = some (o.errs.map (·.shift q)) := by
    unfold shiftErrs?
    rw [List.mapM_map] 
    rw [mapM_option_eq_map _ (fun e => e.shift q)]
    intro e _
    simp only [Function.comp, SplError.shift, Range.shift, shiftRange?]
    have e1 : shiftInt (e.range.lo + p) d = some (e.range.lo + q) := by
      rw [Nat.add_comm e.range.lo p, Nat.add_comm e.range.lo q]; exact shiftInt_ok h
    have e2 : shiftInt (e.range.hi + p) d = some (e.range.hi + q) := by
      rw [Nat.add_comm e.range.hi p, Nat.add_comm e.range.hi q]; exact shiftInt_ok h
    simp [e1, e2]
  simp [h0, h1, he]

theorem lexL_shift : ∀ (b : List Char) (p q : Nat) (d : Int), (q : Int) = p + d →
    (lexL b p).mapM (fun t => shiftToken? t d) = some (lexL b q) := by
  intro b
  induction b using lexL_induct with
  | hnil => intro p q d _; simp
  | hsp c cs hc ih =>
    intro p q d h
    rw [lexL_space hc, lexL_space hc]
    exact ih _ _ d (by omega)
  | htok c cs o hc ho ih =>
    intro p q d h
    rw [lexL_token hc ho, lexL_token hc ho]
    have h2 := ih (p + utf8Len ((c :: cs).take o.n)) (q + utf8Len ((c :: cs).take o.n)) d (by omega)
    simp [List.mapM_cons, shiftToken_mkToken o (c :: cs) h, h2]

end Spl
