/-
  Lemmas for C05: the grammar specification does not care where in the token sequence a run of
  declarations stands.  If the token array `g'` is the array `g` without its first `δ` tokens (and the
  token in front of the cut is not a comment), then deriving from the shifted tokens in `g` gives the
  derivation in `g'` with every range moved by `δ` — nothing else changes.
-/
import SplVerif.Lemmas.Prefix

namespace Spl.Shift
open Spl Spl.Grammar

/-- move a range by `δ` tokens -/
def shI (δ : Nat) (i : AstInfo) : AstInfo := { i with range := ⟨i.range.lo + δ, i.range.hi + δ⟩ }

/-- move the indices of a token list -/
def shT (δ : Nat) (ts : Toks) : Toks := ts.map (fun t => ⟨t.idx + δ, t.ty⟩)

def shS (δ : Nat) (s : Span) : Span := ⟨s.first + δ, s.last + δ⟩

@[simp] theorem shT_nil (δ : Nat) : shT δ [] = [] := rfl
@[simp] theorem shT_cons (δ : Nat) (t : ITok) (r : Toks) : shT δ (t :: r) = ⟨t.idx + δ, t.ty⟩ :: shT δ r := rfl
@[simp] theorem shT_length (δ : Nat) (ts : Toks) : (shT δ ts).length = ts.length := by simp [shT]

/-- what the specification reads from the context, related between the two arrays -/
structure DropOK (g g' : GCtx) (δ : Nat) : Prop where
  lead : ∀ i, lead g (i + δ) = lead g' i + δ
  doc : ∀ i, docOf g (i + δ) = docOf g' i

variable {g g' : GCtx} {δ : Nat}

theorem mkInfo_sh (h : DropOK g g' δ) (a b : Nat) : mkInfo g (a + δ) (b + δ) = shI δ (mkInfo g' a b) := by
  simp only [mkInfo, shI, h.lead]
  congr 2
  omega

theorem mkIdent_sh (h : DropOK g g' δ) (i : Nat) (s : List Char) :
    mkIdent g (i + δ) s = (mkIdent g' i s).mapInfo (shI δ) := by
  simp [mkIdent, Identifier.mapInfo, mkInfo_sh h]

theorem expectK_sh (k : Kind) (ts : Toks) :
    expectK k (shT δ ts) = (expectK k ts).map (fun r => (r.1 + δ, shT δ r.2)) := by
  cases ts with
  | nil => rfl
  | cons t r =>
    simp only [shT_cons, expectK]
    split <;> simp

theorem identTok_sh (ts : Toks) :
    identTok (shT δ ts) = (identTok ts).map (fun r => (r.1 + δ, r.2.1, shT δ r.2.2)) := by
  cases ts with
  | nil => rfl
  | cons t r =>
    obtain ⟨i, ty⟩ := t
    cases ty <;> simp [identTok]

theorem intLitTok_sh (h : DropOK g g' δ) (ts : Toks) :
    intLitTok g (shT δ ts) = (intLitTok g' ts).map (fun r => (r.1.mapInfo (shI δ), r.2.1 + δ, shT δ r.2.2)) := by
  cases ts with
  | nil => rfl
  | cons t r =>
    obtain ⟨i, ty⟩ := t
    cases ty with
    | Int v => cases v <;> simp [intLitTok, IntLiteral.mapInfo, mkInfo_sh h]
    | Hex v => cases v <;> simp [intLitTok, IntLiteral.mapInfo, mkInfo_sh h]
    | Char c => simp only [shT_cons, intLitTok]; split <;> simp [IntLiteral.mapInfo, mkInfo_sh h]
    | _ => simp [intLitTok]

def shE (δ : Nat) (r : Expr × Span × Toks) : Expr × Span × Toks := (r.1.mapInfo (shI δ), shS δ r.2.1, shT δ r.2.2)
def shV (δ : Nat) (r : Var × Span × Toks) : Var × Span × Toks := (r.1.mapInfo (shI δ), shS δ r.2.1, shT δ r.2.2)

structure ESh (g g' : GCtx) (δ F : Nat) : Prop where
  expr : ∀ ts, Grammar.expr g F (shT δ ts) = (Grammar.expr g' F ts).map (shE δ)
  add : ∀ ts, Grammar.add g F (shT δ ts) = (Grammar.add g' F ts).map (shE δ)
  addRest : ∀ l sl ts, Grammar.addRest g F (l.mapInfo (shI δ)) (shS δ sl) (shT δ ts) = (Grammar.addRest g' F l sl ts).map (shE δ)
  mul : ∀ ts, Grammar.mul g F (shT δ ts) = (Grammar.mul g' F ts).map (shE δ)
  mulRest : ∀ l sl ts, Grammar.mulRest g F (l.mapInfo (shI δ)) (shS δ sl) (shT δ ts) = (Grammar.mulRest g' F l sl ts).map (shE δ)
  factor : ∀ ts, Grammar.factor g F (shT δ ts) = (Grammar.factor g' F ts).map (shE δ)
  varAccess : ∀ ts, Grammar.varAccess g F (shT δ ts) = (Grammar.varAccess g' F ts).map (shV δ)
  accesses : ∀ v sv ts, Grammar.accesses g F (v.mapInfo (shI δ)) (shS δ sv) (shT δ ts) = (Grammar.accesses g' F v sv ts).map (shV δ)

theorem esh (h : DropOK g g' δ) : ∀ F, ESh g g' δ F
  | 0 => by
    refine ⟨?_, ?_, ?_, ?_, ?_, ?_, ?_, ?_⟩ <;> intros <;>
      simp [Grammar.expr, Grammar.add, Grammar.addRest, Grammar.mul, Grammar.mulRest, Grammar.factor,
        Grammar.varAccess, Grammar.accesses]
  | F + 1 => by
    have ih := esh h F
    refine ⟨?_, ?_, ?_, ?_, ?_, ?_, ?_, ?_⟩
    · intro ts
      simp only [Grammar.expr, ih.add]
      cases h1 : Grammar.add g' F ts with
      | none => simp
      | some x =>
        obtain ⟨l, sl, r⟩ := x
        simp only [Option.map_some, shE]
        cases r with
        | nil => simp [shE]
        | cons t r1 =>
          simp only [shT_cons]
          cases h2 : relop t.ty.kind with
          | none => simp [shE]
          | some op =>
            simp only [ih.add]
            cases h3 : Grammar.add g' F r1 with
            | none => simp
            | some y =>
              obtain ⟨rh, sr, r2⟩ := y
              simp [shE, shS, Expr.mapInfo, mkInfo_sh h]
    · intro ts
      simp only [Grammar.add, ih.mul]
      cases h1 : Grammar.mul g' F ts with
      | none => simp
      | some x => obtain ⟨l, sl, r⟩ := x; simp only [Option.map_some, shE, ih.addRest]
    · intro l sl ts
      simp only [Grammar.addRest]
      cases ts with
      | nil => simp [shE]
      | cons t r1 =>
        simp only [shT_cons]
        cases h2 : addop t.ty.kind with
        | none => simp [shE]
        | some op =>
          simp only [ih.mul]
          cases h3 : Grammar.mul g' F r1 with
          | none => simp
          | some y =>
            obtain ⟨rh, sr, r2⟩ := y
            simp only [Option.map_some, shE]
            have := ih.addRest (.binary op l rh (mkInfo g' sl.first sr.last)) ⟨sl.first, sr.last⟩ r2
            simp only [Expr.mapInfo, shS, ← mkInfo_sh h] at this
            exact this
    · intro ts
      simp only [Grammar.mul, ih.factor]
      cases h1 : Grammar.factor g' F ts with
      | none => simp
      | some x => obtain ⟨l, sl, r⟩ := x; simp only [Option.map_some, shE, ih.mulRest]
    · intro l sl ts
      simp only [Grammar.mulRest]
      cases ts with
      | nil => simp [shE]
      | cons t r1 =>
        simp only [shT_cons]
        cases h2 : mulop t.ty.kind with
        | none => simp [shE]
        | some op =>
          simp only [ih.factor]
          cases h3 : Grammar.factor g' F r1 with
          | none => simp
          | some y =>
            obtain ⟨rh, sr, r2⟩ := y
            simp only [Option.map_some, shE]
            have := ih.mulRest (.binary op l rh (mkInfo g' sl.first sr.last)) ⟨sl.first, sr.last⟩ r2
            simp only [Expr.mapInfo, shS, ← mkInfo_sh h] at this
            exact this
    · intro ts
      cases ts with
      | nil => simp [Grammar.factor, intLitTok]
      | cons t r =>
        obtain ⟨i, ty⟩ := t
        have hlit : ∀ (hty : ∀ s, ty ≠ .Ident s) (h1 : ty ≠ .Minus) (h2 : ty ≠ .LParen),
            Grammar.factor g (F + 1) (shT δ (⟨i, ty⟩ :: r)) = (Grammar.factor g' (F + 1) (⟨i, ty⟩ :: r)).map (shE δ) := by
          intro hty h1 h2
          have e1 : ∀ (gg : GCtx) (j : Nat) (rr : Toks), Grammar.factor gg (F + 1) (⟨j, ty⟩ :: rr) =
              match intLitTok gg (⟨j, ty⟩ :: rr) with
              | some (l, i, r) => some (.intLit l, ⟨i, i⟩, r)
              | none => none := by
            intro gg j rr
            cases ty <;> simp_all [Grammar.factor] <;> rfl
          simp only [shT_cons, e1]
          have := intLitTok_sh h (⟨i, ty⟩ :: r)
          simp only [shT_cons] at this
          rw [this]
          cases intLitTok g' (⟨i, ty⟩ :: r) with
          | none => simp
          | some x => obtain ⟨l, k, r1⟩ := x; simp [shE, shS, Expr.mapInfo]
        cases ty with
        | Minus =>
          simp only [shT_cons, Grammar.factor, ih.factor]
          cases h1 : Grammar.factor g' F r with
          | none => simp
          | some x => obtain ⟨e, se, r1⟩ := x; simp [shE, shS, Expr.mapInfo, mkInfo_sh h]
        | LParen =>
          simp only [shT_cons, Grammar.factor, ih.expr]
          cases h1 : Grammar.expr g' F r with
          | none => simp
          | some x =>
            obtain ⟨e, se, r1⟩ := x
            simp only [Option.map_some, shE, expectK_sh]
            cases h2 : expectK .RParen r1 with
            | none => simp
            | some y => obtain ⟨j, r2⟩ := y; simp [shE, shS, Expr.mapInfo, mkInfo_sh h]
        | Ident nm =>
          have := ih.varAccess (⟨i, .Ident nm⟩ :: r)
          simp only [shT_cons] at this
          simp only [shT_cons, Grammar.factor, this]
          cases h1 : Grammar.varAccess g' F (⟨i, .Ident nm⟩ :: r) with
          | none => simp
          | some x => obtain ⟨v, sv, r1⟩ := x; simp [shE, shV, Expr.mapInfo]
        | _ => exact hlit (by intro s; simp) (by simp) (by simp)
    · intro ts
      simp only [Grammar.varAccess, identTok_sh]
      cases h1 : identTok ts with
      | none => simp
      | some x =>
        obtain ⟨i, nm, r⟩ := x
        simp only [Option.map_some]
        have := ih.accesses (.named (mkIdent g' i nm)) ⟨i, i⟩ r
        simp only [Var.mapInfo, shS, ← mkIdent_sh h] at this
        exact this
    · intro v sv ts
      cases ts with
      | nil => simp [Grammar.accesses, shV]
      | cons t r =>
        obtain ⟨i, ty⟩ := t
        cases ty with
        | LBracket =>
          simp only [shT_cons, Grammar.accesses, ih.expr]
          cases h1 : Grammar.expr g' F r with
          | none => simp
          | some x =>
            obtain ⟨e, se, r1⟩ := x
            simp only [Option.map_some, shE, expectK_sh]
            cases h2 : expectK .RBracket r1 with
            | none => simp
            | some y =>
              obtain ⟨j, r2⟩ := y
              simp only [Option.map_some]
              have := ih.accesses (.access v (.some e 0) (mkInfo g' sv.first j)) ⟨sv.first, j⟩ r2
              simp only [Var.mapInfo, OptExpr.mapInfo, shS, ← mkInfo_sh h] at this
              exact this
        | _ => simp [Grammar.accesses, shV]

def shTy (δ : Nat) (r : TypeExpr × Span × Toks) : TypeExpr × Span × Toks := (r.1.mapInfo (shI δ), shS δ r.2.1, shT δ r.2.2)

theorem typeExpr_sh (h : DropOK g g' δ) : ∀ (F : Nat) (ts : Toks),
    Grammar.typeExpr g F (shT δ ts) = (Grammar.typeExpr g' F ts).map (shTy δ)
  | 0, ts => by simp [Grammar.typeExpr]
  | F + 1, ts => by
    cases ts with
    | nil => simp [Grammar.typeExpr, identTok]
    | cons t r =>
      obtain ⟨i, ty⟩ := t
      cases ty with
      | Array =>
        simp only [shT_cons, Grammar.typeExpr, expectK_sh]
        cases h1 : expectK .LBracket r with
        | none => simp
        | some x1 =>
          obtain ⟨_, r1⟩ := x1
          simp only [Option.map_some, intLitTok_sh h]
          cases h2 : intLitTok g' r1 with
          | none => simp
          | some x2 =>
            obtain ⟨sz, _, r2⟩ := x2
            simp only [Option.map_some, expectK_sh]
            cases h3 : expectK .RBracket r2 with
            | none => simp
            | some x3 =>
              obtain ⟨_, r3⟩ := x3
              simp only [Option.map_some, expectK_sh]
              cases h4 : expectK .Of r3 with
              | none => simp
              | some x4 =>
                obtain ⟨_, r4⟩ := x4
                simp only [Option.map_some, typeExpr_sh h F]
                cases h5 : Grammar.typeExpr g' F r4 with
                | none => simp
                | some x5 =>
                  obtain ⟨b, sb, r5⟩ := x5
                  simp [shTy, shS, TypeExpr.mapInfo, OptType.mapInfo, mkInfo_sh h]
      | Ident nm => simp [Grammar.typeExpr, identTok, shTy, shS, TypeExpr.mapInfo, mkIdent_sh h]
      | _ => simp [Grammar.typeExpr, identTok]

def shRef {α} (f : α → α) (l : List (Ref α)) : List (Ref α) := l.map (Ref.map f)

theorem exprList_sh (h : DropOK g g' δ) : ∀ (F : Nat) (ts : Toks),
    Grammar.exprList g F (shT δ ts) =
      (Grammar.exprList g' F ts).map (fun r => (r.1.map (Ref.map (·.mapInfo (shI δ))), shT δ r.2))
  | 0, ts => by simp [Grammar.exprList]
  | F + 1, ts => by
    simp only [Grammar.exprList, shT_length, (esh h _).expr]
    cases h1 : Grammar.expr g' (8 * ts.length + 16) ts with
    | none => simp
    | some x =>
      obtain ⟨e, se, r⟩ := x
      simp only [Option.map_some, shE]
      cases r with
      | nil => simp [refAbs, Ref.map]
      | cons t r1 =>
        obtain ⟨i, ty⟩ := t
        cases ty with
        | Comma =>
          simp only [shT_cons, exprList_sh h F]
          cases h2 : Grammar.exprList g' F r1 with
          | none => simp
          | some y => obtain ⟨es, r2⟩ := y; simp [refAbs, Ref.map]
        | _ => simp [refAbs, Ref.map]

def shSt (δ : Nat) (r : Stmt × Span × Toks) : Stmt × Span × Toks := (r.1.mapInfo (shI δ), shS δ r.2.1, shT δ r.2.2)
def shSL (δ : Nat) (r : StmtList × Toks) : StmtList × Toks := (r.1.mapInfo (shI δ), shT δ r.2)

structure SSh (g g' : GCtx) (δ F : Nat) : Prop where
  stmt : ∀ ts, Grammar.stmt g F (shT δ ts) = (Grammar.stmt g' F ts).map (shSt δ)
  stmts : ∀ ts, Grammar.stmts g F (shT δ ts) = (Grammar.stmts g' F ts).map (shSL δ)

theorem ssh (h : DropOK g g' δ) : ∀ F, SSh g g' δ F
  | 0 => by refine ⟨?_, ?_⟩ <;> intros <;> simp [Grammar.stmt, Grammar.stmts]
  | F + 1 => by
    have ih := ssh h F
    refine ⟨?_, ?_⟩
    · intro ts
      cases ts with
      | nil => simp [Grammar.stmt]
      | cons t r =>
        obtain ⟨i, ty⟩ := t
        cases ty with
        | Semic => simp [Grammar.stmt, shSt, shS, Stmt.mapInfo, mkInfo_sh h]
        | If =>
          simp only [shT_cons, Grammar.stmt, expectK_sh]
          cases h1 : expectK .LParen r with
          | none => simp
          | some x1 =>
            obtain ⟨_, r1⟩ := x1
            simp only [Option.map_some, shT_length, (esh h _).expr]
            cases h2 : Grammar.expr g' (8 * r1.length + 16) r1 with
            | none => simp
            | some x2 =>
              obtain ⟨c, _, r2⟩ := x2
              simp only [Option.map_some, shE, expectK_sh]
              cases h3 : expectK .RParen r2 with
              | none => simp
              | some x3 =>
                obtain ⟨_, r3⟩ := x3
                simp only [Option.map_some, ih.stmt]
                cases h4 : Grammar.stmt g' F r3 with
                | none => simp
                | some x4 =>
                  obtain ⟨t, st, r4⟩ := x4
                  simp only [Option.map_some, shSt]
                  have hno : ∀ (hne : ∀ x r5, r4 ≠ ⟨x, .Else⟩ :: r5),
                      (match shT δ r4 with
                        | ⟨_, .Else⟩ :: r5 =>
                          match Grammar.stmt g F r5 with
                          | some (e, se, r6) =>
                            some (Stmt.ifS (some (refAbs (c.mapInfo (shI δ)))) (.some (t.mapInfo (shI δ)) 0) (.some e 0) (mkInfo g (i + δ) se.last), (⟨i + δ, se.last⟩ : Span), r6)
                          | none => none
                        | _ => some (Stmt.ifS (some (refAbs (c.mapInfo (shI δ)))) (.some (t.mapInfo (shI δ)) 0) .none (mkInfo g (i + δ) (shS δ st).last), ⟨i + δ, (shS δ st).last⟩, shT δ r4)) =
                      Option.map (shSt δ)
                        (match r4 with
                        | ⟨_, .Else⟩ :: r5 =>
                          match Grammar.stmt g' F r5 with
                          | some (e, se, r6) =>
                            some (Stmt.ifS (some (refAbs c)) (.some t 0) (.some e 0) (mkInfo g' i se.last), (⟨i, se.last⟩ : Span), r6)
                          | none => none
                        | _ => some (Stmt.ifS (some (refAbs c)) (.some t 0) .none (mkInfo g' i st.last), ⟨i, st.last⟩, r4)) := by
                    intro hne
                    cases r4 with
                    | nil => simp [shSt, shS, Stmt.mapInfo, OptStmt.mapInfo, refAbs, Ref.map, mkInfo_sh h]
                    | cons t4 r5 =>
                      obtain ⟨i4, ty4⟩ := t4
                      cases ty4 <;> first | exact absurd rfl (hne _ _) | simp [shSt, shS, Stmt.mapInfo, OptStmt.mapInfo, refAbs, Ref.map, mkInfo_sh h]
                  cases r4 with
                  | nil => exact hno (by intro x r5 hx; cases hx)
                  | cons t4 r5 =>
                    obtain ⟨i4, ty4⟩ := t4
                    cases ty4 with
                    | Else =>
                      simp only [shT_cons, ih.stmt]
                      cases h5 : Grammar.stmt g' F r5 with
                      | none => simp
                      | some x5 =>
                        obtain ⟨e, se, r6⟩ := x5
                        simp [shSt, shS, Stmt.mapInfo, OptStmt.mapInfo, refAbs, Ref.map, mkInfo_sh h]
                    | _ => exact hno (by intro x r5 hx; cases hx)
        | While =>
          simp only [shT_cons, Grammar.stmt, expectK_sh]
          cases h1 : expectK .LParen r with
          | none => simp
          | some x1 =>
            obtain ⟨_, r1⟩ := x1
            simp only [Option.map_some, shT_length, (esh h _).expr]
            cases h2 : Grammar.expr g' (8 * r1.length + 16) r1 with
            | none => simp
            | some x2 =>
              obtain ⟨c, _, r2⟩ := x2
              simp only [Option.map_some, shE, expectK_sh]
              cases h3 : expectK .RParen r2 with
              | none => simp
              | some x3 =>
                obtain ⟨_, r3⟩ := x3
                simp only [Option.map_some, ih.stmt]
                cases h4 : Grammar.stmt g' F r3 with
                | none => simp
                | some x4 =>
                  obtain ⟨b, sb, r4⟩ := x4
                  simp [shSt, shS, Stmt.mapInfo, OptStmt.mapInfo, refAbs, Ref.map, mkInfo_sh h]
        | LCurly =>
          simp only [shT_cons, Grammar.stmt, ih.stmts]
          cases h1 : Grammar.stmts g' F r with
          | none => simp
          | some x1 =>
            obtain ⟨ss, r1⟩ := x1
            simp only [Option.map_some, shSL, expectK_sh]
            cases h2 : expectK .RCurly r1 with
            | none => simp
            | some x2 => obtain ⟨j, r2⟩ := x2; simp [shSt, shS, Stmt.mapInfo, mkInfo_sh h]
        | Ident nm =>
          have hassign : ∀ (hne : ∀ x r', r ≠ ⟨x, .LParen⟩ :: r'),
              Grammar.stmt g (F + 1) (shT δ (⟨i, .Ident nm⟩ :: r)) = (Grammar.stmt g' (F + 1) (⟨i, .Ident nm⟩ :: r)).map (shSt δ) := by
            intro hne
            have e1 : ∀ (gg : GCtx) (j : Nat) (rr : Toks), (∀ x r', rr ≠ ⟨x, .LParen⟩ :: r') →
                Grammar.stmt gg (F + 1) (⟨j, .Ident nm⟩ :: rr) =
                match Grammar.varAccess gg (8 * (rr.length + 1) + 16) (⟨j, .Ident nm⟩ :: rr) with
                | none => none
                | some (v, _, r) =>
                  match expectK .Assign r with
                  | none => none
                  | some (_, r1) =>
                    match Grammar.expr gg (8 * r1.length + 16) r1 with
                    | none => none
                    | some (e, _, r2) =>
                      match expectK .Semic r2 with
                      | some (k, r3) => some (.assign { target := v, expr := some (refAbs e), info := mkInfo gg j k }, ⟨j, k⟩, r3)
                      | none => none := by
              intro gg j rr hrr
              cases rr with
              | nil => simp [Grammar.stmt] <;> rfl
              | cons t2 r2 =>
                obtain ⟨i2, ty2⟩ := t2
                cases ty2 <;> first | exact absurd rfl (hrr _ _) | (simp [Grammar.stmt] <;> rfl)
            have hne' : ∀ x r', shT δ r ≠ ⟨x, .LParen⟩ :: r' := by
              intro x r' hx
              cases r with
              | nil => simp at hx
              | cons t2 r2 =>
                obtain ⟨i2, ty2⟩ := t2
                simp only [shT_cons, List.cons.injEq, ITok.mk.injEq] at hx
                exact hne i2 r2 (by rw [hx.1.2])
            rw [shT_cons, e1 g _ _ hne', e1 g' _ _ hne]
            have hv := (esh h (8 * (r.length + 1) + 16)).varAccess (⟨i, .Ident nm⟩ :: r)
            simp only [shT_cons] at hv
            simp only [shT_length, hv]
            cases h1 : Grammar.varAccess g' (8 * (r.length + 1) + 16) (⟨i, .Ident nm⟩ :: r) with
            | none => simp
            | some x1 =>
              obtain ⟨v, _, r1⟩ := x1
              simp only [Option.map_some, shV, expectK_sh]
              cases h2 : expectK .Assign r1 with
              | none => simp
              | some x2 =>
                obtain ⟨_, r2⟩ := x2
                simp only [Option.map_some, shT_length, (esh h _).expr]
                cases h3 : Grammar.expr g' (8 * r2.length + 16) r2 with
                | none => simp
                | some x3 =>
                  obtain ⟨e, _, r3⟩ := x3
                  simp only [Option.map_some, shE, expectK_sh]
                  cases h4 : expectK .Semic r3 with
                  | none => simp
                  | some x4 =>
                    obtain ⟨k, r4⟩ := x4
                    simp [shSt, shS, Stmt.mapInfo, Assignment.mapInfo, refAbs, Ref.map, mkInfo_sh h]
          cases r with
          | nil => exact hassign (by intro x r' hx; cases hx)
          | cons t2 r2 =>
            obtain ⟨i2, ty2⟩ := t2
            cases ty2 with
            | LParen =>
              have tail : ∀ (E : Option (List (Ref Expr) × Toks)),
                  (match E.map (fun (r : List (Ref Expr) × Toks) => (r.1.map (Ref.map (Expr.mapInfo (shI δ))), shT δ r.2)) with
                    | none => none
                    | some (as, r1) =>
                      match expectK .RParen r1 with
                      | none => none
                      | some (_, r2) =>
                        match expectK .Semic r2 with
                        | some (j, r3) =>
                          some (Stmt.call { name := mkIdent g (i + δ) nm, args := as, info := mkInfo g (i + δ) j }, (⟨i + δ, j⟩ : Span), r3)
                        | none => none) =
                  Option.map (shSt δ)
                    (match E with
                    | none => none
                    | some (as, r1) =>
                      match expectK .RParen r1 with
                      | none => none
                      | some (_, r2) =>
                        match expectK .Semic r2 with
                        | some (j, r3) =>
                          some (Stmt.call { name := mkIdent g' i nm, args := as, info := mkInfo g' i j }, (⟨i, j⟩ : Span), r3)
                        | none => none) := by
                intro E
                cases E with
                | none => simp
                | some x1 =>
                  obtain ⟨as, r3⟩ := x1
                  simp only [Option.map_some, expectK_sh]
                  cases h2 : expectK .RParen r3 with
                  | none => simp
                  | some x2 =>
                    obtain ⟨_, r4⟩ := x2
                    simp only [Option.map_some, expectK_sh]
                    cases h3 : expectK .Semic r4 with
                    | none => simp
                    | some x3 =>
                      obtain ⟨j, r5⟩ := x3
                      simp [shSt, shS, Stmt.mapInfo, CallStmt.mapInfo, mkInfo_sh h, mkIdent_sh h]
              cases r2 with
              | nil =>
                have hx := exprList_sh h 1 []
                simp only [shT_nil] at hx
                simp only [shT_cons, shT_nil, Grammar.stmt, List.length_nil, Nat.zero_add, hx]
                exact tail (Grammar.exprList g' 1 [])
              | cons t3 r3 =>
                obtain ⟨i3, ty3⟩ := t3
                have hx := exprList_sh h (r3.length + 1 + 1) (⟨i3, ty3⟩ :: r3)
                simp only [shT_cons] at hx
                generalize hE : Grammar.exprList g' (r3.length + 1 + 1) (⟨i3, ty3⟩ :: r3) = E at hx
                cases ty3 with
                | RParen => simp only [shT_cons, Grammar.stmt]; exact tail (some ([], ⟨i3, .RParen⟩ :: r3))
                | _ => simp only [shT_cons, shT_length, List.length_cons, Grammar.stmt, hx, hE]; exact tail E
            | _ => exact hassign (by intro x r' hx; cases hx)
        | _ => simp [Grammar.stmt]
    · intro ts
      have hgen : ∀ (hne : ∀ x r', ts ≠ ⟨x, .RCurly⟩ :: r'),
          Grammar.stmts g (F + 1) (shT δ ts) = (Grammar.stmts g' (F + 1) ts).map (shSL δ) := by
        intro hne
        have e1 : ∀ (gg : GCtx) (tt : Toks), (∀ x r', tt ≠ ⟨x, .RCurly⟩ :: r') →
            Grammar.stmts gg (F + 1) tt =
              match Grammar.stmt gg F tt with
              | none => none
              | some (s, _, r) =>
                match Grammar.stmts gg F r with
                | some (ss, r1) => some (.cons s 0 ss, r1)
                | none => none := by
          intro gg tt htt
          cases tt with
          | nil => simp [Grammar.stmts] <;> rfl
          | cons t2 r2 =>
            obtain ⟨i2, ty2⟩ := t2
            cases ty2 <;> first | exact absurd rfl (htt _ _) | (simp [Grammar.stmts] <;> rfl)
        have hne' : ∀ x r', shT δ ts ≠ ⟨x, .RCurly⟩ :: r' := by
          intro x r' hx
          cases ts with
          | nil => simp at hx
          | cons t2 r2 =>
            obtain ⟨i2, ty2⟩ := t2
            simp only [shT_cons, List.cons.injEq, ITok.mk.injEq] at hx
            exact hne i2 r2 (by rw [hx.1.2])
        rw [e1 g _ hne', e1 g' _ hne, ih.stmt]
        cases h1 : Grammar.stmt g' F ts with
        | none => simp
        | some x1 =>
          obtain ⟨s1, _, r1⟩ := x1
          simp only [Option.map_some, shSt, ih.stmts]
          cases h2 : Grammar.stmts g' F r1 with
          | none => simp
          | some x2 => obtain ⟨ss, r2⟩ := x2; simp [shSL, StmtList.mapInfo]
      cases ts with
      | nil => exact hgen (by intro x r' hx; cases hx)
      | cons t r =>
        obtain ⟨i, ty⟩ := t
        cases ty with
        | RCurly => simp [Grammar.stmts, shSL, StmtList.mapInfo]
        | _ => exact hgen (by intro x r' hx; cases hx)

theorem param_sh (h : DropOK g g' δ) (ts : Toks) :
    Grammar.param g (shT δ ts) = (Grammar.param g' ts).map (fun r => (r.1.mapInfo (shI δ), shT δ r.2)) := by
  have hgen : ∀ (isRef : Bool) (first : Option Nat) (ts1 : Toks),
      (match identTok (shT δ ts1) with
        | none => none
        | some (i, s, r) =>
          match expectK .Colon r with
          | none => none
          | some (_, r1) =>
            match Grammar.typeExpr g (2 * r1.length + 4) r1 with
            | none => none
            | some (t, st, r2) =>
              let f := (first.map (· + δ)).getD i
              let name : Identifier := if isRef then mkIdent g i s else { value := s, info := { range := ⟨i, i + 1⟩ } }
              some (ParamDecl.valid (docOf g f) isRef (some name) (some (refAbs t)) (mkInfo g f st.last), r2)) =
      Option.map (fun (r : ParamDecl × Toks) => (r.1.mapInfo (shI δ), shT δ r.2))
        (match identTok ts1 with
        | none => none
        | some (i, s, r) =>
          match expectK .Colon r with
          | none => none
          | some (_, r1) =>
            match Grammar.typeExpr g' (2 * r1.length + 4) r1 with
            | none => none
            | some (t, st, r2) =>
              let f := first.getD i
              let name : Identifier := if isRef then mkIdent g' i s else { value := s, info := { range := ⟨i, i + 1⟩ } }
              some (ParamDecl.valid (docOf g' f) isRef (some name) (some (refAbs t)) (mkInfo g' f st.last), r2)) := by
    intro isRef first ts1
    simp only [identTok_sh]
    cases h1 : identTok ts1 with
    | none => simp
    | some x1 =>
      obtain ⟨i, nm, r⟩ := x1
      simp only [Option.map_some, expectK_sh]
      cases h2 : expectK .Colon r with
      | none => simp
      | some x2 =>
        obtain ⟨_, r1⟩ := x2
        simp only [Option.map_some, shT_length, typeExpr_sh h]
        cases h3 : Grammar.typeExpr g' (2 * r1.length + 4) r1 with
        | none => simp
        | some x3 =>
          obtain ⟨t, st, r2⟩ := x3
          have hf : (first.map (· + δ)).getD (i + δ) = first.getD i + δ := by cases first <;> simp
          simp only [Option.map_some, shTy, shS, hf, h.doc, mkInfo_sh h]
          cases isRef
          · simp [ParamDecl.mapInfo, Identifier.mapInfo, refAbs, Ref.map, shI]
            omega
          · simp [ParamDecl.mapInfo, refAbs, Ref.map, mkIdent_sh h]
  have hnr : ∀ (hne : ∀ x r', ts ≠ ⟨x, .Ref⟩ :: r'),
      Grammar.param g (shT δ ts) = (Grammar.param g' ts).map (fun r => (r.1.mapInfo (shI δ), shT δ r.2)) := by
    intro hne
    have e1 : ∀ (gg : GCtx) (tt : Toks), (∀ x r', tt ≠ ⟨x, .Ref⟩ :: r') →
        Grammar.param gg tt =
          match identTok tt with
          | none => none
          | some (i, s, r) =>
            match expectK .Colon r with
            | none => none
            | some (_, r1) =>
              match Grammar.typeExpr gg (2 * r1.length + 4) r1 with
              | none => none
              | some (t, st, r2) =>
                let f := (none : Option Nat).getD i
                let name : Identifier := if false then mkIdent gg i s else { value := s, info := { range := ⟨i, i + 1⟩ } }
                some (ParamDecl.valid (docOf gg f) false (some name) (some (refAbs t)) (mkInfo gg f st.last), r2) := by
      intro gg tt htt
      cases tt with
      | nil => rfl
      | cons t2 r2 =>
        obtain ⟨i2, ty2⟩ := t2
        cases ty2 <;> first | exact absurd rfl (htt _ _) | rfl
    have hne' : ∀ x r', shT δ ts ≠ ⟨x, .Ref⟩ :: r' := by
      intro x r' hx
      cases ts with
      | nil => simp at hx
      | cons t2 r2 =>
        obtain ⟨i2, ty2⟩ := t2
        simp only [shT_cons, List.cons.injEq, ITok.mk.injEq] at hx
        exact hne i2 r2 (by rw [hx.1.2])
    rw [e1 g _ hne', e1 g' _ hne]
    exact hgen false none ts
  cases ts with
  | nil => exact hnr (by intro x r' hx; cases hx)
  | cons t r =>
    obtain ⟨i, ty⟩ := t
    cases ty with
    | Ref => exact hgen true (some i) r
    | _ => exact hnr (by intro x r' hx; cases hx)

theorem params_sh (h : DropOK g g' δ) : ∀ (F : Nat) (ts : Toks),
    Grammar.params g F (shT δ ts) =
      (Grammar.params g' F ts).map (fun r => (r.1.map (Ref.map (ParamDecl.mapInfo (shI δ))), shT δ r.2))
  | 0, ts => by simp [Grammar.params]
  | F + 1, ts => by
    simp only [Grammar.params, param_sh h]
    cases h1 : Grammar.param g' ts with
    | none => simp
    | some x =>
      obtain ⟨p, r⟩ := x
      simp only [Option.map_some]
      cases r with
      | nil => simp [refAbs, Ref.map]
      | cons t r1 =>
        obtain ⟨i, ty⟩ := t
        cases ty with
        | Comma =>
          simp only [shT_cons, params_sh h F]
          cases h2 : Grammar.params g' F r1 with
          | none => simp
          | some y => obtain ⟨ps, r2⟩ := y; simp [refAbs, Ref.map]
        | _ => simp [refAbs, Ref.map]

theorem varDecls_sh (h : DropOK g g' δ) : ∀ (F : Nat) (ts : Toks),
    Grammar.varDecls g F (shT δ ts) =
      (Grammar.varDecls g' F ts).map (fun r => (r.1.map (Ref.map (VarDecl.mapInfo (shI δ))), shT δ r.2))
  | 0, ts => by simp [Grammar.varDecls]
  | F + 1, ts => by
    cases ts with
    | nil => simp [Grammar.varDecls]
    | cons t r =>
      obtain ⟨i, ty⟩ := t
      cases ty with
      | Var =>
        simp only [shT_cons, Grammar.varDecls, identTok_sh]
        cases h1 : identTok r with
        | none => simp
        | some x1 =>
          obtain ⟨j, nm, r1⟩ := x1
          simp only [Option.map_some, expectK_sh]
          cases h2 : expectK .Colon r1 with
          | none => simp
          | some x2 =>
            obtain ⟨_, r2⟩ := x2
            simp only [Option.map_some, shT_length, typeExpr_sh h]
            cases h3 : Grammar.typeExpr g' (2 * r2.length + 4) r2 with
            | none => simp
            | some x3 =>
              obtain ⟨t, _, r3⟩ := x3
              simp only [Option.map_some, shTy, expectK_sh]
              cases h4 : expectK .Semic r3 with
              | none => simp
              | some x4 =>
                obtain ⟨k, r4⟩ := x4
                simp only [Option.map_some, varDecls_sh h F]
                cases h5 : Grammar.varDecls g' F r4 with
                | none => simp
                | some x5 =>
                  obtain ⟨vs, r5⟩ := x5
                  simp [VarDecl.mapInfo, refAbs, Ref.map, h.doc, mkInfo_sh h, mkIdent_sh h]
      | _ => simp [Grammar.varDecls]

theorem stmtList_toList_map (f : AstInfo → AstInfo) : ∀ (l : StmtList),
    (l.mapInfo f).toList = l.toList.map (Ref.map (Stmt.mapInfo f))
  | .nil => by simp [StmtList.mapInfo, StmtList.toList]
  | .cons s1 o r => by simp [StmtList.mapInfo, StmtList.toList, Ref.map, stmtList_toList_map f r]

/-- move a declaration list and the index of the last token -/
def shD (δ : Nat) (r : List (Ref GlobalDecl) × Option Nat) : List (Ref GlobalDecl) × Option Nat :=
  (r.1.map (Ref.map (GlobalDecl.mapInfo (shI δ))), r.2.map (· + δ))

theorem decls_sh (h : DropOK g g' δ) : ∀ (F : Nat) (ts : Toks),
    Grammar.decls g F (shT δ ts) = (Grammar.decls g' F ts).map (shD δ)
  | 0, ts => by simp [Grammar.decls]
  | F + 1, ts => by
    cases ts with
    | nil => simp [Grammar.decls]
    | cons t r =>
      obtain ⟨i, ty⟩ := t
      cases ty with
      | Eof =>
        cases r with
        | nil => simp [Grammar.decls, shD]
        | cons t2 r2 => simp [Grammar.decls]
      | «Type» =>
        simp only [shT_cons, Grammar.decls, identTok_sh]
        cases h1 : identTok r with
        | none => simp
        | some x1 =>
          obtain ⟨j, nm, r1⟩ := x1
          simp only [Option.map_some, expectK_sh]
          cases h2 : expectK .Eq r1 with
          | none => simp
          | some x2 =>
            obtain ⟨_, r2⟩ := x2
            simp only [Option.map_some, shT_length, typeExpr_sh h]
            cases h3 : Grammar.typeExpr g' (2 * r2.length + 4) r2 with
            | none => simp
            | some x3 =>
              obtain ⟨t, _, r3⟩ := x3
              simp only [Option.map_some, shTy, expectK_sh]
              cases h4 : expectK .Semic r3 with
              | none => simp
              | some x4 =>
                obtain ⟨k, r4⟩ := x4
                simp only [Option.map_some, decls_sh h F]
                cases h5 : Grammar.decls g' F r4 with
                | none => simp
                | some x5 =>
                  obtain ⟨ds, last⟩ := x5
                  cases last <;>
                    simp [shD, GlobalDecl.mapInfo, TypeDecl.mapInfo, refAbs, Ref.map, h.doc, mkInfo_sh h, mkIdent_sh h]
      | Proc =>
        simp only [shT_cons, Grammar.decls, identTok_sh]
        cases h1 : identTok r with
        | none => simp
        | some x1 =>
          obtain ⟨j, nm, r1⟩ := x1
          simp only [Option.map_some, expectK_sh]
          cases h2 : expectK .LParen r1 with
          | none => simp
          | some x2 =>
            obtain ⟨_, r2⟩ := x2
            simp only [Option.map_some]
            have tail : ∀ (E : Option (List (Ref ParamDecl) × Toks)),
                (match E.map (fun (r : List (Ref ParamDecl) × Toks) => (r.1.map (Ref.map (ParamDecl.mapInfo (shI δ))), shT δ r.2)) with
                  | none => none
                  | some (ps, r3) =>
                    match expectK .RParen r3 with
                    | none => none
                    | some (_, r4) =>
                      match expectK .LCurly r4 with
                      | none => none
                      | some (_, r5) =>
                        match Grammar.varDecls g (r5.length + 1) r5 with
                        | none => none
                        | some (vs, r6) =>
                          match Grammar.stmts g (2 * r6.length + 4) r6 with
                          | none => none
                          | some (ss, r7) =>
                            match expectK .RCurly r7 with
                            | none => none
                            | some (k, r8) =>
                              match Grammar.decls g F r8 with
                              | none => none
                              | some (ds, last) =>
                                let pd : ProcDecl :=
                                  { doc := docOf g (i + δ), name := some (mkIdent g (j + δ) nm), params := ps, vars := vs,
                                    stmts := ss.toList, info := mkInfo g (i + δ) k }
                                some (refAbs (.proc pd) :: ds, some (last.getD k))) =
                Option.map (shD δ)
                  (match E with
                  | none => none
                  | some (ps, r3) =>
                    match expectK .RParen r3 with
                    | none => none
                    | some (_, r4) =>
                      match expectK .LCurly r4 with
                      | none => none
                      | some (_, r5) =>
                        match Grammar.varDecls g' (r5.length + 1) r5 with
                        | none => none
                        | some (vs, r6) =>
                          match Grammar.stmts g' (2 * r6.length + 4) r6 with
                          | none => none
                          | some (ss, r7) =>
                            match expectK .RCurly r7 with
                            | none => none
                            | some (k, r8) =>
                              match Grammar.decls g' F r8 with
                              | none => none
                              | some (ds, last) =>
                                let pd : ProcDecl :=
                                  { doc := docOf g' i, name := some (mkIdent g' j nm), params := ps, vars := vs,
                                    stmts := ss.toList, info := mkInfo g' i k }
                                some (refAbs (.proc pd) :: ds, some (last.getD k))) := by
              intro E
              cases E with
              | none => simp
              | some y1 =>
                obtain ⟨ps, r3⟩ := y1
                simp only [Option.map_some, expectK_sh]
                cases h3 : expectK .RParen r3 with
                | none => simp
                | some y2 =>
                  obtain ⟨_, r4⟩ := y2
                  simp only [Option.map_some, expectK_sh]
                  cases h4 : expectK .LCurly r4 with
                  | none => simp
                  | some y3 =>
                    obtain ⟨_, r5⟩ := y3
                    simp only [Option.map_some, shT_length, varDecls_sh h]
                    cases h5 : Grammar.varDecls g' (r5.length + 1) r5 with
                    | none => simp
                    | some y4 =>
                      obtain ⟨vs, r6⟩ := y4
                      simp only [Option.map_some, shT_length, (ssh h _).stmts]
                      cases h6 : Grammar.stmts g' (2 * r6.length + 4) r6 with
                      | none => simp
                      | some y5 =>
                        obtain ⟨ss, r7⟩ := y5
                        simp only [Option.map_some, shSL, expectK_sh]
                        cases h7 : expectK .RCurly r7 with
                        | none => simp
                        | some y6 =>
                          obtain ⟨k, r8⟩ := y6
                          simp only [Option.map_some, decls_sh h F]
                          cases h8 : Grammar.decls g' F r8 with
                          | none => simp
                          | some y7 =>
                            obtain ⟨ds, last⟩ := y7
                            have hss := stmtList_toList_map (shI δ)
                            cases last <;>
                              simp [shD, GlobalDecl.mapInfo, ProcDecl.mapInfo, refAbs, Ref.map, h.doc, mkInfo_sh h, mkIdent_sh h, hss]
            cases r2 with
            | nil =>
              have hx := params_sh h 1 []
              simp only [shT_nil] at hx
              simp only [shT_nil, List.length_nil, Nat.zero_add, hx]
              exact tail (Grammar.params g' 1 [])
            | cons t3 r3 =>
              obtain ⟨i3, ty3⟩ := t3
              have hx := params_sh h (r3.length + 1 + 1) (⟨i3, ty3⟩ :: r3)
              simp only [shT_cons] at hx
              generalize hE : Grammar.params g' (r3.length + 1 + 1) (⟨i3, ty3⟩ :: r3) = E at hx
              cases ty3 with
              | RParen => simp only [shT_cons]; exact tail (some ([], ⟨i3, .RParen⟩ :: r3))
              | _ => simp only [shT_cons, shT_length, List.length_cons, hx, hE]; exact tail E
      | _ => simp [Grammar.decls]

/-! ### cutting off a prefix of the token array -/

open Spl.ParseConform in
theorem leadStart_drop (A A' : Array Token) (δ : Nat) (hget : ∀ k, A'[k]? = A[k + δ]?) (hfr : Fresh A δ) :
    ∀ (f i f2 : Nat), i < f → i + δ < f2 → leadStart ⟨A⟩ f2 (i + δ) = leadStart ⟨A'⟩ f i + δ
  | 0, i, f2, h1, _ => by omega
  | f + 1, i, 0, _, h2 => by omega
  | f + 1, i, f2 + 1, h1, h2 => by
    by_cases hi : i = 0
    · subst hi
      simp only [Nat.zero_add, leadStart, beq_self_eq_true, if_true]
      rcases hfr with h0 | ⟨t, ht, hk⟩
      · subst h0; simp
      · by_cases hd : δ = 0
        · subst hd; simp
        · have hb : (δ == 0) = false := by simp [hd]
          have hkc : (t.kind == Kind.Comment) = false := by simpa using hk
          simp [hb, ht, hkc]
    · have hb : (i == 0) = false := by simp [hi]
      have hb2 : (i + δ == 0) = false := by simp; omega
      have hidx : i + δ - 1 = (i - 1) + δ := by omega
      simp only [leadStart, hb, hb2, Bool.false_eq_true, if_false, hidx, ← hget (i - 1)]
      cases hA : A'[i - 1]? with
      | none => rfl
      | some t =>
        simp only
        by_cases hk : (t.kind == Kind.Comment) = true
        · simp only [hk, if_true]
          exact leadStart_drop A A' δ hget hfr f (i - 1) f2 (by omega) (by omega)
        · simp [hk]

open Spl.ParseConform in
/-- the specification reads the array without its first `δ` tokens like the whole array, `δ` further on -/
theorem dropOK (A A' : Array Token) (δ : Nat) (hdrop : A'.toList = A.toList.drop δ) (hfr : Fresh A δ) :
    DropOK ⟨A⟩ ⟨A'⟩ δ := by
  have hget : ∀ k, A'[k]? = A[k + δ]? := by
    intro k
    rw [← Array.getElem?_toList, hdrop, List.getElem?_drop, Array.getElem?_toList, Nat.add_comm]
  have hlead : ∀ i, lead ⟨A⟩ (i + δ) = lead ⟨A'⟩ i + δ := by
    intro i
    exact leadStart_drop A A' δ hget hfr (i + 1) i (i + δ + 1) (by omega) (by omega)
  refine ⟨hlead, ?_⟩
  intro i
  rw [docOf_eq A _ _ (hlead i), docOf_eq A' _ _ rfl]
  simp only [cmtTexts, hdrop, List.drop_drop]
  have h1 : i + δ - (lead ⟨A'⟩ i + δ) = i - lead ⟨A'⟩ i := by omega
  rw [h1, Nat.add_comm]

open Spl.ParseConform in
theorem tsFrom_drop (A A' : Array Token) (δ : Nat) (hget : ∀ k, A'[k]? = A[k + δ]?) :
    ∀ (n p : Nat), A'.size - p = n → shT δ (tsFrom A' p) = tsFrom A (p + δ)
  | 0, p, hn => by
    have h1 : A'[p]? = none := by simp [Array.getElem?_eq_none_iff]; omega
    have h2 : A[p + δ]? = none := by rw [← hget]; exact h1
    rw [tsFrom_unfold A' p, tsFrom_unfold A (p + δ), h1, h2]
    rfl
  | n + 1, p, hn => by
    have hp : p < A'.size := by omega
    obtain ⟨t, ht⟩ : ∃ t, A'[p]? = some t := ⟨A'[p], by simp [hp]⟩
    have h2 : A[p + δ]? = some t := by rw [← hget]; exact ht
    have ih := tsFrom_drop A A' δ hget n (p + 1) (by omega)
    have e : p + 1 + δ = p + δ + 1 := by omega
    rw [e] at ih
    rw [tsFrom_unfold A' p, tsFrom_unfold A (p + δ), ht, h2]
    simp only
    by_cases hk : (t.kind != Kind.Comment) = true
    · simp only [hk, if_true, shT_cons, ih]
    · simp only [hk, Bool.false_eq_true, if_false, ih]

/-! ### relativising a moved tree gives the same tree -/

theorem relInfo_sh (b k : Nat) (i : AstInfo) : relInfo (b + k) (shI k i) = relInfo b i := by
  simp only [relInfo, shI]
  congr 2 <;> omega

theorem relIdent_sh (b k : Nat) (i : Identifier) : relIdent (b + k) (i.mapInfo (shI k)) = relIdent b i := by
  simp [relIdent, Identifier.mapInfo, relInfo_sh]

theorem relIntLit_sh (b k : Nat) (i : IntLiteral) : relIntLit (b + k) (i.mapInfo (shI k)) = relIntLit b i := by
  simp [relIntLit, IntLiteral.mapInfo, relInfo_sh]

theorem var_info_map (f : AstInfo → AstInfo) (v : Var) : (v.mapInfo f).info = f v.info := by
  cases v <;> simp [Var.mapInfo, Var.info, Identifier.mapInfo]

theorem expr_info_map (f : AstInfo → AstInfo) (e : Expr) : (e.mapInfo f).info = f e.info := by
  cases e <;> simp [Expr.mapInfo, Expr.info, IntLiteral.mapInfo, var_info_map]

theorem type_info_map (f : AstInfo → AstInfo) (e : TypeExpr) : (e.mapInfo f).info = f e.info := by
  cases e <;> simp [TypeExpr.mapInfo, TypeExpr.info, Identifier.mapInfo]

theorem stmt_info_map (f : AstInfo → AstInfo) (e : Stmt) : (e.mapInfo f).info = f e.info := by
  cases e <;> simp [Stmt.mapInfo, Stmt.info, Assignment.mapInfo, CallStmt.mapInfo]

@[simp] theorem shI_lo (k : Nat) (i : AstInfo) : (shI k i).range.lo = i.range.lo + k := rfl

mutual
  theorem relVar_sh (k : Nat) : ∀ (b : Nat) (v : Var), relVar (b + k) (v.mapInfo (shI k)) = relVar b v
    | b, .named id => by simp [Var.mapInfo, relVar, relIdent_sh]
    | b, .access a idx i => by simp [Var.mapInfo, relVar, relVar_sh k b a, relOptExpr_sh k b idx, relInfo_sh]
  theorem relExpr_sh (k : Nat) : ∀ (b : Nat) (e : Expr), relExpr (b + k) (e.mapInfo (shI k)) = relExpr b e
    | b, .binary op l r i => by simp [Expr.mapInfo, relExpr, relExpr_sh k b l, relExpr_sh k b r, relInfo_sh]
    | b, .bracketed e i => by simp [Expr.mapInfo, relExpr, relExpr_sh k b e, relInfo_sh]
    | b, .intLit l => by simp [Expr.mapInfo, relExpr, relIntLit_sh]
    | b, .unary op e i => by simp [Expr.mapInfo, relExpr, relExpr_sh k b e, relInfo_sh]
    | b, .var v => by simp [Expr.mapInfo, relExpr, relVar_sh k b v]
    | b, .error i => by simp [Expr.mapInfo, relExpr, relInfo_sh]
  theorem relOptExpr_sh (k : Nat) : ∀ (b : Nat) (e : OptExpr), relOptExpr (b + k) (e.mapInfo (shI k)) = relOptExpr b e
    | b, .none => by simp [OptExpr.mapInfo, relOptExpr]
    | b, .some e o => by
      simp only [OptExpr.mapInfo, relOptExpr, expr_info_map, shI_lo, relExpr_sh k e.info.range.lo e]
      congr 1
      omega
end

theorem relRefExpr_sh (b k : Nat) (r : Ref Expr) :
    relRefExpr (b + k) (Ref.map (Expr.mapInfo (shI k)) r) = relRefExpr b r := by
  simp only [relRefExpr, Ref.map, expr_info_map, shI_lo, relExpr_sh k r.val.info.range.lo r.val]
  congr 1
  omega

mutual
  theorem relType_sh (k : Nat) : ∀ (b : Nat) (t : TypeExpr), relType (b + k) (t.mapInfo (shI k)) = relType b t
    | b, .named id => by simp [TypeExpr.mapInfo, relType, relIdent_sh]
    | b, .array sz base i => by
      simp only [TypeExpr.mapInfo, relType, relOptType_sh k b base, relInfo_sh]
      cases sz <;> simp [relIntLit_sh]
  theorem relOptType_sh (k : Nat) : ∀ (b : Nat) (t : OptType), relOptType (b + k) (t.mapInfo (shI k)) = relOptType b t
    | b, .none => by simp [OptType.mapInfo, relOptType]
    | b, .some t o => by
      simp only [OptType.mapInfo, relOptType, type_info_map, shI_lo, relType_sh k t.info.range.lo t]
      congr 1
      omega
end

theorem relRefType_sh (b k : Nat) (r : Ref TypeExpr) :
    relRefType (b + k) (Ref.map (TypeExpr.mapInfo (shI k)) r) = relRefType b r := by
  simp only [relRefType, Ref.map, type_info_map, shI_lo, relType_sh k r.val.info.range.lo r.val]
  congr 1
  omega

theorem optRefExpr_sh (b k : Nat) (c : Option (Ref Expr)) :
    (c.map (Ref.map (Expr.mapInfo (shI k)))).map (relRefExpr (b + k)) = c.map (relRefExpr b) := by
  cases c <;> simp [relRefExpr_sh]

mutual
  theorem relStmt_sh (k : Nat) : ∀ (b : Nat) (s : Stmt), relStmt (b + k) (s.mapInfo (shI k)) = relStmt b s
    | b, .empty i => by simp [Stmt.mapInfo, relStmt, relInfo_sh]
    | b, .error i => by simp [Stmt.mapInfo, relStmt, relInfo_sh]
    | b, .assign a => by
      simp only [Stmt.mapInfo, Assignment.mapInfo, relStmt, relVar_sh, relInfo_sh, optRefExpr_sh]
    | b, .call c => by
      simp only [Stmt.mapInfo, CallStmt.mapInfo, relStmt, relIdent_sh, relInfo_sh, List.map_map]
      congr 3
      funext r
      exact relRefExpr_sh b k r
    | b, .ifS c t e i => by
      simp only [Stmt.mapInfo, relStmt, relOptStmt_sh k b t, relOptStmt_sh k b e, relInfo_sh, optRefExpr_sh]
    | b, .whileS c body i => by
      simp only [Stmt.mapInfo, relStmt, relOptStmt_sh k b body, relInfo_sh, optRefExpr_sh]
    | b, .block ss i => by simp only [Stmt.mapInfo, relStmt, relStmtList_sh k b ss, relInfo_sh]
  theorem relOptStmt_sh (k : Nat) : ∀ (b : Nat) (s : OptStmt), relOptStmt (b + k) (s.mapInfo (shI k)) = relOptStmt b s
    | b, .none => by simp [OptStmt.mapInfo, relOptStmt]
    | b, .some s o => by
      simp only [OptStmt.mapInfo, relOptStmt, stmt_info_map, shI_lo, relStmt_sh k s.info.range.lo s]
      congr 1
      omega
  theorem relStmtList_sh (k : Nat) : ∀ (b : Nat) (s : StmtList), relStmtList (b + k) (s.mapInfo (shI k)) = relStmtList b s
    | b, .nil => by simp [StmtList.mapInfo, relStmtList]
    | b, .cons s o r => by
      simp only [StmtList.mapInfo, relStmtList, stmt_info_map, shI_lo, relStmt_sh k s.info.range.lo s, relStmtList_sh k b r]
      congr 1
      omega
end

theorem relRefStmt_sh (b k : Nat) (r : Ref Stmt) :
    relRefStmt (b + k) (Ref.map (Stmt.mapInfo (shI k)) r) = relRefStmt b r := by
  simp only [relRefStmt, Ref.map, stmt_info_map, shI_lo, relStmt_sh k r.val.info.range.lo r.val]
  congr 1
  omega

theorem optIdent_sh (b k : Nat) (n : Option Identifier) :
    (n.map (Identifier.mapInfo (shI k))).map (relIdent (b + k)) = n.map (relIdent b) := by
  cases n <;> simp [relIdent_sh]

theorem optRefType_sh (b k : Nat) (t : Option (Ref TypeExpr)) :
    (t.map (Ref.map (TypeExpr.mapInfo (shI k)))).map (relRefType (b + k)) = t.map (relRefType b) := by
  cases t <;> simp [relRefType_sh]

theorem relParam_sh (b k : Nat) (r : Ref ParamDecl) :
    relParam (b + k) (Ref.map (ParamDecl.mapInfo (shI k)) r) = relParam b r := by
  obtain ⟨v, o⟩ := r
  cases v with
  | valid d rf n t i =>
    simp only [relParam, Ref.map, ParamDecl.mapInfo, ParamDecl.info, shI_lo, optIdent_sh, optRefType_sh, relInfo_sh]
    congr 1
    omega
  | error i =>
    simp only [relParam, Ref.map, ParamDecl.mapInfo, ParamDecl.info, shI_lo, relInfo_sh]
    congr 1
    omega

theorem relVarDecl_sh (b k : Nat) (r : Ref VarDecl) :
    relVarDecl (b + k) (Ref.map (VarDecl.mapInfo (shI k)) r) = relVarDecl b r := by
  obtain ⟨v, o⟩ := r
  cases v with
  | valid d n t i =>
    simp only [relVarDecl, Ref.map, VarDecl.mapInfo, VarDecl.info, shI_lo, optIdent_sh, optRefType_sh, relInfo_sh]
    congr 1
    omega
  | error i =>
    simp only [relVarDecl, Ref.map, VarDecl.mapInfo, VarDecl.info, shI_lo, relInfo_sh]
    congr 1
    omega

/-- **a moved declaration is the same sub-tree at a moved offset** -/
theorem relDecl_sh (k : Nat) (d : Ref GlobalDecl) :
    relDecl (Ref.map (GlobalDecl.mapInfo (shI k)) d) = ⟨(relDecl d).val, (relDecl d).offset + k⟩ := by
  obtain ⟨v, o⟩ := d
  cases v with
  | type t =>
    simp only [relDecl, Ref.map, GlobalDecl.mapInfo, TypeDecl.mapInfo, GlobalDecl.info, shI_lo, optIdent_sh,
      optRefType_sh, relInfo_sh]
  | proc p =>
    have h1 : ∀ b, (relParam (b + k) ∘ Ref.map fun x => ParamDecl.mapInfo (shI k) x) = relParam b := by
      intro b; funext r; exact relParam_sh b k r
    have h2 : ∀ b, (relVarDecl (b + k) ∘ Ref.map fun x => VarDecl.mapInfo (shI k) x) = relVarDecl b := by
      intro b; funext r; exact relVarDecl_sh b k r
    have h3 : ∀ b, (relRefStmt (b + k) ∘ Ref.map fun x => Stmt.mapInfo (shI k) x) = relRefStmt b := by
      intro b; funext r; exact relRefStmt_sh b k r
    simp only [relDecl, Ref.map, GlobalDecl.mapInfo, ProcDecl.mapInfo, GlobalDecl.info, shI_lo, optIdent_sh,
      relInfo_sh, List.map_map, h1, h2, h3]
  | error i =>
    simp only [relDecl, Ref.map, GlobalDecl.mapInfo, GlobalDecl.info, shI_lo, relInfo_sh]

/-! ### the declarations behind a damaged one -/

open Spl.ParseConform Spl.Parse in
/-- **Declarations behind the damage are parsed exactly as in the undamaged program.**  `A` is the undamaged
    token array, in which the grammar specification derives the declarations `post` from position `e` on (directly
    behind a token).  In the damaged array of `ctx` the same tokens stand from position `s.pos` on.  Then the
    declaration loop, standing there, returns exactly the sub-trees of `post` in the implementation's convention
    (`relDecl`: every node, range, inner `Reference` offset and doc comment), each at its offset moved by the
    difference of the two positions, and goes on at the end of the file. -/
theorem tail_as_before (A : Array Token) (e F : Nat) (post : List (Ref GlobalDecl)) (last : Option Nat)
    (hA : Grammar.decls ⟨A⟩ F (tsFrom A e) = some (post, last)) (hfe : Fresh A e)
    (ctx : Ctx) (s : St) (hsuf : ctx.toks.toList.drop s.pos = A.toList.drop e) (hfs : Fresh ctx.toks s.pos)
    (href : s.refPos = 0) (f : Nat) :
    ∃ endB ieof, s.pos ≤ endB ∧ At ctx { s with pos := endB } [⟨ieof, .Eof⟩] ∧
      many0 (refParse (parseGlobalDecl ctx) none) (f + post.length) s =
        prependRes ((post.map relDecl).map (fun r => ⟨r.val, r.offset - e + s.pos⟩))
          (many0 (refParse (parseGlobalDecl ctx) none) f { s with pos := endB }) := by
  let D : Array Token := (A.toList.drop e).toArray
  have hD : D.toList = A.toList.drop e := by simp [D]
  have okA : DropOK ⟨A⟩ ⟨D⟩ e := dropOK A D e hD hfe
  have okB : DropOK ⟨ctx.toks⟩ ⟨D⟩ s.pos := dropOK ctx.toks D s.pos (hD.trans hsuf.symm) hfs
  have getA : ∀ k, D[k]? = A[k + e]? := by
    intro k
    rw [← Array.getElem?_toList, hD, List.getElem?_drop, Array.getElem?_toList, Nat.add_comm]
  have getB : ∀ k, D[k]? = ctx.toks[k + s.pos]? := by
    intro k
    rw [← Array.getElem?_toList, hD, ← hsuf, List.getElem?_drop, Array.getElem?_toList, Nat.add_comm]
  have tA : shT e (tsFrom D 0) = tsFrom A e := by
    have := tsFrom_drop A D e getA D.size 0 rfl
    simpa using this
  have tB : shT s.pos (tsFrom D 0) = tsFrom ctx.toks s.pos := by
    have := tsFrom_drop ctx.toks D s.pos getB D.size 0 rfl
    simpa using this
  have eA := decls_sh okA F (tsFrom D 0)
  rw [tA, hA] at eA
  cases hDd : Grammar.decls ⟨D⟩ F (tsFrom D 0) with
  | none => rw [hDd] at eA; cases eA
  | some x =>
    obtain ⟨postD, lastD⟩ := x
    rw [hDd] at eA
    simp only [Option.map_some, shD, Option.some.injEq, Prod.mk.injEq] at eA
    obtain ⟨hpost, _⟩ := eA
    have eB := decls_sh okB F (tsFrom D 0)
    rw [tB, hDd] at eB
    simp only [Option.map_some, shD] at eB
    obtain ⟨ieof, hpre⟩ := decls_is_prefix (G ctx) F _ _ _ eB
    have hat : At ctx s (tsFrom ctx.toks s.pos) := ⟨hfs, by omega, rfl⟩
    obtain ⟨endB, hle, hatE, _, hloop⟩ := prefix_conf ctx hpre s f hat href
    refine ⟨endB, ieof, hle, hatE, ?_⟩
    have hlen : post.length = (postD.map (Ref.map (GlobalDecl.mapInfo (shI s.pos)))).length := by
      rw [hpost]; simp
    rw [hlen, hloop]
    congr 1
    rw [hpost]
    simp only [List.map_map]
    apply List.map_congr_left
    intro d _
    simp only [Function.comp, relDecl_sh]
    congr 1
    omega

open Spl.ParseConform Spl.Parse in
/-- the first declaration of a derivation starts where the derivation starts (doc comments included) -/
theorem decls_head_start (ctx : Ctx) (fd : Nat) (ts : Toks) (d : Ref GlobalDecl) (ds : List (Ref GlobalDecl))
    (last : Option Nat) (hs : Grammar.decls (G ctx) fd ts = some (d :: ds, last)) (s : St) (hat : At ctx s ts) :
    d.val.info.range.lo = s.pos := by
  cases fd with
  | zero => simp [Grammar.decls] at hs
  | succ fd =>
    rcases decls_other _ _ _ _ _ hs with ⟨i, _, h0, _⟩ | ⟨i, r, rfl⟩ | ⟨i, r, rfl⟩
    · cases h0
    · obtain ⟨td, k, r4, ds', last', hsp, _, hds, _⟩ := decls_type_flat _ _ _ _ _ _ hs
      obtain ⟨_, _, _, hlead⟩ := hat.head
      cases hds
      show td.info.range.lo = s.pos
      rw [typeDeclSpec_info hsp]
      simpa [mkInfo] using hlead
    · obtain ⟨j, nm, ilp, tylp, r2, ps, irp, tyrp, ilc, tylc, r5, vs, r6, ss, k, tyk, r8, ds', last',
        rfl, _, _, _, _, _, _, _, _, hds, _⟩ := decls_proc_flat _ _ _ _ _ _ hs
      obtain ⟨_, _, _, hlead⟩ := hat.head
      cases hds
      show (mkInfo (G ctx) i k).range.lo = s.pos
      simpa [mkInfo] using hlead

open Spl.ParseConform Spl.Parse in
/-- a derivation of `pre ++ post` contains a derivation of `post`, started directly behind the last token of `pre` -/
theorem decls_split (ctx : Ctx) : ∀ (pre : List (Ref GlobalDecl)) (fd : Nat) (ts : Toks) (post : List (Ref GlobalDecl))
    (last : Option Nat), Grammar.decls (G ctx) fd ts = some (pre ++ post, last) → ∀ (s : St), At ctx s ts →
    ∃ fd' e last', s.pos ≤ e ∧ At ctx { s with pos := e } (tsFrom ctx.toks e) ∧
      Grammar.decls (G ctx) fd' (tsFrom ctx.toks e) = some (post, last')
  | [], fd, ts, post, last, hs, s, hat => by
    refine ⟨fd, s.pos, last, Nat.le_refl _, ?_, ?_⟩
    · rw [st_eta s _ rfl]; exact ⟨hat.fresh, hat.ref, rfl⟩
    · rw [hat.toks]; exact hs
  | d :: pre, 0, ts, post, last, hs, s, hat => by simp [Grammar.decls] at hs
  | d :: pre, fd + 1, ts, post, last, hs, s, hat => by
    rcases decls_other _ _ _ _ _ hs with ⟨i, _, h0, _⟩ | ⟨i, r, rfl⟩ | ⟨i, r, rfl⟩
    · cases h0
    · obtain ⟨td, k, r4, ds', last', hsp, hrec, hds, _⟩ := decls_type_flat _ _ _ _ _ _ hs
      obtain ⟨_, hp1, hat1⟩ := typeDecl_conf ctx hsp (hat.reref ctx)
      have hat1' : At ctx { s with pos := k + 1 } r4 :=
        ⟨hat1.fresh, by have := hat.ref; have := hp1.1; have := hp1.2; simp at *; omega, hat1.toks⟩
      simp only [List.cons_append, List.cons.injEq] at hds
      rw [← hds.2] at hrec
      obtain ⟨fd', e, l', hle, hatE, hd⟩ := decls_split ctx pre fd r4 post last' hrec _ hat1'
      exact ⟨fd', e, l', by have h1 : s.pos ≤ i := hp1.1; have h2 : i < k := hp1.2; have h3 : k + 1 ≤ e := hle; omega, hatE, hd⟩
    · obtain ⟨j, nm, ilp, tylp, r2, ps, irp, tyrp, ilc, tylc, r5, vs, r6, ss, k, tyk, r8, ds', last',
        rfl, klp, hps, krp, klc, hvs, hss, kk, hrec, hds, _⟩ := decls_proc_flat _ _ _ _ _ _ hs
      obtain ⟨_, hp1, _, hat1, _⟩ := procDecl_conf ctx (hat.reref ctx) klp hps krp klc hvs hss kk
      have hat1' : At ctx { s with pos := k + 1 } r8 :=
        ⟨hat1.fresh, by have := hat.ref; have := hp1.1; have := hp1.2; simp at *; omega, hat1.toks⟩
      simp only [List.cons_append, List.cons.injEq] at hds
      rw [← hds.2] at hrec
      obtain ⟨fd', e, l', hle, hatE, hd⟩ := decls_split ctx pre fd r8 post last' hrec _ hat1'
      exact ⟨fd', e, l', by have h1 : s.pos ≤ i := hp1.1; have h2 : i < k := hp1.2; have h3 : k + 1 ≤ e := hle; omega, hatE, hd⟩

end Spl.Shift
