/-
  Refinement of the three-process network (`Net.step` under an arbitrary scheduler) to the
  single-threaded reference `seqRun` (C20).

  `future s` is the output stream a state is committed to: what has been written, what sits in
  the channels and in the processes' hands, what the broker will produce for its queue, and what
  the sequential reference produces for the unread input — in the order a sequential completion
  would emit them.  Every step of every process preserves the two projections of `future` the
  property speaks about (document-related traffic; responses), given an invariant `Inv` about the
  one outstanding `GetInfo`.
-/
import SplVerif.Model.Net

namespace Spl.Net

variable {Uri Text Chg Req Resp Diag : Type}

def BReq.isGet : BReq Uri Text Chg Req → Bool
  | .getInfo .. => true
  | _ => false

def NoGet (l : List (BReq Uri Text Chg Req)) : Prop := ∀ b ∈ l, b.isGet = false

def brokerPend : Broker Uri Resp Diag → List (Out Uri Resp Diag)
  | .idle => []
  | .sendDiag o => [o]

section
variable [DecidableEq Uri] (f : Fns Uri Text Chg Req Resp Diag) (diagOn : Bool) (docCap ioCap : Nat)

def readerFuture (docs : Docs Uri Text) (input : List (CMsg Uri Text Chg Req Resp)) :
    Reader Uri Text Chg Req Resp Diag → List (Out Uri Resp Diag)
  | .idle => seqRun f diagOn docs input
  | .sendDoc b => (handleOut f diagOn docs b).2 ++ seqRun f diagOn (handleOut f diagOn docs b).1 input
  | .waitReply => seqRun f diagOn docs input
  | .sendIo o => o :: seqRun f diagOn docs input

/-- The output stream state `s` is committed to. -/
def future (s : State Uri Text Chg Req Resp Diag) : List (Out Uri Resp Diag) :=
  s.out ++ (s.ioCh ++ (brokerPend s.broker ++ (optList s.reply ++
    ((runBroker f diagOn s.docs s.docCh).2 ++
      readerFuture f diagOn (runBroker f diagOn s.docs s.docCh).1 s.input s.reader))))

/-! ### the broker working off a queue -/

theorem runBroker_append (docs : Docs Uri Text) (a b : List (BReq Uri Text Chg Req)) :
    runBroker f diagOn docs (a ++ b) =
      ((runBroker f diagOn (runBroker f diagOn docs a).1 b).1,
       (runBroker f diagOn docs a).2 ++ (runBroker f diagOn (runBroker f diagOn docs a).1 b).2) := by
  induction a generalizing docs with
  | nil => simp [runBroker]
  | cons x xs ih => simp [runBroker, ih, List.append_assoc]

theorem runBroker_single (docs : Docs Uri Text) (b : BReq Uri Text Chg Req) :
    runBroker f diagOn docs [b] = ((handleOut f diagOn docs b).1, (handleOut f diagOn docs b).2) := by
  simp [runBroker]

theorem handleOut_noGet (docs : Docs Uri Text) (b : BReq Uri Text Chg Req) (h : b.isGet = false) :
    ∀ o ∈ (handleOut f diagOn docs b).2, o.isResp = false ∧ o.isDocRelated = true := by
  intro o ho
  cases b with
  | getInfo id u r => simp [BReq.isGet] at h
  | «open» u t =>
    cases diagOn <;> simp [handleOut, brokerHandle, optList] at ho
    subst ho; simp [Out.isResp, Out.isDocRelated]
  | change u c =>
    simp only [handleOut, brokerHandle] at ho
    cases hg : docs.get u with
    | none => simp [hg, optList] at ho
    | some t =>
      cases diagOn <;> simp [hg, optList] at ho
      subst ho; simp [Out.isResp, Out.isDocRelated]
  | close u => simp [handleOut, brokerHandle, optList] at ho

theorem runBroker_noGet (docs : Docs Uri Text) (l : List (BReq Uri Text Chg Req)) (h : NoGet l) :
    ∀ o ∈ (runBroker f diagOn docs l).2, o.isResp = false ∧ o.isDocRelated = true := by
  induction l generalizing docs with
  | nil => simp [runBroker]
  | cons b bs ih =>
    intro o ho
    simp only [runBroker, List.mem_append] at ho
    cases ho with
    | inl h1 => exact handleOut_noGet f diagOn docs b (h b (by simp)) o h1
    | inr h2 => exact ih _ (fun x hx => h x (by simp [hx])) o h2

end

/-! ### what one broker request produces -/

section
variable [DecidableEq Uri] (f : Fns Uri Text Chg Req Resp Diag) (diagOn : Bool)

theorem brokerHandle_diag (docs : Docs Uri Text) (b : BReq Uri Text Chg Req) (o : Out Uri Resp Diag)
    (h : (brokerHandle f diagOn docs b).2.1 = some o) : o.isResp = false ∧ o.isDocRelated = true := by
  cases b with
  | getInfo id u r => simp [brokerHandle] at h
  | «open» u t =>
    cases diagOn <;> simp [brokerHandle] at h
    subst h; simp [Out.isResp, Out.isDocRelated]
  | change u c =>
    simp only [brokerHandle] at h
    cases hg : docs.get u with
    | none => simp [hg] at h
    | some t =>
      cases diagOn <;> simp [hg] at h
      subst h; simp [Out.isResp, Out.isDocRelated]
  | close u => simp [brokerHandle] at h

theorem brokerHandle_reply_noGet (docs : Docs Uri Text) (b : BReq Uri Text Chg Req)
    (h : b.isGet = false) : (brokerHandle f diagOn docs b).2.2 = none := by
  cases b with
  | getInfo id u r => simp [BReq.isGet] at h
  | «open» u t => simp [brokerHandle]
  | change u c =>
    simp only [brokerHandle]
    cases docs.get u <;> simp
  | close u => simp [brokerHandle]

theorem brokerHandle_get (docs : Docs Uri Text) (b : BReq Uri Text Chg Req) (h : b.isGet = true) :
    (brokerHandle f diagOn docs b).2.1 = none ∧
    ∃ o, (brokerHandle f diagOn docs b).2.2 = some o ∧ o.isResp = true ∧ o.isDocRelated = true := by
  cases b with
  | getInfo id u r => simp [brokerHandle, Out.isResp, Out.isDocRelated]
  | «open» u t => simp [BReq.isGet] at h
  | change u c => simp [BReq.isGet] at h
  | close u => simp [BReq.isGet] at h

end

/-! ### list facts -/

theorem filter_eq_nil_of_all_false {α} (p : α → Bool) (l : List α) (h : ∀ x ∈ l, p x = false) :
    l.filter p = [] := by
  induction l with
  | nil => rfl
  | cons x xs ih =>
    have hx := h x (by simp)
    simp [List.filter_cons, hx, ih (fun y hy => h y (by simp [hy]))]

theorem filter_eq_self_of_all_true {α} (p : α → Bool) (l : List α) (h : ∀ x ∈ l, p x = true) :
    l.filter p = l := by
  induction l with
  | nil => rfl
  | cons x xs ih =>
    have hx := h x (by simp)
    simp [List.filter_cons, hx, ih (fun y hy => h y (by simp [hy]))]

/-! ### the invariant and the projections -/

/-- At most one `GetInfo` is outstanding, and the reader is waiting for exactly that one. -/
structure Inv (s : State Uri Text Chg Req Resp Diag) : Prop where
  brokerDiag : ∀ o, s.broker = .sendDiag o → o.isResp = false ∧ o.isDocRelated = true
  replyWait : ∀ o, s.reply = some o →
    s.reader = .waitReply ∧ s.docCh = [] ∧ s.broker = .idle ∧ o.isDocRelated = true ∧ o.isResp = true
  waitGet : s.reader = .waitReply → s.reply = none →
    ∃ pre b, s.docCh = pre ++ [b] ∧ NoGet pre ∧ b.isGet = true
  notWait : s.reader ≠ .waitReply → NoGet s.docCh
  sendIo : ∀ o, s.reader = .sendIo o →
    o.isResp = true ∧ (o.isDocRelated = true → s.docCh = [] ∧ s.broker = .idle)

/-- Two output streams agree on what the property observes. -/
def Agree (a b : List (Out Uri Resp Diag)) : Prop :=
  a.filter Out.isDocRelated = b.filter Out.isDocRelated ∧ a.filter Out.isResp = b.filter Out.isResp

theorem Agree.of_eq {a b : List (Out Uri Resp Diag)} (h : a = b) : Agree a b := by
  subst h; exact ⟨rfl, rfl⟩

theorem Agree.trans {a b c : List (Out Uri Resp Diag)} (h1 : Agree a b) (h2 : Agree b c) : Agree a c :=
  ⟨h1.1.trans h2.1, h1.2.trans h2.2⟩

theorem inv_init (input : List (CMsg Uri Text Chg Req Resp)) :
    Inv (init input : State Uri Text Chg Req Resp Diag) := by
  refine ⟨?_, ?_, ?_, ?_, ?_⟩ <;> simp [init, NoGet]

section
variable [DecidableEq Uri] (f : Fns Uri Text Chg Req Resp Diag) (diagOn : Bool) (docCap ioCap : Nat)

theorem step_responder (s s' : State Uri Text Chg Req Resp Diag) (hinv : Inv s)
    (h : step f diagOn docCap ioCap s .responder = some s') :
    Inv s' ∧ future f diagOn s' = future f diagOn s := by
  simp only [step] at h
  cases hio : s.ioCh with
  | nil => simp [hio] at h
  | cons o rest =>
    simp only [hio, Option.some.injEq] at h
    subst h
    refine ⟨⟨hinv.brokerDiag, hinv.replyWait, hinv.waitGet, hinv.notWait, hinv.sendIo⟩, ?_⟩
    simp [future, hio, List.append_assoc]

theorem step_broker_send (s s' : State Uri Text Chg Req Resp Diag) (hinv : Inv s)
    (o : Out Uri Resp Diag) (hb : s.broker = .sendDiag o)
    (h : step f diagOn docCap ioCap s .broker = some s') :
    Inv s' ∧ future f diagOn s' = future f diagOn s := by
  simp only [step, hb] at h
  split at h
  · simp only [Option.some.injEq] at h
    subst h
    refine ⟨⟨?_, ?_, hinv.waitGet, hinv.notWait, ?_⟩, ?_⟩
    · intro o' ho'; simp at ho'
    · intro o' ho'
      have := (hinv.replyWait o' ho').2.2.1
      rw [hb] at this; cases this
    · intro o' ho'
      have h1 := hinv.sendIo o' ho'
      exact ⟨h1.1, fun hd => ⟨(h1.2 hd).1, rfl⟩⟩
    · simp [future, hb, brokerPend, List.append_assoc]
  · cases h

omit [DecidableEq Uri] in
theorem noGet_cons {b : BReq Uri Text Chg Req} {l : List (BReq Uri Text Chg Req)} (h : NoGet (b :: l)) :
    b.isGet = false ∧ NoGet l :=
  ⟨h b (by simp), fun x hx => h x (by simp [hx])⟩

theorem step_broker_take (s s' : State Uri Text Chg Req Resp Diag) (hinv : Inv s)
    (hb : s.broker = .idle) (b : BReq Uri Text Chg Req) (rest : List (BReq Uri Text Chg Req))
    (hd : s.docCh = b :: rest)
    (h : step f diagOn docCap ioCap s .broker = some s') :
    Inv s' ∧ future f diagOn s' = future f diagOn s := by
  have hreply : s.reply = none := by
    cases hr : s.reply with
    | none => rfl
    | some o =>
      have := (hinv.replyWait o hr).2.1
      rw [hd] at this; cases this
  simp only [step, hb, hd] at h
  generalize hr : brokerHandle f diagOn s.docs b = r at h
  obtain ⟨d', dg, rp⟩ := r
  simp only [Option.some.injEq] at h
  subst h
  have hdg : (brokerHandle f diagOn s.docs b).2.1 = dg := by rw [hr]
  have hrp : (brokerHandle f diagOn s.docs b).2.2 = rp := by rw [hr]
  have hd' : (brokerHandle f diagOn s.docs b).1 = d' := by rw [hr]
  refine ⟨⟨?_, ?_, ?_, ?_, ?_⟩, ?_⟩
  · -- brokerDiag
    intro o ho
    cases dg with
    | none => simp at ho
    | some o' =>
      simp only [Broker.sendDiag.injEq] at ho
      subst ho
      exact brokerHandle_diag f diagOn s.docs b o' hdg
  · -- replyWait
    intro o ho
    cases hg : b.isGet with
    | false =>
      have := brokerHandle_reply_noGet f diagOn s.docs b hg
      rw [hrp] at this; subst this
      simp [hreply] at ho
    | true =>
      obtain ⟨h1, o', h2, h3, h4⟩ := brokerHandle_get f diagOn s.docs b hg
      rw [hrp] at h2; subst h2
      rw [hdg] at h1; subst h1
      simp only [Option.some.injEq] at ho
      subst ho
      have hw : s.reader = .waitReply := by
        apply Classical.byContradiction
        intro hne
        have := (noGet_cons (hd ▸ hinv.notWait hne)).1
        rw [hg] at this; cases this
      obtain ⟨pre, g, hpre, hng, _⟩ := hinv.waitGet hw hreply
      rw [hd] at hpre
      cases pre with
      | nil =>
        simp only [List.nil_append, List.cons.injEq] at hpre
        exact ⟨hw, hpre.2, rfl, h4, h3⟩
      | cons x xs =>
        simp only [List.cons_append, List.cons.injEq] at hpre
        have := hng x (by simp)
        rw [← hpre.1, hg] at this; cases this
  · -- waitGet
    intro hw hrn
    obtain ⟨pre, g, hpre, hng, hgg⟩ := hinv.waitGet hw hreply
    rw [hd] at hpre
    cases pre with
    | nil =>
      simp only [List.nil_append, List.cons.injEq] at hpre
      obtain ⟨_, o', h2, _, _⟩ := brokerHandle_get f diagOn s.docs b (hpre.1 ▸ hgg)
      rw [hrp] at h2; subst h2
      simp at hrn
    | cons x xs =>
      simp only [List.cons_append, List.cons.injEq] at hpre
      exact ⟨xs, g, hpre.2, fun y hy => hng y (by simp [hy]), hgg⟩
  · -- notWait
    intro hne
    exact (noGet_cons (hd ▸ hinv.notWait hne)).2
  · -- sendIo
    intro o ho
    have h1 := hinv.sendIo o ho
    refine ⟨h1.1, fun hdr => ?_⟩
    have := (h1.2 hdr).1
    rw [hd] at this; cases this
  · -- future
    simp only [future, hd, hb, hreply, runBroker, handleOut, hdg, hrp, hd', brokerPend, optList,
      List.nil_append, List.append_assoc]
    cases dg <;> cases rp <;> rfl

theorem reply_none_of_not_wait (s : State Uri Text Chg Req Resp Diag) (hinv : Inv s)
    (hne : s.reader ≠ .waitReply) : s.reply = none := by
  cases hr : s.reply with
  | none => rfl
  | some o => exact absurd (hinv.replyWait o hr).1 hne

theorem step_reader_idle (s s' : State Uri Text Chg Req Resp Diag) (hinv : Inv s)
    (hr : s.reader = .idle)
    (h : step f diagOn docCap ioCap s .reader = some s') :
    Inv s' ∧ future f diagOn s' = future f diagOn s := by
  have hne : s.reader ≠ .waitReply := by rw [hr]; intro hh; cases hh
  have hreply := reply_none_of_not_wait s hinv hne
  have hng := hinv.notWait hne
  simp only [step, hr] at h
  cases hi : s.input with
  | nil => simp [hi] at h
  | cons m rest =>
    cases m <;> simp only [hi, Option.some.injEq] at h <;> subst h <;>
      refine ⟨⟨hinv.brokerDiag, ?_, ?_, ?_, ?_⟩, ?_⟩ <;>
      first
        | (intro o ho; simp [hreply] at ho; done)
        | (intro hh; cases hh; done)
        | (intro _; exact hng)
        | (intro o ho; cases ho; simp [Out.isResp, Out.isDocRelated]; done)
        | (intro o ho; cases ho; done)
        | (simp [future, readerFuture, hr, hi, seqRun, toBReq]; done)

theorem step_reader_sendDoc (s s' : State Uri Text Chg Req Resp Diag) (hinv : Inv s)
    (b : BReq Uri Text Chg Req) (hr : s.reader = .sendDoc b)
    (h : step f diagOn docCap ioCap s .reader = some s') :
    Inv s' ∧ future f diagOn s' = future f diagOn s := by
  have hne : s.reader ≠ .waitReply := by rw [hr]; intro hh; cases hh
  have hreply := reply_none_of_not_wait s hinv hne
  have hng := hinv.notWait hne
  simp only [step, hr] at h
  split at h
  · simp only [Option.some.injEq] at h
    subst h
    have hfut : ∀ rd : Reader Uri Text Chg Req Resp Diag, (rd = .idle ∨ rd = .waitReply) →
        future f diagOn { s with docCh := s.docCh ++ [b], reader := rd } = future f diagOn s := by
      intro rd hrd
      simp only [future, runBroker_append, runBroker_single, hr, readerFuture, List.append_assoc]
      cases hrd with
      | inl h1 => subst h1; rfl
      | inr h1 => subst h1; rfl
    cases hg : b.isGet with
    | true =>
      cases b with
      | getInfo id u r =>
        refine ⟨⟨hinv.brokerDiag, ?_, ?_, ?_, ?_⟩, hfut _ (Or.inr rfl)⟩
        · intro o ho; simp [hreply] at ho
        · intro _ _; exact ⟨s.docCh, _, rfl, hng, rfl⟩
        · intro hh; exact absurd rfl hh
        · intro o ho; cases ho
      | «open» u t => simp [BReq.isGet] at hg
      | change u c => simp [BReq.isGet] at hg
      | close u => simp [BReq.isGet] at hg
    | false =>
      have hng' : NoGet (s.docCh ++ [b]) := by
        intro x hx
        simp only [List.mem_append, List.mem_singleton] at hx
        cases hx with
        | inl h1 => exact hng x h1
        | inr h1 => rw [h1]; exact hg
      cases b with
      | getInfo id u r => simp [BReq.isGet] at hg
      | «open» u t =>
        refine ⟨⟨hinv.brokerDiag, ?_, ?_, fun _ => hng', ?_⟩, hfut _ (Or.inl rfl)⟩
        · intro o ho; simp [hreply] at ho
        · intro hh; cases hh
        · intro o ho; cases ho
      | change u c =>
        refine ⟨⟨hinv.brokerDiag, ?_, ?_, fun _ => hng', ?_⟩, hfut _ (Or.inl rfl)⟩
        · intro o ho; simp [hreply] at ho
        · intro hh; cases hh
        · intro o ho; cases ho
      | close u =>
        refine ⟨⟨hinv.brokerDiag, ?_, ?_, fun _ => hng', ?_⟩, hfut _ (Or.inl rfl)⟩
        · intro o ho; simp [hreply] at ho
        · intro hh; cases hh
        · intro o ho; cases ho
  · cases h

theorem step_reader_wait (s s' : State Uri Text Chg Req Resp Diag) (hinv : Inv s)
    (hr : s.reader = .waitReply)
    (h : step f diagOn docCap ioCap s .reader = some s') :
    Inv s' ∧ future f diagOn s' = future f diagOn s := by
  simp only [step, hr] at h
  cases hrp : s.reply with
  | none => simp [hrp] at h
  | some o =>
    simp only [hrp, Option.some.injEq] at h
    subst h
    obtain ⟨_, hdc, hbi, hdr, hrs⟩ := hinv.replyWait o hrp
    refine ⟨⟨hinv.brokerDiag, ?_, ?_, ?_, ?_⟩, ?_⟩
    · intro o' ho'; cases ho'
    · intro hh; cases hh
    · intro _; rw [hdc]; intro x hx; cases hx
    · intro o' ho'
      simp only [Reader.sendIo.injEq] at ho'
      subst ho'
      exact ⟨hrs, fun _ => ⟨hdc, hbi⟩⟩
    · simp [future, readerFuture, hr, hrp, hdc, hbi, runBroker, brokerPend, optList]

theorem step_reader_sendIo (s s' : State Uri Text Chg Req Resp Diag) (hinv : Inv s)
    (o : Out Uri Resp Diag) (hr : s.reader = .sendIo o)
    (h : step f diagOn docCap ioCap s .reader = some s') :
    Inv s' ∧ Agree (future f diagOn s') (future f diagOn s) := by
  have hne : s.reader ≠ .waitReply := by rw [hr]; intro hh; cases hh
  have hreply := reply_none_of_not_wait s hinv hne
  have hng := hinv.notWait hne
  obtain ⟨hresp, hvia⟩ := hinv.sendIo o hr
  simp only [step, hr] at h
  split at h
  · simp only [Option.some.injEq] at h
    subst h
    refine ⟨⟨hinv.brokerDiag, ?_, ?_, fun _ => hng, ?_⟩, ?_⟩
    · intro o' ho'; simp [hreply] at ho'
    · intro hh; cases hh
    · intro o' ho'; cases ho'
    · cases hdr : o.isDocRelated with
      | true =>
        obtain ⟨hdc, hbi⟩ := hvia hdr
        apply Agree.of_eq
        simp [future, readerFuture, hr, hreply, hdc, hbi, runBroker, brokerPend, optList]
      | false =>
        have hbp : ∀ x ∈ brokerPend s.broker, x.isResp = false ∧ x.isDocRelated = true := by
          intro x hx
          cases hb : s.broker with
          | idle => simp [hb, brokerPend] at hx
          | sendDiag d =>
            simp only [hb, brokerPend, List.mem_singleton] at hx
            subst hx
            exact hinv.brokerDiag _ hb
        have hrb := runBroker_noGet f diagOn s.docs s.docCh hng
        have e1 : (brokerPend s.broker).filter Out.isResp = [] :=
          filter_eq_nil_of_all_false _ _ (fun x hx => (hbp x hx).1)
        have e2 : ((runBroker f diagOn s.docs s.docCh).2).filter Out.isResp = [] :=
          filter_eq_nil_of_all_false _ _ (fun x hx => (hrb x hx).1)
        constructor
        · simp [future, readerFuture, hr, hreply, optList, List.filter_append, List.filter_cons, hdr]
        · simp [future, readerFuture, hr, hreply, optList, List.filter_append, List.filter_cons, hresp, e1, e2]
  · cases h

/-- **One step of any process** keeps the invariant and the observable projections of `future`. -/
theorem step_agree (s s' : State Uri Text Chg Req Resp Diag) (p : Proc) (hinv : Inv s)
    (h : step f diagOn docCap ioCap s p = some s') :
    Inv s' ∧ Agree (future f diagOn s') (future f diagOn s) := by
  cases p with
  | responder =>
    have := step_responder f diagOn docCap ioCap s s' hinv h
    exact ⟨this.1, Agree.of_eq this.2⟩
  | broker =>
    cases hb : s.broker with
    | sendDiag o =>
      have := step_broker_send f diagOn docCap ioCap s s' hinv o hb h
      exact ⟨this.1, Agree.of_eq this.2⟩
    | idle =>
      cases hd : s.docCh with
      | nil => simp [step, hb, hd] at h
      | cons b rest =>
        have := step_broker_take f diagOn docCap ioCap s s' hinv hb b rest hd h
        exact ⟨this.1, Agree.of_eq this.2⟩
  | reader =>
    cases hr : s.reader with
    | idle =>
      have := step_reader_idle f diagOn docCap ioCap s s' hinv hr h
      exact ⟨this.1, Agree.of_eq this.2⟩
    | sendDoc b =>
      have := step_reader_sendDoc f diagOn docCap ioCap s s' hinv b hr h
      exact ⟨this.1, Agree.of_eq this.2⟩
    | waitReply =>
      have := step_reader_wait f diagOn docCap ioCap s s' hinv hr h
      exact ⟨this.1, Agree.of_eq this.2⟩
    | sendIo o => exact step_reader_sendIo f diagOn docCap ioCap s s' hinv o hr h

/-- Every schedule, of any length, from a state satisfying the invariant. -/
theorem runSchedule_agree (s : State Uri Text Chg Req Resp Diag) (sched : List Proc) (hinv : Inv s) :
    Inv (runSchedule f diagOn docCap ioCap s sched) ∧
    Agree (future f diagOn (runSchedule f diagOn docCap ioCap s sched)) (future f diagOn s) := by
  induction sched generalizing s with
  | nil => exact ⟨hinv, Agree.of_eq rfl⟩
  | cons p ps ih =>
    simp only [runSchedule]
    cases hs : step f diagOn docCap ioCap s p with
    | none => exact ih s hinv
    | some s' =>
      have h1 := step_agree f diagOn docCap ioCap s s' p hinv hs
      have h2 := ih s' h1.1
      exact ⟨h2.1, h2.2.trans h1.2⟩

/-- In a final state nothing is pending: the committed stream is what has been written. -/
theorem future_final (s : State Uri Text Chg Req Resp Diag) (hinv : Inv s) (hf : isFinal s = true) :
    future f diagOn s = s.out := by
  simp only [isFinal, Bool.and_eq_true, List.isEmpty_iff] at hf
  obtain ⟨⟨⟨⟨hi, hd⟩, hio⟩, hr⟩, hb⟩ := hf
  have hr' : s.reader = .idle := by
    cases h : s.reader <;> simp [h] at hr
    rfl
  have hb' : s.broker = .idle := by
    cases h : s.broker <;> simp [h] at hb
    rfl
  have hne : s.reader ≠ .waitReply := by rw [hr']; intro hh; cases hh
  have hreply := reply_none_of_not_wait s hinv hne
  simp [future, readerFuture, hi, hd, hio, hr', hb', hreply, runBroker, brokerPend, optList, seqRun]

theorem future_init (input : List (CMsg Uri Text Chg Req Resp)) :
    future f diagOn (init input : State Uri Text Chg Req Resp Diag) = seqRun f diagOn [] input := by
  simp [future, init, readerFuture, runBroker, brokerPend, optList]

/-- **Progress**: with channel capacities ≥ 1, a state that is not final has an enabled process —
    the network cannot deadlock (the client draining stdout is the responder's step). -/
theorem progress (s : State Uri Text Chg Req Resp Diag) (hinv : Inv s)
    (hdc : 1 ≤ docCap) (hic : 1 ≤ ioCap) (hnf : isFinal s = false) :
    ∃ p, (step f diagOn docCap ioCap s p).isSome = true := by
  cases hio : s.ioCh with
  | cons o rest => exact ⟨.responder, by simp [step, hio]⟩
  | nil =>
    have hlen : s.ioCh.length < ioCap := by rw [hio]; exact hic
    cases hb : s.broker with
    | sendDiag o => exact ⟨.broker, by simp [step, hb, hlen]⟩
    | idle =>
      cases hd : s.docCh with
      | cons b rest => exact ⟨.broker, by simp [step, hb, hd]⟩
      | nil =>
        cases hr : s.reader with
        | sendIo o => exact ⟨.reader, by simp [step, hr, hlen]⟩
        | sendDoc b =>
          have : s.docCh.length < docCap := by rw [hd]; exact hdc
          exact ⟨.reader, by simp [step, hr, this]⟩
        | waitReply =>
          cases hrp : s.reply with
          | some o => exact ⟨.reader, by simp [step, hr, hrp]⟩
          | none =>
            obtain ⟨pre, g, hpre, _, _⟩ := hinv.waitGet hr hrp
            rw [hd] at hpre
            cases pre <;> simp at hpre
        | idle =>
          cases hi : s.input with
          | nil => simp [isFinal, hi, hd, hio, hr, hb] at hnf
          | cons m rest =>
            refine ⟨.reader, ?_⟩
            cases m <;> simp [step, hr, hi]

/-! ### termination measure -/

def readerW : Reader Uri Text Chg Req Resp Diag → Nat
  | .idle => 0
  | .sendDoc _ => 5
  | .waitReply => 1
  | .sendIo _ => 2

def brokerW : Broker Uri Resp Diag → Nat
  | .idle => 0
  | .sendDiag _ => 2

/-- Work left: every step of every process strictly decreases it. -/
def measure (s : State Uri Text Chg Req Resp Diag) : Nat :=
  6 * s.input.length + readerW s.reader + 3 * s.docCh.length + brokerW s.broker +
    (match s.reply with | some _ => 2 | none => 0) + s.ioCh.length

theorem step_decreases (s s' : State Uri Text Chg Req Resp Diag) (p : Proc) (hinv : Inv s)
    (h : step f diagOn docCap ioCap s p = some s') : measure s' < measure s := by
  cases p with
  | responder =>
    simp only [step] at h
    cases hio : s.ioCh with
    | nil => simp [hio] at h
    | cons o rest =>
      simp only [hio, Option.some.injEq] at h
      subst h
      simp [measure, hio]
  | broker =>
    cases hb : s.broker with
    | sendDiag o =>
      simp only [step, hb] at h
      split at h
      · simp only [Option.some.injEq] at h
        subst h
        simp [measure, hb, brokerW]; omega
      · cases h
    | idle =>
      cases hd : s.docCh with
      | nil => simp [step, hb, hd] at h
      | cons b rest =>
        have hreply : s.reply = none := by
          cases hr : s.reply with
          | none => rfl
          | some o =>
            have := (hinv.replyWait o hr).2.1
            rw [hd] at this; cases this
        simp only [step, hb, hd] at h
        generalize hr : brokerHandle f diagOn s.docs b = r at h
        obtain ⟨d', dg, rp⟩ := r
        simp only [Option.some.injEq] at h
        subst h
        have hdg : (brokerHandle f diagOn s.docs b).2.1 = dg := by rw [hr]
        have hrp : (brokerHandle f diagOn s.docs b).2.2 = rp := by rw [hr]
        cases hg : b.isGet with
        | false =>
          have := brokerHandle_reply_noGet f diagOn s.docs b hg
          rw [hrp] at this; subst this
          cases dg <;> simp [measure, hb, hd, hreply, brokerW] <;> omega
        | true =>
          obtain ⟨h1, o', h2, _, _⟩ := brokerHandle_get f diagOn s.docs b hg
          rw [hrp] at h2; subst h2
          rw [hdg] at h1; subst h1
          simp [measure, hb, hd, hreply, brokerW]; omega
  | reader =>
    cases hr : s.reader with
    | idle =>
      simp only [step, hr] at h
      cases hi : s.input with
      | nil => simp [hi] at h
      | cons m rest =>
        cases m <;> simp only [hi, Option.some.injEq] at h <;> subst h <;>
          simp [measure, hr, hi, readerW] <;> omega
    | sendDoc b =>
      simp only [step, hr] at h
      split at h
      · simp only [Option.some.injEq] at h
        subst h
        cases b <;> simp [measure, hr, readerW] <;> omega
      · cases h
    | waitReply =>
      simp only [step, hr] at h
      cases hrp : s.reply with
      | none => simp [hrp] at h
      | some o =>
        simp only [hrp, Option.some.injEq] at h
        subst h
        simp [measure, hr, hrp, readerW]; omega
    | sendIo o =>
      simp only [step, hr] at h
      split at h
      · simp only [Option.some.injEq] at h
        subst h
        simp [measure, hr, readerW]; omega
      · cases h

end

end Spl.Net
