/-
  Lemmas for C17 (well-formed folding ranges): `as_position` is monotone on character
  boundaries, and the tokens of an analysed document are ordered.
-/
import SplVerif.Props.C08
import SplVerif.Lemmas.IncLex
import SplVerif.Model.Features

namespace Spl.FoldPos
open Spl

/-- Walking to a later boundary passes through the state reached at an earlier one. -/
theorem asPositionGo_compose : ∀ (a rest : List Char) (i l c k : Nat),
    asPositionGo (a ++ rest) i (i + utf8Len a + k) l c =
      asPositionGo rest (i + utf8Len a) (i + utf8Len a + k)
        (asPositionGo (a ++ rest) i (i + utf8Len a) l c).line
        (asPositionGo (a ++ rest) i (i + utf8Len a) l c).col
  | [], rest, i, l, c, k => by
    cases rest with
    | nil => simp [asPositionGo]
    | cons ch r => simp [asPositionGo]
  | ch :: a', rest, i, l, c, k => by
    have hsz := utf8Size_pos ch
    have hne1 : (i == i + utf8Len (ch :: a') + k) = false := by
      simp only [utf8Len_cons, beq_eq_false_iff_ne, ne_eq]; omega
    have hne2 : (i == i + utf8Len (ch :: a')) = false := by
      simp only [utf8Len_cons, beq_eq_false_iff_ne, ne_eq]; omega
    have e1 : i + utf8Len (ch :: a') + k = (i + ch.utf8Size) + utf8Len a' + k := by
      simp only [utf8Len_cons]; omega
    have e2 : i + utf8Len (ch :: a') = (i + ch.utf8Size) + utf8Len a' := by
      simp only [utf8Len_cons]; omega
    rw [List.cons_append]
    rw [asPositionGo, asPositionGo.eq_def (ch :: (a' ++ rest)) i (i + utf8Len (ch :: a'))]
    simp only [hne1, hne2, Bool.false_eq_true, if_false]
    split
    · rw [e1, e2]; exact asPositionGo_compose a' rest _ _ _ k
    · split
      · rw [e1, e2]; exact asPositionGo_compose a' rest _ _ _ k
      · rw [e1, e2]; exact asPositionGo_compose a' rest _ _ _ k

/-- **`as_position` is monotone in the line** on character boundaries. -/
theorem asPosition_line_mono (a b c : List Char) :
    (asPosition (utf8Len a) (a ++ (b ++ c))).line ≤ (asPosition (utf8Len (a ++ b)) (a ++ (b ++ c))).line := by
  have h := asPositionGo_compose a (b ++ c) 0 0 0 (utf8Len b)
  simp only [Nat.zero_add] at h
  simp only [asPosition, utf8Len_append]
  rw [h]
  have hm := C08.asPositionGo_mono (b ++ c) (utf8Len a) (utf8Len a + utf8Len b)
    (asPositionGo (a ++ (b ++ c)) 0 (utf8Len a) 0 0).line (asPositionGo (a ++ (b ++ c)) 0 (utf8Len a) 0 0).col
  omega

/-- every range bound of a token of `lex text` is a character boundary of the text -/
theorem token_bounds_are_cuts (text : List Char) (toks : List Token) (h : lex text = .ok toks) :
    ∀ t ∈ toks, (∃ a b, text = a ++ b ∧ utf8Len a = t.range.lo) ∧ (∃ a b, text = a ++ b ∧ utf8Len a = t.range.hi) := by
  have hl : toks = lexL text 0 ++ [eofToken (utf8Len text)] := by
    simp only [lex, lexGo_eq_lexL] at h
    cases h; rfl
  intro t ht
  rw [hl] at ht
  rcases List.mem_append.mp ht with h1 | h1
  · obtain ⟨T1, T2, e⟩ := List.append_of_mem h1
    obtain ⟨a, b, s1, p1, _⟩ := cut_at_start text 0 T1 t T2 e
    obtain ⟨a', b', s2, p2, _⟩ := cut_at_end text 0 T1 t T2 e
    exact ⟨⟨a, b, s1, by omega⟩, ⟨a', b', s2, by omega⟩⟩
  · simp only [List.mem_singleton] at h1
    subst h1
    exact ⟨⟨text, [], by simp, rfl⟩, ⟨text, [], by simp, rfl⟩⟩

/-- tokens of `lex text` are ordered: an earlier token starts no later than a later one ends -/
theorem tokens_ordered (text : List Char) (toks : List Token) (h : lex text = .ok toks) :
    toks.Pairwise (fun x y => x.range.lo ≤ y.range.hi) ∧ ∀ t ∈ toks, t.range.lo ≤ t.range.hi := by
  have hl : toks = lexL text 0 ++ [eofToken (utf8Len text)] := by
    simp only [lex, lexGo_eq_lexL] at h
    cases h; rfl
  have hb := lexL_bounds text 0
  have hs := lexL_sorted text 0
  constructor
  · rw [hl, List.pairwise_append]
    refine ⟨?_, by simp, ?_⟩
    · refine List.Pairwise.imp_of_mem ?_ hs
      intro x y hx hy hxy
      have := (hb x hx).1
      have := (hb y hy).1
      omega
    · intro x hx y hy
      simp only [List.mem_singleton] at hy
      subst hy
      have := hb x hx
      simp only [eofToken]
      omega
  · intro t ht
    rw [hl] at ht
    rcases List.mem_append.mp ht with h1 | h1
    · have := (hb t h1).1; omega
    · simp only [List.mem_singleton] at h1
      subst h1; simp [eofToken]

/-- tokens of `lex text` do not overlap: an earlier token ends no later than a later one starts -/
theorem tokens_sorted (text : List Char) (toks : List Token) (h : lex text = .ok toks) :
    toks.Pairwise (fun x y => x.range.hi ≤ y.range.lo) := by
  have hl : toks = lexL text 0 ++ [eofToken (utf8Len text)] := by
    simp only [lex, lexGo_eq_lexL] at h
    cases h; rfl
  have hb := lexL_bounds text 0
  rw [hl, List.pairwise_append]
  refine ⟨lexL_sorted text 0, by simp, ?_⟩
  intro x hx y hy
  simp only [List.mem_singleton] at hy
  subst hy
  have := hb x hx
  simp only [eofToken]
  omega

end Spl.FoldPos
