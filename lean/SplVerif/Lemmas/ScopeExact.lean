/-
  Lemmas for C16: for a well-typed program the symbol tables hold exactly the names the program declares —
  per procedure its parameters and local variables, in order; globally the predefined and the declared
  procedures and types.  (From the simulation of `Lemmas/TypingSound` between the typing specification's
  environments and the implementation's tables.)
-/
import SplVerif.Lemmas.TypingSound
import SplVerif.Model.Features

namespace Spl.ScopeExact
open Spl Spl.Typing Spl.TypingSound Spl.Feat

def paramName (p : Ref ParamDecl) : Option (List Char) :=
  match p.val with
  | .valid _ _ (some n) _ _ => some n.value
  | _ => none

def varName (v : Ref VarDecl) : Option (List Char) :=
  match v.val with
  | .valid _ (some n) _ _ => some n.value
  | _ => none

def procName : GEntry → Option (List Char)
  | .proc s => some s.name
  | .type _ _ => none

def typeName : GEntry → Option (List Char)
  | .type n _ => some n
  | .proc _ => none

def declProcName (d : Ref GlobalDecl) : Option (List Char) :=
  match d.val with
  | .proc pd => pd.name.map (·.value)
  | _ => none

def declTypeName (d : Ref GlobalDecl) : Option (List Char) :=
  match d.val with
  | .type td => td.name.map (·.value)
  | _ => none

theorem localRel_names : ∀ {vs : List VarInfo} {l : LocalTable}, LocalRel vs l → l.map (·.1) = vs.map (·.name)
  | [], [], _ => rfl
  | v :: vs, (k, e) :: l, h => by
    obtain ⟨h1, _, h3⟩ := h
    simp [h1, localRel_names h3]
  | [], _ :: _, h => by simp [LocalRel] at h
  | _ :: _, [], h => by simp [LocalRel] at h

theorem searchProcedures_cons (k : List Char) (v : GlobalEntry) (t : GlobalTable) :
    (searchProcedures ((k, v) :: t)).map (·.label) =
      (match v with | .procedure _ => [k] | .type _ => []) ++ (searchProcedures t).map (·.label) := by
  cases v <;> simp [searchProcedures, entryItem]

theorem searchTypes_cons (k : List Char) (v : GlobalEntry) (t : GlobalTable) :
    (searchTypes ((k, v) :: t)).map (·.label) =
      (match v with | .type _ => [k] | .procedure _ => []) ++ (searchTypes t).map (·.label) := by
  cases v <;> simp [searchTypes, entryItem]

theorem corr_procs : ∀ {g : GEnv} {t : GlobalTable}, Corr g t →
    (searchProcedures t).map (·.label) = g.filterMap procName ∧ (searchTypes t).map (·.label) = g.filterMap typeName
  | [], [], _ => ⟨rfl, rfl⟩
  | e :: g, (k, v) :: t, h => by
    obtain ⟨h1, h2⟩ := h
    obtain ⟨ih1, ih2⟩ := corr_procs h2
    rw [searchProcedures_cons, searchTypes_cons, ih1, ih2]
    cases e with
    | type n ty =>
      cases v with
      | type te =>
        have hk : k = n := h1.1
        simp [List.filterMap_cons, procName, typeName, hk]
      | procedure pe => simp [EntRel] at h1
    | proc sig =>
      cases v with
      | type te => simp [EntRel] at h1
      | procedure pe =>
        have hk : k = sig.name := h1.1
        simp [List.filterMap_cons, procName, typeName, hk]
  | [], _ :: _, h => by simp [Corr] at h
  | _ :: _, [], h => by simp [Corr] at h

theorem fold_param_names (g : GEnv) (pn : List Char) : ∀ (ps : List (Ref ParamDecl)) (acc r : List VarInfo),
    ps.foldl (paramStep g pn) (some acc) = some r → r.map (·.name) = acc.map (·.name) ++ ps.filterMap paramName
  | [], acc, r, h => by
    simp only [List.foldl, Option.some.injEq] at h
    subst h; simp
  | p :: ps, acc, r, h => by
    simp only [List.foldl] at h
    cases hs : paramStep g pn (some acc) p with
    | none => rw [hs, foldl_paramStep_none] at h; cases h
    | some acc' =>
      rw [hs] at h
      have ih := fold_param_names g pn ps acc' r h
      obtain ⟨pv, po⟩ := p
      cases pv with
      | error i => simp [paramStep] at hs
      | valid d rf n t i =>
        cases n with
        | none => simp [paramStep] at hs
        | some nm =>
          cases t with
          | none => simp [paramStep] at hs
          | some te =>
            simp only [paramStep] at hs
            cases hr : resolveType g [] (anonId pn nm.value) te.val with
            | none => simp [hr] at hs
            | some ty =>
              simp only [hr] at hs
              split at hs
              · cases hs
              · simp only [Option.some.injEq] at hs
                subst hs
                simp [ih, paramName]

theorem fold_local_names (g : GEnv) (pn : List Char) (prm : List VarInfo) : ∀ (vs : List (Ref VarDecl)) (acc r : List VarInfo),
    vs.foldl (localStep g pn prm) (some acc) = some r → r.map (·.name) = acc.map (·.name) ++ vs.filterMap varName
  | [], acc, r, h => by
    simp only [List.foldl, Option.some.injEq] at h
    subst h; simp
  | v :: vs, acc, r, h => by
    simp only [List.foldl] at h
    cases hs : localStep g pn prm (some acc) v with
    | none => rw [hs, foldl_localStep_none] at h; cases h
    | some acc' =>
      rw [hs] at h
      have ih := fold_local_names g pn prm vs acc' r h
      obtain ⟨vv, vo⟩ := v
      cases vv with
      | error i => simp [localStep] at hs
      | valid d n t i =>
        cases n with
        | none => simp [localStep] at hs
        | some nm =>
          cases t with
          | none => simp [localStep] at hs
          | some te =>
            simp only [localStep] at hs
            cases hr : resolveType g (prm ++ acc) (anonId pn nm.value) te.val with
            | none => simp [hr] at hs
            | some ty =>
              simp only [hr] at hs
              split at hs
              · cases hs
              · simp only [Option.some.injEq] at hs
                subst hs
                simp [ih, varName]

theorem find_append_keep (g : GEnv) (e x : GEntry) (k : List Char) (h : g.find k = some x) : (g ++ [e]).find k = some x := by
  simp only [GEnv.find, List.find?_append] at h ⊢
  simp [h]

theorem find_append_new (g : GEnv) (e : GEntry) (h : (g.find e.name).isSome = false) : (g ++ [e]).find e.name = some e := by
  simp only [GEnv.find, List.find?_append] at h ⊢
  cases hf : List.find? (fun x => x.name == e.name) g with
  | none => simp
  | some x => simp [hf] at h

/-- what `declare` adds to the environment -/
theorem declare_names : ∀ (ds : List (Ref GlobalDecl)) (g gf : GEnv), declare g ds = some gf →
    gf.filterMap procName = g.filterMap procName ++ ds.filterMap declProcName ∧
    gf.filterMap typeName = g.filterMap typeName ++ ds.filterMap declTypeName ∧
    (∀ k x, g.find k = some x → gf.find k = some x) ∧
    (∀ d ∈ ds, ∀ pd n, d.val = .proc pd → pd.name = some n → ∃ sig, gf.find n.value = some (.proc sig) ∧
      (g.find n.value).isSome = false ∧
      sig.params.map (·.name) = pd.params.filterMap paramName ∧ sig.locals.map (·.name) = pd.vars.filterMap varName)
  | [], g, gf, h => by
    simp only [declare, Option.some.injEq] at h
    subst h
    exact ⟨by simp, by simp, fun _ _ h => h, by intro d hd; cases hd⟩
  | d0 :: ds, g, gf, h => by
    obtain ⟨dv, dof⟩ := d0
    cases dv with
    | error i => simp [declare] at h
    | type td =>
      simp only [declare] at h
      cases hn' : td.name with
      | none => simp [hn'] at h
      | some tn =>
        cases hte : td.typeExpr with
        | none => simp [hn', hte] at h
        | some te =>
          simp only [hn', hte] at h
          split at h
          · cases h
          · cases hr : resolveType g [] tn.value te.val with
            | none => simp [hr] at h
            | some ty =>
              simp only [hr] at h
              obtain ⟨i1, i2, i3, i4⟩ := declare_names ds _ gf h
              refine ⟨?_, ?_, ?_, ?_⟩
              · have e1 : procName (GEntry.type tn.value ty) = none := rfl
                have e2 : declProcName ⟨GlobalDecl.type td, dof⟩ = none := rfl
                simp [i1, List.filterMap_append, List.filterMap_cons, e1, e2]
              · have e1 : typeName (GEntry.type tn.value ty) = some tn.value := rfl
                have e2 : declTypeName ⟨GlobalDecl.type td, dof⟩ = some tn.value := by simp [declTypeName, hn']
                simp [i2, List.filterMap_append, List.filterMap_cons, e1, e2]
              · intro k x hk; exact i3 k x (find_append_keep g _ x k hk)
              · intro d hd pd n hv hn
                rcases List.mem_cons.mp hd with heq | hmem
                · subst heq; simp at hv
                · obtain ⟨sig, a, b, c, e⟩ := i4 d hmem pd n hv hn
                  refine ⟨sig, a, ?_, c, e⟩
                  cases hg : (g.find n.value).isSome with
                  | false => rfl
                  | true => rw [find_append_some g _ _ hg] at b; cases b
    | proc pd0 =>
      simp only [declare] at h
      cases hn0 : pd0.name with
      | none => simp [hn0] at h
      | some n0 =>
        simp only [hn0] at h
        by_cases hbad : (g.find n0.value).isSome = true
        · simp only [hbad, if_true] at h; cases h
        · simp only [hbad, Bool.false_eq_true, if_false] at h
          cases hp : pd0.params.foldl (paramStep g n0.value) (some []) with
          | none => simp [hp] at h
          | some ps =>
            simp only [hp] at h
            cases hvv : pd0.vars.foldl (localStep g n0.value ps) (some []) with
            | none => simp [hvv] at h
            | some ls =>
              simp only [hvv] at h
              obtain ⟨i1, i2, i3, i4⟩ := declare_names ds _ gf h
              have hfresh : (g.find n0.value).isSome = false := by simpa using hbad
              refine ⟨?_, ?_, ?_, ?_⟩
              · have e1 : procName (GEntry.proc ⟨n0.value, ps, ls⟩) = some n0.value := rfl
                have e2 : declProcName ⟨GlobalDecl.proc pd0, dof⟩ = some n0.value := by simp [declProcName, hn0]
                simp [i1, List.filterMap_append, List.filterMap_cons, e1, e2]
              · have e1 : typeName (GEntry.proc ⟨n0.value, ps, ls⟩) = none := rfl
                have e2 : declTypeName ⟨GlobalDecl.proc pd0, dof⟩ = none := rfl
                simp [i2, List.filterMap_append, List.filterMap_cons, e1, e2]
              · intro k x hk; exact i3 k x (find_append_keep g _ x k hk)
              · intro d hd pd n hv hn
                rcases List.mem_cons.mp hd with heq | hmem
                · subst heq
                  simp only [GlobalDecl.proc.injEq] at hv
                  subst hv
                  rw [hn0] at hn
                  cases hn
                  have hnew := find_append_new g (.proc ⟨n0.value, ps, ls⟩) hfresh
                  refine ⟨⟨n0.value, ps, ls⟩, i3 _ _ hnew, hfresh, ?_, ?_⟩
                  · simpa using fold_param_names g n0.value pd0.params [] ps hp
                  · simpa using fold_local_names g n0.value ps pd0.vars [] ls hvv
                · obtain ⟨sig, a, b, c, e⟩ := i4 d hmem pd n hv hn
                  refine ⟨sig, a, ?_, c, e⟩
                  cases hg : (g.find n.value).isSome with
                  | false => rfl
                  | true => rw [find_append_some g _ _ hg] at b; cases b

/-- the table `build` returns for a well-typed program corresponds to the environment of the typing specification -/
theorem build_corr (p : Program) (h : wellTyped p = true) :
    ∃ g tf, declare predefined p.decls = some g ∧ Corr g tf ∧ build p = .ok (p, tf) := by
  simp only [wellTyped] at h
  cases hd : declare predefined p.decls with
  | none => simp [hd] at h
  | some g =>
    simp only [hd, Bool.and_eq_true] at h
    obtain ⟨hmain, _⟩ := h
    obtain ⟨tf, hb, hcf⟩ := decls_sound p.decls predefined g initialTable 0 corr_initial hd
    refine ⟨g, tf, rfl, hcf, ?_⟩
    rcases corr_find hcf "main".toList with ⟨a, _, _⟩ | ⟨e, v, a, b, c⟩
    · rw [a] at hmain; cases hmain
    · rw [a] at hmain
      cases e with
      | type _ _ => simp at hmain
      | proc sig =>
        simp only at hmain
        cases v with
        | type te => simp [EntRel] at c
        | procedure pe =>
          have hlen := c.2.1.length
          have hz : sig.params = [] := by simpa using hmain
          rw [hz] at hlen
          have hpe : pe.parameters = [] := by
            cases hq : pe.parameters with
            | nil => rfl
            | cons _ _ => simp [hq] at hlen
          simp only [build, hb, b, hpe]
          cases p
          rfl

/-- **The tables of a well-typed program hold exactly the declared names.** -/
theorem tables_exact (p : Program) (h : wellTyped p = true) :
    ∃ table, build p = .ok (p, table) ∧
      (searchProcedures table).map (·.label) = predefined.filterMap procName ++ p.decls.filterMap declProcName ∧
      (searchTypes table).map (·.label) = predefined.filterMap typeName ++ p.decls.filterMap declTypeName ∧
      ∀ d ∈ p.decls, ∀ pd n, d.val = .proc pd → pd.name = some n →
        ∃ pe, tblLookup table n.value = some (.procedure pe) ∧
          pe.localTable.map (·.1) = pd.params.filterMap paramName ++ pd.vars.filterMap varName := by
  obtain ⟨g, tf, hd, hc, hb⟩ := build_corr p h
  obtain ⟨n1, n2, _, n4⟩ := declare_names p.decls predefined g hd
  obtain ⟨c1, c2⟩ := corr_procs hc
  refine ⟨tf, hb, by rw [c1, n1], by rw [c2, n2], ?_⟩
  intro d hdm pd n hv hn
  obtain ⟨sig, hf, hnp, hps, hls⟩ := n4 d hdm pd n hv hn
  rcases corr_find hc n.value with ⟨a, _, _⟩ | ⟨e, v, a, b, c⟩
  · rw [a] at hf; cases hf
  · rw [a] at hf
    cases hf
    cases v with
    | type te => simp [EntRel] at c
    | procedure pe =>
      obtain ⟨_, _, hl⟩ := c
      rcases hl with hl | hl
      · rw [hnp] at hl; cases hl
      · refine ⟨pe, b, ?_⟩
        rw [localRel_names hl]
        simp [hps, hls]

end Spl.ScopeExact
