/-
  The token under the cursor (C08, last sentence; used by C12–C14): looking up a byte index in the tokenisation
  finds the token whose range contains it, and the position the server reports for a token start leads back to
  that token.
-/
import SplVerif.Props.C08
import SplVerif.Lemmas.IncLex
import SplVerif.Model.Features

namespace Spl.CursorLemmas
open Spl Spl.Feat

/-- in an ordered, non-overlapping token list the first token whose range contains `idx` is the one that does -/
theorem find_contains : ∀ (l : List Token), l.Pairwise (fun a b => a.range.hi ≤ b.range.lo) →
    ∀ t ∈ l, t.range.lo ≤ idx → idx < t.range.hi → l.find? (fun x => x.range.contains idx) = some t
  | [], _, t, ht, _, _ => by cases ht
  | a :: l, hp, t, ht, h1, h2 => by
    rw [List.pairwise_cons] at hp
    rcases List.mem_cons.mp ht with rfl | ht
    · simp [List.find?, Range.contains, h1, h2]
    · have := hp.1 t ht
      have hna : a.range.contains idx = false := by
        simp only [Range.contains, Bool.and_eq_false_iff, decide_eq_false_iff_not, Nat.not_le, Nat.not_lt]
        right; omega
      simp only [List.find?, hna]
      exact find_contains l hp.2 t ht h1 h2

/-- the text from a token's start on begins with a character that is not white space -/
theorem token_start_not_space (b : List Char) (off : Nat) (t : Token) (T : List Token) (h : lexL b off = t :: T)
    (hlo : t.range.lo = off) : ∃ c r, b = c :: r ∧ isSpace c = false := by
  cases b with
  | nil => simp [lexL, lexGo] at h
  | cons c r =>
    refine ⟨c, r, rfl, ?_⟩
    cases hs : isSpace c with
    | false => rfl
    | true =>
      rw [lexL_space hs] at h
      have := lexL_lo r (off + c.utf8Size) t (by rw [h]; simp)
      have := utf8Size_pos c
      omega

/-- **A reported token start addresses that token.**  For every text and every token `t` of its tokenisation
    (other than the final `Eof`): the position the server reports for the start of `t` (`as_position`), sent back
    and converted by `get_insertion_index`, is the start of `t` again, and the token looked up there
    (`DocumentCursor::ident` searches the first token whose range contains the index) is `t` itself. -/
theorem start_addresses_token (text : List Char) (toks : List Token) (h : lex text = .ok toks) (t : Token)
    (ht : t ∈ lexL text 0) :
    insertionIndex (asPosition t.range.lo text) text = t.range.lo ∧
      toks.find? (fun x => x.range.contains (insertionIndex (asPosition t.range.lo text) text)) = some t := by
  have hl : toks = lexL text 0 ++ [eofToken (utf8Len text)] := by
    simp only [lex, lexGo_eq_lexL] at h
    cases h; rfl
  obtain ⟨T1, T2, e⟩ := List.append_of_mem ht
  obtain ⟨a, b, s1, p1, l1⟩ := cut_at_start text 0 T1 t T2 e
  obtain ⟨c, r, hb, hsp⟩ := token_start_not_space b t.range.lo t T2 l1 rfl
  have hrt : insertionIndex (asPosition (utf8Len a) (a ++ b)) (a ++ b) = utf8Len a := by
    apply C08.position_roundtrip
    rintro ⟨_, h2⟩
    rw [hb] at h2
    simp only [List.head?_cons, Option.some.injEq] at h2
    subst h2
    simp [isSpace] at hsp
  have hlo : utf8Len a = t.range.lo := by omega
  rw [hlo, ← s1] at hrt
  refine ⟨hrt, ?_⟩
  rw [hrt, hl]
  have hb' := lexL_bounds text 0 t ht
  have hsorted := lexL_sorted text 0
  have : (lexL text 0).find? (fun x => x.range.contains t.range.lo) = some t :=
    find_contains (lexL text 0) hsorted t ht (Nat.le_refl _) hb'.1
  rw [List.find?_append, this]
  rfl

/-- … and every index inside a token's range finds that token. -/
theorem index_finds_token (text : List Char) (toks : List Token) (h : lex text = .ok toks) (t : Token)
    (ht : t ∈ lexL text 0) (idx : Nat) (h1 : t.range.lo ≤ idx) (h2 : idx < t.range.hi) :
    toks.find? (fun x => x.range.contains idx) = some t := by
  have hl : toks = lexL text 0 ++ [eofToken (utf8Len text)] := by
    simp only [lex, lexGo_eq_lexL] at h
    cases h; rfl
  rw [hl, List.find?_append, find_contains (lexL text 0) (lexL_sorted text 0) t ht h1 h2]
  rfl

end Spl.CursorLemmas

namespace Spl.CursorLemmas
open Spl Spl.Feat

/-- whatever index is asked for, `as_position` answers with the position of a character boundary of the text (the
    index itself if it is one that the walk reaches, otherwise the end of the text) -/
theorem asPositionGo_boundary : ∀ (t : List Char) (i idx l c : Nat),
    ∃ a b, t = a ++ b ∧ asPositionGo t i idx l c = asPositionGo t i (i + utf8Len a) l c
  | [], i, idx, l, c => ⟨[], [], rfl, by simp [asPositionGo]⟩
  | ch :: rest, i, idx, l, c => by
    by_cases h : (i == idx) = true
    · refine ⟨[], ch :: rest, rfl, ?_⟩
      simp [asPositionGo, h]
    · have hsz := utf8Size_pos ch
      have key : ∀ l' c', ∃ a b, ch :: rest = a ++ b ∧
          asPositionGo rest (i + ch.utf8Size) idx l' c' = asPositionGo rest (i + ch.utf8Size) (i + utf8Len a) l' c' ∧
          (i == i + utf8Len a) = false := by
        intro l' c'
        obtain ⟨a', b', e, he⟩ := asPositionGo_boundary rest (i + ch.utf8Size) idx l' c'
        refine ⟨ch :: a', b', by rw [e]; rfl, ?_, ?_⟩
        · rw [he]; simp only [utf8Len_cons]; congr 1; omega
        · simp only [utf8Len_cons, beq_eq_false_iff_ne, ne_eq]; omega
      simp only [asPositionGo, h, Bool.false_eq_true, if_false]
      split
      · obtain ⟨a, b, e, he, hne⟩ := key (l + 1) 0
        refine ⟨a, b, e, ?_⟩
        rw [he]
        cases a with
        | nil => simp at hne
        | cons x a' =>
          simp only [List.cons_append, List.cons.injEq] at e
          obtain ⟨rfl, _⟩ := e
          simp only [asPositionGo, hne, Bool.false_eq_true, if_false]
      · split
        · obtain ⟨a, b, e, he, hne⟩ := key l (c + utf16Len ch)
          refine ⟨a, b, e, ?_⟩
          rw [he]
          cases a with
          | nil => simp at hne
          | cons x a' =>
            simp only [List.cons_append, List.cons.injEq] at e
            obtain ⟨rfl, _⟩ := e
            simp only [asPositionGo, hne, Bool.false_eq_true, if_false]
        · obtain ⟨a, b, e, he, hne⟩ := key l c
          refine ⟨a, b, e, ?_⟩
          rw [he]
          cases a with
          | nil => simp at hne
          | cons x a' =>
            simp only [List.cons_append, List.cons.injEq] at e
            obtain ⟨rfl, _⟩ := e
            simp only [asPositionGo, hne, Bool.false_eq_true, if_false]

theorem asPosition_boundary (idx : Nat) (text : List Char) :
    ∃ a b, text = a ++ b ∧ asPosition idx text = asPosition (utf8Len a) text := by
  obtain ⟨a, b, e, h⟩ := asPositionGo_boundary text 0 idx 0 0
  exact ⟨a, b, e, by simpa [asPosition] using h⟩

end Spl.CursorLemmas
