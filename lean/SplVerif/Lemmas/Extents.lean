/-
  Where the declarations of a derivation lie in the token array (used by C17 and C15).

  The grammar specification consumes the non-comment tokens in order; every global declaration
  starts with the comment run behind its predecessor (its documentation), its first own token is
  the `type` / `proc` keyword, its last own token is the `;` / `}` that closes it, and the next
  declaration starts directly behind that token: the declarations tile the array.
-/
import SplVerif.Lemmas.ParseConformDecl

namespace Spl.ParseConform
open Spl Spl.Parse Spl.Grammar

/-- `Tiling A p ds es`: from index `p` on, the declarations `ds` (in the implementation's range
    convention) lie one behind the other; `es` lists, for the procedure declarations in order,
    the index of the `proc` keyword and the index of the closing brace. -/
inductive Tiling (A : Array Token) : Nat → List (Ref GlobalDecl) → List (Nat × Nat) → Prop
  | nil (p : Nat) : Tiling A p [] []
  | type (p i k : Nat) (td : TypeDecl) (rest : List (Ref GlobalDecl)) (es : List (Nat × Nat)) :
      Next A p i → (∃ t, A[i]? = some t ∧ t.ty = .Type) → i < k →
      (∃ t, A[k]? = some t ∧ t.kind ≠ .Comment) → td.info.range = ⟨0, k + 1 - p⟩ →
      Tiling A (k + 1) rest es → Tiling A p (⟨.type td, p⟩ :: rest) es
  | proc (p i k : Nat) (pd : ProcDecl) (rest : List (Ref GlobalDecl)) (es : List (Nat × Nat)) :
      Next A p i → (∃ t, A[i]? = some t ∧ t.ty = .Proc) → i < k →
      (∃ t, A[k]? = some t ∧ t.ty = .RCurly) → pd.info.range = ⟨0, k + 1 - p⟩ →
      Tiling A (k + 1) rest es → Tiling A p (⟨.proc pd, p⟩ :: rest) ((i, k) :: es)

variable (ctx : Ctx)

theorem kind_rcurly (ty : TokenType) (h : (ty.kind == Kind.RCurly) = true) : ty = .RCurly := by
  cases ty <;> simp [TokenType.kind] at h ⊢

/-- the declarations the specification derives tile the token array -/
theorem decls_tiling : ∀ (fd : Nat) (ts : Toks) (ds : List (Ref GlobalDecl)) (last : Option Nat),
    decls (G ctx) fd ts = some (ds, last) →
    ∀ (s : St), At ctx s ts → ∃ es, Tiling ctx.toks s.pos (ds.map relDecl) es
  | 0, ts, ds, last, hs, _, _ => by simp [Grammar.decls] at hs
  | fd + 1, ts, ds, last, hs, s, hat => by
    rcases decls_other _ _ _ _ _ hs with ⟨i, rfl, rfl, rfl⟩ | ⟨i, r, rfl⟩ | ⟨i, r, rfl⟩
    · exact ⟨[], Tiling.nil _⟩
    · obtain ⟨td, k, r4, ds', last', hsp, hrec, rfl, rfl⟩ := decls_type_flat _ _ _ _ _ _ hs
      obtain ⟨_, hp1, hat1⟩ := typeDecl_conf ctx hsp (hat.reref ctx)
      obtain ⟨hN, htok, _, hlead⟩ := hat.head
      have hat1' : At ctx { s with pos := k + 1 } r4 := ⟨hat1.fresh, by have := hat.ref; have := hp1.1; have := hp1.2; simp at *; omega, hat1.toks⟩
      obtain ⟨es, htl⟩ := decls_tiling fd r4 ds' last' hrec _ hat1'
      have hk : ∃ t, ctx.toks[k]? = some t ∧ t.kind ≠ .Comment := by
        rcases hat1.fresh with h0 | ⟨t, ht, hk⟩
        · simp at h0
        · exact ⟨t, by simpa using ht, hk⟩
      have hlo : td.info.range.lo = s.pos := by
        rw [typeDeclSpec_info hsp]; simp [mkInfo, hlead]
      have hhi : td.info.range.hi = k + 1 := by
        rw [typeDeclSpec_info hsp]; simp [mkInfo]
      refine ⟨es, ?_⟩
      simp only [List.map_cons, relDecl_type, hlo]
      exact Tiling.type s.pos i k _ _ es hN htok hp1.2 hk (by simp [relTypeDecl, relInfo, hlo, hhi]) htl
    · obtain ⟨j, nm, ilp, tylp, r2, ps, irp, tyrp, ilc, tylc, r5, vs, r6, ss, k, tyk, r8, ds', last',
        rfl, klp, hps, krp, klc, hvs, hss, kk, hrec, rfl, rfl⟩ := decls_proc_flat _ _ _ _ _ _ hs
      obtain ⟨_, hp1, hlead, hat1, hktok⟩ := procDecl_conf ctx (hat.reref ctx) klp hps krp klc hvs hss kk
      obtain ⟨hN, htok, _, _⟩ := hat.head
      have hat1' : At ctx { s with pos := k + 1 } r8 := ⟨hat1.fresh, by have := hat.ref; have := hp1.1; have := hp1.2; simp at *; omega, hat1.toks⟩
      obtain ⟨es, htl⟩ := decls_tiling fd r8 ds' last' hrec _ hat1'
      have hlo : lead (G ctx) i = s.pos := by simpa using hlead
      have hk : ∃ t, ctx.toks[k]? = some t ∧ t.ty = .RCurly := by
        obtain ⟨t, ht, hty⟩ := hktok
        exact ⟨t, ht, by rw [hty]; exact kind_rcurly _ kk⟩
      refine ⟨(i, k) :: es, ?_⟩
      simp only [List.map_cons, relDecl_proc]
      have hpl : (mkInfo (G ctx) i k).range.lo = s.pos := by simp [mkInfo, hlo]
      simp only [hpl]
      exact Tiling.proc s.pos i k _ _ es hN htok hp1.2 hk (by simp [relProcDecl, relInfo, mkInfo, hlo]) htl

/-- **The declarations of a derived program tile the token sequence** from its first token on. -/
theorem parse_tiling (toks : List Token) (p : Program) (h : Grammar.parse toks = some p) :
    ∃ es, Tiling toks.toArray 0 p.decls es := by
  simp only [Grammar.parse, Option.map_eq_some_iff] at h
  obtain ⟨pa, hpa, rfl⟩ := h
  simp only [parseAbs] at hpa
  split at hpa
  · cases hpa
  · rw [← tsFrom_zero] at hpa
    cases hd : decls ⟨toks.toArray⟩ ((tsFrom toks.toArray 0).length + 1) (tsFrom toks.toArray 0) with
    | none => simp [hd] at hpa
    | some res =>
      obtain ⟨ds, last⟩ := res
      simp only [hd, Option.some.injEq] at hpa
      subst hpa
      let ctx : Ctx := { toks := toks.toArray, change := ⟨0, 0, toks.length⟩ }
      have hat : At ctx ({ pos := 0 } : St) (tsFrom ctx.toks 0) := ⟨Or.inl rfl, Nat.le_refl _, rfl⟩
      obtain ⟨es, ht⟩ := decls_tiling ctx _ _ ds last hd _ hat
      exact ⟨es, by simpa [relativize] using ht⟩

/-- the extents of a tiling lie in order: every one behind the start, each `proc` keyword in front
    of its closing brace, and each closing brace in front of the next `proc` keyword -/
theorem tiling_sorted (A : Array Token) (p : Nat) (ds : List (Ref GlobalDecl)) (es : List (Nat × Nat))
    (h : Tiling A p ds es) : (∀ e ∈ es, p ≤ e.1 ∧ e.1 < e.2) ∧ es.Pairwise (fun a b => a.2 < b.1) := by
  induction h with
  | nil p => exact ⟨(by intro e he; cases he), List.Pairwise.nil⟩
  | type p i k td rest es hN _ hik _ _ _ ih =>
    refine ⟨?_, ih.2⟩
    intro e he
    have := ih.1 e he
    have := hN.le
    omega
  | proc p i k pd rest es hN _ hik _ _ _ ih =>
    constructor
    · intro e he
      rcases List.mem_cons.mp he with rfl | he
      · exact ⟨hN.le, hik⟩
      · have := ih.1 e he
        have := hN.le
        omega
    · rw [List.pairwise_cons]
      refine ⟨?_, ih.2⟩
      intro e he
      have := ih.1 e he
      show k < e.1
      omega

end Spl.ParseConform
