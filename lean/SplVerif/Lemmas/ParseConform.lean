/-
  Conformance of the parser model with the grammar specification (C04), expressions.

  `tsFrom A p` is what the specification reads at position `p` of the token array `A`: the
  non-comment tokens with their indices.  `At ctx s ts` are the entry conditions of a parser (the
  position is directly behind a token, inside the current `Reference`, and reads `ts`).  Token-level
  facts: `tag_parser!` skips exactly the comment run and decides on the next token (`tagK_head`,
  `tagK_fail`); `lead` of the specification is the position where the comment run starts
  (`lead_next`).  Every decision of the expression parsers (alternatives, loop exits) is a decision
  on the next token, so the model follows the specification's derivation step by step:
  `Conf fs` states this for all eight mutually recursive functions of the specification at fuel
  `fs`, proved by induction on `fs` (`conf_all`); the trees agree up to the change of range
  convention (`relExpr`), the error buffer stays untouched, and the fuel of the model suffices
  (`8 · remaining tokens + level`).
-/
import SplVerif.Model.Parser
import SplVerif.Spec.Grammar

namespace Spl.ParseConform
open Spl Spl.Parse Spl.Grammar

/-- non-comment tokens from position `p` on, with their indices (what the specification reads) -/
def tsFrom (A : Array Token) (p : Nat) : Toks :=
  ((A.toList.zipIdx.drop p).filter (fun (t, _) => t.kind != .Comment)).map (fun (t, i) => ⟨i, t.ty⟩)

theorem tsFrom_unfold (A : Array Token) (p : Nat) :
    tsFrom A p = match A[p]? with
      | none => []
      | some t => if t.kind != .Comment then ⟨p, t.ty⟩ :: tsFrom A (p + 1) else tsFrom A (p + 1) := by
  unfold tsFrom
  cases h : A[p]? with
  | none =>
    have hp : A.size ≤ p := by
      simpa [Array.getElem?_eq_none_iff] using h
    have : A.toList.zipIdx.drop p = [] := by
      apply List.drop_eq_nil_of_le
      simp [hp]
    simp [this]
  | some t =>
    have hp : p < A.size := by
      rcases Array.getElem?_eq_some_iff.mp h with ⟨hp, _⟩
      exact hp
    have hl : p < A.toList.zipIdx.length := by simp [hp]
    rw [List.drop_eq_getElem_cons hl]
    have ht : A.toList.zipIdx[p] = (t, p) := by
      have := Array.getElem?_eq_some_iff.mp h
      simp [List.getElem_zipIdx, this.2]
    rw [ht]
    simp only [List.filter_cons]
    split <;> simp_all

/-- from position `p`, the tokens `p … i-1` are comments and token `i` is not -/
structure Next (A : Array Token) (p i : Nat) : Prop where
  le : p ≤ i
  cmts : ∀ q, p ≤ q → q < i → ∃ t, A[q]? = some t ∧ t.kind = .Comment
  tok : ∃ t, A[i]? = some t ∧ t.kind ≠ .Comment

theorem tsFrom_cons (A : Array Token) : ∀ (n p i : Nat) (ty : TokenType) (rest : Toks), A.size - p ≤ n →
    tsFrom A p = ⟨i, ty⟩ :: rest →
    Next A p i ∧ (∃ t, A[i]? = some t ∧ t.ty = ty) ∧ rest = tsFrom A (i + 1)
  | 0, p, i, ty, rest, hn, h => by
    rw [tsFrom_unfold] at h
    have : A[p]? = none := by simp [Array.getElem?_eq_none_iff]; omega
    simp [this] at h
  | n + 1, p, i, ty, rest, hn, h => by
    rw [tsFrom_unfold] at h
    cases hp : A[p]? with
    | none => simp [hp] at h
    | some t =>
      simp only [hp] at h
      by_cases hc : (t.kind != .Comment) = true
      · simp only [hc, if_true, List.cons.injEq, ITok.mk.injEq] at h
        obtain ⟨⟨h1, h2⟩, h3⟩ := h
        subst h1
        refine ⟨⟨Nat.le_refl _, by intro q a b; omega, ⟨t, hp, by simpa using hc⟩⟩, ⟨t, hp, h2⟩, h3.symm⟩
      · simp only [hc, Bool.false_eq_true, if_false] at h
        have hsz : p < A.size := (Array.getElem?_eq_some_iff.mp hp).1
        obtain ⟨hN, ht, hr⟩ := tsFrom_cons A n (p + 1) i ty rest (by omega) h
        refine ⟨⟨by have := hN.le; omega, ?_, hN.tok⟩, ht, hr⟩
        intro q a b
        by_cases hq : q = p
        · subst hq
          exact ⟨t, hp, by simpa using hc⟩
        · exact hN.cmts q (by omega) b

variable (ctx : Ctx)

theorem kind_comment (t : Token) (h : t.kind = .Comment) : ∃ c, t.ty = .Comment c := by
  unfold Token.kind at h
  cases hty : t.ty <;> simp_all [TokenType.kind]

theorem kind_not_comment (t : Token) (h : t.kind ≠ .Comment) : ∀ c, t.ty ≠ .Comment c := by
  intro c hc
  apply h
  simp [Token.kind, hc, TokenType.kind]

/-- `many0(comment)` runs exactly over the comment run -/
theorem many0_comment_run : ∀ (n : Nat) (s : St) (i : Nat) (fuel : Nat), i - s.pos = n → i - s.pos < fuel →
    Next ctx.toks s.pos i →
    ∃ cs, many0 (comment ctx) fuel s = .ok { s with pos := i } cs
  | 0, s, i, fuel, hn, hf, hN => by
    have hi : i = s.pos := by have := hN.le; omega
    subst hi
    obtain ⟨t, ht, hk⟩ := hN.tok
    obtain ⟨f, rfl⟩ : ∃ f, fuel = f + 1 := ⟨fuel - 1, by omega⟩
    refine ⟨[], ?_⟩
    have hc : comment ctx s = .err false s := by
      simp only [comment, take1, ht]
      cases hty : t.ty <;> simp_all [kind_not_comment t hk]
    simp [many0, hc]
  | n + 1, s, i, fuel, hn, hf, hN => by
    obtain ⟨f, rfl⟩ : ∃ f, fuel = f + 1 := ⟨fuel - 1, by omega⟩
    obtain ⟨t, ht, hk⟩ := hN.cmts s.pos (Nat.le_refl _) (by omega)
    obtain ⟨c, hc⟩ := kind_comment t hk
    have hcm : comment ctx s = .ok { s with pos := s.pos + 1 } c := by
      simp [comment, take1, ht, hc]
    have hN' : Next ctx.toks ({ s with pos := s.pos + 1 } : St).pos i :=
      ⟨by simp; omega, fun q a b => hN.cmts q (by simp at a; omega) b, hN.tok⟩
    obtain ⟨cs, hcs⟩ := many0_comment_run n { s with pos := s.pos + 1 } i f (by simp; omega) (by simp; omega) hN'
    refine ⟨c :: cs, ?_⟩
    simp [many0, hcm, hcs]

/-- `tag_parser!`: skips the comment run; succeeds on the next token iff its kind matches, and
    fails on the ORIGINAL input otherwise -/
theorem tagK_next (s : St) (i : Nat) (t : Token) (k : Kind) (hN : Next ctx.toks s.pos i)
    (ht : ctx.toks[i]? = some t) :
    tagK ctx (loopFuel ctx) k s =
      if t.ty.kind == k then .ok { s with pos := i + 1 } t else .err false s := by
  have hi : i < ctx.toks.size := (Array.getElem?_eq_some_iff.mp ht).1
  obtain ⟨cs, hcs⟩ := many0_comment_run ctx (i - s.pos) s i (loopFuel ctx) rfl (by simp [loopFuel]; omega) hN
  simp only [tagK, tag, hcs, take1, ht]

/-- a position directly behind a non-comment token (or the start) -/
def Fresh (A : Array Token) (p : Nat) : Prop := p = 0 ∨ ∃ t, A[p - 1]? = some t ∧ t.kind ≠ .Comment

theorem leadStart_run (A : Array Token) : ∀ (n i p fuel : Nat), i - p = n → n < fuel → p ≤ i → Fresh A p →
    (∀ q, p ≤ q → q < i → ∃ t, A[q]? = some t ∧ t.kind = .Comment) →
    leadStart ⟨A⟩ fuel i = p
  | 0, i, p, fuel, hn, hf, hle, hfr, hc => by
    have : i = p := by omega
    subst this
    obtain ⟨f, rfl⟩ : ∃ f, fuel = f + 1 := ⟨fuel - 1, by omega⟩
    rcases hfr with h0 | ⟨t, ht, hk⟩
    · subst h0; simp [leadStart]
    · by_cases hz : i = 0
      · subst hz; simp [leadStart]
      · have hb : (i == 0) = false := by simp [hz]
        have hkc : (t.kind == Kind.Comment) = false := by simpa using hk
        simp [leadStart, hb, ht, hkc]
  | n + 1, i, p, fuel, hn, hf, hle, hfr, hc => by
    obtain ⟨f, rfl⟩ : ∃ f, fuel = f + 1 := ⟨fuel - 1, by omega⟩
    have hz : i ≠ 0 := by omega
    have hb : (i == 0) = false := by simp [hz]
    obtain ⟨t, ht, hk⟩ := hc (i - 1) (by omega) (by omega)
    have hkc : (t.kind == Kind.Comment) = true := by simpa using hk
    have ih := leadStart_run A n (i - 1) p f (by omega) (by omega) (by omega) hfr
      (fun q a b => hc q a (by omega))
    simp [leadStart, hb, ht, hkc, ih]

theorem lead_next (A : Array Token) (p i : Nat) (hfr : Fresh A p) (hN : Next A p i) : lead ⟨A⟩ i = p := by
  unfold lead
  exact leadStart_run A (i - p) i p (i + 1) rfl (by omega) hN.le hfr hN.cmts

theorem fresh_after (A : Array Token) (i : Nat) (t : Token) (ht : A[i]? = some t) (hk : t.kind ≠ .Comment) :
    Fresh A (i + 1) := Or.inr ⟨t, by simpa using ht, hk⟩

def IsErr {α} (r : Res α) : Prop := ∃ k s', r = .err k s'

theorem tsFrom_nil (A : Array Token) : ∀ (n p : Nat), A.size - p ≤ n → tsFrom A p = [] →
    ∀ q, p ≤ q → q < A.size → ∃ t, A[q]? = some t ∧ t.kind = .Comment
  | 0, p, hn, _, q, h1, h2 => by omega
  | n + 1, p, hn, h, q, h1, h2 => by
    rw [tsFrom_unfold] at h
    cases hp : A[p]? with
    | none =>
      have : A.size ≤ p := by simpa [Array.getElem?_eq_none_iff] using hp
      omega
    | some t =>
      simp only [hp] at h
      by_cases hc : (t.kind != .Comment) = true
      · simp [hc] at h
      · simp only [hc, Bool.false_eq_true, if_false] at h
        by_cases hq : q = p
        · subst hq; exact ⟨t, hp, by simpa using hc⟩
        · exact tsFrom_nil A n (p + 1) (by omega) h q (by omega) h2

theorem many0_comment_end : ∀ (n : Nat) (s : St) (fuel : Nat), ctx.toks.size - s.pos = n → n < fuel →
    (∀ q, s.pos ≤ q → q < ctx.toks.size → ∃ t, ctx.toks[q]? = some t ∧ t.kind = .Comment) →
    ∃ cs s', many0 (comment ctx) fuel s = .ok s' cs ∧ ctx.toks.size ≤ s'.pos
  | 0, s, fuel, hn, hf, _ => by
    obtain ⟨f, rfl⟩ : ∃ f, fuel = f + 1 := ⟨fuel - 1, by omega⟩
    have : ctx.toks[s.pos]? = none := by simp; omega
    have hc : comment ctx s = .err false s := by simp [comment, take1, this]
    exact ⟨[], s, by simp [many0, hc], by omega⟩
  | n + 1, s, fuel, hn, hf, hall => by
    obtain ⟨f, rfl⟩ : ∃ f, fuel = f + 1 := ⟨fuel - 1, by omega⟩
    obtain ⟨t, ht, hk⟩ := hall s.pos (Nat.le_refl _) (by omega)
    obtain ⟨c, hc⟩ := kind_comment t hk
    have hcm : comment ctx s = .ok { s with pos := s.pos + 1 } c := by simp [comment, take1, ht, hc]
    obtain ⟨cs, s', h1, h2⟩ := many0_comment_end n { s with pos := s.pos + 1 } f (by simp; omega) (by omega)
      (fun q a b => hall q (by simp at a; omega) b)
    exact ⟨c :: cs, s', by simp [many0, hcm, h1], h2⟩

/-- entry conditions of a parser: directly behind a token, inside the current reference, reading `ts` -/
structure At (s : St) (ts : Toks) : Prop where
  fresh : Fresh ctx.toks s.pos
  ref : s.refPos ≤ s.pos
  toks : tsFrom ctx.toks s.pos = ts

/-- what is known about the head token of `ts` -/
theorem At.head {s : St} {i : Nat} {ty : TokenType} {rest : Toks} (h : At ctx s (⟨i, ty⟩ :: rest)) :
    Next ctx.toks s.pos i ∧ (∃ t, ctx.toks[i]? = some t ∧ t.ty = ty) ∧ rest = tsFrom ctx.toks (i + 1) ∧
    lead ⟨ctx.toks⟩ i = s.pos :=
  let ⟨a, b, c⟩ := tsFrom_cons ctx.toks _ s.pos i ty rest (Nat.le_refl _) h.toks
  ⟨a, b, c, lead_next ctx.toks s.pos i h.fresh a⟩

/-- consuming the head token -/
theorem tagK_head {s : St} {i : Nat} {ty : TokenType} {rest : Toks} (h : At ctx s (⟨i, ty⟩ :: rest)) (k : Kind) :
    ∃ t, ctx.toks[i]? = some t ∧ t.ty = ty ∧
      tagK ctx (loopFuel ctx) k s = (if ty.kind == k then .ok { s with pos := i + 1 } t else .err false s) ∧
      (ty.kind ≠ .Comment) ∧ At ctx { s with pos := i + 1 } rest := by
  obtain ⟨hN, ⟨t, ht, hty⟩, hr, _⟩ := h.head
  obtain ⟨t', ht', hk'⟩ := hN.tok
  have : t' = t := by rw [ht] at ht'; cases ht'; rfl
  subst this
  have hk : ty.kind ≠ .Comment := by rw [← hty]; exact hk'
  refine ⟨t', ht, hty, ?_, hk, ⟨fresh_after ctx.toks i t' ht hk', ?_, hr.symm⟩⟩
  · rw [tagK_next ctx s i t' k hN ht, hty]
  · have := h.ref; have := hN.le; simp; omega

theorem tagK_fail {s : St} {ts : Toks} (h : At ctx s ts) (k : Kind)
    (hne : ∀ i ty r, ts = ⟨i, ty⟩ :: r → ty.kind ≠ k) : IsErr (tagK ctx (loopFuel ctx) k s) := by
  cases ts with
  | nil =>
    have hall := tsFrom_nil ctx.toks _ s.pos (Nat.le_refl _) h.toks
    obtain ⟨cs, s', h1, h2⟩ := many0_comment_end ctx _ s (loopFuel ctx) rfl (by simp [loopFuel]; omega) hall
    have : ctx.toks[s'.pos]? = none := by simp; omega
    exact ⟨false, s', by simp [tagK, tag, h1, take1, this]⟩
  | cons t r =>
    obtain ⟨i, ty⟩ := t
    obtain ⟨t, _, _, he, _, _⟩ := tagK_head ctx h k
    have := hne i ty r rfl
    have hb : (ty.kind == k) = false := by simpa using this
    exact ⟨false, s, by rw [he, hb]; rfl⟩

theorem At.clearErr {s : St} {ts : Toks} (h : At ctx s ts) : At ctx { s with errBuf := [] } ts :=
  ⟨h.fresh, h.ref, h.toks⟩

theorem info_ok {α} (p : P α) (s s' : St) (a : α) (hp : p { s with errBuf := [] } = .ok s' a)
    (h1 : s.refPos ≤ s.pos) (h2 : s.refPos ≤ s'.pos) :
    info p s = .ok { s' with errBuf := s.errBuf }
      (a, { range := ⟨s.pos - s.refPos, s'.pos - s.refPos⟩, errors := s'.errBuf }) := by
  have a1 : ¬ s.pos < s.refPos := by omega
  have a2 : ¬ s'.pos < s.refPos := by omega
  simp only [info, a1, if_false, hp, a2]

theorem info_err {α} (p : P α) (s : St) (hp : IsErr (p { s with errBuf := [] })) (h1 : s.refPos ≤ s.pos) :
    IsErr (info p s) := by
  obtain ⟨k, s', hp⟩ := hp
  have a1 : ¬ s.pos < s.refPos := by omega
  exact ⟨k, { s' with errBuf := s.errBuf }, by simp only [info, a1, if_false, hp]⟩

theorem pmap_err {α β} (f : α → β) (p : P α) (s : St) (h : IsErr (p s)) : IsErr (pmap f p s) := by
  obtain ⟨k, s', h⟩ := h
  exact ⟨k, s', by simp [pmap, h]⟩

/-! ### identifiers -/

theorem ident_ok {s : St} {i : Nat} {name : List Char} {rest : Toks} (h : At ctx s (⟨i, .Ident name⟩ :: rest)) :
    parseIdentifier ctx none s = .ok { s with pos := i + 1 } (relIdent s.refPos (mkIdent ⟨ctx.toks⟩ i name)) ∧
    At ctx { s with pos := i + 1 } rest := by
  obtain ⟨t, ht, hty, he, _, hat⟩ := tagK_head ctx h.clearErr .Ident
  obtain ⟨hN, _, _, hlead⟩ := h.head
  refine ⟨?_, ⟨hat.fresh, hat.ref, hat.toks⟩⟩
  have hk : ((TokenType.Ident name).kind == Kind.Ident) = true := rfl
  rw [hk] at he
  simp only [if_true] at he
  have hi := info_ok (tk ctx .Ident) s _ t he h.ref (by have := h.ref; have := hN.le; simp; omega)
  simp only [parseIdentifier, affected, pmap, hi, hty, displayToken, relIdent, mkIdent, mkInfo, relInfo, hlead]

theorem ident_fail {s : St} {ts : Toks} (h : At ctx s ts)
    (hne : ∀ i ty r, ts = ⟨i, ty⟩ :: r → ty.kind ≠ .Ident) : IsErr (parseIdentifier ctx none s) := by
  have := tagK_fail ctx h.clearErr .Ident hne
  exact pmap_err _ _ _ (info_err _ _ this h.ref)

/-! ### integer literals -/

theorem altList_cons_err {α} (p : P α) (ps : List (P α)) (s : St) (hne : ps ≠ []) (h : IsErr (p s)) :
    altList (p :: ps) s = altList ps s := by
  obtain ⟨k, s', h⟩ := h
  cases ps with
  | nil => exact absurd rfl hne
  | cons q qs => simp [altList, alt2, h]

theorem altList_cons_ok {α} (p : P α) (ps : List (P α)) (s s' : St) (a : α) (h : p s = .ok s' a) :
    altList (p :: ps) s = .ok s' a := by
  cases ps with
  | nil => simp [altList, h]
  | cons q qs => simp [altList, alt2, h]

def pHex : P (Option Nat) := pmap (fun (t : Token) => match t.ty with | .Hex (.Int i) => some i | _ => none) (tk ctx .Hex)
def pChar : P (Option Nat) := pmap (fun (t : Token) => match t.ty with | .Char c => some (c.toNat % 256) | _ => none) (tk ctx .Char)
def pInt : P (Option Nat) := pmap (fun (t : Token) => match t.ty with | .Int (.Int i) => some i | _ => none) (tk ctx .Int)

theorem parseIntLiteral_eq (s : St) : parseIntLiteral ctx none s =
    pmap (fun (p : Option Nat × AstInfo) => ({ value := p.1, info := p.2 } : IntLiteral))
      (info (altList [pHex ctx, pChar ctx, pInt ctx])) s := rfl

theorem intLit_ok {s : St} {ts rest : Toks} {l : IntLiteral} {i : Nat} (h : At ctx s ts)
    (hs : intLitTok ⟨ctx.toks⟩ ts = some (l, i, rest)) :
    parseIntLiteral ctx none s = .ok { s with pos := i + 1 } (relIntLit s.refPos l) ∧
    At ctx { s with pos := i + 1 } rest ∧ Next ctx.toks s.pos i ∧ l.info.range = ⟨s.pos, i + 1⟩ := by
  cases ts with
  | nil => simp [intLitTok] at hs
  | cons t0 r0 =>
    obtain ⟨j, ty⟩ := t0
    obtain ⟨hN, _, _, hlead⟩ := h.head
    have hpos : s.refPos ≤ j + 1 := by have := h.ref; have := hN.le; omega
    -- the three token parsers on the cleared state
    obtain ⟨t, ht, hty, heH, _, hat⟩ := tagK_head ctx h.clearErr .Hex
    obtain ⟨_, ht2, _, heC, _, _⟩ := tagK_head ctx h.clearErr .Char
    obtain ⟨_, ht3, _, heI, _, _⟩ := tagK_head ctx h.clearErr .Int
    have e2 := ht2.symm.trans ht
    have e3 := ht3.symm.trans ht
    simp only [Option.some.injEq] at e2 e3
    subst e2 e3
    have hat' : At ctx { s with pos := j + 1 } r0 := ⟨hat.fresh, hat.ref, hat.toks⟩
    -- it suffices to evaluate the alternatives
    have key : ∀ v : Nat, altList [pHex ctx, pChar ctx, pInt ctx] { s with errBuf := [] } =
        .ok { s with errBuf := [], pos := j + 1 } (some v) → l = { value := some v, info := mkInfo ⟨ctx.toks⟩ j j } →
        i = j → parseIntLiteral ctx none s = .ok { s with pos := i + 1 } (relIntLit s.refPos l) := by
      intro v inner hl hi
      subst hl hi
      have hi := info_ok _ s _ _ inner h.ref (by simpa using hpos)
      simp only [parseIntLiteral_eq, pmap, hi, relIntLit, relInfo, mkInfo, hlead]
    cases ty with
    | Int res =>
      cases res with
      | Err e => simp [intLitTok] at hs
      | Int v =>
        simp only [intLitTok, Option.some.injEq, Prod.mk.injEq] at hs
        obtain ⟨rfl, rfl, rfl⟩ := hs
        refine ⟨key v ?_ rfl rfl, hat', hN, by simp [mkInfo, hlead]⟩
        have k1 : ((TokenType.Int (.Int v)).kind == Kind.Hex) = false := rfl
        have k2 : ((TokenType.Int (.Int v)).kind == Kind.Char) = false := rfl
        have k3 : ((TokenType.Int (.Int v)).kind == Kind.Int) = true := rfl
        rw [k1] at heH; rw [k2] at heC; rw [k3] at heI
        simp only [if_true, Bool.false_eq_true, if_false] at heH heC heI
        rw [altList_cons_err _ _ _ (by simp) ⟨false, { s with errBuf := [] }, by simp [pHex, pmap, tk, heH]⟩]
        rw [altList_cons_err _ _ _ (by simp) ⟨false, { s with errBuf := [] }, by simp [pChar, pmap, tk, heC]⟩]
        simp [altList, pInt, pmap, tk, heI, hty]
    | Hex res =>
      cases res with
      | Err e => simp [intLitTok] at hs
      | Int v =>
        simp only [intLitTok, Option.some.injEq, Prod.mk.injEq] at hs
        obtain ⟨rfl, rfl, rfl⟩ := hs
        refine ⟨key v ?_ rfl rfl, hat', hN, by simp [mkInfo, hlead]⟩
        have k1 : ((TokenType.Hex (.Int v)).kind == Kind.Hex) = true := rfl
        rw [k1] at heH
        simp only [if_true] at heH
        apply altList_cons_ok
        simp [pHex, pmap, tk, heH, hty]
    | Char c =>
      simp only [intLitTok] at hs
      by_cases hc : c.toNat < 256
      · simp only [hc, if_true, Option.some.injEq, Prod.mk.injEq] at hs
        obtain ⟨rfl, rfl, rfl⟩ := hs
        refine ⟨key c.toNat ?_ rfl rfl, hat', hN, by simp [mkInfo, hlead]⟩
        have k1 : ((TokenType.Char c).kind == Kind.Hex) = false := rfl
        have k2 : ((TokenType.Char c).kind == Kind.Char) = true := rfl
        rw [k1] at heH; rw [k2] at heC
        simp only [if_true, Bool.false_eq_true, if_false] at heH heC
        rw [altList_cons_err _ _ _ (by simp) ⟨false, { s with errBuf := [] }, by simp [pHex, pmap, tk, heH]⟩]
        apply altList_cons_ok
        simp [pChar, pmap, tk, heC, hty, Nat.mod_eq_of_lt hc]
      · simp [hc] at hs
    | _ => simp [intLitTok] at hs

theorem intLit_fail {s : St} {ts : Toks} (h : At ctx s ts)
    (hne : ∀ i ty r, ts = ⟨i, ty⟩ :: r → ty.kind ≠ .Hex ∧ ty.kind ≠ .Char ∧ ty.kind ≠ .Int) :
    IsErr (parseIntLiteral ctx none s) := by
  have f1 := tagK_fail ctx h.clearErr .Hex (fun i ty r e => (hne i ty r e).1)
  have f2 := tagK_fail ctx h.clearErr .Char (fun i ty r e => (hne i ty r e).2.1)
  have f3 := tagK_fail ctx h.clearErr .Int (fun i ty r e => (hne i ty r e).2.2)
  rw [parseIntLiteral_eq]
  apply pmap_err
  apply info_err _ _ _ h.ref
  rw [altList_cons_err (pHex ctx) _ _ (by simp) (pmap_err _ _ _ f1)]
  rw [altList_cons_err (pChar ctx) _ _ (by simp) (pmap_err _ _ _ f2)]
  exact pmap_err _ _ _ f3

theorem relVar_info (r : Nat) (v : Var) : (relVar r v).info = relInfo r v.info := by
  cases v <;> simp [relVar, Var.info, relIdent]

theorem relExpr_info (r : Nat) (e : Expr) : (relExpr r e).info = relInfo r e.info := by
  cases e <;> simp [relExpr, Expr.info, relIntLit, relVar_info]

theorem expect_ok {α} (parser : Option α → P α) (msg : Msg) (s s' : St) (a : α) (h : parser none s = .ok s' a) :
    Spl.Parse.expect none parser msg s = .ok s' (some a) := by
  simp [Spl.Parse.expect, h]

/-- the outcome of an expression parser agrees with the specification -/
def GoodE (s : St) (res : Res Expr) (e : Expr) (sp : Span) (rest : Toks) : Prop :=
  res = .ok { s with pos := sp.last + 1 } (relExpr s.refPos e) ∧
  Next ctx.toks s.pos sp.first ∧ sp.first ≤ sp.last ∧ e.info.range = ⟨s.pos, sp.last + 1⟩ ∧
  At ctx { s with pos := sp.last + 1 } rest

def GoodV (s : St) (res : Res Var) (v : Var) (sp : Span) (rest : Toks) : Prop :=
  res = .ok { s with pos := sp.last + 1 } (relVar s.refPos v) ∧
  Next ctx.toks s.pos sp.first ∧ sp.first ≤ sp.last ∧ v.info.range = ⟨s.pos, sp.last + 1⟩ ∧
  At ctx { s with pos := sp.last + 1 } rest

abbrev G : GCtx := ⟨ctx.toks⟩

/-- the left operand of a loop (`parse_add` / `parse_mul`): already parsed, the state is behind it -/
structure LoopAt (s : St) (rng : Range) (sl : Span) (p0 : Nat) (ts : Toks) : Prop where
  at_ : At ctx s ts
  pos : s.pos = sl.last + 1
  range : rng = ⟨p0, sl.last + 1⟩
  lead : lead (G ctx) sl.first = p0
  ref : s.refPos ≤ p0
  le : p0 ≤ sl.first ∧ sl.first ≤ sl.last

/-- conformance of all expression parsers for specification fuel `fs` -/
structure Conf (fs : Nat) : Prop where
  expr : ∀ ts e sp rest, expr (G ctx) fs ts = some (e, sp, rest) → ∀ fm s, At ctx s ts → 8 * ts.length + 6 ≤ fm →
    GoodE ctx s (parseComparison ctx fm s) e sp rest
  add : ∀ ts e sp rest, add (G ctx) fs ts = some (e, sp, rest) → ∀ fm s, At ctx s ts → 8 * ts.length + 5 ≤ fm →
    GoodE ctx s (parseAdd ctx fm s) e sp rest
  addRest : ∀ ts l sl e sp rest, addRest (G ctx) fs l sl ts = some (e, sp, rest) → ∀ fm lf s p0,
    LoopAt ctx s l.info.range sl p0 ts → 8 * ts.length + 4 ≤ fm → ts.length < lf →
    opLoop ctx [.Plus, .Minus] (parseRhs (parseMul ctx fm)) lf (relExpr s.refPos l) s =
      .ok { s with pos := sp.last + 1 } (relExpr s.refPos e) ∧
    e.info.range = ⟨p0, sp.last + 1⟩ ∧ sp.first = sl.first ∧ sl.last ≤ sp.last ∧ At ctx { s with pos := sp.last + 1 } rest
  mul : ∀ ts e sp rest, mul (G ctx) fs ts = some (e, sp, rest) → ∀ fm s, At ctx s ts → 8 * ts.length + 4 ≤ fm →
    GoodE ctx s (parseMul ctx fm s) e sp rest
  mulRest : ∀ ts l sl e sp rest, mulRest (G ctx) fs l sl ts = some (e, sp, rest) → ∀ fm lf s p0,
    LoopAt ctx s l.info.range sl p0 ts → 8 * ts.length + 3 ≤ fm → ts.length < lf →
    opLoop ctx [.Times, .Divide] (parseRhs (parseFactor ctx fm)) lf (relExpr s.refPos l) s =
      .ok { s with pos := sp.last + 1 } (relExpr s.refPos e) ∧
    e.info.range = ⟨p0, sp.last + 1⟩ ∧ sp.first = sl.first ∧ sl.last ≤ sp.last ∧ At ctx { s with pos := sp.last + 1 } rest
  factor : ∀ ts e sp rest, factor (G ctx) fs ts = some (e, sp, rest) → ∀ fm s, At ctx s ts → 8 * ts.length + 3 ≤ fm →
    GoodE ctx s (parseFactor ctx fm s) e sp rest
  varAccess : ∀ ts v sp rest, varAccess (G ctx) fs ts = some (v, sp, rest) → ∀ fm s, At ctx s ts → 8 * ts.length + 1 ≤ fm →
    GoodV ctx s (parseVariable ctx fm none s) v sp rest
  accesses : ∀ ts v sv vf sp rest, accesses (G ctx) fs v sv ts = some (vf, sp, rest) → ∀ fe lf s p0 (vinfo : AstInfo),
    LoopAt ctx s v.info.range sv p0 ts → vinfo.range.lo = p0 - s.refPos → vinfo.range.hi ≤ sv.last + 1 - s.refPos →
    8 * ts.length ≤ fe → ts.length < lf →
    ∃ accs, many0 (accessParser ctx (refParse (parseExpression ctx fe))) lf s = .ok { s with pos := sp.last + 1 } accs ∧
      accs.foldl (accessStep vinfo) (relVar s.refPos v) = relVar s.refPos vf ∧
      vf.info.range = ⟨p0, sp.last + 1⟩ ∧ sp.first = sv.first ∧ sv.last ≤ sp.last ∧ At ctx { s with pos := sp.last + 1 } rest

theorem tsFrom_length_le (A : Array Token) : ∀ (n p : Nat), A.size - p ≤ n → (tsFrom A p).length ≤ A.size - p
  | 0, p, hn => by
    rw [tsFrom_unfold]
    have : A[p]? = none := by simp; omega
    simp [this]
  | n + 1, p, hn => by
    rw [tsFrom_unfold]
    cases hp : A[p]? with
    | none => simp
    | some t =>
      have hsz : p < A.size := (Array.getElem?_eq_some_iff.mp hp).1
      have ih := tsFrom_length_le A n (p + 1) (by omega)
      simp only
      split
      · simp only [List.length_cons]; omega
      · omega

theorem At.length_le {s : St} {ts : Toks} (h : At ctx s ts) : ts.length ≤ ctx.toks.size - s.pos := by
  rw [← h.toks]; exact tsFrom_length_le _ _ _ (Nat.le_refl _)

theorem tsFrom_length_succ (A : Array Token) (p : Nat) : (tsFrom A (p + 1)).length ≤ (tsFrom A p).length := by
  rw [tsFrom_unfold A p]
  cases hp : A[p]? with
  | none =>
    have : A.size ≤ p := by simpa [Array.getElem?_eq_none_iff] using hp
    have h2 : A[p + 1]? = none := by simp; omega
    rw [tsFrom_unfold A (p + 1)]
    simp [h2]
  | some t =>
    simp only
    split
    · simp
    · exact Nat.le_refl _

theorem tsFrom_length_mono (A : Array Token) : ∀ (n p q : Nat), q - p = n → p ≤ q →
    (tsFrom A q).length ≤ (tsFrom A p).length
  | 0, p, q, hn, hle => by
    have : q = p := by omega
    subst this; exact Nat.le_refl _
  | n + 1, p, q, hn, hle => by
    have h1 := tsFrom_length_mono A n (p + 1) q (by omega) (by omega)
    have h2 := tsFrom_length_succ A p
    omega

theorem At.length_mono {s s' : St} {ts ts' : Toks} (h : At ctx s ts) (h' : At ctx s' ts') (hle : s.pos ≤ s'.pos) :
    ts'.length ≤ ts.length := by
  rw [← h.toks, ← h'.toks]
  exact tsFrom_length_mono _ _ _ _ rfl hle

/-- a choice between token parsers, on the head token -/
theorem altTk_head {s : St} {i : Nat} {ty : TokenType} {rest : Toks} (h : At ctx s (⟨i, ty⟩ :: rest)) :
    ∀ (ks : List Kind), ∃ t, ctx.toks[i]? = some t ∧ t.ty = ty ∧
      (ty.kind ∈ ks → altList (ks.map (tk ctx)) s = .ok { s with pos := i + 1 } t) ∧
      (ty.kind ∉ ks → IsErr (altList (ks.map (tk ctx)) s))
  | [] => by
    obtain ⟨t, ht, hty, _, _, _⟩ := tagK_head ctx h .Eof
    exact ⟨t, ht, hty, by simp, fun _ => ⟨false, s, rfl⟩⟩
  | [k] => by
    obtain ⟨t, ht, hty, he, _, _⟩ := tagK_head ctx h k
    have he' : tk ctx k s = _ := he
    refine ⟨t, ht, hty, ?_, ?_⟩
    · intro hm
      have : (ty.kind == k) = true := by simpa using hm
      simp only [List.map_cons, List.map_nil, altList, he', this, if_true]
    · intro hm
      have : (ty.kind == k) = false := by simpa using hm
      exact ⟨false, s, by simp only [List.map_cons, List.map_nil, altList, he', this, Bool.false_eq_true, if_false]⟩
  | k :: k2 :: ks => by
    obtain ⟨t, ht, hty, he, _, _⟩ := tagK_head ctx h k
    have he' : tk ctx k s = _ := he
    obtain ⟨t', ht', _, ih1, ih2⟩ := altTk_head h (k2 :: ks)
    have : t' = t := by rw [ht] at ht'; cases ht'; rfl
    subst this
    refine ⟨t', ht, hty, ?_, ?_⟩
    · intro hm
      by_cases hk : ty.kind = k
      · have : (ty.kind == k) = true := by simpa using hk
        simp only [List.map_cons, altList, alt2, he', this, if_true]
      · have hb : (ty.kind == k) = false := by simpa using hk
        have hm' : ty.kind ∈ k2 :: ks := by
          rcases List.mem_cons.mp hm with h1 | h1
          · exact absurd h1 hk
          · exact h1
        have := ih1 hm'
        simp only [List.map_cons] at this ⊢
        simp only [altList, alt2, he', hb, Bool.false_eq_true, if_false, this]
    · intro hm
      have hk : ty.kind ≠ k := fun e => hm (by simp [e])
      have hb : (ty.kind == k) = false := by simpa using hk
      have hm' : ty.kind ∉ k2 :: ks := fun e => hm (List.mem_cons_of_mem _ e)
      obtain ⟨kk, s', hs'⟩ := ih2 hm'
      simp only [List.map_cons] at hs' ⊢
      exact ⟨kk, s', by simp only [altList, alt2, he', hb, Bool.false_eq_true, if_false, hs']⟩

theorem altTk_nil {s : St} (h : At ctx s []) : ∀ (ks : List Kind), IsErr (altList (ks.map (tk ctx)) s)
  | [] => ⟨false, s, rfl⟩
  | [k] => by
    obtain ⟨kk, s', hs'⟩ := tagK_fail ctx h k (by intro i ty r e; cases e)
    have hs'' : tk ctx k s = _ := hs'
    exact ⟨kk, s', by simp only [List.map_cons, List.map_nil, altList, hs'']⟩
  | k :: k2 :: ks => by
    obtain ⟨kk, s', hs'⟩ := tagK_fail ctx h k (by intro i ty r e; cases e)
    have hs'' : tk ctx k s = _ := hs'
    obtain ⟨kk2, s2, hs2⟩ := altTk_nil h (k2 :: ks)
    simp only [List.map_cons] at hs2 ⊢
    exact ⟨kk2, s2, by simp only [altList, alt2, hs'', hs2]⟩

theorem st_eta (s : St) (j : Nat) (h : s.pos = j) : ({ s with pos := j } : St) = s := by
  cases s; simp_all

/-- `parse_rhs` after a successful right operand -/
theorem parseRhs_ok (pm : P Expr) (lhs rhs : Expr) (op : Operator) (s s' : St) (h : pm s = .ok s' rhs)
    (href : s'.refPos ≤ s'.pos) :
    parseRhs pm lhs op s = .ok s' (.binary op lhs rhs { range := ⟨lhs.info.range.lo, s'.pos - s'.refPos⟩ }) := by
  have a : ¬ s'.pos < s'.refPos := by omega
  simp [parseRhs, Spl.Parse.expect, inc, h, a]

theorem addRest_conf {fs : Nat} (ih : Conf ctx fs) :
    ∀ ts l sl e sp rest, addRest (G ctx) (fs + 1) l sl ts = some (e, sp, rest) → ∀ fm lf s p0,
    LoopAt ctx s l.info.range sl p0 ts → 8 * ts.length + 4 ≤ fm → ts.length < lf →
    opLoop ctx [.Plus, .Minus] (parseRhs (parseMul ctx fm)) lf (relExpr s.refPos l) s =
      .ok { s with pos := sp.last + 1 } (relExpr s.refPos e) ∧
    e.info.range = ⟨p0, sp.last + 1⟩ ∧ sp.first = sl.first ∧ sl.last ≤ sp.last ∧ At ctx { s with pos := sp.last + 1 } rest := by
  intro ts l sl e sp rest hs fm lf s p0 hL hfm hlf
  obtain ⟨lf', rfl⟩ : ∃ f, lf = f + 1 := ⟨lf - 1, by omega⟩
  -- the loop stops here
  have stop : IsErr (altList ([Kind.Plus, .Minus].map (tk ctx)) s) → e = l → sp = sl → rest = ts →
      opLoop ctx [.Plus, .Minus] (parseRhs (parseMul ctx fm)) (lf' + 1) (relExpr s.refPos l) s =
        .ok { s with pos := sp.last + 1 } (relExpr s.refPos e) ∧
      e.info.range = ⟨p0, sp.last + 1⟩ ∧ sp.first = sl.first ∧ sl.last ≤ sp.last ∧ At ctx { s with pos := sp.last + 1 } rest := by
    intro ⟨k, s', he⟩ h1 h2 h3
    subst h1 h2 h3
    rw [st_eta s _ hL.pos]
    simp only [List.map_cons, List.map_nil] at he
    exact ⟨by simp only [opLoop, List.map_cons, List.map_nil, he], hL.range, rfl, Nat.le_refl _, hL.at_⟩
  cases ts with
  | nil =>
    simp only [Grammar.addRest, Option.some.injEq, Prod.mk.injEq] at hs
    exact stop (altTk_nil ctx hL.at_ _) hs.1.symm hs.2.1.symm hs.2.2.symm
  | cons t r1 =>
    obtain ⟨i, ty⟩ := t
    simp only [Grammar.addRest] at hs
    obtain ⟨tok, htok, hty, hin, hout⟩ := altTk_head ctx hL.at_ [.Plus, .Minus]
    cases hop : addop ty.kind with
    | none =>
      simp only [hop, Option.some.injEq, Prod.mk.injEq] at hs
      have hnot : ty.kind ∉ [Kind.Plus, .Minus] := by
        intro hm
        cases hk : ty.kind <;> simp_all [addop]
      exact stop (hout hnot) hs.1.symm hs.2.1.symm hs.2.2.symm
    | some op =>
      simp only [hop] at hs
      cases hm : Grammar.mul (G ctx) fs r1 with
      | none => simp [hm] at hs
      | some res =>
        obtain ⟨rh, sr, r2⟩ := res
        simp only [hm] at hs
        have hmem : ty.kind ∈ [Kind.Plus, .Minus] := by
          cases hk : ty.kind <;> simp_all [addop]
        have hopk : opOfKind tok.kind = some op := by
          have : tok.kind = ty.kind := by simp [Token.kind, hty]
          rw [this]
          cases hk : ty.kind <;> simp_all [addop, opOfKind]
        obtain ⟨_, _, _, _, _, hat1⟩ := tagK_head ctx hL.at_ .Plus
        -- the right operand
        have hlen : r1.length + 1 = (⟨i, ty⟩ :: r1 : Toks).length := rfl
        obtain ⟨hres, hN1, hle1, hrng1, hat2⟩ := ih.mul r1 rh sr r2 hm fm { s with pos := i + 1 } hat1
          (by simp only [List.length_cons] at hfm; omega)
        have hrhs := parseRhs_ok (parseMul ctx fm) (relExpr s.refPos l) (relExpr s.refPos rh) op
          { s with pos := i + 1 } _ hres (by have := hat2.ref; simpa using this)
        -- the new left operand
        have hL' : LoopAt ctx { s with pos := sr.last + 1 }
            (Expr.binary op l rh (mkInfo (G ctx) sl.first sr.last)).info.range ⟨sl.first, sr.last⟩ p0 r2 :=
          ⟨hat2, rfl, by simp [Expr.info, mkInfo, hL.lead], hL.lead, hL.ref,
            ⟨hL.le.1, by have := hN1.le; have := hL.le.2; have := hL.pos; have := (hL.at_.head).1.le; simp at *; omega⟩⟩
        have hpos1 : i + 1 ≤ sr.last + 1 := by have := hN1.le; simp at this; omega
        have hlen2 : r2.length ≤ r1.length := hat1.length_mono ctx hat2 (by simpa using hpos1)
        obtain ⟨g1, g2, g3, g4, g5⟩ := ih.addRest r2 _ _ e sp rest hs fm lf' { s with pos := sr.last + 1 } p0 hL'
          (by simp only [List.length_cons] at hfm; omega) (by simp only [List.length_cons] at hlf; omega)
        refine ⟨?_, g2, g3, by have a1 := hL.pos; have a2 := (hL.at_.head).1.le; simp at g4; omega, g5⟩
        have hbin : relExpr s.refPos (.binary op l rh (mkInfo (G ctx) sl.first sr.last)) =
            .binary op (relExpr s.refPos l) (relExpr s.refPos rh)
              { range := ⟨(relExpr s.refPos l).info.range.lo, sr.last + 1 - s.refPos⟩ } := by
          simp [relExpr, relInfo, mkInfo, relExpr_info, hL.lead, hL.range]
        simp only [opLoop, hin hmem, hopk, hrhs]
        rw [hbin] at g1
        exact g1

theorem mulRest_conf {fs : Nat} (ih : Conf ctx fs) :
    ∀ ts l sl e sp rest, mulRest (G ctx) (fs + 1) l sl ts = some (e, sp, rest) → ∀ fm lf s p0,
    LoopAt ctx s l.info.range sl p0 ts → 8 * ts.length + 3 ≤ fm → ts.length < lf →
    opLoop ctx [.Times, .Divide] (parseRhs (parseFactor ctx fm)) lf (relExpr s.refPos l) s =
      .ok { s with pos := sp.last + 1 } (relExpr s.refPos e) ∧
    e.info.range = ⟨p0, sp.last + 1⟩ ∧ sp.first = sl.first ∧ sl.last ≤ sp.last ∧ At ctx { s with pos := sp.last + 1 } rest := by
  intro ts l sl e sp rest hs fm lf s p0 hL hfm hlf
  obtain ⟨lf', rfl⟩ : ∃ f, lf = f + 1 := ⟨lf - 1, by omega⟩
  -- the loop stops here
  have stop : IsErr (altList ([Kind.Times, .Divide].map (tk ctx)) s) → e = l → sp = sl → rest = ts →
      opLoop ctx [.Times, .Divide] (parseRhs (parseFactor ctx fm)) (lf' + 1) (relExpr s.refPos l) s =
        .ok { s with pos := sp.last + 1 } (relExpr s.refPos e) ∧
      e.info.range = ⟨p0, sp.last + 1⟩ ∧ sp.first = sl.first ∧ sl.last ≤ sp.last ∧ At ctx { s with pos := sp.last + 1 } rest := by
    intro ⟨k, s', he⟩ h1 h2 h3
    subst h1 h2 h3
    rw [st_eta s _ hL.pos]
    simp only [List.map_cons, List.map_nil] at he
    exact ⟨by simp only [opLoop, List.map_cons, List.map_nil, he], hL.range, rfl, Nat.le_refl _, hL.at_⟩
  cases ts with
  | nil =>
    simp only [Grammar.mulRest, Option.some.injEq, Prod.mk.injEq] at hs
    exact stop (altTk_nil ctx hL.at_ _) hs.1.symm hs.2.1.symm hs.2.2.symm
  | cons t r1 =>
    obtain ⟨i, ty⟩ := t
    simp only [Grammar.mulRest] at hs
    obtain ⟨tok, htok, hty, hin, hout⟩ := altTk_head ctx hL.at_ [.Times, .Divide]
    cases hop : mulop ty.kind with
    | none =>
      simp only [hop, Option.some.injEq, Prod.mk.injEq] at hs
      have hnot : ty.kind ∉ [Kind.Times, .Divide] := by
        intro hm
        cases hk : ty.kind <;> simp_all [mulop]
      exact stop (hout hnot) hs.1.symm hs.2.1.symm hs.2.2.symm
    | some op =>
      simp only [hop] at hs
      cases hm : Grammar.factor (G ctx) fs r1 with
      | none => simp [hm] at hs
      | some res =>
        obtain ⟨rh, sr, r2⟩ := res
        simp only [hm] at hs
        have hmem : ty.kind ∈ [Kind.Times, .Divide] := by
          cases hk : ty.kind <;> simp_all [mulop]
        have hopk : opOfKind tok.kind = some op := by
          have : tok.kind = ty.kind := by simp [Token.kind, hty]
          rw [this]
          cases hk : ty.kind <;> simp_all [mulop, opOfKind]
        obtain ⟨_, _, _, _, _, hat1⟩ := tagK_head ctx hL.at_ .Times
        -- the right operand
        have hlen : r1.length + 1 = (⟨i, ty⟩ :: r1 : Toks).length := rfl
        obtain ⟨hres, hN1, hle1, hrng1, hat2⟩ := ih.factor r1 rh sr r2 hm fm { s with pos := i + 1 } hat1
          (by simp only [List.length_cons] at hfm; omega)
        have hrhs := parseRhs_ok (parseFactor ctx fm) (relExpr s.refPos l) (relExpr s.refPos rh) op
          { s with pos := i + 1 } _ hres (by have := hat2.ref; simpa using this)
        -- the new left operand
        have hL' : LoopAt ctx { s with pos := sr.last + 1 }
            (Expr.binary op l rh (mkInfo (G ctx) sl.first sr.last)).info.range ⟨sl.first, sr.last⟩ p0 r2 :=
          ⟨hat2, rfl, by simp [Expr.info, mkInfo, hL.lead], hL.lead, hL.ref,
            ⟨hL.le.1, by have := hN1.le; have := hL.le.2; have := hL.pos; have := (hL.at_.head).1.le; simp at *; omega⟩⟩
        have hpos1 : i + 1 ≤ sr.last + 1 := by have := hN1.le; simp at this; omega
        have hlen2 : r2.length ≤ r1.length := hat1.length_mono ctx hat2 (by simpa using hpos1)
        obtain ⟨g1, g2, g3, g4, g5⟩ := ih.mulRest r2 _ _ e sp rest hs fm lf' { s with pos := sr.last + 1 } p0 hL'
          (by simp only [List.length_cons] at hfm; omega) (by simp only [List.length_cons] at hlf; omega)
        refine ⟨?_, g2, g3, by have a1 := hL.pos; have a2 := (hL.at_.head).1.le; simp at g4; omega, g5⟩
        have hbin : relExpr s.refPos (.binary op l rh (mkInfo (G ctx) sl.first sr.last)) =
            .binary op (relExpr s.refPos l) (relExpr s.refPos rh)
              { range := ⟨(relExpr s.refPos l).info.range.lo, sr.last + 1 - s.refPos⟩ } := by
          simp [relExpr, relInfo, mkInfo, relExpr_info, hL.lead, hL.range]
        simp only [opLoop, hin hmem, hopk, hrhs]
        rw [hbin] at g1
        exact g1


theorem loopFuel_gt {s : St} {ts : Toks} (h : At ctx s ts) : ts.length < loopFuel ctx := by
  have := h.length_le ctx
  simp [loopFuel]; omega

theorem add_conf {fs : Nat} (ih : Conf ctx fs) :
    ∀ ts e sp rest, add (G ctx) (fs + 1) ts = some (e, sp, rest) → ∀ fm s, At ctx s ts → 8 * ts.length + 5 ≤ fm →
    GoodE ctx s (parseAdd ctx fm s) e sp rest := by
  intro ts e sp rest hs fm s hat hfm
  obtain ⟨fm', rfl⟩ : ∃ f, fm = f + 1 := ⟨fm - 1, by omega⟩
  simp only [Grammar.add] at hs
  cases hm : Grammar.mul (G ctx) fs ts with
  | none => simp [hm] at hs
  | some res =>
    obtain ⟨l, sl, r⟩ := res
    simp only [hm] at hs
    obtain ⟨hres, hN, hle, hrng, hat1⟩ := ih.mul ts l sl r hm fm' s hat (by omega)
    have hL : LoopAt ctx { s with pos := sl.last + 1 } l.info.range sl s.pos r :=
      ⟨hat1, rfl, hrng, lead_next ctx.toks s.pos sl.first hat.fresh hN, hat.ref, ⟨hN.le, hle⟩⟩
    have hlen : r.length ≤ ts.length := hat.length_mono ctx hat1 (by have := hN.le; simp; omega)
    obtain ⟨g1, g2, g3, g4, g5⟩ := ih.addRest r l sl e sp rest hs fm' (loopFuel ctx) { s with pos := sl.last + 1 } s.pos hL
      (by omega) (loopFuel_gt ctx hat1)
    refine ⟨?_, by rw [g3]; exact hN, by omega, g2, g5⟩
    simp only [parseAdd, Parse.bind, hres]
    exact g1

theorem mul_conf {fs : Nat} (ih : Conf ctx fs) :
    ∀ ts e sp rest, mul (G ctx) (fs + 1) ts = some (e, sp, rest) → ∀ fm s, At ctx s ts → 8 * ts.length + 4 ≤ fm →
    GoodE ctx s (parseMul ctx fm s) e sp rest := by
  intro ts e sp rest hs fm s hat hfm
  obtain ⟨fm', rfl⟩ : ∃ f, fm = f + 1 := ⟨fm - 1, by omega⟩
  simp only [Grammar.mul] at hs
  cases hm : Grammar.factor (G ctx) fs ts with
  | none => simp [hm] at hs
  | some res =>
    obtain ⟨l, sl, r⟩ := res
    simp only [hm] at hs
    obtain ⟨hres, hN, hle, hrng, hat1⟩ := ih.factor ts l sl r hm fm' s hat (by omega)
    have hL : LoopAt ctx { s with pos := sl.last + 1 } l.info.range sl s.pos r :=
      ⟨hat1, rfl, hrng, lead_next ctx.toks s.pos sl.first hat.fresh hN, hat.ref, ⟨hN.le, hle⟩⟩
    have hlen : r.length ≤ ts.length := hat.length_mono ctx hat1 (by have := hN.le; simp; omega)
    obtain ⟨g1, g2, g3, g4, g5⟩ := ih.mulRest r l sl e sp rest hs fm' (loopFuel ctx) { s with pos := sl.last + 1 } s.pos hL
      (by omega) (loopFuel_gt ctx hat1)
    refine ⟨?_, by rw [g3]; exact hN, by omega, g2, g5⟩
    simp only [parseMul, Parse.bind, hres]
    exact g1

theorem expr_conf {fs : Nat} (ih : Conf ctx fs) :
    ∀ ts e sp rest, expr (G ctx) (fs + 1) ts = some (e, sp, rest) → ∀ fm s, At ctx s ts → 8 * ts.length + 6 ≤ fm →
    GoodE ctx s (parseComparison ctx fm s) e sp rest := by
  intro ts e sp rest hs fm s hat hfm
  obtain ⟨fm', rfl⟩ : ∃ f, fm = f + 1 := ⟨fm - 1, by omega⟩
  simp only [Grammar.expr] at hs
  cases hm : Grammar.add (G ctx) fs ts with
  | none => simp [hm] at hs
  | some res =>
    obtain ⟨l, sl, r⟩ := res
    simp only [hm] at hs
    obtain ⟨hres, hN, hle, hrng, hat1⟩ := ih.add ts l sl r hm fm' s hat (by omega)
    have hlen : r.length ≤ ts.length := hat.length_mono ctx hat1 (by have := hN.le; simp; omega)
    -- no comparison operator follows
    have stop : IsErr (altList ([Kind.Eq, .Neq, .Le, .Lt, .Ge, .Gt].map (tk ctx)) { s with pos := sl.last + 1 }) →
        e = l → sp = sl → rest = r → GoodE ctx s (parseComparison ctx (fm' + 1) s) e sp rest := by
      intro ⟨k, s', he⟩ h1 h2 h3
      subst h1 h2 h3
      refine ⟨?_, hN, hle, hrng, hat1⟩
      simp only [List.map_cons, List.map_nil] at he
      simp only [parseComparison, Parse.bind, hres, List.map_cons, List.map_nil, he]
    cases r with
    | nil =>
      simp only [Option.some.injEq, Prod.mk.injEq] at hs
      exact stop (altTk_nil ctx hat1 _) hs.1.symm hs.2.1.symm hs.2.2.symm
    | cons t r1 =>
      obtain ⟨i, ty⟩ := t
      simp only at hs
      obtain ⟨tok, htok, hty, hin, hout⟩ := altTk_head ctx hat1 [.Eq, .Neq, .Le, .Lt, .Ge, .Gt]
      cases hop : relop ty.kind with
      | none =>
        simp only [hop, Option.some.injEq, Prod.mk.injEq] at hs
        have hnot : ty.kind ∉ [Kind.Eq, .Neq, .Le, .Lt, .Ge, .Gt] := by
          intro hmm
          cases hk : ty.kind <;> simp_all [relop]
        exact stop (hout hnot) hs.1.symm hs.2.1.symm hs.2.2.symm
      | some op =>
        simp only [hop] at hs
        cases hm2 : Grammar.add (G ctx) fs r1 with
        | none => simp [hm2] at hs
        | some res2 =>
          obtain ⟨rh, sr, r2⟩ := res2
          simp only [hm2, Option.some.injEq, Prod.mk.injEq] at hs
          obtain ⟨rfl, rfl, rfl⟩ := hs
          have hmem : ty.kind ∈ [Kind.Eq, .Neq, .Le, .Lt, .Ge, .Gt] := by
            cases hk : ty.kind <;> simp_all [relop]
          have hopk : opOfKind tok.kind = some op := by
            have : tok.kind = ty.kind := by simp [Token.kind, hty]
            rw [this]
            cases hk : ty.kind <;> simp_all [relop, opOfKind]
          obtain ⟨_, _, _, _, _, hat2⟩ := tagK_head ctx hat1 .Eq
          obtain ⟨hres2, hN2, hle2, hrng2, hat3⟩ := ih.add r1 rh sr r2 hm2 fm' { s with pos := i + 1 } hat2
            (by simp only [List.length_cons] at hlen; omega)
          have hrhs := parseRhs_ok (parseAdd ctx fm') (relExpr s.refPos l) (relExpr s.refPos rh) op
            { s with pos := i + 1 } _ hres2 (by have := hat3.ref; simpa using this)
          have hlead := lead_next ctx.toks s.pos sl.first hat.fresh hN
          have hi1 : sl.last + 1 ≤ i := by have := (hat1.head).1.le; simpa using this
          have hi2 : i + 1 ≤ sr.first := by have := hN2.le; simpa using this
          refine ⟨?_, hN, by simp; omega, by simp [Expr.info, mkInfo, hlead], hat3⟩
          have hbin : relExpr s.refPos (.binary op l rh (mkInfo (G ctx) sl.first sr.last)) =
              .binary op (relExpr s.refPos l) (relExpr s.refPos rh)
                { range := ⟨(relExpr s.refPos l).info.range.lo, sr.last + 1 - s.refPos⟩ } := by
            simp [relExpr, relInfo, mkInfo, relExpr_info, hlead, hrng]
          have hin' := hin hmem
          simp only [List.map_cons, List.map_nil] at hin'
          simp only [parseComparison, Parse.bind, hres, List.map_cons, List.map_nil, hin', hopk, hrhs, hbin]

theorem variable_fail {s : St} {ts : Toks} (h : At ctx s ts) (f : Nat)
    (hne : ∀ i ty r, ts = ⟨i, ty⟩ :: r → ty.kind ≠ .Ident) : IsErr (parseVariable ctx (f + 1) none s) := by
  have h1 := ident_fail ctx h.clearErr hne
  obtain ⟨k, s', he⟩ := info_err (pmap Var.named (parseIdentifier ctx none)) s (pmap_err _ _ _ h1) h.ref
  exact ⟨k, s', by simp only [parseVariable, affected, he]⟩

theorem bind_err {α β} (p : P α) (f : α → P β) (s : St) (h : IsErr (p s)) : IsErr (Parse.bind p f s) := by
  obtain ⟨k, s', h⟩ := h
  exact ⟨k, s', by simp [Parse.bind, h]⟩

theorem bracketed_fail {s : St} {ts : Toks} (h : At ctx s ts) (f : Nat)
    (hne : ∀ i ty r, ts = ⟨i, ty⟩ :: r → ty.kind ≠ .LParen) : IsErr (parseBracketed ctx (f + 1) s) := by
  have h0 : IsErr (tk ctx .LParen { s with errBuf := [] }) := tagK_fail ctx h.clearErr .LParen hne
  have h1 : IsErr (info (tk ctx .LParen) { s with errBuf := [] }) := info_err _ _ h0 h.ref
  obtain ⟨k, s', he⟩ := info_err (bracketedInner ctx (parseComparison ctx f)) s (bind_err _ _ _ h1) h.ref
  exact ⟨k, s', by simp only [parseBracketed, he]⟩

theorem primary_fail {s : St} {ts : Toks} (h : At ctx s ts) (f : Nat)
    (hne : ∀ i ty r, ts = ⟨i, ty⟩ :: r →
      ty.kind ≠ .Hex ∧ ty.kind ≠ .Char ∧ ty.kind ≠ .Int ∧ ty.kind ≠ .Ident ∧ ty.kind ≠ .LParen) :
    IsErr (parsePrimary ctx (f + 2) s) := by
  have a1 := intLit_fail ctx h (fun i ty r e => ⟨(hne i ty r e).1, (hne i ty r e).2.1, (hne i ty r e).2.2.1⟩)
  have a2 := variable_fail ctx h f (fun i ty r e => (hne i ty r e).2.2.2.1)
  have a3 := bracketed_fail ctx h f (fun i ty r e => (hne i ty r e).2.2.2.2)
  simp only [parsePrimary]
  rw [altList_cons_err _ _ _ (by simp) (pmap_err _ _ _ a1)]
  rw [altList_cons_err _ _ _ (by simp) (pmap_err _ _ _ a2)]
  exact a3

theorem factor_other (g : GCtx) (fs i : Nat) (ty : TokenType) (r : Toks) (h1 : ty ≠ .Minus) (h2 : ty ≠ .LParen)
    (h3 : ∀ n, ty ≠ .Ident n) :
    factor g (fs + 1) (⟨i, ty⟩ :: r) = match intLitTok g (⟨i, ty⟩ :: r) with
      | some (l, i, r) => some (.intLit l, ⟨i, i⟩, r)
      | none => none := by
  cases ty <;> first | rfl | simp_all [Grammar.factor]

theorem alt2_err_left {α} (p q : P α) (s : St) (h : IsErr (p s)) : alt2 p q s = q s := by
  obtain ⟨k, s', h⟩ := h
  simp [alt2, h]

theorem alt2_ok_left {α} (p q : P α) (s s' : St) (a : α) (h : p s = .ok s' a) : alt2 p q s = .ok s' a := by
  simp [alt2, h]

theorem factor_conf {fs : Nat} (ih : Conf ctx fs) :
    ∀ ts e sp rest, factor (G ctx) (fs + 1) ts = some (e, sp, rest) → ∀ fm s, At ctx s ts → 8 * ts.length + 3 ≤ fm →
    GoodE ctx s (parseFactor ctx fm s) e sp rest := by
  intro ts e sp rest hs fm s hat hfm
  cases ts with
  | nil => simp [Grammar.factor, intLitTok] at hs
  | cons t0 r =>
    obtain ⟨i, ty⟩ := t0
    have hlen : (⟨i, ty⟩ :: r : Toks).length = r.length + 1 := rfl
    rw [hlen] at hfm
    obtain ⟨f3, rfl⟩ : ∃ f, fm = f + 3 := ⟨fm - 3, by omega⟩
    obtain ⟨hN, ⟨tok, htok, hty⟩, hr, hlead⟩ := hat.head
    by_cases h1 : ty = .Minus
    · -- unary minus
      subst h1
      simp only [Grammar.factor] at hs
      cases hf : Grammar.factor (G ctx) fs r with
      | none => simp [hf] at hs
      | some res =>
        obtain ⟨e1, se, r1⟩ := res
        simp only [hf, Option.some.injEq, Prod.mk.injEq] at hs
        obtain ⟨rfl, rfl, rfl⟩ := hs
        have hp := primary_fail ctx hat f3 (by
          intro i' ty' r' e'; cases e'; simp [TokenType.kind])
        obtain ⟨_, _, _, he, _, hat1⟩ := tagK_head ctx hat.clearErr .Minus
        have hk : ((TokenType.Minus).kind == Kind.Minus) = true := rfl
        rw [hk] at he; simp only [if_true] at he
        obtain ⟨hres, hN1, hle1, hrng1, hat2⟩ := ih.factor r e1 se r1 hf (f3 + 1) _ hat1 (by omega)
        have hi1 : i + 1 ≤ se.first := by have := hN1.le; simpa using this
        have inner : Parse.bind (tk ctx .Minus) (fun _ => parseFactor ctx (f3 + 1)) { s with errBuf := [] } =
            .ok { s with errBuf := [], pos := se.last + 1 } (relExpr s.refPos e1) := by
          have he' : tk ctx .Minus { s with errBuf := [] } = _ := he
          simp only [Parse.bind, he']
          exact hres
        have hi := info_ok _ s _ _ inner hat.ref (by have := hat2.ref; simpa using this)
        refine ⟨?_, hN, by simp; omega, by simp [Expr.info, mkInfo, hlead], ⟨hat2.fresh, hat2.ref, hat2.toks⟩⟩
        rw [show f3 + 3 = (f3 + 2) + 1 from rfl]
        simp only [parseFactor]
        rw [alt2_err_left _ _ _ hp]
        simp only [parseUnary, pmap, hi, relExpr, relInfo, mkInfo, hlead]
    · by_cases h2 : ty = .LParen
      · -- parenthesised expression
        subst h2
        simp only [Grammar.factor] at hs
        cases hf : Grammar.expr (G ctx) fs r with
        | none => simp [hf] at hs
        | some res =>
          obtain ⟨e1, se, r1⟩ := res
          simp only [hf] at hs
          cases r1 with
          | nil => simp [expectK] at hs
          | cons t1 r2 =>
            obtain ⟨j, ty1⟩ := t1
            simp only [expectK] at hs
            by_cases hk1 : (ty1.kind == Kind.RParen) = true
            · simp only [hk1, if_true, Option.some.injEq, Prod.mk.injEq] at hs
              obtain ⟨rfl, rfl, rfl⟩ := hs
              have a1 := intLit_fail ctx hat (by intro i' ty' r' e'; cases e'; simp [TokenType.kind])
              have a2 := variable_fail ctx hat f3 (by intro i' ty' r' e'; cases e'; simp [TokenType.kind])
              -- `(`
              obtain ⟨tlp, _, _, he, _, hat1⟩ := tagK_head ctx hat.clearErr .LParen
              have hk : ((TokenType.LParen).kind == Kind.LParen) = true := rfl
              rw [hk] at he; simp only [if_true] at he
              have he' : tk ctx .LParen { s with errBuf := [] } = _ := he
              have hlp := info_ok (tk ctx .LParen) { s with errBuf := [] } _ tlp he' hat.ref
                (by have := hat.ref; have := hN.le; simp; omega)
              -- the expression
              obtain ⟨hres, hN1, hle1, hrng1, hat2⟩ := ih.expr r e1 se (⟨j, ty1⟩ :: r2) hf f3 _ hat1 (by omega)
              -- `)`
              obtain ⟨trp, _, _, he2, _, hat3⟩ := tagK_head ctx hat2 .RParen
              rw [hk1] at he2; simp only [if_true] at he2
              have he2' : tk ctx .RParen _ = _ := he2
              have hj : se.last + 1 ≤ j := by have := (hat2.head).1.le; simpa using this
              have hi1 : i + 1 ≤ se.first := by have := hN1.le; simpa using this
              have inner : bracketedInner ctx (parseComparison ctx f3) { s with errBuf := [] } =
                  .ok { s with errBuf := [], pos := j + 1 }
                    (({ range := ⟨s.pos - s.refPos, i + 1 - s.refPos⟩, errors := [] } : AstInfo), some (relExpr s.refPos e1)) := by
                simp only [bracketedInner, Parse.bind, hlp, Spl.Parse.expect, inc]
                simp only [hres, he2', pure']
              have hi := info_ok _ s _ _ inner hat.ref (by have := hat3.ref; simpa using this)
              refine ⟨?_, hN, by simp; omega, by simp [Expr.info, mkInfo, hlead], ⟨hat3.fresh, hat3.ref, hat3.toks⟩⟩
              rw [show f3 + 3 = ((f3 + 1) + 1) + 1 from rfl]
              simp only [parseFactor, parsePrimary]
              apply alt2_ok_left
              rw [altList_cons_err _ _ _ (by simp) (pmap_err _ _ _ a1)]
              rw [altList_cons_err _ _ _ (by simp) (pmap_err _ _ _ a2)]
              simp only [altList, parseBracketed, hi, Option.getD, relExpr, relInfo, mkInfo, hlead]
            · simp [hk1] at hs
      · by_cases h3 : ∃ n, ty = .Ident n
        · -- variable
          obtain ⟨n, rfl⟩ := h3
          simp only [Grammar.factor] at hs
          cases hv : Grammar.varAccess (G ctx) fs (⟨i, .Ident n⟩ :: r) with
          | none => simp [hv] at hs
          | some res =>
            obtain ⟨v, sv, r1⟩ := res
            simp only [hv, Option.some.injEq, Prod.mk.injEq] at hs
            obtain ⟨rfl, rfl, rfl⟩ := hs
            have a1 := intLit_fail ctx hat (by intro i' ty' r' e'; cases e'; simp [TokenType.kind])
            obtain ⟨hres, hN1, hle1, hrng1, hat2⟩ := ih.varAccess _ v sv r1 hv (f3 + 1) s hat (by simp only [List.length_cons]; omega)
            refine ⟨?_, hN1, hle1, by simpa [Expr.info] using hrng1, hat2⟩
            rw [show f3 + 3 = ((f3 + 1) + 1) + 1 from rfl]
            simp only [parseFactor, parsePrimary]
            apply alt2_ok_left
            rw [altList_cons_err _ _ _ (by simp) (pmap_err _ _ _ a1)]
            apply altList_cons_ok
            simp only [pmap, hres, relExpr]
        · -- integer literal
          have h3' : ∀ n, ty ≠ .Ident n := fun n e => h3 ⟨n, e⟩
          rw [factor_other _ _ _ _ _ h1 h2 h3'] at hs
          cases hl : intLitTok (G ctx) (⟨i, ty⟩ :: r) with
          | none => simp [hl] at hs
          | some res =>
            obtain ⟨l, i', r'⟩ := res
            simp only [hl, Option.some.injEq, Prod.mk.injEq] at hs
            obtain ⟨rfl, rfl, rfl⟩ := hs
            obtain ⟨hres, hat2, hN1, hrng⟩ := intLit_ok ctx hat hl
            refine ⟨?_, hN1, Nat.le_refl _, by simpa [Expr.info] using hrng, hat2⟩
            rw [show f3 + 3 = ((f3 + 1) + 1) + 1 from rfl]
            simp only [parseFactor, parsePrimary]
            apply alt2_ok_left
            apply altList_cons_ok
            simp only [pmap, hres, relExpr]

theorem accesses_other (g : GCtx) (fs i : Nat) (ty : TokenType) (r : Toks) (v : Var) (sv : Span) (h : ty ≠ .LBracket) :
    accesses g (fs + 1) v sv (⟨i, ty⟩ :: r) = some (v, sv, ⟨i, ty⟩ :: r) := by
  cases ty <;> first | rfl | simp_all [Grammar.accesses]

theorem accesses_conf {fs : Nat} (ih : Conf ctx fs) :
    ∀ ts v sv vf sp rest, accesses (G ctx) (fs + 1) v sv ts = some (vf, sp, rest) → ∀ fe lf s p0 (vinfo : AstInfo),
    LoopAt ctx s v.info.range sv p0 ts → vinfo.range.lo = p0 - s.refPos → vinfo.range.hi ≤ sv.last + 1 - s.refPos →
    8 * ts.length ≤ fe → ts.length < lf →
    ∃ accs, many0 (accessParser ctx (refParse (parseExpression ctx fe))) lf s = .ok { s with pos := sp.last + 1 } accs ∧
      accs.foldl (accessStep vinfo) (relVar s.refPos v) = relVar s.refPos vf ∧
      vf.info.range = ⟨p0, sp.last + 1⟩ ∧ sp.first = sv.first ∧ sv.last ≤ sp.last ∧ At ctx { s with pos := sp.last + 1 } rest := by
  intro ts v sv vf sp rest hs fe lf s p0 vinfo hL hv1 hv2 hfe hlf
  obtain ⟨lf', rfl⟩ : ∃ f, lf = f + 1 := ⟨lf - 1, by omega⟩
  have stop : IsErr (tk ctx .LBracket { s with errBuf := [] }) → vf = v → sp = sv → rest = ts →
      ∃ accs, many0 (accessParser ctx (refParse (parseExpression ctx fe))) (lf' + 1) s = .ok { s with pos := sp.last + 1 } accs ∧
      accs.foldl (accessStep vinfo) (relVar s.refPos v) = relVar s.refPos vf ∧
      vf.info.range = ⟨p0, sp.last + 1⟩ ∧ sp.first = sv.first ∧ sv.last ≤ sp.last ∧ At ctx { s with pos := sp.last + 1 } rest := by
    intro he h1 h2 h3
    subst h1 h2 h3
    have hacc : IsErr (accessParser ctx (refParse (parseExpression ctx fe)) s) :=
      info_err _ s (bind_err _ _ _ he) hL.at_.ref
    obtain ⟨k, s', he'⟩ := hacc
    rw [st_eta s _ hL.pos]
    refine ⟨[], ?_, rfl, hL.range, rfl, Nat.le_refl _, hL.at_⟩
    simp only [many0, he']
  cases ts with
  | nil =>
    simp only [Grammar.accesses, Option.some.injEq, Prod.mk.injEq] at hs
    exact stop (tagK_fail ctx hL.at_.clearErr .LBracket (by intro i ty r e; cases e)) hs.1.symm hs.2.1.symm hs.2.2.symm
  | cons t0 r =>
    obtain ⟨ib, ty⟩ := t0
    by_cases hty : ty = .LBracket
    · subst hty
      simp only [Grammar.accesses] at hs
      cases he : Grammar.expr (G ctx) fs r with
      | none => simp [he] at hs
      | some res =>
        obtain ⟨e, se, r1⟩ := res
        simp only [he] at hs
        cases r1 with
        | nil => simp [expectK] at hs
        | cons t1 r2 =>
          obtain ⟨j, ty1⟩ := t1
          simp only [expectK] at hs
          by_cases hk1 : (ty1.kind == Kind.RBracket) = true
          · simp only [hk1, if_true] at hs
            obtain ⟨fe', rfl⟩ : ∃ f, fe = f + 1 := ⟨fe - 1, by simp only [List.length_cons] at hfe; omega⟩
            -- `[`
            obtain ⟨tlb, _, _, hlb, _, hat1⟩ := tagK_head ctx hL.at_.clearErr .LBracket
            have hk : ((TokenType.LBracket).kind == Kind.LBracket) = true := rfl
            rw [hk] at hlb; simp only [if_true] at hlb
            have hlb' : tk ctx .LBracket { s with errBuf := [] } = _ := hlb
            have hib : s.pos ≤ ib := (hL.at_.head).1.le
            -- the index expression, under its own reference
            have hat2 : At ctx { s with errBuf := [], pos := ib + 1, refPos := ib + 1 } r :=
              ⟨hat1.fresh, Nat.le_refl _, hat1.toks⟩
            obtain ⟨hres, hN1, hle1, hrng1, hat3⟩ := ih.expr r e se (⟨j, ty1⟩ :: r2) he fe' _ hat2
              (by simp only [List.length_cons] at hfe; omega)
            have href : refParse (parseExpression ctx (fe' + 1)) none { s with errBuf := [], pos := ib + 1 } =
                .ok { s with errBuf := [], pos := se.last + 1 } ⟨relExpr (ib + 1) e, ib + 1 - s.refPos⟩ := by
              have a : ¬ ib + 1 < s.refPos := by have := hL.at_.ref; omega
              simp only [refParse, Option.isSome_none, Bool.false_eq_true, if_false, a, Option.map_none, parseExpression,
                affected]
              simp only [hres]
            -- `]`
            have hat3' : At ctx { s with errBuf := [], pos := se.last + 1 } (⟨j, ty1⟩ :: r2) :=
              ⟨hat3.fresh, by have := hL.at_.ref; have := hN1.le; simp at *; omega, hat3.toks⟩
            obtain ⟨trb, _, _, hrb, _, hat4⟩ := tagK_head ctx hat3' .RBracket
            rw [hk1] at hrb; simp only [if_true] at hrb
            have hrb' : tk ctx .RBracket _ = _ := hrb
            have hj : se.last + 1 ≤ j := by have := (hat3'.head).1.le; simpa using this
            have hi1 : ib + 1 ≤ se.first := by have := hN1.le; simpa using this
            have inner : Parse.bind (tk ctx .LBracket) (fun _ =>
                Parse.bind (Spl.Parse.expect none (refParse (parseExpression ctx (fe' + 1))) (.ExpectedToken (chars "expression"))) (fun idx =>
                  Parse.bind (Spl.Parse.expect none (inc (tk ctx .RBracket)) (.MissingClosing ']')) (fun _ =>
                    pure' idx))) { s with errBuf := [] } =
                .ok { s with errBuf := [], pos := j + 1 } (some ⟨relExpr (ib + 1) e, ib + 1 - s.refPos⟩) := by
              simp only [Parse.bind, hlb', Spl.Parse.expect, href, inc, hrb', pure']
            have hi := info_ok _ s _ _ inner hL.at_.ref (by have := hat4.ref; simpa using this)
            -- the rest of the accesses
            have hlen : r2.length + 2 ≤ (⟨ib, .LBracket⟩ :: r : Toks).length := by
              have := hat1.length_mono ctx hat3' (by simp; omega)
              simp only [List.length_cons] at this ⊢
              omega
            have hL' : LoopAt ctx { s with pos := j + 1 }
                (Var.access v (.some e 0) (mkInfo (G ctx) sv.first j)).info.range ⟨sv.first, j⟩ p0 r2 :=
              ⟨⟨hat4.fresh, hat4.ref, hat4.toks⟩, rfl, by simp [Var.info, mkInfo, hL.lead], hL.lead, hL.ref,
                ⟨hL.le.1, by have := hL.le.2; have := hL.pos; simp at *; omega⟩⟩
            obtain ⟨accs, g1, g2, g3, g4, g5, g6⟩ := ih.accesses r2 _ _ vf sp rest hs (fe' + 1) lf' { s with pos := j + 1 } p0 vinfo hL'
              hv1 (by have a1 := hL.pos; dsimp only at hv2 ⊢; exact Nat.le_trans hv2 (Nat.sub_le_sub_right (by omega) _)) (by simp only [List.length_cons] at hfe hlen; omega)
              (by simp only [List.length_cons] at hlf hlen; omega)
            refine ⟨(some ⟨relExpr (ib + 1) e, ib + 1 - s.refPos⟩,
                { range := ⟨s.pos - s.refPos, j + 1 - s.refPos⟩, errors := [] }) :: accs, ?_, ?_, g3, g4,
              by have a1 := hL.pos; dsimp only at g5; exact Nat.le_trans (by omega) g5, g6⟩
            · have hne : ((j + 1 == s.pos) = false) := by simp; omega
              simp only [many0, accessParser, hi, hne, Bool.false_eq_true, if_false]
              simp only [accessParser] at g1
              rw [g1]
            · simp only [List.foldl_cons]
              have hstep : accessStep vinfo (relVar s.refPos v)
                  (some ⟨relExpr (ib + 1) e, ib + 1 - s.refPos⟩, { range := ⟨s.pos - s.refPos, j + 1 - s.refPos⟩, errors := [] }) =
                  relVar s.refPos (Var.access v (.some e 0) (mkInfo (G ctx) sv.first j)) := by
                have hp0 : p0 ≤ s.pos := by have := hL.le; have := hL.pos; omega
                simp only [accessStep, OptExpr.ofOption, AstInfo.extendRange, relVar, relOptExpr, hrng1, relInfo, mkInfo, hL.lead, hv1]
                congr 2
                have e1 : (s.pos - s.refPos).min (p0 - s.refPos) = p0 - s.refPos :=
                  Nat.min_eq_right (Nat.sub_le_sub_right hp0 _)
                have e2 : (j + 1 - s.refPos).max vinfo.range.hi = j + 1 - s.refPos :=
                  Nat.max_eq_left (Nat.le_trans hv2 (Nat.sub_le_sub_right (by have := hL.pos; omega) _))
                rw [e1, e2]
              rw [hstep]
              exact g2
          · simp [hk1] at hs
    · rw [accesses_other _ _ _ _ _ _ _ hty] at hs
      simp only [Option.some.injEq, Prod.mk.injEq] at hs
      exact stop (tagK_fail ctx hL.at_.clearErr .LBracket (by
        intro i ty' r' e'; cases e'
        intro hk; apply hty; cases ty <;> simp_all [TokenType.kind])) hs.1.symm hs.2.1.symm hs.2.2.symm

theorem varAccess_conf {fs : Nat} (ih : Conf ctx fs) :
    ∀ ts v sp rest, varAccess (G ctx) (fs + 1) ts = some (v, sp, rest) → ∀ fm s, At ctx s ts → 8 * ts.length + 1 ≤ fm →
    GoodV ctx s (parseVariable ctx fm none s) v sp rest := by
  intro ts v sp rest hs fm s hat hfm
  obtain ⟨fm', rfl⟩ : ∃ f, fm = f + 1 := ⟨fm - 1, by omega⟩
  simp only [Grammar.varAccess] at hs
  cases ts with
  | nil => simp [identTok] at hs
  | cons t0 r =>
    obtain ⟨i, ty⟩ := t0
    cases ty with
    | Ident name =>
      simp only [identTok] at hs
      obtain ⟨hN, _, _, hlead⟩ := hat.head
      obtain ⟨hid, hat1⟩ := ident_ok ctx hat.clearErr
      have hpm : pmap Var.named (parseIdentifier ctx none) { s with errBuf := [] } =
          .ok { s with errBuf := [], pos := i + 1 } (.named (relIdent s.refPos (mkIdent (G ctx) i name))) := by
        simp only [pmap, hid]
      have hi := info_ok _ s _ _ hpm hat.ref (by have := hat1.ref; simpa using this)
      have hL : LoopAt ctx { s with pos := i + 1 } (Var.named (mkIdent (G ctx) i name)).info.range ⟨i, i⟩ s.pos r :=
        ⟨⟨hat1.fresh, hat1.ref, hat1.toks⟩, rfl, by simp [Var.info, mkIdent, mkInfo, hlead], hlead, hat.ref, ⟨hN.le, Nat.le_refl _⟩⟩
      obtain ⟨accs, g1, g2, g3, g4, g5, g6⟩ := ih.accesses r _ _ v sp rest hs fm' (loopFuel ctx) { s with pos := i + 1 } s.pos
        { range := ⟨s.pos - s.refPos, i + 1 - s.refPos⟩, errors := [] } hL rfl (by simp)
        (by simp only [List.length_cons] at hfm; omega) (loopFuel_gt ctx hL.at_)
      refine ⟨?_, by rw [g4]; exact hN, by simp at g5; rw [g4]; omega, g3, g6⟩
      simp only [parseVariable, affected, hi, g1]
      simp only [relVar] at g2
      rw [g2]
    | _ => simp [identTok] at hs

theorem conf_all : ∀ fs, Conf ctx fs
  | 0 => by
    constructor
    · intro ts e sp rest hs; simp [Grammar.expr] at hs
    · intro ts e sp rest hs; simp [Grammar.add] at hs
    · intro ts l sl e sp rest hs; simp [Grammar.addRest] at hs
    · intro ts e sp rest hs; simp [Grammar.mul] at hs
    · intro ts l sl e sp rest hs; simp [Grammar.mulRest] at hs
    · intro ts e sp rest hs; simp [Grammar.factor] at hs
    · intro ts v sp rest hs; simp [Grammar.varAccess] at hs
    · intro ts v sv vf sp rest hs; simp [Grammar.accesses] at hs
  | fs + 1 => by
    have ih := conf_all fs
    exact ⟨expr_conf ctx ih, add_conf ctx ih, addRest_conf ctx ih, mul_conf ctx ih, mulRest_conf ctx ih,
      factor_conf ctx ih, varAccess_conf ctx ih, accesses_conf ctx ih⟩

/-- **Expressions: the parser builds the derivation the grammar mandates.**  Whenever the
    specification derives an expression from the token sequence at the current position (whatever
    its fuel), `Expression::parse` succeeds there, consumes exactly the expression's tokens, leaves
    the error buffer untouched and returns the specification's tree in the implementation's range
    convention. -/
theorem expression_conforms {fs : Nat} {ts rest : Toks} {e : Expr} {sp : Span} {s : St}
    (hs : expr (G ctx) fs ts = some (e, sp, rest)) (hat : At ctx s ts) :
    parseExpression ctx (exprFuel ctx) none s = .ok { s with pos := sp.last + 1 } (relExpr s.refPos e) ∧
    Next ctx.toks s.pos sp.first ∧ sp.first ≤ sp.last ∧ e.info.range = ⟨s.pos, sp.last + 1⟩ ∧
    At ctx { s with pos := sp.last + 1 } rest := by
  have hlen := hat.length_le ctx
  obtain ⟨g1, g2, g3, g4, g5⟩ := (conf_all ctx fs).expr ts e sp rest hs (8 * ctx.toks.size + 15) s hat (by omega)
  refine ⟨?_, g2, g3, g4, g5⟩
  show parseExpression ctx (8 * ctx.toks.size + 15 + 1) none s = _
  simp only [parseExpression, affected]
  exact g1

end Spl.ParseConform
