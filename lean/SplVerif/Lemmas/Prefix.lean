/-
  Lemmas for C05: declarations in front of a damaged one are parsed as if nothing followed.

  `DeclsPrefix g ts ds rest`: the token list `ts` starts with the global declarations `ds`, each
  derived by the grammar specification, and goes on with `rest` — which may be anything: a damaged
  declaration, garbage, more declarations, the end of the file.  On such a token list the
  declaration loop of the parser returns exactly `ds` (in the implementation's range convention,
  no diagnostic anywhere) and then whatever it makes of `rest`.
-/
import SplVerif.Lemmas.ParseConformDecl

namespace Spl.ParseConform
open Spl Spl.Parse Spl.Grammar

inductive DeclsPrefix (g : GCtx) : Toks → List (Ref GlobalDecl) → Toks → Prop
  | nil (ts : Toks) : DeclsPrefix g ts [] ts
  | type (i k : Nat) (r r4 rest : Toks) (td : TypeDecl) (ds : List (Ref GlobalDecl)) :
      TypeDeclSpec g i r r4 td k → DeclsPrefix g r4 ds rest →
      DeclsPrefix g (⟨i, .Type⟩ :: r) (refAbs (.type td) :: ds) rest
  | proc (i j : Nat) (nm : List Char) (ilp : Nat) (tylp : TokenType) (r2 : Toks) (ps : List (Ref ParamDecl))
      (irp : Nat) (tyrp : TokenType) (ilc : Nat) (tylc : TokenType) (r5 : Toks) (vs : List (Ref VarDecl)) (r6 : Toks)
      (ss : StmtList) (k : Nat) (tyk : TokenType) (r8 rest : Toks) (ds : List (Ref GlobalDecl)) :
      (tylp.kind == Kind.LParen) = true →
      ((∃ x r', r2 = ⟨x, .RParen⟩ :: r' ∧ ps = [] ∧ r2 = ⟨irp, tyrp⟩ :: ⟨ilc, tylc⟩ :: r5) ∨
       ((∀ x r', r2 ≠ ⟨x, .RParen⟩ :: r') ∧ params g (r2.length + 1) r2 = some (ps, ⟨irp, tyrp⟩ :: ⟨ilc, tylc⟩ :: r5))) →
      (tyrp.kind == Kind.RParen) = true → (tylc.kind == Kind.LCurly) = true →
      varDecls g (r5.length + 1) r5 = some (vs, r6) →
      Grammar.stmts g (2 * r6.length + 4) r6 = some (ss, ⟨k, tyk⟩ :: r8) → (tyk.kind == Kind.RCurly) = true →
      DeclsPrefix g r8 ds rest →
      DeclsPrefix g (⟨i, .Proc⟩ :: ⟨j, .Ident nm⟩ :: ⟨ilp, tylp⟩ :: r2)
        (refAbs (.proc { doc := docOf g i, name := some (mkIdent g j nm), params := ps, vars := vs,
                         stmts := ss.toList, info := mkInfo g i k }) :: ds) rest

/-- the declarations of a whole derivation are such a prefix, followed by the end of the file -/
theorem decls_is_prefix (g : GCtx) : ∀ (fd : Nat) (ts : Toks) (ds : List (Ref GlobalDecl)) (last : Option Nat),
    decls g fd ts = some (ds, last) → ∃ ieof, DeclsPrefix g ts ds [⟨ieof, .Eof⟩]
  | 0, ts, ds, last, hs => by simp [Grammar.decls] at hs
  | fd + 1, ts, ds, last, hs => by
    rcases decls_other _ _ _ _ _ hs with ⟨i, rfl, rfl, rfl⟩ | ⟨i, r, rfl⟩ | ⟨i, r, rfl⟩
    · exact ⟨i, DeclsPrefix.nil _⟩
    · obtain ⟨td, k, r4, ds', last', hsp, hrec, rfl, rfl⟩ := decls_type_flat _ _ _ _ _ _ hs
      obtain ⟨ie, h⟩ := decls_is_prefix g fd r4 ds' last' hrec
      exact ⟨ie, DeclsPrefix.type i k r r4 _ td ds' hsp h⟩
    · obtain ⟨j, nm, ilp, tylp, r2, ps, irp, tyrp, ilc, tylc, r5, vs, r6, ss, k, tyk, r8, ds', last',
        rfl, klp, hps, krp, klc, hvs, hss, kk, hrec, rfl, rfl⟩ := decls_proc_flat _ _ _ _ _ _ hs
      obtain ⟨ie, h⟩ := decls_is_prefix g fd r8 ds' last' hrec
      exact ⟨ie, DeclsPrefix.proc i j nm ilp tylp r2 ps irp tyrp ilc tylc r5 vs r6 ss k tyk r8 _ ds' klp hps krp klc hvs hss kk h⟩

/-- put results in front of the results of a continued loop -/
def prependRes {α} (xs : List α) : Res (List α) → Res (List α)
  | .ok s l => .ok s (xs ++ l)
  | r => r

theorem prependRes_nil {α} (r : Res (List α)) : prependRes [] r = r := by
  cases r <;> simp [prependRes]

theorem prependRes_cons {α} (a : α) (xs : List α) (r : Res (List α)) :
    (match prependRes xs r with
     | .ok s'' as => .ok s'' (a :: as)
     | r' => r') = prependRes (a :: xs) r := by
  cases r <;> simp [prependRes]

variable (ctx : Ctx)

/-- **The declaration loop on a token list that starts with derivable declarations**: it returns
    those declarations — sub-trees, ranges, offsets and doc comments as the grammar mandates, no
    diagnostic — and continues behind them exactly as a loop started there. -/
theorem prefix_conf {ts rest : Toks} {ds : List (Ref GlobalDecl)} (h : DeclsPrefix (G ctx) ts ds rest) :
    ∀ (s : St) (f : Nat), At ctx s ts → s.refPos = 0 →
    ∃ e, s.pos ≤ e ∧ At ctx { s with pos := e } rest ∧ ds.length + rest.length ≤ ts.length ∧
      many0 (refParse (parseGlobalDecl ctx) none) (f + ds.length) s =
        prependRes (ds.map relDecl) (many0 (refParse (parseGlobalDecl ctx) none) f { s with pos := e }) := by
  induction h with
  | nil ts =>
    intro s f hat href
    refine ⟨s.pos, Nat.le_refl _, by rw [st_eta s _ rfl]; exact hat, by simp, ?_⟩
    rw [st_eta s _ rfl]
    simp [prependRes_nil]
  | type i k r r4 rest td ds hsp _ ih =>
    intro s f hat href
    obtain ⟨e1, hp1, hat1⟩ := typeDecl_conf ctx hsp (hat.reref ctx)
    have hlo : td.info.range.lo = s.pos := by
      rw [typeDeclSpec_info hsp]; simp [mkInfo, (hat.head).2.2.2]
    have hg : parseGlobalDecl ctx none { s with refPos := s.pos } =
        .ok { s with refPos := s.pos, pos := k + 1 } (.type (relTypeDecl s.pos td)) := by
      rw [parseGlobalDecl_none]
      apply altList_cons_ok
      simp only [pmap, e1]
    have hr := refParse_ok (parseGlobalDecl ctx) s _ _ hg hat.ref
    have hpi : s.pos ≤ i := by simpa using hp1.1
    have hik : i < k := hp1.2
    have hat1' : At ctx { s with pos := k + 1 } r4 := ⟨hat1.fresh, by simp [href], hat1.toks⟩
    obtain ⟨e, he, hate, hl, hm⟩ := ih { s with pos := k + 1 } f hat1' href
    have hne : ((k + 1 == s.pos) = false) := by simp; omega
    have hlen4 : r4.length + 1 ≤ (⟨i, .Type⟩ :: r : Toks).length := by
      have b := tsFrom_length_mono ctx.toks _ (i + 1) (k + 1) rfl (by omega)
      rw [← (hat.head).2.2.1, hat1'.toks] at b
      simp only [List.length_cons] at b ⊢
      omega
    refine ⟨e, by have : k + 1 ≤ e := he; omega, hate, by simp only [List.length_cons] at hlen4 ⊢; omega, ?_⟩
    have hoff : s.pos - s.refPos = s.pos := by omega
    rw [hoff] at hr
    have hlen : f + (refAbs (GlobalDecl.type td) :: ds).length = (f + ds.length) + 1 := by simp; omega
    rw [hlen]
    simp only [many0, hr, hne, Bool.false_eq_true, if_false, hm, List.map_cons, relDecl_type, hlo]
    exact prependRes_cons _ _ _
  | proc i j nm ilp tylp r2 ps irp tyrp ilc tylc r5 vs r6 ss k tyk r8 rest ds klp hps krp klc hvs hss kk _ ih =>
    intro s f hat href
    obtain ⟨e1, hp1, hlead, hat1, _⟩ := procDecl_conf ctx (hat.reref ctx) klp hps krp klc hvs hss kk
    obtain ⟨pd, hpd⟩ : ∃ pd : ProcDecl, pd = ProcDecl.mk (docOf (G ctx) i) (some (mkIdent (G ctx) j nm)) ps vs ss.toList (mkInfo (G ctx) i k) := ⟨_, rfl⟩
    rw [← hpd] at e1
    have hg : parseGlobalDecl ctx none { s with refPos := s.pos } =
        .ok { s with refPos := s.pos, pos := k + 1 } (.proc (relProcDecl s.pos pd)) := by
      rw [parseGlobalDecl_none]
      rw [altList_cons_err _ _ _ (by simp) (pmap_err _ _ _ (typeDecl_fail ctx (hat.reref ctx) (by simp [TokenType.kind])))]
      apply altList_cons_ok
      simp only [pmap, e1]
    have hr := refParse_ok (parseGlobalDecl ctx) s _ _ hg hat.ref
    have hpi : s.pos ≤ i := by simpa using hp1.1
    have hik : i < k := hp1.2
    have hat1' : At ctx { s with pos := k + 1 } r8 := ⟨hat1.fresh, by simp [href], hat1.toks⟩
    obtain ⟨e, he, hate, hl, hm⟩ := ih { s with pos := k + 1 } f hat1' href
    have hne : ((k + 1 == s.pos) = false) := by simp; omega
    have hlo : lead (G ctx) i = s.pos := by simpa using hlead
    have hlen8 : r8.length + 1 ≤ (⟨i, .Proc⟩ :: ⟨j, .Ident nm⟩ :: ⟨ilp, tylp⟩ :: r2 : Toks).length := by
      have b := tsFrom_length_mono ctx.toks _ (i + 1) (k + 1) rfl (by omega)
      rw [← (hat.head).2.2.1, hat1'.toks] at b
      simp only [List.length_cons] at b ⊢
      omega
    refine ⟨e, by have : k + 1 ≤ e := he; omega, hate, by simp only [List.length_cons] at hlen8 ⊢; omega, ?_⟩
    have hpdlo : pd.info.range.lo = s.pos := by rw [hpd]; simp [mkInfo, hlo]
    rw [show (ProcDecl.mk (docOf (G ctx) i) (some (mkIdent (G ctx) j nm)) ps vs ss.toList (mkInfo (G ctx) i k)) = pd from hpd.symm]
    have hoff : s.pos - s.refPos = s.pos := by omega
    rw [hoff] at hr
    have hlen : f + (refAbs (GlobalDecl.proc pd) :: ds).length = (f + ds.length) + 1 := by simp; omega
    rw [hlen]
    simp only [many0, hr, hne, Bool.false_eq_true, if_false, hm, List.map_cons, relDecl_proc, hpdlo]
    exact prependRes_cons _ _ _

/-- **Declarations in front of anything are parsed verbatim.**  If the non-comment tokens of a token
    sequence start with declarations `ds` the grammar derives (`DeclsPrefix`) — followed by whatever —
    then every program `parser::parse` returns for that sequence starts with exactly these
    declarations: same sub-trees, ranges, `Reference` offsets and doc comments, no diagnostic in them. -/
theorem parse_prefix (toks : List Token) (ds : List (Ref GlobalDecl)) (rest : Toks)
    (h : DeclsPrefix ⟨toks.toArray⟩ (tsFrom toks.toArray 0) ds rest) (prog : Program)
    (hp : Parse.parse toks = .ok prog) : ∃ more, prog.decls = ds.map relDecl ++ more := by
  let ctx : Ctx := { toks := toks.toArray, change := ⟨0, 0, toks.length⟩ }
  have hat : At ctx ({ pos := 0 } : St) (tsFrom ctx.toks 0) := ⟨Or.inl rfl, Nat.le_refl _, rfl⟩
  have hfuel := loopFuel_gt ctx hat
  obtain ⟨e, _, _, hl, hm⟩ := prefix_conf ctx h { pos := 0 } (loopFuel ctx - ds.length) hat rfl
  have hf : loopFuel ctx - ds.length + ds.length = loopFuel ctx := by
    have hc : ctx.toks = toks.toArray := rfl
    rw [hc] at hfuel
    omega
  rw [hf] at hm
  have hparse : Parse.parse toks = match parseProgram ctx none { pos := 0 } with
      | .ok _ p => .ok p
      | .err _ _ => .error ⟨"expect:Parser cannot fail"⟩
      | .panic e => .error e := rfl
  rw [hparse, parseProgram_none] at hp
  have hmany := many_none ctx (fun (g : GlobalDecl) => g.info.range) (parseGlobalDecl ctx) (loopFuel ctx) ({ pos := 0 } : St)
  cases hr : many0 (refParse (parseGlobalDecl ctx) none) (loopFuel ctx - ds.length) { ({ pos := 0 } : St) with pos := e } with
  | ok s2 more =>
    rw [hr] at hm
    simp only [prependRes] at hm
    refine ⟨more, ?_⟩
    simp only [pmap, Parse.bind, info, hmany, hm] at hp
    simp only [Nat.lt_irrefl, if_false, Nat.not_lt_zero] at hp
    cases hc : allConsuming ctx (tk ctx Kind.Eof) { pos := s2.pos, incRefs := s2.incRefs, refPos := s2.refPos } with
    | ok s3 a3 =>
      simp only [hc, pure'] at hp
      cases hp
      rfl
    | err k s3 => simp [hc] at hp
    | panic pe => simp [hc] at hp
  | err k s2 =>
    rw [hr] at hm
    simp only [prependRes] at hm
    simp [pmap, Parse.bind, info, hmany, hm] at hp
  | panic pe =>
    rw [hr] at hm
    simp only [prependRes] at hm
    simp [pmap, Parse.bind, info, hmany, hm] at hp

end Spl.ParseConform
