/-
  Lemmas for C05: from a position directly behind a token (or the start, or the end of the array) every parser
  of the fresh parse ends — with success or with an error — at such a position again, never inside or behind a
  run of comments that belongs to what follows.  No fuel bound and no state invariant is needed.
-/
import SplVerif.Lemmas.Total
import SplVerif.Lemmas.ParseConform

namespace Spl.FreshEnd
open Spl Spl.Parse Spl.Total Spl.ParseConform

variable (ctx : Ctx)

/-- directly behind a non-comment token, at the start, or at / behind the end of the array -/
def Good (q : Nat) : Prop := Fresh ctx.toks q ∨ ctx.toks.size ≤ q

def OkG {α} (p : P α) : Prop := ∀ s s' a, Good ctx s.pos → p s = .ok s' a → Good ctx s'.pos
def ErG {α} (p : P α) : Prop := ∀ s k s', Good ctx s.pos → p s = .err k s' → Good ctx s'.pos

structure FE {α} (p : P α) : Prop where
  ok : OkG ctx p
  er : ErG ctx p

variable {ctx}

theorem okG_congr {α} {p q : P α} (e : ∀ s, p s = q s) (h : OkG ctx q) : OkG ctx p := by
  intro s s' a g hx; rw [e] at hx; exact h _ _ _ g hx

theorem erG_congr {α} {p q : P α} (e : ∀ s, p s = q s) (h : ErG ctx q) : ErG ctx p := by
  intro s k s' g hx; rw [e] at hx; exact h _ _ _ g hx

theorem fe_congr {α} {p q : P α} (e : ∀ s, p s = q s) (h : FE ctx q) : FE ctx p := ⟨okG_congr e h.ok, erG_congr e h.er⟩

theorem fe_pure {α} (a : α) : FE ctx (pure' a) := by
  refine ⟨?_, ?_⟩
  · intro s s' b g h; cases h; exact g
  · intro s k s' g h; cases h

theorem okG_bind {α β} {p : P α} {f : α → P β} (hp : OkG ctx p) (hf : ∀ a, OkG ctx (f a)) : OkG ctx (Parse.bind p f) := by
  intro s s' b g h
  obtain ⟨s1, a, h1, h2⟩ := bind_ok_inv h
  exact hf a _ _ _ (hp _ _ _ g h1) h2

theorem erG_bind {α β} {p : P α} {f : α → P β} (hp : FE ctx p) (hf : ∀ a, ErG ctx (f a)) : ErG ctx (Parse.bind p f) := by
  intro s k s' g h
  unfold Parse.bind at h
  cases h1 : p s with
  | ok s1 a => rw [h1] at h; exact hf a _ _ _ (hp.ok _ _ _ g h1) h
  | err k1 x => rw [h1] at h; cases h; exact hp.er _ _ _ g h1
  | panic e => rw [h1] at h; cases h

theorem fe_bind {α β} {p : P α} {f : α → P β} (hp : FE ctx p) (hf : ∀ a, FE ctx (f a)) : FE ctx (Parse.bind p f) :=
  ⟨okG_bind hp.ok (fun a => (hf a).ok), erG_bind hp (fun a => (hf a).er)⟩

theorem okG_pmap {α β} {p : P α} (f : α → β) (hp : OkG ctx p) : OkG ctx (pmap f p) := by
  intro s s' b g h
  obtain ⟨a, h1⟩ := pmap_ok_inv h
  exact hp _ _ _ g h1

theorem erG_pmap {α β} {p : P α} (f : α → β) (hp : ErG ctx p) : ErG ctx (pmap f p) := by
  intro s k s' g h
  unfold pmap at h
  cases h1 : p s with
  | ok s1 a => rw [h1] at h; cases h
  | err k1 x => rw [h1] at h; cases h; exact hp _ _ _ g h1
  | panic e => rw [h1] at h; cases h

theorem fe_pmap {α β} {p : P α} (f : α → β) (hp : FE ctx p) : FE ctx (pmap f p) := ⟨okG_pmap f hp.ok, erG_pmap f hp.er⟩

theorem okG_alt2 {α} {p q : P α} (hp : OkG ctx p) (hq : OkG ctx q) : OkG ctx (alt2 p q) := by
  intro s s' a g h
  rcases alt2_ok_inv h with h1 | h1
  · exact hp _ _ _ g h1
  · exact hq _ _ _ g h1

theorem erG_alt2 {α} {p q : P α} (hq : ErG ctx q) : ErG ctx (alt2 p q) := by
  intro s k s' g h
  unfold alt2 at h
  cases h1 : p s with
  | ok s1 a => rw [h1] at h; cases h
  | err k1 x => rw [h1] at h; exact hq _ _ _ g h
  | panic e => rw [h1] at h; cases h

theorem fe_alt2 {α} {p q : P α} (hp : OkG ctx p) (hq : FE ctx q) : FE ctx (alt2 p q) := ⟨okG_alt2 hp hq.ok, erG_alt2 hq.er⟩

theorem fe_altList {α} : ∀ (ps : List (P α)), (∀ p ∈ ps, FE ctx p) → FE ctx (altList ps)
  | [], _ => by
    refine ⟨?_, ?_⟩
    · intro s s' a g h; cases h
    · intro s k s' g h; cases h; exact g
  | [p], h => by simpa [altList] using h p (by simp)
  | p :: q :: ps, h => by
    simp only [altList]
    exact fe_alt2 (h p (by simp)).ok (fe_altList (q :: ps) (fun x hx => h x (List.mem_cons_of_mem _ hx)))

/-- the last alternative decides the error; the others only need their successes -/
theorem fe_altList' {α} : ∀ (ps : List (P α)) (last : P α), (∀ p ∈ ps, OkG ctx p) → FE ctx last → FE ctx (altList (ps ++ [last]))
  | [], last, _, hl => by simpa [altList] using hl
  | p :: ps, last, h, hl => by
    have ih := fe_altList' ps last (fun x hx => h x (List.mem_cons_of_mem _ hx)) hl
    cases hps : ps ++ [last] with
    | nil => simp at hps
    | cons q qs =>
      simp only [List.cons_append, hps, altList]
      rw [hps] at ih
      exact fe_alt2 (h p (by simp)) ih

theorem fe_opt {α} {p : P α} (hp : OkG ctx p) : FE ctx (opt p) := by
  refine ⟨?_, ?_⟩
  · intro s s' a g h
    unfold opt at h
    cases h1 : p s with
    | ok s1 x => rw [h1] at h; cases h; exact hp _ _ _ g h1
    | err k x => rw [h1] at h; cases h; exact g
    | panic e => rw [h1] at h; cases h
  · intro s k s' g h
    unfold opt at h
    cases h1 : p s with
    | ok s1 x => rw [h1] at h; cases h
    | err k x => rw [h1] at h; cases h
    | panic e => rw [h1] at h; cases h

theorem fe_peek {α} {p : P α} (hp : ErG ctx p) : FE ctx (peek p) := by
  refine ⟨?_, ?_⟩
  · intro s s' a g h
    unfold peek at h
    cases h1 : p s with
    | ok s1 x => rw [h1] at h; cases h; exact g
    | err k x => rw [h1] at h; cases h
    | panic e => rw [h1] at h; cases h
  · intro s k s' g h
    unfold peek at h
    cases h1 : p s with
    | ok s1 x => rw [h1] at h; cases h
    | err k1 x => rw [h1] at h; cases h; exact hp _ _ _ g h1
    | panic e => rw [h1] at h; cases h

theorem fe_many0 {α} {p : P α} (hp : OkG ctx p) : ∀ fuel, FE ctx (many0 p fuel)
  | 0 => by
    refine ⟨?_, ?_⟩
    · intro s s' a g h; cases h
    · intro s k s' g h; cases h
  | fuel + 1 => by
    have ih := fe_many0 hp fuel
    refine ⟨?_, ?_⟩
    · intro s s' l g h
      simp only [many0] at h
      cases h1 : p s with
      | err k x => rw [h1] at h; cases h; exact g
      | panic e => rw [h1] at h; cases h
      | ok s1 a =>
        rw [h1] at h
        simp only at h
        split at h
        · cases h
        · cases h2 : many0 p fuel s1 with
          | ok s2 as => rw [h2] at h; cases h; exact ih.ok _ _ _ (hp _ _ _ g h1) h2
          | err k x => rw [h2] at h; cases h
          | panic e => rw [h2] at h; cases h
    · intro s k s' g h
      simp only [many0] at h
      cases h1 : p s with
      | err k x => rw [h1] at h; cases h
      | panic e => rw [h1] at h; cases h
      | ok s1 a =>
        rw [h1] at h
        simp only at h
        split at h
        · cases h; exact g
        · cases h2 : many0 p fuel s1 with
          | ok s2 as => rw [h2] at h; cases h
          | err k2 x => rw [h2] at h; cases h; exact ih.er _ _ _ (hp _ _ _ g h1) h2
          | panic e => rw [h2] at h; cases h

theorem fe_info {α} {p : P α} (hp : FE ctx p) : FE ctx (info p) := by
  refine ⟨?_, ?_⟩
  · intro s s' r g h
    obtain ⟨s1, h1, rfl⟩ := info_ok_inv h
    have := hp.ok _ _ _ (show Good ctx ({ s with errBuf := [] } : St).pos from g) h1; exact this
  · intro s k s' g h
    unfold info at h
    split at h
    · cases h
    · cases h1 : p { s with errBuf := [] } with
      | ok s1 a =>
        rw [h1] at h
        simp only at h
        split at h <;> cases h
      | err k1 x => rw [h1] at h; cases h; have := hp.er _ _ _ (show Good ctx ({ s with errBuf := [] } : St).pos from g) h1; exact this
      | panic e => rw [h1] at h; cases h

theorem okG_info {α} {p : P α} (hp : OkG ctx p) : OkG ctx (info p) := by
  intro s s' r g h
  obtain ⟨s1, h1, rfl⟩ := info_ok_inv h
  have := hp _ _ _ (show Good ctx ({ s with errBuf := [] } : St).pos from g) h1; exact this

theorem fe_confusable {α} {p : P α} (msg : Msg) (hp : FE ctx p) : FE ctx (confusable p msg) := by
  have hi := fe_info hp
  refine ⟨?_, ?_⟩
  · intro s s' a g h
    unfold confusable at h
    cases h1 : info p s with
    | ok s1 r => obtain ⟨x, i⟩ := r; rw [h1] at h; cases h; have := hi.ok _ _ _ g h1; exact this
    | err k x => rw [h1] at h; cases h
    | panic e => rw [h1] at h; cases h
  · intro s k s' g h
    unfold confusable at h
    cases h1 : info p s with
    | ok s1 r => obtain ⟨x, i⟩ := r; rw [h1] at h; cases h
    | err k1 x => rw [h1] at h; cases h; exact hi.er _ _ _ g h1
    | panic e => rw [h1] at h; cases h

theorem expectError_pos {s s' : St} {msg : Msg} {x : St} (h : expectError s msg = .ok s' x) : s'.pos = s.pos := by
  unfold expectError at h
  split at h
  · cases h
  · cases h; rfl

/-- `expect` never fails; it goes on where its parser stopped -/
theorem fe_expect {α} {parser : Option α → P α} (msg : Msg) (hp : FE ctx (parser none)) :
    FE ctx (Parse.expect none parser msg) := by
  refine ⟨?_, ?_⟩
  · intro s s' o g h
    unfold Parse.expect at h
    cases h1 : parser none s with
    | ok s1 a => rw [h1] at h; cases h; exact hp.ok _ _ _ g h1
    | panic e => rw [h1] at h; cases h
    | err k s1 =>
      rw [h1] at h
      have g1 := hp.er _ _ _ g h1
      cases k with
      | true =>
        simp only at h
        cases h2 : parser none s1 with
        | ok s2 a => rw [h2] at h; cases h; exact hp.ok _ _ _ g1 h2
        | panic e => rw [h2] at h; cases h
        | err k2 s2 =>
          rw [h2] at h
          simp only at h
          have g2 := hp.er _ _ _ g1 h2
          cases h3 : expectError s2 msg with
          | ok s3 x => rw [h3] at h; cases h; rw [Good, expectError_pos h3]; exact g2
          | err k x => rw [h3] at h; cases h
          | panic e => rw [h3] at h; cases h
      | false =>
        simp only at h
        cases h3 : expectError s1 msg with
        | ok s3 x => rw [h3] at h; cases h; rw [Good, expectError_pos h3]; exact g1
        | err k x => rw [h3] at h; cases h
        | panic e => rw [h3] at h; cases h
  · intro s k s' g h
    unfold Parse.expect at h
    cases h1 : parser none s with
    | ok s1 a => rw [h1] at h; cases h
    | panic e => rw [h1] at h; cases h
    | err k1 s1 =>
      rw [h1] at h
      cases k1 with
      | true =>
        simp only at h
        cases h2 : parser none s1 with
        | ok s2 a => rw [h2] at h; cases h
        | panic e => rw [h2] at h; cases h
        | err k2 s2 =>
          rw [h2] at h
          simp only at h
          cases h3 : expectError s2 msg with
          | ok s3 x => rw [h3] at h; cases h
          | err k x => unfold expectError at h3; split at h3 <;> cases h3
          | panic e => rw [h3] at h; cases h
      | false =>
        simp only at h
        cases h3 : expectError s1 msg with
        | ok s3 x => rw [h3] at h; cases h
        | err k x => unfold expectError at h3; split at h3 <;> cases h3
        | panic e => rw [h3] at h; cases h

theorem fe_refParse {α} {parseT : Option α → P α} (hp : FE ctx (parseT none)) : FE ctx (refParse parseT none) := by
  refine ⟨?_, ?_⟩
  · intro s s' r g h
    obtain ⟨s1, a, h1, rfl, _⟩ := refParse_ok_inv h
    have := hp.ok _ _ _ (show Good ctx ({ s with refPos := s.pos } : St).pos from g) h1; exact this
  · intro s k s' g h
    unfold refParse at h
    simp only [Option.map_none, Option.isSome_none] at h
    split at h
    · cases h
    · cases h1 : parseT none { s with refPos := s.pos } with
      | ok s1 a => rw [h1] at h; cases h
      | err k1 x => rw [h1] at h; cases h; have := hp.er _ _ _ (show Good ctx ({ s with refPos := s.pos } : St).pos from g) h1; exact this
      | panic e => rw [h1] at h; cases h

theorem okG_refParse {α} {parseT : Option α → P α} (hp : OkG ctx (parseT none)) : OkG ctx (refParse parseT none) := by
  intro s s' r g h
  obtain ⟨s1, a, h1, rfl, _⟩ := refParse_ok_inv h
  have := hp _ _ _ (show Good ctx ({ s with refPos := s.pos } : St).pos from g) h1; exact this

theorem fe_many {α} (range : α → Range) (parseT : Option α → P α) (hp : OkG ctx (parseT none)) :
    FE ctx (many ctx range parseT (loopFuel ctx) none) :=
  fe_congr (Total.many_none ctx range parseT _) (fe_many0 (okG_refParse hp) _)

/-! ### token parsers -/

theorem many0_comment_noerr : ∀ (fuel : Nat) (s : St) (k : Bool) (x : St), many0 (comment ctx) fuel s ≠ .err k x
  | 0, s, k, x => by simp [many0]
  | fuel + 1, s, k, x => by
    intro h
    simp only [many0] at h
    cases h1 : comment ctx s with
    | err k1 x1 => rw [h1] at h; cases h
    | panic e => rw [h1] at h; cases h
    | ok s1 c =>
      rw [h1] at h
      simp only at h
      have hp := (comment_ok_inv ctx h1).1
      split at h
      · rename_i heq; simp at heq; omega
      · cases h2 : many0 (comment ctx) fuel s1 with
        | ok s2 cs => rw [h2] at h; cases h
        | err k2 x2 => exact many0_comment_noerr fuel s1 k2 x2 h2
        | panic e => rw [h2] at h; cases h

/-- a token parser for a kind other than `Comment`: success ends behind that token, failure where it started or
    at the end of the array -/
theorem fe_tag (fuel : Nat) (pred : TokenType → Bool) (hp : ∀ ty, pred ty = true → ty.kind ≠ .Comment) :
    FE ctx (tag ctx fuel pred) := by
  refine ⟨?_, ?_⟩
  · intro s s' t g h
    unfold tag at h
    cases h1 : many0 (comment ctx) fuel s with
    | ok s1 cs =>
      rw [h1] at h
      simp only at h
      cases h2 : take1 ctx s1 with
      | ok s2 t2 =>
        rw [h2] at h
        simp only at h
        obtain ⟨rfl, ht⟩ := take1_ok ctx h2
        split at h
        · rename_i hpr
          cases h
          exact Or.inl (fresh_after ctx.toks s1.pos t ht (by simpa [Token.kind] using hp _ hpr))
        · cases h
      | err k x => rw [h2] at h; cases h
      | panic e => rw [h2] at h; cases h
    | err k x => rw [h1] at h; cases h
    | panic e => rw [h1] at h; cases h
  · intro s k s' g h
    unfold tag at h
    cases h1 : many0 (comment ctx) fuel s with
    | ok s1 cs =>
      rw [h1] at h
      simp only at h
      cases h2 : take1 ctx s1 with
      | ok s2 t2 =>
        rw [h2] at h
        simp only at h
        split at h
        · cases h
        · cases h; exact g
      | err k2 x =>
        rw [h2] at h; cases h
        unfold take1 at h2
        cases ht : ctx.toks[s1.pos]? with
        | none =>
          simp only [ht] at h2
          cases h2
          exact Or.inr (by simpa [Array.getElem?_eq_none_iff] using ht)
        | some t => simp [ht] at h2
      | panic e => rw [h2] at h; cases h
    | err k1 x => exact absurd h1 (many0_comment_noerr fuel s k1 x)
    | panic e => rw [h1] at h; cases h

theorem kind_ne_comment {k : Kind} (hk : k ≠ .Comment) : ∀ ty : TokenType, (ty.kind == k) = true → ty.kind ≠ .Comment := by
  intro ty h
  have : ty.kind = k := by simpa using h
  rw [this]; exact hk

theorem fe_tk (k : Kind) (hk : k ≠ .Comment := by decide) : FE ctx (tk ctx k) :=
  fe_tag _ _ (kind_ne_comment hk)

theorem fe_tks (ks : List Kind) (hks : ∀ k ∈ ks, k ≠ Kind.Comment := by decide) : FE ctx (altList (ks.map (tk ctx))) :=
  fe_altList _ (by
    intro p hp
    obtain ⟨k, hk, rfl⟩ := List.mem_map.mp hp
    exact fe_tk k (hks k hk))

theorem fe_ident : FE ctx (parseIdentifier ctx none) := by
  have e : ∀ s, parseIdentifier ctx none s =
      pmap (fun (p : Token × AstInfo) => ({ value := displayToken p.1.ty, info := p.2 } : Identifier)) (info (tk ctx .Ident)) s := by
    intro s; simp only [parseIdentifier, affected_none]
  exact fe_congr e (fe_pmap _ (fe_info (fe_tk .Ident)))

/-! ### one position further on, over a comment -/

/-- the state one token further on -/
def nx (s : St) : St := { s with pos := s.pos + 1 }

/-- `Over p`: where a comment stands, `p` behaves like one position further on (same result state; the value may
    differ in its range) — unless it runs out of fuel -/
def Over {α} (p : P α) : Prop := ∀ s t, ctx.toks[s.pos]? = some t → t.kind = Kind.Comment →
  (∀ s' x, p s = .ok s' x → ∃ x', p (nx s) = .ok s' x') ∧ (∀ k x, p s = .err k x → ∃ k' x', p (nx s) = .err k' x')

theorem many0_succ {α} (p : P α) (f : Nat) (s : St) : many0 p (f + 1) s =
    match p s with
    | .err _ _ => .ok s []
    | .panic e => .panic e
    | .ok s' a =>
      if s'.pos == s.pos then .err false s
      else
        match many0 p f s' with
        | .ok s'' as => .ok s'' (a :: as)
        | r => r := rfl

theorem many0_comment_mono : ∀ (f : Nat) (s s' : St) (cs : List (List Char)),
    many0 (comment ctx) f s = .ok s' cs → many0 (comment ctx) (f + 1) s = .ok s' cs
  | 0, s, s', cs, h => by simp [many0] at h
  | f + 1, s, s', cs, h => by
    rw [many0_succ] at h ⊢
    cases h1 : comment ctx s with
    | err k x => rw [h1] at h; exact h
    | panic e => rw [h1] at h; cases h
    | ok s1 c =>
      rw [h1] at h
      simp only at h ⊢
      split at h
      · cases h
      · rename_i hne
        simp only [hne]
        cases h2 : many0 (comment ctx) f s1 with
        | ok s2 cs2 =>
          rw [h2] at h
          rw [many0_comment_mono f s1 s2 cs2 h2]
          exact h
        | err k x => rw [h2] at h; cases h
        | panic e => rw [h2] at h; cases h

theorem over_tag (F : Nat) (pred : TokenType → Bool) : Over (ctx := ctx) (tag ctx F pred) := by
  intro s t ht hc
  obtain ⟨c, hty⟩ := kind_comment t hc
  have hcm : comment ctx s = .ok (nx s) c := by simp [comment, take1, ht, hty, nx]
  cases F with
  | zero => constructor <;> intros <;> simp_all [tag, many0]
  | succ f =>
    have hne : ((nx s).pos == s.pos) = false := by simp [nx]
    cases h1 : many0 (comment ctx) f (nx s) with
    | panic e =>
      have hm : many0 (comment ctx) (f + 1) s = .panic e := by
        rw [many0_succ, hcm]; simp only [hne, h1]; rfl
      constructor <;> intros <;> simp_all [tag]
    | err k x => exact absurd h1 (many0_comment_noerr f _ k x)
    | ok s3 cs =>
      have hm : many0 (comment ctx) (f + 1) s = .ok s3 (c :: cs) := by
        rw [many0_succ, hcm]; simp only [hne, h1]; rfl
      have h2 := many0_comment_mono f _ _ _ h1
      constructor
      · intro s' x h
        refine ⟨x, ?_⟩
        unfold tag at h ⊢
        rw [hm] at h
        rw [h2]
        simp only at h ⊢
        cases h3 : take1 ctx s3 with
        | ok s4 t4 =>
          rw [h3] at h
          simp only at h ⊢
          split at h
          · rename_i hp; simp only [hp, if_true]; exact h
          · cases h
        | err k x => rw [h3] at h; cases h
        | panic e => rw [h3] at h; cases h
      · intro k x h
        unfold tag at h ⊢
        rw [hm] at h
        rw [h2]
        simp only at h ⊢
        cases h3 : take1 ctx s3 with
        | ok s4 t4 =>
          rw [h3] at h
          simp only at h ⊢
          split at h
          · cases h
          · rename_i hp; simp only [hp]; exact ⟨_, _, rfl⟩
        | err k2 x2 => exact ⟨_, _, rfl⟩
        | panic e => rw [h3] at h; cases h

theorem over_pmap {α β} {p : P α} (f : α → β) (hp : Over (ctx := ctx) p) : Over (ctx := ctx) (pmap f p) := by
  intro s t ht hc
  obtain ⟨h1, h2⟩ := hp s t ht hc
  constructor
  · intro s' x h
    unfold pmap at h
    cases h3 : p s with
    | ok s1 a =>
      rw [h3] at h; cases h
      obtain ⟨a', e⟩ := h1 _ _ h3
      exact ⟨f a', by simp [pmap, e]⟩
    | err k x => rw [h3] at h; cases h
    | panic e => rw [h3] at h; cases h
  · intro k x h
    unfold pmap at h
    cases h3 : p s with
    | ok s1 a => rw [h3] at h; cases h
    | err k1 x1 =>
      rw [h3] at h; cases h
      obtain ⟨k', x', e⟩ := h2 _ _ h3
      exact ⟨k', x', by simp [pmap, e]⟩
    | panic e => rw [h3] at h; cases h

theorem over_bind_const {α β} {p : P α} {q : P β} (hp : Over (ctx := ctx) p) : Over (ctx := ctx) (Parse.bind p (fun _ => q)) := by
  intro s t ht hc
  obtain ⟨h1, h2⟩ := hp s t ht hc
  constructor
  · intro s' x h
    obtain ⟨s1, a, e1, e2⟩ := bind_ok_inv h
    obtain ⟨a', e⟩ := h1 _ _ e1
    exact ⟨x, by simp [Parse.bind, e, e2]⟩
  · intro k x h
    unfold Parse.bind at h
    cases h3 : p s with
    | ok s1 a =>
      rw [h3] at h
      obtain ⟨a', e⟩ := h1 _ _ h3
      exact ⟨k, x, by simp [Parse.bind, e, h]⟩
    | err k1 x1 =>
      rw [h3] at h; cases h
      obtain ⟨k', x', e⟩ := h2 _ _ h3
      exact ⟨k', x', by simp [Parse.bind, e]⟩
    | panic e => rw [h3] at h; cases h

theorem over_alt2 {α} {p q : P α} (hp : Over (ctx := ctx) p) (hq : Over (ctx := ctx) q) : Over (ctx := ctx) (alt2 p q) := by
  intro s t ht hc
  obtain ⟨p1, p2⟩ := hp s t ht hc
  obtain ⟨q1, q2⟩ := hq s t ht hc
  constructor
  · intro s' x h
    unfold alt2 at h
    cases h3 : p s with
    | ok s1 a =>
      rw [h3] at h; cases h
      obtain ⟨a', e⟩ := p1 _ _ h3
      exact ⟨a', by simp [alt2, e]⟩
    | err k1 x1 =>
      rw [h3] at h
      obtain ⟨k', x', e⟩ := p2 _ _ h3
      obtain ⟨a', e'⟩ := q1 _ _ h
      exact ⟨a', by simp [alt2, e, e']⟩
    | panic e => rw [h3] at h; cases h
  · intro k x h
    unfold alt2 at h
    cases h3 : p s with
    | ok s1 a => rw [h3] at h; cases h
    | err k1 x1 =>
      rw [h3] at h
      obtain ⟨k', x', e⟩ := p2 _ _ h3
      obtain ⟨k'', x'', e'⟩ := q2 _ _ h
      exact ⟨k'', x'', by simp [alt2, e, e']⟩
    | panic e => rw [h3] at h; cases h

theorem over_altList {α} : ∀ (ps : List (P α)), (∀ p ∈ ps, Over (ctx := ctx) p) → Over (ctx := ctx) (altList ps)
  | [], _ => by
    intro s t ht hc
    constructor
    · intro s' x h; cases h
    · intro k x h; exact ⟨_, _, rfl⟩
  | [p], h => by simpa [altList] using h p (by simp)
  | p :: q :: ps, h => by
    simp only [altList]
    exact over_alt2 (h p (by simp)) (over_altList (q :: ps) (fun x hx => h x (List.mem_cons_of_mem _ hx)))

theorem over_info {α} {p : P α} (hp : Over (ctx := ctx) p) : Over (ctx := ctx) (info p) := by
  intro s t ht hc
  obtain ⟨h1, h2⟩ := hp { s with errBuf := [] } t ht hc
  constructor
  · intro s' x h
    unfold info at h
    split at h
    · cases h
    · rename_i hlt
      cases h3 : p { s with errBuf := [] } with
      | ok s1 a =>
        rw [h3] at h
        simp only at h
        split at h
        · cases h
        · rename_i hlt2
          cases h
          obtain ⟨a', e⟩ := h1 _ _ h3
          have e' : p { nx s with errBuf := [] } = .ok s1 a' := e
          refine ⟨(a', { range := ⟨(nx s).pos - (nx s).refPos, s1.pos - (nx s).refPos⟩, errors := s1.errBuf }), ?_⟩
          unfold info
          have hl : ¬ (nx s).pos < (nx s).refPos := by simp [nx] at hlt ⊢; omega
          simp only [hl, if_false, e']
          have hl2 : ¬ s1.pos < (nx s).refPos := by simpa [nx] using hlt2
          simp only [hl2, if_false]
          rfl
      | err k x => rw [h3] at h; cases h
      | panic e => rw [h3] at h; cases h
  · intro k x h
    unfold info at h
    split at h
    · cases h
    · rename_i hlt
      cases h3 : p { s with errBuf := [] } with
      | ok s1 a =>
        rw [h3] at h
        simp only at h
        split at h <;> cases h
      | err k1 x1 =>
        rw [h3] at h; cases h
        obtain ⟨k', x', e⟩ := h2 _ _ h3
        have e' : p { nx s with errBuf := [] } = .err k' x' := e
        refine ⟨k', { x' with errBuf := (nx s).errBuf }, ?_⟩
        unfold info
        have hl : ¬ (nx s).pos < (nx s).refPos := by simp [nx] at hlt ⊢; omega
        simp only [hl, if_false, e']
      | panic e => rw [h3] at h; cases h

/-! ### look-ahead sets and `ignore_until` -/

def itemOK : LAItem → Bool
  | .tok k => k != .Comment
  | .identThen ks => ks.all (· != .Comment)
  | .sub _ => true

theorem la_table_ok : ∀ n, (Gen.lookAheadSet n).all itemOK = true := by
  intro n; cases n <;> decide

theorem over_tk (k : Kind) : Over (ctx := ctx) (tk ctx k) :=
  over_tag (loopFuel ctx) (fun ty => ty.kind == k)

theorem over_ident : Over (ctx := ctx) (parseIdentifier ctx none) := by
  have e : parseIdentifier ctx none =
      pmap (fun (p : Token × AstInfo) => ({ value := displayToken p.1.ty, info := p.2 } : Identifier)) (info (tk ctx .Ident)) := by
    funext s; simp only [parseIdentifier, affected_none]
  rw [e]
  exact over_pmap _ (over_info (over_tk _))

theorem over_tks (ks : List Kind) : Over (ctx := ctx) (altList (ks.map (tk ctx))) :=
  over_altList _ (by
    intro p hp
    obtain ⟨k, _, rfl⟩ := List.mem_map.mp hp
    exact over_tk k)

theorem over_lookAhead (fuel : Nat) : ∀ (d : Nat) (n : LAName), Over (ctx := ctx) (lookAhead ctx fuel d n)
  | 0, n => by
    intro s t ht hc
    constructor
    · intro s' x h; simp [lookAhead] at h
    · intro k x h; simp [lookAhead] at h
  | d + 1, n => by
    simp only [lookAhead]
    refine over_altList _ ?_
    intro p hp
    obtain ⟨item, _, rfl⟩ := List.mem_map.mp hp
    cases item with
    | tok k => exact over_pmap _ (over_tk k)
    | identThen ks => exact over_pmap _ (over_bind_const over_ident)
    | sub m => exact over_lookAhead fuel d m

theorem fe_lookAhead (fuel : Nat) : ∀ (d : Nat) (n : LAName), FE ctx (lookAhead ctx fuel d n)
  | 0, n => by
    refine ⟨?_, ?_⟩
    · intro s s' a g h; simp [lookAhead] at h
    · intro s k s' g h; simp [lookAhead] at h
  | d + 1, n => by
    simp only [lookAhead]
    refine fe_altList _ ?_
    intro p hp
    obtain ⟨item, hi, rfl⟩ := List.mem_map.mp hp
    have hok := List.all_eq_true.mp (la_table_ok n) item hi
    cases item with
    | tok k => exact fe_pmap _ (fe_tk k (by simpa [itemOK] using hok))
    | identThen ks =>
      refine fe_pmap _ (fe_bind fe_ident (fun _ => fe_tks ks ?_))
      intro k hk
      exact (by simpa [itemOK] using hok : ∀ x ∈ ks, ¬ x = Kind.Comment) k hk
    | sub m => exact fe_lookAhead fuel d m

theorem fe_peekla (n : LAName) : FE ctx (peek (la ctx n)) := fe_peek (fe_lookAhead _ _ n).er

/-- where a comment stands, a look-ahead that fails also fails one position further on -/
theorem peekla_skip (n : LAName) (s : St) (t : Token) (ht : ctx.toks[s.pos]? = some t) (hc : t.kind = Kind.Comment)
    (k : Bool) (x : St) (h : peek (la ctx n) s = .err k x) : ∀ s' a, peek (la ctx n) (nx s) ≠ .ok s' a := by
  intro s' a h2
  have he : la ctx n s = .err k x := by
    unfold peek at h
    cases h1 : la ctx n s with
    | ok s1 y => rw [h1] at h; cases h
    | err k1 x1 => rw [h1] at h; exact h
    | panic e => rw [h1] at h; cases h
  obtain ⟨k', x', e⟩ := (over_lookAhead 0 8 n s t ht hc).2 _ _ he
  unfold peek at h2
  have e' : la ctx n (nx s) = .err k' x' := e
  rw [e'] at h2
  cases h2

/-- **`ignore_until` stops directly behind a token**: when it has skipped something, the token in front of the
    position where the look-ahead finally succeeds is not a comment — comments in front of a synchronisation
    token are never swallowed -/
theorem ignoreUntil0_end (n : LAName) : ∀ (fuel start : Nat) (s s' : St) (x : List Token),
    ignoreUntil0 ctx (peek (la ctx n)) fuel start s = .ok s' x → s'.pos = s.pos ∨ Good ctx s'.pos
  | 0, start, s, s', x, h => by simp [ignoreUntil0] at h
  | fuel + 1, start, s, s', x, h => by
    simp only [ignoreUntil0] at h
    cases h1 : peek (la ctx n) s with
    | ok s1 u =>
      rw [h1] at h; cases h
      left
      unfold peek at h1
      cases h2 : la ctx n s with
      | ok s2 y => rw [h2] at h1; cases h1; rfl
      | err k y => rw [h2] at h1; cases h1
      | panic e => rw [h2] at h1; cases h1
    | panic e => rw [h1] at h; cases h
    | err k y =>
      rw [h1] at h
      simp only at h
      cases h2 : take1 ctx s with
      | ok s2 t =>
        rw [h2] at h
        obtain ⟨rfl, ht⟩ := take1_ok ctx h2
        rcases ignoreUntil0_end n fuel start _ s' x h with hp | hg
        · right
          by_cases hc : t.kind = Kind.Comment
          · -- the look-ahead would have succeeded one position earlier
            exfalso
            cases fuel with
            | zero => simp [ignoreUntil0] at h
            | succ f =>
              simp only [ignoreUntil0] at h
              cases h3 : peek (la ctx n) (nx s) with
              | ok s3 u => exact peekla_skip n s t ht hc k y h1 _ _ h3
              | panic e => rw [show ({ s with pos := s.pos + 1 } : St) = nx s from rfl, h3] at h; cases h
              | err k3 y3 =>
                rw [show ({ s with pos := s.pos + 1 } : St) = nx s from rfl, h3] at h
                simp only at h
                cases h4 : take1 ctx (nx s) with
                | ok s4 t4 =>
                  rw [h4] at h
                  obtain ⟨rfl, _⟩ := take1_ok ctx h4
                  have hmono : ∀ (fu st : Nat) (a b : St) (l : List Token),
                      ignoreUntil0 ctx (peek (la ctx n)) fu st a = .ok b l → a.pos ≤ b.pos := by
                    intro fu
                    induction fu with
                    | zero => intro st a b l hh; simp [ignoreUntil0] at hh
                    | succ fu ih =>
                      intro st a b l hh
                      simp only [ignoreUntil0] at hh
                      cases q1 : peek (la ctx n) a with
                      | ok a1 u1 =>
                        rw [q1] at hh; cases hh
                        unfold peek at q1
                        cases q2 : la ctx n a with
                        | ok a2 y2 => rw [q2] at q1; cases q1; exact Nat.le_refl _
                        | err k2 y2 => rw [q2] at q1; cases q1
                        | panic e => rw [q2] at q1; cases q1
                      | panic e => rw [q1] at hh; cases hh
                      | err k1 y1 =>
                        rw [q1] at hh
                        simp only at hh
                        cases q3 : take1 ctx a with
                        | ok a3 t3 =>
                          rw [q3] at hh
                          obtain ⟨rfl, _⟩ := take1_ok ctx q3
                          have := ih _ _ _ _ hh
                          simp at this
                          omega
                        | err k3 y3 => rw [q3] at hh; cases hh
                        | panic e => rw [q3] at hh; cases hh
                  have := hmono _ _ _ _ _ h
                  simp [nx] at this hp
                  omega
                | err k4 y4 => rw [h4] at h; cases h
                | panic e => rw [h4] at h; cases h
          · exact Or.inl (by
              have := fresh_after ctx.toks s.pos t ht hc
              rw [hp]; exact this)
        · exact Or.inr hg
      | err k2 y2 => rw [h2] at h; cases h
      | panic e => rw [h2] at h; cases h

theorem ignoreUntil0_err (n : LAName) : ∀ (fuel start : Nat) (s : St) (k : Bool) (s' : St),
    ignoreUntil0 ctx (peek (la ctx n)) fuel start s = .err k s' → Good ctx s'.pos
  | 0, start, s, k, s', h => by simp [ignoreUntil0] at h
  | fuel + 1, start, s, k, s', h => by
    simp only [ignoreUntil0] at h
    cases h1 : peek (la ctx n) s with
    | ok s1 u => rw [h1] at h; cases h
    | panic e => rw [h1] at h; cases h
    | err k1 y =>
      rw [h1] at h
      simp only at h
      cases h2 : take1 ctx s with
      | ok s2 t => rw [h2] at h; exact ignoreUntil0_err n fuel start _ k s' h
      | err k2 y2 =>
        rw [h2] at h; cases h
        unfold take1 at h2
        cases ht : ctx.toks[s.pos]? with
        | none =>
          simp only [ht] at h2
          cases h2
          exact Or.inr (by simpa [Array.getElem?_eq_none_iff] using ht)
        | some t => simp [ht] at h2
      | panic e => rw [h2] at h; cases h

theorem fe_ignoreUntil0 (n : LAName) (fuel : Nat) :
    FE ctx (fun s => ignoreUntil0 ctx (peek (la ctx n)) fuel s.pos s) := by
  refine ⟨?_, ?_⟩
  · intro s s' x g h
    rcases ignoreUntil0_end n fuel s.pos s s' x h with hp | hg
    · rw [hp]; exact g
    · exact hg
  · intro s k s' g h
    exact ignoreUntil0_err n fuel s.pos s k s' h

/-- `ignore_until1`: success always ends directly behind a token (something was skipped), whatever the start -/
theorem ignoreUntil1_ok (n : LAName) (fuel : Nat) (s s' : St) (x : List Token)
    (h : ignoreUntil1 ctx (peek (la ctx n)) fuel s = .ok s' x) : Good ctx s'.pos := by
  unfold ignoreUntil1 at h
  cases h1 : peek (la ctx n) s with
  | ok s1 u => rw [h1] at h; cases h
  | panic e => rw [h1] at h; cases h
  | err k y =>
    rw [h1] at h
    simp only at h
    rcases ignoreUntil0_end n fuel s.pos s s' x h with hp | hg
    · -- nothing skipped: the look-ahead would have succeeded at once
      exfalso
      cases fuel with
      | zero => simp [ignoreUntil0] at h
      | succ f =>
        simp only [ignoreUntil0, h1] at h
        cases h2 : take1 ctx s with
        | ok s2 t =>
          rw [h2] at h
          obtain ⟨rfl, _⟩ := take1_ok ctx h2
          have hmono : ∀ (fu st : Nat) (a b : St) (l : List Token),
              ignoreUntil0 ctx (peek (la ctx n)) fu st a = .ok b l → a.pos ≤ b.pos := by
            intro fu
            induction fu with
            | zero => intro st a b l hh; simp [ignoreUntil0] at hh
            | succ fu ih =>
              intro st a b l hh
              simp only [ignoreUntil0] at hh
              cases q1 : peek (la ctx n) a with
              | ok a1 u1 =>
                rw [q1] at hh; cases hh
                unfold peek at q1
                cases q2 : la ctx n a with
                | ok a2 y2 => rw [q2] at q1; cases q1; exact Nat.le_refl _
                | err k2 y2 => rw [q2] at q1; cases q1
                | panic e => rw [q2] at q1; cases q1
              | panic e => rw [q1] at hh; cases hh
              | err k1 y1 =>
                rw [q1] at hh
                simp only at hh
                cases q3 : take1 ctx a with
                | ok a3 t3 =>
                  rw [q3] at hh
                  obtain ⟨rfl, _⟩ := take1_ok ctx q3
                  have := ih _ _ _ _ hh
                  simp at this
                  omega
                | err k3 y3 => rw [q3] at hh; cases hh
                | panic e => rw [q3] at hh; cases hh
          have := hmono _ _ _ _ _ h
          simp at this
          omega
        | err k2 y2 => rw [h2] at h; cases h
        | panic e => rw [h2] at h; cases h
    · exact hg

theorem fe_ignoreUntil1 (n : LAName) (fuel : Nat) : FE ctx (ignoreUntil1 ctx (peek (la ctx n)) fuel) := by
  refine ⟨fun s s' x _ h => ignoreUntil1_ok n fuel s s' x h, ?_⟩
  intro s k s' g h
  unfold ignoreUntil1 at h
  cases h1 : peek (la ctx n) s with
  | ok s1 u =>
    rw [h1] at h; cases h
    unfold peek at h1
    cases h2 : la ctx n s with
    | ok s2 y => rw [h2] at h1; cases h1; exact g
    | err k y => rw [h2] at h1; cases h1
    | panic e => rw [h2] at h1; cases h1
  | panic e => rw [h1] at h; cases h
  | err k1 y =>
    rw [h1] at h
    exact ignoreUntil0_err n fuel s.pos s k s' h

/-! ### the parsers -/

theorem tag_ok_good (fuel : Nat) (pred : TokenType → Bool) (hp : ∀ ty, pred ty = true → ty.kind ≠ .Comment)
    (s s' : St) (t : Token) (h : tag ctx fuel pred s = .ok s' t) : Good ctx s'.pos := by
  unfold tag at h
  cases h1 : many0 (comment ctx) fuel s with
  | ok s1 cs =>
    rw [h1] at h
    simp only at h
    cases h2 : take1 ctx s1 with
    | ok s2 t2 =>
      rw [h2] at h
      simp only at h
      obtain ⟨rfl, ht⟩ := take1_ok ctx h2
      split at h
      · rename_i hpr
        cases h
        exact Or.inl (fresh_after ctx.toks s1.pos t ht (by simpa [Token.kind] using hp _ hpr))
      · cases h
    | err k x => rw [h2] at h; cases h
    | panic e => rw [h2] at h; cases h
  | err k x => rw [h1] at h; cases h
  | panic e => rw [h1] at h; cases h

/-- doc comments, a keyword, the rest: success ends where the rest ends -/
theorem okG_doctk {α} (k : Kind) (rest : List (List Char) → P α) (hk : k ≠ .Comment) (hr : ∀ doc, OkG ctx (rest doc)) :
    OkG ctx (Parse.bind (docComments ctx) (fun doc => Parse.bind (tk ctx k) (fun _ => rest doc))) := by
  intro s s' a g h
  obtain ⟨s1, doc, _, h2⟩ := bind_ok_inv h
  obtain ⟨s2, t, h3, h4⟩ := bind_ok_inv h2
  exact hr doc _ _ _ (tag_ok_good _ _ (kind_ne_comment hk) _ _ _ h3) h4

theorem fe_expectInc {α} (p : P α) (msg : Msg) (hp : FE ctx p) : FE ctx (Parse.expect none (inc p) msg) :=
  fe_expect (parser := inc p) msg hp

theorem fe_intLit : FE ctx (parseIntLiteral ctx none) := by
  simp only [parseIntLiteral, affected_none]
  refine fe_pmap _ (fe_info (fe_altList _ ?_))
  intro p hp
  simp only [List.mem_cons, List.mem_nil_iff, or_false] at hp
  rcases hp with rfl | rfl | rfl
  · exact fe_pmap _ (fe_tk .Hex)
  · exact fe_pmap _ (fe_tk .Char)
  · exact fe_pmap _ (fe_tk .Int)

theorem fe_parseRhs {parser : P Expr} (lhs : Expr) (op : Operator) (hp : FE ctx parser) : FE ctx (parseRhs parser lhs op) := by
  have he := fe_expectInc parser (.ExpectedToken (chars "expression")) hp
  refine ⟨?_, ?_⟩
  · intro s s' a g h
    unfold parseRhs at h
    cases h1 : Parse.expect none (inc parser) (.ExpectedToken (chars "expression")) s with
    | ok s1 r =>
      rw [h1] at h
      simp only at h
      split at h
      · cases h
      · cases h; exact he.ok _ _ _ g h1
    | err k x => rw [h1] at h; cases h
    | panic e => rw [h1] at h; cases h
  · intro s k s' g h
    unfold parseRhs at h
    cases h1 : Parse.expect none (inc parser) (.ExpectedToken (chars "expression")) s with
    | ok s1 r =>
      rw [h1] at h
      simp only at h
      split at h <;> cases h
    | err k1 x => rw [h1] at h; cases h; exact he.er _ _ _ g h1
    | panic e => rw [h1] at h; cases h

theorem fe_opLoop (ops : List Kind) (hops : ∀ k ∈ ops, k ≠ Kind.Comment) {rhs : Expr → Operator → P Expr}
    (hr : ∀ e op, FE ctx (rhs e op)) : ∀ (fuel : Nat) (e : Expr), FE ctx (opLoop ctx ops rhs fuel e)
  | 0, e => by
    refine ⟨?_, ?_⟩
    · intro s s' a g h; cases h
    · intro s k s' g h; cases h
  | fuel + 1, e => by
    have hks := fe_tks (ctx := ctx) ops hops
    refine ⟨?_, ?_⟩
    · intro s s' a g h
      simp only [opLoop] at h
      cases h1 : altList (ops.map (tk ctx)) s with
      | ok s1 t =>
        rw [h1] at h
        simp only at h
        cases h2 : opOfKind t.kind with
        | none => rw [h2] at h; cases h
        | some op =>
          rw [h2] at h
          simp only at h
          have g1 := hks.ok _ _ _ g h1
          cases h3 : rhs e op s1 with
          | ok s2 e' =>
            rw [h3] at h
            exact (fe_opLoop ops hops hr fuel e').ok _ _ _ ((hr e op).ok _ _ _ g1 h3) h
          | err k x => rw [h3] at h; cases h
          | panic x => rw [h3] at h; cases h
      | err k x => rw [h1] at h; cases h; exact g
      | panic x => rw [h1] at h; cases h
    · intro s k s' g h
      simp only [opLoop] at h
      cases h1 : altList (ops.map (tk ctx)) s with
      | ok s1 t =>
        rw [h1] at h
        simp only at h
        cases h2 : opOfKind t.kind with
        | none => rw [h2] at h; cases h
        | some op =>
          rw [h2] at h
          simp only at h
          have g1 := hks.ok _ _ _ g h1
          cases h3 : rhs e op s1 with
          | ok s2 e' =>
            rw [h3] at h
            exact (fe_opLoop ops hops hr fuel e').er _ _ _ ((hr e op).ok _ _ _ g1 h3) h
          | err k3 x => rw [h3] at h; cases h; exact (hr e op).er _ _ _ g1 h3
          | panic x => rw [h3] at h; cases h
      | err k1 x => rw [h1] at h; cases h
      | panic x => rw [h1] at h; cases h

theorem fe_access {pe : Option (Ref Expr) → P (Ref Expr)} (hp : FE ctx (pe none)) : FE ctx (accessParser ctx pe) := by
  unfold accessParser
  refine fe_info (fe_bind (fe_tk .LBracket) (fun _ => ?_))
  refine fe_bind (fe_expect _ hp) (fun idx => ?_)
  exact fe_bind (fe_expectInc _ _ (fe_tk .RBracket)) (fun _ => fe_pure _)

structure EFE (F : Nat) : Prop where
  var : FE ctx (parseVariable ctx F none)
  brack : FE ctx (parseBracketed ctx F)
  prim : FE ctx (parsePrimary ctx F)
  unary : FE ctx (parseUnary ctx F)
  factor : FE ctx (parseFactor ctx F)
  mul : FE ctx (parseMul ctx F)
  add : FE ctx (parseAdd ctx F)
  cmp : FE ctx (parseComparison ctx F)
  expr : FE ctx (parseExpression ctx F none)

theorem fe_panic {α} (e : Panic) : FE ctx (fun _ => (Res.panic e : Res α)) := by
  refine ⟨?_, ?_⟩
  · intro s s' a g h; cases h
  · intro s k s' g h; cases h

theorem efe : ∀ F, EFE (ctx := ctx) F
  | 0 => ⟨fe_panic _, fe_panic _, fe_panic _, fe_panic _, fe_panic _, fe_panic _, fe_panic _, fe_panic _, fe_panic _⟩
  | F + 1 => by
    have ih := efe F
    have hvar : FE ctx (parseVariable ctx (F + 1) none) := by
      refine fe_congr (parseVariable_eq ctx F) ?_
      refine fe_bind (fe_info (fe_pmap _ fe_ident)) (fun r => fe_pmap _ ?_)
      exact fe_many0 (fe_access (fe_refParse ih.expr)).ok _
    have hbrack : FE ctx (parseBracketed ctx (F + 1)) := by
      refine fe_congr (parseBracketed_eq ctx F) (fe_pmap _ (fe_info ?_))
      unfold bracketedInner
      refine fe_bind (fe_info (fe_tk .LParen)) (fun lp => ?_)
      refine fe_bind (fe_expectInc _ _ ih.cmp) (fun e => ?_)
      exact fe_bind (fe_expectInc _ _ (fe_tk .RParen)) (fun _ => fe_pure _)
    have hprim : FE ctx (parsePrimary ctx (F + 1)) := by
      simp only [parsePrimary]
      refine fe_altList _ ?_
      intro p hp
      simp only [List.mem_cons, List.mem_nil_iff, or_false] at hp
      rcases hp with rfl | rfl | rfl
      · exact fe_pmap _ fe_intLit
      · exact fe_pmap _ ih.var
      · exact ih.brack
    have hunary : FE ctx (parseUnary ctx (F + 1)) := by
      simp only [parseUnary]
      exact fe_pmap _ (fe_info (fe_bind (fe_tk .Minus) (fun _ => ih.factor)))
    have hfactor : FE ctx (parseFactor ctx (F + 1)) := by
      simp only [parseFactor]; exact fe_alt2 ih.prim.ok ih.unary
    have hmul : FE ctx (parseMul ctx (F + 1)) := by
      simp only [parseMul]
      exact fe_bind ih.factor (fun e => fe_opLoop _ (by decide) (fun e op => fe_parseRhs e op ih.factor) _ e)
    have hadd : FE ctx (parseAdd ctx (F + 1)) := by
      simp only [parseAdd]
      exact fe_bind ih.mul (fun e => fe_opLoop _ (by decide) (fun e op => fe_parseRhs e op ih.mul) _ e)
    have hcmp : FE ctx (parseComparison ctx (F + 1)) := by
      simp only [parseComparison]
      refine fe_bind ih.add (fun e => ?_)
      have hks := fe_tks (ctx := ctx) [Kind.Eq, .Neq, .Le, .Lt, .Ge, .Gt]
      refine ⟨?_, ?_⟩
      · intro s s' a g h
        simp only at h
        cases h1 : altList ([Kind.Eq, .Neq, .Le, .Lt, .Ge, .Gt].map (tk ctx)) s with
        | ok s1 t =>
          rw [h1] at h
          simp only at h
          cases h2 : opOfKind t.kind with
          | none => rw [h2] at h; cases h
          | some op => rw [h2] at h; exact (fe_parseRhs e op ih.add).ok _ _ _ (hks.ok _ _ _ g h1) h
        | err k x => rw [h1] at h; cases h; exact g
        | panic x => rw [h1] at h; cases h
      · intro s k s' g h
        simp only at h
        cases h1 : altList ([Kind.Eq, .Neq, .Le, .Lt, .Ge, .Gt].map (tk ctx)) s with
        | ok s1 t =>
          rw [h1] at h
          simp only at h
          cases h2 : opOfKind t.kind with
          | none => rw [h2] at h; cases h
          | some op => rw [h2] at h; exact (fe_parseRhs e op ih.add).er _ _ _ (hks.ok _ _ _ g h1) h
        | err k1 x => rw [h1] at h; cases h
        | panic x => rw [h1] at h; cases h
    exact ⟨hvar, hbrack, hprim, hunary, hfactor, hmul, hadd, hcmp, by simpa only [parseExpression, affected_none] using ih.cmp⟩

theorem fe_refExpr : FE ctx (refExpr ctx none) := fe_refParse (efe _).expr

/-! ### type expressions, lists, calls, assignments -/

structure TFE (F : Nat) : Prop where
  te : FE ctx (parseTypeExpr ctx F none)
  arr : FE ctx (parseArrayType ctx F none)

theorem tfe : ∀ F, TFE (ctx := ctx) F
  | 0 => ⟨fe_panic _, fe_panic _⟩
  | F + 1 => by
    have ih := tfe F
    refine ⟨?_, ?_⟩
    · show FE ctx (alt2 (parseArrayType ctx F none) (pmap TypeExpr.named (parseIdentifier ctx none)))
      exact fe_alt2 ih.arr.ok (fe_pmap _ fe_ident)
    · show FE ctx (pmap (fun (p : (Option IntLiteral × Option (Ref TypeExpr)) × AstInfo) =>
            TypeExpr.array p.1.1 (OptType.ofOption p.1.2) p.2)
          (info (arrayTypeInner ctx none none (refParse (parseTypeExpr ctx F)))))
      refine fe_pmap _ (fe_info ?_)
      unfold arrayTypeInner
      refine fe_bind (fe_tk .Array) (fun _ => ?_)
      refine fe_bind (fe_expectInc _ _ (fe_tk .LBracket)) (fun _ => ?_)
      refine fe_bind (fe_expect _ fe_intLit) (fun sz => ?_)
      refine fe_bind (fe_expectInc _ _ (fe_tk .RBracket)) (fun _ => ?_)
      refine fe_bind (fe_expectInc _ _ (fe_tk .Of)) (fun _ => ?_)
      exact fe_bind (fe_expect _ (fe_refParse ih.te)) (fun b => fe_pure _)

theorem fe_refTypeExpr : FE ctx (refTypeExpr ctx none) := fe_refParse (tfe _).te

theorem fe_parseList {α} (range : α → Range) (parseT : Option α → P α) (hp : FE ctx (parseT none)) :
    FE ctx (parseList ctx range parseT (loopFuel ctx) none) := by
  refine fe_congr (parseList_eq ctx range parseT) ?_
  refine fe_bind (fe_refParse hp) (fun head => fe_pmap _ ?_)
  refine fe_many _ _ ?_
  exact (fe_bind (fe_tag _ _ (kind_ne_comment (k := .Comma) (by decide))) (fun _ => fe_refParse hp)).ok

theorem fe_argument : FE ctx (parseArgument ctx none) := by
  show FE ctx (alt2 (Parse.bind (parseExpression ctx (exprFuel ctx) none) (fun e => Parse.bind (peek (la ctx .arg)) (fun _ => pure' e)))
    (pmap _ (info (fun s => ignoreUntil0 ctx (peek (la ctx .arg)) (loopFuel ctx) s.pos s))))
  refine fe_alt2 ?_ (fe_pmap _ (fe_info (fe_ignoreUntil0 .arg _)))
  exact (fe_bind (efe _).expr (fun e => fe_bind (fe_peekla .arg) (fun _ => fe_pure _))).ok

theorem fe_void {α} {p : P α} (hp : FE ctx p) : FE ctx (void p) := fe_pmap _ hp

theorem fe_call : FE ctx (parseCall ctx none) := by
  show FE ctx (pmap (fun (p : (Identifier × List (Ref Expr)) × AstInfo) =>
        ({ name := p.1.1, args := p.1.2, info := p.2 } : CallStmt)) (info (callInner ctx none none)))
  refine fe_pmap _ (fe_info ?_)
  unfold callInner
  refine fe_bind (fe_bind fe_ident (fun n => fe_bind (fe_tk .LParen) (fun _ => fe_pure _))) (fun name => ?_)
  refine fe_bind (fe_alt2 ?_ (fe_parseList _ _ fe_argument)) (fun args => ?_)
  · refine okG_pmap _ (fe_peek ?_).ok
    exact (fe_altList _ (by
      intro p hp
      simp only [List.mem_cons, List.mem_nil_iff, or_false] at hp
      rcases hp with rfl | rfl | rfl
      · exact fe_void (fe_tk .RParen)
      · exact fe_void (fe_tk .Semic)
      · exact fe_void (fe_tk .Eof))).er
  · refine fe_bind (fe_expectInc _ _ (fe_tk .RParen)) (fun _ => ?_)
    exact fe_bind (fe_expectInc _ _ (fe_tk .Semic)) (fun _ => fe_pure _)

theorem fe_assignment : FE ctx (parseAssignment ctx none) := by
  show FE ctx (pmap (fun (p : (Var × Option (Ref Expr)) × AstInfo) =>
        ({ target := p.1.1, expr := p.1.2, info := p.2 } : Assignment)) (info (assignInner ctx none none)))
  refine fe_pmap _ (fe_info ?_)
  unfold assignInner
  refine fe_bind (fe_bind (efe _).var (fun v => fe_bind (fe_alt2 (fe_tk .Assign).ok (fe_confusable _ (fe_tk .Eq))) (fun _ => fe_pure _))) (fun v => ?_)
  refine fe_bind (fe_expect _ fe_refExpr) (fun e => ?_)
  exact fe_bind (fe_expectInc _ _ (fe_tk .Semic)) (fun _ => fe_pure _)

/-! ### statements -/

theorem fe_stmtParseError : FE ctx (stmtParseError ctx) := by
  refine ⟨?_, ?_⟩
  · intro s s' a g h
    unfold stmtParseError at h
    split at h
    · cases h
    · rename_i r hr
      obtain ⟨x, hx⟩ := pmap_ok_inv h
      obtain ⟨s1, h1, rfl⟩ := info_ok_inv hx
      obtain ⟨s2, doc, _, h3⟩ := bind_ok_inv h1
      have := ignoreUntil1_ok .stmt _ _ _ _ h3
      exact this
  · intro s k s' g h
    unfold stmtParseError at h
    split at h
    · cases h; exact g
    · rename_i r hr
      exfalso
      exact hr k s' h

structure SFE (F : Nat) : Prop where
  stmt : FE ctx (parseStmt ctx F none)
  iff : FE ctx (parseIf ctx F none)
  whl : FE ctx (parseWhile ctx F none)
  blk : FE ctx (parseBlock ctx F none)

theorem sfe : ∀ F, SFE (ctx := ctx) F
  | 0 => ⟨fe_panic _, fe_panic _, fe_panic _, fe_panic _⟩
  | F + 1 => by
    have ih := sfe F
    have hps : FE ctx (refParse (parseStmt ctx F) none) := fe_refParse ih.stmt
    refine ⟨?_, ?_, ?_, ?_⟩
    · show FE ctx (altList [pmap (fun (p : Token × AstInfo) => Stmt.empty p.2) (info (tk ctx .Semic)),
          parseIf ctx F none, parseWhile ctx F none, parseBlock ctx F none,
          pmap Stmt.call (parseCall ctx none), pmap Stmt.assign (parseAssignment ctx none), stmtParseError ctx])
      refine fe_altList _ ?_
      intro p hp
      simp only [List.mem_cons, List.mem_nil_iff, or_false] at hp
      rcases hp with rfl | rfl | rfl | rfl | rfl | rfl | rfl
      · exact fe_pmap _ (fe_info (fe_tk .Semic))
      · exact ih.iff
      · exact ih.whl
      · exact ih.blk
      · exact fe_pmap _ fe_call
      · exact fe_pmap _ fe_assignment
      · exact fe_stmtParseError
    · show FE ctx (pmap (fun (p : (Option (Ref Expr) × Option (Ref Stmt) × Option (Option (Ref Stmt))) × AstInfo) =>
            Stmt.ifS p.1.1 (OptStmt.ofOption p.1.2.1) (OptStmt.ofOption (p.1.2.2.getD none)) p.2)
          (info (ifInner ctx none none none (refParse (parseStmt ctx F)))))
      refine fe_pmap _ (fe_info ?_)
      unfold ifInner
      refine fe_bind (fe_tk .If) (fun _ => ?_)
      refine fe_bind (fe_expectInc _ _ (fe_tk .LParen)) (fun _ => ?_)
      refine fe_bind (fe_expect _ fe_refExpr) (fun c => ?_)
      refine fe_bind (fe_expectInc _ _ (fe_tk .RParen)) (fun _ => ?_)
      refine fe_bind (fe_expect _ hps) (fun t => ?_)
      refine fe_bind (fe_opt ?_) (fun e => fe_pure _)
      exact (fe_bind (fe_tk .Else) (fun _ => fe_expect _ hps)).ok
    · show FE ctx (pmap (fun (p : (Option (Ref Expr) × Option (Ref Stmt)) × AstInfo) =>
            Stmt.whileS p.1.1 (OptStmt.ofOption p.1.2) p.2)
          (info (whileInner ctx none none (refParse (parseStmt ctx F)))))
      refine fe_pmap _ (fe_info ?_)
      unfold whileInner
      refine fe_bind (fe_tk .While) (fun _ => ?_)
      refine fe_bind (fe_expectInc _ _ (fe_tk .LParen)) (fun _ => ?_)
      refine fe_bind (fe_expect _ fe_refExpr) (fun c => ?_)
      refine fe_bind (fe_expectInc _ _ (fe_tk .RParen)) (fun _ => ?_)
      exact fe_bind (fe_expect _ hps) (fun t => fe_pure _)
    · show FE ctx (pmap (fun (p : List (Ref Stmt) × AstInfo) => Stmt.block (StmtList.ofList p.1) p.2)
          (info (blockInner ctx none (parseStmt ctx F))))
      refine fe_pmap _ (fe_info ?_)
      unfold blockInner
      refine fe_bind (fe_tk .LCurly) (fun _ => ?_)
      refine fe_bind (fe_many _ _ ih.stmt.ok) (fun ss => ?_)
      exact fe_bind (fe_expectInc _ _ (fe_tk .RCurly)) (fun _ => fe_pure _)

theorem fe_stmt : FE ctx (parseStmt ctx (stmtFuel ctx) none) := (sfe _).stmt

/-! ### declarations -/

theorem fe_declTail {α} (k1 k2 k3 : Kind) (m2 m3 me : Msg) (f : Option Identifier → Option (Ref TypeExpr) → α)
    (h1 : k1 ≠ .Comment := by decide) (h2 : k2 ≠ .Comment := by decide) (h3 : k3 ≠ .Comment := by decide) :
    FE ctx (Parse.bind (Parse.expect none (parseIdentifier ctx) (.ExpectedToken (chars "identifier"))) (fun name =>
      Parse.bind (Parse.expect none (inc (altList [tk ctx k1, confusable (tk ctx k2) m2, confusable (tk ctx k3) m3])) me) (fun _ =>
      Parse.bind (Parse.expect none (refTypeExpr ctx) (.ExpectedToken (chars "type expression"))) (fun te =>
      Parse.bind (Parse.expect none (inc (tk ctx .Semic)) .MissingTrailingSemic) (fun _ => pure' (f name te)))))) := by
  refine fe_bind (fe_expect _ fe_ident) (fun name => ?_)
  refine fe_bind (fe_expectInc _ _ (fe_altList _ ?_)) (fun _ => ?_)
  · intro p hp
    simp only [List.mem_cons, List.mem_nil_iff, or_false] at hp
    rcases hp with rfl | rfl | rfl
    · exact fe_tk k1 h1
    · exact fe_confusable _ (fe_tk k2 h2)
    · exact fe_confusable _ (fe_tk k3 h3)
  · refine fe_bind (fe_expect _ fe_refTypeExpr) (fun te => ?_)
    exact fe_bind (fe_expectInc _ _ (fe_tk .Semic)) (fun _ => fe_pure _)

theorem okG_typeDecl : OkG ctx (parseTypeDecl ctx none) := by
  show OkG ctx (pmap (fun (p : (List (List Char) × Option Identifier × Option (Ref TypeExpr)) × AstInfo) =>
        ({ doc := p.1.1, name := p.1.2.1, typeExpr := p.1.2.2, info := p.2 } : TypeDecl))
      (info (typeDeclInner ctx none none)))
  refine okG_pmap _ (okG_info ?_)
  unfold typeDeclInner
  exact okG_doctk .Type _ (by decide) (fun doc =>
    (fe_declTail .Eq .Assign .Colon _ _ _ (fun name te => (doc, name, te))).ok)

theorem okG_varDeclValid : OkG ctx (pmap (fun (p : (List (List Char) × Option Identifier × Option (Ref TypeExpr)) × AstInfo) =>
      VarDecl.valid p.1.1 p.1.2.1 p.1.2.2 p.2) (info (varDeclInner ctx none none))) := by
  refine okG_pmap _ (okG_info ?_)
  unfold varDeclInner
  exact okG_doctk .Var _ (by decide) (fun doc =>
    (fe_declTail .Colon .Assign .Eq _ _ _ (fun name te => (doc, name, te))).ok)

theorem fe_varDecl : FE ctx (parseVarDecl ctx none) := by
  show FE ctx (alt2 (pmap (fun (p : (List (List Char) × Option Identifier × Option (Ref TypeExpr)) × AstInfo) =>
          VarDecl.valid p.1.1 p.1.2.1 p.1.2.2 p.2) (info (varDeclInner ctx none none)))
    (pmap _ (info (ignoreUntil1 ctx (peek (la ctx .var_dec)) (loopFuel ctx)))))
  exact fe_alt2 okG_varDeclValid (fe_pmap _ (fe_info (fe_ignoreUntil1 .var_dec _)))

/-- the valid alternative of a parameter declaration: it starts with documentation comments, so only its
    successes are claimed -/
theorem okG_paramValid : OkG ctx (pmap (fun (p : (List (List Char) × (Bool × Option Identifier) × Option (Ref TypeExpr)) × AstInfo) =>
      ParamDecl.valid p.1.1 p.1.2.1.1 p.1.2.1.2 p.1.2.2 p.2) (info (paramDeclInner ctx none none))) := by
  refine okG_pmap _ (okG_info ?_)
  unfold paramDeclInner
  intro s s' a g h
  obtain ⟨s1, doc, _, h2⟩ := bind_ok_inv h
  obtain ⟨s2, rn, h3, h4⟩ := bind_ok_inv h2
  -- `ref name` or `name`: both end directly behind a token or where `expect` leaves off behind `ref`
  have g2 : Good ctx s2.pos := by
    rcases alt2_ok_inv h3 with h5 | h5
    · obtain ⟨s3, t, h6, h7⟩ := bind_ok_inv h5
      have g3 := tag_ok_good _ _ (kind_ne_comment (k := .Ref) (by decide)) _ _ _ h6
      exact (okG_pmap _ (fe_expect _ fe_ident).ok) _ _ _ g3 h7
    · obtain ⟨i, h6⟩ := pmap_ok_inv h5
      have e : parseIdentifier ctx none s1 =
          pmap (fun (p : Token × AstInfo) => ({ value := displayToken p.1.ty, info := p.2 } : Identifier)) (info (tk ctx .Ident)) s1 := by
        simp only [parseIdentifier, affected_none]
      rw [e] at h6
      obtain ⟨r, h7⟩ := pmap_ok_inv h6
      obtain ⟨s4, h8, rfl⟩ := info_ok_inv h7
      have := tag_ok_good (ctx := ctx) (loopFuel ctx) (fun ty => ty.kind == Kind.Ident) (kind_ne_comment (k := .Ident) (by decide)) _ _ _ h8
      exact this
  have hrest : OkG ctx (Parse.bind (Parse.expect none (inc (tk ctx .Colon)) (.ExpectedToken colonS)) (fun _ =>
      Parse.bind (Parse.expect none (refTypeExpr ctx) (.ExpectedToken (chars "type expression"))) (fun te =>
      Parse.bind (peek (la ctx .param_dec)) (fun _ => pure' (doc, rn, te))))) :=
    (fe_bind (fe_expectInc _ _ (fe_tk .Colon)) (fun _ =>
      fe_bind (fe_expect _ fe_refTypeExpr) (fun te => fe_bind (fe_peekla .param_dec) (fun _ => fe_pure _)))).ok
  exact hrest _ _ _ g2 h4

theorem fe_paramDecl : FE ctx (parseParamDecl ctx none) := by
  show FE ctx (alt2 (pmap (fun (p : (List (List Char) × (Bool × Option Identifier) × Option (Ref TypeExpr)) × AstInfo) =>
        ParamDecl.valid p.1.1 p.1.2.1.1 p.1.2.1.2 p.1.2.2 p.2) (info (paramDeclInner ctx none none)))
    (pmap _ (info (fun s => ignoreUntil0 ctx (peek (la ctx .param_dec)) (loopFuel ctx) s.pos s))))
  exact fe_alt2 okG_paramValid (fe_pmap _ (fe_info (fe_ignoreUntil0 .param_dec _)))

theorem okG_procRest (doc : List (List Char)) : OkG ctx (procRest ctx doc) := by
  unfold procRest
  refine (fe_bind (fe_expect _ fe_ident) (fun name => ?_)).ok
  refine fe_bind (fe_expectInc _ _ (fe_tk .LParen)) (fun _ => ?_)
  refine fe_bind (fe_alt2 ?_ (fe_parseList _ _ fe_paramDecl)) (fun params => ?_)
  · refine okG_pmap _ (fe_peek ?_).ok
    exact (fe_altList _ (by
      intro p hp
      simp only [List.mem_cons, List.mem_nil_iff, or_false] at hp
      rcases hp with rfl | rfl | rfl
      · exact fe_void (fe_tk .RParen)
      · exact fe_void (fe_tk .LCurly)
      · exact fe_void (fe_tk .Eof))).er
  · refine fe_bind (fe_expectInc _ _ (fe_tk .RParen)) (fun _ => ?_)
    refine fe_bind (fe_expectInc _ _ (fe_tk .LCurly)) (fun _ => ?_)
    refine fe_bind (fe_many _ _ fe_varDecl.ok) (fun vars => ?_)
    refine fe_bind (fe_many _ _ fe_stmt.ok) (fun stmts => ?_)
    exact fe_bind (fe_expectInc _ _ (fe_tk .RCurly)) (fun _ => fe_pure _)

theorem okG_procDecl : OkG ctx (parseProcDecl ctx none) := by
  show OkG ctx (pmap (fun (p : (List (List Char) × Option Identifier × List (Ref ParamDecl) × List (Ref VarDecl) × List (Ref Stmt)) × AstInfo) =>
        ({ doc := p.1.1, name := p.1.2.1, params := p.1.2.2.1, vars := p.1.2.2.2.1, stmts := p.1.2.2.2.2, info := p.2 } : ProcDecl))
      (info (procDeclInner ctx none)))
  refine okG_pmap _ (okG_info ?_)
  rw [procDeclInner_eq]
  exact okG_doctk .Proc _ (by decide) (fun doc => okG_procRest doc)

/-- **every declaration the loop parses ends directly behind a token** -/
theorem okG_globalDecl : OkG ctx (parseGlobalDecl ctx none) := by
  show OkG ctx (altList [pmap GlobalDecl.type (parseTypeDecl ctx none), pmap GlobalDecl.proc (parseProcDecl ctx none), pmap _ _])
  intro s s' a g h
  simp only [altList] at h
  rcases alt2_ok_inv h with h1 | h1
  · exact okG_pmap _ okG_typeDecl _ _ _ g h1
  · rcases alt2_ok_inv h1 with h2 | h2
    · exact okG_pmap _ okG_procDecl _ _ _ g h2
    · exact (fe_pmap _ (fe_info (fe_ignoreUntil1 .global_dec _))).ok _ _ _ g h2

/-! ### the declaration loop -/

theorem many0_mono {α} (p : P α) : ∀ (f : Nat) (s s' : St) (l : List α),
    many0 p f s = .ok s' l → many0 p (f + 1) s = .ok s' l
  | 0, s, s', l, h => by simp [many0] at h
  | f + 1, s, s', l, h => by
    rw [many0_succ] at h ⊢
    cases h1 : p s with
    | err k x => rw [h1] at h; exact h
    | panic e => rw [h1] at h; cases h
    | ok s1 c =>
      rw [h1] at h
      simp only at h ⊢
      split at h
      · cases h
      · rename_i hne
        simp only [hne]
        cases h2 : many0 p f s1 with
        | ok s2 cs2 =>
          rw [h2] at h
          rw [many0_mono p f s1 s2 cs2 h2]
          exact h
        | err k x => rw [h2] at h; cases h
        | panic e => rw [h2] at h; cases h

theorem many0_mono' {α} (p : P α) (f : Nat) (s s' : St) (l : List α) (h : many0 p f s = .ok s' l) :
    ∀ k, many0 p (f + k) s = .ok s' l
  | 0 => h
  | k + 1 => many0_mono p (f + k) s s' l (many0_mono' p f s s' l h k)

/-- the loop, seen from its `i`-th iteration: it starts directly behind a token, at the offset of the `i`-th result,
    and returns the remaining results -/
theorem loop_split : ∀ (l : List (Ref GlobalDecl)) (fuel : Nat) (s s' : St),
    many0 (refParse (parseGlobalDecl ctx) none) fuel s = .ok s' l → Good ctx s.pos → s.refPos = 0 →
    ∀ i (hi : i < l.length), ∃ fi si, many0 (refParse (parseGlobalDecl ctx) none) fi si = .ok s' (l.drop i) ∧
      Good ctx si.pos ∧ si.refPos = 0 ∧ (l[i]).offset = si.pos
  | [], fuel, s, s', h, g, hr, i, hi => by simp at hi
  | d :: l, fuel, s, s', h, g, hr, i, hi => by
    cases fuel with
    | zero => simp [many0] at h
    | succ f =>
      have h0 := h
      rw [many0_succ] at h
      cases h1 : refParse (parseGlobalDecl ctx) none s with
      | err k x => rw [h1] at h; cases h
      | panic e => rw [h1] at h; cases h
      | ok s1 a =>
        rw [h1] at h
        simp only at h
        split at h
        · cases h
        · cases h2 : many0 (refParse (parseGlobalDecl ctx) none) f s1 with
          | ok s2 as =>
            rw [h2] at h
            simp only [Res.ok.injEq, List.cons.injEq] at h
            obtain ⟨rfl, rfl, rfl⟩ := h
            obtain ⟨sx, ax, hx, hsx, ha⟩ := refParse_ok_inv h1
            cases i with
            | zero =>
              refine ⟨f + 1, s, h0, g, hr, ?_⟩
              simp [ha, hr]
            | succ j =>
              have g1 : Good ctx s1.pos := okG_refParse okG_globalDecl _ _ _ g h1
              have hr1 : s1.refPos = 0 := by rw [hsx]; exact hr
              obtain ⟨fi, si, e1, e2, e3, e4⟩ := loop_split as f s1 s2 h2 g1 hr1 j (by simpa using hi)
              exact ⟨fi, si, by simpa using e1, e2, e3, by simpa using e4⟩
          | err k x => rw [h2] at h; cases h
          | panic e => rw [h2] at h; cases h

/-- the declarations of a parsed program are the results of the declaration loop started at the first token -/
theorem program_loop (s' : St) (prog : Program) (h : parseProgram ctx none { pos := 0 } = .ok s' prog) :
    ∃ sE, many0 (refParse (parseGlobalDecl ctx) none) (loopFuel ctx) { pos := 0 } = .ok sE prog.decls := by
  have h' : pmap (fun (p : List (Ref GlobalDecl) × AstInfo) => ({ decls := p.1, info := p.2 } : Program))
      (Parse.bind (info (many ctx (fun (g : GlobalDecl) => g.info.range) (parseGlobalDecl ctx) (loopFuel ctx) none))
        (fun r => Parse.bind (allConsuming ctx (tk ctx .Eof)) (fun _ => pure' r))) { pos := 0 } = .ok s' prog := h
  obtain ⟨r, hb⟩ := pmap_ok_inv h'
  have hprog : prog = { decls := r.1, info := r.2 } := by
    unfold pmap at h'
    rw [hb] at h'
    simp only [Res.ok.injEq] at h'
    exact h'.2.symm
  obtain ⟨s1, r1, hi, ht1⟩ := bind_ok_inv hb
  obtain ⟨s2, u, ha, hp⟩ := bind_ok_inv ht1
  have hr : r = r1 := by simp only [pure', Res.ok.injEq] at hp; exact hp.2.symm
  subst hr
  obtain ⟨sE, hM, rfl⟩ := info_ok_inv hi
  refine ⟨sE, ?_⟩
  rw [hprog]
  exact (Total.many_none ctx (fun (g : GlobalDecl) => g.info.range) (parseGlobalDecl ctx) (loopFuel ctx) _).symm.trans hM

end Spl.FreshEnd
