/-
  A derivation of the grammar specification carries no diagnostic (`parse_errors_nil`): every
  `AstInfo` the specification builds has an empty error list (`cconf_all` for the eight expression
  functions, `typeExpr_errs`, `sclean_all` for statements, `params_errs`, `varDecls_errs`,
  `decls_errs`), and the change of range convention keeps that (`rel*_errs`).
-/
import SplVerif.Lemmas.ParseConformDecl

namespace Spl.ParseConform
open Spl Spl.Parse Spl.Grammar

@[simp] theorem shiftErrs_eq_nil (es : List SplError) (d : Nat) : shiftErrs es d = [] ↔ es = [] := by
  simp [shiftErrs]

/-! ### the change of range convention keeps "no diagnostic attached" -/

mutual
  theorem relVar_errs (b : Nat) : ∀ v : Var, v.errors = [] → (relVar b v).errors = []
    | .named id, h => by simpa [relVar, Var.errors, relIdent, relInfo] using h
    | .access a idx i, h => by
      simp only [Var.errors, List.append_eq_nil_iff] at h
      simp only [relVar, Var.errors, List.append_eq_nil_iff, relInfo]
      exact ⟨⟨h.1.1, relVar_errs b a h.1.2⟩, relOptExpr_errs b idx h.2⟩
  theorem relExpr_errs (b : Nat) : ∀ e : Expr, e.errors = [] → (relExpr b e).errors = []
    | .binary op l r i, h => by
      simp only [Expr.errors, List.append_eq_nil_iff] at h
      simp only [relExpr, Expr.errors, List.append_eq_nil_iff, relInfo]
      exact ⟨⟨h.1.1, relExpr_errs b l h.1.2⟩, relExpr_errs b r h.2⟩
    | .bracketed e i, h => by
      simp only [Expr.errors, List.append_eq_nil_iff] at h
      simp only [relExpr, Expr.errors, List.append_eq_nil_iff, relInfo]
      exact ⟨h.1, relExpr_errs b e h.2⟩
    | .intLit l, h => by simpa [relExpr, Expr.errors, relIntLit, relInfo] using h
    | .unary op e i, h => by
      simp only [Expr.errors, List.append_eq_nil_iff] at h
      simp only [relExpr, Expr.errors, List.append_eq_nil_iff, relInfo]
      exact ⟨h.1, relExpr_errs b e h.2⟩
    | .var v, h => by
      simp only [Expr.errors] at h
      simpa [relExpr, Expr.errors] using relVar_errs b v h
    | .error i, h => by simpa [relExpr, Expr.errors, relInfo] using h
  theorem relOptExpr_errs (b : Nat) : ∀ o : OptExpr, o.errors = [] → (relOptExpr b o).errors = []
    | .none, _ => rfl
    | .some e off, h => by
      simp only [OptExpr.errors, shiftErrs_eq_nil] at h
      simp only [relOptExpr, OptExpr.errors, shiftErrs_eq_nil]
      exact relExpr_errs _ e h
end

mutual
  theorem relType_errs (b : Nat) : ∀ t : TypeExpr, t.errors = [] → (relType b t).errors = []
    | .named id, h => by simpa [relType, TypeExpr.errors, relIdent, relInfo] using h
    | .array sz bt i, h => by
      simp only [TypeExpr.errors, List.append_eq_nil_iff] at h
      simp only [relType, TypeExpr.errors, List.append_eq_nil_iff, relInfo]
      exact ⟨h.1, relOptType_errs b bt h.2⟩
  theorem relOptType_errs (b : Nat) : ∀ o : OptType, o.errors = [] → (relOptType b o).errors = []
    | .none, _ => rfl
    | .some t off, h => by
      simp only [OptType.errors, shiftErrs_eq_nil] at h
      simp only [relOptType, OptType.errors, shiftErrs_eq_nil]
      exact relType_errs _ t h
end

theorem relRefExpr_errs (b : Nat) (r : Ref Expr) (h : refErrors Expr.errors r = []) :
    refErrors Expr.errors (relRefExpr b r) = [] := by
  simp only [refErrors, shiftErrs_eq_nil] at h ⊢
  exact relExpr_errs _ _ h

theorem relRefType_errs (b : Nat) (r : Ref TypeExpr) (h : refErrors TypeExpr.errors r = []) :
    refErrors TypeExpr.errors (relRefType b r) = [] := by
  simp only [refErrors, shiftErrs_eq_nil] at h ⊢
  exact relType_errs _ _ h

theorem flatMap_nil_of {α β} (f : α → List β) (l : List α) (h : ∀ a ∈ l, f a = []) : l.flatMap f = [] := by
  induction l with
  | nil => rfl
  | cons a l ih =>
    simp only [List.flatMap_cons, List.append_eq_nil_iff]
    exact ⟨h a (List.mem_cons_self ..), ih (fun x hx => h x (List.mem_cons_of_mem _ hx))⟩

theorem flatMap_nil_iff {α β} (f : α → List β) (l : List α) : l.flatMap f = [] ↔ ∀ a ∈ l, f a = [] := by
  constructor
  · intro h a ha
    induction l with
    | nil => cases ha
    | cons x l ih =>
      simp only [List.flatMap_cons, List.append_eq_nil_iff] at h
      rcases List.mem_cons.mp ha with rfl | hm
      · exact h.1
      · exact ih h.2 hm
  · exact flatMap_nil_of f l

mutual
  theorem relStmt_errs (b : Nat) : ∀ t : Stmt, t.errors = [] → (relStmt b t).errors = []
    | .empty i, h => by simpa [relStmt, Stmt.errors, relInfo] using h
    | .error i, h => by simpa [relStmt, Stmt.errors, relInfo] using h
    | .assign a, h => by
      simp only [Stmt.errors, Assignment.errors, List.append_eq_nil_iff] at h
      simp only [relStmt, Stmt.errors, Assignment.errors, List.append_eq_nil_iff, relInfo]
      refine ⟨⟨h.1.1, relVar_errs b _ h.1.2⟩, ?_⟩
      cases he : a.expr with
      | none => simp [optRefErrors]
      | some r =>
        have := h.2
        rw [he] at this
        simp only [optRefErrors] at this
        simpa [optRefErrors] using relRefExpr_errs b r this
    | .call c, h => by
      simp only [Stmt.errors, CallStmt.errors, List.append_eq_nil_iff] at h
      simp only [relStmt, Stmt.errors, CallStmt.errors, List.append_eq_nil_iff, relInfo, relIdent]
      refine ⟨⟨h.1.1, h.1.2⟩, ?_⟩
      rw [flatMap_nil_iff] at h ⊢
      intro r hr
      obtain ⟨r0, hr0, rfl⟩ := List.mem_map.mp hr
      exact relRefExpr_errs b r0 (h.2 r0 hr0)
    | .ifS c t e i, h => by
      simp only [Stmt.errors, List.append_eq_nil_iff] at h
      simp only [relStmt, Stmt.errors, List.append_eq_nil_iff, relInfo]
      refine ⟨⟨⟨h.1.1.1, ?_⟩, relOptStmt_errs b t h.1.2⟩, relOptStmt_errs b e h.2⟩
      cases c with
      | none => simp [optRefErrors]
      | some r =>
        have := h.1.1.2
        simp only [optRefErrors] at this
        simpa [optRefErrors] using relRefExpr_errs b r this
    | .whileS c bd i, h => by
      simp only [Stmt.errors, List.append_eq_nil_iff] at h
      simp only [relStmt, Stmt.errors, List.append_eq_nil_iff, relInfo]
      refine ⟨⟨h.1.1, ?_⟩, relOptStmt_errs b bd h.2⟩
      cases c with
      | none => simp [optRefErrors]
      | some r =>
        have := h.1.2
        simp only [optRefErrors] at this
        simpa [optRefErrors] using relRefExpr_errs b r this
    | .block ss i, h => by
      simp only [Stmt.errors, List.append_eq_nil_iff] at h
      simp only [relStmt, Stmt.errors, List.append_eq_nil_iff, relInfo]
      exact ⟨h.1, relStmtList_errs b ss h.2⟩
  theorem relOptStmt_errs (b : Nat) : ∀ o : OptStmt, o.errors = [] → (relOptStmt b o).errors = []
    | .none, _ => rfl
    | .some t off, h => by
      simp only [OptStmt.errors, shiftErrs_eq_nil] at h
      simp only [relOptStmt, OptStmt.errors, shiftErrs_eq_nil]
      exact relStmt_errs _ t h
  theorem relStmtList_errs (b : Nat) : ∀ l : StmtList, l.errors = [] → (relStmtList b l).errors = []
    | .nil, _ => rfl
    | .cons t off r, h => by
      simp only [StmtList.errors, List.append_eq_nil_iff, shiftErrs_eq_nil] at h
      simp only [relStmtList, StmtList.errors, List.append_eq_nil_iff, shiftErrs_eq_nil]
      exact ⟨relStmt_errs _ t h.1, relStmtList_errs b r h.2⟩
end

theorem intLitTok_errs (g : GCtx) (ts rest : Toks) (l : IntLiteral) (i : Nat) (h : intLitTok g ts = some (l, i, rest)) :
    l.info.errors = [] := by
  cases ts with
  | nil => simp [intLitTok] at h
  | cons t r =>
    obtain ⟨j, ty⟩ := t
    cases ty with
    | Int res => cases res <;> simp_all [intLitTok] <;> (obtain ⟨rfl, _⟩ := h; rfl)
    | Hex res => cases res <;> simp_all [intLitTok] <;> (obtain ⟨rfl, _⟩ := h; rfl)
    | Char c =>
      simp only [intLitTok] at h
      split at h
      · simp only [Option.some.injEq, Prod.mk.injEq] at h
        obtain ⟨rfl, _⟩ := h; rfl
      · cases h
    | _ => simp [intLitTok] at h

/-- every expression the specification derives carries no diagnostic -/
structure CConf (g : GCtx) (fs : Nat) : Prop where
  expr : ∀ ts e sp r, expr g fs ts = some (e, sp, r) → e.errors = []
  add : ∀ ts e sp r, add g fs ts = some (e, sp, r) → e.errors = []
  addRest : ∀ ts l sl e sp r, addRest g fs l sl ts = some (e, sp, r) → l.errors = [] → e.errors = []
  mul : ∀ ts e sp r, mul g fs ts = some (e, sp, r) → e.errors = []
  mulRest : ∀ ts l sl e sp r, mulRest g fs l sl ts = some (e, sp, r) → l.errors = [] → e.errors = []
  factor : ∀ ts e sp r, factor g fs ts = some (e, sp, r) → e.errors = []
  varAccess : ∀ ts v sp r, varAccess g fs ts = some (v, sp, r) → v.errors = []
  accesses : ∀ ts v sv vf sp r, accesses g fs v sv ts = some (vf, sp, r) → v.errors = [] → vf.errors = []

theorem cconf_all (g : GCtx) : ∀ fs, CConf g fs
  | 0 => by
    constructor
    · intro ts e sp r h; simp [Grammar.expr] at h
    · intro ts e sp r h; simp [Grammar.add] at h
    · intro ts l sl e sp r h; simp [Grammar.addRest] at h
    · intro ts e sp r h; simp [Grammar.mul] at h
    · intro ts l sl e sp r h; simp [Grammar.mulRest] at h
    · intro ts e sp r h; simp [Grammar.factor] at h
    · intro ts v sp r h; simp [Grammar.varAccess] at h
    · intro ts v sv vf sp r h; simp [Grammar.accesses] at h
  | fs + 1 => by
    have ih := cconf_all g fs
    constructor
    · -- expr
      intro ts e sp r h
      simp only [Grammar.expr] at h
      split at h
      · cases h
      · rename_i l sl r0 hl
        have hlc := ih.add _ _ _ _ hl
        split at h
        · rename_i t r1
          split at h
          · rename_i op hop
            split at h
            · rename_i rh sr r2 hr
              simp only [Option.some.injEq, Prod.mk.injEq] at h
              obtain ⟨rfl, _, _⟩ := h
              simp [Expr.errors, mkInfo, hlc, ih.add _ _ _ _ hr]
            · cases h
          · simp only [Option.some.injEq, Prod.mk.injEq] at h
            obtain ⟨rfl, _, _⟩ := h; exact hlc
        · simp only [Option.some.injEq, Prod.mk.injEq] at h
          obtain ⟨rfl, _, _⟩ := h; exact hlc
    · -- add
      intro ts e sp r h
      simp only [Grammar.add] at h
      split at h
      · cases h
      · rename_i l sl r0 hl
        exact ih.addRest _ _ _ _ _ _ h (ih.mul _ _ _ _ hl)
    · -- addRest
      intro ts l sl e sp r h hl
      simp only [Grammar.addRest] at h
      split at h
      · rename_i t r1
        split at h
        · rename_i op hop
          split at h
          · rename_i rh sr r2 hr
            exact ih.addRest _ _ _ _ _ _ h (by simp [Expr.errors, mkInfo, hl, ih.mul _ _ _ _ hr])
          · cases h
        · simp only [Option.some.injEq, Prod.mk.injEq] at h
          obtain ⟨rfl, _, _⟩ := h; exact hl
      · simp only [Option.some.injEq, Prod.mk.injEq] at h
        obtain ⟨rfl, _, _⟩ := h; exact hl
    · -- mul
      intro ts e sp r h
      simp only [Grammar.mul] at h
      split at h
      · cases h
      · rename_i l sl r0 hl
        exact ih.mulRest _ _ _ _ _ _ h (ih.factor _ _ _ _ hl)
    · -- mulRest
      intro ts l sl e sp r h hl
      simp only [Grammar.mulRest] at h
      split at h
      · rename_i t r1
        split at h
        · rename_i op hop
          split at h
          · rename_i rh sr r2 hr
            exact ih.mulRest _ _ _ _ _ _ h (by simp [Expr.errors, mkInfo, hl, ih.factor _ _ _ _ hr])
          · cases h
        · simp only [Option.some.injEq, Prod.mk.injEq] at h
          obtain ⟨rfl, _, _⟩ := h; exact hl
      · simp only [Option.some.injEq, Prod.mk.injEq] at h
        obtain ⟨rfl, _, _⟩ := h; exact hl
    · -- factor
      intro ts e sp r h
      simp only [Grammar.factor] at h
      split at h
      · split at h
        · rename_i e1 se r1 h1
          simp only [Option.some.injEq, Prod.mk.injEq] at h
          obtain ⟨rfl, _, _⟩ := h
          simp [Expr.errors, mkInfo, ih.factor _ _ _ _ h1]
        · cases h
      · split at h
        · rename_i e1 se r1 h1
          split at h
          · simp only [Option.some.injEq, Prod.mk.injEq] at h
            obtain ⟨rfl, _, _⟩ := h
            simp [Expr.errors, mkInfo, ih.expr _ _ _ _ h1]
          · cases h
        · cases h
      · split at h
        · rename_i v sv r1 h1
          simp only [Option.some.injEq, Prod.mk.injEq] at h
          obtain ⟨rfl, _, _⟩ := h
          simpa [Expr.errors] using ih.varAccess _ _ _ _ h1
        · cases h
      · split at h
        · rename_i l i r1 h1
          simp only [Option.some.injEq, Prod.mk.injEq] at h
          obtain ⟨rfl, _, _⟩ := h
          simpa [Expr.errors] using intLitTok_errs _ _ _ _ _ h1
        · cases h
    · -- varAccess
      intro ts v sp r h
      simp only [Grammar.varAccess] at h
      split at h
      · rename_i i s r0 h0
        exact ih.accesses _ _ _ _ _ _ h (by simp [Var.errors, mkIdent, mkInfo])
      · cases h
    · -- accesses
      intro ts v sv vf sp r h hv
      simp only [Grammar.accesses] at h
      split at h
      · split at h
        · rename_i e se r1 h1
          split at h
          · exact ih.accesses _ _ _ _ _ _ h (by simp [Var.errors, OptExpr.errors, mkInfo, hv, ih.expr _ _ _ _ h1])
          · cases h
        · cases h
      · simp only [Option.some.injEq, Prod.mk.injEq] at h
        obtain ⟨rfl, _, _⟩ := h; exact hv

theorem expr_errs (g : GCtx) (fs : Nat) (ts r : Toks) (e : Expr) (sp : Span) (h : expr g fs ts = some (e, sp, r)) :
    e.errors = [] := (cconf_all g fs).expr ts e sp r h

theorem varAccess_errs (g : GCtx) (fs : Nat) (ts r : Toks) (v : Var) (sp : Span) (h : varAccess g fs ts = some (v, sp, r)) :
    v.errors = [] := (cconf_all g fs).varAccess ts v sp r h

theorem typeExpr_errs (g : GCtx) : ∀ (fs : Nat) (ts r : Toks) (t : TypeExpr) (sp : Span),
    typeExpr g fs ts = some (t, sp, r) → t.errors = []
  | 0, ts, r, t, sp, h => by simp [Grammar.typeExpr] at h
  | fs + 1, ts, r, t, sp, h => by
    cases ts with
    | nil => simp [Grammar.typeExpr, identTok] at h
    | cons t0 r0 =>
      obtain ⟨i, ty⟩ := t0
      by_cases hty : ty = .Array
      · subst hty
        obtain ⟨i1, ty1, r1, sz, isz, i3, ty3, i4, ty4, r4, b, sb, _, _, _, _, _, hb, rfl, _⟩ := typeExpr_array _ _ _ _ _ _ _ h
        simp [TypeExpr.errors, OptType.errors, mkInfo, typeExpr_errs g fs _ _ _ _ hb]
      · rw [typeExpr_other _ _ _ _ _ hty] at h
        split at h
        · simp only [Option.some.injEq, Prod.mk.injEq] at h
          obtain ⟨rfl, _, _⟩ := h
          simp [TypeExpr.errors, mkIdent, mkInfo]
        · cases h

theorem refAbs_errs {α} (errs : α → List SplError) (a : α) (h : errs a = []) : refErrors errs (refAbs a) = [] := by
  simp [refErrors, refAbs, h]

theorem exprList_errs (g : GCtx) : ∀ (fl : Nat) (ts r : Toks) (es : List (Ref Expr)),
    exprList g fl ts = some (es, r) → ∀ e ∈ es, refErrors Expr.errors e = []
  | 0, ts, r, es, h => by simp [Grammar.exprList] at h
  | fl + 1, ts, r, es, h => by
    rw [exprList_succ] at h
    split at h
    · cases h
    · rename_i e sp r0 he
      simp only [Option.map_eq_some_iff] at h
      obtain ⟨⟨es', r2⟩, htl, hp⟩ := h
      simp only [Prod.mk.injEq] at hp
      obtain ⟨rfl, rfl⟩ := hp
      intro x hx
      rcases List.mem_cons.mp hx with rfl | hm
      · exact refAbs_errs _ _ (expr_errs _ _ _ _ _ _ he)
      · cases r0 with
        | nil => simp only [exprListTail, Option.some.injEq, Prod.mk.injEq] at htl; rw [← htl.1] at hm; cases hm
        | cons t r1 =>
          obtain ⟨ic, ty⟩ := t
          by_cases hc : ty = .Comma
          · subst hc
            exact exprList_errs g fl r1 _ es' htl x hm
          · rw [exprListTail_other _ _ _ _ _ hc] at htl
            simp only [Option.some.injEq, Prod.mk.injEq] at htl
            rw [← htl.1] at hm; cases hm

structure SClean (g : GCtx) (fs : Nat) : Prop where
  stmt : ∀ ts t sp r, Grammar.stmt g fs ts = some (t, sp, r) → t.errors = []
  stmts : ∀ ts ss r, Grammar.stmts g fs ts = some (ss, r) → ss.errors = []

theorem stmt_clean {g : GCtx} {fs : Nat} (ih : SClean g fs) :
    ∀ ts t sp r, Grammar.stmt g (fs + 1) ts = some (t, sp, r) → t.errors = [] := by
  intro ts t sp r h
  cases ts with
  | nil => simp [Grammar.stmt] at h
  | cons t0 r0 =>
    obtain ⟨i, ty⟩ := t0
    by_cases h1 : ty = .Semic
    · subst h1
      simp only [Grammar.stmt, Option.some.injEq, Prod.mk.injEq] at h
      obtain ⟨rfl, _, _⟩ := h
      simp [Stmt.errors, mkInfo]
    · by_cases h2 : ty = .If
      · subst h2
        obtain ⟨ilp, tylp, r1, c, spc, irp, tyrp, r3, th, st, r4, _, _, hc, _, hth, helse⟩ := stmt_if_flat _ _ _ _ _ _ _ h
        have c1 := refAbs_errs Expr.errors c (expr_errs _ _ _ _ _ _ hc)
        have c2 := ih.stmt _ _ _ _ hth
        rcases helse with ⟨ie, r5, e, se, _, he, rfl, _⟩ | ⟨_, _, rfl, _⟩
        · simp [Stmt.errors, OptStmt.errors, optRefErrors, mkInfo, c1, c2, ih.stmt _ _ _ _ he]
        · simp [Stmt.errors, OptStmt.errors, optRefErrors, mkInfo, c1, c2]
      · by_cases h3 : ty = .While
        · subst h3
          obtain ⟨ilp, tylp, r1, c, spc, irp, tyrp, r3, b, sb, _, _, hc, _, hb, rfl, _⟩ := stmt_while_flat _ _ _ _ _ _ _ h
          have c1 := refAbs_errs Expr.errors c (expr_errs _ _ _ _ _ _ hc)
          simp [Stmt.errors, OptStmt.errors, optRefErrors, mkInfo, c1, ih.stmt _ _ _ _ hb]
        · by_cases h4 : ty = .LCurly
          · subst h4
            obtain ⟨ss, j, tyj, hss, _, rfl, _⟩ := stmt_block_flat _ _ _ _ _ _ _ h
            simp [Stmt.errors, mkInfo, ih.stmts _ _ _ hss]
          · by_cases h5 : ∃ n, ty = .Ident n
            · obtain ⟨nm, rfl⟩ := h5
              by_cases hc : ∃ k r', r0 = ⟨k, .LParen⟩ :: r'
              · obtain ⟨k, r', rfl⟩ := hc
                obtain ⟨as, irp, tyrp, j, tyj, hargs, _, _, rfl, _⟩ := stmt_call_flat _ _ _ _ _ _ _ _ _ h
                have hall : ∀ e ∈ as, refErrors Expr.errors e = [] := by
                  rcases hargs with ⟨_, _, _, rfl, _⟩ | ⟨_, hl⟩
                  · intro e he; cases he
                  · exact exprList_errs _ _ _ _ _ hl
                simp [Stmt.errors, CallStmt.errors, mkIdent, mkInfo, flatMap_nil_of _ _ hall]
              · obtain ⟨v, sv, ias, tyas, r1, e, se, j, tyj, hv, _, he, _, rfl, _⟩ :=
                  stmt_assign_flat _ _ _ _ _ _ _ _ (fun k r' e => hc ⟨k, r', e⟩) h
                have c1 := refAbs_errs Expr.errors e (expr_errs _ _ _ _ _ _ he)
                simp [Stmt.errors, Assignment.errors, optRefErrors, mkInfo, varAccess_errs _ _ _ _ _ _ hv, c1]
            · rw [stmt_other _ _ _ _ _ h1 h2 h3 h4 (fun n e => h5 ⟨n, e⟩)] at h
              cases h

theorem stmts_clean {g : GCtx} {fs : Nat} (ih : SClean g fs) :
    ∀ ts ss r, Grammar.stmts g (fs + 1) ts = some (ss, r) → ss.errors = [] := by
  intro ts ss r h
  by_cases hr : ∃ i r0, ts = ⟨i, .RCurly⟩ :: r0
  · obtain ⟨i, r0, rfl⟩ := hr
    rw [stmts_rcurly] at h
    simp only [Option.some.injEq, Prod.mk.injEq] at h
    obtain ⟨rfl, _⟩ := h
    rfl
  · rw [stmts_other _ _ _ (fun i r0 e => hr ⟨i, r0, e⟩)] at h
    split at h
    · cases h
    · rename_i t sp r0 h1
      split at h
      · rename_i ss' r1 h2
        simp only [Option.some.injEq, Prod.mk.injEq] at h
        obtain ⟨rfl, _⟩ := h
        simp [StmtList.errors, ih.stmt _ _ _ _ h1, ih.stmts _ _ _ h2]
      · cases h

theorem sclean_all (g : GCtx) : ∀ fs, SClean g fs
  | 0 => ⟨by intro ts t sp r h; simp [Grammar.stmt] at h, by intro ts ss r h; simp [Grammar.stmts] at h⟩
  | fs + 1 => ⟨stmt_clean (sclean_all g fs), stmts_clean (sclean_all g fs)⟩

theorem stmtList_toList_errs : ∀ ss : StmtList, ss.errors = [] → ∀ r ∈ ss.toList, refErrors Stmt.errors r = []
  | .nil, _, r, hr => by cases hr
  | .cons t o rest, h, r, hr => by
    simp only [StmtList.errors, List.append_eq_nil_iff, shiftErrs_eq_nil] at h
    simp only [StmtList.toList] at hr
    rcases List.mem_cons.mp hr with rfl | hm
    · simp [refErrors, h.1]
    · exact stmtList_toList_errs rest h.2 r hm

theorem params_errs (g : GCtx) : ∀ (fp : Nat) (ts r : Toks) (ps : List (Ref ParamDecl)),
    params g fp ts = some (ps, r) → ∀ p ∈ ps, refErrors ParamDecl.errors p = []
  | 0, ts, r, ps, h => by simp [Grammar.params] at h
  | fp + 1, ts, r, ps, h => by
    rw [params_succ] at h
    split at h
    · cases h
    · rename_i p r0 hp
      simp only [Option.map_eq_some_iff] at h
      obtain ⟨⟨ps', r2⟩, htl, hpair⟩ := h
      simp only [Prod.mk.injEq] at hpair
      obtain ⟨rfl, rfl⟩ := hpair
      intro x hx
      rcases List.mem_cons.mp hx with rfl | hm
      · apply refAbs_errs
        rcases param_flat _ _ _ _ hp with ⟨f, i, nm, icol, tycol, r1, t, st, _, _, ht, rfl⟩ | ⟨i, nm, icol, tycol, r1, t, st, _, _, ht, rfl⟩
        · simp [ParamDecl.errors, optIdErrors, optRefErrors, mkIdent, mkInfo, refAbs_errs _ _ (typeExpr_errs _ _ _ _ _ _ ht)]
        · simp [ParamDecl.errors, optIdErrors, optRefErrors, mkInfo, refAbs_errs _ _ (typeExpr_errs _ _ _ _ _ _ ht)]
      · cases r0 with
        | nil => simp only [paramsTail, Option.some.injEq, Prod.mk.injEq] at htl; rw [← htl.1] at hm; cases hm
        | cons t r1 =>
          obtain ⟨ic, ty⟩ := t
          by_cases hc : ty = .Comma
          · subst hc
            exact params_errs g fp r1 _ ps' htl x hm
          · rw [paramsTail_other _ _ _ _ _ hc] at htl
            simp only [Option.some.injEq, Prod.mk.injEq] at htl
            rw [← htl.1] at hm; cases hm

theorem varDecls_errs (g : GCtx) : ∀ (fv : Nat) (ts r : Toks) (vs : List (Ref VarDecl)),
    varDecls g fv ts = some (vs, r) → ∀ v ∈ vs, refErrors VarDecl.errors v = []
  | 0, ts, r, vs, h => by simp [Grammar.varDecls] at h
  | fv + 1, ts, r, vs, h => by
    by_cases hv : ∃ i r0, ts = ⟨i, .Var⟩ :: r0
    · obtain ⟨i, r0, rfl⟩ := hv
      obtain ⟨j, nm, icol, tycol, r2, t, st, k, tyk, r4, vs', _, _, ht, _, hrec, rfl⟩ := varDecls_var_flat _ _ _ _ _ _ h
      intro x hx
      rcases List.mem_cons.mp hx with rfl | hm
      · apply refAbs_errs
        simp [VarDecl.errors, optIdErrors, optRefErrors, mkIdent, mkInfo, refAbs_errs _ _ (typeExpr_errs _ _ _ _ _ _ ht)]
      · exact varDecls_errs g fv r4 _ vs' hrec x hm
    · rw [varDecls_other _ _ _ (fun i r0 e => hv ⟨i, r0, e⟩)] at h
      simp only [Option.some.injEq, Prod.mk.injEq] at h
      intro x hx
      rw [← h.1] at hx; cases hx

theorem decls_errs (g : GCtx) : ∀ (fd : Nat) (ts : Toks) (ds : List (Ref GlobalDecl)) (last : Option Nat),
    decls g fd ts = some (ds, last) → ∀ d ∈ ds, refErrors GlobalDecl.errors d = []
  | 0, ts, ds, last, h => by simp [Grammar.decls] at h
  | fd + 1, ts, ds, last, h => by
    rcases decls_other _ _ _ _ _ h with ⟨i, rfl, rfl, rfl⟩ | ⟨i, r, rfl⟩ | ⟨i, r, rfl⟩
    · intro d hd; cases hd
    · obtain ⟨td, k, r4, ds', last', hsp, hrec, rfl, rfl⟩ := decls_type_flat _ _ _ _ _ _ h
      intro x hx
      rcases List.mem_cons.mp hx with rfl | hm
      · apply refAbs_errs
        obtain ⟨j, nm, ieq, tyeq, r2, t, st, tyk, _, _, ht, _, rfl⟩ := hsp.ex
        simp [GlobalDecl.errors, TypeDecl.errors, optIdErrors, optRefErrors, mkIdent, mkInfo,
          refAbs_errs _ _ (typeExpr_errs _ _ _ _ _ _ ht)]
      · exact decls_errs g fd r4 ds' last' hrec x hm
    · obtain ⟨j, nm, ilp, tylp, r2, ps, irp, tyrp, ilc, tylc, r5, vs, r6, ss, k, tyk, r8, ds', last',
        _, _, hps, _, _, hvs, hss, _, hrec, rfl, rfl⟩ := decls_proc_flat _ _ _ _ _ _ h
      intro x hx
      rcases List.mem_cons.mp hx with rfl | hm
      · apply refAbs_errs
        have hp : ∀ p ∈ ps, refErrors ParamDecl.errors p = [] := by
          rcases hps with ⟨_, _, _, rfl, _⟩ | ⟨_, hl⟩
          · intro p hp; cases hp
          · exact params_errs _ _ _ _ _ hl
        have hv := varDecls_errs _ _ _ _ _ hvs
        have hs := stmtList_toList_errs ss ((sclean_all g _).stmts _ _ _ hss)
        simp [GlobalDecl.errors, ProcDecl.errors, optIdErrors, mkIdent, mkInfo, flatMap_nil_of _ _ hp,
          flatMap_nil_of _ _ hv, flatMap_nil_of _ _ hs]
      · exact decls_errs g fd r8 ds' last' hrec x hm

/-! ### declarations in the implementation's convention -/

theorem relParam_errs (b : Nat) (r : Ref ParamDecl) (h : refErrors ParamDecl.errors r = []) :
    refErrors ParamDecl.errors (relParam b r) = [] := by
  obtain ⟨v, o⟩ := r
  simp only [refErrors, shiftErrs_eq_nil] at h ⊢
  cases v with
  | error i => simpa [relParam, ParamDecl.errors, relInfo] using h
  | valid d rf n t i =>
    simp only [ParamDecl.errors, List.append_eq_nil_iff] at h
    simp only [relParam, ParamDecl.errors, List.append_eq_nil_iff, relInfo]
    refine ⟨⟨h.1.1, ?_⟩, ?_⟩
    · cases n <;> simp_all [optIdErrors, relIdent, relInfo]
    · cases t with
      | none => simp [optRefErrors]
      | some rt =>
        have := h.2
        simp only [optRefErrors] at this
        simpa [optRefErrors] using relRefType_errs _ rt this

theorem relVarDecl_errs (b : Nat) (r : Ref VarDecl) (h : refErrors VarDecl.errors r = []) :
    refErrors VarDecl.errors (relVarDecl b r) = [] := by
  obtain ⟨v, o⟩ := r
  simp only [refErrors, shiftErrs_eq_nil] at h ⊢
  cases v with
  | error i => simpa [relVarDecl, VarDecl.errors, relInfo] using h
  | valid d n t i =>
    simp only [VarDecl.errors, List.append_eq_nil_iff] at h
    simp only [relVarDecl, VarDecl.errors, List.append_eq_nil_iff, relInfo]
    refine ⟨⟨h.1.1, ?_⟩, ?_⟩
    · cases n <;> simp_all [optIdErrors, relIdent, relInfo]
    · cases t with
      | none => simp [optRefErrors]
      | some rt =>
        have := h.2
        simp only [optRefErrors] at this
        simpa [optRefErrors] using relRefType_errs _ rt this

theorem relRefStmt_errs (b : Nat) (r : Ref Stmt) (h : refErrors Stmt.errors r = []) :
    refErrors Stmt.errors (relRefStmt b r) = [] := by
  simp only [refErrors, shiftErrs_eq_nil] at h ⊢
  exact relStmt_errs _ _ h

theorem relDecl_errs (r : Ref GlobalDecl) (h : refErrors GlobalDecl.errors r = []) :
    refErrors GlobalDecl.errors (relDecl r) = [] := by
  obtain ⟨v, o⟩ := r
  simp only [refErrors, shiftErrs_eq_nil] at h ⊢
  cases v with
  | error i => simpa [relDecl, GlobalDecl.errors, relInfo] using h
  | type t =>
    simp only [GlobalDecl.errors, TypeDecl.errors, List.append_eq_nil_iff] at h
    simp only [relDecl, GlobalDecl.errors, TypeDecl.errors, List.append_eq_nil_iff, relInfo]
    refine ⟨⟨h.1.1, ?_⟩, ?_⟩
    · cases hn : t.name <;> simp_all [optIdErrors, relIdent, relInfo]
    · cases ht : t.typeExpr with
      | none => simp [optRefErrors]
      | some rt =>
        have := h.2
        rw [ht] at this
        simp only [optRefErrors] at this
        simpa [optRefErrors] using relRefType_errs _ rt this
  | proc p =>
    simp only [GlobalDecl.errors, ProcDecl.errors, List.append_eq_nil_iff, flatMap_nil_iff] at h
    simp only [relDecl, GlobalDecl.errors, ProcDecl.errors, List.append_eq_nil_iff, flatMap_nil_iff, relInfo]
    obtain ⟨⟨⟨⟨h1, h2⟩, h3⟩, h4⟩, h5⟩ := h
    refine ⟨⟨⟨⟨h1, ?_⟩, ?_⟩, ?_⟩, ?_⟩
    · cases hn : p.name <;> simp_all [optIdErrors, relIdent, relInfo]
    · intro x hx
      obtain ⟨x0, hx0, rfl⟩ := List.mem_map.mp hx
      exact relParam_errs _ x0 (h3 x0 hx0)
    · intro x hx
      obtain ⟨x0, hx0, rfl⟩ := List.mem_map.mp hx
      exact relVarDecl_errs _ x0 (h4 x0 hx0)
    · intro x hx
      obtain ⟨x0, hx0, rfl⟩ := List.mem_map.mp hx
      exact relRefStmt_errs _ x0 (h5 x0 hx0)

/-- **A derivation of the specification carries no diagnostic.** -/
theorem parse_errors_nil (toks : List Token) (p : Program) (h : Grammar.parse toks = some p) : p.errors = [] := by
  simp only [Grammar.parse, Option.map_eq_some_iff] at h
  obtain ⟨pa, hpa, rfl⟩ := h
  simp only [parseAbs] at hpa
  split at hpa
  · cases hpa
  · split at hpa
    · cases hpa
    · rename_i ds last hd
      simp only [Option.some.injEq] at hpa
      subst hpa
      have := decls_errs _ _ _ _ _ hd
      simp only [Program.errors, relativize, List.nil_append, flatMap_nil_iff]
      intro x hx
      obtain ⟨x0, hx0, rfl⟩ := List.mem_map.mp hx
      exact relDecl_errs x0 (this x0 hx0)

end Spl.ParseConform
