/-
  Soundness of the implementation's static analysis on valid programs (C03): on every program the
  independent typing specification (`Spec/Typing.lean`) accepts, `table::build` and
  `table::analyze` of the model return the tree unchanged — no diagnostic is attached anywhere.

  Organisation: `conv` maps specification types to `DataType`; `ScopeRel` relates the scope of the
  specification to the lookup tables; expressions/variables/statements by mutual structural
  induction (`expr_sound`, `var_sound`, `stmt_sound`); the global environment and the global table
  correspond entry by entry (`Corr`, same insertion order), starting from the predefined entities
  (`corr_initial`, evaluated on the table generated from `initialization.rs`), preserved by every
  declaration (`decls_sound`).
-/
import SplVerif.Model.Table
import SplVerif.Spec.Typing

namespace Spl.TypingSound
open Spl Spl.Typing

/-- the implementation's representation of a type of the specification -/
def conv : Ty → DataType
  | .int => .int
  | .bool => .bool
  | .arr n e c => .array (some n) (conv e) c

theorem conv_inj : ∀ a b : Ty, conv a = conv b → a = b
  | .int, .int, _ => rfl
  | .bool, .bool, _ => rfl
  | .arr n e c, .arr n' e' c', h => by
    simp only [conv, DataType.array.injEq, Option.some.injEq] at h
    obtain ⟨h1, h2, h3⟩ := h
    rw [h1, conv_inj e e' h2, h3]
  | .int, .bool, h => by simp [conv] at h
  | .int, .arr .., h => by simp [conv] at h
  | .bool, .int, h => by simp [conv] at h
  | .bool, .arr .., h => by simp [conv] at h
  | .arr .., .int, h => by simp [conv] at h
  | .arr .., .bool, h => by simp [conv] at h

theorem conv_toOption (t : Ty) : (conv t).toOption = some (conv t) := by
  cases t <;> rfl

/-- parameters of a signature and of a procedure entry agree -/
def ParamsRel : List VarInfo → List VariableEntry → Prop
  | [], [] => True
  | p :: ps, e :: es => e.isRef = p.isRef ∧ e.dataType = some (conv p.ty) ∧ ParamsRel ps es
  | _, _ => False

theorem ParamsRel.length : ∀ {ps : List VarInfo} {es : List VariableEntry}, ParamsRel ps es → ps.length = es.length
  | [], [], _ => rfl
  | _ :: ps, _ :: es, h => by simp [ParamsRel.length h.2.2]
  | [], _ :: _, h => by simp [ParamsRel] at h
  | _ :: _, [], h => by simp [ParamsRel] at h

/-- the scope of the specification and the lookup tables of the implementation agree -/
structure ScopeRel (sc : Typing.Scope) (m : Spl.Scope) : Prop where
  vars : ∀ k v, sc.var k = some v →
    ∃ e, m.localTable.bind (fun t => tblLookup t k) = some e ∧ e.entry.dataType = some (conv v.ty)
  novar : ∀ k, sc.var k = none → m.localTable.bind (fun t => tblLookup t k) = none
  procs : ∀ k sig, sc.g.find k = some (.proc sig) →
    ∃ pe, tblLookup m.globalTable k = some (.procedure pe) ∧ ParamsRel sig.params pe.parameters

theorem lookup_var {sc m} (hs : ScopeRel sc m) (k : List Char) (v : VarInfo) (h : sc.var k = some v) :
    ∃ ve, (m.lookup k = some (.variable ve) ∨ m.lookup k = some (.parameter ve)) ∧ ve.dataType = some (conv v.ty) := by
  obtain ⟨e, h1, h2⟩ := hs.vars k v h
  match e, h1, h2 with
  | .variable ve, h1, h2 => exact ⟨ve, Or.inl (by simp [Spl.Scope.lookup, lookupBoth, h1]), h2⟩
  | .parameter ve, h1, h2 => exact ⟨ve, Or.inr (by simp [Spl.Scope.lookup, lookupBoth, h1]), h2⟩

mutual
  theorem var_sound {sc m} (hs : ScopeRel sc m) : ∀ (v : Var) (t : Ty), varType sc v = some t →
      analyzeVar m v = .ok (v, some (conv t))
    | .named id, t, h => by
      simp only [varType, Option.map_eq_some_iff] at h
      obtain ⟨vi, h1, h2⟩ := h
      obtain ⟨ve, hl, hd⟩ := lookup_var hs id.value vi h1
      subst h2
      rcases hl with hl | hl <;> simp [analyzeVar, hl, hd]
    | .access arr (.some idx off) info, t, h => by
      simp only [varType] at h
      cases ha : varType sc arr with
      | none => simp [ha] at h
      | some ta =>
        cases hi : exprType sc idx with
        | none => simp [ha, hi] at h
        | some ti =>
          cases ta with
          | int => simp [ha, hi] at h
          | bool => simp [ha, hi] at h
          | arr n e c =>
            cases ti with
            | bool => simp [ha, hi] at h
            | arr _ _ _ => simp [ha, hi] at h
            | int =>
              simp only [ha, hi, Option.some.injEq] at h
              subst h
              have h1 := var_sound hs arr _ ha
              have h2 := expr_sound hs idx _ hi
              simp [analyzeVar, analyzeIndex, h1, h2, conv, conv_toOption]
    | .access arr .none info, t, h => by simp [varType] at h

  theorem expr_sound {sc m} (hs : ScopeRel sc m) : ∀ (e : Expr) (t : Ty), exprType sc e = some t →
      analyzeExpr m e = .ok (e, some (conv t))
    | .intLit l, t, h => by
      simp only [exprType] at h
      split at h
      · cases h; simp [analyzeExpr, conv]
      · simp at h
    | .var v, t, h => by
      simp only [exprType] at h
      have := var_sound hs v t h
      simp [analyzeExpr, this, Except.map]
    | .bracketed e i, t, h => by
      simp only [exprType] at h
      have := expr_sound hs e t h
      simp [analyzeExpr, this, Except.map]
    | .unary op e i, t, h => by
      simp only [exprType] at h
      cases he : exprType sc e with
      | none => simp [he] at h
      | some te =>
        cases te with
        | int =>
          simp only [he, Option.some.injEq] at h
          subst h
          have := expr_sound hs e _ he
          simp [analyzeExpr, this, conv]
        | bool => simp [he] at h
        | arr _ _ _ => simp [he] at h
    | .binary op l r i, t, h => by
      simp only [exprType] at h
      cases hl : exprType sc l with
      | none => simp [hl] at h
      | some tl =>
        cases hr : exprType sc r with
        | none => simp [hl, hr] at h
        | some tr =>
          cases tl with
          | bool => simp [hl, hr] at h
          | arr _ _ _ => simp [hl, hr] at h
          | int =>
            cases tr with
            | bool => simp [hl, hr] at h
            | arr _ _ _ => simp [hl, hr] at h
            | int =>
              simp only [hl, hr, Option.some.injEq] at h
              subst h
              have h1 := expr_sound hs l _ hl
              have h2 := expr_sound hs r _ hr
              cases ho : op.isArithmetic <;> simp [analyzeExpr, h1, h2, conv, ho]
    | .error i, t, h => by simp [exprType] at h
end


theorem ref_eta {α} (r : Ref α) : (⟨r.val, r.offset⟩ : Ref α) = r := by cases r; rfl

theorem args_sound {sc m} (hs : ScopeRel sc m) (name : List Char) :
    ∀ (args : List (Ref Expr)) (ps : List VarInfo) (es : List VariableEntry) (i : Nat),
      argsOk sc args ps = true → ParamsRel ps es → analyzeArgs m name args es i = .ok args
  | [], [], [], _, _, _ => by simp [analyzeArgs]
  | [], [], _ :: _, _, _, hr => by simp [ParamsRel] at hr
  | [], _ :: _, _, _, h, _ => by simp [argsOk] at h
  | _ :: _, [], _, _, h, _ => by simp [argsOk] at h
  | _ :: _, _ :: _, [], _, _, hr => by simp [ParamsRel] at hr
  | a :: as, p :: ps, e :: es, i, h, hr => by
    simp only [argsOk, Bool.and_eq_true] at h
    obtain ⟨⟨h1, h2⟩, h3⟩ := h
    obtain ⟨r1, r2, r3⟩ := hr
    cases ht : exprType sc a.val with
    | none => simp [ht] at h1
    | some t =>
      simp only [ht, beq_iff_eq] at h1
      subst h1
      have he := expr_sound hs a.val _ ht
      have ih := args_sound hs name as ps es (i + 1) h3 r3
      obtain ⟨av, ao⟩ := a
      simp only at h2 ht he
      rw [← r1] at h2
      cases av <;>
        simp_all [analyzeArgs, refArgExpr]

theorem argsOk_length {sc} : ∀ (args : List (Ref Expr)) (ps : List VarInfo), argsOk sc args ps = true →
    args.length = ps.length
  | [], [], _ => rfl
  | [], _ :: _, h => by simp [argsOk] at h
  | _ :: _, [], h => by simp [argsOk] at h
  | _ :: as, _ :: ps, h => by
    simp only [argsOk, Bool.and_eq_true] at h
    simp [argsOk_length as ps h.2]

theorem cond_sound {sc m} (hs : ScopeRel sc m) (c : Ref Expr) (msg : Msg)
    (h : (exprType sc c.val == some .bool) = true) : analyzeCondition m (some c) msg = .ok (some c) := by
  simp only [beq_iff_eq] at h
  have := expr_sound hs c.val _ h
  simp [analyzeCondition, this, conv, ref_eta]

mutual
  theorem stmt_sound {sc m} (hs : ScopeRel sc m) : ∀ (s : Stmt), stmtOk sc s = true → analyzeStmt m s = .ok s
    | .empty i, _ => by simp [analyzeStmt]
    | .error i, h => by simp [stmtOk] at h
    | .assign a, h => by
      simp only [stmtOk] at h
      cases he : a.expr with
      | none => simp [he] at h
      | some e =>
        simp only [he, Bool.and_eq_true, beq_iff_eq] at h
        have h1 := var_sound hs a.target _ h.1
        have h2 := expr_sound hs e.val _ h.2
        obtain ⟨tg, ex, inf⟩ := a
        simp only at he h1 h2
        subst he
        simp [analyzeStmt, analyzeAssignment, h1, analyzeRefExpr, h2, conv, Except.map, ref_eta]
    | .call c, h => by
      simp only [stmtOk, Bool.and_eq_true, Option.isNone_iff_eq_none] at h
      obtain ⟨h1, h2⟩ := h
      cases hg : sc.g.find c.name.value with
      | none => simp [hg] at h2
      | some ent =>
        cases ent with
        | type _ _ => simp [hg] at h2
        | proc sig =>
          simp only [hg] at h2
          obtain ⟨pe, hp, hr⟩ := hs.procs _ _ hg
          have hl : m.lookup c.name.value = some (.procedure pe) := by
            simp [Spl.Scope.lookup, lookupBoth, hs.novar _ h1, hp]
          have ha := args_sound hs c.name.value c.args sig.params pe.parameters 0 h2 hr
          have hlen : c.args.length = pe.parameters.length := by
            rw [argsOk_length _ _ h2, hr.length]
          obtain ⟨nm, args, inf⟩ := c
          simp only at hl ha hlen
          simp [analyzeStmt, analyzeCall, hl, ha, hlen, Except.map]
    | .ifS (some c) (.some t o) e i, h => by
      simp only [stmtOk, Bool.and_eq_true] at h
      obtain ⟨⟨h1, h2⟩, h3⟩ := h
      have c1 := cond_sound hs c .IfConditionMustBeBoolean h1
      have c2 := stmt_sound hs t h2
      have c3 := optStmt_sound hs e h3
      simp [analyzeStmt, c1, analyzeOptStmt, c2, c3, Except.map]
    | .ifS none _ _ _, h => by simp [stmtOk] at h
    | .ifS (some _) .none _ _, h => by simp [stmtOk] at h
    | .whileS (some c) (.some b o) i, h => by
      simp only [stmtOk, Bool.and_eq_true] at h
      have c1 := cond_sound hs c .WhileConditionMustBeBoolean h.1
      have c2 := stmt_sound hs b h.2
      simp [analyzeStmt, c1, analyzeOptStmt, c2, Except.map]
    | .whileS none _ _, h => by simp [stmtOk] at h
    | .whileS (some _) .none _, h => by simp [stmtOk] at h
    | .block ss i, h => by
      simp only [stmtOk] at h
      have := stmts_sound hs ss h
      simp [analyzeStmt, this, Except.map]
  theorem optStmt_sound {sc m} (hs : ScopeRel sc m) : ∀ (s : OptStmt), optStmtOk sc s = true → analyzeOptStmt m s = .ok s
    | .none, _ => by simp [analyzeOptStmt]
    | .some s o, h => by
      simp only [optStmtOk] at h
      have := stmt_sound hs s h
      simp [analyzeOptStmt, this, Except.map]
  theorem stmts_sound {sc m} (hs : ScopeRel sc m) : ∀ (s : StmtList), stmtsOk sc s = true → analyzeStmtList m s = .ok s
    | .nil, _ => by simp [analyzeStmtList]
    | .cons s o r, h => by
      simp only [stmtsOk, Bool.and_eq_true] at h
      have h1 := stmt_sound hs s h.1
      have h2 := stmts_sound hs r h.2
      simp [analyzeStmtList, h1, h2, Except.map]
end

/-! ### tables, list-wise -/

def LocalRel : List VarInfo → LocalTable → Prop
  | [], [] => True
  | v :: vs, (k, e) :: es => k = v.name ∧ e.entry.dataType = some (conv v.ty) ∧ LocalRel vs es
  | _, _ => False

def EntRel : GEntry → (List Char × GlobalEntry) → Prop
  | .type n t, (k, .type te) => k = n ∧ te.dataType = some (conv t)
  | .proc sig, (k, .procedure pe) =>
    k = sig.name ∧ ParamsRel sig.params pe.parameters ∧
      ((predefined.find k).isSome = true ∨ LocalRel (sig.params ++ sig.locals) pe.localTable)
  | _, _ => False

def Corr : GEnv → GlobalTable → Prop
  | [], [] => True
  | e :: g, kv :: t => EntRel e kv ∧ Corr g t
  | _, _ => False

theorem EntRel.key {e : GEntry} {kv : List Char × GlobalEntry} (h : EntRel e kv) : kv.1 = e.name := by
  obtain ⟨k, v⟩ := kv
  cases e <;> cases v <;> simp_all [EntRel, GEntry.name]

theorem localRel_append : ∀ {vs : List VarInfo} {l : LocalTable} {v : VarInfo} {k : List Char} {e : LocalEntry},
    LocalRel vs l → k = v.name → e.entry.dataType = some (conv v.ty) → LocalRel (vs ++ [v]) (l ++ [(k, e)])
  | [], [], _, _, _, _, h1, h2 => by simp [LocalRel, h1, h2]
  | _ :: vs, (_, _) :: l, _, _, _, h, h1, h2 => by
    simp only [List.cons_append, LocalRel]
    exact ⟨h.1, h.2.1, localRel_append h.2.2 h1 h2⟩
  | [], _ :: _, _, _, _, h, _, _ => by simp [LocalRel] at h
  | _ :: _, [], _, _, _, h, _, _ => by simp [LocalRel] at h

theorem corr_append : ∀ {g : GEnv} {t : GlobalTable} {e : GEntry} {kv : List Char × GlobalEntry},
    Corr g t → EntRel e kv → Corr (g ++ [e]) (t ++ [kv])
  | [], [], _, _, _, h => by simp [Corr, h]
  | _ :: g, _ :: t, _, _, hc, h => by
    simp only [List.cons_append, Corr]
    exact ⟨hc.1, corr_append hc.2 h⟩
  | [], _ :: _, _, _, hc, _ => by simp [Corr] at hc
  | _ :: _, [], _, _, hc, _ => by simp [Corr] at hc

/-- lookups agree -/
theorem local_find : ∀ {vs : List VarInfo} {l : LocalTable}, LocalRel vs l → ∀ k,
    (vs.find? (fun v => v.name == k) = none ∧ tblLookup l k = none ∧ vs.any (fun v => v.name == k) = false ∧
      l.any (fun e => e.1 == k) = false) ∨
    (∃ v e, vs.find? (fun v => v.name == k) = some v ∧ tblLookup l k = some e ∧
      e.entry.dataType = some (conv v.ty) ∧ vs.any (fun v => v.name == k) = true ∧ l.any (fun e => e.1 == k) = true)
  | [], [], _, k => by simp [tblLookup]
  | v :: vs, (k', e) :: l, h, k => by
    obtain ⟨h1, h2, h3⟩ := h
    subst h1
    by_cases hk : v.name = k
    · right
      exact ⟨v, e, by simp [hk], by simp [tblLookup, hk], h2, by simp [hk], by simp [hk]⟩
    · have hb : (v.name == k) = false := by simp [hk]
      rcases local_find h3 k with ⟨a, b, c, d⟩ | ⟨v', e', a, b, c, d, d'⟩
      · left
        refine ⟨by simp [List.find?, hb, a], ?_, by simp [hb, c], by simp [hb, d]⟩
        simp only [tblLookup, List.find?, hb] at b ⊢
        exact b
      · right
        refine ⟨v', e', by simp [List.find?, hb, a], ?_, c, by simp [d], by simp [d']⟩
        simp only [tblLookup, List.find?, hb] at b ⊢
        exact b
  | [], _ :: _, h, _ => by simp [LocalRel] at h
  | _ :: _, [], h, _ => by simp [LocalRel] at h

theorem corr_find : ∀ {g : GEnv} {t : GlobalTable}, Corr g t → ∀ k,
    (g.find k = none ∧ tblLookup t k = none ∧ t.any (fun e => e.1 == k) = false) ∨
    (∃ e v, g.find k = some e ∧ tblLookup t k = some v ∧ EntRel e (k, v))
  | [], [], _, k => by simp [GEnv.find, tblLookup]
  | e :: g, (k', v) :: t, h, k => by
    obtain ⟨h1, h2⟩ := h
    have hkey : k' = e.name := h1.key
    subst hkey
    by_cases hk : e.name = k
    · right
      subst hk
      exact ⟨e, v, by simp [GEnv.find], by simp [tblLookup], h1⟩
    · have hb : (e.name == k) = false := by simp [hk]
      rcases corr_find h2 k with ⟨a, b, c⟩ | ⟨e', v', a, b, c⟩
      · left
        refine ⟨?_, ?_, by simp [hb, c]⟩
        · simp only [GEnv.find, List.find?, hb] at a ⊢; exact a
        · simp only [tblLookup, List.find?, hb] at b ⊢; exact b
      · right
        refine ⟨e', v', ?_, ?_, c⟩
        · simp only [GEnv.find, List.find?, hb] at a ⊢; exact a
        · simp only [tblLookup, List.find?, hb] at b ⊢; exact b
  | [], _ :: _, h, _ => by simp [Corr] at h
  | _ :: _, [], h, _ => by simp [Corr] at h

theorem enter_fresh {α} (t : List (List Char × α)) (k : List Char) (v : α)
    (h : t.any (fun e => e.1 == k) = false) : tblEnter t k v = some (t ++ [(k, v)]) := by
  simp [tblEnter, h]

/-- `get_data_type` on a type expression the specification resolves: the expression comes back
    unflagged, with the representation of the resolved type. -/
theorem resolve_sound {g : GEnv} {t : GlobalTable} (hc : Corr g t) (locals : List VarInfo) (l : Option LocalTable)
    (hl : ∀ k, locals.any (fun v => v.name == k) = false → l.bind (fun lt => tblLookup lt k) = none)
    (creator : List Char) : ∀ (te : TypeExpr) (ty : Ty), resolveType g locals creator te = some ty →
      getDataType l t (some creator) te = .ok (te, some (conv ty))
  | .named id, ty, h => by
    simp only [resolveType] at h
    by_cases hi : (id.value == "int".toList) = true
    · simp only [hi, if_true, Option.some.injEq] at h
      subst h
      have hi' : id.value = ['i', 'n', 't'] := by simpa using hi
      simp [getDataType, hi', conv]
    · simp only [hi, Bool.false_eq_true, if_false] at h
      by_cases ha : locals.any (fun v => v.name == id.value) = true
      · simp [ha] at h
      · simp only [ha, Bool.false_eq_true, if_false] at h
        have hn := hl id.value (by simpa using ha)
        rcases corr_find hc id.value with ⟨a, _, _⟩ | ⟨e, v, a, b, c⟩
        · simp [a] at h
        · rw [a] at h
          cases e with
          | proc sig => simp at h
          | type n t' =>
            simp only [Option.some.injEq] at h
            subst h
            cases v with
            | procedure pe => simp [EntRel] at c
            | type tent =>
              simp only [EntRel] at c
              have hi' : ¬ id.value = ['i', 'n', 't'] := by simpa using hi
              simp [getDataType, hi', lookupBoth, hn, b, c.2]
  | .array (some sz) (.some base off) info, ty, h => by
    simp only [resolveType] at h
    cases hs : sz.value with
    | none => simp [hs] at h
    | some n =>
      cases hb : resolveType g locals creator base with
      | none => simp [hs, hb] at h
      | some tb =>
        simp only [hs, hb, Option.some.injEq] at h
        subst h
        have ih := resolve_sound hc locals l hl creator base tb hb
        simp [getDataType, ih, hs, conv, DataType.ofOption]
  | .array none _ _, ty, h => by simp [resolveType] at h
  | .array (some _) .none _, ty, h => by simp [resolveType] at h

theorem resolve_ref_sound {g : GEnv} {t : GlobalTable} (hc : Corr g t) (locals : List VarInfo) (l : Option LocalTable)
    (hl : ∀ k, locals.any (fun v => v.name == k) = false → l.bind (fun lt => tblLookup lt k) = none)
    (creator : List Char) (te : Ref TypeExpr) (ty : Ty) (h : resolveType g locals creator te.val = some ty) :
    getDataTypeRef l t (some creator) (some te) = .ok (some te, some (conv ty)) := by
  simp [getDataTypeRef, resolve_sound hc locals l hl creator te.val ty h, ref_eta]

theorem conv_isPrimitive (t : Ty) : (conv t).isPrimitive = !t.isArr := by
  cases t <;> rfl

theorem anon_eq (p : List Char) (n : Identifier) : anonymousCreator p n = anonId p n.value := rfl

/-! ### parameters -/

theorem foldl_paramStep_none (g : GEnv) (pn : List Char) (ps : List (Ref ParamDecl)) :
    ps.foldl (paramStep g pn) none = none := by
  induction ps with
  | nil => rfl
  | cons p ps ih => simp [List.foldl, paramStep, ih]

theorem foldl_localStep_none (g : GEnv) (pn : List Char) (prm : List VarInfo) (vs : List (Ref VarDecl)) :
    vs.foldl (localStep g pn prm) none = none := by
  induction vs with
  | nil => rfl
  | cons p ps ih => simp [List.foldl, localStep, ih]

theorem paramsRel_append : ∀ {ps : List VarInfo} {es : List VariableEntry} {p : VarInfo} {e : VariableEntry},
    ParamsRel ps es → e.isRef = p.isRef → e.dataType = some (conv p.ty) → ParamsRel (ps ++ [p]) (es ++ [e])
  | [], [], _, _, _, h1, h2 => by simp [ParamsRel, h1, h2]
  | _ :: ps, _ :: es, _, _, h, h1, h2 => by
    simp only [List.cons_append, ParamsRel]
    exact ⟨h.1, h.2.1, paramsRel_append h.2.2 h1 h2⟩
  | [], _ :: _, _, _, h, _, _ => by simp [ParamsRel] at h
  | _ :: _, [], _, _, h, _, _ => by simp [ParamsRel] at h

theorem params_sound {g : GEnv} {t : GlobalTable} (hc : Corr g t) (pn : List Char) :
    ∀ (ps : List (Ref ParamDecl)) (vs0 vsf : List VarInfo) (l0 : LocalTable) (es0 : List VariableEntry),
      ps.foldl (paramStep g pn) (some vs0) = some vsf → LocalRel vs0 l0 → ParamsRel vs0 es0 →
      ∃ lf ents, buildParams pn t ps l0 = .ok (ps, lf, ents) ∧ LocalRel vsf lf ∧ ParamsRel vsf (es0 ++ ents)
  | [], vs0, vsf, l0, es0, h, hl, hp => by
    simp only [List.foldl, Option.some.injEq] at h
    subst h
    exact ⟨l0, [], by simp [buildParams], hl, by simpa using hp⟩
  | p :: ps, vs0, vsf, l0, es0, h, hl, hp => by
    simp only [List.foldl] at h
    cases hstep : paramStep g pn (some vs0) p with
    | none => rw [hstep, foldl_paramStep_none] at h; simp at h
    | some vs1 =>
      rw [hstep] at h
      obtain ⟨pv, po⟩ := p
      cases pv with
      | error i => simp [paramStep] at hstep
      | valid doc isRef name te info =>
        cases name with
        | none => simp [paramStep] at hstep
        | some nm =>
          cases te with
          | none => simp [paramStep] at hstep
          | some te =>
            simp only [paramStep] at hstep
            cases hr : resolveType g [] (anonId pn nm.value) te.val with
            | none => simp [hr] at hstep
            | some ty =>
              simp only [hr] at hstep
              by_cases hbad : (vs0.any (fun v => v.name == nm.value) || (ty.isArr && !isRef)) = true
              · simp [hbad] at hstep
              · simp only [hbad, Bool.false_eq_true, if_false, Option.some.injEq] at hstep
                subst hstep
                simp only [Bool.or_eq_true, not_or, Bool.not_eq_true] at hbad
                obtain ⟨hfresh, harr⟩ := hbad
                have hres := resolve_ref_sound hc [] none (by intro k _; rfl) (anonId pn nm.value) te ty hr
                have hlf := local_find hl nm.value
                have hany : l0.any (fun e => e.1 == nm.value) = false := by
                  rcases hlf with ⟨_, _, _, d⟩ | ⟨_, _, _, _, _, d, _⟩
                  · exact d
                  · rw [hfresh] at d; simp at d
                let entry : VariableEntry :=
                  { name := nm, isRef := isRef, dataType := some (conv ty),
                    range := (ParamDecl.valid doc isRef (some nm) (some te) info).info.range.shift po,
                    doc := getDocumentation doc }
                have hprim : (!(conv ty).isPrimitive && !isRef) = false := by
                  rw [conv_isPrimitive]; simpa using harr
                have hl1 : LocalRel (vs0 ++ [⟨nm.value, ty, isRef⟩]) (l0 ++ [(nm.value, .parameter entry)]) :=
                  localRel_append hl rfl rfl
                have hp1 : ParamsRel (vs0 ++ [⟨nm.value, ty, isRef⟩]) (es0 ++ [entry]) :=
                  paramsRel_append hp rfl rfl
                obtain ⟨lf, ents, hb, hlf', hpf⟩ := params_sound hc pn ps _ vsf _ _ h hl1 hp1
                refine ⟨lf, entry :: ents, ?_, hlf', by simpa using hpf⟩
                simp only [entry] at hb
                simp only [buildParams, buildParameter, anon_eq, hres, hprim, Bool.false_eq_true, if_false,
                  enter_fresh _ _ _ hany, hb]
                rfl

/-! ### local variables -/

theorem localRel_any {vs : List VarInfo} {l : LocalTable} (h : LocalRel vs l) (k : List Char)
    (hn : vs.any (fun v => v.name == k) = false) : tblLookup l k = none ∧ l.any (fun e => e.1 == k) = false := by
  rcases local_find h k with ⟨_, b, _, d⟩ | ⟨_, _, _, _, _, c, _⟩
  · exact ⟨b, d⟩
  · rw [hn] at c; simp at c

theorem vars_sound {g : GEnv} {t : GlobalTable} (hc : Corr g t) (pn : List Char) (prm : List VarInfo) :
    ∀ (vds : List (Ref VarDecl)) (vs0 vsf : List VarInfo) (l0 : LocalTable),
      vds.foldl (localStep g pn prm) (some vs0) = some vsf → LocalRel (prm ++ vs0) l0 →
      ∃ lf, buildVars pn t vds l0 = .ok (vds, lf) ∧ LocalRel (prm ++ vsf) lf
  | [], vs0, vsf, l0, h, hl => by
    simp only [List.foldl, Option.some.injEq] at h
    subst h
    exact ⟨l0, by simp [buildVars], hl⟩
  | v :: vds, vs0, vsf, l0, h, hl => by
    simp only [List.foldl] at h
    cases hstep : localStep g pn prm (some vs0) v with
    | none => rw [hstep, foldl_localStep_none] at h; simp at h
    | some vs1 =>
      rw [hstep] at h
      obtain ⟨vv, vo⟩ := v
      cases vv with
      | error i => simp [localStep] at hstep
      | valid doc name te info =>
        cases name with
        | none => simp [localStep] at hstep
        | some nm =>
          cases te with
          | none => simp [localStep] at hstep
          | some te =>
            simp only [localStep] at hstep
            cases hr : resolveType g (prm ++ vs0) (anonId pn nm.value) te.val with
            | none => simp [hr] at hstep
            | some ty =>
              simp only [hr] at hstep
              by_cases hbad : ((prm ++ vs0).any (fun x => x.name == nm.value)) = true
              · simp [hbad] at hstep
              · simp only [hbad, Bool.false_eq_true, if_false, Option.some.injEq] at hstep
                subst hstep
                have hfresh : (prm ++ vs0).any (fun x => x.name == nm.value) = false := by simpa using hbad
                have hres := resolve_ref_sound hc (prm ++ vs0) (some l0)
                  (by intro k hk; exact (localRel_any hl k hk).1) (anonId pn nm.value) te ty hr
                have hany := (localRel_any hl nm.value hfresh).2
                have hl1 : LocalRel (prm ++ (vs0 ++ [⟨nm.value, ty, false⟩]))
                    (l0 ++ [(nm.value, .variable
                      { name := nm, isRef := false, dataType := some (conv ty),
                        range := (VarDecl.valid doc (some nm) (some te) info).info.range.shift vo,
                        doc := getDocumentation doc })]) := by
                  rw [← List.append_assoc]
                  exact localRel_append hl rfl rfl
                obtain ⟨lf, hb, hlf⟩ := vars_sound hc pn prm vds _ vsf _ h hl1
                refine ⟨lf, ?_, hlf⟩
                simp only [buildVars, buildVariable, anon_eq, hres, enter_fresh _ _ _ hany, hb]

/-! ### declarations -/


theorem decls_sound : ∀ (ds : List (Ref GlobalDecl)) (g gf : GEnv) (t : GlobalTable) (off : Nat),
    Corr g t → declare g ds = some gf → ∃ tf, buildDecls ds t off = .ok (ds, tf) ∧ Corr gf tf
  | [], g, gf, t, off, hc, h => by
    simp only [declare, Option.some.injEq] at h
    subst h
    exact ⟨t, by simp [buildDecls], hc⟩
  | d :: ds, g, gf, t, off, hc, h => by
    obtain ⟨dv, dof⟩ := d
    cases dv with
    | error i => simp [declare] at h
    | type td =>
      simp only [declare] at h
      cases hn : td.name with
      | none => simp [hn] at h
      | some n =>
        cases hte : td.typeExpr with
        | none => simp [hn, hte] at h
        | some te =>
          simp only [hn, hte] at h
          by_cases hbad : (n.value == "main".toList || (g.find n.value).isSome) = true
          · simp only [hbad, if_true] at h; cases h
          · simp only [hbad, Bool.false_eq_true, if_false] at h
            simp only [Bool.or_eq_true, not_or, Bool.not_eq_true] at hbad
            obtain ⟨hmain, hfree⟩ := hbad
            cases hr : resolveType g [] n.value te.val with
            | none => simp [hr] at h
            | some ty =>
              simp only [hr] at h
              have hres := resolve_ref_sound hc [] none (by intro k _; rfl) n.value te ty hr
              have hany : t.any (fun e => e.1 == n.value) = false := by
                rcases corr_find hc n.value with ⟨_, _, c⟩ | ⟨e, v, a, _, _⟩
                · exact c
                · simp [a] at hfree
              have hc1 : Corr (g ++ [.type n.value ty])
                  (t ++ [(n.value, .type (TypeEntry.mk n (some (conv ty))
                    (td.info.range.shift (off + dof)) (getDocumentation td.doc)))]) :=
                corr_append hc (by simp [EntRel])
              obtain ⟨tf, hb, hcf⟩ := decls_sound ds _ gf _ off hc1 h
              refine ⟨tf, ?_, hcf⟩
              have hmain' : (n.value == "main".toList) = false := hmain
              simp only [buildDecls, buildTypeDecl, hn, hmain', Bool.false_eq_true, if_false, hte, hres,
                enter_fresh _ _ _ hany, Except.map, hb]
              cases td
              simp only at hte hn
              subst hte
              subst hn
              rfl
    | proc pd =>
      simp only [declare] at h
      cases hn : pd.name with
      | none => simp [hn] at h
      | some n =>
        simp only [hn] at h
        by_cases hbad : (g.find n.value).isSome = true
        · simp only [hbad, if_true] at h; cases h
        · simp only [hbad, Bool.false_eq_true, if_false] at h
          cases hp : pd.params.foldl (paramStep g n.value) (some []) with
          | none => simp [hp] at h
          | some ps =>
            simp only [hp] at h
            cases hv : pd.vars.foldl (localStep g n.value ps) (some []) with
            | none => simp [hv] at h
            | some ls =>
              simp only [hv] at h
              obtain ⟨l1, ents, hbp, hl1, hpr⟩ := params_sound hc n.value pd.params [] ps [] [] hp
                (by simp [LocalRel]) (by simp [ParamsRel])
              obtain ⟨l2, hbv, hl2⟩ := vars_sound hc n.value ps pd.vars [] ls l1 hv (by simpa using hl1)
              have hany : t.any (fun e => e.1 == n.value) = false := by
                rcases corr_find hc n.value with ⟨_, _, c⟩ | ⟨e, v, a, _, _⟩
                · exact c
                · simp [a] at hbad
              have hc1 : Corr (g ++ [.proc ⟨n.value, ps, ls⟩])
                  (t ++ [(n.value, .procedure (ProcedureEntry.mk n l2 ents
                    (pd.info.range.shift (off + dof)) (getDocumentation pd.doc)))]) :=
                corr_append hc (by simpa [EntRel] using ⟨hpr, Or.inr hl2⟩)
              obtain ⟨tf, hb, hcf⟩ := decls_sound ds _ gf _ off hc1 h
              refine ⟨tf, ?_, hcf⟩
              simp only [buildDecls, buildProcDecl, hn, hbp, hbv, enter_fresh _ _ _ hany, Except.map, hb]
              cases pd
              simp only at hn
              subst hn
              rfl


theorem find_append_some (g : GEnv) (e : GEntry) (k : List Char) (h : (g.find k).isSome = true) :
    ((g ++ [e]).find k).isSome = true := by
  simp only [GEnv.find, List.find?_append] at h ⊢
  cases hf : List.find? (fun e => e.name == k) g with
  | none => simp [hf] at h
  | some x => simp

/-- a procedure that `declare` accepts is not named like anything declared before it -/
theorem declare_fresh : ∀ (ds : List (Ref GlobalDecl)) (g gf : GEnv), declare g ds = some gf →
    ∀ d ∈ ds, ∀ pd n, d.val = .proc pd → pd.name = some n → (g.find n.value).isSome = false
  | [], _, _, _, d, hd, _, _, _, _ => by simp at hd
  | d0 :: ds, g, gf, h, d, hd, pd, n, hv, hn => by
    -- what the tail knows, for an extended environment
    have tail : ∀ e, declare (g ++ [e]) ds = some gf → d ∈ ds → (g.find n.value).isSome = false := by
      intro e he hmem
      have := declare_fresh ds (g ++ [e]) gf he d hmem pd n hv hn
      cases hg : (g.find n.value).isSome with
      | false => rfl
      | true => rw [find_append_some g e _ hg] at this; cases this
    obtain ⟨dv, dof⟩ := d0
    cases dv with
    | error i => simp [declare] at h
    | type td =>
      simp only [declare] at h
      rcases List.mem_cons.mp hd with heq | hmem
      · subst heq; simp at hv
      · cases hn' : td.name with
        | none => simp [hn'] at h
        | some tn =>
          cases hte : td.typeExpr with
          | none => simp [hn', hte] at h
          | some te =>
            simp only [hn', hte] at h
            split at h
            · cases h
            · cases hr : resolveType g [] tn.value te.val with
              | none => simp [hr] at h
              | some ty => simp only [hr] at h; exact tail _ h hmem
    | proc pd0 =>
      simp only [declare] at h
      cases hn0 : pd0.name with
      | none => simp [hn0] at h
      | some n0 =>
        simp only [hn0] at h
        by_cases hbad : (g.find n0.value).isSome = true
        · simp only [hbad, if_true] at h; cases h
        · simp only [hbad, Bool.false_eq_true, if_false] at h
          rcases List.mem_cons.mp hd with heq | hmem
          · subst heq
            simp only [GlobalDecl.proc.injEq] at hv
            subst hv
            rw [hn0] at hn
            cases hn
            simpa using hbad
          · cases hp : pd0.params.foldl (paramStep g n0.value) (some []) with
            | none => simp [hp] at h
            | some ps =>
              simp only [hp] at h
              cases hvv : pd0.vars.foldl (localStep g n0.value ps) (some []) with
              | none => simp [hvv] at h
              | some ls => simp only [hvv] at h; exact tail _ h hmem

/-- the predefined entities of the specification are the initial table of the implementation
    (generated from `initialization.rs`) -/
theorem corr_initial : Corr predefined initialTable := by
  simp [predefined, initialTable, Gen.builtinProcs, Corr, EntRel, ParamsRel, LocalRel, intParam, zeroIdent, conv,
    GEnv.find, List.find?, GEntry.name]

theorem scopeRel_of {g : GEnv} {t : GlobalTable} (hc : Corr g t) (sig : ProcSig) (pe : ProcedureEntry)
    (hl : LocalRel (sig.params ++ sig.locals) pe.localTable) :
    ScopeRel ⟨g, sig.params ++ sig.locals⟩ ⟨some pe.localTable, t⟩ := by
  constructor
  · intro k v hv
    simp only [Typing.Scope.var] at hv
    rcases local_find hl k with ⟨a, _, _, _⟩ | ⟨v', e, a, b, c, _, _⟩
    · rw [a] at hv; cases hv
    · rw [a] at hv; cases hv
      exact ⟨e, by simp [b], c⟩
  · intro k hv
    simp only [Typing.Scope.var] at hv
    rcases local_find hl k with ⟨_, b, _, _⟩ | ⟨v', e, a, _, _, _, _⟩
    · simp [b]
    · rw [a] at hv; cases hv
  · intro k sig' hf
    rcases corr_find hc k with ⟨a, _, _⟩ | ⟨e, v, a, b, c⟩
    · simp only at hf; rw [a] at hf; cases hf
    · simp only at hf
      rw [a] at hf; cases hf
      cases v with
      | type te => simp [EntRel] at c
      | procedure pe' => exact ⟨pe', b, c.2.1⟩

theorem refStmts_sound {sc m} (hs : ScopeRel sc m) : ∀ (ss : List (Ref Stmt)),
    ss.all (fun s => stmtOk sc s.val) = true → analyzeRefStmts m ss = .ok ss
  | [], _ => by simp [analyzeRefStmts]
  | s :: ss, h => by
    simp only [List.all_cons, Bool.and_eq_true] at h
    have h1 := stmt_sound hs s.val h.1
    have h2 := refStmts_sound hs ss h.2
    simp [analyzeRefStmts, h1, h2, Except.map, ref_eta]

def declOk (g : GEnv) (d : Ref GlobalDecl) : Bool :=
  match d.val with
  | .proc pd =>
    (match pd.name.bind (fun n => g.find n.value) with
     | some (.proc sig) => pd.stmts.all (fun s => stmtOk ⟨g, sig.params ++ sig.locals⟩ s.val)
     | _ => false)
  | _ => true

theorem analyzeDecls_sound {g : GEnv} {t : GlobalTable} (hc : Corr g t) : ∀ (ds : List (Ref GlobalDecl)),
    ds.all (declOk g) = true →
    (∀ d ∈ ds, ∀ pd n, d.val = .proc pd → pd.name = some n → (predefined.find n.value).isSome = false) →
    analyzeDecls t ds = .ok ds
  | [], _, _ => by simp [analyzeDecls]
  | d :: ds, h, hu => by
    simp only [List.all_cons, Bool.and_eq_true] at h
    have ih := analyzeDecls_sound hc ds h.2 (fun d hd => hu d (List.mem_cons_of_mem _ hd))
    have hu0 := hu d (List.mem_cons_self ..)
    obtain ⟨dv, dof⟩ := d
    have h1 := h.1
    cases dv with
    | type td => simp [analyzeDecls, ih, Except.map]
    | error i => simp [analyzeDecls, ih, Except.map]
    | proc pd =>
      simp only [declOk] at h1
      cases hn : pd.name with
      | none => simp [hn] at h1
      | some n =>
        simp only [hn, Option.bind_some] at h1
        rcases corr_find hc n.value with ⟨a, _, _⟩ | ⟨e, v, a, b, c⟩
        · simp [a] at h1
        · rw [a] at h1
          cases e with
          | type _ _ => simp at h1
          | proc sig =>
            simp only at h1
            cases v with
            | type te => simp [EntRel] at c
            | procedure pe =>
              have hloc : LocalRel (sig.params ++ sig.locals) pe.localTable := by
                rcases c.2.2 with hp | hl
                · rw [hu0 pd n rfl hn] at hp; cases hp
                · exact hl
              have hs := scopeRel_of hc sig pe hloc
              have hr := refStmts_sound hs pd.stmts h1
              simp only [analyzeDecls, hn, b, hr, Except.map, ih]
              cases pd
              simp only at hn
              subst hn
              rfl

/-- **Soundness of the implementation's static analysis for valid programs**: on every program the
    specification accepts, building the symbol table and the semantic analysis leave the tree
    untouched — they attach no diagnostic anywhere. -/
theorem welltyped_identity (p : Program) (h : wellTyped p = true) :
    ∃ table, build p = .ok (p, table) ∧ analyze p table = .ok p := by
  simp only [wellTyped] at h
  cases hd : declare predefined p.decls with
  | none => simp [hd] at h
  | some g =>
    simp only [hd, Bool.and_eq_true] at h
    obtain ⟨hmain, hall⟩ := h
    obtain ⟨tf, hb, hcf⟩ := decls_sound p.decls predefined g initialTable 0 corr_initial hd
    refine ⟨tf, ?_, ?_⟩
    · rcases corr_find hcf "main".toList with ⟨a, _, _⟩ | ⟨e, v, a, b, c⟩
      · rw [a] at hmain; cases hmain
      · rw [a] at hmain
        cases e with
        | type _ _ => simp at hmain
        | proc sig =>
          simp only at hmain
          cases v with
          | type te => simp [EntRel] at c
          | procedure pe =>
            have hlen := c.2.1.length
            have hz : sig.params = [] := by simpa using hmain
            rw [hz] at hlen
            have hpe : pe.parameters = [] := by
              cases hq : pe.parameters with
              | nil => rfl
              | cons _ _ => simp [hq] at hlen
            simp only [build, hb, b, hpe]
            cases p
            rfl
    · have : p.decls.all (declOk g) = true := hall
      simp only [analyze, analyzeDecls_sound hcf p.decls this (declare_fresh p.decls predefined g hd), Except.map]

end Spl.TypingSound
