/-
  Lemmas for C15: the positions `as_position` reports for the starts of the tokens of a text are
  strictly increasing in document order.
-/
import SplVerif.Lemmas.FoldPos
import SplVerif.Lemmas.Cursor

namespace Spl.SemOrder
open Spl Spl.Feat

/-- document order of positions: an earlier line, or the same line and a smaller column -/
def lexLt (p q : Pos) : Prop := p.line < q.line ∨ (p.line = q.line ∧ p.col < q.col)

/-- **`as_position` is monotone** on character boundaries in document order (line, then column). -/
theorem asPosition_lex_mono (a b c : List Char) :
    (asPosition (utf8Len a) (a ++ (b ++ c))).line < (asPosition (utf8Len (a ++ b)) (a ++ (b ++ c))).line ∨
    ((asPosition (utf8Len (a ++ b)) (a ++ (b ++ c))).line = (asPosition (utf8Len a) (a ++ (b ++ c))).line ∧
      (asPosition (utf8Len a) (a ++ (b ++ c))).col ≤ (asPosition (utf8Len (a ++ b)) (a ++ (b ++ c))).col) := by
  have h := FoldPos.asPositionGo_compose a (b ++ c) 0 0 0 (utf8Len b)
  simp only [Nat.zero_add] at h
  simp only [asPosition, utf8Len_append]
  rw [h]
  exact C08.asPositionGo_mono (b ++ c) (utf8Len a) (utf8Len a + utf8Len b)
    (asPositionGo (a ++ (b ++ c)) 0 (utf8Len a) 0 0).line (asPositionGo (a ++ (b ++ c)) 0 (utf8Len a) 0 0).col

/-- the position reported for the start of any token (the final `Eof` included) addresses that start -/
theorem start_roundtrip (text : List Char) (toks : List Token) (h : lex text = .ok toks) (t : Token) (ht : t ∈ toks) :
    insertionIndex (asPosition t.range.lo text) text = t.range.lo := by
  have hl : toks = lexL text 0 ++ [eofToken (utf8Len text)] := by
    simp only [lex, lexGo_eq_lexL] at h
    cases h; rfl
  rw [hl] at ht
  rcases List.mem_append.mp ht with h1 | h1
  · exact (CursorLemmas.start_addresses_token text toks h t h1).1
  · simp only [List.mem_singleton] at h1
    subst h1
    have := C08.position_roundtrip text [] (by simp)
    simpa [eofToken] using this

/-- tokens of `lex text` start one strictly behind the other -/
theorem tokens_strict (text : List Char) (toks : List Token) (h : lex text = .ok toks) :
    toks.Pairwise (fun x y => x.range.lo < y.range.lo) := by
  have hl : toks = lexL text 0 ++ [eofToken (utf8Len text)] := by
    simp only [lex, lexGo_eq_lexL] at h
    cases h; rfl
  have hb := lexL_bounds text 0
  rw [hl, List.pairwise_append]
  refine ⟨?_, by simp, ?_⟩
  · refine List.Pairwise.imp_of_mem ?_ (lexL_sorted text 0)
    intro x y hx hy hxy
    have := (hb x hx).1
    omega
  · intro x hx y hy
    simp only [List.mem_singleton] at hy
    subst hy
    have := hb x hx
    simp only [eofToken]
    omega

/-- **Token starts are reported in strictly increasing document order.** -/
theorem starts_strict (text : List Char) (toks : List Token) (h : lex text = .ok toks) (x y : Token)
    (hx : x ∈ toks) (hy : y ∈ toks) (hlt : x.range.lo < y.range.lo) :
    lexLt (asPosition x.range.lo text) (asPosition y.range.lo text) := by
  obtain ⟨⟨a1, b1, e1, p1⟩, _⟩ := FoldPos.token_bounds_are_cuts text toks h x hx
  obtain ⟨⟨a2, b2, e2, p2⟩, _⟩ := FoldPos.token_bounds_are_cuts text toks h y hy
  obtain ⟨m, hm1, hm2⟩ := split_prefix (e1.symm.trans e2) (by omega)
  have hmono := asPosition_lex_mono a1 m b2
  have et : text = a1 ++ (m ++ b2) := by rw [e2, hm1, List.append_assoc]
  rw [← et, ← hm1, p1, p2] at hmono
  have r1 := start_roundtrip text toks h x hx
  have r2 := start_roundtrip text toks h y hy
  rcases hmono with hl | ⟨hl, hc⟩
  · exact Or.inl hl
  · rcases Nat.lt_or_ge (asPosition x.range.lo text).col (asPosition y.range.lo text).col with hcc | hcc
    · exact Or.inr ⟨hl.symm, hcc⟩
    · exfalso
      have heq : asPosition x.range.lo text = asPosition y.range.lo text := by
        cases hpx : asPosition x.range.lo text
        cases hpy : asPosition y.range.lo text
        rw [hpx, hpy] at hl hc hcc
        simp only at hl hc hcc
        congr 1
        · exact hl.symm
        · omega
      rw [heq, r2] at r1
      omega

/-- document order, or the same position -/
def lexLe (p q : Pos) : Prop := lexLt p q ∨ p = q

theorem lexLe_zero (q : Pos) : lexLe ⟨0, 0⟩ q := by
  obtain ⟨l, c⟩ := q
  unfold lexLe lexLt
  rcases Nat.eq_zero_or_pos l with rfl | hl
  · rcases Nat.eq_zero_or_pos c with rfl | hc
    · exact Or.inr rfl
    · exact Or.inl (Or.inr ⟨rfl, hc⟩)
  · exact Or.inl (Or.inl hl)

theorem splitAtByte_append (a b : List Char) : splitAtByte (a ++ b) (utf8Len a) = some (a, b) := by
  induction a with
  | nil => cases b <;> simp [splitAtByte]
  | cons c cs ih =>
    have hc := utf8Size_pos c
    obtain ⟨n, hn⟩ : ∃ n, c.utf8Size + utf8Len cs = n + 1 := ⟨c.utf8Size + utf8Len cs - 1, by omega⟩
    rw [utf8Len_cons, hn, List.cons_append]
    unfold splitAtByte
    have h1 : c.utf8Size ≤ n + 1 := by omega
    have h2 : n + 1 - c.utf8Size = utf8Len cs := by omega
    simp [h1, h2, ih]

/-- the text of every token of a tokenisation can be cut out of the text -/
theorem sliceText_token (text : List Char) (toks : List Token) (h : lex text = .ok toks) (t : Token) (ht : t ∈ toks) :
    ∃ s, sliceText text t.range = some s := by
  obtain ⟨⟨a1, b1, e1, p1⟩, ⟨a2, b2, e2, p2⟩⟩ := FoldPos.token_bounds_are_cuts text toks h t ht
  have hle := (FoldPos.tokens_ordered text toks h).2 t ht
  obtain ⟨m, hm1, hm2⟩ := split_prefix (e1.symm.trans e2) (by omega)
  refine ⟨m, ?_⟩
  have hlen : t.range.hi - t.range.lo = utf8Len m := by
    rw [← p1, ← p2, hm1, utf8Len_append]; omega
  unfold sliceText
  rw [← p1, e1, splitAtByte_append]
  simp only
  rw [p1, hlen, hm2, splitAtByte_append]

end Spl.SemOrder
