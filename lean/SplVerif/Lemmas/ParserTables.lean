/-
  Decidable obligations over the regenerated parser tables (`Gen.ParserTables`).
-/
import SplVerif.Model.Parser

namespace Spl

/-- Token kinds a look-ahead set accepts as its *first* token (transitively expanded). -/
def laFirstKinds : Nat → LAName → List Kind
  | 0, _ => []
  | d + 1, n => (Gen.lookAheadSet n).flatMap (fun it => match it with
    | .tok k => [k]
    | .identThen _ => [.Ident]
    | .sub m => laFirstKinds d m)

def allLANames : List LAName := [.global_dec, .stmt, .var_dec, .param_dec, .arg]

/-- C05: every synchronisation set contains the declaration starters and `Eof`, so no
    `ignore_until` recovery ever skips over `proc`, `type` or the end of the input. -/
def SyncSetsOK : Bool :=
  allLANames.all (fun n => [Kind.Proc, Kind.Type, Kind.Eof].all (fun k => (laFirstKinds 8 n).contains k))

/-- The sets are nested as the grammar nests: arg ⊇ param_dec ⊇ var_dec ⊇ stmt ⊇ global_dec. -/
def SyncSetsNested : Bool :=
  let sub := fun (a b : LAName) => (laFirstKinds 8 a).all (fun k => (laFirstKinds 8 b).contains k)
  sub .global_dec .stmt && sub .stmt .var_dec && sub .var_dec .param_dec && sub .param_dec .arg

/-- The fixed association of `tag_parser!` function names with token kinds. -/
def expectedTag : String → Option Kind
  | "ident" => some .Ident | "char" => some .Char | "int" => some .Int | "hex" => some .Hex
  | "array" => some .Array | "of" => some .Of | "if" => some .If | "else" => some .Else
  | "while" => some .While | "proc" => some .Proc | "ref" => some .Ref | "type" => some .Type
  | "var" => some .Var | "lparen" => some .LParen | "rparen" => some .RParen
  | "lbracket" => some .LBracket | "rbracket" => some .RBracket | "lcurly" => some .LCurly
  | "rcurly" => some .RCurly | "eq" => some .Eq | "neq" => some .Neq | "lt" => some .Lt
  | "le" => some .Le | "gt" => some .Gt | "ge" => some .Ge | "assign" => some .Assign
  | "colon" => some .Colon | "comma" => some .Comma | "semic" => some .Semic | "plus" => some .Plus
  | "minus" => some .Minus | "times" => some .Times | "divide" => some .Divide | "eof" => some .Eof
  | _ => none

/-- C04: every `tag_parser!(name, TokenType::K)` accepts the kind its name says, and all 34
    token parsers exist. -/
def TagParsersOK : Bool :=
  Gen.tagParsers.all (fun (_, n, k) => expectedTag n == some k) && Gen.tagParsers.length == 34

end Spl
