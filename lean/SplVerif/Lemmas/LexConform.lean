/-
  C06, conformance: on every text that the independent maximal-munch specification
  (`Spec/LexSpec.lean`) accepts, the model of `lexer::lex` returns exactly the specification's
  token sequence.
-/
import SplVerif.Lemmas.LexLocal
import SplVerif.Spec.LexSpec

namespace Spl.Conform
open Spl

/-! ### character classes of the specification vs. the model -/

theorem char_le_iff (a b : Char) : a ≤ b ↔ a.toNat ≤ b.toNat := by
  rw [Char.le_def]
  exact UInt32.le_iff_toNat_le

theorem dle (a : Char) (n : Nat) (c : Char) (h : a.toNat = n) : decide (a ≤ c) = decide (n ≤ c.toNat) := by
  rw [decide_eq_decide, char_le_iff, h]

theorem dge (a : Char) (n : Nat) (c : Char) (h : a.toNat = n) : decide (c ≤ a) = decide (c.toNat ≤ n) := by
  rw [decide_eq_decide, char_le_iff, h]

theorem ws_eq (c : Char) : LexSpec.ws c = isSpace c := by
  simp only [LexSpec.ws, isSpace]
  cases c == ' ' <;> cases c == '\t' <;> cases c == '\n' <;> cases c == '\r' <;> rfl

theorem digit_eq (c : Char) : LexSpec.digit c = isDigit c := by
  simp only [LexSpec.digit, isDigit, isAsciiDigitN]
  have h0 : ('0' : Char).toNat = 48 := by decide
  have h9 : ('9' : Char).toNat = 57 := by decide
  rw [dle '0' 48 c h0, dge '9' 57 c h9]

theorem letter_eq (c : Char) : LexSpec.letter c = (isAlpha c || c == '_') := by
  simp only [LexSpec.letter, isAlpha, isAsciiAlphaN]
  have ha : ('a' : Char).toNat = 97 := by decide
  have hz : ('z' : Char).toNat = 122 := by decide
  have hA : ('A' : Char).toNat = 65 := by decide
  have hZ : ('Z' : Char).toNat = 90 := by decide
  rw [dle 'a' 97 c ha, dge 'z' 122 c hz, dle 'A' 65 c hA, dge 'Z' 90 c hZ]
  cases decide (97 ≤ c.toNat) <;> cases decide (c.toNat ≤ 122) <;> cases decide (65 ≤ c.toNat) <;>
    cases decide (c.toNat ≤ 90) <;> simp

theorem hexdigit_eq (c : Char) : LexSpec.hexdigit c = isHexDigit c := by
  simp only [LexSpec.hexdigit, isHexDigit, digit_eq]
  have ha : ('a' : Char).toNat = 97 := by decide
  have hf : ('f' : Char).toNat = 102 := by decide
  have hA : ('A' : Char).toNat = 65 := by decide
  have hF : ('F' : Char).toNat = 70 := by decide
  rw [dle 'a' 97 c ha, dge 'f' 102 c hf, dle 'A' 65 c hA, dge 'F' 70 c hF]
  cases isDigit c <;> cases decide (97 ≤ c.toNat) <;> cases decide (c.toNat ≤ 102) <;>
    cases decide (65 ≤ c.toNat) <;> cases decide (c.toNat ≤ 70) <;> simp

/-! ### numeric values -/

theorem valOf_eq (c : Char) (h : isHexDigit c = true) : LexSpec.valOf c = digitVal c := by
  have ha : ('a' : Char).toNat = 97 := by decide
  have hf : ('f' : Char).toNat = 102 := by decide
  have hA : ('A' : Char).toNat = 65 := by decide
  have h0 : ('0' : Char).toNat = 48 := by decide
  simp only [LexSpec.valOf, digitVal, digit_eq, dle 'a' 97 c ha, dge 'f' 102 c hf, ha, hA, h0]
  simp only [isHexDigit, Bool.or_eq_true, Bool.and_eq_true, decide_eq_true_eq] at h
  by_cases hd : isDigit c = true
  · simp [hd]
  · simp only [hd, Bool.false_eq_true, if_false]
    rcases h with (h | h) | h
    · exact absurd h hd
    · have h1 : ¬ (97 ≤ c.toNat) := by omega
      simp only [h1, decide_false, Bool.false_and, Bool.false_eq_true, if_false, h.1, h.2, decide_true, Bool.and_self, if_true]
      omega
    · have h1 : ¬ (c.toNat ≤ 70) := by omega
      simp only [h.1, h.2, decide_true, Bool.and_self, if_true, h1, decide_false, Bool.and_false, Bool.false_eq_true, if_false]
      omega

theorem value_eq (base : Nat) : ∀ (ds : List Char) (acc : Nat), (∀ c ∈ ds, isHexDigit c = true) →
    LexSpec.value base ds acc = ds.foldl (fun a c => a * base + digitVal c) acc
  | [], acc, _ => rfl
  | c :: cs, acc, h => by
    simp only [LexSpec.value, List.foldl_cons]
    rw [valOf_eq c (h c (by simp))]
    exact value_eq base cs _ (fun x hx => h x (by simp [hx]))

theorem isHexDigit_of_isDigit {c : Char} (h : isDigit c = true) : isHexDigit c = true := by
  simp [isHexDigit, h]

theorem mem_takeWhile {α} (f : α → Bool) : ∀ (l : List α) (x : α), x ∈ l.takeWhile f → f x = true
  | [], x, h => by simp at h
  | a :: as, x, h => by
    cases hfa : f a with
    | false => simp [List.takeWhile, hfa] at h
    | true =>
      simp only [List.takeWhile, hfa, List.mem_cons] at h
      rcases h with rfl | h
      · exact hfa
      · exact mem_takeWhile f as x h

theorem takeWhile_congr {α} (f g : α → Bool) (h : ∀ x, f x = g x) (l : List α) :
    l.takeWhile f = l.takeWhile g := by
  have : f = g := funext h
  rw [this]

theorem value10 (s : List Char) :
    LexSpec.value 10 (s.takeWhile LexSpec.digit) 0 = numVal 10 (s.takeWhile isDigit) := by
  rw [takeWhile_congr _ _ digit_eq]
  exact value_eq 10 _ 0 (fun c hc => isHexDigit_of_isDigit (mem_takeWhile _ _ c hc))

theorem value16 (r : List Char) :
    LexSpec.value 16 (r.takeWhile LexSpec.hexdigit) 0 = numVal 16 (r.takeWhile isHexDigit) := by
  rw [takeWhile_congr _ _ hexdigit_eq]
  exact value_eq 16 _ 0 (fun c hc => mem_takeWhile _ _ c hc)

theorem bytes_eq (s : List Char) : LexSpec.bytes s = utf8Len s := by
  induction s with
  | nil => rfl
  | cons c cs ih => simp only [LexSpec.bytes, List.map_cons, List.sum_cons, utf8Len_cons] at ih ⊢; rw [ih]

/-! ### the model's alternatives by first character class -/

def symAlts : List AltItem := [.comment,
  .symbol .LParen, .symbol .RParen, .symbol .LBracket, .symbol .RBracket, .symbol .LCurly, .symbol .RCurly,
  .symbol .Eq, .symbol .Neq, .symbol .Le, .symbol .Lt, .symbol .Ge, .symbol .Gt, .symbol .Assign,
  .symbol .Colon, .symbol .Comma, .symbol .Semic, .symbol .Plus, .symbol .Minus, .symbol .Times, .symbol .Divide]

def kwAlts : List AltItem := [.keyword .If, .keyword .Else, .keyword .While, .keyword .Array, .keyword .Of,
  .keyword .Proc, .keyword .Ref, .keyword .Type, .keyword .Var]

theorem altOrder_split : Gen.altOrder = symAlts ++ (kwAlts ++ tailAlts) := by decide

theorem firstMatch_append (l1 l2 : List AltItem) (s : List Char) :
    firstMatch (l1 ++ l2) s = match firstMatch l1 s with
      | some o => some o
      | none => firstMatch l2 s := by
  induction l1 with
  | nil => simp [firstMatch]
  | cons a as ih =>
    simp only [List.cons_append, firstMatch]
    cases lexItem a s with
    | some o => rfl
    | none => exact ih

theorem firstMatch_none (l : List AltItem) (s : List Char) (h : ∀ a ∈ l, lexItem a s = none) :
    firstMatch l s = none := by
  induction l with
  | nil => rfl
  | cons a as ih =>
    simp only [firstMatch, h a (by simp)]
    exact ih (fun b hb => h b (by simp [hb]))

/-- first characters of words, numbers and character literals -/
def wordStart (c : Char) : Bool := isAlpha c || c == '_' || isDigit c || c == '\''

def symStartOK : Bool := symAlts.all (fun a => match a with
  | .comment => true
  | .symbol k => match Gen.spelling k with
    | some (c :: _) => !wordStart c
    | _ => false
  | _ => false)

theorem symStartOK_ok : symStartOK = true := by decide

theorem stripPrefix_first_ne {c0 c : Char} {ps cs : List Char} (h : c0 ≠ c) :
    stripPrefix (c0 :: ps) (c :: cs) = none := by
  have : (c0 == c) = false := by simpa using h
  simp [stripPrefix, this]

theorem symAlts_fail (c : Char) (cs : List Char) (hc : wordStart c = true) :
    ∀ a ∈ symAlts, lexItem a (c :: cs) = none := by
  intro a ha
  have hok := symStartOK_ok
  simp only [symStartOK, List.all_eq_true] at hok
  have h1 := hok a ha
  cases a with
  | comment =>
    have hne : c ≠ '/' := by
      intro h; subst h; simp [wordStart, isAlpha, isAsciiAlphaN, isDigit, isAsciiDigitN] at hc
    simp only [lexItem]
    unfold lexComment
    split
    · rename_i heq; simp [hne] at heq
    · rfl
  | symbol k =>
    simp only [lexItem, lexSymbol]
    cases hsp : Gen.spelling k with
    | none => simp
    | some p =>
      cases p with
      | nil => simp [hsp] at h1
      | cons c0 ps =>
        simp only [hsp] at h1
        have hne : c0 ≠ c := by
          intro h; subst h; simp [hc] at h1
        cases hty : k.plain with
        | none => simp
        | some ty => simp [stripPrefix_first_ne hne]
  | keyword k => simp at h1
  | char => simp at h1
  | hex => simp at h1
  | int => simp at h1
  | ident => simp at h1
  | unknown => simp at h1

def kwStartOK : Bool := kwAlts.all (fun a => match a with
  | .keyword k => match Gen.spelling k with
    | some (c :: _) => isAlpha c
    | _ => false
  | _ => false)

theorem kwStartOK_ok : kwStartOK = true := by decide

theorem kwAlts_fail (c : Char) (cs : List Char) (hc : isAlpha c = false) :
    ∀ a ∈ kwAlts, lexItem a (c :: cs) = none := by
  intro a ha
  have hok := kwStartOK_ok
  simp only [kwStartOK, List.all_eq_true] at hok
  have h1 := hok a ha
  cases a with
  | keyword k =>
    simp only [lexItem, lexKeyword]
    cases hsp : Gen.spelling k with
    | none => simp
    | some p =>
      cases p with
      | nil => simp [hsp] at h1
      | cons c0 ps =>
        simp only [hsp] at h1
        have hne : c0 ≠ c := by
          intro h; subst h; simp [hc] at h1
        cases hty : k.plain with
        | none => simp
        | some ty => simp [stripPrefix_first_ne hne]
  | comment => simp at h1
  | symbol k => simp at h1
  | char => simp at h1
  | hex => simp at h1
  | int => simp at h1
  | ident => simp at h1
  | unknown => simp at h1

/-- a text starting like a number or a character literal is decided by the last alternatives -/
theorem lexOne_nonalpha (c : Char) (cs : List Char) (hw : wordStart c = true) (ha : isAlpha c = false) :
    lexOne (c :: cs) = firstMatch tailAlts (c :: cs) := by
  rw [lexOne, altOrder_split, firstMatch_append, firstMatch_none _ _ (symAlts_fail c cs hw)]
  simp only
  rw [firstMatch_append, firstMatch_none _ _ (kwAlts_fail c cs ha)]

/-- a text starting with a letter or `_`: a keyword alternative or the identifier -/
theorem lexOne_word (c : Char) (cs : List Char) (hw : wordStart c = true) :
    lexOne (c :: cs) = match firstMatch kwAlts (c :: cs) with
      | some o => some o
      | none => firstMatch tailAlts (c :: cs) := by
  rw [lexOne, altOrder_split, firstMatch_append, firstMatch_none _ _ (symAlts_fail c cs hw)]
  simp only
  rw [firstMatch_append]

/-! ### keywords against a maximal word -/

theorem lexKeyword_word (k : Kind) (p : List Char) (ty : TokenType) (w rest : List Char)
    (hsp : Gen.spelling k = some p) (hty : k.plain = some ty)
    (hp : ∀ x ∈ p, isAlnumTrunc x = true) (hw : ∀ x ∈ w, isAlnumTrunc x = true)
    (hrest : ∀ d r, rest = d :: r → isAlnumTrunc d = false) :
    lexKeyword k (w ++ rest) = if p = w then some { ty := ty, n := p.length } else none := by
  simp only [lexKeyword, hsp, hty]
  cases hs : stripPrefix p (w ++ rest) with
  | none =>
    have : p ≠ w := by
      intro h; subst h
      have := stripPrefix_some_iff.mpr (rfl : p ++ rest = p ++ rest)
      rw [hs] at this; cases this
    simp [this]
  | some r =>
    have hs' := stripPrefix_some_iff.mp hs
    by_cases hpw : p = w
    · subst hpw
      have : r = rest := (List.append_cancel_left hs').symm
      subst this
      simp only [if_true]
      cases r with
      | nil => rfl
      | cons d r' => simp [hrest d r' rfl]
    · simp only [hpw, if_false]
      rcases List.append_eq_append_iff.mp hs' with ⟨a', h1, h2⟩ | ⟨c', h1, h2⟩
      · -- p = w ++ a', rest = a' ++ r
        cases a' with
        | nil => simp at h1; exact absurd h1 hpw
        | cons d a'' =>
          exfalso
          have hd : isAlnumTrunc d = true := hp d (by rw [h1]; simp)
          have := hrest d (a'' ++ r) (by rw [h2]; rfl)
          rw [hd] at this; cases this
      · -- w = p ++ c', r = c' ++ rest
        cases c' with
        | nil => simp at h1; exact absurd h1.symm hpw
        | cons d c'' =>
          have hd : isAlnumTrunc d = true := hw d (by rw [h1]; simp)
          rw [h2]
          simp [hd]

/-! ### specification side: which classes can propose for which first character -/

def specSymStartOK : Bool := LexSpec.symbols.all (fun e => match e.1 with
  | c :: _ => !wordStart c && !isAlnumTrunc c
  | [] => false)

theorem specSymStartOK_ok : specSymStartOK = true := by decide

theorem spec_symbol_nil (c : Char) (cs : List Char) (hc : wordStart c = true) :
    LexSpec.symbol (c :: cs) = [] := by
  have hok := specSymStartOK_ok
  simp only [specSymStartOK, List.all_eq_true] at hok
  simp only [LexSpec.symbol, List.filterMap_eq_nil_iff]
  intro e he
  have h1 := hok e he
  obtain ⟨sp, ty⟩ := e
  cases sp with
  | nil => simp at h1
  | cons c0 sps =>
    simp only [Bool.and_eq_true, Bool.not_eq_true'] at h1
    have hne : (c0 == c) = false := by
      cases hcc : c0 == c
      · rfl
      · have : c0 = c := by simpa using hcc
        subst this; rw [hc] at h1; cases h1.1
    simp [LexSpec.isPrefix, hne]

theorem spec_comment_nil (c : Char) (cs : List Char) (hc : c ≠ '/') : LexSpec.comment (c :: cs) = [] := by
  unfold LexSpec.comment
  split
  · rename_i heq; simp [hc] at heq
  · rfl

theorem spec_hex_nil (c : Char) (cs : List Char) (hc : c ≠ '0') : LexSpec.hexadecimal (c :: cs) = [] := by
  unfold LexSpec.hexadecimal
  split
  · rename_i heq; simp [hc] at heq
  · rfl

theorem spec_char_nil (c : Char) (cs : List Char) (hc : c ≠ '\'') : LexSpec.charLit (c :: cs) = [] := by
  unfold LexSpec.charLit
  split
  · rename_i heq; simp [hc] at heq
  · rename_i heq; simp [hc] at heq
  · rfl

theorem spec_decimal_nil (c : Char) (cs : List Char) (hc : isDigit c = false) :
    LexSpec.decimal (c :: cs) = [] := by
  simp [LexSpec.decimal, List.takeWhile, digit_eq, hc]

theorem spec_word_nil (c : Char) (cs : List Char) (hc : (isAlpha c || c == '_') = false) :
    LexSpec.word (c :: cs) = [] := by
  simp [LexSpec.word, letter_eq, hc]

theorem alpha_facts {c : Char} (h : (isAlpha c || c == '_') = true) :
    c ≠ '/' ∧ c ≠ '0' ∧ c ≠ '\'' ∧ isDigit c = false ∧ wordStart c = true := by
  refine ⟨?_, ?_, ?_, ?_, ?_⟩
  · intro e; subst e; simp [isAlpha, isAsciiAlphaN] at h
  · intro e; subst e; simp [isAlpha, isAsciiAlphaN] at h
  · intro e; subst e; simp [isAlpha, isAsciiAlphaN] at h
  · simp only [isAlpha, isAsciiAlphaN, isDigit, isAsciiDigitN, Bool.or_eq_true, Bool.and_eq_true,
      decide_eq_true_eq, beq_iff_eq] at h ⊢
    rcases h with (h | h) | h
    · simp; omega
    · simp; omega
    · subst h; decide
  · simp only [wordStart, Bool.or_eq_true] at h ⊢
    rcases h with h | h
    · exact Or.inl (Or.inl (Or.inl h))
    · exact Or.inl (Or.inl (Or.inr h))

theorem longest_single (p : LexSpec.Proposal) : LexSpec.longest [p] = some p := by
  simp [LexSpec.longest]

/-- for a text starting with a letter or `_` only the word class proposes -/
theorem proposals_word (c : Char) (cs : List Char) (h : (isAlpha c || c == '_') = true) :
    LexSpec.proposals (c :: cs) = LexSpec.word (c :: cs) := by
  obtain ⟨h1, h2, h3, h4, h5⟩ := alpha_facts h
  simp [LexSpec.proposals, spec_comment_nil c cs h1, spec_symbol_nil c cs h5, spec_hex_nil c cs h2,
    spec_decimal_nil c cs h4, spec_char_nil c cs h3]

theorem spec_keywords_eq : LexSpec.keywords = [(['i', 'f'], .If), (['e', 'l', 's', 'e'], .Else), (['w', 'h', 'i', 'l', 'e'], .While), (['a', 'r', 'r', 'a', 'y'], .Array), (['o', 'f'], .Of), (['p', 'r', 'o', 'c'], .Proc), (['r', 'e', 'f'], .Ref), (['t', 'y', 'p', 'e'], .Type), (['v', 'a', 'r'], .Var)] := by decide

theorem wordChar_alnum (x : Char) (h : LexSpec.wordChar x = true) : isAlnumTrunc x = true := by
  simp only [LexSpec.wordChar, letter_eq, digit_eq, Bool.or_eq_true] at h
  simp only [isAlnumTrunc, isAlpha, isDigit, isAsciiAlphaN, isAsciiDigitN, Bool.or_eq_true, Bool.and_eq_true,
    decide_eq_true_eq, beq_iff_eq] at h ⊢
  have hlt : ∀ n, n < 256 → n % 256 = n := fun n hn => Nat.mod_eq_of_lt hn
  rcases h with ((h | h) | h) | h
  · left; left; rw [hlt _ (by omega)]; left; exact h
  · left; left; rw [hlt _ (by omega)]; right; exact h
  · right; exact h
  · left; right; rw [hlt _ (by omega)]; exact h

theorem takeWhile_append_of {α} (f : α → Bool) (a b : List α) (ha : ∀ x ∈ a, f x = true)
    (hb : ∀ d r, b = d :: r → f d = false) : (a ++ b).takeWhile f = a := by
  induction a with
  | nil =>
    cases b with
    | nil => rfl
    | cons d r => simp [List.takeWhile, hb d r rfl]
  | cons x xs ih =>
    simp only [List.cons_append, List.takeWhile, ha x (by simp)]
    rw [ih (fun y hy => ha y (by simp [hy]))]

/-- **Words.**  A maximal word followed by a character that is not a word character (for the
    model: not `is_alpha_numeric`) is the keyword of that spelling or an identifier — in the
    specification and in the model alike. -/
theorem word_step (c : Char) (tw rest' : List Char) (halpha : (isAlpha c || c == '_') = true)
    (htw : ∀ x ∈ tw, LexSpec.wordChar x = true)
    (hrest : ∀ d r, rest' = d :: r → LexSpec.wordChar d = false ∧ isAlnumTrunc d = false) :
    ∃ ty, LexSpec.word (c :: (tw ++ rest')) = [((c :: tw).length, ty)] ∧
      lexOne (c :: (tw ++ rest')) = some { ty := ty, n := (c :: tw).length } := by
  have hf := alpha_facts halpha
  have hws := hf.2.2.2.2
  have hcw : LexSpec.wordChar c = true := by simp [LexSpec.wordChar, letter_eq, halpha]
  have hwa : ∀ x ∈ c :: tw, isAlnumTrunc x = true := by
    intro x hx
    simp only [List.mem_cons] at hx
    rcases hx with rfl | hx
    · exact wordChar_alnum _ hcw
    · exact wordChar_alnum _ (htw x hx)
  have hrest' : ∀ d r, rest' = d :: r → isAlnumTrunc d = false := fun d r h => (hrest d r h).2
  have htake : (c :: (tw ++ rest')).takeWhile LexSpec.wordChar = c :: tw := by
    have := takeWhile_append_of LexSpec.wordChar (c :: tw) rest'
      (by intro x hx; simp only [List.mem_cons] at hx; rcases hx with rfl | hx; exact hcw; exact htw x hx)
      (fun d r h => (hrest d r h).1)
    simpa using this
  have hident : (tw ++ rest').takeWhile isAlnumTrunc = tw :=
    takeWhile_append_of isAlnumTrunc tw rest' (fun x hx => wordChar_alnum _ (htw x hx)) hrest'
  have hk0 := lexKeyword_word .If ['i', 'f'] .If (c :: tw) rest' rfl rfl (by decide) hwa hrest'
  rw [List.cons_append] at hk0
  have hk1 := lexKeyword_word .Else ['e', 'l', 's', 'e'] .Else (c :: tw) rest' rfl rfl (by decide) hwa hrest'
  rw [List.cons_append] at hk1
  have hk2 := lexKeyword_word .While ['w', 'h', 'i', 'l', 'e'] .While (c :: tw) rest' rfl rfl (by decide) hwa hrest'
  rw [List.cons_append] at hk2
  have hk3 := lexKeyword_word .Array ['a', 'r', 'r', 'a', 'y'] .Array (c :: tw) rest' rfl rfl (by decide) hwa hrest'
  rw [List.cons_append] at hk3
  have hk4 := lexKeyword_word .Of ['o', 'f'] .Of (c :: tw) rest' rfl rfl (by decide) hwa hrest'
  rw [List.cons_append] at hk4
  have hk5 := lexKeyword_word .Proc ['p', 'r', 'o', 'c'] .Proc (c :: tw) rest' rfl rfl (by decide) hwa hrest'
  rw [List.cons_append] at hk5
  have hk6 := lexKeyword_word .Ref ['r', 'e', 'f'] .Ref (c :: tw) rest' rfl rfl (by decide) hwa hrest'
  rw [List.cons_append] at hk6
  have hk7 := lexKeyword_word .Type ['t', 'y', 'p', 'e'] .Type (c :: tw) rest' rfl rfl (by decide) hwa hrest'
  rw [List.cons_append] at hk7
  have hk8 := lexKeyword_word .Var ['v', 'a', 'r'] .Var (c :: tw) rest' rfl rfl (by decide) hwa hrest'
  rw [List.cons_append] at hk8
  by_cases hn0 : ['i', 'f'] = c :: tw
  · -- the keyword `if`
    refine ⟨.If, ?_, ?_⟩
    · simp [LexSpec.word, letter_eq, halpha, htake, LexSpec.keywords, List.find?, ← hn0]
    · rw [lexOne_word c (tw ++ rest') hws]
      have hk : firstMatch kwAlts (c :: (tw ++ rest')) = some { ty := .If, n := 2 } := by
        simp only [kwAlts, firstMatch, lexItem]
        rw [hk0]
        simp [← hn0]
      rw [hk]
      simp [← hn0]
  · by_cases hn1 : ['e', 'l', 's', 'e'] = c :: tw
    · -- the keyword `else`
      refine ⟨.Else, ?_, ?_⟩
      · simp [LexSpec.word, letter_eq, halpha, htake, LexSpec.keywords, List.find?, ← hn1]
      · rw [lexOne_word c (tw ++ rest') hws]
        have hk : firstMatch kwAlts (c :: (tw ++ rest')) = some { ty := .Else, n := 4 } := by
          simp only [kwAlts, firstMatch, lexItem]
          rw [hk0, hk1]
          simp [← hn1]
        rw [hk]
        simp [← hn1]
    · by_cases hn2 : ['w', 'h', 'i', 'l', 'e'] = c :: tw
      · -- the keyword `while`
        refine ⟨.While, ?_, ?_⟩
        · simp [LexSpec.word, letter_eq, halpha, htake, LexSpec.keywords, List.find?, ← hn2]
        · rw [lexOne_word c (tw ++ rest') hws]
          have hk : firstMatch kwAlts (c :: (tw ++ rest')) = some { ty := .While, n := 5 } := by
            simp only [kwAlts, firstMatch, lexItem]
            rw [hk0, hk1, hk2]
            simp [← hn2]
          rw [hk]
          simp [← hn2]
      · by_cases hn3 : ['a', 'r', 'r', 'a', 'y'] = c :: tw
        · -- the keyword `array`
          refine ⟨.Array, ?_, ?_⟩
          · simp [LexSpec.word, letter_eq, halpha, htake, LexSpec.keywords, List.find?, ← hn3]
          · rw [lexOne_word c (tw ++ rest') hws]
            have hk : firstMatch kwAlts (c :: (tw ++ rest')) = some { ty := .Array, n := 5 } := by
              simp only [kwAlts, firstMatch, lexItem]
              rw [hk0, hk1, hk2, hk3]
              simp [← hn3]
            rw [hk]
            simp [← hn3]
        · by_cases hn4 : ['o', 'f'] = c :: tw
          · -- the keyword `of`
            refine ⟨.Of, ?_, ?_⟩
            · simp [LexSpec.word, letter_eq, halpha, htake, LexSpec.keywords, List.find?, ← hn4]
            · rw [lexOne_word c (tw ++ rest') hws]
              have hk : firstMatch kwAlts (c :: (tw ++ rest')) = some { ty := .Of, n := 2 } := by
                simp only [kwAlts, firstMatch, lexItem]
                rw [hk0, hk1, hk2, hk3, hk4]
                simp [← hn4]
              rw [hk]
              simp [← hn4]
          · by_cases hn5 : ['p', 'r', 'o', 'c'] = c :: tw
            · -- the keyword `proc`
              refine ⟨.Proc, ?_, ?_⟩
              · simp [LexSpec.word, letter_eq, halpha, htake, LexSpec.keywords, List.find?, ← hn5]
              · rw [lexOne_word c (tw ++ rest') hws]
                have hk : firstMatch kwAlts (c :: (tw ++ rest')) = some { ty := .Proc, n := 4 } := by
                  simp only [kwAlts, firstMatch, lexItem]
                  rw [hk0, hk1, hk2, hk3, hk4, hk5]
                  simp [← hn5]
                rw [hk]
                simp [← hn5]
            · by_cases hn6 : ['r', 'e', 'f'] = c :: tw
              · -- the keyword `ref`
                refine ⟨.Ref, ?_, ?_⟩
                · simp [LexSpec.word, letter_eq, halpha, htake, LexSpec.keywords, List.find?, ← hn6]
                · rw [lexOne_word c (tw ++ rest') hws]
                  have hk : firstMatch kwAlts (c :: (tw ++ rest')) = some { ty := .Ref, n := 3 } := by
                    simp only [kwAlts, firstMatch, lexItem]
                    rw [hk0, hk1, hk2, hk3, hk4, hk5, hk6]
                    simp [← hn6]
                  rw [hk]
                  simp [← hn6]
              · by_cases hn7 : ['t', 'y', 'p', 'e'] = c :: tw
                · -- the keyword `type`
                  refine ⟨.Type, ?_, ?_⟩
                  · simp [LexSpec.word, letter_eq, halpha, htake, LexSpec.keywords, List.find?, ← hn7]
                  · rw [lexOne_word c (tw ++ rest') hws]
                    have hk : firstMatch kwAlts (c :: (tw ++ rest')) = some { ty := .Type, n := 4 } := by
                      simp only [kwAlts, firstMatch, lexItem]
                      rw [hk0, hk1, hk2, hk3, hk4, hk5, hk6, hk7]
                      simp [← hn7]
                    rw [hk]
                    simp [← hn7]
                · by_cases hn8 : ['v', 'a', 'r'] = c :: tw
                  · -- the keyword `var`
                    refine ⟨.Var, ?_, ?_⟩
                    · simp [LexSpec.word, letter_eq, halpha, htake, LexSpec.keywords, List.find?, ← hn8]
                    · rw [lexOne_word c (tw ++ rest') hws]
                      have hk : firstMatch kwAlts (c :: (tw ++ rest')) = some { ty := .Var, n := 3 } := by
                        simp only [kwAlts, firstMatch, lexItem]
                        rw [hk0, hk1, hk2, hk3, hk4, hk5, hk6, hk7, hk8]
                        simp [← hn8]
                      rw [hk]
                      simp [← hn8]
                  · -- not a keyword: the identifier
                    refine ⟨.Ident (c :: tw), ?_, ?_⟩
                    · have hdummy : True := trivial
                      have hb0 : (['i', 'f'] == c :: tw) = false := by rw [beq_eq_false_iff_ne]; exact hn0
                      have hb1 : (['e', 'l', 's', 'e'] == c :: tw) = false := by rw [beq_eq_false_iff_ne]; exact hn1
                      have hb2 : (['w', 'h', 'i', 'l', 'e'] == c :: tw) = false := by rw [beq_eq_false_iff_ne]; exact hn2
                      have hb3 : (['a', 'r', 'r', 'a', 'y'] == c :: tw) = false := by rw [beq_eq_false_iff_ne]; exact hn3
                      have hb4 : (['o', 'f'] == c :: tw) = false := by rw [beq_eq_false_iff_ne]; exact hn4
                      have hb5 : (['p', 'r', 'o', 'c'] == c :: tw) = false := by rw [beq_eq_false_iff_ne]; exact hn5
                      have hb6 : (['r', 'e', 'f'] == c :: tw) = false := by rw [beq_eq_false_iff_ne]; exact hn6
                      have hb7 : (['t', 'y', 'p', 'e'] == c :: tw) = false := by rw [beq_eq_false_iff_ne]; exact hn7
                      have hb8 : (['v', 'a', 'r'] == c :: tw) = false := by rw [beq_eq_false_iff_ne]; exact hn8
                      simp only [LexSpec.word, letter_eq, halpha, if_true, htake, spec_keywords_eq, List.find?, hb0, hb1, hb2, hb3, hb4, hb5, hb6, hb7, hb8]
                    · rw [lexOne_word c (tw ++ rest') hws]
                      have hk : firstMatch kwAlts (c :: (tw ++ rest')) = none := by
                        simp only [kwAlts, firstMatch, lexItem]
                        rw [hk0, hk1, hk2, hk3, hk4, hk5, hk6, hk7, hk8]
                        simp [hn0, hn1, hn2, hn3, hn4, hn5, hn6, hn7, hn8]
                      rw [hk]
                      simp only
                      rw [tail_alpha hf.2.2.1 hf.2.1 hf.2.2.2.1 halpha, hident]
                      simp; omega

/-! ### symbols: both sides evaluated on each first character -/

set_option maxRecDepth 8000

macro "eval_spec" : tactic => `(tactic|
  simp [LexSpec.proposals, LexSpec.comment, LexSpec.symbol, LexSpec.symbols, LexSpec.isPrefix, LexSpec.word,
    LexSpec.letter, LexSpec.hexadecimal, LexSpec.decimal, LexSpec.digit, LexSpec.charLit, List.takeWhile])

theorem spec_lparen (cs : List Char) : LexSpec.proposals ('(' :: cs) = [(1, .LParen)] := by eval_spec
theorem model_lparen (cs : List Char) : lexOne ('(' :: cs) = some { ty := .LParen, n := 1 } := by eval_sym
theorem spec_rparen (cs : List Char) : LexSpec.proposals (')' :: cs) = [(1, .RParen)] := by eval_spec
theorem model_rparen (cs : List Char) : lexOne (')' :: cs) = some { ty := .RParen, n := 1 } := by eval_sym
theorem spec_lbracket (cs : List Char) : LexSpec.proposals ('[' :: cs) = [(1, .LBracket)] := by eval_spec
theorem model_lbracket (cs : List Char) : lexOne ('[' :: cs) = some { ty := .LBracket, n := 1 } := by eval_sym
theorem spec_rbracket (cs : List Char) : LexSpec.proposals (']' :: cs) = [(1, .RBracket)] := by eval_spec
theorem model_rbracket (cs : List Char) : lexOne (']' :: cs) = some { ty := .RBracket, n := 1 } := by eval_sym
theorem spec_lcurly (cs : List Char) : LexSpec.proposals ('{' :: cs) = [(1, .LCurly)] := by eval_spec
theorem model_lcurly (cs : List Char) : lexOne ('{' :: cs) = some { ty := .LCurly, n := 1 } := by eval_sym
theorem spec_rcurly (cs : List Char) : LexSpec.proposals ('}' :: cs) = [(1, .RCurly)] := by eval_spec
theorem model_rcurly (cs : List Char) : lexOne ('}' :: cs) = some { ty := .RCurly, n := 1 } := by eval_sym
theorem spec_eq (cs : List Char) : LexSpec.proposals ('=' :: cs) = [(1, .Eq)] := by eval_spec
theorem model_eq (cs : List Char) : lexOne ('=' :: cs) = some { ty := .Eq, n := 1 } := by eval_sym
theorem spec_neq (cs : List Char) : LexSpec.proposals ('#' :: cs) = [(1, .Neq)] := by eval_spec
theorem model_neq (cs : List Char) : lexOne ('#' :: cs) = some { ty := .Neq, n := 1 } := by eval_sym
theorem spec_comma (cs : List Char) : LexSpec.proposals (',' :: cs) = [(1, .Comma)] := by eval_spec
theorem model_comma (cs : List Char) : lexOne (',' :: cs) = some { ty := .Comma, n := 1 } := by eval_sym
theorem spec_semic (cs : List Char) : LexSpec.proposals (';' :: cs) = [(1, .Semic)] := by eval_spec
theorem model_semic (cs : List Char) : lexOne (';' :: cs) = some { ty := .Semic, n := 1 } := by eval_sym
theorem spec_plus (cs : List Char) : LexSpec.proposals ('+' :: cs) = [(1, .Plus)] := by eval_spec
theorem model_plus (cs : List Char) : lexOne ('+' :: cs) = some { ty := .Plus, n := 1 } := by eval_sym
theorem spec_minus (cs : List Char) : LexSpec.proposals ('-' :: cs) = [(1, .Minus)] := by eval_spec
theorem model_minus (cs : List Char) : lexOne ('-' :: cs) = some { ty := .Minus, n := 1 } := by eval_sym
theorem spec_times (cs : List Char) : LexSpec.proposals ('*' :: cs) = [(1, .Times)] := by eval_spec
theorem model_times (cs : List Char) : lexOne ('*' :: cs) = some { ty := .Times, n := 1 } := by eval_sym
theorem spec_lt_eq (r : List Char) : LexSpec.proposals ('<' :: '=' :: r) = [(1, .Lt), (2, .Le)] := by eval_spec
theorem spec_lt_ne (cs : List Char) (h : ∀ r, cs ≠ '=' :: r) : LexSpec.proposals ('<' :: cs) = [(1, .Lt)] := by
  cases cs with
  | nil => eval_spec
  | cons d r =>
    have hd2 : ¬ ('=' = d) := fun e => h r (by rw [e])
    have hd1 : ('=' == d) = false := by simpa using hd2
    simp [LexSpec.proposals, LexSpec.comment, LexSpec.symbol, LexSpec.symbols, LexSpec.isPrefix, LexSpec.word,
      LexSpec.letter, LexSpec.hexadecimal, LexSpec.decimal, LexSpec.digit, LexSpec.charLit, List.takeWhile, hd1, hd2]
theorem model_lt_eq (r : List Char) : lexOne ('<' :: '=' :: r) = some { ty := .Le, n := 2 } := by eval_sym
theorem model_lt_ne (cs : List Char) (h : ∀ r, cs ≠ '=' :: r) : lexOne ('<' :: cs) = some { ty := .Lt, n := 1 } := by
  cases cs with
  | nil => eval_sym
  | cons d r =>
    have hd2 : ¬ ('=' = d) := fun e => h r (by rw [e])
    have hd1 : ('=' == d) = false := by simpa using hd2
    simp [lexOne, Gen.altOrder, firstMatch, lexItem, lexComment, lexSymbol, lexKeyword, Gen.spelling, Kind.plain,
      stripPrefix, hd1, hd2]
theorem spec_gt_eq (r : List Char) : LexSpec.proposals ('>' :: '=' :: r) = [(1, .Gt), (2, .Ge)] := by eval_spec
theorem spec_gt_ne (cs : List Char) (h : ∀ r, cs ≠ '=' :: r) : LexSpec.proposals ('>' :: cs) = [(1, .Gt)] := by
  cases cs with
  | nil => eval_spec
  | cons d r =>
    have hd2 : ¬ ('=' = d) := fun e => h r (by rw [e])
    have hd1 : ('=' == d) = false := by simpa using hd2
    simp [LexSpec.proposals, LexSpec.comment, LexSpec.symbol, LexSpec.symbols, LexSpec.isPrefix, LexSpec.word,
      LexSpec.letter, LexSpec.hexadecimal, LexSpec.decimal, LexSpec.digit, LexSpec.charLit, List.takeWhile, hd1, hd2]
theorem model_gt_eq (r : List Char) : lexOne ('>' :: '=' :: r) = some { ty := .Ge, n := 2 } := by eval_sym
theorem model_gt_ne (cs : List Char) (h : ∀ r, cs ≠ '=' :: r) : lexOne ('>' :: cs) = some { ty := .Gt, n := 1 } := by
  cases cs with
  | nil => eval_sym
  | cons d r =>
    have hd2 : ¬ ('=' = d) := fun e => h r (by rw [e])
    have hd1 : ('=' == d) = false := by simpa using hd2
    simp [lexOne, Gen.altOrder, firstMatch, lexItem, lexComment, lexSymbol, lexKeyword, Gen.spelling, Kind.plain,
      stripPrefix, hd1, hd2]
theorem spec_colon_eq (r : List Char) : LexSpec.proposals (':' :: '=' :: r) = [(2, .Assign), (1, .Colon)] := by eval_spec
theorem spec_colon_ne (cs : List Char) (h : ∀ r, cs ≠ '=' :: r) : LexSpec.proposals (':' :: cs) = [(1, .Colon)] := by
  cases cs with
  | nil => eval_spec
  | cons d r =>
    have hd2 : ¬ ('=' = d) := fun e => h r (by rw [e])
    have hd1 : ('=' == d) = false := by simpa using hd2
    simp [LexSpec.proposals, LexSpec.comment, LexSpec.symbol, LexSpec.symbols, LexSpec.isPrefix, LexSpec.word,
      LexSpec.letter, LexSpec.hexadecimal, LexSpec.decimal, LexSpec.digit, LexSpec.charLit, List.takeWhile, hd1, hd2]
theorem model_colon_eq (r : List Char) : lexOne (':' :: '=' :: r) = some { ty := .Assign, n := 2 } := by eval_sym
theorem model_colon_ne (cs : List Char) (h : ∀ r, cs ≠ '=' :: r) : lexOne (':' :: cs) = some { ty := .Colon, n := 1 } := by
  cases cs with
  | nil => eval_sym
  | cons d r =>
    have hd2 : ¬ ('=' = d) := fun e => h r (by rw [e])
    have hd1 : ('=' == d) = false := by simpa using hd2
    simp [lexOne, Gen.altOrder, firstMatch, lexItem, lexComment, lexSymbol, lexKeyword, Gen.spelling, Kind.plain,
      stripPrefix, hd1, hd2]

/-! ### numbers -/

theorem digit_facts {c : Char} (h : isDigit c = true) :
    c ≠ '/' ∧ c ≠ '\'' ∧ (isAlpha c || c == '_') = false ∧ wordStart c = true ∧ isAlpha c = false := by
  have hn : 48 ≤ c.toNat ∧ c.toNat ≤ 57 := by
    simpa [isDigit, isAsciiDigitN] using h
  refine ⟨?_, ?_, ?_, ?_, ?_⟩
  · intro e; subst e; simp [isDigit, isAsciiDigitN] at h
  · intro e; subst e; simp [isDigit, isAsciiDigitN] at h
  · have h1 : isAlpha c = false := by
      simp only [isAlpha, isAsciiAlphaN, Bool.or_eq_false_iff, Bool.and_eq_false_iff, decide_eq_false_iff_not]
      omega
    have h2 : (c == '_') = false := by
      cases hc : c == '_'
      · rfl
      · have : c = '_' := by simpa using hc
        subst this; simp [isDigit, isAsciiDigitN] at h
    simp [h1, h2]
  · simp [wordStart, h]
  · simp only [isAlpha, isAsciiAlphaN, Bool.or_eq_false_iff, Bool.and_eq_false_iff, decide_eq_false_iff_not]
    omega

theorem lexHex_not0x (c : Char) (cs : List Char) (h : ∀ r, c :: cs ≠ '0' :: 'x' :: r) :
    lexHex (c :: cs) = none := by
  unfold lexHex
  split
  · rename_i r heq; exact absurd heq (h r)
  · rfl

theorem spec_hex_not0x (c : Char) (cs : List Char) (h : ∀ r, c :: cs ≠ '0' :: 'x' :: r) :
    LexSpec.hexadecimal (c :: cs) = [] := by
  unfold LexSpec.hexadecimal
  split
  · rename_i r heq; exact absurd heq (h r)
  · rfl

theorem longest_two (p q : LexSpec.Proposal) (h : ¬ q.1 > p.1) : LexSpec.longest [p, q] = some p := by
  simp [LexSpec.longest, h]

theorem longest_two' (p q : LexSpec.Proposal) (h : q.1 > p.1) : LexSpec.longest [p, q] = some q := by
  simp [LexSpec.longest, h]

/-- **Numbers.** -/
theorem digit_step (c : Char) (cs : List Char) (hd : isDigit c = true)
    (hmal : LexSpec.malformedAt (c :: cs) = false) (n : Nat) (ty : TokenType)
    (hl : LexSpec.longest (LexSpec.proposals (c :: cs)) = some (n, ty)) :
    lexOne (c :: cs) = some { ty := ty, n := n } := by
  obtain ⟨h1, h2, h3, h4, h5⟩ := digit_facts hd
  rw [lexOne_nonalpha c cs h4 h5]
  have hbase : LexSpec.proposals (c :: cs) = LexSpec.hexadecimal (c :: cs) ++ LexSpec.decimal (c :: cs) := by
    simp [LexSpec.proposals, spec_comment_nil c cs h1, spec_symbol_nil c cs h4, spec_word_nil c cs h3,
      spec_char_nil c cs h2]
  rw [hbase] at hl
  by_cases h0x : ∃ r, c :: cs = '0' :: 'x' :: r
  · obtain ⟨r, hr⟩ := h0x
    simp only [List.cons.injEq] at hr
    obtain ⟨hc, hcs⟩ := hr
    subst hc hcs
    -- hexadecimal
    have hm : ((r.takeWhile LexSpec.hexdigit).isEmpty ||
        decide (LexSpec.value 16 (r.takeWhile LexSpec.hexdigit) 0 ≥ 4294967296)) = false := hmal
    simp only [Bool.or_eq_false_iff, decide_eq_false_iff_not, ge_iff_le, Nat.not_le] at hm
    have hds : r.takeWhile LexSpec.hexdigit = r.takeWhile isHexDigit := takeWhile_congr _ _ hexdigit_eq r
    have hv := value16 r
    have hhex : LexSpec.hexadecimal ('0' :: 'x' :: r) =
        [(2 + (r.takeWhile isHexDigit).length, .Hex (.Int (numVal 16 (r.takeWhile isHexDigit))))] := by
      show (if (r.takeWhile LexSpec.hexdigit).isEmpty then [] else _) = _
      rw [hm.1]
      simp only [Bool.false_eq_true, if_false]
      rw [hv, hds]
    have hdec : LexSpec.decimal ('0' :: 'x' :: r) = [(1, .Int (.Int 0))] := by
      simp [LexSpec.decimal, List.takeWhile, LexSpec.digit, LexSpec.value, LexSpec.valOf]
    rw [hhex, hdec] at hl
    rw [List.singleton_append, longest_two _ _ (by simp)] at hl
    simp only [Option.some.injEq, Prod.mk.injEq] at hl
    obtain ⟨hn, hty⟩ := hl
    subst hn hty
    have hch : lexChar ('0' :: 'x' :: r) = none := lexChar_ne (by decide)
    simp only [tailAlts, firstMatch, lexItem, hch, lexHex_cons]
    have hne : (r.takeWhile isHexDigit).isEmpty = false := by rw [← hds]; exact hm.1
    have hle : numVal 16 (r.takeWhile isHexDigit) ≤ u32Max := by
      rw [← hv]; simp only [u32Max]; omega
    simp [hexOut, hne, hle]
  · have h0x' : ∀ r, c :: cs ≠ '0' :: 'x' :: r := fun r e => h0x ⟨r, e⟩
    rw [spec_hex_not0x c cs h0x', List.nil_append] at hl
    -- decimal
    have hds : (c :: cs).takeWhile LexSpec.digit = (c :: cs).takeWhile isDigit := takeWhile_congr _ _ digit_eq _
    have hv := value10 (c :: cs)
    have hne : ((c :: cs).takeWhile isDigit).isEmpty = false := by simp [List.takeWhile, hd]
    have hdec : LexSpec.decimal (c :: cs) =
        [(((c :: cs).takeWhile isDigit).length, .Int (.Int (numVal 10 ((c :: cs).takeWhile isDigit))))] := by
      show (if ((c :: cs).takeWhile LexSpec.digit).isEmpty then [] else _) = _
      rw [hds, hne]
      simp only [Bool.false_eq_true, if_false]
      rw [← hds, hv, hds]
    rw [hdec, longest_single] at hl
    simp only [Option.some.injEq, Prod.mk.injEq] at hl
    obtain ⟨hn, hty⟩ := hl
    subst hn hty
    have hm : (LexSpec.digit c && decide (LexSpec.value 10 ((c :: cs).takeWhile LexSpec.digit) 0 ≥ 4294967296)) = false := by
      unfold LexSpec.malformedAt at hmal
      split at hmal
      · rename_i r heq; exact absurd heq (h0x' r)
      · rename_i heq; simp [h2] at heq
      · rename_i c' r' _ _ heq
        simp only [List.cons.injEq] at heq
        obtain ⟨e1, e2⟩ := heq
        subst e1 e2
        exact hmal
      · rename_i heq; simp at heq
    rw [digit_eq, hd, hv] at hm
    simp only [Bool.true_and, decide_eq_false_iff_not, ge_iff_le, Nat.not_le] at hm
    have hch : lexChar (c :: cs) = none := lexChar_ne h2
    have hhx : lexHex (c :: cs) = none := lexHex_not0x c cs h0x'
    have hle : numVal 10 ((c :: cs).takeWhile isDigit) ≤ u32Max := by simp only [u32Max]; omega
    simp only [tailAlts, firstMatch, lexItem, hch, hhx, lexInt, hne, Bool.false_eq_true, if_false, hle, if_true]

/-! ### character literals -/

theorem tick_facts : wordStart '\'' = true ∧ isAlpha '\'' = false ∧ (isAlpha '\'' || '\'' == '_') = false ∧
    isDigit '\'' = false := by decide

theorem char_step (cs : List Char) (hmal : LexSpec.malformedAt ('\'' :: cs) = false) (n : Nat) (ty : TokenType)
    (hl : LexSpec.longest (LexSpec.proposals ('\'' :: cs)) = some (n, ty)) :
    lexOne ('\'' :: cs) = some { ty := ty, n := n } := by
  obtain ⟨h1, h2, h3, h4⟩ := tick_facts
  rw [lexOne_nonalpha '\'' cs h1 h2]
  have hbase : LexSpec.proposals ('\'' :: cs) = LexSpec.charLit ('\'' :: cs) := by
    simp [LexSpec.proposals, spec_comment_nil '\'' cs (by decide), spec_symbol_nil '\'' cs h1,
      spec_word_nil '\'' cs h3, spec_hex_nil '\'' cs (by decide), spec_decimal_nil '\'' cs h4]
  rw [hbase] at hl
  unfold LexSpec.charLit at hl
  split at hl
  · rename_i r heq
    simp only [List.cons.injEq, true_and] at heq
    subst heq
    rw [longest_single] at hl
    simp only [Option.some.injEq, Prod.mk.injEq] at hl
    obtain ⟨hn, hty⟩ := hl
    subst hn hty
    simp only [tailAlts, firstMatch, lexItem, lexChar_esc]
    rfl
  · rename_i hnot c1 r heq
    simp only [List.cons.injEq, true_and] at heq
    subst heq
    rw [longest_single] at hl
    simp only [Option.some.injEq, Prod.mk.injEq] at hl
    obtain ⟨hn, hty⟩ := hl
    subst hn hty
    simp only [tailAlts, firstMatch, lexItem]
    rw [lexChar_plain c1 ('\'' :: r) (by intro r' _ hr; simp at hr)]
    rfl
  · simp [LexSpec.longest] at hl

/-! ### `/` and `//` -/

theorem lexComment_not (cs : List Char) (h : ∀ r, cs ≠ '/' :: r) : lexComment ('/' :: cs) = none := by
  unfold lexComment
  split
  · rename_i r heq
    simp only [List.cons.injEq, true_and] at heq
    exact absurd heq (h r)
  · rfl

theorem spec_comment_not (cs : List Char) (h : ∀ r, cs ≠ '/' :: r) : LexSpec.comment ('/' :: cs) = [] := by
  unfold LexSpec.comment
  split
  · rename_i r heq
    simp only [List.cons.injEq, true_and] at heq
    exact absurd heq (h r)
  · rfl

theorem spec_slash_rest (cs : List Char) :
    LexSpec.proposals ('/' :: cs) = LexSpec.comment ('/' :: cs) ++ [(1, .Divide)] := by
  have h1 : LexSpec.symbol ('/' :: cs) = [(1, .Divide)] := by
    simp [LexSpec.symbol, LexSpec.symbols, LexSpec.isPrefix]
  have h2 : LexSpec.word ('/' :: cs) = [] := by simp [LexSpec.word, LexSpec.letter]
  have h3 : LexSpec.hexadecimal ('/' :: cs) = [] := spec_hex_nil '/' cs (by decide)
  have h4 : LexSpec.decimal ('/' :: cs) = [] := spec_decimal_nil '/' cs (by decide)
  have h5 : LexSpec.charLit ('/' :: cs) = [] := spec_char_nil '/' cs (by decide)
  simp [LexSpec.proposals, h1, h2, h3, h4, h5]

theorem slash_step (cs : List Char) (n : Nat) (ty : TokenType)
    (hl : LexSpec.longest (LexSpec.proposals ('/' :: cs)) = some (n, ty)) :
    lexOne ('/' :: cs) = some { ty := ty, n := n } := by
  rw [spec_slash_rest] at hl
  rw [lexOne_slash]
  by_cases hc : ∃ r, cs = '/' :: r
  · obtain ⟨r, hr⟩ := hc
    subst hr
    have hspec : LexSpec.comment ('/' :: '/' :: r) =
        [(if (r.takeWhile (· != '\n')).length < r.length then 2 + (r.takeWhile (· != '\n')).length + 1
          else 2 + (r.takeWhile (· != '\n')).length, .Comment (r.takeWhile (· != '\n')))] := by
      show (if _ then _ else _) = _
      split <;> simp [*]
    rw [hspec, List.singleton_append, longest_two _ _ (by simp only; split <;> omega)] at hl
    simp only [Option.some.injEq, Prod.mk.injEq] at hl
    obtain ⟨hn, hty⟩ := hl
    subst hn hty
    simp only [firstMatch, lexItem, lexComment_cons]
    cases hd : r.dropWhile (· != '\n') with
    | nil =>
      have := (dropWhile_nil_iff _ _).mp hd
      have hlt : ¬ ((r.takeWhile (· != '\n')).length < r.length) := by omega
      simp [hlt]
    | cons x xs =>
      have hlt : (r.takeWhile (· != '\n')).length < r.length := by
        apply Classical.byContradiction
        intro hge
        have := (dropWhile_nil_iff (· != '\n') r).mpr (by omega)
        rw [hd] at this; cases this
      simp [hlt]
  · have hc' : ∀ r, cs ≠ '/' :: r := fun r e => hc ⟨r, e⟩
    rw [spec_comment_not cs hc', List.nil_append, longest_single] at hl
    simp only [Option.some.injEq, Prod.mk.injEq] at hl
    obtain ⟨hn, hty⟩ := hl
    subst hn hty
    simp only [firstMatch, lexItem, lexComment_not cs hc']
    simp [lexSymbol, Gen.spelling, Kind.plain, stripPrefix]

/-! ### what can follow a token in an accepted text -/

theorem alnum_not_special {d : Char} (h : isAlnumTrunc d = true) : d ≠ '/' ∧ d ≠ '\'' := by
  constructor
  · intro e; subst e; simp [isAlnumTrunc, isAsciiAlphaN, isAsciiDigitN] at h
  · intro e; subst e; simp [isAlnumTrunc, isAsciiAlphaN, isAsciiDigitN] at h

theorem next_ok (d : Char) (r : List Char) (p : LexSpec.Proposal)
    (hl : LexSpec.longest (LexSpec.proposals (d :: r)) = some p) (ha : isAlnumTrunc d = true) :
    LexSpec.wordChar d = true := by
  apply Classical.byContradiction
  intro hw
  have hw' : LexSpec.wordChar d = false := by simpa using hw
  simp only [LexSpec.wordChar, letter_eq, digit_eq, Bool.or_eq_false_iff] at hw'
  obtain ⟨h1, h2⟩ := alnum_not_special ha
  have hsym : LexSpec.symbol (d :: r) = [] := by
    have hok := specSymStartOK_ok
    simp only [specSymStartOK, List.all_eq_true] at hok
    simp only [LexSpec.symbol, List.filterMap_eq_nil_iff]
    intro e he
    have h3 := hok e he
    obtain ⟨sp, ty⟩ := e
    cases sp with
    | nil => simp at h3
    | cons c0 sps =>
      simp only [Bool.and_eq_true, Bool.not_eq_true'] at h3
      have hne : (c0 == d) = false := by
        cases hcc : c0 == d
        · rfl
        · have : c0 = d := by simpa using hcc
          subst this; rw [ha] at h3; cases h3.2
      simp [LexSpec.isPrefix, hne]
  have h0 : d ≠ '0' := by intro e; subst e; simp [isDigit, isAsciiDigitN] at hw'
  have hwl : (isAlpha d || d == '_') = false := by simp [hw'.1.1, hw'.1.2]
  simp [LexSpec.proposals, spec_comment_nil d r h1, hsym, spec_word_nil d r hwl, spec_hex_nil d r h0,
    spec_decimal_nil d r hw'.2, spec_char_nil d r h2, LexSpec.longest] at hl

theorem ws_not_alnum (d : Char) (h : isSpace d = true) : isAlnumTrunc d = false := by
  simp only [isSpace, Bool.or_eq_true, beq_iff_eq] at h
  rcases h with ((h | h) | h) | h <;> subst h <;> decide

theorem go_next : ∀ (fuel : Nat) (r : List Char) (off : Nat) (ts : List Token),
    LexSpec.go fuel r off = some ts →
    ∀ d r', r = d :: r' → isAlnumTrunc d = true → LexSpec.wordChar d = true := by
  intro fuel r off ts h d r' hr ha
  subst hr
  cases fuel with
  | zero => simp [LexSpec.go] at h
  | succ fuel =>
    simp only [LexSpec.go] at h
    split at h
    · rename_i hws
      rw [ws_eq] at hws
      rw [ws_not_alnum d hws] at ha; cases ha
    · split at h
      · cases h
      · split at h
        · cases h
        · rename_i n ty hl
          exact next_ok d r' (n, ty) hl ha

theorem drop_length_takeWhile {α} (f : α → Bool) (l : List α) :
    l.drop (l.takeWhile f).length = l.dropWhile f := by
  induction l with
  | nil => rfl
  | cons a as ih =>
    cases hfa : f a with
    | false => simp [List.takeWhile, List.dropWhile, hfa]
    | true => simp [List.takeWhile, List.dropWhile, hfa, ih]

theorem dropWhile_head {α} (f : α → Bool) (l : List α) (d : α) (r : List α)
    (h : l.dropWhile f = d :: r) : f d = false := by
  induction l with
  | nil => simp at h
  | cons a as ih =>
    cases hfa : f a with
    | false =>
      simp only [List.dropWhile, hfa, List.cons.injEq] at h
      rw [← h.1]; exact hfa
    | true =>
      simp only [List.dropWhile, hfa] at h
      exact ih h

/-- **One token.**  Where the specification recognises a token at the start of a text that it goes
    on to accept, the model recognises the same token, without errors. -/
theorem step (c : Char) (cs : List Char) (hmal : LexSpec.malformedAt (c :: cs) = false)
    (n : Nat) (ty : TokenType) (hl : LexSpec.longest (LexSpec.proposals (c :: cs)) = some (n, ty))
    (hnext : ∀ d r, (c :: cs).drop n = d :: r → isAlnumTrunc d = true → LexSpec.wordChar d = true) :
    lexOne (c :: cs) = some { ty := ty, n := n } := by
  by_cases hslash' : c = '/'
  · subst hslash'; exact slash_step cs n ty hl
  · have hslash : c ≠ '/' := hslash'
    have hslash' : ¬ ('/' = c) := fun e => hslash e.symm
    by_cases htick : c = '\''
    · subst htick; exact char_step cs hmal n ty hl
    · by_cases hdig : isDigit c = true
      · exact digit_step c cs hdig hmal n ty hl
      · by_cases halpha : (isAlpha c || c == '_') = true
        · -- a word
          rw [proposals_word c cs halpha] at hl
          have hcs : cs = cs.takeWhile LexSpec.wordChar ++ cs.dropWhile LexSpec.wordChar :=
            (List.takeWhile_append_dropWhile).symm
          have hrest1 : ∀ d r, cs.dropWhile LexSpec.wordChar = d :: r → LexSpec.wordChar d = false :=
            fun d r h => dropWhile_head _ cs d r h
          have hcw : LexSpec.wordChar c = true := by simp [LexSpec.wordChar, letter_eq, halpha]
          -- the specification's proposal has the length of the maximal word
          have hn : n = (cs.takeWhile LexSpec.wordChar).length + 1 := by
            simp only [LexSpec.word, letter_eq, halpha, if_true, List.takeWhile, hcw] at hl
            split at hl <;> simp only [longest_single, Option.some.injEq, Prod.mk.injEq, List.length_cons] at hl <;>
              exact hl.1.symm
          have hdrop : (c :: cs).drop n = cs.dropWhile LexSpec.wordChar := by
            rw [hn, List.drop_succ_cons, drop_length_takeWhile]
          obtain ⟨ty0, hw1, hw2⟩ := word_step c (cs.takeWhile LexSpec.wordChar) (cs.dropWhile LexSpec.wordChar) halpha
            (fun x hx => mem_takeWhile _ _ x hx)
            (fun d r h => ⟨hrest1 d r h, by
              cases hal : isAlnumTrunc d with
              | false => rfl
              | true =>
                have := hnext d r (by rw [hdrop, h]) hal
                rw [hrest1 d r h] at this; cases this⟩)
          rw [← hcs] at hw1 hw2
          rw [hw1, longest_single] at hl
          simp only [Option.some.injEq, Prod.mk.injEq] at hl
          rw [← hl.1, ← hl.2]
          exact hw2
        · -- a symbol, or nothing
          by_cases hc0 : c = '('
          · subst hc0
            rw [spec_lparen, longest_single] at hl
            simp only [Option.some.injEq, Prod.mk.injEq] at hl
            obtain ⟨hn, hty⟩ := hl
            subst hn hty
            exact model_lparen cs
          · have hq0 : ¬ ('(' = c) := fun e => hc0 e.symm
            by_cases hc1 : c = ')'
            · subst hc1
              rw [spec_rparen, longest_single] at hl
              simp only [Option.some.injEq, Prod.mk.injEq] at hl
              obtain ⟨hn, hty⟩ := hl
              subst hn hty
              exact model_rparen cs
            · have hq1 : ¬ (')' = c) := fun e => hc1 e.symm
              by_cases hc2 : c = '['
              · subst hc2
                rw [spec_lbracket, longest_single] at hl
                simp only [Option.some.injEq, Prod.mk.injEq] at hl
                obtain ⟨hn, hty⟩ := hl
                subst hn hty
                exact model_lbracket cs
              · have hq2 : ¬ ('[' = c) := fun e => hc2 e.symm
                by_cases hc3 : c = ']'
                · subst hc3
                  rw [spec_rbracket, longest_single] at hl
                  simp only [Option.some.injEq, Prod.mk.injEq] at hl
                  obtain ⟨hn, hty⟩ := hl
                  subst hn hty
                  exact model_rbracket cs
                · have hq3 : ¬ (']' = c) := fun e => hc3 e.symm
                  by_cases hc4 : c = '{'
                  · subst hc4
                    rw [spec_lcurly, longest_single] at hl
                    simp only [Option.some.injEq, Prod.mk.injEq] at hl
                    obtain ⟨hn, hty⟩ := hl
                    subst hn hty
                    exact model_lcurly cs
                  · have hq4 : ¬ ('{' = c) := fun e => hc4 e.symm
                    by_cases hc5 : c = '}'
                    · subst hc5
                      rw [spec_rcurly, longest_single] at hl
                      simp only [Option.some.injEq, Prod.mk.injEq] at hl
                      obtain ⟨hn, hty⟩ := hl
                      subst hn hty
                      exact model_rcurly cs
                    · have hq5 : ¬ ('}' = c) := fun e => hc5 e.symm
                      by_cases hc6 : c = '='
                      · subst hc6
                        rw [spec_eq, longest_single] at hl
                        simp only [Option.some.injEq, Prod.mk.injEq] at hl
                        obtain ⟨hn, hty⟩ := hl
                        subst hn hty
                        exact model_eq cs
                      · have hq6 : ¬ ('=' = c) := fun e => hc6 e.symm
                        by_cases hc7 : c = '#'
                        · subst hc7
                          rw [spec_neq, longest_single] at hl
                          simp only [Option.some.injEq, Prod.mk.injEq] at hl
                          obtain ⟨hn, hty⟩ := hl
                          subst hn hty
                          exact model_neq cs
                        · have hq7 : ¬ ('#' = c) := fun e => hc7 e.symm
                          by_cases hc8 : c = ','
                          · subst hc8
                            rw [spec_comma, longest_single] at hl
                            simp only [Option.some.injEq, Prod.mk.injEq] at hl
                            obtain ⟨hn, hty⟩ := hl
                            subst hn hty
                            exact model_comma cs
                          · have hq8 : ¬ (',' = c) := fun e => hc8 e.symm
                            by_cases hc9 : c = ';'
                            · subst hc9
                              rw [spec_semic, longest_single] at hl
                              simp only [Option.some.injEq, Prod.mk.injEq] at hl
                              obtain ⟨hn, hty⟩ := hl
                              subst hn hty
                              exact model_semic cs
                            · have hq9 : ¬ (';' = c) := fun e => hc9 e.symm
                              by_cases hc10 : c = '+'
                              · subst hc10
                                rw [spec_plus, longest_single] at hl
                                simp only [Option.some.injEq, Prod.mk.injEq] at hl
                                obtain ⟨hn, hty⟩ := hl
                                subst hn hty
                                exact model_plus cs
                              · have hq10 : ¬ ('+' = c) := fun e => hc10 e.symm
                                by_cases hc11 : c = '-'
                                · subst hc11
                                  rw [spec_minus, longest_single] at hl
                                  simp only [Option.some.injEq, Prod.mk.injEq] at hl
                                  obtain ⟨hn, hty⟩ := hl
                                  subst hn hty
                                  exact model_minus cs
                                · have hq11 : ¬ ('-' = c) := fun e => hc11 e.symm
                                  by_cases hc12 : c = '*'
                                  · subst hc12
                                    rw [spec_times, longest_single] at hl
                                    simp only [Option.some.injEq, Prod.mk.injEq] at hl
                                    obtain ⟨hn, hty⟩ := hl
                                    subst hn hty
                                    exact model_times cs
                                  · have hq12 : ¬ ('*' = c) := fun e => hc12 e.symm
                                    by_cases hc13 : c = '<'
                                    · subst hc13
                                      by_cases he : ∃ r, cs = '=' :: r
                                      · obtain ⟨r, hr⟩ := he
                                        subst hr
                                        rw [spec_lt_eq, longest_two' _ _ (by simp)] at hl
                                        simp only [Option.some.injEq, Prod.mk.injEq] at hl
                                        obtain ⟨hn, hty⟩ := hl
                                        subst hn hty
                                        exact model_lt_eq r
                                      · have he' : ∀ r, cs ≠ '=' :: r := fun r e => he ⟨r, e⟩
                                        rw [spec_lt_ne cs he', longest_single] at hl
                                        simp only [Option.some.injEq, Prod.mk.injEq] at hl
                                        obtain ⟨hn, hty⟩ := hl
                                        subst hn hty
                                        exact model_lt_ne cs he'
                                    · have hq13 : ¬ ('<' = c) := fun e => hc13 e.symm
                                      by_cases hc14 : c = '>'
                                      · subst hc14
                                        by_cases he : ∃ r, cs = '=' :: r
                                        · obtain ⟨r, hr⟩ := he
                                          subst hr
                                          rw [spec_gt_eq, longest_two' _ _ (by simp)] at hl
                                          simp only [Option.some.injEq, Prod.mk.injEq] at hl
                                          obtain ⟨hn, hty⟩ := hl
                                          subst hn hty
                                          exact model_gt_eq r
                                        · have he' : ∀ r, cs ≠ '=' :: r := fun r e => he ⟨r, e⟩
                                          rw [spec_gt_ne cs he', longest_single] at hl
                                          simp only [Option.some.injEq, Prod.mk.injEq] at hl
                                          obtain ⟨hn, hty⟩ := hl
                                          subst hn hty
                                          exact model_gt_ne cs he'
                                      · have hq14 : ¬ ('>' = c) := fun e => hc14 e.symm
                                        by_cases hc15 : c = ':'
                                        · subst hc15
                                          by_cases he : ∃ r, cs = '=' :: r
                                          · obtain ⟨r, hr⟩ := he
                                            subst hr
                                            rw [spec_colon_eq, longest_two _ _ (by simp)] at hl
                                            simp only [Option.some.injEq, Prod.mk.injEq] at hl
                                            obtain ⟨hn, hty⟩ := hl
                                            subst hn hty
                                            exact model_colon_eq r
                                          · have he' : ∀ r, cs ≠ '=' :: r := fun r e => he ⟨r, e⟩
                                            rw [spec_colon_ne cs he', longest_single] at hl
                                            simp only [Option.some.injEq, Prod.mk.injEq] at hl
                                            obtain ⟨hn, hty⟩ := hl
                                            subst hn hty
                                            exact model_colon_ne cs he'
                                        · have hq15 : ¬ (':' = c) := fun e => hc15 e.symm
                                          -- no class proposes for this character
                                          exfalso
                                          have hsym : LexSpec.symbol (c :: cs) = [] := by
                                            simp [LexSpec.symbol, LexSpec.symbols, LexSpec.isPrefix, hq0, hq1, hq2, hq3, hq4, hq5, hq6, hq7, hq8, hq9, hq10, hq11, hq12, hq13, hq14, hq15, hslash']
                                          have hd' : isDigit c = false := by simpa using hdig
                                          have ha' : (isAlpha c || c == '_') = false := by simpa using halpha
                                          have h0 : c ≠ '0' := by intro e; subst e; simp [isDigit, isAsciiDigitN] at hd'
                                          simp [LexSpec.proposals, spec_comment_nil c cs hslash, hsym, spec_word_nil c cs ha', spec_hex_nil c cs h0,
                                            spec_decimal_nil c cs hd', spec_char_nil c cs htick, LexSpec.longest] at hl

/-! ### the whole text -/

theorem go_conforms : ∀ (fuel : Nat) (s : List Char) (off : Nat) (ts : List Token),
    LexSpec.go fuel s off = some ts → ts = lexL s off ++ [eofToken (off + utf8Len s)] := by
  intro fuel
  induction fuel with
  | zero => intro s off ts h; simp [LexSpec.go] at h
  | succ fuel ih =>
    intro s off ts h
    cases s with
    | nil =>
      simp only [LexSpec.go, Option.some.injEq] at h
      subst h
      simp [eofToken]
    | cons c cs =>
      simp only [LexSpec.go] at h
      split at h
      · rename_i hws
        rw [ws_eq] at hws
        have := ih cs _ ts h
        rw [lexL_space hws, this]
        simp only [utf8Len_cons, Nat.add_assoc]
      · rename_i hws
        have hws' : isSpace c = false := by rw [ws_eq] at hws; simpa using hws
        split at h
        · cases h
        · rename_i hmal
          have hmal' : LexSpec.malformedAt (c :: cs) = false := by simpa using hmal
          split at h
          · cases h
          · rename_i n ty hl
            split at h
            · cases h
            · rename_i hn0
              split at h
              · cases h
              · rename_i ts' hgo
                simp only [Option.some.injEq] at h
                subst h
                have hnext := go_next fuel _ _ ts' hgo
                have hone := step c cs hmal' n ty hl hnext
                have hrec := ih _ _ ts' hgo
                rw [lexL_token hws' hone, hrec, bytes_eq]
                have hsum := utf8Len_take_drop (c :: cs) n
                simp only [mkToken, List.map_nil, List.cons_append, List.cons.injEq, true_and]
                have e : off + utf8Len ((c :: cs).take n) + utf8Len ((c :: cs).drop n) = off + utf8Len (c :: cs) := by
                  omega
                rw [e]

end Spl.Conform
